(* C06 proofs, version-vector protocol with any resolver, part 3: every regular step of the chain preserves the
   invariant; Pull; Push between an active peer and the passive one makes them agree; the chain catch-up
   A-pull, A-push, C-pull, C-push, A-pull makes all three agree and its last pull never runs a resolver. *)
From SG Require Import Base.Prelude C10.AMap C10.HLV C10.HLVProofs C10.HLVOps C10.HLVUpdate
  C06.VV C06.VVProofs C06.VVF C06.VVG C06.VVGProofs C06.VVGInv.
Open Scope N_scope.
#[local] Arguments N.max : simpl never.
#[local] Arguments N.eqb : simpl never.
#[local] Arguments N.leb : simpl never.
#[local] Arguments N.ltb : simpl never.
#[local] Arguments N.add : simpl never.

(* ---------- a transfer step, spelled out ---------- *)
Lemma gstep_xfer : forall s from to res d phys, from <> 0 -> to <> 0 -> from <> to ->
  let t := gtransfer res to phys (gclk s to) (gdoc s from d) (gdoc s to d) in
  gstep s (GXfer from to res d phys) = store_state s to d (fst (fst t)) (snd t) /\
  gstatus_of s (GXfer from to res d phys) = snd (fst t).
Proof.
  intros s from to res d phys H1 H2 H3. cbn zeta. unfold gstep, gstatus_of, gstep_full.
  destruct (N.eqb_spec from 0); [contradiction|]. destruct (N.eqb_spec to 0); [contradiction|].
  destruct (N.eqb_spec from to); [contradiction|]. cbn [orb].
  unfold gclk. destruct (gtransfer res to phys (p_clk (s to)) (gdoc s from d) (gdoc s to d)) as [[x st] clk].
  cbn [fst snd]. split; reflexivity.
Qed.

Lemma store_same_inv : forall s me d, CInv s -> CInv (store_state s me d (gdoc s me d) (gclk s me)).
Proof.
  intros s me d I. apply (CInv_ext s); auto.
  - intros p d'. rewrite gdoc_store. destruct (N.eqb_spec p me); [|reflexivity]. subst.
    destruct (N.eqb_spec d' d); [subst; reflexivity|reflexivity].
  - intros q. rewrite gclk_store. unfold bump. destruct (N.eqb_spec q me); subst; reflexivity.
Qed.

Lemma xfer_inv : forall s from to res d phys, CInv s -> chain_op (GXfer from to res d phys) ->
  greg s (GXfer from to res d phys) = true -> CInv (gstep s (GXfer from to res d phys)).
Proof.
  intros s from to res d phys I Ch Reg. cbn [chain_op greg] in *.
  assert (NZ : from <> 0 /\ to <> 0 /\ from <> to).
  { destruct Ch as [[-> [A _]] | [A [-> _]]]; pose proof (active_not2 _ A); pose proof (active_nz _ A); repeat split; auto; discriminate. }
  destruct NZ as [H1 [H2 H3]].
  destruct (gstep_xfer s from to res d phys H1 H2 H3) as [E _]. cbn zeta in E. rewrite E. clear E.
  destruct (gdoc s from d) as [i|] eqn:Xi.
  2:{ cbn [gtransfer fst snd]. now apply store_same_inv. }
  assert (Ol : forall x, gdoc s to d = Some x -> okv (gclk s) (d_hlv x)) by (intros x X; eapply (ci_ok s I); eauto).
  pose proof (gtransfer_cases (gclk s) res to phys i (gdoc s to d) H2 (ci_ok s I from d i Xi) Ol Reg) as K. cbn zeta in K.
  destruct K as [[E1 [E2 _]] | [r [E1 [St [RN _]]]]].
  - rewrite E1, E2. now apply store_same_inv.
  - rewrite E1. destruct Ch as [[-> [A _]] | [A [-> RNone]]].
    + eapply pull_inv; eauto.
    + destruct (RN RNone) as [C [B D]]. eapply push_inv; eauto.
Qed.

Theorem gstep_inv : forall s o, CInv s -> chain_op o -> greg s o = true -> CInv (gstep s o).
Proof.
  intros s o I Ch Reg. destruct o as [p d body phys | p d phys | from to res d phys].
  - cbn [chain_op] in Ch. unfold gstep, gstep_full. destruct (N.eqb_spec p 0); [destruct Ch as [->|[->| ->]]; discriminate|].
    cbn [fst]. now apply write_inv.
  - cbn [chain_op] in Ch. unfold gstep, gstep_full. destruct (N.eqb_spec p 0); [destruct Ch as [->|[->| ->]]; discriminate|].
    destruct (gdoc s p d); cbn [fst]; [now apply write_inv | exact I].
  - now apply xfer_inv.
Qed.

Theorem grun_inv : forall ops s, CInv s -> Forall chain_op ops -> greg_from s ops = true -> CInv (grun s ops).
Proof.
  induction ops as [|o r IH]; intros s I F R; [exact I|]. inv F. cbn [greg_from] in R. apply andb_true_iff in R.
  destruct R as [R1 R2]. cbn [grun]. apply IH; auto. now apply gstep_inv.
Qed.

Lemma greg_app : forall a b s, greg_from s (a ++ b) = greg_from s a && greg_from (grun s a) b.
Proof.
  induction a as [|o r IH]; intros b s; [reflexivity|]. cbn [app greg_from grun]. rewrite IH. now rewrite andb_assoc.
Qed.

Lemma grun_app : forall a b s, grun s (a ++ b) = grun (grun s a) b.
Proof. induction a as [|o r IH]; intros b s; [reflexivity|]. cbn [app grun]. apply IH. Qed.

(* ---------- Pull; Push between the active peer a and the passive peer ---------- *)
Definition gpull (a : N) (f : vresolver) (d phys : N) : gop := GXfer 2 a (Some f) d phys.
Definition gpush (a : N) (d : N) : gop := GXfer a 2 None d 0.

Lemma vobs_adopted : forall r i, cv (d_hlv r) = cv (d_hlv i) -> d_body r = d_body i -> d_del r = d_del i ->
  vobs (Some r) = vobs (Some i).
Proof. intros r i C B D. unfold vobs. now rewrite C, B, D. Qed.

(* what a pull leaves on the active peer, seen from the passive copy y *)
Definition pulled (s : gsys) (a d : N) (xo' : option vdoc) : Prop :=
  match gdoc s 2 d with
  | None => xo' = gdoc s a d
  | Some y =>
      exists x', xo' = Some x' /\ okv (gclk s) (d_hlv y) /\
        (cv (d_hlv x') = cv (d_hlv y) \/ dominates (d_hlv y) (cv (d_hlv x')) = false) /\
        ver (d_hlv y) <= value (d_hlv x') (src (d_hlv y)) /\
        (d_del x' && d_del y = true -> cv (d_hlv x') = cv (d_hlv y) \/ dominates (d_hlv y) (cv (d_hlv x')) = false)
  end.

Lemma pull_step : forall s a f d phys, CInv s -> active a -> greg s (gpull a f d phys) = true ->
  let s1 := gstep s (gpull a f d phys) in
  CInv s1 /\ (forall p d', (p, d') <> (a, d) -> gdoc s1 p d' = gdoc s p d') /\
  (forall q, gclk s q <= gclk s1 q) /\
  pulled s a d (gdoc s1 a d).
Proof.
  intros s a f d phys I A Reg. cbn zeta.
  pose proof (active_not2 a A) as N2. pose proof (active_nz a A) as Nz.
  assert (Ch : chain_op (gpull a f d phys)) by (left; repeat split; auto; discriminate).
  split; [now apply gstep_inv|].
  unfold gpull in *. destruct (gstep_xfer s 2 a (Some f) d phys ltac:(discriminate) Nz ltac:(auto)) as [E _].
  cbn zeta in E. rewrite E. clear E. cbn [greg] in Reg.
  split; [|split].
  - intros p d' NE. rewrite gdoc_store. destruct (N.eqb_spec p a), (N.eqb_spec d' d); subst; try reflexivity. congruence.
  - intros q. rewrite gclk_store.
    assert (L : gclk s a <= snd (gtransfer (Some f) a phys (gclk s a) (gdoc s 2 d) (gdoc s a d))).
    { destruct (gdoc s 2 d) as [i|] eqn:Yi; [|cbn; lia].
      assert (Ol : forall x, gdoc s a d = Some x -> okv (gclk s) (d_hlv x)) by (intros x X; eapply (ci_ok s I); eauto).
      pose proof (gtransfer_cases (gclk s) (Some f) a phys i (gdoc s a d) Nz (ci_ok s I 2 d i Yi) Ol Reg) as K. cbn zeta in K.
      destruct K as [[_ [E2 _]] | [r [_ [St _]]]]; [rewrite E2; lia | apply (st_clk _ _ _ _ _ _ St)]. }
    apply bump_ge. exact L.
  - rewrite gdoc_store, !N.eqb_refl. cbn [andb]. unfold pulled.
    destruct (gdoc s 2 d) as [y|] eqn:Yi; [|reflexivity].
    pose proof (ci_ok s I 2 d y Yi) as Oy.
    assert (Ol : forall x, gdoc s a d = Some x -> okv (gclk s) (d_hlv x)) by (intros x X; eapply (ci_ok s I); eauto).
    pose proof (gtransfer_cases (gclk s) (Some f) a phys y (gdoc s a d) Nz Oy Ol Reg) as K. cbn zeta in K.
    destruct K as [[E1 [_ [Kp [KK [KC KA]]]]] | [r [E1 [St _]]]].
    + (* nothing stored: known (or "already present", which is the same thing here) *)
      rewrite E1. destruct Kp as [Kp|[Kp|Kp]].
      * destruct (KK Kp) as [x [X D]]. rewrite X. exists x. split; [reflexivity|]. split; [exact Oy|].
        pose proof (ci_ok s I a d x X) as Ox.
        assert (VL : ver (d_hlv y) <= value (d_hlv x) (src (d_hlv y))) by (apply (dom_cv _ _ _ Oy); exact D).
        destruct (dominates (d_hlv y) (cv (d_hlv x))) eqn:D2.
        -- pose proof (ci_m s I a d x y A X Yi D D2) as C. repeat split; auto.
        -- repeat split; auto.
      * destruct (KA Kp) as [x [X [D IC]]]. exfalso.
        apply (proj1 (status_cases _ _)) in IC. destruct IC as [IC|[_ IC]]; [|congruence].
        apply equal_cv_spec in IC. pose proof (ci_ok s I a d x X) as Ox.
        rewrite <- IC in D. rewrite dominates_own_cv in D; [discriminate | eapply okv_src; eauto].
      * destruct (KC Kp) as [F _]. discriminate.
    + rewrite E1. exists r. split; [reflexivity|]. split; [exact Oy|].
      assert (VL : ver (d_hlv y) <= value (d_hlv r) (src (d_hlv y))).
      { pose proof (st_ge_i _ _ _ _ _ _ St (src (d_hlv y)) (okv_src _ _ Oy)) as G. rewrite (value_own _ (okv_src _ _ Oy)) in G. exact G. }
      destruct (st_kind _ _ _ _ _ _ St) as [[C _] | [[x [X [C [_ [Dl [Dn [Ne Tb]]]]]]] | [C L]]].
      * repeat split; auto.
      * split; [right; rewrite C; exact Dn|]. split; [exact VL|]. intros _. right. rewrite C. exact Dn.
      * assert (F : dominates (d_hlv y) (cv (d_hlv r)) = false).
        { rewrite C. destruct (fresh_unknown s 2 d y a _ I Yi L). assumption. }
        split; [right; exact F|]. split; [exact VL|]. intros _. right. exact F.
Qed.

Lemma push_step : forall s a d, CInv s -> active a -> greg s (gpush a d) = true ->
  pulled s a d (gdoc s a d) ->
  let s2 := gstep s (gpush a d) in
  CInv s2 /\ (forall p d', (p, d') <> (2, d) -> gdoc s2 p d' = gdoc s p d') /\
  (forall q, gclk s q <= gclk s2 q) /\
  vobs (gdoc s2 a d) = vobs (gdoc s2 2 d) /\
  (forall y y2, gdoc s 2 d = Some y -> gdoc s2 2 d = Some y2 -> forall q, q <> 0 -> value (d_hlv y) q <= value (d_hlv y2) q) /\
  (gdoc s 2 d <> None -> gdoc s2 2 d <> None).
Proof.
  intros s a d I A Reg PL. cbn zeta.
  pose proof (active_not2 a A) as N2. pose proof (active_nz a A) as Nz.
  assert (Ch : chain_op (gpush a d)) by (right; repeat split; auto).
  split; [now apply gstep_inv|].
  unfold gpush in *. destruct (gstep_xfer s a 2 None d 0 Nz ltac:(discriminate) N2) as [E _].
  cbn zeta in E. rewrite E. clear E. cbn [greg] in Reg.
  assert (Ea : (a =? 2) = false) by (apply N.eqb_neq; auto).
  assert (Same : forall p d', (p, d') <> (2, d) -> forall r c, gdoc (store_state s 2 d r c) p d' = gdoc s p d').
  { intros p d' NE r c. rewrite gdoc_store. destruct (N.eqb_spec p 2), (N.eqb_spec d' d); subst; try reflexivity. congruence. }
  split; [intros p d' NE; apply Same; exact NE|].
  assert (XA : forall r c, gdoc (store_state s 2 d r c) a d = gdoc s a d) by (intros; apply Same; congruence).
  rewrite XA. rewrite gdoc_store, !N.eqb_refl. cbn [andb].
  destruct (gdoc s a d) as [x|] eqn:X.
  2:{ (* the active peer has no copy: the passive one has none either *)
      cbn [gtransfer fst snd]. split; [intros q; rewrite gclk_store; apply bump_ge; lia|].
      unfold pulled in PL. destruct (gdoc s 2 d) as [y|] eqn:Y.
      - destruct PL as [x' [F _]]. discriminate.
      - split; [reflexivity|]. split; [intros y y2 F; discriminate | auto]. }
  pose proof (ci_ok s I a d x X) as Ox.
  assert (Ol : forall y, gdoc s 2 d = Some y -> okv (gclk s) (d_hlv y)) by (intros y Y; eapply (ci_ok s I); eauto).
  pose proof (gtransfer_cases (gclk s) None 2 0 x (gdoc s 2 d) ltac:(discriminate) Ox Ol Reg) as K. cbn zeta in K.
  destruct K as [[E1 [E2 [Kp [KK [KC KA]]]]] | [r [E1 [St [RN _]]]]].
  - rewrite E1, E2. split; [intros q; rewrite gclk_store; apply bump_ge; lia|].
    split; [|split; [intros y y2 Y Y2; rewrite Y in Y2; inv Y2; intros; lia | auto]].
    unfold pulled in PL. destruct Kp as [Kp|[Kp|Kp]].
    + destruct (KK Kp) as [y [Y D]]. rewrite Y in *. destruct PL as [x' [Ex [Oy [CD [VL _]]]]]. inv Ex.
      destruct CD as [C|F]; [|congruence].
      destruct (ci_uniq s I a 2 d x' y X Y C) as [B Dl]. unfold vobs. now rewrite C, B, Dl.
    + destruct (KA Kp) as [y [Y [D IC]]]. exfalso.
      apply (proj1 (status_cases _ _)) in IC. destruct IC as [IC|[_ IC]]; [|congruence].
      apply equal_cv_spec in IC. rewrite <- IC in D. rewrite dominates_own_cv in D; [discriminate | eapply okv_src; eauto].
    + (* refused with 409: impossible after the pull *)
      exfalso. destruct (KC Kp) as [_ [y [Y [D1 [D2 Tb]]]]]. rewrite Y in PL.
      destruct PL as [x' [Ex [Oy [_ [VL _]]]]]. inv Ex.
      apply (dom_cv_false _ _ _ Oy) in D2. lia.
  - rewrite E1. destruct (RN eq_refl) as [C [B D]].
    split; [intros q; rewrite gclk_store; apply bump_ge; apply (st_clk _ _ _ _ _ _ St)|].
    split; [symmetry; apply vobs_adopted; auto|].
    split; [|discriminate]. intros y y2 Y Y2. inv Y2. apply (st_ge_l _ _ _ _ _ _ St y Y).
Qed.

(* Pull; Push: the active peer and the passive peer agree *)
Theorem pull_push_agree : forall s a f d phys, CInv s -> active a ->
  greg_from s [gpull a f d phys; gpush a d] = true ->
  let s2 := grun s [gpull a f d phys; gpush a d] in
  CInv s2 /\ vobs (gdoc s2 a d) = vobs (gdoc s2 2 d).
Proof.
  intros s a f d phys I A Reg. cbn [greg_from] in Reg. apply andb_true_iff in Reg. destruct Reg as [R1 R2].
  apply andb_true_iff in R2. destruct R2 as [R2 _]. cbn zeta. cbn [grun].
  destruct (pull_step s a f d phys I A R1) as [I1 [Oth1 [_ PL]]]. cbn zeta in *.
  set (s1 := gstep s (gpull a f d phys)) in *.
  assert (PL1 : pulled s1 a d (gdoc s1 a d)).
  { unfold pulled in *. rewrite (Oth1 2 d) by (intros E; inv E; apply (active_not2 _ A); auto).
    destruct (gdoc s 2 d) as [y|] eqn:Y.
    - destruct PL as [x' [E [Oy P]]]. exists x'. split; [exact E|]. split; [|exact P].
      eapply (ci_ok s1 I1 2 d y). rewrite (Oth1 2 d) by (intros E'; inv E'; apply (active_not2 _ A); auto). exact Y.
    - reflexivity. }
  destruct (push_step s1 a d I1 A R2 PL1) as [I2 [_ [_ [O _]]]]. auto.
Qed.

(* ---------- a pull when the passive copy already knows the active copy's current version: no resolver runs ---------- *)
Definition quiet (st : gstatus) : Prop := st = GNothing \/ st = GKnown \/ st = GApplied.

Lemma last_pull : forall s a f d phys, CInv s -> active a -> greg s (gpull a f d phys) = true ->
  (forall x y, gdoc s a d = Some x -> gdoc s 2 d = Some y -> dominates (d_hlv y) (cv (d_hlv x)) = true) ->
  (gdoc s 2 d = None -> gdoc s a d = None) ->
  let s1 := gstep s (gpull a f d phys) in
  vobs (gdoc s1 a d) = vobs (gdoc s1 2 d) /\ quiet (gstatus_of s (gpull a f d phys)) /\
  (forall p d', (p, d') <> (a, d) -> gdoc s1 p d' = gdoc s p d').
Proof.
  intros s a f d phys I A Reg KN NN. cbn zeta.
  pose proof (active_not2 a A) as N2. pose proof (active_nz a A) as Nz.
  unfold gpull in *. destruct (gstep_xfer s 2 a (Some f) d phys ltac:(discriminate) Nz ltac:(auto)) as [E Es].
  cbn zeta in E, Es. rewrite E, Es. clear E Es. cbn [greg] in Reg.
  assert (Same : forall p d', (p, d') <> (a, d) -> forall r c, gdoc (store_state s a d r c) p d' = gdoc s p d').
  { intros p d' NE r c. rewrite gdoc_store. destruct (N.eqb_spec p a), (N.eqb_spec d' d); subst; try reflexivity. congruence. }
  split; [|split; [|intros p d' NE; apply Same; exact NE]].
  - rewrite (Same 2 d) by (intros F; inv F; auto). rewrite gdoc_store, !N.eqb_refl. cbn [andb].
    destruct (gdoc s 2 d) as [y|] eqn:Y.
    2:{ rewrite (NN eq_refl). reflexivity. }
    assert (Ol : forall x, gdoc s a d = Some x -> okv (gclk s) (d_hlv x)) by (intros x X; eapply (ci_ok s I); eauto).
    pose proof (gtransfer_cases (gclk s) (Some f) a phys y (gdoc s a d) Nz (ci_ok s I 2 d y Y) Ol Reg) as K. cbn zeta in K.
    destruct K as [[E1 [_ [Kp [KK [KC KA]]]]] | [r [E1 [St _]]]].
    + rewrite E1. destruct Kp as [Kp|[Kp|Kp]].
      * destruct (KK Kp) as [x [X D]]. rewrite X. pose proof (KN x y X eq_refl) as D2.
        pose proof (ci_m s I a d x y A X Y D D2) as C. destruct (ci_uniq s I a 2 d x y X Y C) as [B Dl].
        unfold vobs. now rewrite C, B, Dl.
      * destruct (KA Kp) as [x [X [D IC]]]. exfalso.
        apply (proj1 (status_cases _ _)) in IC. destruct IC as [IC|[_ IC]]; [|congruence].
        apply equal_cv_spec in IC. rewrite <- IC in D. rewrite dominates_own_cv in D; [discriminate|].
        eapply okv_src. eapply (ci_ok s I); eauto.
      * destruct (KC Kp) as [F _]. discriminate.
    + rewrite E1. destruct (st_kind _ _ _ _ _ _ St) as [[C [B Dl]] | [[x [X [_ [_ [_ [Dn _]]]]]] | [C L]]].
      * apply vobs_adopted; auto.
      * rewrite (KN x y X eq_refl) in Dn. discriminate.
      * (* a merge needs a conflict *) exfalso.
        pose proof (gtransfer_cases (gclk s) (Some f) a phys y (gdoc s a d) Nz (ci_ok s I 2 d y Y) Ol Reg) as K. cbn zeta in K.
        destruct K as [[E1' _] | [r' [E1' [St' [_ [_ [GA NA]]]]]]].
        -- rewrite E1 in E1'. destruct (gdoc s a d) as [x|] eqn:X.
           ++ inv E1'. pose proof (st_new _ _ _ _ _ _ St x eq_refl) as Dx.
              pose proof (ci_ok s I a d x X) as Ox.
              destruct (fresh_unknown s a d x a _ I X L) as [_ F]. congruence.
           ++ discriminate.
        -- rewrite E1 in E1'. inv E1'.
           destruct (gstatus_eqb (snd (fst (gtransfer (Some f) a phys (gclk s a) (Some y) (gdoc s a d)))) GApplied) eqn:SA.
           ++ assert (snd (fst (gtransfer (Some f) a phys (gclk s a) (Some y) (gdoc s a d))) = GApplied)
                by (destruct (snd (fst (gtransfer (Some f) a phys (gclk s a) (Some y) (gdoc s a d)))); cbn in SA; congruence).
              pose proof (GA H) as Cy. rewrite C in Cy.
              destruct (fresh_unknown s 2 d y a _ I Y L) as [_ F]. congruence.
           ++ assert (Hne : snd (fst (gtransfer (Some f) a phys (gclk s a) (Some y) (gdoc s a d))) <> GApplied)
                by (intros Hq; rewrite Hq in SA; cbn in SA; discriminate).
              destruct (NA Hne) as [x [X Dn]]. rewrite (KN x y X eq_refl) in Dn. discriminate.
  - destruct (gdoc s 2 d) as [y|] eqn:Y; [|cbn; unfold quiet; auto].
    assert (Ol : forall x, gdoc s a d = Some x -> okv (gclk s) (d_hlv x)) by (intros x X; eapply (ci_ok s I); eauto).
    pose proof (gtransfer_cases (gclk s) (Some f) a phys y (gdoc s a d) Nz (ci_ok s I 2 d y Y) Ol Reg) as K. cbn zeta in K.
    destruct K as [[_ [_ [Kp [KK [KC KA]]]]] | [r [_ [_ [_ [_ [_ NA]]]]]]].
    + destruct Kp as [Kp|[Kp|Kp]].
      * unfold quiet. auto.
      * destruct (KA Kp) as [x [X [D IC]]]. exfalso.
        apply (proj1 (status_cases _ _)) in IC. destruct IC as [IC|[_ IC]]; [|congruence].
        apply equal_cv_spec in IC. rewrite <- IC in D. rewrite dominates_own_cv in D; [discriminate|].
        eapply okv_src. eapply (ci_ok s I); eauto.
      * destruct (KC Kp) as [F _]. discriminate.
    + destruct (gstatus_eqb (snd (fst (gtransfer (Some f) a phys (gclk s a) (Some y) (gdoc s a d)))) GApplied) eqn:SA.
      * unfold quiet. right. right.
        destruct (snd (fst (gtransfer (Some f) a phys (gclk s a) (Some y) (gdoc s a d)))); cbn in SA; congruence.
      * assert (Hne : snd (fst (gtransfer (Some f) a phys (gclk s a) (Some y) (gdoc s a d))) <> GApplied)
          by (intros Hq; rewrite Hq in SA; cbn in SA; discriminate).
        destruct (NA Hne) as [x [X Dn]]. rewrite (KN x y X eq_refl) in Dn. discriminate.
Qed.

(* ---------- the chain catch-up ---------- *)
Definition chain_final (fA fC fA' : vresolver) (d p1 p2 p3 : N) : list gop :=
  [gpull 1 fA d p1; gpush 1 d; gpull 3 fC d p2; gpush 3 d; gpull 1 fA' d p3].

Lemma active1 : active 1. Proof. left; reflexivity. Qed.
Lemma active3 : active 3. Proof. right; reflexivity. Qed.

Theorem chain_catch_up : forall s fA fC fA' d p1 p2 p3, CInv s ->
  greg_from s (chain_final fA fC fA' d p1 p2 p3) = true ->
  let s4 := grun s [gpull 1 fA d p1; gpush 1 d; gpull 3 fC d p2; gpush 3 d] in
  let s5 := gstep s4 (gpull 1 fA' d p3) in
  vobs (gdoc s5 1 d) = vobs (gdoc s5 2 d) /\ vobs (gdoc s5 3 d) = vobs (gdoc s5 2 d) /\
  quiet (gstatus_of s4 (gpull 1 fA' d p3)).
Proof.
  intros s fA fC fA' d p1 p2 p3 I Reg. unfold chain_final in Reg. cbn [greg_from] in Reg.
  repeat (apply andb_true_iff in Reg; let R := fresh "R" in destruct Reg as [R Reg]). clear Reg.
  cbn zeta. cbn [grun].
  (* A: pull, push *)
  destruct (pull_step s 1 fA d p1 I active1 R) as [I1 [Oth1 [_ PL]]]. cbn zeta in *.
  set (s1 := gstep s (gpull 1 fA d p1)) in *.
  assert (PL1 : pulled s1 1 d (gdoc s1 1 d)).
  { unfold pulled in *. rewrite (Oth1 2 d) by discriminate.
    destruct (gdoc s 2 d) as [y|] eqn:Y; [|reflexivity].
    destruct PL as [x' [E [Oy P]]]. exists x'. split; [exact E|]. split; [|exact P].
    eapply (ci_ok s1 I1 2 d y). rewrite (Oth1 2 d) by discriminate. exact Y. }
  destruct (push_step s1 1 d I1 active1 R0 PL1) as [I2 [Oth2 [_ [O12 _]]]]. cbn zeta in *.
  set (s2 := gstep s1 (gpush 1 d)) in *.
  (* C: pull, push *)
  destruct (pull_step s2 3 fC d p2 I2 active3 R1) as [I3 [Oth3 [_ PL3]]]. cbn zeta in *.
  set (s3 := gstep s2 (gpull 3 fC d p2)) in *.
  assert (PL3' : pulled s3 3 d (gdoc s3 3 d)).
  { unfold pulled in *. rewrite (Oth3 2 d) by discriminate.
    destruct (gdoc s2 2 d) as [y|] eqn:Y; [|reflexivity].
    destruct PL3 as [x' [E [Oy P]]]. exists x'. split; [exact E|]. split; [|exact P].
    eapply (ci_ok s3 I3 2 d y). rewrite (Oth3 2 d) by discriminate. exact Y. }
  destruct (push_step s3 3 d I3 active3 R2 PL3') as [I4 [Oth4 [_ [O34 [GE NN]]]]]. cbn zeta in *.
  set (s4 := gstep s3 (gpush 3 d)) in *.
  (* A's copy has not changed since s2; the passive copy has only learned *)
  assert (A4 : gdoc s4 1 d = gdoc s2 1 d) by (rewrite (Oth4 1 d) by discriminate; apply Oth3; discriminate).
  pose proof (Oth3 2 d ltac:(discriminate)) as B3.
  assert (KN : forall x y, gdoc s4 1 d = Some x -> gdoc s4 2 d = Some y -> dominates (d_hlv y) (cv (d_hlv x)) = true).
  { intros x y4 X Y4. rewrite A4 in X. rewrite X in O12.
    destruct (gdoc s2 2 d) as [y2|] eqn:Y2; [|discriminate].
    pose proof (ci_ok s2 I2 1 d x X) as Ox. pose proof (ci_ok s2 I2 2 d y2 Y2) as Oy2.
    assert (C : cv (d_hlv x) = cv (d_hlv y2)) by (cbn in O12; congruence).
    pose proof (GE y2 y4 B3 Y4 (src (d_hlv y2)) (okv_src _ _ Oy2)) as G.
    rewrite (value_own _ (okv_src _ _ Oy2)) in G.
    rewrite C. apply (dom_cv _ _ _ Oy2). exact G. }
  assert (NN4 : gdoc s4 2 d = None -> gdoc s4 1 d = None).
  { intros N4. rewrite A4. destruct (gdoc s2 2 d) as [y2|] eqn:Y2.
    - exfalso. apply NN; [rewrite B3; discriminate | exact N4].
    - destruct (gdoc s2 1 d); [discriminate | reflexivity]. }
  destruct (last_pull s4 1 fA' d p3 I4 active1 R3 KN NN4) as [O5 [Q5 Oth5]]. cbn zeta in *.
  split; [exact O5|]. split; [|exact Q5].
  rewrite (Oth5 3 d) by discriminate. rewrite (Oth5 2 d) by discriminate. exact O34.
Qed.

(* ---------- the theorems over histories ---------- *)
Theorem chain_converges : forall ops fA fC fA' d p1 p2 p3, Forall chain_op ops ->
  greg_from gsys0 (ops ++ chain_final fA fC fA' d p1 p2 p3) = true ->
  let s := grun gsys0 (ops ++ chain_final fA fC fA' d p1 p2 p3) in
  vobs (gdoc s 1 d) = vobs (gdoc s 2 d) /\ vobs (gdoc s 3 d) = vobs (gdoc s 2 d).
Proof.
  intros ops fA fC fA' d p1 p2 p3 F R. cbn zeta. rewrite greg_app in R. apply andb_true_iff in R. destruct R as [R1 R2].
  pose proof (grun_inv ops gsys0 cinv0 F R1) as I. rewrite grun_app.
  destruct (chain_catch_up (grun gsys0 ops) fA fC fA' d p1 p2 p3 I R2) as [O1 [O2 _]]. cbn zeta in *.
  unfold chain_final. cbn [grun] in *. auto.
Qed.

(* the third peer's resolution comes back to the first through the passive peer without a second conflict *)
Theorem merge_not_reconflicted : forall ops fA fC fA' d p1 p2 p3, Forall chain_op ops ->
  greg_from gsys0 (ops ++ chain_final fA fC fA' d p1 p2 p3) = true ->
  let s4 := grun gsys0 (ops ++ [gpull 1 fA d p1; gpush 1 d; gpull 3 fC d p2; gpush 3 d]) in
  quiet (gstatus_of s4 (gpull 1 fA' d p3)).
Proof.
  intros ops fA fC fA' d p1 p2 p3 F R. cbn zeta. rewrite greg_app in R. apply andb_true_iff in R. destruct R as [R1 R2].
  pose proof (grun_inv ops gsys0 cinv0 F R1) as I. rewrite grun_app.
  destruct (chain_catch_up (grun gsys0 ops) fA fC fA' d p1 p2 p3 I R2) as [_ [_ Q]]. exact Q.
Qed.

(* two peers, any resolver: Pull; Push *)
Theorem custom_converges : forall ops a f d phys, Forall chain_op ops -> active a ->
  greg_from gsys0 (ops ++ [gpull a f d phys; gpush a d]) = true ->
  let s := grun gsys0 (ops ++ [gpull a f d phys; gpush a d]) in
  vobs (gdoc s a d) = vobs (gdoc s 2 d).
Proof.
  intros ops a f d phys F A R. cbn zeta. rewrite greg_app in R. apply andb_true_iff in R. destruct R as [R1 R2].
  pose proof (grun_inv ops gsys0 cinv0 F R1) as I. rewrite grun_app.
  destruct (pull_push_agree (grun gsys0 ops) a f d phys I A R2) as [_ O]. exact O.
Qed.

(* a merge is accepted without conflict by any copy whose current version either parent had seen *)
Theorem merge_accepted_by_third : forall clk hl hi hz me phys, okv clk hl -> okv clk hi -> okv clk hz -> me <> 0 ->
  dominates hi (cv hl) = false -> dominates hl (cv hi) = false ->
  dominates hl (cv hz) = true \/ dominates hi (cv hz) = true ->
  let v := hlc_now phys (clk me) (N.max (max_value_for_source hl me) (max_value_for_source hi me)) in
  exists h', merge_with_incoming hl (me, v) hi = Some h' /\
             dominates h' (cv hl) = true /\ dominates h' (cv hi) = true /\ dominates h' (cv hz) = true /\
             is_in_conflict hz h' <> Conflict.
Proof.
  intros clk hl hi hz me phys Ol Oi Oz Hme D1 D2 DZ. cbn zeta.
  destruct (okv_merge clk hl hi me phys Ol Oi Hme D1 D2) as [h' [A [O [C [Vm V]]]]]. cbv zeta in A.
  set (v := hlc_now phys (clk me) (N.max (max_value_for_source hl me) (max_value_for_source hi me))) in *.
  assert (Hc : clk me < v) by (subst v; apply hlc_now_gt_clock).
  exists h'. split; [exact A|].
  assert (GE : forall h, okv clk h -> forall q, q <> 0 -> (value h q <= value hl q \/ value h q <= value hi q) -> value h q <= value h' q).
  { intros h Oh q Hq LE. destruct (N.eq_dec q me) as [->|Nq].
    - rewrite Vm. pose proof (okv_bound _ _ me Oh). lia.
    - rewrite (V q Hq Nq). lia. }
  assert (DOM : forall h, okv clk h -> (dominates hl (cv h) = true \/ dominates hi (cv h) = true) -> dominates h' (cv h) = true).
  { intros h Oh [D|D]; apply (dom_cv _ _ _ Oh) in D; apply (dom_cv _ _ _ Oh);
      (eapply N.le_trans; [|apply (GE h Oh (src h) (okv_src _ _ Oh))]); rewrite ?(value_own _ (okv_src _ _ Oh)); auto; lia. }
  assert (Dl : dominates h' (cv hl) = true).
  { apply DOM; auto. left. apply dominates_own_cv. eapply okv_src; eauto. }
  assert (Di : dominates h' (cv hi) = true).
  { apply DOM; auto. right. apply dominates_own_cv. eapply okv_src; eauto. }
  assert (Dz : dominates h' (cv hz) = true) by (apply DOM; auto).
  repeat split; auto.
  intros IC. apply (proj1 (proj2 (status_cases _ _))) in IC. destruct IC as [_ [F _]]. congruence.
Qed.

(* ---------- re-delivery ---------- *)
(* the same offer made again right after a regular transfer: nothing is stored, whatever resolver the second
   delivery carries *)
Theorem redelivery_noop : forall s from to res d phys res' phys', CInv s ->
  chain_op (GXfer from to res d phys) -> greg s (GXfer from to res d phys) = true ->
  let s1 := gstep s (GXfer from to res d phys) in
  (res' = None <-> res = None) ->
  gdoc s1 from d = gdoc s from d /\
  let t := gtransfer res' to phys' (gclk s1 to) (gdoc s1 from d) (gdoc s1 to d) in
  fst (fst t) = gdoc s1 to d /\ snd t = gclk s1 to /\
  (snd (fst t) = GKnown \/ snd (fst t) = GNothing \/ snd (fst t) = GConflict).
Proof.
  intros s from to res d phys res' phys' I Ch Reg. cbn zeta. intros RR.
  assert (NZ : from <> 0 /\ to <> 0 /\ from <> to).
  { cbn [chain_op] in Ch. destruct Ch as [[-> [A _]] | [A [-> _]]]; pose proof (active_not2 _ A); pose proof (active_nz _ A); repeat split; auto; discriminate. }
  destruct NZ as [H1 [H2 H3]].
  destruct (gstep_xfer s from to res d phys H1 H2 H3) as [E _]. cbn zeta in E. rewrite E. clear E.
  assert (FR : forall r c, gdoc (store_state s to d r c) from d = gdoc s from d).
  { intros r c. rewrite gdoc_store. destruct (N.eqb_spec from to); [contradiction|reflexivity]. }
  split; [apply FR|]. rewrite FR. rewrite gdoc_store, !N.eqb_refl. cbn [andb]. rewrite gclk_store. unfold bump. rewrite N.eqb_refl.
  cbn [greg] in Reg.
  destruct (gdoc s from d) as [i|] eqn:Xi.
  2:{ cbn. auto. }
  assert (Ol : forall x, gdoc s to d = Some x -> okv (gclk s) (d_hlv x)) by (intros x X; eapply (ci_ok s I); eauto).
  pose proof (ci_ok s I from d i Xi) as Oi.
  pose proof (gtransfer_cases (gclk s) res to phys i (gdoc s to d) H2 Oi Ol Reg) as K. cbn zeta in K.
  destruct K as [[E1 [E2 [Kp [KK [KC KA]]]]] | [r [E1 [St _]]]].
  - rewrite E1, E2. destruct Kp as [Kp|[Kp|Kp]].
    + destruct (KK Kp) as [x [X D]]. rewrite X. unfold gtransfer. rewrite D. cbn. auto.
    + destruct (KA Kp) as [x [X [D IC]]]. exfalso.
      apply (proj1 (status_cases _ _)) in IC. destruct IC as [IC|[_ IC]]; [|congruence].
      apply equal_cv_spec in IC. rewrite <- IC in D. rewrite dominates_own_cv in D; [discriminate|].
      eapply okv_src. eapply (ci_ok s I); eauto.
    + destruct (KC Kp) as [RN [x [X [D1 [D2 Tb]]]]]. rewrite X. unfold gtransfer. rewrite D1.
      assert (US : unsendable i = false).
      { unfold xfer_regular in Reg. rewrite X, D1 in Reg. apply andb_true_iff in Reg. destruct Reg as [U _]. now apply negb_true_iff in U. }
      rewrite US, Tb.
      assert (IC : is_in_conflict (d_hlv x) (d_hlv i) = Conflict).
      { clear - Kp RN X D1. subst res. unfold gtransfer in Kp. rewrite X, D1 in Kp.
        destruct (unsendable i); [cbn in Kp; discriminate|]. destruct (d_del i && d_del x); [cbn in Kp; discriminate|].
        destruct (is_in_conflict (d_hlv x) (d_hlv i)); cbn in Kp; try discriminate; reflexivity. }
      rewrite IC. rewrite (proj2 RR RN). cbn. auto.
  - rewrite E1. unfold gtransfer.
    assert (D : dominates (d_hlv r) (cv (d_hlv i)) = true).
    { apply (dom_cv _ _ _ Oi). pose proof (st_ge_i _ _ _ _ _ _ St (src (d_hlv i)) (okv_src _ _ Oi)) as G.
      rewrite (value_own _ (okv_src _ _ Oi)) in G. exact G. }
    rewrite D. cbn. auto.
Qed.

(* ---------- raw re-delivery (no CheckChangeVersion filter) ---------- *)
Lemma gtransfer_gput : forall res me phys clk i l, dominates (d_hlv l) (cv (d_hlv i)) = false ->
  gtransfer res me phys clk (Some i) (Some l) = gput res me phys clk i l.
Proof. intros. unfold gtransfer, gput. rewrite H, andb_false_r. reflexivity. Qed.

(* a revision the stored vector already knows, delivered raw, is answered "already present" and nothing is stored --
   tombstones INCLUDED since 6e0c2ba (Switches.known_tombstone_cancelled); before it the tombstone-onto-tombstone
   branch skipped the test (C06_Refuted.C06_raw_tombstone_redelivery_refuted).  For two live / mixed copies the answer
   comes from IsInConflict, which needs that the two vectors are not each other's "newer" (true of an active and the
   passive copy of the chain by ci_m); two tombstones need nothing. *)
Theorem raw_redelivery_cancelled : forall res me phys clk i l, known_tombstone_cancelled = true ->
  dominates (d_hlv l) (cv (d_hlv i)) = true -> unsendable i = false ->
  (d_del i && d_del l = true \/ cv (d_hlv l) = cv (d_hlv i) \/ dominates (d_hlv i) (cv (d_hlv l)) = false) ->
  gput res me phys clk i l = (Some l, GCancelled, clk).
Proof.
  intros res me phys clk i l K D US M. unfold gput. rewrite US, K, D. cbn [andb].
  destruct (d_del i && d_del l) eqn:T; [reflexivity|].
  assert (IC : is_in_conflict (d_hlv l) (d_hlv i) = AlreadyPresent).
  { apply (proj1 (status_cases _ _)). destruct M as [F|[E|F]]; [discriminate | left; now apply equal_cv_spec | right; auto]. }
  now rewrite IC.
Qed.

(* the old code, kept reachable: with the switch off the live / mixed case only *)
Theorem raw_redelivery_cancelled_old : forall res me phys clk i l,
  dominates (d_hlv l) (cv (d_hlv i)) = true -> unsendable i = false -> d_del i && d_del l = false ->
  (cv (d_hlv l) = cv (d_hlv i) \/ dominates (d_hlv i) (cv (d_hlv l)) = false) ->
  gput res me phys clk i l = (Some l, GCancelled, clk).
Proof.
  intros res me phys clk i l D US T M. unfold gput. rewrite US, T.
  assert (IC : is_in_conflict (d_hlv l) (d_hlv i) = AlreadyPresent).
  { apply (proj1 (status_cases _ _)). destruct M as [E|F]; [left; now apply equal_cv_spec | right; auto]. }
  now rewrite IC.
Qed.
