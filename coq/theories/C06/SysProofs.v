(* C06 proofs, part 11: system-level statements over ALL operation lists (deletes and resurrections
   included): re-running a transfer moves nothing, transfers between peers that show the same current
   revision are the identity, documents are independent.  Plus a concrete collision-free digest used by
   the examples and the refutation witnesses. *)
From SG Require Import Base.Prelude C04.OrderProofs C04.WfProofs C06.Replication C06.InvProofs C06.TransferProofs.
Open Scope N_scope.

Section Sys.
  Variable mkdig : option revid -> body -> list N.
  Hypothesis mkdig_inj : forall p b p' b',
    gen (wid p) = gen (wid p') -> mkdig p b = mkdig p' b' -> p = p' /\ b = b'.

  Lemma step_at : forall s o d, op_doc o = d -> step mkdig s o d = fst (dstep mkdig (s d) o).
  Proof. intros s o d <-. unfold step, upd. rewrite N.eqb_refl. reflexivity. Qed.

  Lemma step_frame : forall s o d, d <> op_doc o -> step mkdig s o d = s d.
  Proof. intros s o d N. unfold step, upd. destruct (d =? op_doc o) eqn:E; auto. apply N.eqb_eq in E. congruence. Qed.

  Lemma reachable_inv : forall ops d, dinv mkdig (run mkdig sys0 ops d).
  Proof. intros ops d. apply (run_inv mkdig ops sys0 (sinv0 mkdig) d). Qed.

  (* Push d; Push d = Push d and Pull d; Pull d = Pull d, and the second run applies nothing *)
  Theorem rerun_transfers_nothing : forall ops d o, (o = Push d \/ o = Pull d) ->
    let s := run mkdig sys0 ops in
    step mkdig (step mkdig s o) o d = step mkdig s o d /\
    step_status mkdig (step mkdig s o) o <> TApplied.
  Proof.
    intros ops d o Ho. cbn zeta. set (s := run mkdig sys0 ops).
    destruct (reachable_inv ops d) as [IA IB]. fold s in IA, IB.
    assert (Ed : op_doc o = d) by (destruct Ho as [-> | ->]; reflexivity).
    unfold step_status. rewrite Ed. rewrite (step_at (step mkdig s o) o d Ed), (step_at s o d Ed).
    destruct (s d) as [A B] eqn:E. cbn [fst snd] in *.
    destruct Ho as [-> | ->]; cbn [dstep fst snd].
    - destruct (transfer_idempotent mkdig mkdig_inj None A B IA IB) as [H1 H2]. cbn zeta in *.
      destruct (transfer mkdig None A B) as [q st]. cbn [fst snd] in *.
      destruct (transfer mkdig None A q) as [q' st']. cbn [fst snd] in *. subst q'. auto.
    - destruct (transfer_idempotent mkdig mkdig_inj (Some default_policy) B A IB IA) as [H1 H2]. cbn zeta in *.
      destruct (transfer mkdig (Some default_policy) B A) as [q st]. cbn [fst snd] in *.
      destruct (transfer mkdig (Some default_policy) B q) as [q' st']. cbn [fst snd] in *. subst q'. auto.
  Qed.

  (* peers that show the same current revision: nothing is missing either way, Push and Pull are the identity *)
  Theorem same_current_identity : forall ops d c,
    let s := run mkdig sys0 ops in
    cur (fst (s d)) = Some c -> cur (snd (s d)) = Some c ->
    rev_diff (ptree (snd (s d))) [c] = [] /\ rev_diff (ptree (fst (s d))) [c] = [] /\
    step mkdig s (Push d) d = s d /\ step mkdig s (Pull d) d = s d /\
    step_status mkdig s (Push d) = TKnown /\ step_status mkdig s (Pull d) = TKnown.
  Proof.
    intros ops d c. cbn zeta. set (s := run mkdig sys0 ops). intros CA CB.
    destruct (reachable_inv ops d) as [IA IB]. fold s in IA, IB.
    unfold step_status. cbn [op_doc]. rewrite (step_at s (Push d) d eq_refl), (step_at s (Pull d) d eq_refl).
    destruct (s d) as [A B] eqn:E. cbn [fst snd dstep] in *.
    destruct (same_current_no_transfer mkdig None A B c IA IB CA CB) as [R1 T1].
    destruct (same_current_no_transfer mkdig (Some default_policy) B A c IB IA CB CA) as [R2 T2].
    rewrite T1, T2. cbn [fst snd]. repeat split; auto.
  Qed.
End Sys.

(* ---------- a concrete collision-free digest: the list (body, parent generation, parent digest) ---------- *)
Definition mkdig_struct (p : option revid) (b : body) : list N :=
  match p with None => [b] | Some i => b :: gen i :: dig i end.

Lemma mkdig_struct_inj : forall p b p' b',
  gen (wid p) = gen (wid p') -> mkdig_struct p b = mkdig_struct p' b' -> p = p' /\ b = b'.
Proof.
  intros [[g d]|] b [[g' d']|] b' _ H; cbn in H; inversion H; subst; auto.
Qed.
