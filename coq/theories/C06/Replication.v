(* C06 model: per-document revision transfer between two peers (inter-Sync-Gateway replication,
   revision-tree protocol), on top of the C04 revision-tree model.

   Code modelled (current tree of /repo):
     db/crud.go        PutExistingRevWithConflictResolution (branch point, IsIllegalConflict,
                       ForceAllowConflictingTombstone, resolveConflict, "add all the new-to-me revisions"),
                       resolveDocRemoteWins, resolveDocLocalWins, localWinsConflictResolutionRevTreeHandling
                       (filler revisions), tombstoneActiveRevision, RevDiff, Put (local writes)
     db/sg_replicate_conflict_resolver.go   DefaultConflictResolver
     db/revision.go    CreateRevIDWithBytes (the digest is the Section variable [mkdig])
     db/blip_handler.go handleChanges (RevDiff on the offered id), processRev (noconflicts + resolver on the
                       active side, noconflicts without resolver on the passive side, tombstone exemption)
     db/blip_handler.go sendChanges: Conflicts:false -- only the CURRENT (winning) revision is offered.

   Two peers with fixed roles, as in ISGR: [Act] owns the replication and the conflict resolver, [Pas]
   is the passive side.  A transfer is atomic per document.  Out of the model: batching, checkpoints,
   the websocket layer, revs_limit pruning (histories here are far below revs_limit), attachments. *)
From SG Require Import Base.Prelude.
From SG Require Export C04.RevId C04.RevTree C04.DocModel C06.Switches.
Open Scope N_scope.

(* bodies are interned: 0 = "{}", 1 = "{"_deleted":true}" (DeletedDocument), >= 2 user bodies *)
Definition body := N.
Definition b_empty : body := 0.
Definition b_tomb : body := 1.

Inductive side := Act | Pas.

(* what a conflict resolver answers (db/sg_replicate_conflict_resolver.go ConflictResolver.Resolve): the local
   document, the remote document, or a merged body (a custom JavaScript resolver that returns a document without
   the _rev of either candidate; [RMerge b_tomb] is what "return null" yields: the body {"_deleted":true}) *)
Inductive rres := RLocal | RRemote | RMerge (b : body).
(* a resolver is a deterministic function of the two candidates: (tombstone flag, revision id, body) of the local
   and of the remote document.  The built-in policies are instances (default_policy below, local_wins_policy,
   remote_wins_policy); a custom resolver is ANY such function. *)
Definition policy := bool -> revid -> body -> bool -> revid -> body -> rres.

Inductive op :=
| Edit (s : side) (d : N) (b : body)        (* PUT on the current revision (creates the document if absent) *)
| Delete (s : side) (d : N)                 (* DELETE of the current revision *)
| Resurrect (s : side) (d : N) (b : body)   (* PUT without a revision on a tombstoned document *)
| Push (d : N)                              (* Act offers its current revision of d to Pas *)
| Pull (d : N)                              (* Pas offers its current revision of d to Act (default resolver) *)
| PullP (f : policy) (d : N).               (* ... with the resolver f (localWins / remoteWins / custom) *)

Inductive tstatus := TNone | TKnown | TApplied | TConflict | TError.
Definition tstatus_eqb (a b : tstatus) : bool :=
  match a, b with
  | TNone, TNone | TKnown, TKnown | TApplied, TApplied | TConflict, TConflict | TError, TError => true
  | _, _ => false
  end.

Record pdoc := P { ptree : tree; pbody : list (revid * body) }.
Definition pempty : pdoc := P [] [].

Fixpoint lookup_body (m : list (revid * body)) (i : revid) : option body :=
  match m with
  | [] => None
  | (j, b) :: r => if revid_eqb j i then Some b else lookup_body r i
  end.

Definition tcur (t : tree) : option revid := w_id (winner_fold (leaves t)).
Definition cur (p : pdoc) : option revid := tcur (ptree p).
Definition cur_del (p : pdoc) : bool := del_of (ptree p) (cur p).
Definition cur_body (p : pdoc) : option body :=
  match cur p with Some i => lookup_body (pbody p) i | None => None end.

(* what the admin API shows for a document: current revision, tombstone flag, body *)
Definition obs (p : pdoc) : option revid * bool * option body := (cur p, cur_del p, cur_body p).

(* DefaultConflictResolver: true = the local revision wins.
     localDeleted && !remoteDeleted -> local; remoteDeleted && !localDeleted -> remote;
     compareRevIDs(local, remote) >= 0 -> local, else remote *)
Definition is_lt (c : comparison) : bool := match c with Lt => true | _ => false end.
Definition local_wins (ldel : bool) (l : revid) (rdel : bool) (r : revid) : bool :=
  if ldel && negb rdel then true
  else if rdel && negb ldel then false
  else negb (is_lt (cmp_id l r)).
(* the revision both sides keep *)
Definition resolver_choice (ldel : bool) (l : revid) (rdel : bool) (r : revid) : bool * revid :=
  if local_wins ldel l rdel r then (ldel, l) else (rdel, r).

Definition default_policy : policy :=
  fun ldel l _ rdel r _ => if local_wins ldel l rdel r then RLocal else RRemote.
Definition local_wins_policy : policy := fun _ _ _ _ _ _ => RLocal.      (* LocalWinsConflictResolver *)
Definition remote_wins_policy : policy := fun _ _ _ _ _ _ => RRemote.    (* RemoteWinsConflictResolver *)

(* rev_diff: which of the offered ids the receiver lacks (RevDiff's "missing") *)
Definition rev_diff (t : tree) (ids : list revid) : list revid :=
  filter (fun i => negb (contains t i)) ids.

Section Model.
  (* md5 over (parent id, body bytes) as computed by CreateRevIDWithBytes *)
  Variable mkdig : option revid -> body -> list N.
  Definition mkid (p : option revid) (b : body) : revid := I (gen (wid p) + 1) (mkdig p b).

  (* ---------- local writes (conflict-free mode, always on the current revision) ---------- *)
  Definition add_leaf (p : pdoc) (par : option revid) (b : body) (del : bool) (stored : body) : pdoc :=
    let i := mkid par b in
    match add (ptree p) (R i par del) with
    | Some t' => P t' ((i, stored) :: pbody p)
    | None => p
    end.

  Definition edit (p : pdoc) (b : body) : pdoc :=
    match cur p with
    | None => add_leaf p None b false b
    | Some c => if cur_del p then p else add_leaf p (Some c) b false b
    end.
  Definition delete (p : pdoc) : pdoc :=
    match cur p with
    | None => p
    | Some c => if cur_del p then p else add_leaf p (Some c) b_tomb true b_empty
    end.
  Definition resurrect (p : pdoc) (b : body) : pdoc :=
    match cur p with
    | None => p
    | Some c => if cur_del p then add_leaf p (Some c) b false b else p
    end.

  (* ---------- what a peer offers: its current revision with its ancestry ---------- *)
  (* i, parent(i), ... up to the root; generations strictly decrease along a branch, so gen i steps suffice *)
  Definition history (t : tree) (i : revid) : list revid := chain (N.to_nat (gen i)) t i.
  Definition offer (p : pdoc) : option (list revid * bool * body) :=
    match cur p with
    | None => None
    | Some c => Some (history (ptree p) c, cur_del p,
                      match cur_body p with Some b => b | None => b_empty end)
    end.

  (* ---------- conflict resolution on the receiving (active) side ---------- *)
  (* tombstoneActiveRevision: child of the current revision with the DeletedDocument body;
     nothing to do when the current revision is already a tombstone *)
  Definition tombstone_local (p : pdoc) (l : revid) (ldel : bool) : option pdoc :=
    if ldel then Some p
    else match add (ptree p) (R (mkid (Some l) b_tomb) (Some l) true) with
         | Some t' => Some (P t' ((mkid (Some l) b_tomb, b_empty) :: pbody p))
         | None => None
         end.

  (* localWinsConflictResolutionRevTreeHandling, local tombstone case: lengthen the remote branch
     with "{}" revisions until it reaches the local generation *)
  Fixpoint inject_fillers (n : nat) (hist : list revid) : list revid :=
    match n with
    | O => hist
    | S k => inject_fillers k (mkid (hd_error hist) b_empty :: hist)
    end.

  (* history, tombstone flag and body of the revision that is written after "local wins" *)
  Definition local_wins_rewrite (l : revid) (ldel : bool) (lbody : body) (hist : list revid)
    : list revid * bool * body :=
    if ldel then
      let r := wid (hd_error hist) in
      let h1 := inject_fillers (N.to_nat (gen l - gen r)) hist in
      (mkid (hd_error h1) lbody :: h1, true, lbody)
    else (mkid (hd_error hist) lbody :: hist, false, lbody).

  (* ---------- PutExistingRev on the receiver ---------- *)
  Definition finish_put (p : pdoc) (hist : list revid) (deleted : bool) (b : body) : pdoc * tstatus :=
    let (nw, parent) := split_known (ptree p) hist in
    match add_hist (ptree p) nw parent deleted with
    | Some t' => (P t' ((wid (hd_error hist), if deleted then b_empty else b) :: pbody p), TApplied)
    | None => (p, TError)
    end.

  (* resolveDocMerge: the merged body becomes a child of the remote leaf; the tombstone flag of the new revision
     is the flag of the INCOMING revision (newDoc.Deleted is not touched by the merge) -- with the repair
     null_merge_is_delete, a merge result of {"_deleted":true} makes it a tombstone *)
  Definition put_existing (pol : option policy) (force_tomb : bool) (p : pdoc) (hist : list revid) (deleted : bool) (b : body)
    : pdoc * tstatus :=
    let t := ptree p in
    let (nw, parent) := split_known t hist in
    match nw with
    | [] => (p, TKnown)
    | _ =>
      let d := update_flags t in
      let allow_ts := force_tomb && deleted && ddel d in
      if negb allow_ts && illegal_conflict false true d parent deleted hist then
        match pol with
        | None => (p, TConflict)
        | Some f =>
             match dcur d with
             | None => (p, TError)
             | Some l =>
                 let ldel := ddel d in
                 let lbody := match lookup_body (pbody p) l with Some x => x | None => b_empty end in
                 match f ldel l lbody deleted (wid (hd_error hist)) b with
                 | RLocal =>
                   let '(hist', del', b') := local_wins_rewrite l ldel lbody hist in
                   match tombstone_local p l ldel with
                   | Some p1 => match finish_put p1 hist' del' b' with
                                | (p2, TApplied) => (p2, TApplied)
                                | _ => (p, TError)
                                end
                   | None => (p, TError)
                   end
                 | RRemote =>
                   match tombstone_local p l ldel with
                   | Some p1 => match finish_put p1 hist deleted b with
                                | (p2, TApplied) => (p2, TApplied)
                                | _ => (p, TError)
                                end
                   | None => (p, TError)
                   end
                 | RMerge mb =>
                   match tombstone_local p l ldel with
                   | Some p1 => match finish_put p1 (mkid (hd_error hist) mb :: hist)
                                                 (deleted || (null_merge_is_delete && (mb =? b_tomb))) mb with
                                | (p2, TApplied) => (p2, TApplied)
                                | _ => (p, TError)
                                end
                   | None => (p, TError)
                   end
                 end
             end
        end
      else finish_put p hist deleted b
    end.

  (* what no receiver accepts: a live revision whose body is {"_deleted":true} -- what a custom resolver that
     answers null leaves behind (the receiver refuses the reserved property; a write failure, not a 409) *)
  Definition unsendable (del : bool) (b : body) : bool := negb del && (b =? b_tomb).

  (* a transfer: offer the sender's current revision; the receiver skips it when rev_diff says it is
     known, otherwise applies it.  Act resolves conflicts with the default policy; Pas rejects them.
     Both sides exempt an incoming tombstone from the conflict check when their document is a tombstone. *)
  Definition transfer (resolver : option policy) (src dst : pdoc) : pdoc * tstatus :=
    match offer src with
    | None => (dst, TNone)
    | Some (hist, del, b) =>
        match rev_diff (ptree dst) (firstn 1 hist) with
        | [] => (dst, TKnown)
        | _ => if unsendable del b then (dst, TError) else put_existing resolver true dst hist del b
        end
    end.

  (* ---------- the two-peer system ---------- *)
  Definition dstate := (pdoc * pdoc)%type.          (* (active, passive) *)
  Definition sys := N -> dstate.
  Definition sys0 : sys := fun _ => (pempty, pempty).
  Definition upd (s : sys) (d : N) (v : dstate) : sys := fun x => if x =? d then v else s x.

  Definition on_side (sd : side) (f : pdoc -> pdoc) (v : dstate) : dstate :=
    match sd with Act => (f (fst v), snd v) | Pas => (fst v, f (snd v)) end.

  Definition dstep (v : dstate) (o : op) : dstate * tstatus :=
    match o with
    | Edit sd _ b => (on_side sd (fun p => edit p b) v, TNone)
    | Delete sd _ => (on_side sd delete v, TNone)
    | Resurrect sd _ b => (on_side sd (fun p => resurrect p b) v, TNone)
    | Push _ => let (q, st) := transfer None (fst v) (snd v) in ((fst v, q), st)
    | Pull _ => let (q, st) := transfer (Some default_policy) (snd v) (fst v) in ((q, snd v), st)
    | PullP f _ => let (q, st) := transfer (Some f) (snd v) (fst v) in ((q, snd v), st)
    end.

  Definition op_doc (o : op) : N :=
    match o with Edit _ d _ | Delete _ d | Resurrect _ d _ | Push d | Pull d | PullP _ d => d end.

  Definition step (s : sys) (o : op) : sys := upd s (op_doc o) (fst (dstep (s (op_doc o)) o)).
  Definition step_status (s : sys) (o : op) : tstatus := snd (dstep (s (op_doc o)) o).

  Definition run (s : sys) (ops : list op) : sys := fold_left step ops s.
End Model.
