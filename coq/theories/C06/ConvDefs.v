(* C06 proofs, part 5: the invariant of the two-peer system for histories without user deletes, and the
   lemmas about single insertions it needs.  [A] is the active peer (resolver), [B] the passive one. *)
From SG Require Import Base.Prelude C04.OrderProofs C04.WinnerProofs C04.WfProofs C04.FlagsProofs
  C04.PushProofs C04.DocProofs C06.Replication C06.InvProofs C06.TransferProofs C06.TreeLemmas.
Open Scope N_scope.

Lemma chain_fuel : forall t, wf t -> forall f1 f2 i, (N.to_nat (gen i) <= f1)%nat -> (N.to_nat (gen i) <= f2)%nat ->
  chain f1 t i = chain f2 t i.
Proof.
  intros t (ND & V & PP). induction f1 as [|f1 IH]; intros f2 i L1 L2.
  - destruct f2 as [|f2]; [reflexivity|]. rewrite chain_S. destruct (find_rev t i) as [q|] eqn:Fq; [|reflexivity].
    apply find_rev_some in Fq. destruct Fq as [Iq Eq]. pose proof (V q Iq). rewrite Eq in H. lia.
  - destruct f2 as [|f2].
    + rewrite chain_S. destruct (find_rev t i) as [q|] eqn:Fq; [|reflexivity].
      apply find_rev_some in Fq. destruct Fq as [Iq Eq]. pose proof (V q Iq). rewrite Eq in H. lia.
    + rewrite !chain_S. destruct (find_rev t i) as [q|] eqn:Fq; [|reflexivity]. f_equal.
      destruct (rpar q) as [pq|] eqn:Pq; [|reflexivity].
      apply find_rev_some in Fq. destruct Fq as [Iq Eq]. destruct (PP q pq Iq Pq) as [_ Lq]. rewrite Eq in Lq.
      apply IH; lia.
Qed.

(* the history of a node ends with the history of each of its elements *)
Lemma history_suffix : forall t, wf t -> forall m x, In x (history t m) -> exists pre, history t m = pre ++ history t x.
Proof.
  intros t W. assert (H : forall f i x, (N.to_nat (gen i) <= f)%nat -> In x (chain f t i) ->
                           exists pre, chain f t i = pre ++ history t x).
  { induction f as [|f IH]; intros i x L I; [destruct I|].
    rewrite chain_S in I. destruct (find_rev t i) as [r|] eqn:F; [|destruct I].
    destruct I as [<- | I].
    - exists []. unfold history. apply chain_fuel; auto.
    - destruct (rpar r) as [p|] eqn:P; [|destruct I].
      pose proof F as F0. apply find_rev_some in F. destruct F as [Ir Er]. destruct W as (ND & V & PP).
      destruct (PP r p Ir P) as [_ Lt]. rewrite Er in Lt.
      destruct (IH p x ltac:(lia) I) as [pre E]. exists (i :: pre). rewrite chain_S, F0, P, E. reflexivity. }
  intros m x I. apply (H _ m x (le_n _) I).
Qed.

Lemma history_trans : forall t m x y, wf t -> In x (history t m) -> In y (history t x) -> In y (history t m).
Proof.
  intros t m x y W Ix Iy. destruct (history_suffix t W m x Ix) as [pre ->]. apply in_or_app. right. exact Iy.
Qed.

Lemma tcur_none_nil : forall t, wf t -> tcur t = None -> t = [].
Proof.
  intros t W H. destruct (tree_nil_dec t) as [E | NE]; auto. exfalso.
  destruct (winning_is_max_leaf t W NE) as (w & _ & Ew). unfold tcur in H. congruence.
Qed.

Lemma cur_leaf : forall t c, wf t -> tcur t = Some c -> is_parent t c = false.
Proof.
  intros t c W H. destruct (tree_nil_dec t) as [-> | NE]; [discriminate|].
  destruct (winning_is_max_leaf t W NE) as (w & [Iw _] & Ew). unfold tcur in H. rewrite Ew in H.
  inversion H; subst c. apply in_leaves in Iw. tauto.
Qed.

Lemma lookup_in : forall m i b, lookup_body m i = Some b -> In (i, b) m.
Proof.
  induction m as [|[j c] m IH]; intros i b H; cbn [lookup_body] in H; [discriminate|].
  destruct (revid_eqb j i) eqn:E; [apply revid_eqb_eq in E; inversion H; subst; left; reflexivity | right; auto].
Qed.

Lemma add_hist_shape : forall nw t base del t', add_hist t nw base del = Some t' -> t' = recs nw base del ++ t.
Proof.
  induction nw as [|h older IH]; intros t base del t' H; cbn [add_hist recs app] in *; [inversion H; reflexivity|].
  destruct (add_hist t older base false) as [t1|] eqn:E; [|discriminate].
  apply add_some_cons in H. destruct H as [-> _]. rewrite (IH _ _ _ _ E). reflexivity.
Qed.

Lemma recs_in : forall nw base d r, In r (recs nw base d) -> In (rid r) nw /\ (exists older, rpar r = par_of older base /\
  (forall o, In o older -> In o nw)).
Proof.
  induction nw as [|h older IH]; intros base d r I; cbn [recs] in I; [destruct I|].
  destruct I as [<- | I]; cbn [rid rpar].
  - split; [left; reflexivity|]. exists older. split; auto. intros o Io. right. exact Io.
  - destruct (IH base false r I) as [A (ol & B & C)]. split; [right; exact A|]. exists ol. split; auto.
    intros o Io. right. auto.
Qed.

Lemma recs_live : forall nw base r, In r (recs nw base false) -> rdel r = false.
Proof.
  induction nw as [|h older IH]; intros base r I; cbn [recs] in I; [destruct I|].
  destruct I as [<- | I]; [reflexivity | eapply IH; eauto].
Qed.

(* a parent referenced from inserted records is one of them or the base *)
Lemma recs_parent : forall nw base d x, is_parent (recs nw base d) x = true -> In x nw \/ base = Some x.
Proof.
  intros nw base d x H. apply is_parent_iff in H. destruct H as (r & Ir & P).
  destruct (recs_in _ _ _ _ Ir) as [_ (older & E & Inc)]. rewrite P in E.
  destruct older as [|o ol]; cbn [par_of] in E; [right; auto | left; inversion E; apply Inc; left; reflexivity].
Qed.

Lemma chainlist_recs : forall nw t base, chainlist t -> base = hd_error (map rid t) ->
  chainlist (recs nw base false ++ t).
Proof.
  induction nw as [|h older IH]; intros t base C E; cbn [recs app]; auto.
  cbn [chainlist rdel rpar]. split; auto. split; [|apply IH; auto].
  destruct older as [|o ol]; cbn [par_of recs app map hd_error rid]; auto.
Qed.

(* a resolver whose merged bodies are documents (not the tombstone body): every built-in policy (none of them
   merges) and every custom resolver that does not answer null *)
Definition policy_ok (pol : policy) : Prop :=
  forall ldel l lb rdel r rb mb, pol ldel l lb rdel r rb = RMerge mb -> mb <> b_tomb.

Section Defs.
  Variable mkdig : option revid -> body -> list N.
  Notation mkid := (mkid mkdig).

  Definition nontomb (i : revid) (p : option revid) : Prop := exists b, i = mkid p b /\ b <> b_tomb.
  (* every record is a resolver tombstone (deleted, tombstone id) or a live record with a non-tombstone id *)
  Definition nt_tree (t : tree) : Prop :=
    forall r, In r t -> (rdel r = true /\ exists l, rid r = mkid (Some l) b_tomb) \/ (rdel r = false /\ nontomb (rid r) (rpar r)).
  Definition del_leaf (t : tree) : Prop := forall r, In r t -> rdel r = true -> is_parent t (rid r) = false.
  Definition bodies_ok (p : pdoc) : Prop :=
    forall i b, In (i, b) (pbody p) -> b <> b_tomb /\ exists par, i = mkid par b \/ i = mkid par b_tomb.
  Definition body_present (p : pdoc) : Prop := forall c, cur p = Some c -> exists b, lookup_body (pbody p) c = Some b.

  (* [m] descends from (or is) the passive side's current revision; everything when the passive side is empty *)
  Definition below (t : tree) (cb : option revid) (m : revid) : Prop :=
    match cb with Some c => In c (history t m) | None => True end.

  Record linv (A B : pdoc) : Prop := {
    li_A : pinv mkdig A;
    li_B : pinv mkdig B;
    li_chain : chainlist (ptree B);
    li_live : ptree A = [] \/ live_count (ptree A) = 1%nat;
    li_ntA : nt_tree (ptree A);
    li_ntB : nt_tree (ptree B);
    li_dl : del_leaf (ptree A);
    (* every revision of A that descends from B's current revision is on A's live branch *)
    li_below : forall m ca, contains (ptree A) m = true -> below (ptree A) (cur B) m -> cur A = Some ca ->
               In m (history (ptree A) ca);
    li_boA : bodies_ok A;
    li_boB : bodies_ok B;
    li_bpA : body_present A;
    li_bpB : body_present B }.

  (* no user deletes; a PUT whose body is the tombstone body is a delete, and so is a resolver that answers the
     tombstone body as its merge result ("return null") *)
  Definition no_delete (o : op) : Prop :=
    match o with
    | Delete _ _ => False
    | Edit _ _ b | Resurrect _ _ b => b <> b_tomb
    | PullP f _ => policy_ok f
    | _ => True
    end.
End Defs.
