(* C06 proofs, part 8: the three ways a pull changes the active side's tree -- fast-forward, "remote wins",
   "local wins" -- share one shape: fresh records (a suffix of the passive side's branch, possibly topped
   by the clone of the local body) inserted over the old tree, possibly after tombstoning the old current
   revision.  The invariant is re-established once for that shape. *)
From SG Require Import Base.Prelude C04.OrderProofs C04.WinnerProofs C04.WfProofs C04.FlagsProofs
  C04.PushProofs C04.DocProofs C06.Replication C06.InvProofs C06.TransferProofs C06.TreeLemmas C06.ConvDefs
  C06.ConvLocal C06.ConvPush.
Open Scope N_scope.

Lemma chainlist_all_live : forall t q, chainlist t -> In q t -> rdel q = false.
Proof.
  induction t as [|r t IH]; intros q C I; [destruct I|]. destruct C as (D & _ & C).
  destruct I as [<- | I]; auto.
Qed.

Lemma split_known_of_spec : forall t nw known,
  (forall x, In x nw -> contains t x = false) -> (forall k, hd_error known = Some k -> contains t k = true) ->
  split_known t (nw ++ known) = (nw, hd_error known).
Proof.
  intros t nw known NI KN. destruct known as [|k post].
  - rewrite app_nil_r. apply split_known_none. exact NI.
  - apply split_known_at; auto.
Qed.

Section Shape.
  Variable mkdig : option revid -> body -> list N.
  Hypothesis mkdig_inj : forall p b p' b',
    gen (wid p) = gen (wid p') -> mkdig p b = mkdig p' b' -> p = p' /\ b = b'.
  Notation mkid := (mkid mkdig).
  Notation linv := (linv mkdig).
  Notation ghist := (ghist mkdig).
  Notation tinv := (tinv mkdig).
  Notation nontomb := (nontomb mkdig).

  Lemma tomb_clash : forall x par l, nontomb x par -> x = mkid (Some l) b_tomb -> False.
  Proof.
    intros x par l (b & E & N) E'. rewrite E in E'. apply (mkid_inj mkdig mkdig_inj) in E'. destruct E'. congruence.
  Qed.

  (* the revisions of B's branch are live records of B with non-tombstone ids *)
  Lemma bnode : forall A B cb x, linv A B -> In x (history (ptree B) cb) ->
    exists q, In q (ptree B) /\ rid q = x /\ nontomb x (rpar q).
  Proof.
    intros A B cb x L Ix. pose proof (history_in _ _ _ Ix) as Cx. apply contains_in in Cx.
    apply in_map_iff in Cx. destruct Cx as (q & Eq & Iq). exists q. split; auto. split; auto.
    pose proof (chainlist_all_live _ q (li_chain _ _ _ L) Iq) as D.
    destruct (li_ntB _ _ _ L q Iq) as [[D' _] | [_ NT]]; [congruence|]. rewrite <- Eq. exact NT.
  Qed.

  Section PullShape.
    Variables (A B : pdoc) (cb : revid) (ext0 : tree) (nw' : list revid) (p : option revid)
              (bb : body) (bod1 : list (revid * body)).
    Hypothesis L : linv A B.
    Hypothesis CBc : cur B = Some cb.
    Hypothesis NC : contains (ptree A) cb = false.
    Let tA := ptree A.
    Let t1 := ext0 ++ tA.
    Let t' := recs nw' p false ++ t1.
    Hypothesis Hext0 : ext0 = [] \/ exists ca, cur A = Some ca /\ ext0 = [R (mkid (Some ca) b_tomb) (Some ca) true].
    Hypothesis T1 : tinv t1.
    Hypothesis Hnw : exists pre n, nw' = pre ++ cb :: n /\
                       (pre = [] \/ exists lb, lb <> b_tomb /\ pre = [mkid (Some cb) lb]) /\
                       (forall x, In x (cb :: n) -> In x (history (ptree B) cb)).
    Hypothesis GH : ghist nw' p.
    Hypothesis NI : forall x, In x nw' -> contains t1 x = false.
    Hypothesis KN : forall k, p = Some k -> contains t1 k = true.
    Hypothesis KB : forall k, p = Some k -> In k (history (ptree B) cb).
    Hypothesis LC : (ext0 = [] /\ p = cur A) \/ live_count t1 = 0%nat.
    Hypothesis BB : bb <> b_tomb /\ exists par, wid (hd_error nw') = mkid par bb.
    Hypothesis BO1 : forall i b, In (i, b) bod1 -> b <> b_tomb /\ exists par, i = mkid par b \/ i = mkid par b_tomb.

    Let WA : wf tA := proj1 (li_A _ _ _ L).
    Let W1 : wf t1 := proj1 T1.

    Lemma ps_add : add_hist t1 nw' p false = Some t'.
    Proof. apply (add_hist_success mkdig); auto. Qed.

    Lemma ps_tinv : tinv t'.
    Proof. destruct (add_hist_inv mkdig _ _ _ _ _ T1 GH ps_add). assumption. Qed.

    Lemma ps_wf : wf t'.
    Proof. exact (proj1 ps_tinv). Qed.

    Lemma ps_nonempty : exists c' older, nw' = c' :: older.
    Proof.
      destruct Hnw as (pre & n & E & _ & _). destruct pre as [|a pre]; cbn [app] in E; eauto.
    Qed.

    Lemma ps_contains : forall m, contains t' m = true -> In m nw' \/ contains ext0 m = true \/ contains tA m = true.
    Proof.
      intros m C. unfold t', t1 in C. rewrite !contains_app in C. apply orb_true_iff in C.
      destruct C as [C | C]; [left; apply contains_recs in C; exact C|].
      apply orb_true_iff in C. tauto.
    Qed.

    Lemma ps_live : live_count t' = 1%nat /\ exists c' pp t0, t' = R c' pp false :: t0 /\ wf t0 /\ hd_error nw' = Some c'.
    Proof.
      pose proof ps_wf as W'. destruct ps_nonempty as (c' & older & E).
      assert (V : forall h, In h nw' -> 1 <= gen h).
      { intros h Ih.
        assert (C : contains t' h = true).
        { unfold t'. rewrite contains_app. apply orb_true_iff. left. apply contains_recs. exact Ih. }
        apply contains_in in C. apply in_map_iff in C. destruct C as (q & Eq & Iq). rewrite <- Eq.
        destruct W' as (_ & V' & _). auto. }
      destruct (add_hist_wf nw' t1 p false t' W1 V ps_add) as (_ & _ & H).
      destruct H as [Cnt (h & pp & t0 & Et & W0)]; [rewrite E; discriminate|].
      split.
      - destruct LC as [[E0 Ep] | Z].
        + unfold t1 in *. rewrite E0 in *. cbn [app] in *. rewrite Ep in Cnt.
          destruct (cur A) as [ca|] eqn:CA.
          * destruct (linv_curA mkdig A B ca L CA) as (LCA & LLA & _).
            fold tA in LCA, LLA. rewrite LCA, LLA in Cnt. lia.
          * unfold cur in CA. fold tA in CA. rewrite (tcur_none_nil _ WA CA) in Cnt. cbn in Cnt. lia.
        + rewrite Z, (live_count_zero_no_leaf t1 p Z) in Cnt. lia.
      - exists h, pp, t0. split; auto. split; auto.
        unfold t' in Et. rewrite E in Et. cbn [recs app] in Et. inversion Et. rewrite E. cbn [hd_error]. congruence.
    Qed.

    Lemma ps_cur : exists c', hd_error nw' = Some c' /\ tcur t' = Some c' /\ del_of t' (Some c') = false.
    Proof.
      pose proof ps_wf as W'. destruct ps_live as (LC' & c' & pp & t0 & Et & W0 & Hd). exists c'. split; auto.
      apply unique_live; auto. rewrite Et. apply head_live_leaf; auto. rewrite <- Et. exact W'.
    Qed.

    Lemma ps_history_old : forall m, contains tA m = true -> history t' m = history tA m.
    Proof.
      pose proof ps_wf as W'. intros m C. unfold t', t1. rewrite app_assoc. apply history_app_old; auto.
      rewrite <- app_assoc. exact W'.
    Qed.

    (* the record that tombstones the old current revision *)
    Lemma ps_ext0 : forall q, In q ext0 -> exists ca, cur A = Some ca /\ q = R (mkid (Some ca) b_tomb) (Some ca) true.
    Proof.
      intros q Iq. destruct Hext0 as [-> | (ca & CA & ->)]; [destruct Iq|].
      destruct Iq as [<- | []]. eauto.
    Qed.

    Lemma ps_rec_nontomb : forall q, In q (recs nw' p false) -> rdel q = false /\ nontomb (rid q) (rpar q).
    Proof.
      intros q Iq. split; [eapply recs_live; eauto|].
      destruct (recs_gen mkdig _ _ _ GH q Iq) as [b' Eb'].
      destruct (recs_in _ _ _ _ Iq) as [Inw _].
      destruct Hnw as (pre & n & E & Hpre & HB). rewrite E in Inw. apply in_app_or in Inw.
      destruct Inw as [Ip | Ib].
      - destruct Hpre as [-> | (lb & Nlb & ->)]; [destruct Ip|]. destruct Ip as [Ep | []].
        exists b'. split; auto. rewrite Eb' in Ep. apply (mkid_inj mkdig mkdig_inj) in Ep. destruct Ep. congruence.
      - destruct (bnode A B cb (rid q) L (HB _ Ib)) as (qb & _ & _ & (b2 & E2 & N2)).
        exists b'. split; auto. rewrite Eb' in E2. apply (mkid_inj mkdig mkdig_inj) in E2. destruct E2. congruence.
    Qed.

    Lemma ps_linv : linv (P t' ((wid (hd_error nw'), bb) :: bod1)) B.
    Proof.
      pose proof ps_wf as W'. destruct ps_cur as (c' & Hd & CU & DU).
      constructor; cbn [ptree pbody]; try (apply L).
      - exact ps_tinv.
      - right. apply ps_live.
      - (* nt_tree *)
        intros q Iq. unfold t', t1 in Iq. apply in_app_or in Iq. destruct Iq as [Iq | Iq].
        + right. apply ps_rec_nontomb. exact Iq.
        + apply in_app_or in Iq. destruct Iq as [Iq | Iq]; [|apply (li_ntA _ _ _ L); exact Iq].
          destruct (ps_ext0 q Iq) as (ca & _ & ->). left. split; [reflexivity | exists ca; reflexivity].
      - (* del_leaf *)
        intros q Iq Dq. unfold t', t1 in *. rewrite !is_parent_app.
        apply in_app_or in Iq. destruct Iq as [Iq | Iq]; [destruct (ps_rec_nontomb q Iq); congruence|].
        assert (TOMB : exists l, rid q = mkid (Some l) b_tomb).
        { apply in_app_or in Iq. destruct Iq as [Iq | Iq].
          - destruct (ps_ext0 q Iq) as (ca & _ & ->). exists ca. reflexivity.
          - destruct (li_ntA _ _ _ L q Iq) as [[_ H] | [D _]]; [exact H | congruence]. }
        destruct TOMB as [l El].
        assert (C1 : contains (ext0 ++ tA) (rid q) = true).
        { apply contains_in. apply in_map. exact Iq. }
        assert (P1 : is_parent (recs nw' p false) (rid q) = false).
        { apply not_true_is_false. intros H. apply recs_parent in H. destruct H as [H | H].
          - rewrite (NI _ H) in C1. discriminate.
          - destruct (bnode A B cb (rid q) L (KB _ H)) as (qb & _ & _ & NT). eapply tomb_clash; eauto. }
        rewrite P1. cbn [orb].
        apply in_app_or in Iq. destruct Iq as [Iq | Iq].
        + (* the fresh tombstone *)
          destruct (ps_ext0 q Iq) as (ca & CA & ->). cbn [rid] in *.
          destruct Hext0 as [E0 | (ca' & CA' & E0)]; [rewrite E0 in Iq; destruct Iq|].
          rewrite CA in CA'. inversion CA'; subst ca'. rewrite E0 in *.
          assert (NCt : contains tA (mkid (Some ca) b_tomb) = false).
          { destruct W1 as (ND & _). cbn [app map rid] in ND. inversion ND. apply contains_false. assumption. }
          rewrite (not_contained_not_parent tA _ WA NCt), orb_false_r.
          cbn [is_parent existsb rpar orb]. rewrite orb_false_r.
          apply not_true_is_false. intros H. apply opt_id_eqb_eq in H. inversion H as [H1].
          destruct (cur_contains _ _ WA CA) as [Cca _]. fold tA in NCt. rewrite <- H1 in NCt. congruence.
        + (* an old tombstone *)
          pose proof (li_dl _ _ _ L q Iq Dq) as DLq. fold tA in DLq. rewrite DLq, orb_false_r.
          destruct Hext0 as [-> | (ca & CA & ->)]; [reflexivity|].
          cbn [is_parent existsb rpar orb]. rewrite orb_false_r.
          apply not_true_is_false. intros H. apply opt_id_eqb_eq in H. inversion H as [H1].
          destruct (linv_curA mkdig A B ca L CA) as (_ & _ & D). unfold cur_del in D. rewrite CA, H1 in D.
          fold tA in D. rewrite (del_of_in tA q WA Iq) in D. congruence.
      - (* li_below *)
        intros m ca' Cm Bm CA'. unfold cur in CA'. cbn [ptree] in CA'. rewrite CU in CA'. inversion CA'; subst ca'.
        unfold below in Bm. rewrite CBc in Bm. cbn [ptree] in Bm.
        assert (Ccb' : contains t' cb = true).
        { unfold t'. rewrite contains_app. apply orb_true_iff. left. apply contains_recs.
          destruct Hnw as (pre & n & E & _ & _). rewrite E. apply in_or_app. right. left. reflexivity. }
        assert (CBC : In cb (history t' c')).
        { destruct Hnw as (pre & n & E & Hpre & _). destruct Hpre as [-> | (lb & _ & ->)].
          - cbn [app] in E. rewrite E in Hd. inversion Hd; subst c'. apply history_head_in; auto.
          - cbn [app] in E. rewrite E in Hd. inversion Hd; subst c'.
            assert (Cn : contains t' (mkid (Some cb) lb) = true).
            { unfold t'. rewrite contains_app. apply orb_true_iff. left. apply contains_recs. rewrite E. left. reflexivity. }
            apply contains_in in Cn. apply in_map_iff in Cn. destruct Cn as (q & Eq & Iq).
            rewrite <- Eq, (history_step t' q W' Iq).
            rewrite (gen_parent mkdig mkdig_inj t' q (Some cb) lb ps_tinv Iq Eq). right. apply history_head_in; auto. }
        destruct (ps_contains m Cm) as [Inw | [Ce | Ca]].
        + destruct Hnw as (pre & n & E & Hpre & HB). rewrite E in Inw. apply in_app_or in Inw. destruct Inw as [Ip | Ib].
          * destruct Hpre as [-> | (lb & _ & ->)]; [destruct Ip|]. destruct Ip as [<- | []].
            cbn [app] in E. rewrite E in Hd. inversion Hd. apply history_head_in; auto.
          * assert (m = cb).
            { destruct (history_gen _ _ _ (proj1 (li_B _ _ _ L)) (HB _ Ib)) as [-> | Lt]; auto.
              destruct (history_gen _ _ _ W' Bm) as [-> | Lt']; auto. lia. }
            subst m. exact CBC.
        + exfalso. apply contains_in in Ce. apply in_map_iff in Ce. destruct Ce as (q & Eq & Iq).
          destruct (ps_ext0 q Iq) as (ca & CA & ->). cbn [rid] in Eq. subst m.
          assert (Iq' : In (R (mkid (Some ca) b_tomb) (Some ca) true) t').
          { unfold t', t1. apply in_or_app. right. apply in_or_app. left. exact Iq. }
          change (mkid (Some ca) b_tomb) with (rid (R (mkid (Some ca) b_tomb) (Some ca) true)) in Bm.
          rewrite (history_step t' _ W' Iq') in Bm. cbn [rid rpar] in Bm.
          destruct (cur_contains _ _ WA CA) as [Cca _].
          destruct Bm as [Bm | Bm].
          * destruct (bnode A B cb cb L) as (qb & _ & _ & NT).
            { apply history_head_in; [apply (li_B _ _ _ L)|]. destruct (cur_contains _ _ (proj1 (li_B _ _ _ L)) CBc). assumption. }
            eapply tomb_clash; eauto.
          * rewrite (ps_history_old ca Cca) in Bm. apply history_in in Bm. fold tA in NC. congruence.
        + exfalso. rewrite (ps_history_old m Ca) in Bm. apply history_in in Bm. fold tA in NC. congruence.
      - (* bodies_ok *)
        intros i b0 [H | H]; [|apply BO1; exact H]. inversion H; subst. destruct BB as [N (par & E)].
        split; auto. exists par. left. exact E.
      - (* body_present *)
        intros c Cc. unfold cur in Cc. cbn [ptree] in Cc. rewrite CU in Cc. inversion Cc; subst c.
        exists bb. cbn [pbody lookup_body]. rewrite Hd. cbn [wid]. rewrite revid_eqb_refl. reflexivity.
    Qed.

    Lemma ps_contains_cb : contains t' cb = true.
    Proof.
      unfold t'. rewrite contains_app. apply orb_true_iff. left. apply contains_recs.
      destruct Hnw as (pre & n & E & _ & _). rewrite E. apply in_or_app. right. left. reflexivity.
    Qed.
  End PullShape.
End Shape.
