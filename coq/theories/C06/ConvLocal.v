(* C06 proofs, part 6: local writes preserve the invariant of ConvDefs. *)
From SG Require Import Base.Prelude C04.OrderProofs C04.WinnerProofs C04.WfProofs C04.FlagsProofs
  C04.PushProofs C04.DocProofs C06.Replication C06.InvProofs C06.TransferProofs C06.TreeLemmas C06.ConvDefs.
Open Scope N_scope.

Section Local.
  Variable mkdig : option revid -> body -> list N.
  Hypothesis mkdig_inj : forall p b p' b',
    gen (wid p) = gen (wid p') -> mkdig p b = mkdig p' b' -> p = p' /\ b = b'.
  Notation mkid := (mkid mkdig).
  Notation linv := (linv mkdig).

  Lemma live_cur : forall t, wf t -> live_count t = 1%nat ->
    exists c, tcur t = Some c /\ live_leaf t (Some c) = true /\ del_of t (Some c) = false.
  Proof.
    intros t W LC. unfold live_count in LC.
    destruct (filter live (leaves t)) as [|l L] eqn:F; [discriminate|].
    assert (I : In l (filter live (leaves t))) by (rewrite F; left; reflexivity).
    apply filter_In in I. destruct I as [Il Ll]. unfold live in Ll. apply negb_true_iff in Ll.
    assert (LL : live_leaf t (Some (rid l)) = true) by (apply live_leaf_iff; exists l; auto).
    assert (LC' : live_count t = 1%nat) by (unfold live_count; rewrite F; exact LC).
    destruct (unique_live t (rid l) W LC' LL). exists (rid l). auto.
  Qed.

  Lemma tcur_nil : tcur [] = None.
  Proof. reflexivity. Qed.

  Lemma linv_curA : forall A B c, linv A B -> cur A = Some c ->
    live_count (ptree A) = 1%nat /\ live_leaf (ptree A) (Some c) = true /\ cur_del A = false.
  Proof.
    intros A B c L C. destruct (li_live _ _ _ L) as [E | LC].
    - unfold cur in C. rewrite E in C. discriminate.
    - destruct (live_cur _ (proj1 (li_A _ _ _ L)) LC) as (c' & E & LL & D).
      unfold cur in C. rewrite C in E. inversion E; subst c'. unfold cur_del, cur. rewrite C. auto.
  Qed.

  Lemma linv_curB : forall A B, linv A B ->
    cur B = hd_error (map rid (ptree B)) /\ cur_del B = false.
  Proof.
    intros A B L. pose proof (proj1 (li_B _ _ _ L)) as W. pose proof (li_chain _ _ _ L) as C.
    unfold cur_del, cur. destruct (ptree B) as [|r t]; [split; reflexivity|].
    destruct (chainlist_cur r t W C) as [E D]. rewrite E. auto.
  Qed.

  (* ---------- a write on the active side ---------- *)
  Lemma write_A : forall A B b, linv A B -> b <> b_tomb -> linv (add_leaf mkdig A (cur A) b false b) B.
  Proof.
    intros A B b L NB. unfold add_leaf.
    destruct (add (ptree A) (R (mkid (cur A) b) (cur A) false)) as [t'|] eqn:E; auto.
    pose proof (li_A _ _ _ L) as TA. destruct (add_inv mkdig _ _ _ _ _ TA E) as [T' ->].
    set (n := mkid (cur A) b) in *. set (r := R n (cur A) false) in *.
    pose proof (proj1 TA) as W. pose proof (proj1 T') as W'.
    assert (LC' : live_count (r :: ptree A) = 1%nat).
    { pose proof (live_count_add (ptree A) r W W') as LA. cbn [rpar rdel r] in LA.
      destruct (li_live _ _ _ L) as [E0 | LC].
      - assert (Z1 : live_leaf (ptree A) (cur A) = false) by (unfold cur; rewrite E0; reflexivity).
        assert (Z2 : live_count (ptree A) = 0%nat) by (rewrite E0; reflexivity).
        rewrite Z1, Z2 in LA. lia.
      - destruct (live_cur _ W LC) as (c & Ec & LL & _).
        assert (Z1 : live_leaf (ptree A) (cur A) = true) by (unfold cur; rewrite Ec; exact LL).
        rewrite Z1 in LA. lia. }
    assert (CU : tcur (r :: ptree A) = Some n /\ del_of (r :: ptree A) (Some n) = false).
    { apply unique_live; auto. apply (head_live_leaf (ptree A) n (cur A) W W'). }
    constructor; cbn [ptree pbody]; try (apply L).
    - exact T'.
    - right. exact LC'.
    - intros q [<- | Iq]; [|apply (li_ntA _ _ _ L); exact Iq].
      right. split; [reflexivity|]. exists b. cbn [rid rpar r]. auto.
    - intros q [<- | Iq] Dq; [discriminate|].
      rewrite is_parent_cons. rewrite (li_dl _ _ _ L q Iq Dq), orb_false_r. cbn [rpar r].
      destruct (opt_id_eqb (cur A) (Some (rid q))) eqn:EQ; auto. apply opt_id_eqb_eq in EQ.
      destruct (linv_curA A B (rid q) L EQ) as (_ & _ & D). unfold cur_del in D. rewrite EQ in D.
      rewrite (del_of_in (ptree A) q W Iq) in D. congruence.
    - intros m ca Cm Bm Cu. unfold cur in Cu. cbn [ptree] in Cu. rewrite (proj1 CU) in Cu. inversion Cu; subst ca.
      rewrite contains_cons in Cm. cbn [rid r] in Cm. apply orb_true_iff in Cm. destruct Cm as [Em | Cm].
      + apply revid_eqb_eq in Em. subst m. apply history_head_in; auto.
        rewrite contains_cons. cbn [rid r]. rewrite revid_eqb_refl. reflexivity.
      + change (r :: ptree A) with ([r] ++ ptree A) in *.
        assert (Hm : history ([r] ++ ptree A) m = history (ptree A) m) by (apply history_app_old; auto).
        assert (Bm' : below (ptree A) (cur B) m).
        { unfold below in *. destruct (cur B); auto. rewrite <- Hm. exact Bm. }
        destruct (cur A) as [ca|] eqn:CA.
        * pose proof (li_below _ _ _ L m ca Cm Bm' CA) as Im.
          change (In m (history ([r] ++ ptree A) (rid r))).
          rewrite (history_step ([r] ++ ptree A) r W' (or_introl eq_refl)). cbn [rid rpar r]. right.
          rewrite history_app_old; auto.
          destruct (cur_contains _ _ W CA). assumption.
        * unfold cur in CA. rewrite (tcur_none_nil _ W CA) in Cm. discriminate.
    - intros i b0 [H | H]; [inversion H; subst; split; auto; exists (cur A); left; reflexivity | apply (li_boA _ _ _ L); exact H].
    - intros c Cc. unfold cur in Cc. cbn [ptree] in Cc. rewrite (proj1 CU) in Cc. inversion Cc; subst c.
      exists b. cbn [pbody lookup_body]. rewrite revid_eqb_refl. reflexivity.
  Qed.

  (* ---------- a write on the passive side ---------- *)
  Lemma write_B : forall A B b, linv A B -> b <> b_tomb -> linv A (add_leaf mkdig B (cur B) b false b).
  Proof.
    intros A B b L NB. unfold add_leaf.
    destruct (add (ptree B) (R (mkid (cur B) b) (cur B) false)) as [t'|] eqn:E; auto.
    pose proof (li_B _ _ _ L) as TB. destruct (add_inv mkdig _ _ _ _ _ TB E) as [T' ->].
    set (n := mkid (cur B) b) in *. set (r := R n (cur B) false) in *.
    pose proof (proj1 T') as W'. pose proof (proj1 (li_A _ _ _ L)) as WA.
    destruct (linv_curB A B L) as [CB _].
    assert (CH : chainlist (r :: ptree B)).
    { cbn [chainlist rdel rpar r]. split; auto. split; auto. apply (li_chain _ _ _ L). }
    destruct (chainlist_cur r (ptree B) W' CH) as [CU _].
    constructor; cbn [ptree pbody]; try (apply L).
    - exact T'.
    - exact CH.
    - intros q [<- | Iq]; [|apply (li_ntB _ _ _ L); exact Iq].
      right. split; [reflexivity|]. exists b. cbn [rid rpar r]. auto.
    - intros m ca Cm Bm CA. unfold below, cur in Bm. cbn [ptree] in Bm. rewrite CU in Bm. cbn [rid r] in Bm.
      apply (li_below _ _ _ L m ca Cm); auto.
      pose proof (history_in _ _ _ Bm) as Cn. apply contains_in in Cn. apply in_map_iff in Cn.
      destruct Cn as (q & Eq & Iq).
      pose proof (gen_parent mkdig mkdig_inj (ptree A) q (cur B) b (li_A _ _ _ L) Iq Eq) as Pq.
      unfold below. destruct (cur B) as [c|] eqn:CBe; auto.
      apply (history_trans (ptree A) m n c WA Bm).
      rewrite <- Eq, (history_step (ptree A) q WA Iq), Pq. right.
      apply history_head_in; auto. destruct WA as (_ & _ & PP). destruct (PP q c Iq Pq). assumption.
    - intros i b0 [H | H]; [inversion H; subst; split; auto; exists (cur B); left; reflexivity | apply (li_boB _ _ _ L); exact H].
    - intros c Cc. unfold cur in Cc. cbn [ptree] in Cc. rewrite CU in Cc. inversion Cc; subst c.
      exists b. cbn [pbody lookup_body]. rewrite revid_eqb_refl. reflexivity.
  Qed.

  Lemma edit_is_write : forall A B p, linv A B -> (p = A \/ p = B) -> forall b, edit mkdig p b = add_leaf mkdig p (cur p) b false b.
  Proof.
    intros A B p L [-> | ->] b; unfold edit.
    - destruct (cur A) as [c|] eqn:C; auto. destruct (linv_curA A B c L C) as (_ & _ & ->). reflexivity.
    - destruct (cur B) as [c|] eqn:C; auto. destruct (linv_curB A B L) as [_ ->]. reflexivity.
  Qed.

  Lemma resurrect_noop : forall A B p, linv A B -> (p = A \/ p = B) -> forall b, resurrect mkdig p b = p.
  Proof.
    intros A B p L [-> | ->] b; unfold resurrect.
    - destruct (cur A) as [c|] eqn:C; auto. destruct (linv_curA A B c L C) as (_ & _ & ->). reflexivity.
    - destruct (cur B) as [c|] eqn:C; auto. destruct (linv_curB A B L) as [_ ->]. reflexivity.
  Qed.
End Local.
