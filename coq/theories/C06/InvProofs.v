(* C06 proofs, part 2: every reachable state of the two-peer system holds well-formed revision trees whose
   ids are the digests of (parent, body) -- for ALL operation lists, deletes and resurrections included. *)
From SG Require Import Base.Prelude C04.OrderProofs C04.WinnerProofs C04.WfProofs C04.FlagsProofs
  C04.PushProofs C04.DocProofs C06.Replication.
Open Scope N_scope.

Section Inv.
  Variable mkdig : option revid -> body -> list N.
  Notation mkid := (mkid mkdig).

  (* every record's id is the digest of its parent and some body *)
  Definition gen_tree (t : tree) : Prop := forall r, In r t -> exists b, rid r = mkid (rpar r) b.
  Definition tinv (t : tree) : Prop := wf t /\ gen_tree t.
  Definition pinv (p : pdoc) : Prop := tinv (ptree p).

  Lemma mkid_gen : forall p b, gen (mkid p b) = gen (wid p) + 1.
  Proof. reflexivity. Qed.
  Lemma mkid_gen_pos : forall p b, 1 <= gen (mkid p b).
  Proof. intros. rewrite mkid_gen. lia. Qed.

  Lemma tinv_nil : tinv [].
  Proof. split; [apply wf_nil | intros r []]. Qed.

  Lemma add_inv : forall t par b del t', tinv t -> add t (R (mkid par b) par del) = Some t' ->
    tinv t' /\ t' = R (mkid par b) par del :: t.
  Proof.
    intros t par b del t' [W G] H.
    destruct (add_wf t (R (mkid par b) par del) t' W (mkid_gen_pos par b) H) as [-> W'].
    split; [|reflexivity]. split; auto.
    intros r [<- | I]; [exists b; reflexivity | apply G; assumption].
  Qed.

  (* a history whose every element is the digest of the next one (of [base] for the last) *)
  Fixpoint ghist (nw : list revid) (base : option revid) : Prop :=
    match nw with
    | [] => True
    | h :: older => (exists b, h = mkid (par_of older base) b) /\ ghist older base
    end.

  Lemma add_hist_inv : forall nw t base del t', tinv t -> ghist nw base ->
    add_hist t nw base del = Some t' ->
    tinv t' /\ (forall i, contains t' i = true <-> contains t i = true \/ In i nw).
  Proof.
    induction nw as [|h older IH]; intros t base del t' T G H; cbn [add_hist] in H.
    - inversion H; subst. split; auto. intros i. split; auto. intros [C | []]; auto.
    - destruct (add_hist t older base false) as [t1|] eqn:E1; [|congruence].
      destruct G as [[b Hb] G].
      destruct (IH t base false t1 T G E1) as [T1 C1].
      change (match older with [] => base | o :: _ => Some o end) with (par_of older base) in H.
      rewrite Hb in H.
      destruct (add_inv t1 _ b del t' T1 H) as [T' ->].
      split; auto. intros i. rewrite contains_cons. cbn [rid]. rewrite orb_true_iff, C1, revid_eqb_eq.
      rewrite <- Hb. cbn [In]. intuition.
  Qed.

  Lemma ghist_split : forall nw known, ghist (nw ++ known) None -> ghist nw (hd_error known).
  Proof.
    induction nw as [|h older IH]; intros known G; cbn [app ghist] in *; auto.
    destruct G as [[b Hb] G]. split; [|apply IH; assumption].
    exists b. rewrite Hb. f_equal.
    destruct older as [|o r]; [destruct known; reflexivity | reflexivity].
  Qed.

  Lemma ghist_ext : forall l b, ghist l None -> ghist (mkid (hd_error l) b :: l) None.
  Proof.
    intros l b G. cbn [ghist]. split; auto. exists b. reflexivity.
  Qed.

  Lemma inject_fillers_ghist : forall n l, ghist l None -> ghist (inject_fillers mkdig n l) None.
  Proof.
    induction n as [|n IH]; intros l G; cbn [inject_fillers]; auto.
    apply IH. apply ghist_ext. assumption.
  Qed.

  Lemma chain_S : forall f t i, chain (S f) t i =
    match find_rev t i with
    | None => []
    | Some r => i :: match rpar r with None => [] | Some p => chain f t p end
    end.
  Proof. reflexivity. Qed.

  Lemma chain_ghist : forall t, tinv t -> forall f i, (N.to_nat (gen i) <= f)%nat -> ghist (chain f t i) None.
  Proof.
    intros t [W G]. induction f as [|f IH]; intros i L; [exact Logic.I|].
    rewrite chain_S. destruct (find_rev t i) as [r|] eqn:F; [|exact Logic.I].
    apply find_rev_some in F. destruct F as [Ir Er].
    destruct (G r Ir) as [b Hb]. rewrite Er in Hb.
    destruct (rpar r) as [p|] eqn:P.
    - destruct W as (ND & V & PP). destruct (PP r p Ir P) as [Cp Lt].
      rewrite Er in Lt.
      assert (Lp : (N.to_nat (gen p) <= f)%nat) by lia.
      cbn [ghist]. split; [|apply IH; assumption].
      exists b. rewrite Hb. f_equal.
      destruct f as [|f']; [exfalso|].
      + apply contains_in in Cp. apply in_map_iff in Cp. destruct Cp as (q & Eq & Iq).
        pose proof (V q Iq). rewrite Eq in H. lia.
      + rewrite chain_S. unfold contains in Cp. destruct (find_rev t p); [reflexivity | discriminate].
    - cbn [ghist]. split; auto. exists b. exact Hb.
  Qed.

  Lemma history_ghist : forall t i, tinv t -> ghist (history t i) None.
  Proof. intros t i T. unfold history. apply chain_ghist; auto. Qed.

  (* ---------- local writes ---------- *)
  Lemma add_leaf_inv : forall p par b del st, pinv p -> pinv (add_leaf mkdig p par b del st).
  Proof.
    intros p par b del st T. unfold add_leaf.
    destruct (add (ptree p) _) as [t'|] eqn:E; auto.
    destruct (add_inv _ _ _ _ _ T E) as [T' _]. exact T'.
  Qed.

  Lemma edit_inv : forall p b, pinv p -> pinv (edit mkdig p b).
  Proof. intros p b T. unfold edit. destruct (cur p); [destruct (cur_del p)|]; auto using add_leaf_inv. Qed.
  Lemma delete_inv : forall p, pinv p -> pinv (delete mkdig p).
  Proof. intros p T. unfold delete. destruct (cur p); [destruct (cur_del p)|]; auto using add_leaf_inv. Qed.
  Lemma resurrect_inv : forall p b, pinv p -> pinv (resurrect mkdig p b).
  Proof. intros p b T. unfold resurrect. destruct (cur p); [destruct (cur_del p)|]; auto using add_leaf_inv. Qed.

  (* ---------- transfers ---------- *)
  Lemma tombstone_local_inv : forall p l ldel p1, pinv p -> tombstone_local mkdig p l ldel = Some p1 -> pinv p1.
  Proof.
    intros p l ldel p1 T H. unfold tombstone_local in H. destruct ldel; [inversion H; subst; auto|].
    destruct (add (ptree p) _) as [t'|] eqn:E; [|discriminate]. inversion H; subst.
    destruct (add_inv _ _ _ _ _ T E) as [T' _]. exact T'.
  Qed.

  Lemma finish_put_inv : forall p hist del b p' st, pinv p -> ghist hist None ->
    finish_put p hist del b = (p', st) -> pinv p'.
  Proof.
    intros p hist del b p' st T G H. unfold finish_put in H.
    destruct (split_known (ptree p) hist) as [nw parent] eqn:S.
    destruct (split_known_spec _ _ _ _ S) as (known & -> & -> & _ & _).
    destruct (add_hist (ptree p) nw (hd_error known) del) as [t'|] eqn:E; inversion H; subst; auto.
    destruct (add_hist_inv _ _ _ _ _ T (ghist_split _ _ G) E) as [T' _]. exact T'.
  Qed.

  Lemma local_wins_rewrite_ghist : forall l ldel lbody hist h' d' b', ghist hist None ->
    local_wins_rewrite mkdig l ldel lbody hist = (h', d', b') -> ghist h' None.
  Proof.
    intros l ldel lbody hist h' d' b' G H. unfold local_wins_rewrite in H.
    destruct ldel; inversion H; subst; apply ghist_ext; auto using inject_fillers_ghist.
  Qed.

  Lemma put_existing_inv : forall res force p hist del b p' st, pinv p -> ghist hist None ->
    put_existing mkdig res force p hist del b = (p', st) -> pinv p'.
  Proof.
    intros res force p hist del b p' st T G H. unfold put_existing in H.
    destruct (split_known (ptree p) hist) as [nw parent] eqn:S.
    destruct nw as [|n0 nw']; [inversion H; subst; auto|].
    destruct (negb _ && illegal_conflict _ _ _ _ _ _) eqn:C.
    - destruct res as [f|]; [|inversion H; subst; auto].
      destruct (dcur (update_flags (ptree p))) as [l|]; [|inversion H; subst; auto].
      destruct (f _ _ _ _ _ _) as [| |mb].
      + destruct (local_wins_rewrite mkdig l _ _ hist) as [[h' d'] b'] eqn:LW.
        pose proof (local_wins_rewrite_ghist _ _ _ _ _ _ _ G LW) as G'.
        destruct (tombstone_local mkdig p l _) as [p1|] eqn:TL; [|inversion H; subst; auto].
        pose proof (tombstone_local_inv _ _ _ _ T TL) as T1.
        destruct (finish_put p1 h' d' b') as [p2 st2] eqn:F.
        pose proof (finish_put_inv _ _ _ _ _ _ T1 G' F) as T2.
        destruct st2; inversion H; subst; auto.
      + destruct (tombstone_local mkdig p l _) as [p1|] eqn:TL; [|inversion H; subst; auto].
        pose proof (tombstone_local_inv _ _ _ _ T TL) as T1.
        destruct (finish_put p1 hist del b) as [p2 st2] eqn:F.
        pose proof (finish_put_inv _ _ _ _ _ _ T1 G F) as T2.
        destruct st2; inversion H; subst; auto.
      + destruct (tombstone_local mkdig p l _) as [p1|] eqn:TL; [|inversion H; subst; auto].
        pose proof (tombstone_local_inv _ _ _ _ T TL) as T1.
        destruct (finish_put p1 (mkid (hd_error hist) mb :: hist) _ mb) as [p2 st2] eqn:F.
        pose proof (finish_put_inv _ _ _ _ _ _ T1 (ghist_ext _ _ G) F) as T2.
        destruct st2; inversion H; subst; auto.
    - eapply finish_put_inv; eauto.
  Qed.

  Lemma transfer_inv : forall res src dst, pinv src -> pinv dst -> pinv (fst (transfer mkdig res src dst)).
  Proof.
    intros res src dst Ts Td. unfold transfer, offer.
    destruct (cur src) as [c|]; [|exact Td].
    destruct (rev_diff _ _); [exact Td|].
    destruct (unsendable _ _); [exact Td|].
    destruct (put_existing _ _ _ _ _ _ _) as [p' st] eqn:E. cbn [fst].
    eapply put_existing_inv; eauto. apply history_ghist. exact Ts.
  Qed.

  Definition dinv (v : dstate) : Prop := pinv (fst v) /\ pinv (snd v).
  Definition sinv (s : sys) : Prop := forall d, dinv (s d).

  Lemma dstep_inv : forall v o, dinv v -> dinv (fst (dstep mkdig v o)).
  Proof.
    intros [a p] o [Ta Tp]. cbn [fst snd] in *.
    destruct o as [sd d b | sd d | sd d b | d | d | f d]; cbn [dstep].
    - destruct sd; split; cbn; auto using edit_inv.
    - destruct sd; split; cbn; auto using delete_inv.
    - destruct sd; split; cbn; auto using resurrect_inv.
    - cbn [fst snd]. destruct (transfer mkdig None a p) as [q st] eqn:E. split; cbn [fst snd]; auto.
      change q with (fst (q, st)). rewrite <- E. apply transfer_inv; auto.
    - cbn [fst snd]. destruct (transfer mkdig (Some default_policy) p a) as [q st] eqn:E. split; cbn [fst snd]; auto.
      change q with (fst (q, st)). rewrite <- E. apply transfer_inv; auto.
    - cbn [fst snd]. destruct (transfer mkdig (Some f) p a) as [q st] eqn:E. split; cbn [fst snd]; auto.
      change q with (fst (q, st)). rewrite <- E. apply transfer_inv; auto.
  Qed.

  Lemma sinv0 : sinv (sys0).
  Proof. intros d. split; apply tinv_nil. Qed.

  Lemma step_inv : forall s o, sinv s -> sinv (step mkdig s o).
  Proof.
    intros s o I d. unfold step, upd. destruct (d =? op_doc o); [apply dstep_inv; apply I | apply I].
  Qed.

  Theorem run_inv : forall ops s, sinv s -> sinv (run mkdig s ops).
  Proof.
    induction ops as [|o r IH]; intros s I; cbn; auto. apply IH. apply step_inv. exact I.
  Qed.
End Inv.
