(* C06 proofs, part 10: convergence of inter-Sync-Gateway replication with the default resolver, for every
   history without user deletes: after Pull d; Push d both peers show the same current revision, body
   and tombstone flag for d. *)
From SG Require Import Base.Prelude C04.OrderProofs C04.WinnerProofs C04.WfProofs C04.FlagsProofs
  C04.PushProofs C04.DocProofs C06.Replication C06.InvProofs C06.TransferProofs C06.TreeLemmas C06.ConvDefs
  C06.ConvLocal C06.ConvPush C06.ConvPullShape C06.ConvPull.
Open Scope N_scope.

Section Thm.
  Variable mkdig : option revid -> body -> list N.
  Hypothesis mkdig_inj : forall p b p' b',
    gen (wid p) = gen (wid p') -> mkdig p b = mkdig p' b' -> p = p' /\ b = b'.
  Notation mkid := (mkid mkdig).
  Notation linv := (linv mkdig).

  Lemma linv0 : linv pempty pempty.
  Proof.
    constructor; cbn [ptree pbody pempty]; try (apply tinv_nil); try exact Logic.I; auto.
    - intros r [].
    - intros r [].
    - intros r [].
    - intros m ca C. discriminate.
    - intros i b [].
    - intros i b [].
    - intros c C. discriminate.
    - intros c C. discriminate.
  Qed.

  Lemma dstep_linv : forall v o, linv (fst v) (snd v) -> no_delete o ->
    linv (fst (fst (dstep mkdig v o))) (snd (fst (dstep mkdig v o))).
  Proof.
    intros [A B] o L ND. cbn [fst snd] in L.
    destruct o as [sd d b | sd d | sd d b | d | d | f d]; cbn [dstep no_delete] in *.
    - destruct sd; cbn [on_side fst snd].
      + rewrite (edit_is_write mkdig A B A L (or_introl eq_refl)). apply write_A; auto.
      + rewrite (edit_is_write mkdig A B B L (or_intror eq_refl)). apply write_B; auto.
    - destruct ND.
    - destruct sd; cbn [on_side fst snd].
      + rewrite (resurrect_noop mkdig A B A L (or_introl eq_refl)). exact L.
      + rewrite (resurrect_noop mkdig A B B L (or_intror eq_refl)). exact L.
    - cbn [fst snd]. destruct (transfer mkdig None A B) as [q st] eqn:E. cbn [fst snd].
      destruct (push_result mkdig mkdig_inj A B L) as [L' _]. rewrite E in L'. exact L'.
    - cbn [fst snd]. destruct (transfer mkdig (Some default_policy) B A) as [q st] eqn:E. cbn [fst snd].
      destruct (pull_result mkdig mkdig_inj A B L) as [L' _]. rewrite E in L'. exact L'.
    - cbn [fst snd]. destruct (transfer mkdig (Some f) B A) as [q st] eqn:E. cbn [fst snd].
      destruct (pull_result_pol mkdig mkdig_inj f ND A B L) as [L' _]. rewrite E in L'. exact L'.
  Qed.

  Definition slinv (s : sys) : Prop := forall d, linv (fst (s d)) (snd (s d)).

  Lemma step_linv : forall s o, slinv s -> no_delete o -> slinv (step mkdig s o).
  Proof.
    intros s o I ND d. unfold step, upd. destruct (d =? op_doc o); [apply dstep_linv; auto | apply I].
  Qed.

  Lemma run_linv : forall ops s, slinv s -> Forall no_delete ops -> slinv (run mkdig s ops).
  Proof.
    induction ops as [|o r IH]; intros s I F; cbn; auto. inversion F; subst. apply IH; auto. apply step_linv; auto.
  Qed.

  Lemma same_body : forall A B c, linv A B -> cur A = Some c -> cur B = Some c -> cur_body A = cur_body B.
  Proof.
    intros A B c L CA CB. unfold cur_body. rewrite CA, CB.
    destruct (li_bpA _ _ _ L c CA) as [bA LA]. destruct (li_bpB _ _ _ L c CB) as [bB LB]. rewrite LA, LB. f_equal.
    pose proof (proj1 (li_B _ _ _ L)) as WB. destruct (cur_contains _ _ WB CB) as [Cc _].
    destruct (bnode mkdig A B c c L (history_head_in _ _ WB Cc)) as (q & _ & _ & (b & E & N)).
    assert (F : forall x par, x <> b_tomb -> (c = mkid par x \/ c = mkid par b_tomb) -> x = b).
    { intros x par Nx [H | H]; rewrite E in H; apply (mkid_inj mkdig mkdig_inj) in H; destruct H; congruence. }
    destruct (li_boA _ _ _ L c bA (lookup_in _ _ _ LA)) as [NA (pa & HA)].
    destruct (li_boB _ _ _ L c bB (lookup_in _ _ _ LB)) as [NB (pb & HB)].
    rewrite (F bA pa NA HA), (F bB pb NB HB). reflexivity.
  Qed.

  (* one document: pull, then push *)
  Theorem pull_push_converges_pol : forall pol, policy_ok pol -> forall A B, linv A B ->
    let A1 := fst (transfer mkdig (Some pol) B A) in
    let B1 := fst (transfer mkdig None A1 B) in
    obs A1 = obs B1 /\ linv A1 B1.
  Proof.
    intros pol POK A B L. cbn zeta.
    destruct (pull_result_pol mkdig mkdig_inj pol POK A B L) as [L1 K1].
    set (A1 := fst (transfer mkdig (Some pol) B A)) in *.
    destruct (push_result mkdig mkdig_inj A1 B L1) as [L2 K2].
    set (B1 := fst (transfer mkdig None A1 B)) in *.
    split; auto. unfold obs.
    destruct (cur A1) as [ca|] eqn:CA.
    - assert (BL : below (ptree A1) (cur B) ca).
      { unfold below. destruct (cur B) as [cb|] eqn:CB; auto.
        pose proof (K1 cb eq_refl) as Ccb.
        apply (li_below _ _ _ L1 cb ca Ccb); auto. unfold below. rewrite CB.
        apply history_head_in; auto. apply (li_A _ _ _ L1). }
      pose proof (K2 ca eq_refl BL) as CB1. rewrite CB1.
      destruct (linv_curA mkdig A1 B1 ca L2 CA) as (_ & _ & DA).
      destruct (linv_curB mkdig A1 B1 L2) as [_ DB]. rewrite DA, DB.
      rewrite (same_body A1 B1 ca L2 CA CB1). reflexivity.
    - (* the active side is empty after the pull: so is the passive side *)
      pose proof (tcur_none_nil _ (proj1 (li_A _ _ _ L1)) CA) as EA.
      assert (CB : cur B = None).
      { destruct (cur B) as [cb|] eqn:CB; auto. pose proof (K1 cb eq_refl) as C. rewrite EA in C. discriminate. }
      assert (EB1 : B1 = B).
      { unfold B1, transfer, offer. rewrite CA. reflexivity. }
      rewrite EB1. unfold cur_del, cur_body. rewrite CA, CB. reflexivity.
  Qed.

  Theorem pull_push_converges : forall A B, linv A B ->
    let A1 := fst (transfer mkdig (Some default_policy) B A) in
    let B1 := fst (transfer mkdig None A1 B) in
    obs A1 = obs B1 /\ linv A1 B1.
  Proof. exact (pull_push_converges_pol default_policy default_policy_ok). Qed.

  Lemma step_same : forall s o d, op_doc o = d -> step mkdig s o d = fst (dstep mkdig (s d) o).
  Proof. intros s o d <-. unfold step, upd. rewrite N.eqb_refl. reflexivity. Qed.

  Lemma step_other : forall s o d, d <> op_doc o -> step mkdig s o d = s d.
  Proof. intros s o d N. unfold step, upd. destruct (d =? op_doc o) eqn:E; auto. apply N.eqb_eq in E. congruence. Qed.

  (* the system: any history without user deletes, any documents, any interleaving *)
  Theorem isgr_converges_live : forall ops d, Forall no_delete ops ->
    let s := run mkdig (run mkdig sys0 ops) [Pull d; Push d] in
    obs (fst (s d)) = obs (snd (s d)).
  Proof.
    intros ops d F. cbn zeta. cbn [run fold_left].
    pose proof (run_linv ops sys0 (fun _ => linv0) F d) as L.
    set (s0 := run mkdig sys0 ops) in *.
    change (fold_left (step mkdig) ops sys0) with s0.
    rewrite (step_same (step mkdig s0 (Pull d)) (Push d) d eq_refl).
    rewrite (step_same s0 (Pull d) d eq_refl). cbn [dstep fst snd].
    destruct (s0 d) as [A B] eqn:E. cbn [fst snd] in *.
    destruct (pull_push_converges A B L) as [O _]. cbn zeta in O.
    destruct (transfer mkdig (Some default_policy) B A) as [A1 st1]. cbn [fst snd] in *.
    destruct (transfer mkdig None A1 B) as [B1 st2]. cbn [fst snd] in *. exact O.
  Qed.

  (* the same for ANY resolver (localWins, remoteWins, a custom function that may merge), which may change from
     one pull to the next (every PullP of the history carries its own) *)
  Theorem isgr_converges_live_pol : forall pol, policy_ok pol -> forall ops d, Forall no_delete ops ->
    let s := run mkdig (run mkdig sys0 ops) [PullP pol d; Push d] in
    obs (fst (s d)) = obs (snd (s d)).
  Proof.
    intros pol POK ops d F. cbn zeta. cbn [run fold_left].
    pose proof (run_linv ops sys0 (fun _ => linv0) F d) as L.
    set (s0 := run mkdig sys0 ops) in *.
    change (fold_left (step mkdig) ops sys0) with s0.
    rewrite (step_same (step mkdig s0 (PullP pol d)) (Push d) d eq_refl).
    rewrite (step_same s0 (PullP pol d) d eq_refl). cbn [dstep fst snd].
    destruct (s0 d) as [A B] eqn:E. cbn [fst snd] in *.
    destruct (pull_push_converges_pol pol POK A B L) as [O _]. cbn zeta in O.
    destruct (transfer mkdig (Some pol) B A) as [A1 st1]. cbn [fst snd] in *.
    destruct (transfer mkdig None A1 B) as [B1 st2]. cbn [fst snd] in *. exact O.
  Qed.
End Thm.
