(* C06 model, part 2b: the version-vector transfer AS THE CODE RUNS IT when the revision-tree id that a conflict
   resolution is about to write ALREADY EXISTS on the local branch.  (Deepening round; found by the harness streams
   "revclash-vv" and replayed on the real replicator.)

   VV.v resolves a conflict on the vectors and treats the revision tree as a passive by-product: resolveLocalWinsHLV
   rewrites the local body as a NEW child of the incoming revision, resolveRemoteWinsHLV stores the incoming revision
   as a NEW leaf, and both tombstone the old local revision (db/crud.go tombstoneActiveRevision).  That is only right
   when the revision they write is new.  It is not when the same document was created with the same body on both
   sides (same revision-tree id, different versions) and one side went on editing before the first replication:

     remote wins   the incoming revision id is an ANCESTOR of the local revision (not the local revision itself --
                   that case was repaired by d3fd06e): the local revision is tombstoned, the incoming revision is
                   "already there", nothing is added: the only leaf is the tombstone.  The active side ends DELETED
                   carrying the passive side's current version; the passive side stays live with the same current
                   version; every later transfer is answered "known".
     local wins    the rewritten revision CreateRevID(gen(remote)+1, remote, local body) IS the local revision (the
                   local revision is a child of the incoming one with that body) or one of its ancestors: the local
                   revision is tombstoned, the rewrite adds nothing: the winner of the conflict is deleted on the
                   active side, keeps its current version, and the tombstone is pushed to the passive side.

   [d_rev] (the path of bodies from the root) identifies revision-tree ids, so "already on the local branch" is
   "is a suffix of the local path".  Revisions on OTHER (tombstoned) branches of the local tree are not visible to
   this model (the complete tree is not modelled under v4).

   The clean functions of VV.v are kept: [fstep] coincides with [vstep] on every step without such a clash
   ([clash_free]), which is how the theorems of VVInv / VVConv carry over to the faithful model. *)
From SG Require Import Base.Prelude C10.AMap C10.HLV C06.VV.
Open Scope N_scope.

Fixpoint is_suffix (p l : list N) : bool :=
  list_eqb N.eqb p l || match l with [] => false | _ :: r => is_suffix p r end.

(* the revision-tree id [r] is a revision of the local branch *)
Definition on_branch (r : list N) (l : vdoc) : bool := is_suffix r (d_rev l).

(* the conflict between [l] (stored) and [i] (incoming) resolved as "remote wins" / "local wins" would write a
   revision-tree id the local branch already holds *)
Definition clash_remote (l i : vdoc) : bool := on_branch (d_rev i) l && negb (list_eqb N.eqb (d_rev i) (d_rev l)).
Definition clash_local (l i : vdoc) : bool := on_branch (local_wins_rev l i) l.

(* what is stored when every leaf of the local branch ends up tombstoned: the tombstone of the local revision (the
   local tombstone itself when the local document was one) under the resolved vector *)
Definition tombstoned (h : hlv) (l : vdoc) : vdoc :=
  mkD h tomb_body true (if d_del l then d_rev l else del_digest_body :: d_rev l).

Definition fresolve_remote_wins (l i : vdoc) : vdoc :=
  if clash_remote l i then tombstoned (update_with_incoming (d_hlv l) (d_hlv i)) l else resolve_remote_wins l i.

Definition fresolve_local_wins (l i : vdoc) : vdoc :=
  if clash_local l i then tombstoned (update_with_incoming (d_hlv i) (d_hlv l)) l else resolve_local_wins l i.

Definition ftransfer (resolver : bool) (sndr rcv : option vdoc) : option vdoc * vstatus :=
  match sndr with
  | None => (rcv, VNothing)
  | Some i =>
      match rcv with
      | None => (Some (adopt empty_hlv i), VApplied)
      | Some l =>
          if dominates (d_hlv l) (cv (d_hlv i)) then (rcv, VKnown)
          else if d_del i && d_del l then (Some (adopt (d_hlv l) i), VApplied)
          else match is_in_conflict (d_hlv l) (d_hlv i) with
               | AlreadyPresent => (rcv, VCancelled)
               | NoConflict => (Some (adopt (d_hlv l) i), VApplied)
               | Conflict =>
                   if resolver
                   then if lww_remote_wins l i then (Some (fresolve_remote_wins l i), VRemoteWins)
                        else (Some (fresolve_local_wins l i), VLocalWins)
                   else (rcv, VConflict)
               end
      end
  end.

(* does the transfer of [sndr] to [rcv] run a resolution that clashes? *)
Definition transfer_clashes (resolver : bool) (sndr rcv : option vdoc) : bool :=
  match sndr, rcv with
  | Some i, Some l =>
      resolver && negb (dominates (d_hlv l) (cv (d_hlv i))) && negb (d_del i && d_del l) &&
      status_eqb (is_in_conflict (d_hlv l) (d_hlv i)) Conflict &&
      (if lww_remote_wins l i then clash_remote l i else clash_local l i)
  | _, _ => false
  end.

Definition fpull_full (s : vsys) (d : N) : vsys * vstatus :=
  let '(x, st) := ftransfer true (vdoc_of s VB d) (vdoc_of s VA d) in
  (set_peer s VA (set_doc (s_act s) d x), st).

Definition fpush_full (s : vsys) (d : N) : vsys * vstatus :=
  let '(x, st) := ftransfer false (vdoc_of s VA d) (vdoc_of s VB d) in
  (set_peer s VB (set_doc (s_pas s) d x), st).

Definition fstep_full (s : vsys) (o : vop) : vsys * vstatus :=
  match o with
  | VPull d => fpull_full s d
  | VPush d => fpush_full s d
  | VPullRetry d body phys => fpull_full (edit_sys s VA d body phys) d
  | _ => vstep_full s o
  end.

Definition fstep (s : vsys) (o : vop) : vsys := fst (fstep_full s o).
Definition fstatus_of (s : vsys) (o : vop) : vstatus := snd (fstep_full s o).

Fixpoint frun (s : vsys) (ops : list vop) : vsys :=
  match ops with
  | [] => s
  | o :: r => frun (fstep s o) r
  end.

(* the step clashes *)
Definition step_clashes (s : vsys) (o : vop) : bool :=
  match o with
  | VPull d => transfer_clashes true (vdoc_of s VB d) (vdoc_of s VA d)
  | VPullRetry d body phys =>
      let s1 := edit_sys s VA d body phys in transfer_clashes true (vdoc_of s1 VB d) (vdoc_of s1 VA d)
  | _ => false
  end.

(* decidable on histories: no resolution of the history writes a revision-tree id that already exists *)
Fixpoint clash_free_from (s : vsys) (ops : list vop) : bool :=
  match ops with
  | [] => true
  | o :: r => negb (step_clashes s o) && clash_free_from (fstep s o) r
  end.
Definition clash_free (ops : list vop) : bool := clash_free_from vsys0 ops.
