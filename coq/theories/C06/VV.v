(* C06 model, part 2: replication under the VERSION-VECTOR sub-protocol (v4, the default) between two Sync
   Gateways with the default "last write wins" resolver.  Hand-written, tied to the code by the stream "vv"
   of harness/rest/verif_c06_test.go (every v4 scenario the real replicator runs is re-run here).

   Vector algebra: the C10 model of db.HybridLogicalVector (C10/HLV.v), reused unchanged.

   A peer's document is {hlv; body; deleted; revision-tree id}:
     d_hlv   the vector (current version = (src, ver), previous versions pv, merge versions mv)
     d_body  the body, interned as a number (0 = {} , the body of a tombstone)
     d_del   the tombstone flag
     d_rev   the revision-tree id of the revision that carries the current version.  md5 over (parent id, body) is
             abstracted by the path of bodies from the root (newest first; 1 stands for the body a DELETE digests):
             two ids are equal iff the paths are equal, which is what the code compares
             (resolveRemoteWinsHLV: remoteDoc.RevID != localRevID).  The complete revision tree is NOT modelled
             under v4: since commit d3fd06e nothing the tree holds influences {hlv, body, deleted} on the paths
             modelled here, and the correspondence compares exactly those three after every step.

   Sources: the active side writes as source 1, the passive side as source 2 (0 = the empty source name).

   Local writes (db/crud.go documentUpdateFunc + updateHLV, case NewVersion):
     floor = maxValueForSource(own source) on the stored vector (0 for a new document), v = hlc.Now(floor),
     AddVersion((own source, v)).  The clock of a database is shared by all its documents.  [phys] is the wall
     clock reading, an adversarial input (the harness supplies the value the implementation generated).

   One transfer of document d from a sender to a receiver (atomic per document, only the current version is offered):
     1. db/crud.go CheckChangeVersion (blip_handler.go handleChanges): unknown document -> wanted; the stored
        vector dominates the offered current version -> known, nothing is sent;
     2. db/crud.go PutExistingCurrentVersion with ISGRWrite:
          no stored document                                      -> UpdateWithIncomingHLV on an empty vector
          incoming tombstone and stored tombstone
            (ForceAllowConflictingTombstone, both directions)      -> UpdateWithIncomingHLV, no conflict check
          IsInConflict = HLVNoConflictRevAlreadyPresent            -> cancelled
          IsInConflict = HLVNoConflict                             -> UpdateWithIncomingHLV
          IsInConflict = HLVConflict, no resolver (passive side)   -> 409
          IsInConflict = HLVConflict, resolver (active side)       -> resolveHLVConflict with
               DefaultLWWConflictResolutionType: a tombstone beats a live document; otherwise the remote wins iff
               its current version VALUE is strictly greater; otherwise the local document wins
             resolveRemoteWinsHLV: local.Copy().UpdateWithIncomingHLV(remote); the incoming revision is stored
             resolveLocalWinsHLV:  remote.Copy().UpdateWithIncomingHLV(local); the local body / tombstone flag are
               rewritten as a child of the remote revision (filler revisions when the local tombstone is longer);
               the current version does not change.
   Pull d = transfer passive -> active (the active side owns the resolver); Push d = transfer active -> passive. *)
From SG Require Import Base.Prelude C10.AMap C10.HLV.
Open Scope N_scope.

Inductive vside := VA | VB.          (* active / passive *)
Definition vsrc (p : vside) : N := match p with VA => 1 | VB => 2 end.

Record vdoc := mkD { d_hlv : hlv; d_body : N; d_del : bool; d_rev : list N }.
Record vpeer := mkP { p_doc : N -> option vdoc; p_clk : N }.
Record vsys := mkS { s_act : vpeer; s_pas : vpeer }.

Definition vpeer0 : vpeer := mkP (fun _ => None) 0.
Definition vsys0 : vsys := mkS vpeer0 vpeer0.

Definition peer_of (s : vsys) (p : vside) : vpeer := match p with VA => s_act s | VB => s_pas s end.
Definition set_peer (s : vsys) (p : vside) (x : vpeer) : vsys :=
  match p with VA => mkS x (s_pas s) | VB => mkS (s_act s) x end.
Definition vdoc_of (s : vsys) (p : vside) (d : N) : option vdoc := p_doc (peer_of s p) d.
Definition updf {A} (f : N -> A) (k : N) (x : A) : N -> A := fun q => if q =? k then x else f q.

Definition tomb_body : N := 0.       (* {} *)
Definition del_digest_body : N := 1. (* what a DELETE feeds to the digest of the tombstone revision *)

(* ---------- local writes ---------- *)
Definition local_write (p : vside) (pr : vpeer) (d body : N) (del : bool) (phys : N) : vpeer :=
  let cur := p_doc pr d in
  let h0 := match cur with Some x => d_hlv x | None => empty_hlv end in
  let rev0 := match cur with Some x => d_rev x | None => [] end in
  let v := hlc_now phys (p_clk pr) (max_value_for_source h0 (vsrc p)) in
  match add_version h0 (vsrc p, v) with
  | Some h' => mkP (updf (p_doc pr) d (Some (mkD h' body del ((if del then del_digest_body else body) :: rev0)))) v
  | None => mkP (p_doc pr) v           (* AddVersion refused the value: the write fails, the clock has ticked *)
  end.

(* ---------- the default resolver ---------- *)
(* DefaultLWWConflictResolutionType: does the REMOTE document win? *)
Definition lww_remote_wins (l i : vdoc) : bool :=
  if d_del l && negb (d_del i) then false
  else if d_del i && negb (d_del l) then true
  else ver (d_hlv l) <? ver (d_hlv i).

Definition lww_winner (l i : vdoc) : vdoc := if lww_remote_wins l i then i else l.

(* the incoming revision replaces the stored one (new document, fast-forward, tombstone over tombstone, remote wins) *)
Definition adopt (hl : hlv) (i : vdoc) : vdoc :=
  mkD (update_with_incoming hl (d_hlv i)) (d_body i) (d_del i) (d_rev i).

(* resolveRemoteWinsHLV: the local revision is tombstoned in the revision tree unless the incoming revision IS the
   local revision (same revision-tree id); neither changes what is stored as {hlv, body, deleted} *)
Definition resolve_remote_wins (l i : vdoc) : vdoc := adopt (d_hlv l) i.

(* localWinsConflictResolutionRevTreeHandling: the local revision rewritten as a child of the remote one *)
Definition local_wins_rev (l i : vdoc) : list N :=
  if d_del l
  then d_body l :: repeat tomb_body (length (d_rev l) - length (d_rev i)) ++ d_rev i
  else d_body l :: d_rev i.

(* resolveLocalWinsHLV *)
Definition resolve_local_wins (l i : vdoc) : vdoc :=
  mkD (update_with_incoming (d_hlv i) (d_hlv l)) (d_body l) (d_del l) (local_wins_rev l i).

Inductive vstatus :=
| VNothing        (* the sender has no such document *)
| VKnown          (* CheckChangeVersion: the receiver's vector dominates the offered version; nothing sent *)
| VCancelled      (* sent, PutExistingCurrentVersion found it already present *)
| VApplied        (* stored without conflict *)
| VRemoteWins | VLocalWins   (* conflict, resolved by the receiver *)
| VConflict.      (* conflict, no resolver: 409 *)

Definition vstatus_eqb (a b : vstatus) : bool :=
  match a, b with
  | VNothing, VNothing | VKnown, VKnown | VCancelled, VCancelled | VApplied, VApplied
  | VRemoteWins, VRemoteWins | VLocalWins, VLocalWins | VConflict, VConflict => true
  | _, _ => false
  end.

Definition vtransfer (resolver : bool) (sndr rcv : option vdoc) : option vdoc * vstatus :=
  match sndr with
  | None => (rcv, VNothing)
  | Some i =>
      match rcv with
      | None => (Some (adopt empty_hlv i), VApplied)
      | Some l =>
          if dominates (d_hlv l) (cv (d_hlv i)) then (rcv, VKnown)
          else if d_del i && d_del l then (Some (adopt (d_hlv l) i), VApplied)
          else match is_in_conflict (d_hlv l) (d_hlv i) with
               | AlreadyPresent => (rcv, VCancelled)
               | NoConflict => (Some (adopt (d_hlv l) i), VApplied)
               | Conflict =>
                   if resolver
                   then if lww_remote_wins l i then (Some (resolve_remote_wins l i), VRemoteWins)
                        else (Some (resolve_local_wins l i), VLocalWins)
                   else (rcv, VConflict)
               end
      end
  end.

(* ---------- operations ---------- *)
Inductive vop :=
| VEdit (p : vside) (d body phys : N)      (* PUT on the current revision: create / update / resurrect *)
| VDelete (p : vside) (d phys : N)         (* DELETE of the current revision (a tombstone can be deleted again) *)
| VPull (d : N)
| VPush (d : N)
| VPullRetry (d body phys : N).
(* VPullRetry: a pull of d whose write loses its CAS to a local PUT that lands on the active side between the update
   callback and the write (db/crud.go updateAndReturnDoc: "this block can be invoked multiple times if there are
   races").  The callback -- conflict check and resolution -- is re-run on the UPDATED document against the SAME
   incoming revision and vector, and the first run leaves no trace (resolveLocalWinsHLV / resolveRemoteWinsHLV work on
   copies of the two vectors): the outcome is that of the pull made after the local PUT. *)

Definition vop_doc (o : vop) : N :=
  match o with VEdit _ d _ _ | VDelete _ d _ | VPull d | VPush d | VPullRetry d _ _ => d end.

Definition set_doc (pr : vpeer) (d : N) (x : option vdoc) : vpeer := mkP (updf (p_doc pr) d x) (p_clk pr).

Definition edit_sys (s : vsys) (p : vside) (d body phys : N) : vsys :=
  set_peer s p (local_write p (peer_of s p) d body false phys).

Definition pull_full (s : vsys) (d : N) : vsys * vstatus :=
  let '(x, st) := vtransfer true (vdoc_of s VB d) (vdoc_of s VA d) in
  (set_peer s VA (set_doc (s_act s) d x), st).

Definition push_full (s : vsys) (d : N) : vsys * vstatus :=
  let '(x, st) := vtransfer false (vdoc_of s VA d) (vdoc_of s VB d) in
  (set_peer s VB (set_doc (s_pas s) d x), st).

Definition vstep_full (s : vsys) (o : vop) : vsys * vstatus :=
  match o with
  | VEdit p d body phys => (edit_sys s p d body phys, VNothing)
  | VDelete p d phys =>
      match vdoc_of s p d with
      | Some _ => (set_peer s p (local_write p (peer_of s p) d tomb_body true phys), VNothing)
      | None => (s, VNothing)                      (* 404 *)
      end
  | VPull d => pull_full s d
  | VPush d => push_full s d
  | VPullRetry d body phys => pull_full (edit_sys s VA d body phys) d
  end.

Definition vstep (s : vsys) (o : vop) : vsys := fst (vstep_full s o).
Definition vstatus_of (s : vsys) (o : vop) : vstatus := snd (vstep_full s o).

Fixpoint vrun (s : vsys) (ops : list vop) : vsys :=
  match ops with
  | [] => s
  | o :: r => vrun (vstep s o) r
  end.

(* what the property text compares: current version, body, tombstone flag *)
Definition vobs (x : option vdoc) : option (version * N * bool) :=
  match x with Some d => Some (cv (d_hlv d), d_body d, d_del d) | None => None end.
