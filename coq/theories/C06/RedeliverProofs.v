(* C06 proofs, part 11 (deepening round): re-delivery under the revision-tree protocol.  A revision that a transfer
   delivered -- whether it was stored as it came, lost the resolution ("local wins": it is the parent of the rewritten
   local revision), won it, or was merged -- is a revision of the receiver's tree from then on, for ever (trees only
   grow), so delivering it again, at any later time and with any resolver, is answered "known" and changes nothing.
   The replicator's at-least-once delivery (the same BLIP rev twice; every change offered again after a checkpoint
   rollback) is therefore harmless. *)
From SG Require Import Base.Prelude C04.OrderProofs C04.WinnerProofs C04.WfProofs C04.FlagsProofs
  C04.PushProofs C04.DocProofs C06.Replication C06.InvProofs C06.TransferProofs.
Open Scope N_scope.

Section Redeliver.
  Variable mkdig : option revid -> body -> list N.
  Hypothesis mkdig_inj : forall p b p' b',
    gen (wid p) = gen (wid p') -> mkdig p b = mkdig p' b' -> p = p' /\ b = b'.
  Notation pinv := (pinv mkdig).

  (* p' holds every revision p holds *)
  Definition grows (p p' : pdoc) : Prop := forall x, contains (ptree p) x = true -> contains (ptree p') x = true.

  Lemma grows_refl : forall p, grows p p.
  Proof. intros p x C. exact C. Qed.
  Lemma grows_trans : forall p q r, grows p q -> grows q r -> grows p r.
  Proof. intros p q r A B x C. auto. Qed.

  Lemma add_leaf_grows : forall p par b del st, grows p (add_leaf mkdig p par b del st).
  Proof.
    intros p par b del st x C. unfold add_leaf. destruct (add (ptree p) _) as [t'|] eqn:E; auto.
    apply add_some_cons in E. destruct E as [-> _]. cbn [ptree]. rewrite contains_cons, C. apply orb_true_r.
  Qed.

  Lemma edit_grows : forall p b, grows p (edit mkdig p b).
  Proof. intros p b. unfold edit. destruct (cur p); [destruct (cur_del p)|]; auto using add_leaf_grows, grows_refl. Qed.
  Lemma delete_grows : forall p, grows p (delete mkdig p).
  Proof. intros p. unfold delete. destruct (cur p); [destruct (cur_del p)|]; auto using add_leaf_grows, grows_refl. Qed.
  Lemma resurrect_grows : forall p b, grows p (resurrect mkdig p b).
  Proof. intros p b. unfold resurrect. destruct (cur p); [destruct (cur_del p)|]; auto using add_leaf_grows, grows_refl. Qed.

  Lemma put_existing_grows : forall res force p hist del b p' st, pinv p -> ghist mkdig hist None ->
    put_existing mkdig res force p hist del b = (p', st) -> grows p p'.
  Proof.
    intros res force p hist del b p' st T G H x C. destruct (tstatus_eqb st TApplied) eqn:A.
    - assert (st = TApplied) by (destruct st; cbn in A; congruence). subst st.
      eapply (put_existing_applied mkdig mkdig_inj _ _ _ _ _ _ _ T G H). right. exact C.
    - assert (N : st <> TApplied) by (intros ->; cbn in A; congruence).
      rewrite (put_existing_unchanged mkdig _ _ _ _ _ _ _ _ H N). exact C.
  Qed.

  Lemma transfer_grows : forall res src dst, pinv src -> pinv dst -> grows dst (fst (transfer mkdig res src dst)).
  Proof.
    intros res src dst Ts Td. unfold transfer, offer.
    destruct (cur src) as [c|]; [|apply grows_refl].
    destruct (rev_diff _ _); [apply grows_refl|]. destruct (unsendable _ _); [apply grows_refl|].
    destruct (put_existing _ _ _ _ _ _ _) as [p' st] eqn:E. cbn [fst].
    eapply put_existing_grows; eauto. apply history_ghist. exact Ts.
  Qed.

  (* a delivered revision: its head is a revision of the receiver *)
  Lemma delivered_known : forall res force p hist del b p' st, pinv p -> ghist mkdig hist None -> hist <> [] ->
    put_existing mkdig res force p hist del b = (p', st) -> st = TApplied \/ st = TKnown ->
    exists c rest, hist = c :: rest /\ contains (ptree p') c = true.
  Proof.
    intros res force p hist del b p' st T G NE H S. destruct hist as [|c rest]; [congruence|]. exists c, rest. split; auto.
    destruct S as [-> | ->].
    - eapply (put_existing_applied mkdig mkdig_inj _ _ _ _ _ _ _ T G H). left. left. reflexivity.
    - unfold put_existing in H. cbn [split_known] in H. destruct (contains (ptree p) c) eqn:C.
      + inversion H; subst. exact C.
      + destruct (split_known (ptree p) rest) as [n q].
        destruct (negb _ && illegal_conflict _ _ _ _ _ _).
        * destruct res as [f|]; [|discriminate]. destruct (dcur _); [|discriminate].
          destruct (f _ _ _ _ _ _); [destruct (local_wins_rewrite _ _ _ _ _) as [[? ?] ?]| |];
            (destruct (tombstone_local _ _ _ _); [|discriminate]); destruct (finish_put _ _ _ _) as [? []]; discriminate.
        * unfold finish_put in H. destruct (split_known (ptree p) (c :: rest)). destruct (add_hist _ _ _ _); discriminate.
  Qed.

  (* ... and delivering it to any later state of the receiver changes nothing *)
  Theorem redelivery_known : forall res force p hist del b c rest, hist = c :: rest ->
    contains (ptree p) c = true -> put_existing mkdig res force p hist del b = (p, TKnown).
  Proof.
    intros res force p hist del b c rest -> C. unfold put_existing. cbn [split_known]. rewrite C. reflexivity.
  Qed.

  (* every operation of the system only adds revisions, on both sides *)
  Lemma dstep_grows : forall v o, dinv mkdig v ->
    grows (fst v) (fst (fst (dstep mkdig v o))) /\ grows (snd v) (snd (fst (dstep mkdig v o))).
  Proof.
    intros [a p] o [Ta Tp]. cbn [fst snd] in *.
    destruct o as [sd d b | sd d | sd d b | d | d | f d]; cbn [dstep fst snd].
    - destruct sd; cbn; split; auto using edit_grows, grows_refl.
    - destruct sd; cbn; split; auto using delete_grows, grows_refl.
    - destruct sd; cbn; split; auto using resurrect_grows, grows_refl.
    - pose proof (transfer_grows None a p Ta Tp) as G. destruct (transfer mkdig None a p) as [q st]. cbn [fst snd] in *.
      split; [apply grows_refl | exact G].
    - pose proof (transfer_grows (Some default_policy) p a Tp Ta) as G.
      destruct (transfer mkdig (Some default_policy) p a) as [q st]. cbn [fst snd] in *. split; [exact G | apply grows_refl].
    - pose proof (transfer_grows (Some f) p a Tp Ta) as G.
      destruct (transfer mkdig (Some f) p a) as [q st]. cbn [fst snd] in *. split; [exact G | apply grows_refl].
  Qed.

  Lemma run_grows : forall ops s d, sinv mkdig s ->
    grows (fst (s d)) (fst (run mkdig s ops d)) /\ grows (snd (s d)) (snd (run mkdig s ops d)).
  Proof.
    induction ops as [|o r IH]; intros s d I; [split; apply grows_refl|].
    cbn [run fold_left]. change (fold_left (step mkdig) r (step mkdig s o)) with (run mkdig (step mkdig s o) r).
    destruct (IH (step mkdig s o) d (step_inv mkdig s o I)) as [G1 G2].
    assert (S1 : grows (fst (s d)) (fst (step mkdig s o d)) /\ grows (snd (s d)) (snd (step mkdig s o d))).
    { unfold step, upd. destruct (d =? op_doc o) eqn:E; [|split; apply grows_refl].
      apply N.eqb_eq in E. subst d. apply dstep_grows. apply I. }
    destruct S1 as [S1 S2]. split; eapply grows_trans; eauto.
  Qed.

  (* what the sender offers in a state, and its delivery to a receiver *)
  Definition deliver (res : option policy) (msg : list revid * bool * body) (dst : pdoc) : pdoc * tstatus :=
    let '(hist, del, b) := msg in put_existing mkdig res true dst hist del b.

  (* THE THEOREM: after a pull of document d that delivered the passive side's revision (stored, resolved either
     way, merged, or already known), ANY later history, then the same message again with ANY resolver: the active
     side answers "known" and does not change.  Same for a push. *)
  Theorem pull_redelivery_noop : forall ops1 ops2 d o msg res',
    (o = Pull d \/ exists f, o = PullP f d) ->
    let s0 := run mkdig sys0 ops1 in
    offer (snd (s0 d)) = Some msg ->
    unsendable (snd (fst msg)) (snd msg) = false ->
    (step_status mkdig s0 o = TApplied \/ step_status mkdig s0 o = TKnown) ->
    let s2 := run mkdig (step mkdig s0 o) ops2 in
    deliver res' msg (fst (s2 d)) = (fst (s2 d), TKnown).
  Proof.
    intros ops1 ops2 d o [[hist del] b] res' Ho s0 Off US St s2. cbn [fst snd] in US.
    pose proof (run_inv mkdig ops1 sys0 (sinv0 mkdig)) as I0. fold s0 in I0.
    pose proof (I0 d) as [Ta Tp]. destruct (s0 d) as [A B] eqn:E. cbn [fst snd] in *.
    assert (G : ghist mkdig hist None /\ hist <> []).
    { unfold offer in Off. destruct (cur B) as [c|] eqn:CB; [|discriminate]. inversion Off; subst.
      split; [apply history_ghist; exact Tp|].
      destruct (cur_contains _ _ (proj1 Tp) CB) as [Cc Vc]. destruct (history_head _ _ (proj1 Tp) Cc Vc) as [rest ->]. discriminate. }
    destruct G as [G NE].
    (* the pull is put_existing on A with some resolver, or "known" *)
    assert (K : exists res, fst (step mkdig s0 o d) = fst (transfer mkdig res B A) /\ step_status mkdig s0 o = snd (transfer mkdig res B A)).
    { unfold step, step_status, upd. destruct Ho as [-> | [f ->]]; cbn [op_doc dstep]; rewrite N.eqb_refl, E; cbn [fst snd].
      - exists (Some default_policy). destruct (transfer mkdig (Some default_policy) B A); auto.
      - exists (Some f). destruct (transfer mkdig (Some f) B A); auto. }
    destruct K as [res [EA ES]]. rewrite ES in St.
    assert (KN : exists c rest, hist = c :: rest /\ contains (ptree (fst (step mkdig s0 o d))) c = true).
    { rewrite EA. unfold transfer in *. rewrite Off in *. destruct hist as [|c rest]; [congruence|]. exists c, rest. split; auto.
      cbn [firstn] in *. rewrite rev_diff_one in *. destruct (contains (ptree A) c) eqn:C; [cbn [fst]; exact C|].
      rewrite US in *.
      destruct (put_existing mkdig res true A (c :: rest) del b) as [p' st] eqn:PE. cbn [fst snd] in *.
      destruct (delivered_known res true A (c :: rest) del b p' st Ta G NE PE St) as (c' & rest' & Eh & Cc). inversion Eh; subst. exact Cc. }
    destruct KN as (c & rest & -> & Cc).
    assert (I1 : sinv mkdig (step mkdig s0 o)) by (apply step_inv; exact I0).
    destruct (run_grows ops2 (step mkdig s0 o) d I1) as [G1 _]. fold s2 in G1.
    unfold deliver. apply (redelivery_known res' true _ (c :: rest) del b c rest eq_refl). apply G1. exact Cc.
  Qed.

  Theorem push_redelivery_noop : forall ops1 ops2 d msg res',
    let s0 := run mkdig sys0 ops1 in
    offer (fst (s0 d)) = Some msg ->
    unsendable (snd (fst msg)) (snd msg) = false ->
    (step_status mkdig s0 (Push d) = TApplied \/ step_status mkdig s0 (Push d) = TKnown) ->
    let s2 := run mkdig (step mkdig s0 (Push d)) ops2 in
    deliver res' msg (snd (s2 d)) = (snd (s2 d), TKnown).
  Proof.
    intros ops1 ops2 d [[hist del] b] res' s0 Off US St s2. cbn [fst snd] in US.
    pose proof (run_inv mkdig ops1 sys0 (sinv0 mkdig)) as I0. fold s0 in I0.
    pose proof (I0 d) as [Ta Tp]. destruct (s0 d) as [A B] eqn:E. cbn [fst snd] in *.
    assert (G : ghist mkdig hist None /\ hist <> []).
    { unfold offer in Off. destruct (cur A) as [c|] eqn:CA; [|discriminate]. inversion Off; subst.
      split; [apply history_ghist; exact Ta|].
      destruct (cur_contains _ _ (proj1 Ta) CA) as [Cc Vc]. destruct (history_head _ _ (proj1 Ta) Cc Vc) as [rest ->]. discriminate. }
    destruct G as [G NE].
    assert (K : snd (step mkdig s0 (Push d) d) = fst (transfer mkdig None A B) /\ step_status mkdig s0 (Push d) = snd (transfer mkdig None A B)).
    { unfold step, step_status, upd. cbn [op_doc dstep]. rewrite N.eqb_refl, E. cbn [fst snd].
      destruct (transfer mkdig None A B); auto. }
    destruct K as [EB ES]. rewrite ES in St.
    assert (KN : exists c rest, hist = c :: rest /\ contains (ptree (snd (step mkdig s0 (Push d) d))) c = true).
    { rewrite EB. unfold transfer in *. rewrite Off in *. destruct hist as [|c rest]; [congruence|]. exists c, rest. split; auto.
      cbn [firstn] in *. rewrite rev_diff_one in *. destruct (contains (ptree B) c) eqn:C; [cbn [fst]; exact C|].
      rewrite US in *.
      destruct (put_existing mkdig None true B (c :: rest) del b) as [p' st] eqn:PE. cbn [fst snd] in *.
      destruct (delivered_known None true B (c :: rest) del b p' st Tp G NE PE St) as (c' & rest' & Eh & Cc). inversion Eh; subst. exact Cc. }
    destruct KN as (c & rest & -> & Cc).
    assert (I1 : sinv mkdig (step mkdig s0 (Push d))) by (apply step_inv; exact I0).
    destruct (run_grows ops2 (step mkdig s0 (Push d)) d I1) as [_ G2]. fold s2 in G2.
    unfold deliver. apply (redelivery_known res' true _ (c :: rest) del b c rest eq_refl). apply G2. exact Cc.
  Qed.
End Redeliver.
