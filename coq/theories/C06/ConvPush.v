(* C06 proofs, part 7: a push preserves the invariant, and is accepted -- making the passive side's
   current revision the active side's -- whenever the active side's branch descends from the passive
   side's current revision. *)
From SG Require Import Base.Prelude C04.OrderProofs C04.WinnerProofs C04.WfProofs C04.FlagsProofs
  C04.PushProofs C04.DocProofs C06.Replication C06.InvProofs C06.TransferProofs C06.TreeLemmas C06.ConvDefs
  C06.ConvLocal.
Open Scope N_scope.

Section Push.
  Variable mkdig : option revid -> body -> list N.
  Hypothesis mkdig_inj : forall p b p' b',
    gen (wid p) = gen (wid p') -> mkdig p b = mkdig p' b' -> p = p' /\ b = b'.
  Notation mkid := (mkid mkdig).
  Notation linv := (linv mkdig).
  Notation ghist := (ghist mkdig).

  Lemma ghist_pre_gens : forall pre k post base, ghist (pre ++ k :: post) base -> forall x, In x pre -> gen k < gen x.
  Proof.
    induction pre as [|h pre IH]; intros k post base G x I; [destruct I|].
    cbn [app] in G. destruct I as [<- | I].
    - apply (ghist_gens mkdig _ _ _ G). apply in_or_app. right. left. reflexivity.
    - destruct G as [_ G]. eapply IH; eauto.
  Qed.

  Lemma recs_gen : forall nw base d, ghist nw base -> forall q, In q (recs nw base d) -> exists b, rid q = mkid (rpar q) b.
  Proof.
    induction nw as [|h older IH]; intros base d G q I; cbn [recs] in I; [destruct I|].
    destruct G as [[b Hb] G]. destruct I as [<- | I]; [exists b; exact Hb | eapply IH; eauto].
  Qed.

  (* the records of A's current branch are live and carry non-tombstone ids *)
  Lemma branch_nontomb : forall A B ca x, linv A B -> cur A = Some ca -> In x (history (ptree A) ca) ->
    exists q, In q (ptree A) /\ rid q = x /\ rdel q = false /\ nontomb mkdig x (rpar q).
  Proof.
    intros A B ca x L CA Ix. pose proof (proj1 (li_A _ _ _ L)) as W.
    pose proof (history_in _ _ _ Ix) as Cx. apply contains_in in Cx. apply in_map_iff in Cx.
    destruct Cx as (q & Eq & Iq). exists q. split; auto. split; auto.
    assert (D : rdel q = false).
    { destruct (rdel q) eqn:D; auto. exfalso.
      destruct (history_parent _ _ _ Ix) as [-> | Px].
      - destruct (linv_curA mkdig A B (rid q) L) as (_ & _ & Dc); [congruence|].
        unfold cur_del in Dc. rewrite CA, <- Eq in Dc. rewrite (del_of_in _ q W Iq) in Dc. congruence.
      - rewrite <- Eq in Px. rewrite (li_dl _ _ _ L q Iq D) in Px. discriminate. }
    split; auto. destruct (li_ntA _ _ _ L q Iq) as [[D' _] | [_ NT]]; [congruence|]. rewrite <- Eq. exact NT.
  Qed.

  Lemma push_result : forall A B, linv A B ->
    let B' := fst (transfer mkdig None A B) in
    linv A B' /\
    (forall ca, cur A = Some ca -> below (ptree A) (cur B) ca -> cur B' = Some ca).
  Proof.
    intros A B L. cbn zeta. unfold transfer, offer.
    destruct (cur A) as [ca|] eqn:CA; [|cbn [fst]; split; [exact L | intros; discriminate]].
    pose proof (li_A _ _ _ L) as TA. pose proof (li_B _ _ _ L) as TB.
    pose proof (proj1 TA) as WA. pose proof (proj1 TB) as WB.
    destruct (cur_contains _ _ WA CA) as [Cca Vca].
    destruct (history_head _ _ WA Cca Vca) as [rest Hh]. rewrite Hh. cbn [firstn]. rewrite rev_diff_one.
    destruct (linv_curA mkdig A B ca L CA) as (LCA & LLA & DA). rewrite DA.
    destruct (li_bpA _ _ _ L ca CA) as [bA LB].
    assert (CBd : cur_body A = Some bA) by (unfold cur_body; rewrite CA; exact LB). rewrite CBd.
    destruct (linv_curB mkdig A B L) as [CB DB].
    assert (G : ghist (ca :: rest) None) by (rewrite <- Hh; apply history_ghist; exact TA).
    destruct (contains (ptree B) ca) eqn:Cb.
    - (* already known *)
      cbn [fst]. split; [exact L|]. intros ca' E K. inversion E; subst ca'.
      destruct (ptree B) as [|r t] eqn:EB; [discriminate|].
      unfold below in K. rewrite CB in *. cbn [map hd_error] in *. f_equal.
      assert (In (rid r) (history (ptree A) ca)) by exact K.
      destruct (history_gen _ _ _ WA H) as [-> | Lt]; auto. exfalso.
      apply contains_in in Cb. apply in_map_iff in Cb. destruct Cb as (q & Eq & Iq).
      rewrite <- EB in *. rewrite EB in WB. pose proof (li_chain _ _ _ L) as CH. rewrite EB in CH.
      rewrite EB in Iq. pose proof (chainlist_gen r t WB CH q Iq). rewrite Eq in H0. lia.
    - (* offered *)
      assert (US : unsendable false bA = false).
      { unfold unsendable. cbn [negb andb]. apply N.eqb_neq.
        destruct (li_boA _ _ _ L ca bA (lookup_in _ _ _ LB)). assumption. }
      rewrite US.
      unfold put_existing. cbn [split_known]. rewrite Cb.
      destruct (split_known (ptree B) rest) as [n p] eqn:SK.
      assert (SK' : split_known (ptree B) (ca :: rest) = (ca :: n, p)) by (cbn [split_known]; rewrite Cb, SK; reflexivity).
      destruct (split_known_spec _ _ _ _ SK') as (known & Ehist & -> & NI & KN).
      cbn [andb negb].
      assert (DC : dcur (update_flags (ptree B)) = cur B) by reflexivity.
      assert (DD : ddel (update_flags (ptree B)) = false) by exact DB.
      unfold illegal_conflict. cbn [andb negb]. rewrite DC, DD.
      (* what the invariant gives when A's branch descends from B's current revision *)
      assert (Legal : below (ptree A) (cur B) ca -> opt_id_eqb (hd_error known) (cur B) || is_none (cur B) = true).
      { intros K. unfold below in K. destruct (cur B) as [cb|] eqn:CBe; [|apply orb_true_r].
        rewrite Hh in K. apply in_split in K. destruct K as (pre & post & E).
        assert (NIp : forall x, In x pre -> contains (ptree B) x = false).
        { intros x Ix. rewrite E in G. pose proof (ghist_pre_gens _ _ _ _ G x Ix) as Lt.
          apply contains_false. intros I. apply in_map_iff in I. destruct I as (q & Eq & Iq).
          destruct (ptree B) as [|r t] eqn:EB; [destruct Iq|]. cbn [map hd_error] in CB. inversion CB; subst cb.
          pose proof (li_chain _ _ _ L) as CH. rewrite EB in CH.
          pose proof (chainlist_gen r t WB CH q Iq). rewrite Eq in H. lia. }
        assert (Ccb : contains (ptree B) cb = true).
        { destruct (ptree B) as [|r t]; [discriminate|]. cbn [map hd_error] in CB. inversion CB.
          rewrite contains_cons, revid_eqb_refl. reflexivity. }
        rewrite E, (split_known_at _ pre cb post NIp Ccb) in SK'. inversion SK'. rewrite <- H1 in *.
        apply orb_true_iff. left. apply opt_id_eqb_eq. reflexivity. }
      destruct (opt_id_eqb (hd_error known) (cur B) || is_none (cur B)) eqn:LG.
      + (* accepted *)
        unfold finish_put. rewrite SK'.
        assert (GH : ghist (ca :: n) (hd_error known)) by (apply ghist_split; rewrite <- Ehist; exact G).
        rewrite (add_hist_success mkdig (ca :: n) (ptree B) (hd_error known) false TB GH NI KN).
        cbn [fst hd_error wid].
        set (t' := recs (ca :: n) (hd_error known) false ++ ptree B).
        assert (T' : tinv mkdig t').
        { destruct (add_hist_inv mkdig (ca :: n) (ptree B) (hd_error known) false t' TB GH) as [T' _]; auto.
          apply (add_hist_success mkdig); auto. }
        assert (PB : hd_error known = hd_error (map rid (ptree B))).
        { apply orb_true_iff in LG. destruct LG as [E | E].
          - apply opt_id_eqb_eq in E. rewrite E. exact CB.
          - destruct (cur B) eqn:CBe; [discriminate|]. unfold cur in CBe. rewrite (tcur_none_nil _ WB CBe) in *.
            destruct known as [|k kn]; auto. specialize (KN k eq_refl). discriminate. }
        assert (CH : chainlist t') by (apply chainlist_recs; [apply (li_chain _ _ _ L) | exact PB]).
        assert (CU : tcur t' = Some ca).
        { unfold t'. cbn [recs app]. unfold t' in CH, T'. cbn [recs app] in CH, T'.
          destruct (chainlist_cur _ _ (proj1 T') CH) as [E _]. exact E. }
        split; [|intros ca' E _; inversion E; subst; exact CU].
        constructor; cbn [ptree pbody]; try (apply L).
        * exact T'.
        * exact CH.
        * intros q Iq. apply in_app_or in Iq. destruct Iq as [Iq | Iq]; [|apply (li_ntB _ _ _ L); exact Iq].
          right. split; [eapply recs_live; eauto|].
          destruct (recs_gen _ _ _ GH q Iq) as [b' Eb'].
          destruct (recs_in _ _ _ _ Iq) as [Inw _].
          assert (Ih : In (rid q) (history (ptree A) ca)) by (rewrite Hh, Ehist; apply in_or_app; left; exact Inw).
          destruct (branch_nontomb A B ca (rid q) L CA Ih) as (qa & Iqa & Eqa & _ & (b2 & E2 & N2)).
          exists b'. split; auto. rewrite Eb' in E2. apply (mkid_inj mkdig mkdig_inj) in E2. destruct E2. congruence.
        * intros m ca' Cm Bm CA'. rewrite CA in CA'. inversion CA'; subst ca'.
          unfold below, cur in Bm. cbn [ptree] in Bm. rewrite CU in Bm.
          rewrite (leaf_history (ptree A) ca m (cur_leaf _ _ WA CA) Bm). apply history_head_in; auto.
        * intros i b0 [H | H]; [|apply (li_boB _ _ _ L); exact H].
          inversion H; subst. apply (li_boA _ _ _ L). apply lookup_in. exact LB.
        * intros c Cc. unfold cur in Cc. cbn [ptree] in Cc. rewrite CU in Cc. inversion Cc; subst c.
          exists bA. cbn [pbody lookup_body]. rewrite revid_eqb_refl. reflexivity.
      + (* rejected as a conflict: nothing changes *)
        cbn [negb fst]. split; [exact L|]. intros ca' E K. inversion E; subst ca'. specialize (Legal K). congruence.
  Qed.
End Push.
