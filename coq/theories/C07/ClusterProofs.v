(* C07 -- cluster model, world without rollback: the global invariant over all op lists (all
   interleavings of all nodes, adversarial batch sizes, crashes) and the lemmas the multi-node property
   theorems are instances of. *)
From SG Require Import Base.Prelude C07.Allocator C07.AllocatorInv C07.AllocatorProofs C07.Cluster C07.ClusterInv.
Open Scope N_scope.

Definition Nd (st : cluster) (i : N) : node := c_nodes st i.

Record XInv (st : cluster) (tr : list event) : Prop := {
  xi_wf : forall i, wfN (c_counter st) (Nd st i);
  xi_hw : c_hw st = c_counter st;
  xi_range : forall e s, In e tr -> covers e s -> 1 <= s /\ s <= c_counter st;
  xi_excl : excl tr;
  xi_claim_held : forall e s i, In e tr -> covers e s -> ~ heldN (Nd st i) s;
  xi_held_held : forall i j s, heldN (Nd st i) s -> heldN (Nd st j) s -> i = j;
  xi_cover : forall s, 1 <= s -> s <= c_counter st -> covered tr s \/ exists i, heldN (Nd st i) s;
  xi_sorted : hsorted tr;
  xi_hand_last : forall i s f, In (EHand i s f) tr -> s <= n_last (Nd st i);
  xi_floor : forall i s x, In (EHand i s (Some x)) tr -> x < maxU64 -> x < s;
  xi_singles_incl : incl (singles tr) (handed tr);
  xi_singles_nodup : NoDup (singles tr);
  xi_nonempty : Forall nonempty tr
}.

Lemma XInv_init : XInv xinit [].
Proof.
  constructor.
  - intros i. unfold wfN, Nd, xinit, nfresh, idleBatchSize. cbn [c_nodes c_counter n_last n_max n_batch n_pc n_stopped]. lia.
  - reflexivity.
  - intros e s [].
  - exact I.
  - intros e s i [].
  - intros i j s [H1 H2]. unfold Nd, xinit, nfresh in H1, H2. cbn [c_nodes n_last n_max] in H1, H2. lia.
  - intros s H1 H2. unfold xinit in H2. cbn [c_counter] in H2. lia.
  - exact I.
  - intros i s f [].
  - intros i s x [].
  - intros x Hx; exact Hx.
  - constructor.
  - constructor.
Qed.

Lemma xframe st tr i c' a' ev :
  XInv st tr ->
  xgood (c_counter st) (Nd st i) i c' a' ev ->
  XInv (mkC c' (N.max (c_hw st) c') (nupd (c_nodes st) i a')) (tr ++ ev).
Proof.
  intros I G.
  destruct G as (G1 & G2 & G3 & G3' & G4 & G4' & G5 & G6 & G7 & G8 & G9 & _ & G10 & G11 & _ & _ & _ & G14).
  rewrite Forall_forall in G3, G4', G7, G9.
  set (c := c_counter st) in *.
  assert (LK : forall j, Nd (mkC c' (N.max (c_hw st) c') (nupd (c_nodes st) i a')) j = if j =? i then a' else Nd st j) by reflexivity.
  assert (HeldOld : forall j s, heldN (Nd st j) s -> 1 <= s /\ s <= c).
  { intros j s [H1 H2]. pose proof (xi_wf _ _ I j) as (W1 & W2 & _). fold c in W2. lia. }
  assert (Cross : forall e1 e2 s, In e1 tr -> In e2 ev -> covers e1 s -> ~ covers e2 s).
  { intros e1 e2 s H1 H2 Hc1 Hc2.
    destruct (G3 e2 H2 s Hc2) as [Hh | [Hlo Hhi]].
    - exact (xi_claim_held _ _ I e1 s i H1 Hc1 Hh).
    - pose proof (xi_range _ _ I e1 s H1 Hc1). fold c in H. lia. }
  constructor; cbn [c_counter c_hw c_nodes].
  - (* wf *)
    intros j. rewrite LK. destruct (j =? i) eqn:E; [exact G2|].
    eapply wfN_mono; [exact G1|]. apply (xi_wf _ _ I).
  - (* hw *)
    rewrite (xi_hw _ _ I). fold c. lia.
  - (* range *)
    intros e s Hin Hc. apply in_app_or in Hin. destruct Hin as [Hin|Hin].
    + pose proof (xi_range _ _ I e s Hin Hc). fold c in H. lia.
    + destruct (G3 e Hin s Hc) as [Hh | Hn]; [|lia].
      pose proof (HeldOld i s Hh). lia.
  - (* excl *)
    apply excl_app; auto. apply (xi_excl _ _ I).
  - (* claim vs held *)
    intros e s j Hin Hc. rewrite LK. apply in_app_or in Hin. destruct (j =? i) eqn:E; destruct Hin as [Hin|Hin].
    + intros Hh. destruct (G3' s Hh) as [Ho | Hn].
      * exact (xi_claim_held _ _ I e s i Hin Hc Ho).
      * pose proof (xi_range _ _ I e s Hin Hc). fold c in H. lia.
    + exact (G4' e Hin s Hc).
    + exact (xi_claim_held _ _ I e s j Hin Hc).
    + intros Hh. destruct (G3 e Hin s Hc) as [Ho | Hn].
      * pose proof (xi_held_held _ _ I i j s Ho Hh). lia.
      * pose proof (HeldOld j s Hh). lia.
  - (* held vs held *)
    intros j k s. rewrite !LK. destruct (j =? i) eqn:Ej; destruct (k =? i) eqn:Ek; intros Hj Hk.
    + lia.
    + destruct (G3' s Hj) as [Ho | Hn].
      * pose proof (xi_held_held _ _ I i k s Ho Hk). lia.
      * pose proof (HeldOld k s Hk). lia.
    + destruct (G3' s Hk) as [Ho | Hn].
      * pose proof (xi_held_held _ _ I i j s Ho Hj). lia.
      * pose proof (HeldOld j s Hj). lia.
    + exact (xi_held_held _ _ I j k s Hj Hk).
  - (* coverage *)
    intros s Hs1 Hs2.
    assert (New : heldN (Nd st i) s \/ (c < s /\ s <= c') ->
                  covered (tr ++ ev) s \/ exists j, heldN (Nd (mkC c' (N.max (c_hw st) c') (nupd (c_nodes st) i a')) j) s).
    { intros Hsrc. destruct (G5 s Hsrc) as [Hc | Hh].
      - left. apply covered_iff. apply covered_iff in Hc. destruct Hc as (e & Hi & Hc). exists e. split; auto. apply in_or_app; auto.
      - right. exists i. rewrite LK, N.eqb_refl. exact Hh. }
    destruct (N.le_gt_cases s c) as [Hle | Hgt].
    + destruct (xi_cover _ _ I s Hs1 Hle) as [Hc | (j & Hh)].
      * left. apply covered_iff. apply covered_iff in Hc. destruct Hc as (e & Hi & Hc). exists e. split; auto. apply in_or_app; auto.
      * destruct (j =? i) eqn:E.
        -- assert (j = i) by lia. subst j. apply New. left; exact Hh.
        -- right. exists j. rewrite LK, E. exact Hh.
    + apply New. right. lia.
  - (* sorted *)
    apply hsorted_app; auto. apply (xi_sorted _ _ I).
    intros e1 e2 H1 H2. destruct e1 as [j s1 f1| | | | |]; cbn; auto.
    destruct e2 as [k s2 f2| | | | |]; auto. intros <-.
    pose proof (xi_hand_last _ _ I j s1 f1 H1).
    pose proof (G7 _ H2) as HH. cbn in HH. destruct HH as (-> & HH & _). lia.
  - (* hand <= last *)
    intros j s f Hin. rewrite LK. apply in_app_or in Hin. destruct Hin as [Hin|Hin].
    + pose proof (xi_hand_last _ _ I j s f Hin). destruct (j =? i) eqn:E; [|exact H].
      assert (j = i) by lia. subst j. lia.
    + pose proof (G7 _ Hin) as HH. cbn in HH. destruct HH as (-> & _ & HH). rewrite N.eqb_refl. exact HH.
  - (* floor *)
    intros j s x Hin. apply in_app_or in Hin. destruct Hin as [Hin|Hin].
    + exact (xi_floor _ _ I j s x Hin).
    + exact (G9 _ Hin).
  - (* singles incl *)
    rewrite singles_app, handed_app. apply incl_app.
    + apply incl_appl. apply (xi_singles_incl _ _ I).
    + apply incl_appr. exact G10.
  - (* singles nodup *)
    rewrite singles_app.
    assert (D : forall s, In s (singles tr) -> ~ In s (singles ev)).
    { intros s H1 H2.
      apply (xi_singles_incl _ _ I) in H1. apply G10 in H2.
      apply in_handed in H1. apply in_handed in H2.
      destruct H1 as (j1 & f1 & H1). destruct H2 as (j2 & f2 & H2).
      apply (Cross _ _ s H1 H2); reflexivity. }
    revert D. generalize (xi_singles_nodup _ _ I). generalize (singles tr) as l1.
    induction l1 as [|x r IH]; cbn [app]; intros ND D; [exact G11|].
    inversion ND as [|? ? Hx Hr]; subst. constructor.
    + intros Hin. apply in_app_or in Hin. destruct Hin as [Hin|Hin]; [tauto|]. apply (D x); auto. left; reflexivity.
    + apply IH; auto. intros s Hs. apply D. right; exact Hs.
  - apply Forall_app. split; [apply (xi_nonempty _ _ I) | exact G14].
Qed.

(* ---------- running an op list ---------- *)

Lemma xstep_eq st o :
  xstep st o = let '(c1, a1, ev) := xstep_node (c_counter st) (Nd st (xactor o)) o in
               (mkC c1 (N.max (c_hw st) c1) (nupd (c_nodes st) (xactor o) a1), ev).
Proof. reflexivity. Qed.

Lemma xstep_inv st tr o st' ev :
  XInv st tr -> is_rollback o = false -> xstep st o = (st', ev) -> XInv st' (tr ++ ev).
Proof.
  intros I NR H. rewrite xstep_eq in H.
  destruct (xstep_node (c_counter st) (Nd st (xactor o)) o) as [[c1 a1] ev1] eqn:E.
  inv H. apply xframe; auto. eapply xstep_node_good; eauto. apply (xi_wf _ _ I).
Qed.

Lemma xstep_good st tr o st' ev :
  XInv st tr -> is_rollback o = false -> xstep st o = (st', ev) ->
  xgood (c_counter st) (Nd st (xactor o)) (xactor o) (c_counter st') (Nd st' (xactor o)) ev.
Proof.
  intros I NR H. rewrite xstep_eq in H.
  destruct (xstep_node (c_counter st) (Nd st (xactor o)) o) as [[c1 a1] ev1] eqn:E.
  inv H. unfold Nd at 2. cbn [c_counter c_nodes]. unfold nupd. rewrite N.eqb_refl.
  eapply xstep_node_good; eauto. apply (xi_wf _ _ I).
Qed.

Lemma xrun_app st ops1 ops2 :
  xrun st (ops1 ++ ops2) =
  let '(st1, e1) := xrun st ops1 in let '(st2, e2) := xrun st1 ops2 in (st2, e1 ++ e2).
Proof.
  revert st. induction ops1 as [|o r IH]; intros st; cbn [xrun app].
  - destruct (xrun st ops2); reflexivity.
  - destruct (xstep st o) as [st1 e1]. rewrite IH.
    destruct (xrun st1 r) as [st2 e2]. destruct (xrun st2 ops2) as [st3 e3]. rewrite app_assoc. reflexivity.
Qed.

Lemma xrun_inv_from st0 tr0 ops st tr :
  XInv st0 tr0 -> no_rollback ops -> xrun st0 ops = (st, tr) -> XInv st (tr0 ++ tr).
Proof.
  revert st0 tr0 st tr. induction ops as [|o r IH]; intros st0 tr0 st tr I NR H; cbn [xrun] in H.
  - inv H. rewrite app_nil_r. exact I.
  - destruct (xstep st0 o) as [st1 e1] eqn:E1. destruct (xrun st1 r) as [st2 e2] eqn:E2. inv H.
    inversion NR as [|? ? NRo NRr]; subst.
    rewrite app_assoc. eapply IH; eauto. eapply xstep_inv; eauto.
Qed.

Lemma xrun_inv ops st tr : no_rollback ops -> xrun xinit ops = (st, tr) -> XInv st tr.
Proof. intros NR H. apply (xrun_inv_from xinit [] ops st tr XInv_init NR H). Qed.

(* ---------- nodes no op acted on; stopped / crashed nodes ---------- *)

Lemma xstep_other st o st' ev j : xstep st o = (st', ev) -> j <> xactor o -> c_nodes st' j = c_nodes st j.
Proof.
  rewrite xstep_eq. destruct (xstep_node _ _ _) as [[c1 a1] e1]. intros H Hj. inv H. cbn. unfold nupd.
  destruct (j =? xactor o) eqn:E; [lia|reflexivity].
Qed.

Lemma xstep_env st o st' ev j :
  match o with XEnvIncr _ | XRollback _ => True | _ => False end ->
  xstep st o = (st', ev) -> c_nodes st' j = c_nodes st j.
Proof.
  intros Ho. rewrite xstep_eq. destruct o; try destruct Ho; cbn; intros H; inv H; cbn; unfold nupd, Nd;
    (destruct (j =? 0) eqn:E; [|reflexivity]); assert (j = 0) by lia; subst; reflexivity.
Qed.

Lemma xrun_untouched ops : forall st st' tr i,
  xrun st ops = (st', tr) -> ~ In i (xactors ops) -> c_nodes st' i = c_nodes st i.
Proof.
  induction ops as [|o r IH]; intros st st' tr i H Hn; cbn [xrun] in H.
  - inv H. reflexivity.
  - destruct (xstep st o) as [st1 e1] eqn:E1. destruct (xrun st1 r) as [st2 e2] eqn:E2. inv H.
    assert (Hr : ~ In i (xactors r)).
    { intros Hi. apply Hn. unfold xactors in *. cbn [flat_map]. apply in_or_app. right; exact Hi. }
    rewrite (IH _ _ _ _ E2 Hr).
    destruct o; try (eapply xstep_other; [exact E1|]; intros ->; apply Hn; unfold xactors; cbn; auto; fail);
      (eapply xstep_env; [|exact E1]; exact I).
Qed.

(* a crashed node never hands out or releases anything again and its window stays as it was *)
Lemma crashed_step st tr o st' ev i :
  XInv st tr -> is_rollback o = false -> xstep st o = (st', ev) -> n_crashed (c_nodes st i) = true ->
  n_crashed (c_nodes st' i) = true /\ n_last (c_nodes st' i) = n_last (c_nodes st i) /\
  n_max (c_nodes st' i) = n_max (c_nodes st i) /\ (forall s f, ~ In (EHand i s f) ev).
Proof.
  intros I NR H Hc.
  pose proof (xstep_good _ _ _ _ _ I NR H) as G.
  destruct G as (_ & _ & _ & _ & _ & _ & _ & _ & G7 & _ & _ & _ & _ & _ & _ & _ & G15 & _).
  rewrite Forall_forall in G7.
  destruct (N.eq_dec i (xactor o)) as [-> | Hne].
  - unfold Nd in G15. destruct (G15 Hc) as (C1 & C2 & C3 & C4). repeat split; auto.
    intros s f Hin. unfold silent in C4. rewrite Forall_forall in C4. exact (C4 _ Hin).
  - rewrite (xstep_other _ _ _ _ _ H Hne). repeat split; auto.
    intros s f Hin. specialize (G7 _ Hin). cbn in G7. lia.
Qed.

Lemma crashed_run : forall ops' st tr st' tr' i,
  XInv st tr -> no_rollback ops' -> n_crashed (c_nodes st i) = true -> xrun st ops' = (st', tr') ->
  n_crashed (c_nodes st' i) = true /\ n_last (c_nodes st' i) = n_last (c_nodes st i) /\
  n_max (c_nodes st' i) = n_max (c_nodes st i) /\ (forall s f, ~ In (EHand i s f) tr').
Proof.
  induction ops' as [|o r IH]; intros st tr st' tr' i I NR Hc H; cbn [xrun] in H.
  - inv H. repeat split; auto.
  - destruct (xstep st o) as [st1 e1] eqn:E1. destruct (xrun st1 r) as [st2 e2] eqn:E2. inv H.
    inversion NR as [|? ? NRo NRr]; subst.
    destruct (crashed_step _ _ _ _ _ _ I NRo E1 Hc) as (C1 & C2 & C3 & C4).
    destruct (IH _ _ _ _ _ (xstep_inv _ _ _ _ _ I NRo E1) NRr C1 E2) as (D1 & D2 & D3 & D4).
    repeat split; auto; try congruence.
    intros s f Hin. apply in_app_or in Hin. destruct Hin; [eapply C4 | eapply D4]; eauto.
Qed.

(* ---------- the statements of C07_Properties.v (multi-node part) ---------- *)

Lemma multi_node_unique : forall ops st tr, no_rollback ops -> xrun xinit ops = (st, tr) ->
  (forall n m e1 e2 s, n <> m -> nth_error tr n = Some e1 -> nth_error tr m = Some e2 ->
                       covers e1 s -> covers e2 s -> False) /\
  NoDup (handed tr).
Proof.
  intros ops st tr NR H. pose proof (xrun_inv _ _ _ NR H) as I. split.
  - exact (excl_nth tr (xi_excl _ _ I)).
  - exact (excl_handed_nodup tr (xi_excl _ _ I)).
Qed.

Lemma multi_node_monotone : forall ops st tr, no_rollback ops -> xrun xinit ops = (st, tr) ->
  forall l1 l2 i s1 f1 s2 f2, tr = l1 ++ EHand i s1 f1 :: l2 -> In (EHand i s2 f2) l2 -> s1 < s2.
Proof. intros ops st tr NR H. exact (hsorted_split tr (xi_sorted _ _ (xrun_inv _ _ _ NR H))). Qed.

(* exactly one event of the trace covers s *)
Definition covered_once (tr : list event) (s : N) : Prop :=
  exists n e, nth_error tr n = Some e /\ covers e s /\
              forall m e', nth_error tr m = Some e' -> covers e' s -> m = n.

Lemma covered_once_of tr s : excl tr -> (exists e, In e tr /\ covers e s) -> covered_once tr s.
Proof.
  intros Hx (e & Hi & Hc). destruct (In_nth_error _ _ Hi) as (n & Hn).
  exists n, e. repeat split; auto. intros m e' Hm Hc'.
  destruct (Nat.eq_dec m n) as [|Hne]; auto. exfalso. exact (excl_nth tr Hx m n e' e s Hne Hm Hn Hc' Hc).
Qed.

Lemma multi_node_accounted : forall ops st tr, no_rollback ops -> xrun xinit ops = (st, tr) ->
  (* (0, counter] is partitioned into what the events dispose of and what the nodes hold *)
  (forall s, 1 <= s -> s <= c_counter st ->
     (covered_once tr s /\ forall i, ~ xheld st i s) \/
     ((forall e, In e tr -> ~ covers e s) /\ exists i, xheld st i s /\ forall j, xheld st j s -> j = i)) /\
  (forall e s, In e tr -> covers e s -> 1 <= s /\ s <= c_counter st) /\
  (forall i s, xheld st i s -> 1 <= s /\ s <= c_counter st) /\
  (* every node that acted was stopped cleanly: nothing is held, every number was handed out exactly once
     or released exactly once (or belongs to the foreign user of the counter) *)
  ((forall i, In i (xactors ops) -> n_stopped (c_nodes st i) = true) ->
   forall s, 1 <= s -> s <= c_counter st -> covered_once tr s /\ forall i, ~ xheld st i s) /\
  (* every node that acted was stopped or has crashed: a number is unaccounted only inside the last
     reservation of a crashed node *)
  ((forall i, In i (xactors ops) -> dead (c_nodes st i) = true) ->
   forall s, 1 <= s -> s <= c_counter st ->
     (covered_once tr s /\ forall i, ~ xheld st i s) \/
     ((forall e, In e tr -> ~ covers e s) /\
      exists i, n_crashed (c_nodes st i) = true /\ n_stopped (c_nodes st i) = false /\ xheld st i s /\
                forall j, xheld st j s -> j = i)).
Proof.
  intros ops st tr NR H. pose proof (xrun_inv _ _ _ NR H) as I.
  assert (P : forall s, 1 <= s -> s <= c_counter st ->
     (covered_once tr s /\ forall i, ~ xheld st i s) \/
     ((forall e, In e tr -> ~ covers e s) /\ exists i, xheld st i s /\ forall j, xheld st j s -> j = i)).
  { intros s H1 H2. destruct (xi_cover _ _ I s H1 H2) as [Hc | (i & Hh)].
    - left. apply covered_iff in Hc. split; [apply covered_once_of; auto; apply (xi_excl _ _ I)|].
      destruct Hc as (e & Hi & Hc). intros i. exact (xi_claim_held _ _ I e s i Hi Hc).
    - right. split.
      + intros e Hi Hc. exact (xi_claim_held _ _ I e s i Hi Hc Hh).
      + exists i. split; auto. intros j Hj. exact (xi_held_held _ _ I j i s Hj Hh). }
  assert (Stopped_empty : forall i, n_stopped (c_nodes st i) = true -> forall s, ~ xheld st i s).
  { intros i Hs s [Ha Hb]. pose proof (xi_wf _ _ I i) as (_ & _ & _ & _ & _ & W). unfold Nd in W. rewrite Hs in W. lia. }
  assert (Untouched_empty : forall i, ~ In i (xactors ops) -> forall s, ~ xheld st i s).
  { intros i Hn s [Ha Hb]. rewrite (xrun_untouched _ _ _ _ _ H Hn) in Ha, Hb. cbn in Ha, Hb. lia. }
  split; [exact P|]. split; [apply (xi_range _ _ I)|]. split.
  { intros i s [Ha Hb]. pose proof (xi_wf _ _ I i) as (_ & W & _). unfold Nd in W. lia. }
  split.
  - intros Hall s H1 H2. destruct (P s H1 H2) as [Hc | (_ & i & Hh & _)]; [exact Hc|]. exfalso.
    destruct (in_dec N.eq_dec i (xactors ops)) as [Hi | Hn].
    + exact (Stopped_empty i (Hall i Hi) s Hh).
    + exact (Untouched_empty i Hn s Hh).
  - intros Hall s H1 H2. destruct (P s H1 H2) as [Hc | (Hn0 & i & Hh & Hu)]; [left; exact Hc|]. right.
    split; [exact Hn0|]. exists i.
    destruct (in_dec N.eq_dec i (xactors ops)) as [Hi | Hn]; [|destruct (Untouched_empty i Hn s Hh)].
    destruct (n_stopped (c_nodes st i)) eqn:Es; [destruct (Stopped_empty i Es s Hh)|].
    specialize (Hall i Hi). unfold dead in Hall. rewrite Es in Hall. cbn in Hall.
    split; [exact Hall|]. split; [reflexivity|]. split; [exact Hh | exact Hu].
Qed.

(* the last reservation of a crashed node is lost for good: nobody ever hands out or releases its numbers *)
Lemma crashed_window_never_reused : forall ops st tr ops' st' tr' i s,
  no_rollback ops -> no_rollback ops' ->
  xrun xinit ops = (st, tr) -> n_crashed (c_nodes st i) = true -> xheld st i s ->
  xrun st ops' = (st', tr') ->
  xheld st' i s /\ forall e, In e (tr ++ tr') -> ~ covers e s.
Proof.
  intros ops st tr ops' st' tr' i s NR NR' H Hc Hh H'.
  pose proof (xrun_inv _ _ _ NR H) as I.
  pose proof (xrun_inv_from _ _ _ _ _ I NR' H') as I'.
  destruct (crashed_run _ _ _ _ _ _ I NR' Hc H') as (_ & C2 & C3 & _).
  assert (Hh' : xheld st' i s) by (unfold xheld in *; rewrite C2, C3; exact Hh).
  split; [exact Hh'|]. intros e Hi Hcov. exact (xi_claim_held _ _ I' e s i Hi Hcov Hh').
Qed.

(* nextSequenceGreaterThan: the result is above the floor, and the step that returns it releases every
   number below the result that the node still held or that the step reserved; what the node holds
   afterwards is above the result *)
Lemma greater_than_result : forall ops st tr o st' ev i s x,
  no_rollback ops -> xrun xinit ops = (st, tr) -> is_rollback o = false ->
  xstep st o = (st', ev) -> In (EHand i s (Some x)) ev ->
  i = xactor o /\ (x < maxU64 -> x < s) /\
  (forall n, n < s -> xheld st i n \/ (c_counter st < n /\ n <= c_counter st') ->
             exists lo hi, In (ERange lo hi) ev /\ lo <= n /\ n <= hi) /\
  (forall n, xheld st' i n -> s < n).
Proof.
  intros ops st tr o st' ev i s x NR H NRo E Hin.
  pose proof (xrun_inv _ _ _ NR H) as I.
  pose proof (xstep_good _ _ _ _ _ I NRo E) as G.
  destruct G as (_ & _ & _ & _ & _ & _ & _ & _ & G7 & _ & G9 & G9' & _).
  rewrite Forall_forall in G7, G9, G9'.
  pose proof (G7 _ Hin) as K. cbn in K. destruct K as (-> & K1 & K2).
  split; [reflexivity|]. split; [exact (G9 _ Hin)|]. split.
  - intros n Hn Hsrc. apply rcov_iff. exact (G9' _ Hin n Hn Hsrc).
  - intros n [Ha Hb]. unfold Nd in K2. lia.
Qed.

(* the rollback branches of the code are dead while the counter document only grows *)
Lemma no_false_rollback_detection : forall ops st tr i, no_rollback ops -> xrun xinit ops = (st, tr) ->
  c_hw st = c_counter st /\ n_last (c_nodes st i) <= n_max (c_nodes st i) /\ n_max (c_nodes st i) <= c_counter st /\
  1 <= n_batch (c_nodes st i) /\ n_batch (c_nodes st i) <= maxBatchSize /\
  match n_pc (c_nodes st i) with
  | PIdle => True
  | PGt x r => n_last (c_nodes st i) <= r /\ r <= c_counter st
  | _ => False
  end.
Proof.
  intros ops st tr i NR H. pose proof (xrun_inv _ _ _ NR H) as I.
  pose proof (xi_wf _ _ I i) as (W1 & W2 & W3 & W4 & W5 & W6). unfold Nd, maxBatchSize in *.
  split; [apply (xi_hw _ _ I)|]. repeat split; auto.
  destruct (n_pc (c_nodes st i)); auto. lia.
Qed.
