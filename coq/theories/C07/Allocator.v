(* C07 -- executable model of db/sequence_allocator.go (sync_gateway).

   One shared counter (the _sync:seq document, only ever incremented) and any number of allocators
   (nodes), each with the window [last, max] of the batch it reserved, its current batch size and the
   "a reserve happened before" bit that stands for lastSequenceReserveTime being non-zero.

   Concurrency.  Every method of sequenceAllocator runs under the allocator's mutex, so a call is an
   atomic step with respect to the SAME allocator.  With respect to OTHER allocators the only
   multi-step call is nextSequenceGreaterThan when the target lies above the current batch: it reads
   the counter (getSequence) and later increments it (_incrementSequence); other nodes may move the
   counter in between.  That call is therefore split in two steps, GTBegin (up to and including the
   read; the value read is kept in [pendR]) and GTEnd (the rest); while an allocator is between the two
   its mutex is held, so every other op on it is not executable ([ESkip]).  Every other call touches
   the counter with at most one Incr and is one step.  The theorems quantify over ALL op lists, hence
   over all interleavings of these steps across allocators.
   Writes of unused-sequence documents (releaseSequence / releaseSequenceRange) go to keys nothing in
   the allocator reads, so they commute with everything; they are recorded as events of the step that
   issues them.

   Time.  [fast] on an op says whether time.Since(lastSequenceReserveTime) < MaxSequenceIncrFrequency
   would hold for a non-zero lastSequenceReserveTime; the first reserve of an allocator is never fast
   (zero time).  The background release timer is the op ReleaseIdle.

   Arithmetic is on N; the code's uint64 arithmetic agrees as long as the counter stays below
   2^64 - 10^7 - 10 (each call raises it by at most MaxSequencesToRelease + maxBatchSize).  The one
   place where the code wraps for a legal argument, existingSequence + 1 with existingSequence =
   2^64-1, is modelled ([target_of]).  Not modelled: _fixSyncSeqRollback (the model counter never goes
   back) and failures of the storage calls. *)
From SG Require Import Base.Prelude.
Open Scope N_scope.

Definition maxBatchSize : N := 10.
Definition idleBatchSize : N := 1.
Definition sequenceBatchMultiplier : N := 2.
Definition MaxSequencesToRelease : N := 10000000.
Definition maxU64 : N := 18446744073709551615.

Record alloc := mkA {
  last : N;                (* last sequence handed out by this allocator *)
  max : N;                 (* (last, max] is reserved and not yet handed out *)
  batch : N;               (* sequenceBatchSize *)
  reservedOnce : bool;     (* lastSequenceReserveTime is non-zero *)
  pend : option N;         (* Some x: inside nextSequenceGreaterThan(x) between getSequence and the Incr *)
  pendR : N;               (* the value getSequence returned *)
  stopped : bool           (* Stop was called *)
}.

Definition fresh : alloc := mkA 0 0 idleBatchSize false None 0 false.

Record state := mkS { counter : N; allocs : N -> alloc }.

Definition init : state := mkS 0 (fun _ => fresh).

Definition upd (f : N -> alloc) (i : N) (a : alloc) : N -> alloc :=
  fun j => if j =? i then a else f j.

Inductive op :=
| Next (i : N) (fast : bool)                 (* nextSequence *)
| NextDiscard (i : N) (fast : bool)          (* nextSequence, then releaseSequence of the number obtained
                                                (failed principal CAS attempt; assignSequence's too-low number) *)
| GTBegin (i x : N) (fast : bool)            (* nextSequenceGreaterThan(x) up to the read of the counter *)
| GTEnd (i : N) (fast : bool)                (* ... the rest of it *)
| ReleaseIdle (i : N)                        (* releaseUnusedSequences (what the idle timer calls) *)
| Stop (i : N)                               (* Stop *)
| EnvIncr (k : N).                           (* some other user of the counter reserves k numbers *)

Inductive event :=
| EHand (i s : N) (floor : option N)         (* allocator i returned s; floor = Some x for nextSequenceGreaterThan(x) *)
| ERange (lo hi : N)                         (* document _sync:unusedSeqs:lo:hi written *)
| EOne (s : N)                               (* document _sync:unusedSeq:s written *)
| EForeign (lo hi : N)                       (* (lo..hi) reserved by the environment *)
| EErr (i : N)                               (* the call returned an error *)
| ESkip (i : N).                             (* op not executable: allocator stopped, mutex held, or nothing pending *)

(* releaseSequenceRange *)
Definition release_range (lo hi : N) : list event :=
  if (hi =? 0) || (hi <? lo) then [] else [ERange lo hi].

(* _reserveSequenceBatch (c = counter) *)
Definition reserve_batch (c : N) (a : alloc) (fast : bool) : N * alloc :=
  let b := if fast && reservedOnce a then N.min (batch a * sequenceBatchMultiplier) maxBatchSize else batch a in
  let m := c + b in
  (m, mkA (m - b) m b true (pend a) (pendR a) (stopped a)).

(* _nextSequence *)
Definition next_seq (c : N) (a : alloc) (fast : bool) : N * alloc * N :=
  let '(c1, a1) := if max a <=? last a then reserve_batch c a fast else (c, a) in
  let s := last a1 + 1 in
  (c1, mkA s (max a1) (batch a1) (reservedOnce a1) (pend a1) (pendR a1) (stopped a1), s).

(* releaseUnusedSequences *)
Definition release_unused (a : alloc) : alloc * list event :=
  if last a =? max a then (a, [])
  else
    let ev := if last a <? max a then release_range (last a + 1) (max a) else [] in
    let unused := max a - last a in
    let b := if (max a <? last a) || (batch a <=? unused) then idleBatchSize else batch a - unused in
    (mkA (max a) (max a) b (reservedOnce a) (pend a) (pendR a) (stopped a), ev).

Definition target_of (x : N) : N := if x =? maxU64 then 0 else x + 1.

(* nextSequenceGreaterThan, first part *)
Definition gt_begin (c i : N) (a : alloc) (x : N) (fast : bool) : N * alloc * list event :=
  let target := target_of x in
  if target <=? last a then
    let '(c1, a1, s) := next_seq c a fast in (c1, a1, [EHand i s (Some x)])
  else if target <=? max a then
    let from := last a + 1 in
    (c, mkA target (max a) (batch a) (reservedOnce a) (pend a) (pendR a) (stopped a),
     (if from <? target then release_range from (target - 1) else []) ++ [EHand i target (Some x)])
  else
    (* _releaseCurrentBatch, then getSequence *)
    let '(l1, ev) := if last a <? max a then (max a, release_range (last a + 1) (max a)) else (last a, []) in
    (c, mkA l1 (max a) (batch a) (reservedOnce a) (Some x) c (stopped a), ev).

(* nextSequenceGreaterThan, second part (after getSequence returned r = pendR) *)
Definition gt_end (c i : N) (a : alloc) (fast : bool) : N * alloc * list event :=
  match pend a with
  | None => (c, a, [ESkip i])
  | Some x =>
    let a0 := mkA (last a) (max a) (batch a) (reservedOnce a) None (pendR a) (stopped a) in
    let target := target_of x in
    let r := pendR a in
    if target <=? r then
      let '(c1, a1, s) := next_seq c a0 fast in (c1, a1, [EHand i s (Some x)])
    else
      let numberToRelease := x - r in
      let numberToAllocate := batch a in
      if MaxSequencesToRelease <? numberToRelease then (c, a0, [EErr i])
      else
        let allocatedToSeq := c + (numberToRelease + numberToAllocate) in
        let l1 := allocatedToSeq - numberToAllocate + 1 in
        let releaseTo := allocatedToSeq - numberToAllocate in
        let releaseFrom := releaseTo - numberToRelease + 1 in
        (allocatedToSeq,
         mkA l1 allocatedToSeq (batch a) true None (pendR a) (stopped a),
         (if 0 <? numberToRelease then release_range releaseFrom releaseTo else []) ++ [EHand i l1 (Some x)])
  end.

Definition is_pending (a : alloc) : bool := match pend a with Some _ => true | None => false end.
Definition busy (a : alloc) : bool := stopped a || is_pending a.

Definition set_stopped (a : alloc) : alloc :=
  mkA (last a) (max a) (batch a) (reservedOnce a) (pend a) (pendR a) true.

(* the allocator an op acts on, the new counter, its new state, the events *)
Definition step_alloc (c : N) (a : alloc) (o : op) : N * alloc * list event :=
  match o with
  | Next i fast =>
      if busy a then (c, a, [ESkip i]) else
      let '(c1, a1, s) := next_seq c a fast in (c1, a1, [EHand i s None])
  | NextDiscard i fast =>
      if busy a then (c, a, [ESkip i]) else
      let '(c1, a1, s) := next_seq c a fast in (c1, a1, [EHand i s None; EOne s])
  | GTBegin i x fast =>
      if busy a then (c, a, [ESkip i]) else gt_begin c i a x fast
  | GTEnd i fast =>
      if stopped a then (c, a, [ESkip i]) else gt_end c i a fast
  | ReleaseIdle i =>
      if busy a then (c, a, [ESkip i]) else
      let '(a1, ev) := release_unused a in (c, a1, ev)
  | Stop i =>
      if busy a then (c, a, [ESkip i]) else
      let '(a1, ev) := release_unused a in (c, set_stopped a1, ev)
  | EnvIncr k =>
      (c + k, a, if k =? 0 then [] else [EForeign (c + 1) (c + k)])
  end.

Definition actor (o : op) : N :=
  match o with
  | Next i _ | NextDiscard i _ | GTBegin i _ _ | GTEnd i _ | ReleaseIdle i | Stop i => i
  | EnvIncr _ => 0
  end.

Definition step (st : state) (o : op) : state * list event :=
  let i := actor o in
  let '(c1, a1, ev) := step_alloc (counter st) (allocs st i) o in
  (mkS c1 (upd (allocs st) i a1), ev).

(* chronological trace of an op list *)
Fixpoint run (st : state) (ops : list op) : state * list event :=
  match ops with
  | [] => (st, [])
  | o :: r =>
      let '(st1, e1) := step st o in
      let '(st2, e2) := run st1 r in
      (st2, e1 ++ e2)
  end.

(* what an event claims: the numbers it disposes of *)
Definition covers (e : event) (s : N) : Prop :=
  match e with
  | EHand _ s' _ => s = s'
  | ERange lo hi => lo <= s /\ s <= hi
  | EForeign lo hi => lo <= s /\ s <= hi
  | _ => False
  end.

(* s is reserved by allocator i and not yet handed out *)
Definition held (st : state) (i s : N) : Prop :=
  last (allocs st i) < s /\ s <= max (allocs st i).

(* projections used in the property statements *)
Definition handed (tr : list event) : list N :=
  flat_map (fun e => match e with EHand _ s _ => [s] | _ => [] end) tr.
Definition singles (tr : list event) : list N :=
  flat_map (fun e => match e with EOne s => [s] | _ => [] end) tr.
Definition actors (ops : list op) : list N :=
  flat_map (fun o => match o with EnvIncr _ => [] | _ => [actor o] end) ops.

(* UpdatePrincipal on allocator i: each element of [fails] is one attempt whose Save lost the CAS race
   (number obtained, then released); [final] says whether a last attempt's Save went through. *)
Definition principal_update (i : N) (fails : list bool) (final : option bool) : list op :=
  map (NextDiscard i) fails ++ match final with Some f => [Next i f] | None => [] end.

(* assignSequence for a document whose current sequence is x: nextSequence; if the number is not above
   x it is released and nextSequenceGreaterThan(x) is called (here without interleaving) *)
Definition assign_above_retry (i x : N) (f1 f2 f3 : bool) : list op :=
  [NextDiscard i f1; GTBegin i x f2; GTEnd i f3].
