(* C07 -- cluster model, world without rollback: every op except XRollback meets the local step condition
   [xgood] of ClusterDefs.v. *)
From SG Require Import Base.Prelude C07.Allocator C07.AllocatorInv C07.Cluster.
From SG Require Export C07.ClusterDefs.
Open Scope N_scope.

Lemma xstep_node_good c a o c' a' ev :
  wfN c a -> is_rollback o = false -> xstep_node c a o = (c', a', ev) -> xgood c a (xactor o) c' a' ev.
Proof.
  intros W NR H.
  destruct a as [l m b ro p stp cr].
  unfold wfN in W; xproj_red W.
  destruct W as (W1 & W2 & W3 & W4 & W5 & W6).
  unfold maxBatchSize, idleBatchSize, sequenceBatchMultiplier, MaxSequencesToRelease, syncSeqCorrectionValue in *.
  destruct o; try discriminate NR; cbn [xstep_node xactor] in H;
    unfold xgt, xturn, gt_finish, xnext, xrelease_unused, release_range,
           maxBatchSize, idleBatchSize, sequenceBatchMultiplier, MaxSequencesToRelease, syncSeqCorrectionValue in H;
    xproj_red H;
    destruct stp; destruct cr; destruct p as [|px pr|pk pc|pk|px pr]; try (exfalso; exact W5); xproj_red H;
    repeat (break_ifs; xproj_red H);
    inv H; unfold target_of, maxU64 in *; break_ifs;
    try solve [xfinish_good].
Qed.
