(* C07 -- the cluster model is a conservative extension of the model of Allocator.v: on the op lists of
   Allocator.v (embedded by [embed]) it produces exactly the same trace, counter and windows.  So the
   correspondence evidence gathered for Allocator.v is evidence for Cluster.v on those op lists, and the
   theorems of the two models speak about the same behaviour. *)
From SG Require Import Base.Prelude C07.Allocator C07.AllocatorInv C07.AllocatorProofs C07.Cluster C07.ClusterInv.
Open Scope N_scope.

Definition rel (a : alloc) (n : node) : Prop :=
  n_last n = last a /\ n_max n = max a /\ n_batch n = batch a /\ n_once n = reservedOnce a /\
  n_stopped n = stopped a /\ n_crashed n = false /\
  n_pc n = match pend a with Some x => PGt x (pendR a) | None => PIdle end.

Lemma step_sim c a n o c' a' ev :
  wfA c a -> rel a n -> step_alloc c a o = (c', a', ev) ->
  exists n', xstep_node c n (embed o) = (c', n', ev) /\ rel a' n'.
Proof.
  intros W R H.
  destruct a as [l m b ro p pr stp]. destruct n as [nl nm nb nro npc nstp ncr].
  unfold rel in R. cbn [n_last n_max n_batch n_once n_pc n_stopped n_crashed last max batch reservedOnce pend pendR stopped] in R.
  destruct R as (-> & -> & -> & -> & -> & -> & ->).
  unfold wfA in W; proj_red W.
  destruct W as (W1 & W2 & W3 & W4 & W5 & W6).
  unfold maxBatchSize, idleBatchSize, sequenceBatchMultiplier, MaxSequencesToRelease, syncSeqCorrectionValue in *.
  destruct o; cbn [step_alloc embed xstep_node actor] in *;
    unfold gt_begin, gt_end, next_seq, reserve_batch, release_unused,
           xgt, xturn, gt_finish, xnext, xrelease_unused, release_range,
           maxBatchSize, idleBatchSize, sequenceBatchMultiplier, MaxSequencesToRelease, syncSeqCorrectionValue in *;
    proj_red H;
    destruct stp; destruct p as [px|]; proj_red H; xproj_red H;
    cbv beta iota zeta delta [n_last n_max n_batch n_once n_pc n_stopped n_crashed set_pc set_nstopped
                               pc_idle dead xbusy orb andb negb hand_events];
    repeat (break_ifs; proj_red H);
    inv H; try lia;
    (eexists; split; [reflexivity|]);
    unfold rel; cbn [n_last n_max n_batch n_once n_pc n_stopped n_crashed last max batch reservedOnce pend pendR stopped
                     set_stopped];
    repeat split; try reflexivity; try lia.
Qed.

Definition Rel (st : state) (xst : cluster) : Prop :=
  c_counter xst = counter st /\ forall i, rel (allocs st i) (c_nodes xst i).

Lemma Rel_init : Rel init xinit.
Proof. split; [reflexivity|]. intros i. unfold rel. cbn. repeat split; reflexivity. Qed.

Lemma run_sim : forall ops st tr0 xst st' tr,
  Inv st tr0 -> Rel st xst -> run st ops = (st', tr) ->
  exists xst', xrun xst (map embed ops) = (xst', tr) /\ Rel st' xst'.
Proof.
  induction ops as [|o r IH]; intros st tr0 xst st' tr I [Rc Rn] H; cbn [run map xrun] in *.
  - inv H. exists xst. split; [reflexivity | split; auto].
  - destruct (step st o) as [st1 e1] eqn:E1. destruct (run st1 r) as [st2 e2] eqn:E2. inv H.
    pose proof (step_inv _ _ _ _ _ I E1) as I1.
    rewrite step_eq in E1.
    destruct (step_alloc (counter st) (A st (actor o)) o) as [[c1 a1] ev1] eqn:E. inv E1.
    assert (Act : xactor (embed o) = actor o) by (destruct o; reflexivity).
    destruct (step_sim _ _ _ _ _ _ _ (inv_wf _ _ I (actor o)) (Rn (actor o)) E) as (n' & X & Rn').
    assert (R1 : Rel (mkS c1 (upd (allocs st) (actor o) a1))
                     (mkC c1 (N.max (c_hw xst) c1) (nupd (c_nodes xst) (actor o) n'))).
    { split; [reflexivity|]. intros i. cbn [allocs c_nodes]. unfold upd, nupd.
      destruct (i =? actor o); [exact Rn' | apply Rn]. }
    destruct (IH _ _ _ _ _ I1 R1 E2) as (xst' & X2 & R2).
    exists xst'. split; [|exact R2].
    unfold xstep. rewrite Act, Rc. rewrite X. rewrite X2. reflexivity.
Qed.

(* every run of the model of Allocator.v is a run of the cluster model, with the same trace *)
Lemma cluster_extends_allocator : forall ops st tr, run init ops = (st, tr) ->
  exists xst, xrun xinit (map embed ops) = (xst, tr) /\ c_counter xst = counter st /\
    forall i, n_last (c_nodes xst i) = last (allocs st i) /\ n_max (c_nodes xst i) = max (allocs st i) /\
              n_batch (c_nodes xst i) = batch (allocs st i) /\ n_stopped (c_nodes xst i) = stopped (allocs st i).
Proof.
  intros ops st tr H.
  destruct (run_sim ops init [] xinit st tr Inv_init Rel_init H) as (xst & X & Rc & Rn).
  exists xst. split; [exact X|]. split; [exact Rc|].
  intros i. destruct (Rn i) as (R1 & R2 & R3 & _ & R5 & _). auto.
Qed.
