(* C07 -- cluster model WITH rollback of the counter document: what survives.

   1. Uniqueness, conditionally ([rollback_unique_if_restored]).  [c_hw] is the highest value the counter
      ever had; every number ever handed out, released or held is at most c_hw.  A step is SAFE when it
      starts with the counter at its high-water mark, or when it only disposes of numbers its node
      already held (hands out of the window, releases, the read of nextSequenceGreaterThan, the steps of
      _fixSyncSeqRollback that throw their batch away).  If every step of a run is safe -- i.e. whenever
      the counter was set back, it is restored above the highest reserved number before anybody takes
      fresh numbers from it -- no number is disposed of twice, whatever else happens (rollbacks in the
      middle of calls, crashes, adversarial batch sizes).
      A node that is idle with its window above the rolled-back counter always takes the safe path: it
      detects the rollback ([idle_above_counter_safe]).
   2. Per-node monotonicity and "nextSequenceGreaterThan(x) returns more than x" hold under QUIET
      rollbacks (the counter goes back only while no live node is in the middle of a call), for any
      number of rollbacks ([rollback_monotone], [rollback_floor]).

   What does not survive is in C07_Refuted.v. *)
From SG Require Import Base.Prelude C07.Allocator C07.AllocatorInv C07.AllocatorProofs C07.Cluster C07.ClusterInv C07.ClusterProofs.
From SG Require Export C07.ClusterRollbackU C07.ClusterRollbackM.
Open Scope N_scope.

(* ================= 1. uniqueness ================= *)

(* the step disposes only of numbers its node already held *)
Definition no_fresh_claim (a a' : node) (ev : list event) : Prop :=
  Forall (fun e => forall s, covers e s -> heldN a s /\ ~ heldN a' s) ev /\ (forall s, heldN a' s -> heldN a s).

Definition step_safe (st : cluster) (o : xop) : Prop :=
  c_counter st = c_hw st \/
  no_fresh_claim (Nd st (xactor o)) (Nd (fst (xstep st o)) (xactor o)) (snd (xstep st o)).

Fixpoint run_safe (st : cluster) (ops : list xop) : Prop :=
  match ops with
  | [] => True
  | o :: r => step_safe st o /\ run_safe (fst (xstep st o)) r
  end.

Record UInv (st : cluster) (tr : list event) : Prop := {
  ui_hw : c_counter st <= c_hw st;
  ui_wf : forall i, wfU (c_hw st) (Nd st i);
  ui_range : forall e s, In e tr -> covers e s -> 1 <= s /\ s <= c_hw st;
  ui_excl : excl tr;
  ui_claim_held : forall e s i, In e tr -> covers e s -> ~ heldN (Nd st i) s;
  ui_held_held : forall i j s, heldN (Nd st i) s -> heldN (Nd st j) s -> i = j;
  ui_singles_incl : incl (singles tr) (handed tr);
  ui_singles_nodup : NoDup (singles tr);
  ui_nonempty : Forall nonempty tr
}.

Lemma UInv_init : UInv xinit [].
Proof.
  constructor.
  - cbn. lia.
  - intros i. unfold wfU, Nd, xinit, nfresh, idleBatchSize. cbn. lia.
  - intros e s [].
  - exact I.
  - intros e s i [].
  - intros i j s [H1 H2]. unfold Nd, xinit, nfresh in H1, H2. cbn in H1, H2. lia.
  - intros x Hx; exact Hx.
  - constructor.
  - constructor.
Qed.

Lemma uframe st tr i c' a' ev :
  UInv st tr ->
  goodU (c_counter st) (c_hw st) (Nd st i) c' a' ev ->
  (c_counter st = c_hw st \/ no_fresh_claim (Nd st i) a' ev) ->
  UInv (mkC c' (N.max (c_hw st) c') (nupd (c_nodes st) i a')) (tr ++ ev).
Proof.
  intros I G Safe.
  destruct G as (G2 & G3 & G3' & G4 & G4' & G10 & G11 & G14).
  set (c := c_counter st) in *. set (hw := c_hw st) in *. set (hw' := N.max hw c').
  assert (Hhw : c <= hw) by apply (ui_hw _ _ I).
  (* claims and new holdings: from the own window or above the old high-water mark *)
  assert (K3 : forall e, In e ev -> forall s, covers e s -> heldN (Nd st i) s \/ (hw < s /\ s <= hw')).
  { rewrite Forall_forall in G3. intros e Hi s Hc. destruct Safe as [Heq | [S1 _]].
    - destruct (G3 e Hi s Hc) as [Hh | Hn]; [left; exact Hh | right; unfold hw'; lia].
    - rewrite Forall_forall in S1. left. exact (proj1 (S1 e Hi s Hc)). }
  assert (K3' : forall s, heldN a' s -> heldN (Nd st i) s \/ (hw < s /\ s <= hw')).
  { intros s Hh. destruct Safe as [Heq | [_ S2]].
    - destruct (G3' s Hh) as [Ho | Hn]; [left; exact Ho | right; unfold hw'; lia].
    - left. exact (S2 s Hh). }
  assert (K4 : forall e, In e ev -> forall s, covers e s -> ~ heldN a' s).
  { rewrite Forall_forall in G4'. intros e Hi s Hc Hh. destruct Safe as [Heq | [S1 _]].
    - destruct (G4' e Hi s Hc Hh) as ([Ha Hb] & Hd & _).
      pose proof (ui_wf _ _ I i) as (_ & W2 & _). fold hw in W2. lia.
    - rewrite Forall_forall in S1. exact (proj2 (S1 e Hi s Hc) Hh). }
  assert (LK : forall j, Nd (mkC c' hw' (nupd (c_nodes st) i a')) j = if j =? i then a' else Nd st j) by reflexivity.
  assert (HeldOld : forall j s, heldN (Nd st j) s -> 1 <= s /\ s <= hw).
  { intros j s [H1 H2]. pose proof (ui_wf _ _ I j) as (W1 & W2 & _). fold hw in W2. lia. }
  assert (Cross : forall e1 e2 s, In e1 tr -> In e2 ev -> covers e1 s -> ~ covers e2 s).
  { intros e1 e2 s H1 H2 Hc1 Hc2.
    destruct (K3 e2 H2 s Hc2) as [Hh | [Hlo Hhi]].
    - exact (ui_claim_held _ _ I e1 s i H1 Hc1 Hh).
    - pose proof (ui_range _ _ I e1 s H1 Hc1). fold hw in H. lia. }
  constructor; cbn [c_counter c_hw c_nodes]; fold hw'.
  - unfold hw'. lia.
  - intros j. rewrite LK. destruct (j =? i) eqn:E; [exact G2|].
    eapply wfU_mono; [|apply (ui_wf _ _ I)]. fold hw. unfold hw'. lia.
  - intros e s Hin Hc. apply in_app_or in Hin. destruct Hin as [Hin|Hin].
    + pose proof (ui_range _ _ I e s Hin Hc). fold hw in H. unfold hw'. lia.
    + destruct (K3 e Hin s Hc) as [Hh | Hn]; [|lia].
      pose proof (HeldOld i s Hh). unfold hw'. lia.
  - apply excl_app; auto. apply (ui_excl _ _ I).
  - intros e s j Hin Hc. rewrite LK. apply in_app_or in Hin. destruct (j =? i) eqn:E; destruct Hin as [Hin|Hin].
    + intros Hh. destruct (K3' s Hh) as [Ho | Hn].
      * exact (ui_claim_held _ _ I e s i Hin Hc Ho).
      * pose proof (ui_range _ _ I e s Hin Hc). fold hw in H. lia.
    + exact (K4 e Hin s Hc).
    + exact (ui_claim_held _ _ I e s j Hin Hc).
    + intros Hh. destruct (K3 e Hin s Hc) as [Ho | Hn].
      * pose proof (ui_held_held _ _ I i j s Ho Hh). lia.
      * pose proof (HeldOld j s Hh). lia.
  - intros j k s. rewrite !LK. destruct (j =? i) eqn:Ej; destruct (k =? i) eqn:Ek; intros Hj Hk.
    + lia.
    + destruct (K3' s Hj) as [Ho | Hn].
      * pose proof (ui_held_held _ _ I i k s Ho Hk). lia.
      * pose proof (HeldOld k s Hk). lia.
    + destruct (K3' s Hk) as [Ho | Hn].
      * pose proof (ui_held_held _ _ I i j s Ho Hj). lia.
      * pose proof (HeldOld j s Hj). lia.
    + exact (ui_held_held _ _ I j k s Hj Hk).
  - rewrite singles_app, handed_app. apply incl_app.
    + apply incl_appl. apply (ui_singles_incl _ _ I).
    + apply incl_appr. exact G10.
  - rewrite singles_app.
    assert (D : forall s, In s (singles tr) -> ~ In s (singles ev)).
    { intros s H1 H2.
      apply (ui_singles_incl _ _ I) in H1. apply G10 in H2.
      apply in_handed in H1. apply in_handed in H2.
      destruct H1 as (j1 & f1 & H1). destruct H2 as (j2 & f2 & H2).
      apply (Cross _ _ s H1 H2); reflexivity. }
    revert D. generalize (ui_singles_nodup _ _ I). generalize (singles tr) as l1.
    induction l1 as [|x r IH]; cbn [app]; intros ND D; [exact G11|].
    inversion ND as [|? ? Hx Hr]; subst. constructor.
    + intros Hin. apply in_app_or in Hin. destruct Hin as [Hin|Hin]; [tauto|]. apply (D x); auto. left; reflexivity.
    + apply IH; auto. intros s Hs. apply D. right; exact Hs.
  - apply Forall_app. split; [apply (ui_nonempty _ _ I) | exact G14].
Qed.

Lemma ustep_inv st tr o : UInv st tr -> step_safe st o -> UInv (fst (xstep st o)) (tr ++ snd (xstep st o)).
Proof.
  intros I S. unfold step_safe in S. rewrite xstep_eq in *.
  destruct (xstep_node (c_counter st) (Nd st (xactor o)) o) as [[c1 a1] ev1] eqn:E.
  cbn [fst snd] in *. apply uframe; auto.
  - eapply xstep_node_goodU; eauto. apply (ui_wf _ _ I).
  - destruct S as [S | S]; [left; exact S | right].
    unfold Nd at 2 in S. cbn [c_nodes] in S. unfold nupd in S. rewrite N.eqb_refl in S. exact S.
Qed.

Lemma urun_inv : forall ops st0 tr0 st tr,
  UInv st0 tr0 -> run_safe st0 ops -> xrun st0 ops = (st, tr) -> UInv st (tr0 ++ tr).
Proof.
  induction ops as [|o r IH]; intros st0 tr0 st tr I S H; cbn [xrun run_safe] in *.
  - inv H. rewrite app_nil_r. exact I.
  - destruct S as [S1 S2]. pose proof (ustep_inv _ _ _ I S1) as I1.
    destruct (xstep st0 o) as [st1 e1] eqn:E1. cbn [fst snd] in *.
    destruct (xrun st1 r) as [st2 e2] eqn:E2. inv H.
    rewrite app_assoc. eapply IH; eauto.
Qed.

Lemma rollback_unique_if_restored : forall ops st tr,
  run_safe xinit ops -> xrun xinit ops = (st, tr) ->
  (forall n m e1 e2 s, n <> m -> nth_error tr n = Some e1 -> nth_error tr m = Some e2 ->
                       covers e1 s -> covers e2 s -> False) /\
  NoDup (handed tr) /\
  (forall e s i, In e tr -> covers e s -> ~ xheld st i s) /\
  (forall i j s, xheld st i s -> xheld st j s -> i = j).
Proof.
  intros ops st tr S H. pose proof (urun_inv _ _ _ _ _ UInv_init S H) as I. cbn [app] in I.
  split; [exact (excl_nth tr (ui_excl _ _ I))|].
  split; [exact (excl_handed_nodup tr (ui_excl _ _ I))|].
  split; [exact (ui_claim_held _ _ I) | exact (ui_held_held _ _ I)].
Qed.

(* runs without rollback are safe: the counter is always at its high-water mark *)
Lemma no_rollback_run_safe : forall ops st0 tr0, XInv st0 tr0 -> no_rollback ops -> run_safe st0 ops.
Proof.
  induction ops as [|o r IH]; intros st0 tr0 I NR; cbn [run_safe]; [trivial|].
  inversion NR as [|? ? NRo NRr]; subst. split.
  - left. symmetry. apply (xi_hw _ _ I).
  - destruct (xstep st0 o) as [st1 e1] eqn:E. cbn [fst]. eapply IH; eauto. eapply xstep_inv; eauto.
Qed.

(* an idle live node whose window reaches above the (rolled back) counter takes no fresh number, whatever
   it is asked to do: either it serves from its window or it notices the rollback *)
Lemma idle_above_counter_safe c a o c' a' ev :
  n_pc a = PIdle -> n_last a <= n_max a -> c < n_max a ->
  match o with XEnvIncr _ | XRollback _ => False | _ => True end ->
  xstep_node c a o = (c', a', ev) -> no_fresh_claim a a' ev.
Proof.
  intros Hp W1 Hc Ho H.
  destruct a as [l m b ro p stp cr]. cbn [n_pc n_last n_max] in *. subst p.
  unfold maxBatchSize, idleBatchSize, sequenceBatchMultiplier, MaxSequencesToRelease, syncSeqCorrectionValue in *.
  destruct o; try destruct Ho; cbn [xstep_node xactor] in H;
    unfold xgt, xturn, gt_finish, xnext, xrelease_unused, release_range,
           maxBatchSize, idleBatchSize, sequenceBatchMultiplier, MaxSequencesToRelease, syncSeqCorrectionValue in H;
    xproj_red H;
    destruct stp; destruct cr; xproj_red H;
    repeat (break_ifs; xproj_red H);
    inv H; unfold target_of, maxU64 in *; break_ifs;
    unfold no_fresh_claim; uproj_goal; (split; [forall_list; uproj_goal; intros; try lia; intuition lia | intros; lia]).
Qed.

(* ================= 2. per-node monotonicity and the floor under quiet rollbacks ================= *)

(* the counter goes back only while every live node is idle *)
Fixpoint run_quiet (st : cluster) (ops : list xop) : Prop :=
  match ops with
  | [] => True
  | o :: r =>
      (is_rollback o = true -> forall i, live (c_nodes st i) = true -> n_pc (c_nodes st i) = PIdle) /\
      run_quiet (fst (xstep st o)) r
  end.

Record MInv (st : cluster) (tr : list event) : Prop := {
  mi_j : forall i, JN (c_counter st) (Nd st i);
  mi_sorted : hsorted tr;
  mi_hand_last : forall i s f, In (EHand i s f) tr -> s <= n_last (Nd st i);
  mi_floor : forall i s x, In (EHand i s (Some x)) tr -> x < maxU64 -> x < s
}.

Lemma MInv_init : MInv xinit [].
Proof.
  constructor.
  - intros i. right. unfold Jlive, Nd, xinit, nfresh, idleBatchSize. cbn. lia.
  - exact I.
  - intros i s f [].
  - intros i s x [].
Qed.

Lemma JN_rollback c c' a : (live a = true -> n_pc a = PIdle) -> JN c a -> JN c' a.
Proof.
  intros Hq [H | (H1 & H2 & H3 & H4)]; [left; exact H|].
  destruct (dead a) eqn:Ed; [left; exact Ed|]. right.
  unfold live in Hq. rewrite Ed in Hq. specialize (Hq eq_refl).
  unfold Jlive. rewrite Hq. repeat split; auto.
Qed.

Lemma mstep_inv st tr o st' ev :
  MInv st tr ->
  (is_rollback o = true -> forall i, live (c_nodes st i) = true -> n_pc (c_nodes st i) = PIdle) ->
  xstep st o = (st', ev) -> MInv st' (tr ++ ev).
Proof.
  intros I Q H.
  destruct (is_rollback o) eqn:ER.
  - (* the counter goes back: nothing else changes *)
    destruct o; try discriminate ER. rewrite xstep_eq in H. cbn [xstep_node xactor] in H. inv H.
    rewrite app_nil_r.
    assert (LK : forall j, Nd (mkC (N.min c (c_counter st)) (N.max (c_hw st) (N.min c (c_counter st)))
                                   (nupd (c_nodes st) 0 (Nd st 0))) j = Nd st j).
    { intros j. unfold Nd. cbn [c_nodes]. unfold nupd. destruct (j =? 0) eqn:E; [|reflexivity].
      assert (j = 0) by lia. subst; reflexivity. }
    constructor.
    + intros i. rewrite LK. cbn [c_counter]. eapply JN_rollback; [|apply (mi_j _ _ I)]. apply (Q eq_refl).
    + apply (mi_sorted _ _ I).
    + intros i s f Hin. rewrite LK. apply (mi_hand_last _ _ I _ _ _ Hin).
    + apply (mi_floor _ _ I).
  - rewrite xstep_eq in H.
    destruct (xstep_node (c_counter st) (Nd st (xactor o)) o) as [[c1 a1] ev1] eqn:E. inv H.
    pose proof (xstep_node_goodM _ _ _ _ _ _ (mi_j _ _ I (xactor o)) ER E) as (G1 & G2 & G6 & G7 & G8 & G9).
    rewrite Forall_forall in G7, G9.
    set (i := xactor o) in *.
    assert (LK : forall j, Nd (mkC c1 (N.max (c_hw st) c1) (nupd (c_nodes st) i a1)) j = if j =? i then a1 else Nd st j) by reflexivity.
    constructor; cbn [c_counter].
    + intros j. rewrite LK. destruct (j =? i); [exact G2|]. eapply JN_mono; [exact G1 | apply (mi_j _ _ I)].
    + apply hsorted_app; auto. apply (mi_sorted _ _ I).
      intros e1 e2 H1 H2. destruct e1 as [j s1 f1| | | | |]; cbn; auto.
      destruct e2 as [k s2 f2| | | | |]; auto. intros <-.
      pose proof (mi_hand_last _ _ I j s1 f1 H1).
      pose proof (G7 _ H2) as HH. cbn in HH. destruct HH as (-> & HH & _). lia.
    + intros j s f Hin. rewrite LK. apply in_app_or in Hin. destruct Hin as [Hin|Hin].
      * pose proof (mi_hand_last _ _ I j s f Hin). destruct (j =? i) eqn:E'; [|exact H].
        assert (j = i) by lia. subst j. lia.
      * pose proof (G7 _ Hin) as HH. cbn in HH. destruct HH as (-> & _ & HH). rewrite N.eqb_refl. exact HH.
    + intros j s x Hin. apply in_app_or in Hin. destruct Hin as [Hin|Hin].
      * exact (mi_floor _ _ I j s x Hin).
      * exact (G9 _ Hin).
Qed.

Lemma mrun_inv : forall ops st0 tr0 st tr,
  MInv st0 tr0 -> run_quiet st0 ops -> xrun st0 ops = (st, tr) -> MInv st (tr0 ++ tr).
Proof.
  induction ops as [|o r IH]; intros st0 tr0 st tr I Q H; cbn [xrun run_quiet] in *.
  - inv H. rewrite app_nil_r. exact I.
  - destruct Q as [Q1 Q2].
    destruct (xstep st0 o) as [st1 e1] eqn:E1. cbn [fst] in *.
    destruct (xrun st1 r) as [st2 e2] eqn:E2. inv H.
    rewrite app_assoc. eapply IH; eauto. eapply mstep_inv; eauto.
Qed.

Lemma rollback_monotone : forall ops st tr, run_quiet xinit ops -> xrun xinit ops = (st, tr) ->
  forall l1 l2 i s1 f1 s2 f2, tr = l1 ++ EHand i s1 f1 :: l2 -> In (EHand i s2 f2) l2 -> s1 < s2.
Proof.
  intros ops st tr Q H. pose proof (mrun_inv _ _ _ _ _ MInv_init Q H) as I. cbn [app] in I.
  exact (hsorted_split tr (mi_sorted _ _ I)).
Qed.

Lemma rollback_floor : forall ops st tr, run_quiet xinit ops -> xrun xinit ops = (st, tr) ->
  forall i s x, In (EHand i s (Some x)) tr -> x < maxU64 -> x < s.
Proof.
  intros ops st tr Q H. pose proof (mrun_inv _ _ _ _ _ MInv_init Q H) as I. cbn [app] in I.
  exact (mi_floor _ _ I).
Qed.
