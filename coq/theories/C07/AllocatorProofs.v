(* C07 -- global invariant over all op lists (all interleavings of all allocators) and the lemmas the
   property theorems are instances of. *)
From SG Require Import Base.Prelude C07.Allocator C07.AllocatorInv.
Open Scope N_scope.

Definition A (st : state) (i : N) : alloc := allocs st i.

Record Inv (st : state) (tr : list event) : Prop := {
  inv_wf : forall i, wfA (counter st) (A st i);
  inv_range : forall e s, In e tr -> covers e s -> 1 <= s /\ s <= counter st;
  inv_excl : excl tr;
  inv_claim_held : forall e s i, In e tr -> covers e s -> ~ heldA (A st i) s;
  inv_held_held : forall i j s, heldA (A st i) s -> heldA (A st j) s -> i = j;
  inv_cover : forall s, 1 <= s -> s <= counter st -> covered tr s \/ exists i, heldA (A st i) s;
  inv_sorted : hsorted tr;
  inv_hand_last : forall i s f, In (EHand i s f) tr -> s <= last (A st i);
  inv_floor : forall i s x, In (EHand i s (Some x)) tr -> x < maxU64 -> x < s;
  inv_singles_incl : incl (singles tr) (handed tr);
  inv_singles_nodup : NoDup (singles tr);
  inv_nonempty : Forall nonempty tr
}.

Lemma Inv_init : Inv init [].
Proof.
  constructor.
  - intros i. unfold wfA, A, init, fresh, idleBatchSize. cbn [allocs counter last max batch pend pendR stopped]. lia.
  - intros e s [].
  - exact I.
  - intros e s i [].
  - intros i j s [H1 H2]. unfold A, init, fresh in H1, H2. cbn [allocs last max] in H1, H2. lia.
  - intros s H1 H2. unfold init in H2. cbn [counter] in H2. lia.
  - exact I.
  - intros i s f [].
  - intros i s x [].
  - intros x Hx; exact Hx.
  - constructor.
  - constructor.
Qed.

Lemma excl_in_cross l1 l2 e1 e2 s :
  excl (l1 ++ l2) -> In e1 l1 -> In e2 l2 -> covers e1 s -> ~ covers e2 s.
Proof.
  induction l1 as [|e r IH]; cbn [excl app In]; intros Hx H1 H2 Hc; [tauto|].
  destruct Hx as [Ha Hr]. destruct H1 as [->|H1].
  - rewrite Forall_forall in Ha. apply (Ha e2); auto. apply in_or_app; right; exact H2.
  - apply IH; auto.
Qed.

Lemma frame st tr i c' a' ev :
  Inv st tr ->
  good (counter st) (A st i) i c' a' ev ->
  Inv (mkS c' (upd (allocs st) i a')) (tr ++ ev).
Proof.
  intros I G.
  destruct G as (G1 & G2 & G3 & G3' & G4 & G4' & G5 & G6 & G7 & G8 & G9 & G10 & G11 & _ & _ & G14).
  rewrite Forall_forall in G3, G4', G7, G9.
  set (c := counter st) in *.
  assert (LK : forall j, A (mkS c' (upd (allocs st) i a')) j = if j =? i then a' else A st j) by reflexivity.
  assert (HeldOld : forall j s, heldA (A st j) s -> 1 <= s /\ s <= c).
  { intros j s [H1 H2]. pose proof (inv_wf _ _ I j) as (W1 & W2 & _). fold c in W2. lia. }
  assert (Cross : forall e1 e2 s, In e1 tr -> In e2 ev -> covers e1 s -> ~ covers e2 s).
  { intros e1 e2 s H1 H2 Hc1 Hc2.
    destruct (G3 e2 H2 s Hc2) as [Hh | [Hlo Hhi]].
    - exact (inv_claim_held _ _ I e1 s i H1 Hc1 Hh).
    - pose proof (inv_range _ _ I e1 s H1 Hc1). fold c in H. lia. }
  constructor; cbn [counter allocs].
  - (* wf *)
    intros j. rewrite LK. destruct (j =? i) eqn:E; [exact G2|].
    eapply wfA_mono; [exact G1|]. apply (inv_wf _ _ I).
  - (* range *)
    intros e s Hin Hc. apply in_app_or in Hin. destruct Hin as [Hin|Hin].
    + pose proof (inv_range _ _ I e s Hin Hc). fold c in H. lia.
    + destruct (G3 e Hin s Hc) as [Hh | Hn]; [|lia].
      pose proof (HeldOld i s Hh). lia.
  - (* excl *)
    apply excl_app; auto. apply (inv_excl _ _ I).
  - (* claim vs held *)
    intros e s j Hin Hc. rewrite LK. apply in_app_or in Hin. destruct (j =? i) eqn:E; destruct Hin as [Hin|Hin].
    + intros Hh. destruct (G3' s Hh) as [Ho | Hn].
      * exact (inv_claim_held _ _ I e s i Hin Hc Ho).
      * pose proof (inv_range _ _ I e s Hin Hc). fold c in H. lia.
    + exact (G4' e Hin s Hc).
    + exact (inv_claim_held _ _ I e s j Hin Hc).
    + intros Hh. destruct (G3 e Hin s Hc) as [Ho | Hn].
      * pose proof (inv_held_held _ _ I i j s Ho Hh). lia.
      * pose proof (HeldOld j s Hh). lia.
  - (* held vs held *)
    intros j k s. rewrite !LK. destruct (j =? i) eqn:Ej; destruct (k =? i) eqn:Ek; intros Hj Hk.
    + lia.
    + destruct (G3' s Hj) as [Ho | Hn].
      * pose proof (inv_held_held _ _ I i k s Ho Hk). lia.
      * pose proof (HeldOld k s Hk). lia.
    + destruct (G3' s Hk) as [Ho | Hn].
      * pose proof (inv_held_held _ _ I i j s Ho Hj). lia.
      * pose proof (HeldOld j s Hj). lia.
    + exact (inv_held_held _ _ I j k s Hj Hk).
  - (* coverage *)
    intros s Hs1 Hs2.
    assert (New : heldA (A st i) s \/ (c < s /\ s <= c') -> covered (tr ++ ev) s \/ exists j, heldA (A (mkS c' (upd (allocs st) i a')) j) s).
    { intros Hsrc. destruct (G5 s Hsrc) as [Hc | Hh].
      - left. apply covered_iff. apply covered_iff in Hc. destruct Hc as (e & Hi & Hc). exists e. split; auto. apply in_or_app; auto.
      - right. exists i. rewrite LK, N.eqb_refl. exact Hh. }
    destruct (N.le_gt_cases s c) as [Hle | Hgt].
    + destruct (inv_cover _ _ I s Hs1 Hle) as [Hc | (j & Hh)].
      * left. apply covered_iff. apply covered_iff in Hc. destruct Hc as (e & Hi & Hc). exists e. split; auto. apply in_or_app; auto.
      * destruct (j =? i) eqn:E.
        -- assert (j = i) by lia. subst j. apply New. left; exact Hh.
        -- right. exists j. rewrite LK, E. exact Hh.
    + apply New. right. lia.
  - (* sorted *)
    apply hsorted_app; auto. apply (inv_sorted _ _ I).
    intros e1 e2 H1 H2. destruct e1 as [j s1 f1| | | | |]; cbn; auto.
    destruct e2 as [k s2 f2| | | | |]; auto. intros <-.
    pose proof (inv_hand_last _ _ I j s1 f1 H1).
    pose proof (G7 _ H2) as HH. cbn in HH. destruct HH as (-> & HH & _). lia.
  - (* hand <= last *)
    intros j s f Hin. rewrite LK. apply in_app_or in Hin. destruct Hin as [Hin|Hin].
    + pose proof (inv_hand_last _ _ I j s f Hin). destruct (j =? i) eqn:E; [|exact H].
      assert (j = i) by lia. subst j. lia.
    + pose proof (G7 _ Hin) as HH. cbn in HH. destruct HH as (-> & _ & HH). rewrite N.eqb_refl. exact HH.
  - (* floor *)
    intros j s x Hin. apply in_app_or in Hin. destruct Hin as [Hin|Hin].
    + exact (inv_floor _ _ I j s x Hin).
    + exact (G9 _ Hin).
  - (* singles incl *)
    rewrite singles_app, handed_app. apply incl_app.
    + apply incl_appl. apply (inv_singles_incl _ _ I).
    + apply incl_appr. exact G10.
  - (* singles nodup *)
    rewrite singles_app.
    assert (D : forall s, In s (singles tr) -> ~ In s (singles ev)).
    { intros s H1 H2.
      apply (inv_singles_incl _ _ I) in H1. apply G10 in H2.
      apply in_handed in H1. apply in_handed in H2.
      destruct H1 as (j1 & f1 & H1). destruct H2 as (j2 & f2 & H2).
      apply (Cross _ _ s H1 H2); reflexivity. }
    revert D. generalize (inv_singles_nodup _ _ I). generalize (singles tr) as l1.
    induction l1 as [|x r IH]; cbn [app]; intros ND D; [exact G11|].
    inversion ND as [|? ? Hx Hr]; subst. constructor.
    + intros Hin. apply in_app_or in Hin. destruct Hin as [Hin|Hin]; [tauto|]. apply (D x); auto. left; reflexivity.
    + apply IH; auto. intros s Hs. apply D. right; exact Hs.
  - apply Forall_app. split; [apply (inv_nonempty _ _ I) | exact G14].
Qed.

(* ---------- running an op list ---------- *)

Lemma step_eq st o :
  step st o = let '(c1, a1, ev) := step_alloc (counter st) (A st (actor o)) o in
              (mkS c1 (upd (allocs st) (actor o) a1), ev).
Proof. reflexivity. Qed.

Lemma step_inv st tr o st' ev : Inv st tr -> step st o = (st', ev) -> Inv st' (tr ++ ev).
Proof.
  intros I H. rewrite step_eq in H.
  destruct (step_alloc (counter st) (A st (actor o)) o) as [[c1 a1] ev1] eqn:E.
  inv H. apply frame; auto. eapply step_alloc_good; eauto. apply (inv_wf _ _ I).
Qed.

Lemma run_app st ops1 ops2 :
  run st (ops1 ++ ops2) =
  let '(st1, e1) := run st ops1 in let '(st2, e2) := run st1 ops2 in (st2, e1 ++ e2).
Proof.
  revert st. induction ops1 as [|o r IH]; intros st; cbn [run app].
  - destruct (run st ops2); reflexivity.
  - destruct (step st o) as [st1 e1]. rewrite IH.
    destruct (run st1 r) as [st2 e2]. destruct (run st2 ops2) as [st3 e3]. rewrite app_assoc. reflexivity.
Qed.

Lemma run_inv_from st0 tr0 ops st tr :
  Inv st0 tr0 -> run st0 ops = (st, tr) -> Inv st (tr0 ++ tr).
Proof.
  revert st0 tr0 st tr. induction ops as [|o r IH]; intros st0 tr0 st tr I H; cbn [run] in H.
  - inv H. rewrite app_nil_r. exact I.
  - destruct (step st0 o) as [st1 e1] eqn:E1. destruct (run st1 r) as [st2 e2] eqn:E2. inv H.
    rewrite app_assoc. eapply IH; eauto. eapply step_inv; eauto.
Qed.

Lemma run_inv ops st tr : run init ops = (st, tr) -> Inv st tr.
Proof. intros H. apply (run_inv_from init [] ops st tr Inv_init H). Qed.

(* ---------- consequences in the form used by the property statements ---------- *)

Lemma excl_nth tr : excl tr ->
  forall n m e1 e2 s, n <> m -> nth_error tr n = Some e1 -> nth_error tr m = Some e2 ->
  covers e1 s -> covers e2 s -> False.
Proof.
  induction tr as [|e r IH]; intros Hx n m e1 e2 s Hnm H1 H2 Hc1 Hc2.
  - destruct n; discriminate.
  - destruct Hx as [Ha Hr]. rewrite Forall_forall in Ha.
    destruct n as [|n]; destruct m as [|m]; cbn [nth_error] in *; try lia.
    + inv H1. apply nth_error_In in H2. exact (Ha e2 H2 s Hc1 Hc2).
    + inv H2. apply nth_error_In in H1. exact (Ha e1 H1 s Hc2 Hc1).
    + eapply (IH Hr n m); eauto.
Qed.

Lemma excl_handed_nodup tr : excl tr -> NoDup (handed tr).
Proof.
  induction tr as [|e r IH]; cbn [excl]; intros Hx; [constructor|].
  destruct Hx as [Ha Hr]. specialize (IH Hr). rewrite Forall_forall in Ha.
  destruct e; try exact IH.
  change (NoDup (s :: handed r)). constructor; auto.
  intros Hin. apply in_handed in Hin. destruct Hin as (j & f & Hin).
  apply (Ha _ Hin s); reflexivity.
Qed.

Lemma hsorted_split tr : hsorted tr ->
  forall l1 l2 i s1 f1 s2 f2, tr = l1 ++ EHand i s1 f1 :: l2 -> In (EHand i s2 f2) l2 -> s1 < s2.
Proof.
  intros Hs l1. revert tr Hs. induction l1 as [|e r IH]; intros tr Hs l2 i s1 f1 s2 f2 -> Hin; cbn [app hsorted] in Hs.
  - destruct Hs as [Ha _]. rewrite Forall_forall in Ha. specialize (Ha _ Hin). cbn in Ha. auto.
  - destruct Hs as [_ Hr]. eapply IH; eauto.
Qed.

(* allocators no op acted on are untouched; stopped allocators stay stopped *)
Lemma step_other st o st' ev j : step st o = (st', ev) -> j <> actor o -> allocs st' j = allocs st j.
Proof.
  rewrite step_eq. destruct (step_alloc _ _ _) as [[c1 a1] e1]. intros H Hj. inv H. cbn. unfold upd.
  destruct (j =? actor o) eqn:E; [lia|reflexivity].
Qed.

Lemma step_env st k st' ev j : step st (EnvIncr k) = (st', ev) -> allocs st' j = allocs st j.
Proof.
  rewrite step_eq. cbn. intros H. inv H. cbn. unfold upd, A. destruct (j =? 0) eqn:E; [|reflexivity].
  assert (j = 0) by lia. subst; reflexivity.
Qed.

Lemma run_untouched ops : forall st st' tr i,
  run st ops = (st', tr) -> ~ In i (actors ops) -> allocs st' i = allocs st i.
Proof.
  induction ops as [|o r IH]; intros st st' tr i H Hn; cbn [run] in H.
  - inv H. reflexivity.
  - destruct (step st o) as [st1 e1] eqn:E1. destruct (run st1 r) as [st2 e2] eqn:E2. inv H.
    assert (Hr : ~ In i (actors r)).
    { intros Hi. apply Hn. unfold actors in *. cbn [flat_map]. apply in_or_app. right; exact Hi. }
    rewrite (IH _ _ _ _ E2 Hr).
    destruct o; try (eapply step_other; [exact E1|]; intros ->; apply Hn; unfold actors; cbn; auto; fail).
    eapply step_env; eauto.
Qed.

Lemma all_stopped_nothing_held ops st tr :
  run init ops = (st, tr) ->
  (forall i, In i (actors ops) -> stopped (allocs st i) = true) ->
  forall i s, ~ held st i s.
Proof.
  intros H Hall i s [H1 H2].
  destruct (in_dec N.eq_dec i (actors ops)) as [Hi | Hn].
  - pose proof (inv_wf _ _ (run_inv _ _ _ H) i) as (_ & _ & _ & _ & _ & W).
    unfold A in W. rewrite (Hall i Hi) in W. lia.
  - rewrite (run_untouched _ _ _ _ _ H Hn) in H1, H2. cbn in H1, H2. lia.
Qed.

(* a stopped allocator hands out nothing and holds nothing, ever after *)
Lemma stopped_step st tr o st' ev i :
  Inv st tr -> step st o = (st', ev) -> stopped (allocs st i) = true ->
  stopped (allocs st' i) = true /\ (forall s f, ~ In (EHand i s f) ev).
Proof.
  intros I H Hs. rewrite step_eq in H.
  destruct (step_alloc (counter st) (A st (actor o)) o) as [[c1 a1] ev1] eqn:E. inv H.
  pose proof (step_alloc_good _ _ _ _ _ _ (inv_wf _ _ I (actor o)) E) as G.
  destruct G as (_ & _ & _ & _ & _ & _ & _ & _ & G7 & _ & _ & _ & _ & G12 & G13 & _).
  rewrite Forall_forall in G7.
  cbn [allocs]. unfold upd. destruct (i =? actor o) eqn:Ei.
  - assert (i = actor o) by lia. subst i. unfold A in *. split; [auto|].
    intros s f Hin. destruct (G13 Hs) as [-> | Hh].
    + destruct Hin as [Hin|[]]; discriminate.
    + assert (In s (handed ev)) by (apply in_handed; eauto). rewrite Hh in H. exact H.
  - split; [exact Hs|]. intros s f Hin. specialize (G7 _ Hin). cbn in G7. lia.
Qed.

(* a pending nextSequenceGreaterThan and every floor-tagged number come from a GTBegin of the op list *)
Lemma floor_from_op : forall ops st0 st tr,
  run st0 ops = (st, tr) ->
  (forall i x, pend (allocs st i) = Some x -> pend (allocs st0 i) = Some x \/ exists f, In (GTBegin i x f) ops) /\
  (forall i s x, In (EHand i s (Some x)) tr -> pend (allocs st0 i) = Some x \/ exists f, In (GTBegin i x f) ops).
Proof.
  induction ops as [|o r IH]; intros st0 st tr H; cbn [run] in H.
  - inv H. split; [auto | intros ? ? ? []].
  - destruct (step st0 o) as [st1 e1] eqn:E1. destruct (run st1 r) as [st2 e2] eqn:E2. inv H.
    destruct (IH _ _ _ E2) as [P1 P2].
    assert (S1 : forall i x, pend (allocs st1 i) = Some x ->
                 pend (allocs st0 i) = Some x \/ exists f, o = GTBegin i x f).
    { intros i x Hp. rewrite step_eq in E1.
      destruct (i =? actor o) eqn:Ei.
      2:{ left. destruct (step_alloc _ _ _) as [[c1 a1] ev1]. inv E1. cbn in Hp. unfold upd in Hp. rewrite Ei in Hp. exact Hp. }
      assert (i = actor o) by lia. subst i.
      destruct (step_alloc (counter st0) (A st0 (actor o)) o) as [[c1 a1] ev1] eqn:E. inv E1.
      cbn in Hp. unfold upd in Hp. rewrite N.eqb_refl in Hp. unfold A in E.
      destruct (allocs st0 (actor o)) as [l m b ro p pr stp].
      destruct o; cbn [step_alloc actor] in E;
        unfold gt_begin, gt_end, next_seq, reserve_batch, release_unused, release_range in E; proj_red E;
        destruct stp; destruct p as [px|]; proj_red E; repeat (break_ifs; proj_red E); inv E;
        cbn in Hp; try discriminate; try (left; exact Hp); try (inv Hp; right; eexists; reflexivity). }
    assert (S2 : forall i s x, In (EHand i s (Some x)) e1 ->
                 pend (allocs st0 i) = Some x \/ exists f, o = GTBegin i x f).
    { intros i s x Hin. rewrite step_eq in E1.
      destruct (step_alloc (counter st0) (A st0 (actor o)) o) as [[c1 a1] ev1] eqn:E. inv E1.
      unfold A in E.
      destruct (allocs st0 (actor o)) as [l m b ro p pr stp] eqn:EA.
      destruct o; cbn [step_alloc actor] in E;
        unfold gt_begin, gt_end, next_seq, reserve_batch, release_unused, release_range in E; proj_red E;
        destruct stp; destruct p as [px|]; proj_red E; repeat (break_ifs; proj_red E); inv E;
        cbn [In app] in Hin;
        repeat match goal with
               | H : _ \/ _ |- _ => destruct H
               | H : In _ (_ ++ _) |- _ => apply in_app_or in H
               | H : In _ [] |- _ => destruct H
               | H : In _ (_ :: _) |- _ => destruct H
               | H : False |- _ => destruct H
               end;
        try discriminate;
        match goal with
        | H : EHand _ _ _ = EHand _ _ _ |- _ => inv H
        end;
        try (right; eexists; reflexivity);
        try (left; cbn [actor] in EA; rewrite EA; reflexivity). }
    split.
    + intros i x Hp. destruct (P1 i x Hp) as [Hq | (f & Hf)].
      * destruct (S1 i x Hq) as [Hq0 | (f & ->)]; [left; auto | right; exists f; left; reflexivity].
      * right. exists f. right; exact Hf.
    + intros i s x Hin. apply in_app_or in Hin. destruct Hin as [Hin | Hin].
      * destruct (S2 i s x Hin) as [Hq0 | (f & ->)]; [left; auto | right; exists f; left; reflexivity].
      * destruct (P2 i s x Hin) as [Hq | (f & Hf)].
        -- destruct (S1 i x Hq) as [Hq0 | (f & ->)]; [left; auto | right; exists f; left; reflexivity].
        -- right. exists f. right; exact Hf.
Qed.

Lemma stopped_run : forall ops' st tr st' tr' i,
  Inv st tr -> stopped (allocs st i) = true -> run st ops' = (st', tr') ->
  stopped (allocs st' i) = true /\ (forall s f, ~ In (EHand i s f) tr').
Proof.
  induction ops' as [|o r IH]; intros st tr st' tr' i I Hs H; cbn [run] in H.
  - inv H. split; [exact Hs | intros ? ? []].
  - destruct (step st o) as [st1 e1] eqn:E1. destruct (run st1 r) as [st2 e2] eqn:E2. inv H.
    destruct (stopped_step _ _ _ _ _ _ I E1 Hs) as [Hs1 Hn1].
    destruct (IH _ _ _ _ _ (step_inv _ _ _ _ _ I E1) Hs1 E2) as [Hs2 Hn2].
    split; [exact Hs2|]. intros s f Hin. apply in_app_or in Hin. destruct Hin; [eapply Hn1 | eapply Hn2]; eauto.
Qed.

(* UpdatePrincipal: every failed attempt's number is published, the last attempt's number is carried *)
Lemma next_discard_step st i f :
  busy (allocs st i) = false ->
  exists s st', step st (NextDiscard i f) = (st', [EHand i s None; EOne s]) /\
                busy (allocs st' i) = false /\ last (allocs st' i) = s.
Proof.
  intros Hb. rewrite step_eq. cbn [actor step_alloc]. unfold A. rewrite Hb.
  destruct (next_seq (counter st) (allocs st i) f) as [[c1 a1] s] eqn:E.
  exists s, (mkS c1 (upd (allocs st) i a1)). split; [reflexivity|].
  cbn [allocs]. unfold upd. rewrite N.eqb_refl.
  unfold next_seq in E. destruct (max (allocs st i) <=? last (allocs st i)).
  - unfold reserve_batch in E. inv E. cbn. split; [exact Hb | reflexivity].
  - inv E. cbn. split; [exact Hb | reflexivity].
Qed.

Lemma next_step st i f :
  busy (allocs st i) = false ->
  exists s st', step st (Next i f) = (st', [EHand i s None]) /\
                busy (allocs st' i) = false /\ last (allocs st' i) = s.
Proof.
  intros Hb. rewrite step_eq. cbn [actor step_alloc]. unfold A. rewrite Hb.
  destruct (next_seq (counter st) (allocs st i) f) as [[c1 a1] s] eqn:E.
  exists s, (mkS c1 (upd (allocs st) i a1)). split; [reflexivity|].
  cbn [allocs]. unfold upd. rewrite N.eqb_refl.
  unfold next_seq in E. destruct (max (allocs st i) <=? last (allocs st i)).
  - unfold reserve_batch in E. inv E. cbn. split; [exact Hb | reflexivity].
  - inv E. cbn. split; [exact Hb | reflexivity].
Qed.

Lemma principal_update_events : forall fails st i final st' ev,
  busy (allocs st i) = false ->
  run st (principal_update i fails final) = (st', ev) ->
  length (singles ev) = length fails /\
  handed ev = singles ev ++ match final with Some _ => [last (allocs st' i)] | None => [] end.
Proof.
  unfold principal_update.
  induction fails as [|f r IH]; intros st i final st' ev Hb H; cbn [map app] in H.
  - destruct final as [f|]; cbn [run] in H.
    + destruct (next_step st i f Hb) as (s & st1 & E & Hb1 & Hl). rewrite E in H. inv H. cbn. auto.
    + inv H. auto.
  - cbn [run] in H. destruct (next_discard_step st i f Hb) as (s & st1 & E & Hb1 & Hl). rewrite E in H.
    destruct (run st1 _) as [st2 e2] eqn:E2. clear Hl. inv H.
    destruct (IH _ _ _ _ _ Hb1 E2) as [L Hh].
    cbn [app]. change (singles (EHand i s None :: EOne s :: e2)) with (s :: singles e2).
    change (handed (EHand i s None :: EOne s :: e2)) with (s :: handed e2).
    cbn [length app]. rewrite L, Hh. auto.
Qed.

(* ---------- the statements of C07_Properties.v ---------- *)

Lemma In_nth_error {X} (l : list X) x : In x l -> exists n, nth_error l n = Some x.
Proof. apply In_nth_error. Qed.

Lemma released_disjoint : forall ops st tr, run init ops = (st, tr) ->
  forall n m lo1 hi1 lo2 hi2, n <> m ->
  nth_error tr n = Some (ERange lo1 hi1) -> nth_error tr m = Some (ERange lo2 hi2) ->
  1 <= lo1 /\ lo1 <= hi1 /\ 1 <= lo2 /\ lo2 <= hi2 /\ (hi1 < lo2 \/ hi2 < lo1).
Proof.
  intros ops st tr H n m lo1 hi1 lo2 hi2 Hnm H1 H2.
  pose proof (run_inv _ _ _ H) as I.
  pose proof (inv_nonempty _ _ I) as NE. rewrite Forall_forall in NE.
  pose proof (NE _ (nth_error_In _ _ H1)) as N1. pose proof (NE _ (nth_error_In _ _ H2)) as N2. cbn in N1, N2.
  assert (R1 : 1 <= lo1) by (apply (inv_range _ _ I (ERange lo1 hi1) lo1 (nth_error_In _ _ H1)); cbn; lia).
  assert (R2 : 1 <= lo2) by (apply (inv_range _ _ I (ERange lo2 hi2) lo2 (nth_error_In _ _ H2)); cbn; lia).
  repeat split; auto.
  destruct (N.lt_ge_cases hi1 lo2) as [|Ha]; [left; auto|].
  destruct (N.lt_ge_cases hi2 lo1) as [|Hb]; [right; auto|].
  exfalso. apply (excl_nth tr (inv_excl _ _ I) n m _ _ (N.max lo1 lo2) Hnm H1 H2); cbn; lia.
Qed.

Lemma never_handed_and_released : forall ops st tr, run init ops = (st, tr) ->
  forall i s fl lo hi, In (EHand i s fl) tr -> In (ERange lo hi) tr -> s < lo \/ hi < s.
Proof.
  intros ops st tr H i s fl lo hi H1 H2.
  pose proof (run_inv _ _ _ H) as I.
  destruct (In_nth_error _ _ H1) as (n & Hn). destruct (In_nth_error _ _ H2) as (m & Hm).
  assert (n <> m) by (intros ->; rewrite Hn in Hm; discriminate).
  destruct (N.lt_ge_cases s lo) as [|Ha]; [left; auto|].
  destruct (N.lt_ge_cases hi s) as [|Hb]; [right; auto|].
  exfalso. apply (excl_nth tr (inv_excl _ _ I) n m _ _ s H0 Hn Hm); cbn; lia.
Qed.

Lemma alloc_accounted : forall ops st tr, run init ops = (st, tr) ->
  (forall s, 1 <= s -> s <= counter st -> (exists e, In e tr /\ covers e s) \/ (exists i, held st i s)) /\
  (forall e s, In e tr -> covers e s -> 1 <= s /\ s <= counter st /\ forall i, ~ held st i s) /\
  (forall i s, held st i s -> 1 <= s /\ s <= counter st /\ forall j, held st j s -> i = j).
Proof.
  intros ops st tr H. pose proof (run_inv _ _ _ H) as I. repeat split.
  - intros s H1 H2. destruct (inv_cover _ _ I s H1 H2) as [Hc | Hh]; [left; apply covered_iff; exact Hc | right; exact Hh].
  - apply (inv_range _ _ I e s H0 H1).
  - apply (inv_range _ _ I e s H0 H1).
  - intros i. exact (inv_claim_held _ _ I e s i H0 H1).
  - destruct H0 as [Ha Hb]. lia.
  - destruct H0 as [Ha Hb]. pose proof (inv_wf _ _ I i) as (_ & W & _). unfold A in W. lia.
  - intros j Hj. exact (inv_held_held _ _ I i j s H0 Hj).
Qed.

Lemma all_stopped_fully_accounted : forall ops st tr, run init ops = (st, tr) ->
  (forall i, In i (actors ops) -> stopped (allocs st i) = true) ->
  (forall i s, ~ held st i s) /\
  (forall s, 1 <= s -> s <= counter st -> exists e, In e tr /\ covers e s).
Proof.
  intros ops st tr H Hall.
  pose proof (all_stopped_nothing_held _ _ _ H Hall) as NH. split; [exact NH|].
  intros s H1 H2. destruct (alloc_accounted _ _ _ H) as (C & _).
  destruct (C s H1 H2) as [Hc | (i & Hh)]; [exact Hc | destruct (NH i s Hh)].
Qed.

Lemma stopped_is_final : forall ops st tr ops' st' tr' i,
  run init ops = (st, tr) -> stopped (allocs st i) = true -> run st ops' = (st', tr') ->
  stopped (allocs st' i) = true /\ (forall s, ~ held st' i s) /\ (forall s fl, ~ In (EHand i s fl) tr').
Proof.
  intros ops st tr ops' st' tr' i H Hs H'.
  pose proof (run_inv _ _ _ H) as I.
  destruct (stopped_run _ _ _ _ _ _ I Hs H') as [S1 S2].
  split; [exact S1|]. split; [|exact S2].
  intros s [Ha Hb].
  pose proof (inv_wf _ _ (run_inv_from _ _ _ _ _ I H') i) as (_ & _ & _ & _ & _ & W).
  unfold A in W. rewrite S1 in W. lia.
Qed.

Lemma floor_is_call_argument : forall ops st tr, run init ops = (st, tr) ->
  forall i s x, In (EHand i s (Some x)) tr -> exists f, In (GTBegin i x f) ops.
Proof.
  intros ops st tr H i s x Hin. destruct (floor_from_op _ _ _ _ H) as [_ P].
  destruct (P i s x Hin) as [Hp | Hf]; [discriminate Hp | exact Hf].
Qed.

Lemma window_wellformed : forall ops st tr, run init ops = (st, tr) -> forall i,
  last (allocs st i) <= max (allocs st i) /\ max (allocs st i) <= counter st /\
  1 <= batch (allocs st i) /\ batch (allocs st i) <= maxBatchSize /\
  (forall x, pend (allocs st i) = Some x -> last (allocs st i) <= pendR (allocs st i) /\ pendR (allocs st i) <= counter st).
Proof.
  intros ops st tr H i. pose proof (inv_wf _ _ (run_inv _ _ _ H) i) as (W1 & W2 & W3 & W4 & W5 & W6).
  unfold A, maxBatchSize in *. repeat split; auto.
  - rewrite H0 in W5. lia.
  - rewrite H0 in W5. lia.
Qed.

Lemma principal_update_accounted : forall ops st tr i fails final st' ev,
  run init ops = (st, tr) -> busy (allocs st i) = false ->
  run st (principal_update i fails final) = (st', ev) ->
  length (singles ev) = length fails /\
  handed ev = singles ev ++ match final with Some _ => [last (allocs st' i)] | None => [] end /\
  run init (ops ++ principal_update i fails final) = (st', tr ++ ev).
Proof.
  intros ops st tr i fails final st' ev H Hb H'.
  destruct (principal_update_events _ _ _ _ _ _ Hb H') as [L Hh].
  repeat split; auto. rewrite run_app, H, H'. reflexivity.
Qed.
