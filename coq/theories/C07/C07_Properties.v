(* C07 -- Sequence numbers are unique, increasing per allocator, and fully accounted: the ALLOCATOR part
   (db/sequence_allocator.go) and the retry loop of db/users.go UpdatePrincipal.

   Every theorem is about [run init ops] for an ARBITRARY op list over any number of allocators
   sharing one counter: ops of different allocators interleave freely, including between the read of
   the counter and the increment inside nextSequenceGreaterThan (GTBegin / GTEnd), with batch growth on
   or off per call ([fast]), idle releases, stops and foreign increments of the counter.

   Vocabulary (Allocator.v): the trace [tr] lists, in order, what the calls did:
     EHand i s fl   allocator i returned number s (fl = Some x: from nextSequenceGreaterThan(x));
     ERange lo hi   the unused-range document for lo..hi was written;
     EOne s         the unused-sequence document for s was written;
     EForeign lo hi some other user of the counter reserved lo..hi;
   [covers e s]: event e disposes of number s;  [held st i s]: s is reserved by allocator i and not yet
   handed out (last_i < s <= max_i).

   NOT here: the document write path of db/crud.go (a number handed to a document write ends on the
   stored document or is released whatever the outcome; each update gets a number above the one it
   replaces).  That needs the write-loop model, which is built under C05/C11 (DESIGN section 6, items
   1 and 2); this file proves what that proof will use from the allocator. *)
From SG Require Import Base.Prelude C07.Allocator C07.AllocatorInv C07.AllocatorProofs C07.Principal C07.PrincipalProofs.
From SG Require Import C07.Cluster C07.ClusterInv C07.ClusterProofs C07.ClusterBound C07.ClusterRollback C07.ClusterSelf C07.ClusterSim.
From SG Require C05.WriteLoop C05.WriteLoopProofs C05.WriteLoopTheorems.
Open Scope N_scope.

(* ---- uniqueness ---- *)

(* no number is disposed of twice: two different events of a trace never cover the same number.
   Instances: two calls never return the same number (on one or on different allocators); two
   released ranges never overlap; a returned number is never inside a released range; nothing of ours
   overlaps what another user of the counter reserved. *)
Theorem C07_alloc_unique : forall ops st tr, run init ops = (st, tr) ->
  forall n m e1 e2 s, n <> m -> nth_error tr n = Some e1 -> nth_error tr m = Some e2 ->
  covers e1 s -> covers e2 s -> False.
Proof. intros ops st tr H. exact (excl_nth tr (inv_excl _ _ (run_inv _ _ _ H))). Qed.
Print Assumptions C07_alloc_unique.

Theorem C07_handed_distinct : forall ops st tr, run init ops = (st, tr) -> NoDup (handed tr).
Proof. intros ops st tr H. exact (excl_handed_nodup tr (inv_excl _ _ (run_inv _ _ _ H))). Qed.
Print Assumptions C07_handed_distinct.

Theorem C07_released_disjoint : forall ops st tr, run init ops = (st, tr) ->
  forall n m lo1 hi1 lo2 hi2, n <> m ->
  nth_error tr n = Some (ERange lo1 hi1) -> nth_error tr m = Some (ERange lo2 hi2) ->
  1 <= lo1 /\ lo1 <= hi1 /\ 1 <= lo2 /\ lo2 <= hi2 /\ (hi1 < lo2 \/ hi2 < lo1).
Proof. exact released_disjoint. Qed.
Print Assumptions C07_released_disjoint.

Theorem C07_never_handed_and_released : forall ops st tr, run init ops = (st, tr) ->
  forall i s fl lo hi, In (EHand i s fl) tr -> In (ERange lo hi) tr -> s < lo \/ hi < s.
Proof. exact never_handed_and_released. Qed.
Print Assumptions C07_never_handed_and_released.

(* single-number releases (failed principal attempt, too-low number in assignSequence) are for numbers
   the allocator handed out, each at most once *)
Theorem C07_single_release_of_handed : forall ops st tr, run init ops = (st, tr) ->
  incl (singles tr) (handed tr) /\ NoDup (singles tr).
Proof.
  intros ops st tr H. pose proof (run_inv _ _ _ H) as I.
  exact (conj (inv_singles_incl _ _ I) (inv_singles_nodup _ _ I)).
Qed.
Print Assumptions C07_single_release_of_handed.

(* ---- full accounting ---- *)

(* (0, counter] = handed + released + foreign + held in a live batch, as a partition:
   every number up to the counter is covered by an event or held; nothing else is; never both; never
   held by two allocators *)
Theorem C07_alloc_accounted : forall ops st tr, run init ops = (st, tr) ->
  (forall s, 1 <= s -> s <= counter st -> (exists e, In e tr /\ covers e s) \/ (exists i, held st i s)) /\
  (forall e s, In e tr -> covers e s -> 1 <= s /\ s <= counter st /\ forall i, ~ held st i s) /\
  (forall i s, held st i s -> 1 <= s /\ s <= counter st /\ forall j, held st j s -> i = j).
Proof. exact alloc_accounted. Qed.
Print Assumptions C07_alloc_accounted.

(* after Stop of every allocator that ever acted nothing is held: every number reserved from the
   counter has been returned to a caller or published as unused (or belongs to the foreign user) *)
Theorem C07_all_stopped_fully_accounted : forall ops st tr, run init ops = (st, tr) ->
  (forall i, In i (actors ops) -> stopped (allocs st i) = true) ->
  (forall i s, ~ held st i s) /\
  (forall s, 1 <= s -> s <= counter st -> exists e, In e tr /\ covers e s).
Proof. exact all_stopped_fully_accounted. Qed.
Print Assumptions C07_all_stopped_fully_accounted.

(* a stopped allocator holds nothing, stays stopped and never returns a number again *)
Theorem C07_stopped_is_final : forall ops st tr ops' st' tr' i,
  run init ops = (st, tr) -> stopped (allocs st i) = true -> run st ops' = (st', tr') ->
  stopped (allocs st' i) = true /\ (forall s, ~ held st' i s) /\ (forall s fl, ~ In (EHand i s fl) tr').
Proof. exact stopped_is_final. Qed.
Print Assumptions C07_stopped_is_final.

(* ---- next-greater-than ---- *)

(* nextSequenceGreaterThan(x) returns a number above x, in every branch and whatever other nodes did
   between its read of the counter and its increment (x = 2^64-1 has no uint64 above it) *)
Theorem C07_next_gt_above : forall ops st tr, run init ops = (st, tr) ->
  forall i s x, In (EHand i s (Some x)) tr -> x < maxU64 -> x < s.
Proof. intros ops st tr H. exact (inv_floor _ _ (run_inv _ _ _ H)). Qed.
Print Assumptions C07_next_gt_above.

(* ... where the floor recorded on the event is the argument of a nextSequenceGreaterThan call of the
   same allocator in the op list *)
Theorem C07_floor_is_call_argument : forall ops st tr, run init ops = (st, tr) ->
  forall i s x, In (EHand i s (Some x)) tr -> exists f, In (GTBegin i x f) ops.
Proof. exact floor_is_call_argument. Qed.
Print Assumptions C07_floor_is_call_argument.

(* ---- per-allocator monotonicity ---- *)

Theorem C07_alloc_monotone_per_node : forall ops st tr, run init ops = (st, tr) ->
  forall l1 l2 i s1 f1 s2 f2, tr = l1 ++ EHand i s1 f1 :: l2 -> In (EHand i s2 f2) l2 -> s1 < s2.
Proof. intros ops st tr H. exact (hsorted_split tr (inv_sorted _ _ (run_inv _ _ _ H))). Qed.
Print Assumptions C07_alloc_monotone_per_node.

(* ---- the window never leaves the counter: the code's unsigned subtractions cannot wrap and its
   rollback branches (value read below last, new max below old max + batch) are unreachable while the
   counter document only grows ---- *)
Theorem C07_window_wellformed : forall ops st tr, run init ops = (st, tr) -> forall i,
  last (allocs st i) <= max (allocs st i) /\ max (allocs st i) <= counter st /\
  1 <= batch (allocs st i) /\ batch (allocs st i) <= maxBatchSize /\
  (forall x, pend (allocs st i) = Some x -> last (allocs st i) <= pendR (allocs st i) /\ pendR (allocs st i) <= counter st).
Proof. exact window_wellformed. Qed.
Print Assumptions C07_window_wellformed.

(* ---- UpdatePrincipal's retry loop (Principal.v) ---- *)

(* from any reachable state, whatever the outcomes of the attempts of one UpdatePrincipal call -- any
   number of lost CAS races, then a stored principal, a failed Save (number released: the repaired
   code), a storage timeout, or giving up -- every number the call obtained is published as unused,
   except the one it keeps, which is carried by the stored principal (or the write timed out: the
   exception the property allows).  The only excluded outcome is the behaviour of the code BEFORE the
   repair on a failed Save (number neither stored nor released), for which the statement is refuted in
   C07_Refuted.v and which the harness monitor detects on the real code. *)
Theorem C07_principal_update_accounted : forall ops st tr i atts,
  run init ops = (st, tr) -> busy (allocs st i) = false -> no_leaking_attempt atts ->
  principal_accounted st i atts.
Proof. exact principal_loop_accounted. Qed.
Print Assumptions C07_principal_update_accounted.

(* the numbers of the attempts, in order: one per attempt, the lost ones released one by one; the call's
   trace extends the trace, so uniqueness / accounting / monotonicity above apply to it *)
Theorem C07_principal_update_numbers : forall ops st tr i fails final st' ev,
  run init ops = (st, tr) -> busy (allocs st i) = false ->
  run st (principal_update i fails final) = (st', ev) ->
  length (singles ev) = length fails /\
  handed ev = singles ev ++ match final with Some _ => [last (allocs st' i)] | None => [] end /\
  run init (ops ++ principal_update i fails final) = (st', tr ++ ev).
Proof. exact principal_update_accounted. Qed.
Print Assumptions C07_principal_update_numbers.

(* ---- the document write path (model: C05/WriteLoop.v, every interleaving of the writers' read / update
   callback / compare-and-swap steps, CAS retries, rejections, storage errors): once every writer has finished,
   each sequence handed out for a document write is carried by a committed revision (its sequence or its
   unused_sequences list) or published as unused, exactly once ---- *)
Theorem C07_write_path_accounted : forall ac tab ops sched,
  WriteLoopTheorems.all_finished (WriteLoop.run true false ac tab ops sched) ->
  NoDup (WriteLoopTheorems.committed_seqs (WriteLoop.run true false ac tab ops sched)
         ++ WriteLoop.released (WriteLoop.run true false ac tab ops sched)) /\
  forall x, (1 <= x <= WriteLoop.last (WriteLoop.run true false ac tab ops sched))%N <->
            (In x (WriteLoopTheorems.committed_seqs (WriteLoop.run true false ac tab ops sched)) \/
             In x (WriteLoop.released (WriteLoop.run true false ac tab ops sched))).
Proof. exact WriteLoopTheorems.accounted_when_finished. Qed.
Print Assumptions C07_write_path_accounted.

(* per-document increasing: each committed write's sequence is strictly above the one it replaced *)
Theorem C07_document_sequences_increase : forall ac tab ops sched,
  WriteLoopProofs.commits_ok 0%N (WriteLoop.commits (WriteLoop.run true false ac tab ops sched)) /\
  WriteLoopProofs.last_seq 0%N (WriteLoop.commits (WriteLoop.run true false ac tab ops sched))
    = WriteLoop.d_seq (WriteLoop.st (WriteLoop.run true false ac tab ops sched)).
Proof. exact WriteLoopTheorems.acked_seq_increasing. Qed.
Print Assumptions C07_document_sequences_increase.

(* ================= the CLUSTER model (Cluster.v) =================

   Several nodes share the counter; a node's step performs at most one operation on the counter document
   (calls are suspended at the program points PGt / PFixCas / PFixIncr / PGtFixed and resumed by XTurn), the
   batch size of any node can be overwritten with any value of [1, maxBatchSize] at any time (XSetBatch: the
   adaptive sizing is one such adversary), a node can crash at any point, also in the middle of a call
   (XCrash: dropped without Stop), and the counter document can go back (XRollback).  [xrun xinit ops] for an
   ARBITRARY op list: all interleavings.  [no_rollback ops]: the counter document only grows. *)

(* the model of Allocator.v is this model restricted to its ops: same trace, same counter, same windows *)
Theorem C07_cluster_extends_allocator : forall ops st tr, run init ops = (st, tr) ->
  exists xst, xrun xinit (map embed ops) = (xst, tr) /\ c_counter xst = counter st /\
    forall i, n_last (c_nodes xst i) = last (allocs st i) /\ n_max (c_nodes xst i) = max (allocs st i) /\
              n_batch (c_nodes xst i) = batch (allocs st i) /\ n_stopped (c_nodes xst i) = stopped (allocs st i).
Proof. exact cluster_extends_allocator. Qed.
Print Assumptions C07_cluster_extends_allocator.

(* no sequence is handed to two callers on any nodes; more: no number is disposed of twice (handed /
   released / reserved by the foreign user), whatever the batch sizes, whoever crashes *)
Theorem C07_multi_node_unique : forall ops st tr, no_rollback ops -> xrun xinit ops = (st, tr) ->
  (forall n m e1 e2 s, n <> m -> nth_error tr n = Some e1 -> nth_error tr m = Some e2 ->
                       covers e1 s -> covers e2 s -> False) /\
  NoDup (handed tr).
Proof. exact multi_node_unique. Qed.
Print Assumptions C07_multi_node_unique.

Theorem C07_multi_node_monotone_per_node : forall ops st tr, no_rollback ops -> xrun xinit ops = (st, tr) ->
  forall l1 l2 i s1 f1 s2 f2, tr = l1 ++ EHand i s1 f1 :: l2 -> In (EHand i s2 f2) l2 -> s1 < s2.
Proof. exact multi_node_monotone. Qed.
Print Assumptions C07_multi_node_monotone_per_node.

(* accounting.  At every moment (0, counter] is partitioned into the numbers disposed of by exactly one
   event and the numbers held in exactly one node's window.  When every node that acted was stopped cleanly,
   every number up to the counter was handed out exactly once or released exactly once (or is the foreign
   user's).  With crashes (every node stopped or crashed): handed out at most once, released at most once,
   and a number is unaccounted only inside the last reservation of a crashed node. *)
Theorem C07_multi_node_accounted : forall ops st tr, no_rollback ops -> xrun xinit ops = (st, tr) ->
  (forall s, 1 <= s -> s <= c_counter st ->
     (covered_once tr s /\ forall i, ~ xheld st i s) \/
     ((forall e, In e tr -> ~ covers e s) /\ exists i, xheld st i s /\ forall j, xheld st j s -> j = i)) /\
  (forall e s, In e tr -> covers e s -> 1 <= s /\ s <= c_counter st) /\
  (forall i s, xheld st i s -> 1 <= s /\ s <= c_counter st) /\
  ((forall i, In i (xactors ops) -> n_stopped (c_nodes st i) = true) ->
   forall s, 1 <= s -> s <= c_counter st -> covered_once tr s /\ forall i, ~ xheld st i s) /\
  ((forall i, In i (xactors ops) -> dead (c_nodes st i) = true) ->
   forall s, 1 <= s -> s <= c_counter st ->
     (covered_once tr s /\ forall i, ~ xheld st i s) \/
     ((forall e, In e tr -> ~ covers e s) /\
      exists i, n_crashed (c_nodes st i) = true /\ n_stopped (c_nodes st i) = false /\ xheld st i s /\
                forall j, xheld st j s -> j = i)).
Proof. exact multi_node_accounted. Qed.
Print Assumptions C07_multi_node_accounted.

(* reserved-but-unused numbers of a crashed node are lost: never handed out, never released, by anybody *)
Theorem C07_crashed_window_never_reused : forall ops st tr ops' st' tr' i s,
  no_rollback ops -> no_rollback ops' ->
  xrun xinit ops = (st, tr) -> n_crashed (c_nodes st i) = true -> xheld st i s ->
  xrun st ops' = (st', tr') ->
  xheld st' i s /\ forall e, In e (tr ++ tr') -> ~ covers e s.
Proof. exact crashed_window_never_reused. Qed.
Print Assumptions C07_crashed_window_never_reused.

(* nextSequenceGreaterThan(x): the result is above x, the step that returns it releases every number below
   the result that the node held or that the step reserved, and what the node holds afterwards is above the
   result (while a call is suspended after its read the node holds nothing: C07_no_false_rollback_detection
   and the window released by the first step) *)
Theorem C07_greater_than_result : forall ops st tr o st' ev i s x,
  no_rollback ops -> xrun xinit ops = (st, tr) -> is_rollback o = false ->
  xstep st o = (st', ev) -> In (EHand i s (Some x)) ev ->
  i = xactor o /\ (x < maxU64 -> x < s) /\
  (forall n, n < s -> xheld st i n \/ (c_counter st < n /\ n <= c_counter st') ->
             exists lo hi, In (ERange lo hi) ev /\ lo <= n /\ n <= hi) /\
  (forall n, xheld st' i n -> s < n).
Proof. exact greater_than_result. Qed.
Print Assumptions C07_greater_than_result.

(* while the counter document only grows, the rollback branches of the code are dead: no node ever enters
   _fixSyncSeqRollback, windows stay below the counter, the value read by nextSequenceGreaterThan is never
   below last (this is C07_window_wellformed for the cluster model) *)
Theorem C07_no_false_rollback_detection : forall ops st tr i, no_rollback ops -> xrun xinit ops = (st, tr) ->
  c_hw st = c_counter st /\ n_last (c_nodes st i) <= n_max (c_nodes st i) /\ n_max (c_nodes st i) <= c_counter st /\
  1 <= n_batch (c_nodes st i) /\ n_batch (c_nodes st i) <= maxBatchSize /\
  match n_pc (c_nodes st i) with
  | PIdle => True
  | PGt x r => n_last (c_nodes st i) <= r /\ r <= c_counter st
  | _ => False
  end.
Proof. exact no_false_rollback_detection. Qed.
Print Assumptions C07_no_false_rollback_detection.

(* ---- the bound MaxSequencesToRelease ---- *)

(* in ANY state, the step that returns ErrMaxSequenceReleasedExceeded leaves every window, batch size and
   flag of every node as it was, writes no unused-sequence document, hands out nothing *)
Theorem C07_max_release_error_unchanged : forall st o st' ev i,
  xstep st o = (st', ev) -> In (EErr i) ev ->
  ev = [EErr i] /\ i = xactor o /\
  (forall j, same_window (c_nodes st j) (c_nodes st' j)) /\
  n_pc (c_nodes st' i) = PIdle /\
  (forall j, j <> i -> c_nodes st' j = c_nodes st j).
Proof. exact err_step_unchanged. Qed.
Print Assumptions C07_max_release_error_unchanged.

(* ... and the counter as well while the counter document only grows; the error is the answer of a call
   suspended after its read of the counter, whose floor is more than the bound above the value read *)
Theorem C07_max_release_error_counter : forall ops st tr o st' ev i,
  no_rollback ops -> xrun xinit ops = (st, tr) -> xstep st o = (st', ev) -> In (EErr i) ev ->
  c_counter st' = c_counter st /\
  exists x r f, o = XTurn i f /\ n_pc (c_nodes st i) = PGt x r /\ r <= c_counter st /\
                r < target_of x /\ MaxSequencesToRelease < x - r.
Proof. exact err_step_counter. Qed.
Print Assumptions C07_max_release_error_counter.

(* the whole call on a node whose window is below the counter: the only effect is that the window the node
   held is released (once: it is empty afterwards); counter, batch size, the other nodes untouched *)
Theorem C07_max_release_error_call : forall st i x f f',
  xbusy (c_nodes st i) = false -> n_last (c_nodes st i) <= n_max (c_nodes st i) -> n_max (c_nodes st i) <= c_counter st ->
  x < maxU64 -> MaxSequencesToRelease < x - c_counter st ->
  exists st', xrun st [XGT i x f; XTurn i f'] =
                (st', (if n_last (c_nodes st i) <? n_max (c_nodes st i)
                       then release_range (n_last (c_nodes st i) + 1) (n_max (c_nodes st i)) else []) ++ [EErr i]) /\
              c_counter st' = c_counter st /\
              n_last (c_nodes st' i) = n_max (c_nodes st i) /\ n_max (c_nodes st' i) = n_max (c_nodes st i) /\
              n_batch (c_nodes st' i) = n_batch (c_nodes st i) /\ n_once (c_nodes st' i) = n_once (c_nodes st i) /\
              n_pc (c_nodes st' i) = PIdle /\
              (forall j, j <> i -> c_nodes st' j = c_nodes st j).
Proof. exact gt_call_error. Qed.
Print Assumptions C07_max_release_error_call.

(* ---- the counter document goes back (bucket rollback, document deleted): what _fixSyncSeqRollback delivers.
   What it does not deliver is refuted in C07_Refuted.v. ---- *)

(* uniqueness, if the counter is restored above the highest reserved number before anybody takes fresh
   numbers from it: every step either starts with the counter at its high-water mark or disposes only of
   numbers its node already held ([run_safe]); then nothing is disposed of twice -- any number of
   rollbacks, also in the middle of calls, crashes, adversarial batch sizes *)
Theorem C07_rollback_unique_if_restored : forall ops st tr,
  run_safe xinit ops -> xrun xinit ops = (st, tr) ->
  (forall n m e1 e2 s, n <> m -> nth_error tr n = Some e1 -> nth_error tr m = Some e2 ->
                       covers e1 s -> covers e2 s -> False) /\
  NoDup (handed tr) /\
  (forall e s i, In e tr -> covers e s -> ~ xheld st i s) /\
  (forall i j s, xheld st i s -> xheld st j s -> i = j).
Proof. exact rollback_unique_if_restored. Qed.
Print Assumptions C07_rollback_unique_if_restored.

(* an idle node whose window reaches above the rolled-back counter is always safe: it serves from its window
   or it notices the rollback; it never takes a fresh number *)
Theorem C07_rollback_idle_node_detects : forall c a o c' a' ev,
  n_pc a = PIdle -> n_last a <= n_max a -> c < n_max a ->
  match o with XEnvIncr _ | XRollback _ => False | _ => True end ->
  xstep_node c a o = (c', a', ev) -> no_fresh_claim a a' ev.
Proof. exact idle_above_counter_safe. Qed.
Print Assumptions C07_rollback_idle_node_detects.

(* QUIET rollbacks (the counter goes back only while no live node is in the middle of a call), any number
   of them, any number of nodes: each node's numbers still increase, nextSequenceGreaterThan(x) still
   returns more than x, and a node never disposes of the same number twice -- duplicates after a rollback
   are always between different nodes *)
Theorem C07_rollback_monotone_per_node : forall ops st tr, run_quiet xinit ops -> xrun xinit ops = (st, tr) ->
  forall l1 l2 i s1 f1 s2 f2, tr = l1 ++ EHand i s1 f1 :: l2 -> In (EHand i s2 f2) l2 -> s1 < s2.
Proof. exact rollback_monotone. Qed.
Print Assumptions C07_rollback_monotone_per_node.

Theorem C07_rollback_greater_than_result : forall ops st tr, run_quiet xinit ops -> xrun xinit ops = (st, tr) ->
  forall i s x, In (EHand i s (Some x)) tr -> x < maxU64 -> x < s.
Proof. exact rollback_floor. Qed.
Print Assumptions C07_rollback_greater_than_result.

Theorem C07_rollback_no_self_duplicate : forall ops i, run_quiet xinit ops -> excl (xrun_of i xinit ops).
Proof. exact rollback_no_self_duplicate. Qed.
Print Assumptions C07_rollback_no_self_duplicate.

(* hence on a single-node deployment quiet rollbacks never produce a duplicate *)
Theorem C07_single_node_rollback_unique : forall ops i st tr,
  single_node i ops -> run_quiet xinit ops -> xrun xinit ops = (st, tr) ->
  (forall n m e1 e2 s, n <> m -> nth_error tr n = Some e1 -> nth_error tr m = Some e2 ->
                       covers e1 s -> covers e2 s -> False) /\
  NoDup (handed tr).
Proof. exact single_node_rollback_unique. Qed.
Print Assumptions C07_single_node_rollback_unique.

(* ---- non-vacuity: three allocators, an interleaved nextSequenceGreaterThan, batch growth, idle
   release, a principal update with two lost CAS races, stops ---- *)
Example C07_nonvacuous :
  let ops := [Next 0 false; Next 1 true; Next 0 true; GTBegin 0 9 false; Next 1 true; EnvIncr 2;
              GTEnd 0 true; Next 0 true] ++ principal_update 2 [false; true] (Some true) ++
             [GTBegin 1 4 true; Next 1 true; ReleaseIdle 0; Next 0 true; Stop 0; Stop 1; Stop 2] in
  let '(st, tr) := run init ops in
  counter st = 26 /\
  handed tr = [1; 2; 3; 5; 14; 15; 16; 17; 18; 6; 19; 23] /\
  singles tr = [16; 17] /\
  (forall i, In i (actors ops) -> stopped (allocs st i) = true) /\
  In (ERange 9 13) tr /\ In (ERange 20 22) tr /\ In (EForeign 7 8) tr /\ In (EHand 0 14 (Some 9)) tr.
Proof.
  vm_compute. repeat split; try solve [repeat (first [left; reflexivity | right])].
  intros i Hi. repeat (destruct Hi as [<-|Hi]; [reflexivity|]). destruct Hi.
Qed.

(* non-vacuity of the cluster theorems: adversarial batch sizes, a crash holding a window, a
   nextSequenceGreaterThan interleaved with another node, the bound, a detected rollback with both fixes *)
Example C07_cluster_nonvacuous :
  let ops := [XSetBatch 0 5; XNext 0 false; XNext 1 false; XCrash 0; XNext 1 true; XSetBatch 2 3; XGT 2 20 false;
              XNext 1 true; XTurn 2 true; XGT 1 (30 + MaxSequencesToRelease) false; XTurn 1 false; XStop 1; XStop 2] in
  let '(st, tr) := xrun xinit ops in
  no_rollback ops /\
  c_counter st = 23 /\ handed tr = [1; 6; 7; 8; 21] /\ In (ERange 9 20) tr /\ In (EErr 1) tr /\
  n_crashed (c_nodes st 0) = true /\ xheld st 0 2 /\ xheld st 0 5 /\
  (forall i, In i (xactors ops) -> dead (c_nodes st i) = true).
Proof.
  vm_compute. split; [repeat constructor|].
  repeat split; try discriminate; try solve [repeat (first [left; reflexivity | right])].
  intros i Hi. repeat (destruct Hi as [<-|Hi]; [reflexivity|]). destruct Hi.
Qed.

Example C07_rollback_nonvacuous :
  let ops := [XNext 0 true; XNext 0 true; XNext 0 true; XReleaseIdle 0; XRollback 1; XNext 0 true; XTurn 0 true;
              XTurn 0 true; XRollback 2; XGT 0 5000 false; XTurn 0 true; XTurn 0 true; XTurn 0 true; XTurn 0 true] in
  single_node 0 ops /\ handed (snd (xrun xinit ops)) = [1; 2; 3; 508; 5001].
Proof. split; [repeat constructor | vm_compute; reflexivity]. Qed.
