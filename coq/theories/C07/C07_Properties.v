(* C07 -- Sequence numbers are unique, increasing per allocator, and fully accounted: the ALLOCATOR part
   (db/sequence_allocator.go) and the retry loop of db/users.go UpdatePrincipal.

   Every theorem is about [run init ops] for an ARBITRARY op list over any number of allocators
   sharing one counter: ops of different allocators interleave freely, including between the read of
   the counter and the increment inside nextSequenceGreaterThan (GTBegin / GTEnd), with batch growth on
   or off per call ([fast]), idle releases, stops and foreign increments of the counter.

   Vocabulary (Allocator.v): the trace [tr] lists, in order, what the calls did:
     EHand i s fl   allocator i returned number s (fl = Some x: from nextSequenceGreaterThan(x));
     ERange lo hi   the unused-range document for lo..hi was written;
     EOne s         the unused-sequence document for s was written;
     EForeign lo hi some other user of the counter reserved lo..hi;
   [covers e s]: event e disposes of number s;  [held st i s]: s is reserved by allocator i and not yet
   handed out (last_i < s <= max_i).

   NOT here: the document write path of db/crud.go (a number handed to a document write ends on the
   stored document or is released whatever the outcome; each update gets a number above the one it
   replaces).  That needs the write-loop model, which is built under C05/C11 (DESIGN section 6, items
   1 and 2); this file proves what that proof will use from the allocator. *)
From SG Require Import Base.Prelude C07.Allocator C07.AllocatorInv C07.AllocatorProofs C07.Principal C07.PrincipalProofs.
From SG Require C05.WriteLoop C05.WriteLoopProofs C05.WriteLoopTheorems.
Open Scope N_scope.

(* ---- uniqueness ---- *)

(* no number is disposed of twice: two different events of a trace never cover the same number.
   Instances: two calls never return the same number (on one or on different allocators); two
   released ranges never overlap; a returned number is never inside a released range; nothing of ours
   overlaps what another user of the counter reserved. *)
Theorem C07_alloc_unique : forall ops st tr, run init ops = (st, tr) ->
  forall n m e1 e2 s, n <> m -> nth_error tr n = Some e1 -> nth_error tr m = Some e2 ->
  covers e1 s -> covers e2 s -> False.
Proof. intros ops st tr H. exact (excl_nth tr (inv_excl _ _ (run_inv _ _ _ H))). Qed.
Print Assumptions C07_alloc_unique.

Theorem C07_handed_distinct : forall ops st tr, run init ops = (st, tr) -> NoDup (handed tr).
Proof. intros ops st tr H. exact (excl_handed_nodup tr (inv_excl _ _ (run_inv _ _ _ H))). Qed.
Print Assumptions C07_handed_distinct.

Theorem C07_released_disjoint : forall ops st tr, run init ops = (st, tr) ->
  forall n m lo1 hi1 lo2 hi2, n <> m ->
  nth_error tr n = Some (ERange lo1 hi1) -> nth_error tr m = Some (ERange lo2 hi2) ->
  1 <= lo1 /\ lo1 <= hi1 /\ 1 <= lo2 /\ lo2 <= hi2 /\ (hi1 < lo2 \/ hi2 < lo1).
Proof. exact released_disjoint. Qed.
Print Assumptions C07_released_disjoint.

Theorem C07_never_handed_and_released : forall ops st tr, run init ops = (st, tr) ->
  forall i s fl lo hi, In (EHand i s fl) tr -> In (ERange lo hi) tr -> s < lo \/ hi < s.
Proof. exact never_handed_and_released. Qed.
Print Assumptions C07_never_handed_and_released.

(* single-number releases (failed principal attempt, too-low number in assignSequence) are for numbers
   the allocator handed out, each at most once *)
Theorem C07_single_release_of_handed : forall ops st tr, run init ops = (st, tr) ->
  incl (singles tr) (handed tr) /\ NoDup (singles tr).
Proof.
  intros ops st tr H. pose proof (run_inv _ _ _ H) as I.
  exact (conj (inv_singles_incl _ _ I) (inv_singles_nodup _ _ I)).
Qed.
Print Assumptions C07_single_release_of_handed.

(* ---- full accounting ---- *)

(* (0, counter] = handed + released + foreign + held in a live batch, as a partition:
   every number up to the counter is covered by an event or held; nothing else is; never both; never
   held by two allocators *)
Theorem C07_alloc_accounted : forall ops st tr, run init ops = (st, tr) ->
  (forall s, 1 <= s -> s <= counter st -> (exists e, In e tr /\ covers e s) \/ (exists i, held st i s)) /\
  (forall e s, In e tr -> covers e s -> 1 <= s /\ s <= counter st /\ forall i, ~ held st i s) /\
  (forall i s, held st i s -> 1 <= s /\ s <= counter st /\ forall j, held st j s -> i = j).
Proof. exact alloc_accounted. Qed.
Print Assumptions C07_alloc_accounted.

(* after Stop of every allocator that ever acted nothing is held: every number reserved from the
   counter has been returned to a caller or published as unused (or belongs to the foreign user) *)
Theorem C07_all_stopped_fully_accounted : forall ops st tr, run init ops = (st, tr) ->
  (forall i, In i (actors ops) -> stopped (allocs st i) = true) ->
  (forall i s, ~ held st i s) /\
  (forall s, 1 <= s -> s <= counter st -> exists e, In e tr /\ covers e s).
Proof. exact all_stopped_fully_accounted. Qed.
Print Assumptions C07_all_stopped_fully_accounted.

(* a stopped allocator holds nothing, stays stopped and never returns a number again *)
Theorem C07_stopped_is_final : forall ops st tr ops' st' tr' i,
  run init ops = (st, tr) -> stopped (allocs st i) = true -> run st ops' = (st', tr') ->
  stopped (allocs st' i) = true /\ (forall s, ~ held st' i s) /\ (forall s fl, ~ In (EHand i s fl) tr').
Proof. exact stopped_is_final. Qed.
Print Assumptions C07_stopped_is_final.

(* ---- next-greater-than ---- *)

(* nextSequenceGreaterThan(x) returns a number above x, in every branch and whatever other nodes did
   between its read of the counter and its increment (x = 2^64-1 has no uint64 above it) *)
Theorem C07_next_gt_above : forall ops st tr, run init ops = (st, tr) ->
  forall i s x, In (EHand i s (Some x)) tr -> x < maxU64 -> x < s.
Proof. intros ops st tr H. exact (inv_floor _ _ (run_inv _ _ _ H)). Qed.
Print Assumptions C07_next_gt_above.

(* ... where the floor recorded on the event is the argument of a nextSequenceGreaterThan call of the
   same allocator in the op list *)
Theorem C07_floor_is_call_argument : forall ops st tr, run init ops = (st, tr) ->
  forall i s x, In (EHand i s (Some x)) tr -> exists f, In (GTBegin i x f) ops.
Proof. exact floor_is_call_argument. Qed.
Print Assumptions C07_floor_is_call_argument.

(* ---- per-allocator monotonicity ---- *)

Theorem C07_alloc_monotone_per_node : forall ops st tr, run init ops = (st, tr) ->
  forall l1 l2 i s1 f1 s2 f2, tr = l1 ++ EHand i s1 f1 :: l2 -> In (EHand i s2 f2) l2 -> s1 < s2.
Proof. intros ops st tr H. exact (hsorted_split tr (inv_sorted _ _ (run_inv _ _ _ H))). Qed.
Print Assumptions C07_alloc_monotone_per_node.

(* ---- the window never leaves the counter: the code's unsigned subtractions cannot wrap and its
   rollback branches (value read below last, new max below old max + batch) are unreachable while the
   counter document only grows ---- *)
Theorem C07_window_wellformed : forall ops st tr, run init ops = (st, tr) -> forall i,
  last (allocs st i) <= max (allocs st i) /\ max (allocs st i) <= counter st /\
  1 <= batch (allocs st i) /\ batch (allocs st i) <= maxBatchSize /\
  (forall x, pend (allocs st i) = Some x -> last (allocs st i) <= pendR (allocs st i) /\ pendR (allocs st i) <= counter st).
Proof. exact window_wellformed. Qed.
Print Assumptions C07_window_wellformed.

(* ---- UpdatePrincipal's retry loop (Principal.v) ---- *)

(* from any reachable state, whatever the outcomes of the attempts of one UpdatePrincipal call -- any
   number of lost CAS races, then a stored principal, a failed Save (number released: the repaired
   code), a storage timeout, or giving up -- every number the call obtained is published as unused,
   except the one it keeps, which is carried by the stored principal (or the write timed out: the
   exception the property allows).  The only excluded outcome is the behaviour of the code BEFORE the
   repair on a failed Save (number neither stored nor released), for which the statement is refuted in
   C07_Refuted.v and which the harness monitor detects on the real code. *)
Theorem C07_principal_update_accounted : forall ops st tr i atts,
  run init ops = (st, tr) -> busy (allocs st i) = false -> no_leaking_attempt atts ->
  principal_accounted st i atts.
Proof. exact principal_loop_accounted. Qed.
Print Assumptions C07_principal_update_accounted.

(* the numbers of the attempts, in order: one per attempt, the lost ones released one by one; the call's
   trace extends the trace, so uniqueness / accounting / monotonicity above apply to it *)
Theorem C07_principal_update_numbers : forall ops st tr i fails final st' ev,
  run init ops = (st, tr) -> busy (allocs st i) = false ->
  run st (principal_update i fails final) = (st', ev) ->
  length (singles ev) = length fails /\
  handed ev = singles ev ++ match final with Some _ => [last (allocs st' i)] | None => [] end /\
  run init (ops ++ principal_update i fails final) = (st', tr ++ ev).
Proof. exact principal_update_accounted. Qed.
Print Assumptions C07_principal_update_numbers.

(* ---- the document write path (model: C05/WriteLoop.v, every interleaving of the writers' read / update
   callback / compare-and-swap steps, CAS retries, rejections, storage errors): once every writer has finished,
   each sequence handed out for a document write is carried by a committed revision (its sequence or its
   unused_sequences list) or published as unused, exactly once ---- *)
Theorem C07_write_path_accounted : forall ac tab ops sched,
  WriteLoopTheorems.all_finished (WriteLoop.run true false ac tab ops sched) ->
  NoDup (WriteLoopTheorems.committed_seqs (WriteLoop.run true false ac tab ops sched)
         ++ WriteLoop.released (WriteLoop.run true false ac tab ops sched)) /\
  forall x, (1 <= x <= WriteLoop.last (WriteLoop.run true false ac tab ops sched))%N <->
            (In x (WriteLoopTheorems.committed_seqs (WriteLoop.run true false ac tab ops sched)) \/
             In x (WriteLoop.released (WriteLoop.run true false ac tab ops sched))).
Proof. exact WriteLoopTheorems.accounted_when_finished. Qed.
Print Assumptions C07_write_path_accounted.

(* per-document increasing: each committed write's sequence is strictly above the one it replaced *)
Theorem C07_document_sequences_increase : forall ac tab ops sched,
  WriteLoopProofs.commits_ok 0%N (WriteLoop.commits (WriteLoop.run true false ac tab ops sched)) /\
  WriteLoopProofs.last_seq 0%N (WriteLoop.commits (WriteLoop.run true false ac tab ops sched))
    = WriteLoop.d_seq (WriteLoop.st (WriteLoop.run true false ac tab ops sched)).
Proof. exact WriteLoopTheorems.acked_seq_increasing. Qed.
Print Assumptions C07_document_sequences_increase.

(* ---- non-vacuity: three allocators, an interleaved nextSequenceGreaterThan, batch growth, idle
   release, a principal update with two lost CAS races, stops ---- *)
Example C07_nonvacuous :
  let ops := [Next 0 false; Next 1 true; Next 0 true; GTBegin 0 9 false; Next 1 true; EnvIncr 2;
              GTEnd 0 true; Next 0 true] ++ principal_update 2 [false; true] (Some true) ++
             [GTBegin 1 4 true; Next 1 true; ReleaseIdle 0; Next 0 true; Stop 0; Stop 1; Stop 2] in
  let '(st, tr) := run init ops in
  counter st = 26 /\
  handed tr = [1; 2; 3; 5; 14; 15; 16; 17; 18; 6; 19; 23] /\
  singles tr = [16; 17] /\
  (forall i, In i (actors ops) -> stopped (allocs st i) = true) /\
  In (ERange 9 13) tr /\ In (ERange 20 22) tr /\ In (EForeign 7 8) tr /\ In (EHand 0 14 (Some 9)) tr.
Proof.
  vm_compute. repeat split; try solve [repeat (first [left; reflexivity | right])].
  intros i Hi. repeat (destruct Hi as [<-|Hi]; [reflexivity|]). destruct Hi.
Qed.
