(* C07 -- the retry loop of db/users.go UpdatePrincipal, as far as sequence numbers are concerned.

   Every attempt that finds something to change calls nextSequence, stamps the number on the principal
   and calls Authenticator.Save.  Outcomes of an attempt:
     LostCas       Save lost the CAS race: the number is released (releaseSequence), the loop retries;
     Saved         the principal was stored: the number is carried by the stored document; loop ends;
     Failed        Save failed otherwise and left the principal unsaved (validation inside Save refuses an
                   invalid role or channel name of the request, storage error): the number is released
                   and the error returned -- the REPAIRED code;
     TimedOut      storage timed out, outcome unknown: the number is kept (it may be on the document) --
                   the exception the property text allows;
     FailedLeaked  what the code did on a failed Save BEFORE the repair: the error is returned and the
                   number is neither stored nor released.
   [loop_ops] is the op list the loop issues on allocator i for a list of attempt outcomes (the loop ends
   at the first attempt that is not a lost CAS race; auth.PrincipalUpdateMaxCasRetries only bounds the
   length of the list). *)
From SG Require Import Base.Prelude C07.Allocator.
Open Scope N_scope.

Inductive attempt :=
| LostCas (fast : bool)
| Saved (fast : bool)
| Failed (fast : bool)
| TimedOut (fast : bool)
| FailedLeaked (fast : bool).

Fixpoint loop_ops (i : N) (atts : list attempt) : list op :=
  match atts with
  | [] => []
  | LostCas f :: r => NextDiscard i f :: loop_ops i r
  | Failed f :: _ => [NextDiscard i f]
  | Saved f :: _ | TimedOut f :: _ | FailedLeaked f :: _ => [Next i f]
  end.

(* the attempt that ended the loop (None: every attempt lost the race) *)
Fixpoint loop_end (atts : list attempt) : option attempt :=
  match atts with
  | [] => None
  | LostCas _ :: r => loop_end r
  | a :: _ => Some a
  end.

(* the number the call keeps is accounted for: on the stored principal, or of unknown outcome (timeout) *)
Definition kept_accounted (atts : list attempt) : Prop :=
  match loop_end atts with
  | Some (Saved _) | Some (TimedOut _) => True
  | _ => False
  end.

(* every number the call obtained is published as unused, or is the one the call keeps and that one is
   carried by the stored principal (or the write timed out) *)
Definition principal_accounted (st : state) (i : N) (atts : list attempt) : Prop :=
  let '(st', ev) := run st (loop_ops i atts) in
  forall s, In s (handed ev) -> In s (singles ev) \/ (s = last (allocs st' i) /\ kept_accounted atts).

Definition no_leaking_attempt (atts : list attempt) : Prop :=
  match loop_end atts with Some (FailedLeaked _) => False | _ => True end.
