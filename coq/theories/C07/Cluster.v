(* C07 -- the CLUSTER model of db/sequence_allocator.go: the model of Allocator.v extended with
   - the rollback branches of the code (_reserveSequenceBatch: "max < s.max + batch",
     nextSequenceGreaterThan: "syncSeq < s.last") and _fixSyncSeqRollback itself, storage operation by
     storage operation;
   - the counter document going BACK (bucket rollback, counter document deleted): op [XRollback];
   - an adversarial batch size: op [XSetBatch i b] puts any value of [1, maxBatchSize] into
     sequenceBatchSize (every behaviour of the adaptive sizing -- growth by frequency of Incr, shrink
     by idle release -- is one particular choice; the growth/shrink arithmetic of the code is modelled
     as well, through [fast] and release_unused);
   - node crash: op [XCrash i] -- the allocator object is dropped without Stop, at any point, also
     in the middle of a call; what it held stays reserved for ever.

   Events, [covers], the constants and release_range are those of Allocator.v.

   Granularity.  A step of a node is a maximal piece of a call that performs AT MOST ONE operation on
   the counter document (the Get + WriteCas pair of _fixSyncSeqRollback's retry loop counts as one: a
   lost CAS race is retried and has no effect).  The places where a call can be suspended while other
   nodes run are the program points [pcs]:
     PGt x r        nextSequenceGreaterThan(x), right after getSequence returned r      (as GTBegin/GTEnd)
     PFixCas k d    _fixSyncSeqRollback, before datastore.Get; d = correctionIncrValue
     PFixIncr k     _fixSyncSeqRollback, after WriteCas, before _incrementSequence(batch)
     PGtFixed x r   nextSequenceGreaterThan(x) after _fixSyncSeqRollback returned r, before its next Incr
   [cont] says which caller _fixSyncSeqRollback returns to.  The node's mutex is held at all of them.
   [XTurn i] lets node i run to its next program point or to the end of the call.
   The theorems quantify over all op lists, hence over all interleavings of these steps.

   [c_hw] is a ghost: the highest value the counter ever had.

   uint64: as in Allocator.v (no wrap below 2^64 - 10^7 - 10 - 500*...); the subtractions of the code
   are guarded exactly as in the code (the rollback tests make "expected - prev" positive). *)
From SG Require Import Base.Prelude C07.Allocator.
Open Scope N_scope.

Definition syncSeqCorrectionValue : N := 500.

Inductive cont :=
| KRes (fl : option N) (disc : bool)   (* _reserveSequenceBatch inside a _nextSequence; the call hands its number
                                          with floor tag fl, and releases it at once when disc (NextDiscard) *)
| KGt (x : N).                         (* nextSequenceGreaterThan(x), third branch *)

Inductive pcs :=
| PIdle
| PGt (x r : N)
| PFixCas (k : cont) (corr : N)
| PFixIncr (k : cont)
| PGtFixed (x r : N).

Record node := mkN {
  n_last : N;
  n_max : N;
  n_batch : N;
  n_once : bool;          (* lastSequenceReserveTime is non-zero *)
  n_pc : pcs;
  n_stopped : bool;
  n_crashed : bool
}.

Definition nfresh : node := mkN 0 0 idleBatchSize false PIdle false false.

Record cluster := mkC { c_counter : N; c_hw : N; c_nodes : N -> node }.

Definition xinit : cluster := mkC 0 0 (fun _ => nfresh).

Definition nupd (f : N -> node) (i : N) (a : node) : N -> node :=
  fun j => if j =? i then a else f j.

Inductive xop :=
| XNext (i : N) (fast : bool)
| XNextDiscard (i : N) (fast : bool)
| XGT (i x : N) (fast : bool)           (* nextSequenceGreaterThan(x), up to its first program point *)
| XTurn (i : N) (fast : bool)           (* resume the suspended call of node i *)
| XReleaseIdle (i : N)
| XStop (i : N)
| XSetBatch (i b : N)                   (* adversarial batch size *)
| XCrash (i : N)                        (* node dropped without Stop *)
| XEnvIncr (k : N)
| XRollback (c : N).                    (* the counter document goes back to c (no effect unless c is lower) *)

Definition hand_events (i s : N) (fl : option N) (disc : bool) : list event :=
  EHand i s fl :: if disc then [EOne s] else [].

Definition set_pc (a : node) (p : pcs) : node :=
  mkN (n_last a) (n_max a) (n_batch a) (n_once a) p (n_stopped a) (n_crashed a).

(* _nextSequence (with _reserveSequenceBatch up to its rollback test) *)
Definition xnext (c i : N) (a : node) (fast : bool) (fl : option N) (disc : bool) : N * node * list event :=
  if n_max a <=? n_last a then
    let b := if fast && n_once a then N.min (n_batch a * sequenceBatchMultiplier) maxBatchSize else n_batch a in
    let m := c + b in
    if m <? n_max a + b then
      (* rollback of _sync:seq detected: _fixSyncSeqRollback(m, s.max + batch) *)
      (m, mkN (n_last a) (n_max a) b (n_once a)
              (PFixCas (KRes fl disc) (n_max a + b - m + syncSeqCorrectionValue)) (n_stopped a) (n_crashed a), [])
    else
      let s := m - b + 1 in
      (m, mkN s m b true PIdle (n_stopped a) (n_crashed a), hand_events i s fl disc)
  else
    let s := n_last a + 1 in
    (c, mkN s (n_max a) (n_batch a) (n_once a) PIdle (n_stopped a) (n_crashed a), hand_events i s fl disc).

(* releaseUnusedSequences *)
Definition xrelease_unused (a : node) : node * list event :=
  if n_last a =? n_max a then (a, [])
  else
    let ev := if n_last a <? n_max a then release_range (n_last a + 1) (n_max a) else [] in
    let unused := n_max a - n_last a in
    let b := if (n_max a <? n_last a) || (n_batch a <=? unused) then idleBatchSize else n_batch a - unused in
    (mkN (n_max a) (n_max a) b (n_once a) (n_pc a) (n_stopped a) (n_crashed a), ev).

(* nextSequenceGreaterThan up to its first program point *)
Definition xgt (c i : N) (a : node) (x : N) (fast : bool) : N * node * list event :=
  let target := target_of x in
  if target <=? n_last a then xnext c i a fast (Some x) false
  else if target <=? n_max a then
    let from := n_last a + 1 in
    (c, mkN target (n_max a) (n_batch a) (n_once a) PIdle (n_stopped a) (n_crashed a),
     (if from <? target then release_range from (target - 1) else []) ++ [EHand i target (Some x)])
  else
    let '(l1, ev) := if n_last a <? n_max a then (n_max a, release_range (n_last a + 1) (n_max a)) else (n_last a, []) in
    (c, mkN l1 (n_max a) (n_batch a) (n_once a) (PGt x c) (n_stopped a) (n_crashed a), ev).

(* nextSequenceGreaterThan once the value r of the counter is known (read, or returned by the fix) *)
Definition gt_finish (c i : N) (a : node) (x r : N) (fast : bool) : N * node * list event :=
  let target := target_of x in
  if target <=? r then xnext c i a fast (Some x) false
  else
    let numberToRelease := x - r in
    let numberToAllocate := n_batch a in
    if MaxSequencesToRelease <? numberToRelease then (c, set_pc a PIdle, [EErr i])
    else
      let allocatedToSeq := c + (numberToRelease + numberToAllocate) in
      let l1 := allocatedToSeq - numberToAllocate + 1 in
      let releaseTo := allocatedToSeq - numberToAllocate in
      let releaseFrom := releaseTo - numberToRelease + 1 in
      (allocatedToSeq,
       mkN l1 allocatedToSeq (n_batch a) true PIdle (n_stopped a) (n_crashed a),
       (if 0 <? numberToRelease then release_range releaseFrom releaseTo else []) ++ [EHand i l1 (Some x)]).

(* resume a suspended call *)
Definition xturn (c i : N) (a : node) (fast : bool) : N * node * list event :=
  match n_pc a with
  | PIdle => (c, a, [ESkip i])
  | PGt x r =>
      if r <? n_last a then
        (* rollback detected: _fixSyncSeqRollback(syncSeq, s.last) *)
        (c, set_pc a (PFixCas (KGt x) (n_last a - r + syncSeqCorrectionValue)), [])
      else gt_finish c i a x r fast
  | PFixCas k corr =>
      (* Get + WriteCas(result + correctionIncrValue) *)
      (c + corr, set_pc a (PFixIncr k), [])
  | PFixIncr (KRes fl disc) =>
      (* _incrementSequence(batch); back in _reserveSequenceBatch: max := result, last := max - batch; then
         _nextSequence hands last+1 *)
      let m := c + n_batch a in
      let s := m - n_batch a + 1 in
      (m, mkN s m (n_batch a) true PIdle (n_stopped a) (n_crashed a), hand_events i s fl disc)
  | PFixIncr (KGt x) =>
      (* _incrementSequence(batch); the result only replaces syncSeq: the window is NOT updated.  The call
         then runs on to its next Incr: when syncSeq reaches the target that is the Incr of
         _reserveSequenceBatch, whose batch growth (decided by THIS turn's clock) precedes it *)
      let r := c + n_batch a in
      if target_of x <=? r then
        if n_max a <=? n_last a then
          let b := if fast && n_once a then N.min (n_batch a * sequenceBatchMultiplier) maxBatchSize else n_batch a in
          (r, mkN (n_last a) (n_max a) b (n_once a) (PGtFixed x r) (n_stopped a) (n_crashed a), [])
        else xnext r i a fast (Some x) false
      else if MaxSequencesToRelease <? x - r then (r, set_pc a PIdle, [EErr i])
      else (r, set_pc a (PGtFixed x r), [])
  | PGtFixed x r => gt_finish c i a x r false   (* the batch growth, if any, was done before the call was suspended *)
  end.

Definition pc_idle (a : node) : bool := match n_pc a with PIdle => true | _ => false end.
Definition dead (a : node) : bool := n_stopped a || n_crashed a.
Definition xbusy (a : node) : bool := dead a || negb (pc_idle a).

Definition set_nstopped (a : node) : node :=
  mkN (n_last a) (n_max a) (n_batch a) (n_once a) (n_pc a) true (n_crashed a).
Definition set_ncrashed (a : node) : node :=
  mkN (n_last a) (n_max a) (n_batch a) (n_once a) (n_pc a) (n_stopped a) true.
Definition set_nbatch (a : node) (b : N) : node :=
  mkN (n_last a) (n_max a) b (n_once a) (n_pc a) (n_stopped a) (n_crashed a).

Definition xstep_node (c : N) (a : node) (o : xop) : N * node * list event :=
  match o with
  | XNext i fast => if xbusy a then (c, a, [ESkip i]) else xnext c i a fast None false
  | XNextDiscard i fast => if xbusy a then (c, a, [ESkip i]) else xnext c i a fast None true
  | XGT i x fast => if xbusy a then (c, a, [ESkip i]) else xgt c i a x fast
  | XTurn i fast => if dead a then (c, a, [ESkip i]) else xturn c i a fast
  | XReleaseIdle i =>
      if xbusy a then (c, a, [ESkip i]) else let '(a1, ev) := xrelease_unused a in (c, a1, ev)
  | XStop i =>
      if xbusy a then (c, a, [ESkip i]) else let '(a1, ev) := xrelease_unused a in (c, set_nstopped a1, ev)
  | XSetBatch i b =>
      if xbusy a || (b <? 1) || (maxBatchSize <? b) then (c, a, [ESkip i]) else (c, set_nbatch a b, [])
  | XCrash i => (c, set_ncrashed a, [])
  | XEnvIncr k => (c + k, a, if k =? 0 then [] else [EForeign (c + 1) (c + k)])
  | XRollback c' => (N.min c' c, a, [])
  end.

Definition xactor (o : xop) : N :=
  match o with
  | XNext i _ | XNextDiscard i _ | XGT i _ _ | XTurn i _ | XReleaseIdle i | XStop i | XSetBatch i _ | XCrash i => i
  | XEnvIncr _ | XRollback _ => 0
  end.

Definition xstep (st : cluster) (o : xop) : cluster * list event :=
  let i := xactor o in
  let '(c1, a1, ev) := xstep_node (c_counter st) (c_nodes st i) o in
  (mkC c1 (N.max (c_hw st) c1) (nupd (c_nodes st) i a1), ev).

Fixpoint xrun (st : cluster) (ops : list xop) : cluster * list event :=
  match ops with
  | [] => (st, [])
  | o :: r =>
      let '(st1, e1) := xstep st o in
      let '(st2, e2) := xrun st1 r in
      (st2, e1 ++ e2)
  end.

(* s is reserved by node i and not handed out *)
Definition xheld (st : cluster) (i s : N) : Prop :=
  n_last (c_nodes st i) < s /\ s <= n_max (c_nodes st i).

Definition is_rollback (o : xop) : bool := match o with XRollback _ => true | _ => false end.
Definition no_rollback (ops : list xop) : Prop := Forall (fun o => is_rollback o = false) ops.

Definition xactors (ops : list xop) : list N :=
  flat_map (fun o => match o with XEnvIncr _ | XRollback _ => [] | _ => [xactor o] end) ops.

(* a node that can still act *)
Definition live (a : node) : bool := negb (dead a).

(* the op list of Allocator.v inside this model *)
Definition embed (o : op) : xop :=
  match o with
  | Next i f => XNext i f
  | NextDiscard i f => XNextDiscard i f
  | GTBegin i x f => XGT i x f
  | GTEnd i f => XTurn i f
  | ReleaseIdle i => XReleaseIdle i
  | Stop i => XStop i
  | EnvIncr k => XEnvIncr k
  end.
