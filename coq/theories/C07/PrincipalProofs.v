(* C07 -- UpdatePrincipal's loop accounts for every number it obtains (repaired code) *)
From SG Require Import Base.Prelude C07.Allocator C07.AllocatorInv C07.AllocatorProofs C07.Principal.
Open Scope N_scope.

Lemma loop_ops_shape i atts :
  exists fails final, loop_ops i atts = principal_update i fails final /\
    (final <> None -> exists f, loop_end atts = Some (Saved f) \/ loop_end atts = Some (TimedOut f) \/
                                loop_end atts = Some (FailedLeaked f)).
Proof.
  induction atts as [|a r IH]; cbn [loop_ops loop_end].
  - exists [], None. split; [reflexivity | intros H; exfalso; apply H; reflexivity].
  - destruct a as [f|f|f|f|f].
    + destruct IH as (fails & final & E & S). exists (f :: fails), final. split; [|exact S].
      unfold principal_update in *. cbn [map app]. rewrite E. reflexivity.
    + exists [], (Some f). split; [reflexivity | intros _; exists f; auto].
    + exists [f], None. split; [reflexivity | intros H; exfalso; apply H; reflexivity].
    + exists [], (Some f). split; [reflexivity | intros _; exists f; auto].
    + exists [], (Some f). split; [reflexivity | intros _; exists f; auto].
Qed.

Lemma principal_loop_accounted : forall ops st tr i atts,
  run init ops = (st, tr) -> busy (allocs st i) = false -> no_leaking_attempt atts ->
  principal_accounted st i atts.
Proof.
  intros ops st tr i atts H Hb HR. unfold principal_accounted.
  destruct (loop_ops_shape i atts) as (fails & final & E & S). rewrite E.
  destruct (run st (principal_update i fails final)) as [st' ev] eqn:R.
  destruct (principal_update_events _ _ _ _ _ _ Hb R) as [_ Hh].
  intros s Hin. rewrite Hh in Hin. apply in_app_or in Hin. destruct Hin as [Hin|Hin]; [left; exact Hin|].
  right. destruct final as [f|]; [|destruct Hin].
  destruct Hin as [<-|[]]. split; [reflexivity|].
  destruct S as (f' & [S | [S | S]]); [discriminate | | | ]; unfold kept_accounted, no_leaking_attempt in *; rewrite S in *; auto.
Qed.

(* the trace of the call extends the trace of the op list: all the allocator theorems apply to it *)
Lemma principal_loop_is_run : forall ops st tr i atts st' ev,
  run init ops = (st, tr) -> run st (loop_ops i atts) = (st', ev) ->
  run init (ops ++ loop_ops i atts) = (st', tr ++ ev).
Proof. intros. rewrite run_app, H, H0. reflexivity. Qed.
