(* C07 correspondence: op lists the Go harness (harness/db/verif_c07_test.go) ran on real
   sequenceAllocators sharing one rosmar datastore are re-run here on the model; after every op the
   model must have produced exactly what the implementation did: the number returned / error, the
   unused-sequence documents written by that op (decoded from their keys), the value of the shared
   counter, and whether the call is parked between its read of the counter and its increment.  At the
   end the list of unused-sequence documents found in the bucket must be the model's. *)
From SG Require Export Base.Prelude Base.Bytes C07.Allocator C07.Cluster.
Open Scope N_scope.

Record obs := Obs {
  o_hand : option N;            (* number returned by the call *)
  o_err : bool;                 (* the call returned an error *)
  o_ranges : list (N * N);      (* _sync:unusedSeqs:lo:hi documents written during the op *)
  o_ones : list N;              (* _sync:unusedSeq:s documents written during the op *)
  o_counter : N;                (* _sync:seq after the op *)
  o_parked : bool               (* nextSequenceGreaterThan stopped at getSequence, mutex held *)
}.

(* cluster model (Cluster.v): what the harness of harness/db/verif_c07_cluster_test.go observes after every
   step of its explicit-turn scheduler *)
Record xobs := XObs {
  xo_hand : option N;
  xo_err : bool;
  xo_ranges : list (N * N);
  xo_ones : list N;
  xo_counter : N;
  xo_park : N;                  (* where the call of the acting node is suspended: 0 not suspended, 1 after
                                   getSequence, 2 before the Get of _fixSyncSeqRollback, 3 before its Incr,
                                   4 before the Incr that follows it in nextSequenceGreaterThan *)
  xo_last : N;                  (* fields of the acting allocator after the step *)
  xo_max : N;
  xo_batch : N
}.

Inductive case :=
| CRun (steps : list (op * obs)) (docs_ranges : list (N * N)) (docs_ones : list N)
| XRun (steps : list (xop * xobs)) (docs_ranges : list (N * N)) (docs_ones : list N).

Definition hand_of (ev : list event) : option N :=
  match flat_map (fun e => match e with EHand _ s _ => [s] | _ => [] end) ev with
  | [s] => Some s
  | _ => None
  end.
Definition hands_count (ev : list event) : nat :=
  length (flat_map (fun e => match e with EHand _ s _ => [s] | _ => [] end) ev).
Definition err_of (ev : list event) : bool :=
  existsb (fun e => match e with EErr _ => true | _ => false end) ev.
Definition skip_of (ev : list event) : bool :=
  existsb (fun e => match e with ESkip _ => true | _ => false end) ev.
Definition ranges_of (ev : list event) : list (N * N) :=
  flat_map (fun e => match e with ERange lo hi => [(lo, hi)] | _ => [] end) ev.
Definition ones_of (ev : list event) : list N :=
  flat_map (fun e => match e with EOne s => [s] | _ => [] end) ev.

Definition pair_eqb (a b : N * N) : bool := (fst a =? fst b) && (snd a =? snd b).

Definition obs_matches (st' : state) (o : op) (ev : list event) (ob : obs) : bool :=
  negb (skip_of ev) &&
  (Nat.leb (hands_count ev) 1) &&
  option_eqb N.eqb (hand_of ev) (o_hand ob) &&
  Bool.eqb (err_of ev) (o_err ob) &&
  list_eqb pair_eqb (ranges_of ev) (o_ranges ob) &&
  list_eqb N.eqb (ones_of ev) (o_ones ob) &&
  (counter st' =? o_counter ob) &&
  Bool.eqb (match o with EnvIncr _ => false | _ => is_pending (allocs st' (actor o)) end) (o_parked ob).

Fixpoint check_steps (st : state) (l : list (op * obs)) (acc : list event) : bool * list event :=
  match l with
  | [] => (true, acc)
  | (o, ob) :: r =>
      let '(st', ev) := step st o in
      if obs_matches st' o ev ob then check_steps st' r (acc ++ ev) else (false, acc)
  end.

Definition park_code (p : pcs) : N :=
  match p with PIdle => 0 | PGt _ _ => 1 | PFixCas _ _ => 2 | PFixIncr _ => 3 | PGtFixed _ _ => 4 end.

Definition xobs_matches (st' : cluster) (o : xop) (ev : list event) (ob : xobs) : bool :=
  negb (skip_of ev) &&
  (Nat.leb (hands_count ev) 1) &&
  option_eqb N.eqb (hand_of ev) (xo_hand ob) &&
  Bool.eqb (err_of ev) (xo_err ob) &&
  list_eqb pair_eqb (ranges_of ev) (xo_ranges ob) &&
  list_eqb N.eqb (ones_of ev) (xo_ones ob) &&
  (c_counter st' =? xo_counter ob) &&
  match o with
  | XEnvIncr _ | XRollback _ => true
  | _ => let a := c_nodes st' (xactor o) in
         (park_code (n_pc a) =? xo_park ob) && (n_last a =? xo_last ob) && (n_max a =? xo_max ob) &&
         (n_batch a =? xo_batch ob)
  end.

Fixpoint xcheck_steps (st : cluster) (l : list (xop * xobs)) (acc : list event) : bool * list event :=
  match l with
  | [] => (true, acc)
  | (o, ob) :: r =>
      let '(st', ev) := xstep st o in
      if xobs_matches st' o ev ob then xcheck_steps st' r (acc ++ ev) else (false, acc)
  end.

Definition check (c : case) : bool :=
  match c with
  | CRun steps dr d1 =>
      let '(ok, tr) := check_steps init steps [] in
      ok && list_eqb pair_eqb (ranges_of tr) dr && list_eqb N.eqb (ones_of tr) d1
  | XRun steps dr d1 =>
      let '(ok, tr) := xcheck_steps xinit steps [] in
      ok && list_eqb pair_eqb (ranges_of tr) dr && list_eqb N.eqb (ones_of tr) d1
  end.

Definition mismatches (cs : list case) : list N := failing check cs.

(* short constructors for the generated files *)
Definition XB (h : option N) (e : bool) (rs : list (N * N)) (os : list N) (c p l m b : N) : xobs := XObs h e rs os c p l m b.
Definition OB (h : option N) (e : bool) (rs : list (N * N)) (os : list N) (c : N) (p : bool) : obs := Obs h e rs os c p.
