(* C07 -- cluster model with rollback, uniqueness part: local facts [goodU] about ANY step in ANY state with a
   sane window (used by ClusterRollback.v). *)
From SG Require Import Base.Prelude C07.Allocator C07.AllocatorInv C07.Cluster C07.ClusterDefs.
Open Scope N_scope.

Definition wfU (hw : N) (a : node) : Prop :=
  n_last a <= n_max a /\ n_max a <= hw /\ 1 <= n_batch a /\ n_batch a <= 10 /\
  (if n_stopped a then n_last a = n_max a else True).

Lemma wfU_mono hw hw' a : hw <= hw' -> wfU hw a -> wfU hw' a.
Proof. unfold wfU. intros Hc (H1 & H2 & H3 & H4 & H5). repeat split; try lia; auto. Qed.

(* local facts about ANY step in ANY state with a sane window *)
Definition goodU (c hw : N) (a : node) (c' : N) (a' : node) (ev : list event) : Prop :=
  wfU (N.max hw c') a' /\
  Forall (fun e => forall s, covers e s -> heldN a s \/ (c < s /\ s <= c')) ev /\
  (forall s, heldN a' s -> heldN a s \/ (c < s /\ s <= c')) /\
  excl ev /\
  (* what a step of a node claims it no longer holds (the foreign increment is attributed to node 0, whose
     window it does not touch: it can only collide with it when the counter was set back) *)
  Forall (fun e => forall s, covers e s -> heldN a' s -> heldN a s /\ c < s /\ s <= c') ev /\
  incl (singles ev) (handed ev) /\ NoDup (singles ev) /\
  Forall nonempty ev.

Ltac uproj_goal :=
  cbv beta iota zeta delta [n_last n_max n_batch n_once n_pc n_stopped n_crashed fst snd
                             heldN wfU covers covered excl hsorted hand_lt nonempty handed singles flat_map app
                             incl].

Ltac ufinish :=
  unfold goodU; uproj_goal;
  repeat match goal with |- _ /\ _ => split end;
  forall_list; uproj_goal;
  unfold target_of, maxU64 in *; intros; break_ifs;
  try solve [ intros; lia
            | intros; intuition lia
            | intros; try discriminate; intuition (try discriminate; try lia)
            | constructor
            | repeat constructor; cbn; intuition (try discriminate; try lia)
            | intros ? HH; cbn in HH; intuition (subst; cbn; auto) ].

Lemma xstep_node_goodU c hw a o c' a' ev :
  wfU hw a -> xstep_node c a o = (c', a', ev) -> goodU c hw a c' a' ev.
Proof.
  intros W H.
  destruct a as [l m b ro p stp cr].
  unfold wfU in W; xproj_red W.
  destruct W as (W1 & W2 & W3 & W4 & W5).
  unfold maxBatchSize, idleBatchSize, sequenceBatchMultiplier, MaxSequencesToRelease, syncSeqCorrectionValue in *.
  destruct o; cbn [xstep_node xactor] in H;
    unfold xgt, xturn, gt_finish, xnext, xrelease_unused, release_range,
           maxBatchSize, idleBatchSize, sequenceBatchMultiplier, MaxSequencesToRelease, syncSeqCorrectionValue in H;
    xproj_red H;
    destruct stp; destruct cr; destruct p as [|px pr|[pfl pd|pkx] pc|[pfl pd|pkx]|px pr]; xproj_red H;
    repeat (break_ifs; xproj_red H);
    inv H; unfold target_of, maxU64 in *; break_ifs;
    try solve [ufinish].
Qed.

