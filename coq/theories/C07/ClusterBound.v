(* C07 -- cluster model: the bound MaxSequencesToRelease of nextSequenceGreaterThan.  The step that returns
   ErrMaxSequenceReleasedExceeded changes nothing (window, batch size, counter) and writes no
   unused-sequence document; over the whole call the only effect is the release of the window the node
   held (by _releaseCurrentBatch, before the counter is read). *)
From SG Require Import Base.Prelude C07.Allocator C07.AllocatorInv C07.Cluster C07.ClusterInv C07.ClusterProofs.
Open Scope N_scope.

Definition same_window (a a' : node) : Prop :=
  n_last a' = n_last a /\ n_max a' = n_max a /\ n_batch a' = n_batch a /\ n_once a' = n_once a /\
  n_stopped a' = n_stopped a /\ n_crashed a' = n_crashed a.

Lemma err_node_step c a o c' a' ev i :
  xstep_node c a o = (c', a', ev) -> In (EErr i) ev ->
  ev = [EErr i] /\ i = xactor o /\ same_window a a' /\ n_pc a' = PIdle /\
  (exists f, o = XTurn i f) /\
  ((exists x r, n_pc a = PGt x r /\ n_last a <= r /\ r < target_of x /\ MaxSequencesToRelease < x - r /\ c' = c) \/
   (exists x r, n_pc a = PGtFixed x r /\ r < target_of x /\ MaxSequencesToRelease < x - r /\ c' = c) \/
   (exists x, n_pc a = PFixIncr (KGt x) /\ c' = c + n_batch a /\ c' < target_of x /\ MaxSequencesToRelease < x - c')).
Proof.
  intros H Hin.
  destruct a as [l m b ro p stp cr].
  destruct o; cbn [xstep_node xactor] in H;
    unfold xgt, xturn, gt_finish, xnext, xrelease_unused, release_range in H;
    xproj_red H;
    destruct stp; destruct cr; destruct p as [|px pr|[pfl pd|pkx] pc|[pfl pd|pkx]|px pr]; xproj_red H;
    repeat (break_ifs; xproj_red H);
    inv H; cbn [In app] in Hin;
    repeat match goal with
           | H : _ \/ _ |- _ => destruct H
           | H : In _ (_ ++ _) |- _ => apply in_app_or in H
           | H : In _ [] |- _ => destruct H
           | H : In _ (_ :: _) |- _ => destruct H
           | H : False |- _ => destruct H
           end; try discriminate;
    match goal with H : EErr _ = EErr _ |- _ => inv H end;
    (split; [reflexivity|]); (split; [reflexivity|]);
    (split; [unfold same_window; cbn; repeat split; reflexivity|]);
    (split; [reflexivity|]); (split; [eexists; reflexivity|]); cbn [n_pc n_last n_batch].
  all: try (left; do 2 eexists; split; [reflexivity|]; repeat split; try reflexivity; lia).
  all: try (right; left; do 2 eexists; split; [reflexivity|]; repeat split; try reflexivity; lia).
  all: try (right; right; eexists; split; [reflexivity|]; repeat split; try reflexivity; lia).
Qed.

(* in any state: the step that returns the error leaves every window, batch size and flag as it was,
   writes no unused-sequence document and hands out nothing *)
Lemma err_step_unchanged st o st' ev i :
  xstep st o = (st', ev) -> In (EErr i) ev ->
  ev = [EErr i] /\ i = xactor o /\
  (forall j, same_window (c_nodes st j) (c_nodes st' j)) /\
  n_pc (c_nodes st' i) = PIdle /\
  (forall j, j <> i -> c_nodes st' j = c_nodes st j).
Proof.
  intros H Hin. rewrite xstep_eq in H.
  destruct (xstep_node (c_counter st) (Nd st (xactor o)) o) as [[c1 a1] ev1] eqn:E. inv H.
  destruct (err_node_step _ _ _ _ _ _ _ E Hin) as (He & Hi & Hw & Hp & _ & _). subst i.
  split; [exact He|]. split; [reflexivity|]. cbn [c_nodes]. unfold nupd.
  split; [|split].
  - intros j. destruct (j =? xactor o) eqn:Ej.
    + assert (j = xactor o) by lia. subst j. exact Hw.
    + unfold same_window. repeat split; reflexivity.
  - rewrite N.eqb_refl. exact Hp.
  - intros j Hj. destruct (j =? xactor o) eqn:Ej; [lia | reflexivity].
Qed.

(* ... and, while the counter document only grows, the counter as well; the error is returned exactly when
   the floor is more than MaxSequencesToRelease above the value of the counter the call read *)
Lemma err_step_counter ops st tr o st' ev i :
  no_rollback ops -> xrun xinit ops = (st, tr) -> xstep st o = (st', ev) -> In (EErr i) ev ->
  c_counter st' = c_counter st /\
  exists x r f, o = XTurn i f /\ n_pc (c_nodes st i) = PGt x r /\ r <= c_counter st /\
                r < target_of x /\ MaxSequencesToRelease < x - r.
Proof.
  intros NR H E Hin.
  destruct (no_false_rollback_detection _ _ _ i NR H) as (_ & _ & _ & _ & _ & P).
  rewrite xstep_eq in E.
  destruct (xstep_node (c_counter st) (Nd st (xactor o)) o) as [[c1 a1] ev1] eqn:E1. inv E.
  destruct (err_node_step _ _ _ _ _ _ _ E1 Hin) as (_ & Hi & _ & _ & (f & ->) & K). cbn [xactor] in *.
  unfold Nd in K.
  destruct K as [(x & r & Hp & K1 & K2 & K3 & ->) | [(x & r & Hp & _) | (x & Hp & _)]]; rewrite Hp in P;
    [| destruct P | destruct P].
  destruct P as [P1 P2].
  split; [reflexivity|]. exists x, r, f. repeat split; auto.
Qed.

Lemma turn_err_iff c a i f x r :
  dead a = false -> n_pc a = PGt x r -> n_last a <= r ->
  (In (EErr i) (snd (xstep_node c a (XTurn i f))) <-> (r < target_of x /\ MaxSequencesToRelease < x - r)).
Proof.
  intros Hd Hp Hr. destruct a as [l m b ro p stp cr]. cbn [n_pc n_last] in *. subst p.
  cbn [xstep_node]. rewrite Hd.
  unfold xturn, gt_finish, xnext, release_range, hand_events, set_pc.
  cbn [n_pc n_last n_max n_batch n_once n_stopped n_crashed].
  break_ifs; cbn [snd In app]; split; intros HH; try lia;
    repeat match goal with
           | H : _ \/ _ |- _ => destruct H
           | H : False |- _ => destruct H
           end; try discriminate; try lia; auto.
Qed.

(* the whole call, nothing in between: nextSequenceGreaterThan(x) with x more than MaxSequencesToRelease
   above the counter on a node whose window is below the counter *)
Lemma gt_err_node c a i x f f' :
  xbusy a = false -> n_last a <= n_max a -> n_max a <= c -> x < maxU64 -> MaxSequencesToRelease < x - c ->
  exists a2, xstep_node c a (XGT i x f) =
               (c, set_pc (mkN (n_max a) (n_max a) (n_batch a) (n_once a) PIdle (n_stopped a) (n_crashed a)) (PGt x c),
                if n_last a <? n_max a then release_range (n_last a + 1) (n_max a) else []) /\
             xstep_node c (set_pc (mkN (n_max a) (n_max a) (n_batch a) (n_once a) PIdle (n_stopped a) (n_crashed a)) (PGt x c))
                        (XTurn i f') = (c, a2, [EErr i]) /\
             a2 = mkN (n_max a) (n_max a) (n_batch a) (n_once a) PIdle (n_stopped a) (n_crashed a).
Proof.
  intros Hb Hlm Hmc Hx Hgap.
  destruct a as [l m b ro p stp cr].
  unfold xbusy, dead, pc_idle in Hb. cbn [n_stopped n_crashed n_pc n_last n_max n_batch n_once] in *.
  destruct stp; destruct cr; try discriminate Hb. destruct p; try discriminate Hb.
  unfold MaxSequencesToRelease, maxU64 in *.
  eexists. split; [|split; [|reflexivity]].
  - cbn [xstep_node]. unfold xbusy, dead, pc_idle. cbn [n_stopped n_crashed n_pc orb negb].
    unfold xgt, target_of, maxU64, set_pc. cbn [n_last n_max n_batch n_once n_stopped n_crashed n_pc].
    destruct (x =? 18446744073709551615) eqn:Ex; [lia|].
    destruct (x + 1 <=? l) eqn:E1; [lia|].
    destruct (x + 1 <=? m) eqn:E2; [lia|].
    destruct (l <? m) eqn:E3; [reflexivity|].
    assert (l = m) by lia. subst l. reflexivity.
  - cbn [xstep_node]. unfold dead, set_pc. cbn [n_stopped n_crashed orb n_last n_max n_batch n_once n_pc].
    unfold xturn. cbn [n_pc n_last].
    destruct (c <? m) eqn:E4; [lia|].
    unfold gt_finish, target_of, maxU64, MaxSequencesToRelease, set_pc.
    cbn [n_last n_max n_batch n_once n_stopped n_crashed n_pc].
    destruct (x =? 18446744073709551615) eqn:Ex; [lia|].
    destruct (x + 1 <=? c) eqn:E5; [lia|].
    destruct (10000000 <? x - c) eqn:E6; [reflexivity|lia].
Qed.

Lemma gt_call_error st i x f f' :
  xbusy (c_nodes st i) = false -> n_last (c_nodes st i) <= n_max (c_nodes st i) -> n_max (c_nodes st i) <= c_counter st ->
  x < maxU64 -> MaxSequencesToRelease < x - c_counter st ->
  exists st', xrun st [XGT i x f; XTurn i f'] =
                (st', (if n_last (c_nodes st i) <? n_max (c_nodes st i)
                       then release_range (n_last (c_nodes st i) + 1) (n_max (c_nodes st i)) else []) ++ [EErr i]) /\
              c_counter st' = c_counter st /\
              n_last (c_nodes st' i) = n_max (c_nodes st i) /\ n_max (c_nodes st' i) = n_max (c_nodes st i) /\
              n_batch (c_nodes st' i) = n_batch (c_nodes st i) /\ n_once (c_nodes st' i) = n_once (c_nodes st i) /\
              n_pc (c_nodes st' i) = PIdle /\
              (forall j, j <> i -> c_nodes st' j = c_nodes st j).
Proof.
  intros Hb Hlm Hmc Hx Hgap.
  destruct (gt_err_node (c_counter st) (c_nodes st i) i x f f' Hb Hlm Hmc Hx Hgap) as (a2 & E1 & E2 & Ea).
  cbn [xrun]. rewrite (xstep_eq st). cbn [xactor]. unfold Nd at 1. rewrite E1.
  rewrite xstep_eq. cbn [xactor c_counter c_nodes]. unfold Nd. cbn [c_nodes]. unfold nupd at 1. rewrite N.eqb_refl.
  rewrite E2. eexists. split; [rewrite app_nil_r; reflexivity|].
  cbn [c_counter c_nodes]. unfold nupd. rewrite N.eqb_refl. subst a2. cbn [n_last n_max n_batch n_once n_pc].
  repeat split; auto.
  intros j Hj. destruct (j =? i) eqn:Ej; [lia|reflexivity].
Qed.
