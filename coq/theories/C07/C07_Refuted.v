(* C07 -- statement violated by the faithful model of the code BEFORE the repair of UpdatePrincipal (not
   part of the property obligations; kept for the record): UpdatePrincipal did not account for the number
   of an attempt whose Save failed with anything but a CAS mismatch (db/users.go: `err =
   authenticator.Save(princ)` ... `else { return replaced, princ, err }`).  Witness: one attempt,
   refused by Save (an invalid role name in admin_roles, or an invalid channel name, passes
   UpdatePrincipal's own checks and is only refused by validate() inside Save): number 1 is obtained, is
   not on any stored principal and is never published as unused.  The harness monitor
   principal_update_accounted reproduces it on the real code (signature principal-save-rejected) for trees
   without the repair; repaired in /repo by commit 142a309. *)
From SG Require Import Base.Prelude C07.Allocator C07.AllocatorInv C07.Principal C07.Cluster C07.ClusterInv C07.ClusterProofs C07.ClusterRollback C07.ClusterSelf.
Open Scope N_scope.

Definition principal_update_unrepaired_statement : Prop :=
  forall atts, principal_accounted init 0 atts.

Theorem C07_principal_failed_save_leaks_refuted :
  exists atts, ~ principal_accounted init 0 atts.
Proof.
  exists [FailedLeaked false]. vm_compute. intros H.
  destruct (H 1%N (or_introl eq_refl)) as [[] | [_ []]].
Qed.

Corollary C07_principal_update_unrepaired_statement_refuted : ~ principal_update_unrepaired_statement.
Proof.
  intros H. destruct C07_principal_failed_save_leaks_refuted as (atts & Hn). exact (Hn (H atts)).
Qed.
Print Assumptions C07_principal_update_unrepaired_statement_refuted.

(* ================= rollback of the counter document (cluster model, Cluster.v) =================

   The rollback detection of the allocator compares the value an Incr returned with the node's OWN
   window only (_reserveSequenceBatch: max < s.max + batch; nextSequenceGreaterThan: syncSeq < s.last).
   What it cannot guarantee is refuted here; what it does guarantee is in C07_Properties.v
   (theorems C07_rollback_...).  Every witness below is replayed on the real allocators by the corpus of
   harness/db/verif_c07_cluster_test.go (the model and the code agree step by step).  These are
   statements about an environment the property text does not cover (the counter going back), recorded
   so that nobody reads more into _fixSyncSeqRollback than it delivers. *)

Ltac all_nodes i :=
  destruct i as [|i]; [|destruct i as [i|i|]; [destruct i as [i|i|] | destruct i as [i|i|] |]]; vm_compute; reflexivity.
Ltac quiet_tac :=
  cbn [run_quiet]; repeat split; try (intros HH; discriminate HH);
  try (let i := fresh "i" in intros _ i _; all_nodes i).

(* 1. Several nodes: a rollback that stays at or above a node's own max is invisible to that node, which
      then hands out numbers another node handed out before.  Quiet rollback, two nodes, five calls:
      node 0 gets 1; node 1 gets 2 and 3; the counter goes back from 3 to 1; node 0's Incr returns 2 =
      s.max + batch, no rollback detected, node 0 hands out 2 again. *)
Definition rollback_quiet_unique_statement : Prop :=
  forall ops st tr, run_quiet xinit ops -> xrun xinit ops = (st, tr) -> NoDup (handed tr).

Definition rollback_witness_undetected : list xop :=
  [XNext 0 false; XNext 1 false; XNext 1 false; XRollback 1; XNext 0 false].

Theorem C07_rollback_undetected_duplicate_refuted :
  run_quiet xinit rollback_witness_undetected /\
  handed (snd (xrun xinit rollback_witness_undetected)) = [1; 2; 3; 2] /\
  ~ rollback_quiet_unique_statement.
Proof.
  split; [unfold rollback_witness_undetected; quiet_tac|]. split; [vm_compute; reflexivity|].
  intros H.
  assert (Q : run_quiet xinit rollback_witness_undetected) by (unfold rollback_witness_undetected; quiet_tac).
  specialize (H rollback_witness_undetected _ _ Q (surjective_pairing _)).
  vm_compute in H. inversion H as [|? ? _ H2]; subst. inversion H2 as [|? ? H3 _]; subst.
  apply H3. right; left; reflexivity.
Qed.
Print Assumptions C07_rollback_undetected_duplicate_refuted.

(* 2. One node: the counter goes back AGAIN while _fixSyncSeqRollback is between its WriteCas and its Incr
      (not a quiet rollback): the Incr result is taken without a further test and the node hands out 1 a
      second time.  So the hypothesis "quiet" of C07_rollback_monotone / C07_single_node_rollback_unique
      cannot be dropped. *)
Definition rollback_single_unique_statement : Prop :=
  forall ops st tr, single_node 0 ops -> xrun xinit ops = (st, tr) -> NoDup (handed tr).

Definition rollback_witness_during_fix : list xop :=
  [XNext 0 false; XNext 0 false; XNext 0 false; XRollback 0; XNext 0 false; XTurn 0 true; XRollback 0; XTurn 0 true].

Theorem C07_rollback_during_fix_refuted :
  single_node 0 rollback_witness_during_fix /\
  handed (snd (xrun xinit rollback_witness_during_fix)) = [1; 2; 3; 1] /\
  ~ rollback_single_unique_statement.
Proof.
  assert (S : single_node 0 rollback_witness_during_fix) by (repeat constructor).
  split; [exact S|]. split; [vm_compute; reflexivity|].
  intros H. specialize (H rollback_witness_during_fix _ _ S (surjective_pairing _)).
  vm_compute in H. inversion H as [|? ? H1 _]; subst. apply H1. right; right; left; reflexivity.
Qed.
Print Assumptions C07_rollback_during_fix_refuted.

(* 3. Accounting after a detected rollback: inside nextSequenceGreaterThan the batch that
      _fixSyncSeqRollback reserves with its own _incrementSequence(batch) only serves as the new value of
      syncSeq -- s.max / s.last are not set from it -- so those numbers are neither handed out nor
      released (in _reserveSequenceBatch the same batch becomes the node's window).  One node, quiet
      rollback: number 1 handed out; counter back to 0; nextSequenceGreaterThan(5): counter corrected to
      501, the fix reserves (501,502], then _nextSequence reserves (502,504] and returns 503; after Stop
      504 is released; 502 stays unaccounted (and so do 2..501, the correction gap). *)
Definition rollback_witness_gt_fix : list xop :=
  [XNext 0 false; XRollback 0; XGT 0 5 false; XTurn 0 true; XTurn 0 true; XTurn 0 true; XTurn 0 true; XStop 0].

Theorem C07_rollback_gt_fix_leaks_batch :
  run_quiet xinit rollback_witness_gt_fix /\
  let '(st, tr) := xrun xinit rollback_witness_gt_fix in
  tr = [EHand 0 1 None; EHand 0 503 (Some 5); ERange 504 504] /\ c_counter st = 504 /\
  n_stopped (c_nodes st 0) = true /\
  (forall e, In e tr -> ~ covers e 502) /\ (forall i, ~ xheld st i 502).
Proof.
  split; [unfold rollback_witness_gt_fix; quiet_tac|].
  vm_compute. repeat split; try reflexivity.
  - intros e [<-|[<-|[<-|[]]]] HH; cbn in HH; try discriminate HH.
    destruct HH as [H1 _]. apply H1. reflexivity.
  - intros i [Ha Hb]. destruct i as [|i]; [|destruct i as [i|i|]; [destruct i as [i|i|] | destruct i as [i|i|] |]];
      vm_compute in Ha, Hb; try discriminate; try (destruct Hb; reflexivity); try (apply Hb; reflexivity).
Qed.
Print Assumptions C07_rollback_gt_fix_leaks_batch.
