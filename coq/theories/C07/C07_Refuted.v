(* C07 -- statement violated by the faithful model of the code BEFORE the repair of UpdatePrincipal (not
   part of the property obligations; kept for the record): UpdatePrincipal did not account for the number
   of an attempt whose Save failed with anything but a CAS mismatch (db/users.go: `err =
   authenticator.Save(princ)` ... `else { return replaced, princ, err }`).  Witness: one attempt,
   refused by Save (an invalid role name in admin_roles, or an invalid channel name, passes
   UpdatePrincipal's own checks and is only refused by validate() inside Save): number 1 is obtained, is
   not on any stored principal and is never published as unused.  The harness monitor
   principal_update_accounted reproduces it on the real code (signature principal-save-rejected) for trees
   without the repair; repaired in /repo by commit 142a309. *)
From SG Require Import Base.Prelude C07.Allocator C07.Principal.
Open Scope N_scope.

Definition principal_update_unrepaired_statement : Prop :=
  forall atts, principal_accounted init 0 atts.

Theorem C07_principal_failed_save_leaks_refuted :
  exists atts, ~ principal_accounted init 0 atts.
Proof.
  exists [FailedLeaked false]. vm_compute. intros H.
  destruct (H 1%N (or_introl eq_refl)) as [[] | [_ []]].
Qed.

Corollary C07_principal_update_unrepaired_statement_refuted : ~ principal_update_unrepaired_statement.
Proof.
  intros H. destruct C07_principal_failed_save_leaks_refuted as (atts & Hn). exact (Hn (H atts)).
Qed.
Print Assumptions C07_principal_update_unrepaired_statement_refuted.
