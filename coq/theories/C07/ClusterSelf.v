(* C07 -- cluster model with QUIET rollbacks of the counter (it goes back only while no live node is in the
   middle of a call): a node never collides with ITSELF.  Whatever the counter does between the calls,
   however many nodes there are, every number a step of node i disposes of (hands out, releases) lies
   in (last_i before the step, last_i after the step], and last_i never decreases: the numbers node i
   disposes of over a whole run are pairwise distinct.  Duplicates after a rollback are always between
   DIFFERENT nodes -- and on a single-node deployment there are none ([single_node_rollback_unique]). *)
From SG Require Import Base.Prelude C07.Allocator C07.AllocatorInv C07.AllocatorProofs C07.Cluster C07.ClusterInv
  C07.ClusterProofs C07.ClusterRollback.
Open Scope N_scope.

Definition node_op (o : xop) : bool := match o with XEnvIncr _ | XRollback _ => false | _ => true end.

Definition goodS (a a' : node) (ev : list event) : Prop :=
  Forall (fun e => forall s, covers e s -> n_last a < s /\ s <= n_last a') ev /\ excl ev.

Ltac sproj_goal :=
  cbv beta iota zeta delta [n_last n_max n_batch n_once n_pc n_stopped n_crashed fst snd covers excl].

Ltac sfinish :=
  unfold goodS; sproj_goal;
  repeat match goal with |- _ /\ _ => split end;
  forall_list; sproj_goal;
  unfold target_of, maxU64 in *; intros; break_ifs;
  try solve [ intros; lia
            | intros; intuition lia
            | intros; try discriminate; intuition (try discriminate; try lia)
            | constructor
            | repeat constructor; cbn; intuition (try discriminate; try lia) ].

Lemma xstep_node_goodS c a o c' a' ev :
  JN c a -> node_op o = true -> xstep_node c a o = (c', a', ev) -> goodS a a' ev.
Proof.
  intros W NO H.
  destruct a as [l m b ro p stp cr].
  unfold JN, Jlive, dead, floor_ok in W; xproj_red W.
  unfold maxBatchSize, idleBatchSize, sequenceBatchMultiplier, MaxSequencesToRelease, syncSeqCorrectionValue in *.
  destruct o; try discriminate NO; cbn [xstep_node xactor] in H;
    unfold xgt, xturn, gt_finish, xnext, xrelease_unused, release_range,
           maxBatchSize, idleBatchSize, sequenceBatchMultiplier, MaxSequencesToRelease, syncSeqCorrectionValue in H;
    xproj_red H;
    destruct stp; destruct cr; destruct p as [|px pr|[[pfl|] pd|pkx] pc|[[pfl|] pd|pkx]|px pr]; xproj_red H;
    repeat (break_ifs; xproj_red H);
    inv H; unfold target_of, maxU64 in *; break_ifs;
    try solve [sfinish];
    (destruct W as [W | (W1 & W2 & W3 & W4)]; [discriminate W|]);
    try solve [sfinish].
Qed.

(* the events of the steps of node i *)
Fixpoint xrun_of (i : N) (st : cluster) (ops : list xop) : list event :=
  match ops with
  | [] => []
  | o :: r =>
      let '(st1, e1) := xstep st o in
      (if node_op o && (xactor o =? i) then e1 else []) ++ xrun_of i st1 r
  end.

Lemma self_inv : forall ops st tr i pre,
  MInv st tr -> run_quiet st ops ->
  excl pre -> (forall e s, In e pre -> covers e s -> s <= n_last (Nd st i)) ->
  excl (pre ++ xrun_of i st ops).
Proof.
  induction ops as [|o r IH]; intros st tr i pre I Q Hx Hb; cbn [xrun_of run_quiet] in *.
  - rewrite app_nil_r. exact Hx.
  - destruct Q as [Q1 Q2].
    destruct (xstep st o) as [st1 e1] eqn:E1. cbn [fst] in Q2.
    pose proof (mstep_inv _ _ _ _ _ I Q1 E1) as I1.
    destruct (node_op o && (xactor o =? i)) eqn:Sel.
    + (* a step of node i *)
      apply andb_true_iff in Sel. destruct Sel as [NO Ei]. assert (xactor o = i) by lia. subst i.
      assert (NR : is_rollback o = false) by (destruct o; try discriminate NO; reflexivity).
      pose proof E1 as E1'. rewrite xstep_eq in E1'.
      destruct (xstep_node (c_counter st) (Nd st (xactor o)) o) as [[c1 a1] ev1] eqn:E. inv E1'.
      pose proof (xstep_node_goodS _ _ _ _ _ _ (mi_j _ _ I (xactor o)) NO E) as [S1 S2].
      pose proof (xstep_node_goodM _ _ _ _ _ _ (mi_j _ _ I (xactor o)) NR E) as (_ & _ & G6 & _).
      rewrite Forall_forall in S1.
      rewrite app_assoc. eapply IH; eauto.
      * apply excl_app; auto. intros x1 x2 s H1 H2 Hc1 Hc2.
        pose proof (Hb x1 s H1 Hc1). pose proof (S1 x2 H2 s Hc2). lia.
      * intros e s Hin Hc. unfold Nd. cbn [c_nodes]. unfold nupd. rewrite N.eqb_refl.
        apply in_app_or in Hin. destruct Hin as [Hin | Hin].
        -- pose proof (Hb e s Hin Hc). lia.
        -- apply (S1 e Hin s Hc).
    + (* a step of somebody else: node i is untouched *)
      cbn [app]. eapply IH; eauto.
      assert (Same : c_nodes st1 i = c_nodes st i).
      { destruct (node_op o) eqn:NO.
        - eapply xstep_other; eauto. cbn in Sel. lia.
        - eapply xstep_env; [|exact E1]. destruct o; try discriminate NO; exact Logic.I. }
      intros e s Hin Hc. unfold Nd. rewrite Same. exact (Hb e s Hin Hc).
Qed.

Lemma rollback_no_self_duplicate : forall ops i, run_quiet xinit ops -> excl (xrun_of i xinit ops).
Proof.
  intros ops i Q. apply (self_inv ops xinit [] i [] MInv_init Q); [exact Logic.I | intros e s []].
Qed.

(* ---------- one node only ---------- *)

Definition single_node (i : N) (ops : list xop) : Prop :=
  Forall (fun o => match o with XEnvIncr k => k = 0 | XRollback _ => True | _ => xactor o = i end) ops.

Lemma xrun_of_single : forall ops i st st' tr, single_node i ops -> xrun st ops = (st', tr) -> xrun_of i st ops = tr.
Proof.
  induction ops as [|o r IH]; intros i st st' tr S H; cbn [xrun xrun_of] in *.
  - inv H. reflexivity.
  - inversion S as [|? ? So Sr]; subst.
    destruct (xstep st o) as [st1 e1] eqn:E1. destruct (xrun st1 r) as [st2 e2] eqn:E2. inv H.
    rewrite (IH _ _ _ _ Sr E2). f_equal.
    destruct o; cbn [node_op xactor andb] in *; try (subst; rewrite N.eqb_refl; reflexivity).
    + subst. rewrite xstep_eq in E1. cbn in E1. inv E1. reflexivity.
    + rewrite xstep_eq in E1. cbn in E1. inv E1. reflexivity.
Qed.

Lemma single_node_rollback_unique : forall ops i st tr,
  single_node i ops -> run_quiet xinit ops -> xrun xinit ops = (st, tr) ->
  (forall n m e1 e2 s, n <> m -> nth_error tr n = Some e1 -> nth_error tr m = Some e2 ->
                       covers e1 s -> covers e2 s -> False) /\
  NoDup (handed tr).
Proof.
  intros ops i st tr S Q H.
  pose proof (rollback_no_self_duplicate ops i Q) as X. rewrite (xrun_of_single _ _ _ _ _ S H) in X.
  split; [exact (excl_nth tr X) | exact (excl_handed_nodup tr X)].
Qed.
