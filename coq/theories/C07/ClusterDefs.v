(* C07 -- cluster model, world WITHOUT rollback of the counter: the local step condition [xgood] (what a
   step of one node may claim, that it loses nothing, that its own numbers increase, that
   nextSequenceGreaterThan releases what it skips).  Definitions and tactics only; the proof that every
   op except XRollback meets the condition is in ClusterInv.v.  Same structure as AllocatorInv.v; the
   event-level notions (excl, hsorted, covered, nonempty) are reused from there. *)
From SG Require Import Base.Prelude C07.Allocator C07.AllocatorInv C07.Cluster.
Open Scope N_scope.

Definition heldN (a : node) (s : N) : Prop := n_last a < s /\ s <= n_max a.

(* s lies in a range released by one of the events *)
Fixpoint rcov (ev : list event) (s : N) : Prop :=
  match ev with
  | [] => False
  | ERange lo hi :: r => (lo <= s /\ s <= hi) \/ rcov r s
  | _ :: r => rcov r s
  end.

Lemma rcov_iff ev s : rcov ev s <-> exists lo hi, In (ERange lo hi) ev /\ lo <= s /\ s <= hi.
Proof.
  induction ev as [|e r IH]; cbn [rcov In].
  - split; [tauto | intros (lo & hi & [] & _)].
  - destruct e; rewrite ?IH;
      try (split; [intros (lo' & hi' & Hi & Hc); exists lo', hi'; auto
                  | intros (lo' & hi' & [Hd | Hi] & Hc); [discriminate | exists lo', hi'; auto]]).
    split.
    + intros [Hc | (lo' & hi' & Hi & Hc)]; [exists lo, hi; auto | exists lo', hi'; auto].
    + intros (lo' & hi' & [Hd | Hi] & Hc); [inv Hd; left; exact Hc | right; exists lo', hi'; auto].
Qed.

(* no event of the list disposes of a number *)
Definition silent (ev : list event) : Prop :=
  Forall (fun e => match e with EHand _ _ _ | ERange _ _ | EOne _ => False | _ => True end) ev.

(* well-formedness of one node against the counter, in the world without rollback: the window is below
   the counter, and the program points of _fixSyncSeqRollback are not reached *)
Definition wfN (c : N) (a : node) : Prop :=
  n_last a <= n_max a /\ n_max a <= c /\ 1 <= n_batch a /\ n_batch a <= 10 /\
  match n_pc a with
  | PIdle => True
  | PGt x r => n_last a = n_max a /\ n_max a <= r /\ r <= c /\ n_max a < target_of x /\ n_stopped a = false
  | _ => False
  end /\
  (if n_stopped a then n_last a = n_max a /\ n_pc a = PIdle else True).

Lemma wfN_mono c c' a : c <= c' -> wfN c a -> wfN c' a.
Proof.
  unfold wfN. intros Hc (H1 & H2 & H3 & H4 & H5 & H6).
  repeat split; try lia; auto. destruct (n_pc a); auto. intuition lia.
Qed.

Definition xgood (c : N) (a : node) (i : N) (c' : N) (a' : node) (ev : list event) : Prop :=
  c <= c' /\
  wfN c' a' /\
  (* whatever is claimed or newly held comes from the own window or from the fresh part of the counter *)
  Forall (fun e => forall s, covers e s -> heldN a s \/ (c < s /\ s <= c')) ev /\
  (forall s, heldN a' s -> heldN a s \/ (c < s /\ s <= c')) /\
  (* claims are exclusive among themselves and with what is still held *)
  excl ev /\
  Forall (fun e => forall s, covers e s -> ~ heldN a' s) ev /\
  (* nothing is lost *)
  (forall s, heldN a s \/ (c < s /\ s <= c') -> covered ev s \/ heldN a' s) /\
  (* per-node monotonicity *)
  n_last a <= n_last a' /\
  Forall (fun e => match e with EHand j s _ => j = i /\ n_last a < s /\ s <= n_last a' | _ => True end) ev /\
  hsorted ev /\
  (* nextSequenceGreaterThan returns a number above its floor and releases, in the same step, every number
     below the result that the node held or that the step reserved *)
  Forall (fun e => match e with EHand _ s (Some x) => x < maxU64 -> x < s | _ => True end) ev /\
  Forall (fun e => match e with
                   | EHand _ s (Some _) => forall n, n < s -> heldN a n \/ (c < n /\ n <= c') -> rcov ev n
                   | _ => True end) ev /\
  (* a single-number release is for a number handed out in the same step *)
  incl (singles ev) (handed ev) /\ NoDup (singles ev) /\
  (* stopped and crashed nodes *)
  (n_stopped a = true -> n_stopped a' = true) /\
  (n_stopped a = true -> ev = [ESkip i] \/ handed ev = []) /\
  (n_crashed a = true -> n_crashed a' = true /\ n_last a' = n_last a /\ n_max a' = n_max a /\ silent ev) /\
  (* published ranges are never empty *)
  Forall nonempty ev.

Ltac xproj_red H :=
  cbv beta iota zeta delta [n_last n_max n_batch n_once n_pc n_stopped n_crashed fst snd set_pc set_nstopped
                             set_ncrashed set_nbatch pc_idle dead xbusy orb andb negb hand_events] in H.
Ltac xproj_goal :=
  cbv beta iota zeta delta [n_last n_max n_batch n_once n_pc n_stopped n_crashed fst snd
                             heldN wfN covers covered excl hsorted hand_lt nonempty handed singles flat_map app
                             incl rcov silent].

Ltac xfinish_good :=
  unfold xgood; xproj_goal;
  repeat match goal with |- _ /\ _ => split end;
  forall_list; xproj_goal;
  unfold target_of, maxU64 in *; intros; break_ifs;
  try solve [ intros; lia
            | intros; intuition lia
            | intros; try discriminate; intuition (try discriminate; try lia)
            | constructor
            | repeat constructor; cbn; intuition (try discriminate; try lia)
            | intros ? HH; cbn in HH; intuition (subst; cbn; auto) ].

