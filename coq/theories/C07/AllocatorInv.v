(* C07 -- the invariant of the allocator model and its preservation by every step.

   Structure: [good] is a LOCAL condition on one step of one allocator (what it may claim, that it
   loses nothing, that it keeps its own numbers increasing); [step_alloc_good] shows every op meets
   it; [frame] shows a good step preserves the global invariant [Inv] whatever the other allocators
   hold.  *)
From SG Require Import Base.Prelude C07.Allocator.
Open Scope N_scope.

Definition heldA (a : alloc) (s : N) : Prop := last a < s /\ s <= max a.

(* no two events of the list claim the same number *)
Fixpoint excl (tr : list event) : Prop :=
  match tr with
  | [] => True
  | e :: r => Forall (fun e' => forall s, covers e s -> ~ covers e' s) r /\ excl r
  end.

Definition hand_lt (e e' : event) : Prop :=
  match e, e' with
  | EHand i s1 _, EHand j s2 _ => i = j -> s1 < s2
  | _, _ => True
  end.

(* the numbers one allocator hands out increase along the trace *)
Fixpoint hsorted (tr : list event) : Prop :=
  match tr with
  | [] => True
  | e :: r => Forall (hand_lt e) r /\ hsorted r
  end.

Definition nonempty (e : event) : Prop :=
  match e with
  | ERange lo hi => lo <= hi
  | EForeign lo hi => lo <= hi
  | _ => True
  end.

Fixpoint covered (ev : list event) (s : N) : Prop :=
  match ev with
  | [] => False
  | e :: r => covers e s \/ covered r s
  end.

Lemma covered_iff ev s : covered ev s <-> exists e, In e ev /\ covers e s.
Proof.
  induction ev as [|e r IH]; cbn [covered In].
  - split; [tauto | intros (e & [] & _)].
  - rewrite IH. split.
    + intros [H | (e' & Hi & Hc)]; [exists e; auto | exists e'; auto].
    + intros (e' & [-> | Hi] & Hc); [left; auto | right; exists e'; auto].
Qed.

Lemma excl_app l1 l2 :
  excl l1 -> excl l2 ->
  (forall e1 e2 s, In e1 l1 -> In e2 l2 -> covers e1 s -> ~ covers e2 s) ->
  excl (l1 ++ l2).
Proof.
  induction l1 as [|e r IH]; cbn [excl app]; intros H1 H2 Hx; auto.
  destruct H1 as [Ha Hr]. split.
  - apply Forall_app. split; [exact Ha|].
    apply Forall_forall. intros e2 Hi s Hc. eapply Hx; eauto. left; reflexivity.
  - apply IH; auto. intros e1 e2 s Hi1 Hi2. eapply Hx; eauto. right; exact Hi1.
Qed.

Lemma hsorted_app l1 l2 :
  hsorted l1 -> hsorted l2 ->
  (forall e1 e2, In e1 l1 -> In e2 l2 -> hand_lt e1 e2) ->
  hsorted (l1 ++ l2).
Proof.
  induction l1 as [|e r IH]; cbn [hsorted app]; intros H1 H2 Hx; auto.
  destruct H1 as [Ha Hr]. split.
  - apply Forall_app. split; [exact Ha|].
    apply Forall_forall. intros e2 Hi. apply Hx; auto. left; reflexivity.
  - apply IH; auto. intros e1 e2 Hi1 Hi2. apply Hx; auto. right; exact Hi1.
Qed.

Lemma handed_app l1 l2 : handed (l1 ++ l2) = handed l1 ++ handed l2.
Proof. unfold handed. apply flat_map_app. Qed.
Lemma singles_app l1 l2 : singles (l1 ++ l2) = singles l1 ++ singles l2.
Proof. unfold singles. apply flat_map_app. Qed.

Lemma in_handed tr s : In s (handed tr) <-> exists i f, In (EHand i s f) tr.
Proof.
  unfold handed. rewrite in_flat_map. split.
  - intros (e & Hi & Hs). destruct e; cbn in Hs; try tauto. destruct Hs as [<-|[]]. eauto.
  - intros (i & f & Hi). exists (EHand i s f). split; auto. left; reflexivity.
Qed.
Lemma in_singles tr s : In s (singles tr) <-> In (EOne s) tr.
Proof.
  unfold singles. rewrite in_flat_map. split.
  - intros (e & Hi & Hs). destruct e; cbn in Hs; try tauto. destruct Hs as [<-|[]]. auto.
  - intros Hi. exists (EOne s). split; auto. left; reflexivity.
Qed.

(* well-formedness of one allocator against the counter *)
Definition wfA (c : N) (a : alloc) : Prop :=
  last a <= max a /\ max a <= c /\ 1 <= batch a /\ batch a <= 10 /\
  match pend a with
  | Some x => last a = max a /\ max a <= pendR a /\ pendR a <= c /\ max a < target_of x /\ stopped a = false
  | None => True
  end /\
  (if stopped a then last a = max a else True).

Lemma wfA_mono c c' a : c <= c' -> wfA c a -> wfA c' a.
Proof.
  unfold wfA. intros Hc (H1 & H2 & H3 & H4 & H5 & H6).
  repeat split; try lia; auto. destruct (pend a); auto. intuition lia.
Qed.

(* the local condition on a step of allocator i: counter c -> c', state a -> a', events ev *)
Definition good (c : N) (a : alloc) (i : N) (c' : N) (a' : alloc) (ev : list event) : Prop :=
  c <= c' /\
  wfA c' a' /\
  (* whatever is claimed or newly held comes from the own batch or from the fresh part of the counter *)
  Forall (fun e => forall s, covers e s -> heldA a s \/ (c < s /\ s <= c')) ev /\
  (forall s, heldA a' s -> heldA a s \/ (c < s /\ s <= c')) /\
  (* claims are exclusive among themselves and with what is still held *)
  excl ev /\
  Forall (fun e => forall s, covers e s -> ~ heldA a' s) ev /\
  (* nothing is lost *)
  (forall s, heldA a s \/ (c < s /\ s <= c') -> covered ev s \/ heldA a' s) /\
  (* per-allocator monotonicity *)
  last a <= last a' /\
  Forall (fun e => match e with EHand j s _ => j = i /\ last a < s /\ s <= last a' | _ => True end) ev /\
  hsorted ev /\
  (* nextSequenceGreaterThan returns a number above its floor *)
  Forall (fun e => match e with EHand _ s (Some x) => x < maxU64 -> x < s | _ => True end) ev /\
  (* a single-number release is for a number handed out in the same step *)
  incl (singles ev) (handed ev) /\ NoDup (singles ev) /\
  (* bookkeeping used for the statements that mention the op list *)
  (stopped a = true -> stopped a' = true) /\
  (stopped a = true -> ev = [ESkip i] \/ handed ev = []) /\
  (* published ranges are never empty *)
  Forall nonempty ev.

Ltac forall_list :=
  repeat match goal with
  | |- Forall _ [] => apply Forall_nil
  | |- Forall _ (_ :: _) => apply Forall_cons
  end.

Ltac proj_red H :=
  cbv beta iota zeta delta [last max batch reservedOnce pend pendR stopped fst snd set_stopped
                             is_pending busy orb andb] in H.
Ltac proj_goal :=
  cbv beta iota zeta delta [last max batch reservedOnce pend pendR stopped fst snd
                             heldA wfA covers covered excl hsorted hand_lt nonempty handed singles flat_map app
                             incl].

Ltac finish_good :=
  unfold good; proj_goal;
  repeat match goal with |- _ /\ _ => split end;
  forall_list; proj_goal;
  unfold target_of, maxU64 in *; intros; break_ifs;
  try solve [ intros; lia
            | intros; intuition lia
            | intros; try discriminate; intuition (try discriminate; try lia)
            | constructor
            | repeat constructor; cbn; intuition (try discriminate; try lia)
            | intros ? HH; cbn in HH; intuition (subst; cbn; auto) ].

Lemma step_alloc_good c a o c' a' ev :
  wfA c a -> step_alloc c a o = (c', a', ev) -> good c a (actor o) c' a' ev.
Proof.
  intros W H.
  destruct a as [l m b ro p pr stp].
  unfold wfA in W; proj_red W.
  destruct W as (W1 & W2 & W3 & W4 & W5 & W6).
  unfold maxBatchSize, idleBatchSize, sequenceBatchMultiplier, MaxSequencesToRelease in *.
  destruct o; cbn [step_alloc actor] in H;
    unfold gt_begin, gt_end, next_seq, reserve_batch, release_unused, release_range,
           maxBatchSize, idleBatchSize, sequenceBatchMultiplier, MaxSequencesToRelease in H;
    proj_red H;
    destruct stp; destruct p as [px|]; proj_red H;
    repeat (break_ifs; proj_red H);
    inv H; unfold target_of, maxU64 in *; break_ifs;
    try solve [finish_good].
Qed.
