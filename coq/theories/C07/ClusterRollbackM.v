(* C07 -- cluster model with rollback, monotonicity part: what a live node knows about the counter at its
   program points while the counter did not go back since the call started ([Jlive]) and the local step
   condition [goodM] (used by ClusterRollback.v and ClusterSelf.v). *)
From SG Require Import Base.Prelude C07.Allocator C07.AllocatorInv C07.Cluster C07.ClusterDefs.
Open Scope N_scope.

Definition floor_ok (fl : option N) (l : N) : Prop :=
  match fl with Some x => target_of x <= l | None => True end.

(* what a live node knows about the counter at its program points, as long as the counter did not go back
   since the call started *)
Definition Jlive (c : N) (a : node) : Prop :=
  n_last a <= n_max a /\ 1 <= n_batch a /\ n_batch a <= 10 /\
  match n_pc a with
  | PIdle => True
  | PGt x r => n_last a = n_max a /\ r <= c /\ n_max a < target_of x
  | PFixCas (KRes fl _) corr => n_last a = n_max a /\ n_max a + n_batch a + 500 <= c + corr /\ floor_ok fl (n_last a)
  | PFixCas (KGt x) corr => n_last a = n_max a /\ n_last a + 500 <= c + corr /\ n_max a < target_of x
  | PFixIncr (KRes fl _) => n_last a = n_max a /\ n_max a + n_batch a + 500 <= c /\ floor_ok fl (n_last a)
  | PFixIncr (KGt x) => n_last a = n_max a /\ n_last a + 500 <= c /\ n_max a < target_of x
  | PGtFixed x r => n_last a = n_max a /\ r <= c /\ n_last a < r /\ n_max a < target_of x
  end.

Definition JN (c : N) (a : node) : Prop := dead a = true \/ Jlive c a.

Lemma Jlive_mono c c' a : c <= c' -> Jlive c a -> Jlive c' a.
Proof.
  unfold Jlive. intros Hc (H1 & H2 & H3 & H4). repeat split; auto.
  destruct (n_pc a) as [|x r|[fl d|x] corr|[fl d|x]|x r]; intuition lia.
Qed.

Lemma JN_mono c c' a : c <= c' -> JN c a -> JN c' a.
Proof. intros Hc [H | H]; [left; exact H | right; eapply Jlive_mono; eauto]. Qed.

Definition goodM (c : N) (a : node) (i : N) (c' : N) (a' : node) (ev : list event) : Prop :=
  c <= c' /\ JN c' a' /\
  n_last a <= n_last a' /\
  Forall (fun e => match e with EHand j s _ => j = i /\ n_last a < s /\ s <= n_last a' | _ => True end) ev /\
  hsorted ev /\
  Forall (fun e => match e with EHand _ s (Some x) => x < maxU64 -> x < s | _ => True end) ev.

Ltac mproj_goal :=
  cbv beta iota zeta delta [n_last n_max n_batch n_once n_pc n_stopped n_crashed fst snd dead orb
                             JN Jlive floor_ok hsorted hand_lt].

Ltac mfinish :=
  unfold goodM; mproj_goal;
  repeat match goal with |- _ /\ _ => split end;
  forall_list; mproj_goal;
  unfold target_of, maxU64 in *; intros; break_ifs;
  try solve [ intros; lia
            | intros; intuition lia
            | left; reflexivity
            | right; repeat split; intros; try lia; intuition lia
            | intros; try discriminate; intuition (try discriminate; try lia)
            | constructor
            | repeat constructor; cbn; intuition (try discriminate; try lia) ].

Lemma xstep_node_goodM c a o c' a' ev :
  JN c a -> is_rollback o = false -> xstep_node c a o = (c', a', ev) -> goodM c a (xactor o) c' a' ev.
Proof.
  intros W NR H.
  destruct a as [l m b ro p stp cr].
  unfold JN, Jlive, dead, floor_ok in W; xproj_red W.
  unfold maxBatchSize, idleBatchSize, sequenceBatchMultiplier, MaxSequencesToRelease, syncSeqCorrectionValue in *.
  destruct o; try discriminate NR; cbn [xstep_node xactor] in H;
    unfold xgt, xturn, gt_finish, xnext, xrelease_unused, release_range,
           maxBatchSize, idleBatchSize, sequenceBatchMultiplier, MaxSequencesToRelease, syncSeqCorrectionValue in H;
    xproj_red H;
    destruct stp; destruct cr; destruct p as [|px pr|[[pfl|] pd|pkx] pc|[[pfl|] pd|pkx]|px pr]; xproj_red H;
    repeat (break_ifs; xproj_red H);
    inv H; unfold target_of, maxU64 in *; break_ifs;
    try solve [mfinish];
    (destruct W as [W | (W1 & W2 & W3 & W4)]; [discriminate W|]);
    try solve [mfinish].
Qed.

