(* C13: the relation between the state at the previous pull (y0, loaded) and the current state of the whole-system
   model: the grant state is a run of the grant state machine from y0's with every sequence above y0's cached
   sequence K0; sources stamped at or below K0 were already there at y0; a role that is live now was live at y0 or all
   its sources are stamped above K0 (the hypothesis excluding finding role-created-after-grant enters here); a document
   is untouched or carries, for every channel it was in at y0, a period covering K0 and either still is in the channel
   or has a removal entry above K0. *)
From SG Require Import Base.Prelude C20.SeqIdGen C20.SeqId
  C13.Revocation C13.RevocationProofs C13.Feed C13.Client C13.DocHist C13.GrantSys C13.GrantSysProofs C13.PeriodsProofs
  C13.MergeSorted C13.Sys C13.SysDocs C13.SysGrants C13.Hyps C13.SysInv.
Open Scope N_scope.

Definition cached (y : sys) : N := y_next y - 1.

Lemma no_restamp_app g l1 l2 : no_restamp g (l1 ++ l2) <-> no_restamp g l1 /\ no_restamp (run g l1) l2.
Proof.
  revert g; induction l1 as [|o l1 IH]; intros g; cbn [app no_restamp run fold_left]; [tauto |].
  fold (run (step g o) l1). rewrite IH. tauto.
Qed.

Definition role_fresh (K0 : N) (y0 y : sys) (r : N) : Prop :=
  ((exists p0, role_get r (g_roles (y_g y0)) = Some (p0, false)) /\
   (forall c s, In (c, s) (rexp_get r (y_rexp y)) -> s <= K0 -> In (c, s) (rexp_get r (y_rexp y0))))
  \/ ((forall c s, In (c, s) (rexp_get r (y_rexp y)) -> K0 < s) /\
      (forall x c s, In x (y_docs y) -> In (c, s) (acc_get r (sd_acc x)) -> K0 < s)).

Definition doc_rel (K0 : N) (y0 y : sys) (d : N) : Prop :=
  doc_get d (y_docs y) = doc_get d (y_docs y0) \/
  exists x, doc_get d (y_docs y) = Some x /\ K0 < sd_seq x /\
            forall x0, doc_get d (y_docs y0) = Some x0 -> forall c0, In c0 (sd_active x0) ->
              dcov c0 K0 (sd_cs x, sd_csh x) /\
              (In c0 (sd_active x) \/ exists q rev del, rm_find c0 (sd_removed x) = Some (c0, (q, rev, del)) /\ K0 < q).

Record rel (y0 y : sys) : Prop := {
  rl_clock : y_next y0 <= y_next y;
  rl_gops : exists gops, y_g y = run (y_g y0) gops /\ Forall (op_above (cached y0)) gops
                         /\ unpruned (y_g y0) gops /\ no_restamp (y_g y0) gops;
  rl_uexp : forall c s, In (c, s) (y_uexp y) -> s <= cached y0 -> In (c, s) (y_uexp y0);
  rl_urexp : forall r s, In (r, s) (y_urexp y) -> s <= cached y0 -> In (r, s) (y_urexp y0);
  rl_acc : forall x k c s, In x (y_docs y) -> In (c, s) (acc_get k (sd_acc x)) -> s <= cached y0 ->
             exists x0, In x0 (y_docs y0) /\ In (c, s) (acc_get k (sd_acc x0));
  rl_racc : forall x r s, In x (y_docs y) -> In (r, s) (sd_racc x) -> s <= cached y0 ->
              exists x0, In x0 (y_docs y0) /\ In (r, s) (sd_racc x0);
  rl_roles : forall r p, role_get r (g_roles (y_g y)) = Some (p, false) -> role_fresh (cached y0) y0 y r;
  rl_doc : forall d, doc_rel (cached y0) y0 y d }.

Lemma rel_refl y : rel y y.
Proof.
  constructor; auto.
  - lia.
  - exists []. repeat split; auto; constructor.
  - intros x k c s Hx Hin _. exists x; auto.
  - intros x r s Hx Hin _. exists x; auto.
  - intros r p Hget. left. split; [exists p; exact Hget | auto].
  - intros d. left; reflexivity.
Qed.

(* the grant-machine operations of one system operation carry the clock as their sequence *)
Lemma sys_gops_seq y o g' : In g' (sys_gops y o) -> forall s, op_seq g' = Some s -> s = y_next y.
Proof.
  assert (forall d acc rol g', In g' (write_gops y d acc rol) -> forall s, op_seq g' = Some s -> s = y_next y) as Hw.
  { intros d acc rol g0 Hin s Hs. pose proof (write_gops_inval_only y d acc rol) as H. unfold inval_only in H.
    rewrite Forall_forall in H. destruct (H g0 Hin) as [->|[->|(r & ->)]]; cbn in Hs; inversion Hs; reflexivity. }
  assert (forall l g', In g' (gops_load_user y ++ l) -> (forall g'', In g'' l -> forall s, op_seq g'' = Some s -> s = y_next y) ->
            forall s, op_seq g' = Some s -> s = y_next y) as Hu.
  { intros l g0 Hin Hl s Hs. apply in_app_or in Hin as [Hin|Hin]; [| eapply Hl; eauto].
    unfold gops_load_user in Hin. destruct Hin as [<-|[<-|[]]]; discriminate. }
  assert (forall r l g', In g' (gops_load_role r y ++ l) -> (forall g'', In g'' l -> forall s, op_seq g'' = Some s -> s = y_next y) ->
            forall s, op_seq g' = Some s -> s = y_next y) as Hr.
  { intros r l g0 Hin Hl s Hs. apply in_app_or in Hin as [Hin|Hin]; [| eapply Hl; eauto].
    unfold gops_load_role in Hin. destruct Hin as [<-|[]]; discriminate. }
  destruct o as [d chans acc rol|d|set0|set0|r set0|r|limit]; cbn [sys_gops]; intros Hin s Hs.
  - eapply Hw; eauto.
  - destruct (doc_get d (y_docs y)) as [x|]; [| destruct Hin]. destruct (sd_live x); [eapply Hw; eauto | destruct Hin].
  - eapply Hu; eauto. intros g'' H'' s' Hs'. destruct (same_keys _ _); [destruct H'' |]. destruct H'' as [<-|[]]. inversion Hs'; reflexivity.
  - eapply Hu; eauto. intros g'' H'' s' Hs'. destruct (same_keys _ _); [destruct H'' |]. destruct H'' as [<-|[]]. inversion Hs'; reflexivity.
  - destruct (role_get r (g_roles (y_g y))) as [[p0 [|]]|].
    + destruct Hin as [<-|Hin]; [discriminate |]. destruct (sorted_set set0); [destruct Hin |]. destruct Hin as [<-|[]]. inversion Hs; reflexivity.
    + eapply Hr; eauto. intros g'' H'' s' Hs'. destruct (same_keys _ _); [destruct H'' |]. destruct H'' as [<-|[]]. inversion Hs'; reflexivity.
    + destruct Hin as [<-|Hin]; [discriminate |]. destruct (sorted_set set0); [destruct Hin |]. destruct Hin as [<-|[]]. inversion Hs; reflexivity.
  - destruct (role_get r (g_roles (y_g y))) as [[p0 [|]]|]; [destruct Hin | | destruct Hin].
    eapply Hr; eauto. intros g'' H'' s' Hs'. destruct H'' as [<-|[]]. inversion Hs'; reflexivity.
  - rewrite gops_load_all_eq in Hin. apply in_app_or in Hin as [Hin|Hin].
    + unfold gops_load_user in Hin. destruct Hin as [<-|[<-|[]]]; discriminate.
    + apply in_map_iff in Hin as (r & <- & _). discriminate.
Qed.

Lemma sys_step_g y o : y_g (sys_step y o) = run (y_g y) (sys_gops y o) \/ (y_g (sys_step y o) = y_g y /\ sys_gops y o = []).
Proof.
  destruct o as [d chans acc rol|d|set0|set0|r set0|r|limit]; cbn [sys_step sys_gops].
  - left; reflexivity.
  - destruct (doc_get d (y_docs y)) as [x|]; [| right; auto]. destruct (sd_live x); [left; reflexivity | right; auto].
  - left. destruct (same_keys _ _); reflexivity.
  - left. destruct (same_keys _ _); reflexivity.
  - left. destruct (role_get r (g_roles (y_g y))) as [[p0 [|]]|]; try reflexivity. destruct (same_keys _ _); reflexivity.
  - destruct (role_get r (g_roles (y_g y))) as [[p0 [|]]|]; [right; auto | left; reflexivity | right; auto].
  - left; reflexivity.
Qed.

Lemma sys_step_g_eq y o : y_g (sys_step y o) = run (y_g y) (sys_gops y o).
Proof. destruct (sys_step_g y o) as [H|[H1 H2]]; auto. rewrite H1, H2. reflexivity. Qed.

Lemma sys_step_clock y o : y_next y <= y_next (sys_step y o).
Proof.
  destruct o as [d chans acc rol|d|set0|set0|r set0|r|limit]; cbn [sys_step].
  - cbn [write_doc y_next]. lia.
  - destruct (doc_get d (y_docs y)) as [x|]; [| lia]. destruct (sd_live x); [cbn [write_doc y_next] |]; lia.
  - destruct (same_keys _ _); cbn [with_g y_next]; lia.
  - destruct (same_keys _ _); cbn [with_g y_next]; lia.
  - destruct (role_get r (g_roles (y_g y))) as [[p0 [|]]|]; cbn [y_next]; try lia. destruct (same_keys _ _); cbn [with_g y_next]; lia.
  - destruct (role_get r (g_roles (y_g y))) as [[p0 [|]]|]; cbn [y_next]; lia.
  - cbn [with_g y_next]. lia.
Qed.

(* ---------- a document write, w.r.t. the previous pull ---------- *)
Lemma doc_rel_write y0 y d chans acc rol live d' :
  wf y0 -> wf y -> y_next y0 <= y_next y -> nomerge (sd_csh (doc_old y d)) ->
  doc_rel (cached y0) y0 y d' ->
  doc_rel (cached y0) y0 (write_doc y d chans acc rol live) d'.
Proof.
  intros Hw0 Hw Hcl Hnm Hrel. rewrite write_doc_eq. unfold doc_rel; cbn [y_docs].
  set (x' := new_doc y d chans acc rol live).
  destruct (N.eq_dec d' d) as [->|Hne]; [| rewrite doc_get_put_other by exact Hne; exact Hrel].
  replace (doc_get d (doc_put x' (y_docs y))) with (Some x') by (symmetry; apply (doc_get_put_same x')).
  right. exists x'. split; [reflexivity |]. pose proof (wf_clock y0 Hw0) as Hc0.
  assert (cached y0 < y_next y) as HK by (unfold cached; lia).
  split; [cbn [x' new_doc sd_seq]; exact HK |].
  intros x0 Hx0 c0 Hc0in.
  (* what we know about the document before the write *)
  assert (dcov c0 (cached y0) (sd_cs (doc_old y d), sd_csh (doc_old y d)) /\
          (In c0 (sd_active (doc_old y d)) \/
           exists q rev del, rm_find c0 (sd_removed (doc_old y d)) = Some (c0, (q, rev, del)) /\ cached y0 < q)) as [Hcov Hmem].
  { destruct Hrel as [Heq|(x & Hx & Hseq & Hall)].
    - (* untouched since the previous pull *)
      rewrite Hx0 in Heq. unfold doc_old. rewrite Heq.
      destruct (doc_get_in _ _ _ Hx0) as [Hin0 _].
      pose proof (wf_docs y0 Hw0 x0 Hin0) as [_ _ _ _ Hopen Hst _ _].
      split; [| left; exact Hc0in].
      destruct (Hopen c0 Hc0in) as (s & Hs). destruct (find_ent_spec _ _ _ _ _ Hs) as [_ Hin].
      exists s, 0. cbn [fst snd]. split; [apply in_or_app; left; exact Hin | split; [| left; reflexivity]].
      unfold cached. eapply Hst. apply in_or_app; left; exact Hin.
    - unfold doc_old. rewrite Hx. apply (Hall x0 Hx0 c0 Hc0in). }
  split.
  - cbn [x' new_doc sd_cs sd_csh]. rewrite <- surjective_pairing.
    apply update_channels_dcov; cbn [fst snd]; auto. apply nodup_sorted_set.
  - cbn [x' new_doc sd_active sd_removed].
    destruct (mem c0 (sorted_set chans)) eqn:Enew; [left; apply mem_in; exact Enew | right].
    rewrite (rm_find_filter (fun c => negb (mem c (sorted_set chans)))), Enew. cbn [negb].
    rewrite rm_find_fold.
    destruct (mem c0 (filter (fun c => negb (mem c (sorted_set chans))) (sd_active (doc_old y d)))) eqn:Eleft.
    + exists (y_next y), (y_nrev y), (negb live). split; auto.
    + destruct Hmem as [Hact|Hrm]; [| exact Hrm].
      exfalso. apply mem_false in Eleft. apply Eleft. apply filter_In. split; auto. rewrite Enew; reflexivity.
Qed.

Lemma acc_pair_old y d chans acc rol live k c s :
  In (c, s) (acc_get k (sd_acc (new_doc y d chans acc rol live))) -> s <> y_next y ->
  In (c, s) (acc_get k (sd_acc (doc_old y d))).
Proof.
  cbn [new_doc sd_acc]. rewrite update_access_get. intros Hin Hne.
  apply in_update_at_seq in Hin as [[Hin _]|(-> & _)]; [exact Hin | congruence].
Qed.

Lemma racc_pair_old y d chans acc rol live r s :
  In (r, s) (sd_racc (new_doc y d chans acc rol live)) -> s <> y_next y -> In (r, s) (sd_racc (doc_old y d)).
Proof.
  cbn [new_doc sd_racc]. intros Hin Hne.
  apply in_update_at_seq in Hin as [[Hin _]|(-> & _)]; [exact Hin | congruence].
Qed.

Lemma doc_old_pair_in y d (P : sdoc -> Prop) :
  (P (doc_old y d) -> (exists x, In x (y_docs y) /\ sd_id x = d /\ P x) \/ P (mkSDoc d 0 0 false [] [] [] [] [] [])).
Proof.
  intros H. destruct (doc_old_cases y d) as [(x & _ & E & Hx & Hid)|[_ E]]; rewrite E in H; [left; exists x; auto | right; exact H].
Qed.

Lemma rel_write y0 y d chans acc rol live :
  wf y0 -> wf y -> rel y0 y -> nomerge (sd_csh (doc_old y d)) ->
  unpruned (y_g y) (write_gops y d acc rol) ->
  rel y0 (write_doc y d chans acc rol live).
Proof.
  intros Hw0 Hw [R1 R2 R3 R4 R5 R6 R7 R8] Hnm Hun.
  pose proof (wf_clock y0 Hw0) as Hc0.
  assert (cached y0 < y_next y) as HK by (unfold cached; lia).
  constructor.
  - rewrite write_doc_eq; cbn [y_next]. lia.
  - destruct R2 as (gops & Hg & Hab & Hunp & Hrs). exists (gops ++ write_gops y d acc rol).
    rewrite write_doc_eq; cbn [y_g]. rewrite run_app, <- Hg. split; [reflexivity |]. split; [| split].
    + apply Forall_app; split; auto. apply Forall_forall. intros o Ho. unfold op_above.
      destruct (op_seq o) as [s|] eqn:Es; auto.
      pose proof (write_gops_inval_only y d acc rol) as H. unfold inval_only in H. rewrite Forall_forall in H.
      destruct (H o Ho) as [->|[->|(r & ->)]]; cbn in Es; inversion Es; subst; exact HK.
    + apply unpruned_app. rewrite <- Hg. auto.
    + apply no_restamp_app. rewrite <- Hg. split; auto.
      pose proof (write_gops_inval_only y d acc rol) as H. clear -H.
      revert H. generalize (y_g y). induction (write_gops y d acc rol) as [|o l IH]; intros g H; cbn [no_restamp]; auto.
      inversion H as [|? ? Ho Hrest]; subst. split; [| apply IH; exact Hrest].
      destruct Ho as [->|[->|(r & ->)]]; exact I.
  - rewrite write_doc_eq; cbn [y_uexp]. exact R3.
  - rewrite write_doc_eq; cbn [y_urexp]. exact R4.
  - rewrite write_doc_eq; cbn [y_docs]. intros x k c s Hx Hin Hle.
    apply (in_doc_put _ _ _ (wf_ids y Hw)) in Hx as [->|[Hx _]]; [| eapply R5; eauto].
    apply acc_pair_old in Hin; [| lia].
    destruct (doc_old_cases y d) as [(x & _ & E & Hx & _)|[_ E]]; rewrite E in Hin; [eapply R5; eauto | destruct Hin].
  - rewrite write_doc_eq; cbn [y_docs]. intros x r s Hx Hin Hle.
    apply (in_doc_put _ _ _ (wf_ids y Hw)) in Hx as [->|[Hx _]]; [| eapply R6; eauto].
    apply racc_pair_old in Hin; [| lia].
    destruct (doc_old_cases y d) as [(x & _ & E & Hx & _)|[_ E]]; rewrite E in Hin; [eapply R6; eauto | destruct Hin].
  - intros r p Hget. rewrite write_doc_eq in Hget; cbn [y_g] in Hget.
    assert (exists p', role_get r (g_roles (y_g y)) = Some (p', false)) as (p' & Hp').
    { rewrite (run_invals_role _ _ r _ (write_gops_inval_only y d acc rol)) in Hget.
      destruct (existsb _ _); [| eexists; exact Hget].
      destruct (role_get r (g_roles (y_g y))) as [[p1 d1]|]; [| discriminate]. cbn [option_map inval_role] in Hget.
      destruct d1; inversion Hget; subst. eexists; reflexivity. }
    destruct (R7 r p' Hp') as [[Hl Hex]|[Hex Hdoc]]; [left | right]; rewrite write_doc_eq; cbn [y_rexp y_docs]; auto.
    split; auto. intros x c s Hx Hin.
    apply (in_doc_put _ _ _ (wf_ids y Hw)) in Hx as [->|[Hx _]]; [| eapply Hdoc; eauto].
    destruct (N.eq_dec s (y_next y)) as [->|Hne]; [exact HK |].
    apply acc_pair_old in Hin; auto.
    destruct (doc_old_cases y d) as [(x & _ & E & Hx & _)|[_ E]]; rewrite E in Hin; [eapply Hdoc; eauto | destruct Hin].
  - intros d'. apply doc_rel_write; auto.
Qed.

(* ---------- liveness of roles along grant-machine operations ---------- *)
Definition not_create_of (r : N) (o : gop) : Prop := match o with CreateRole r0 _ => r0 <> r | _ => True end.

Lemma step_live_inv g o r p :
  not_create_of r o -> role_get r (g_roles (step g o)) = Some (p, false) -> exists p', role_get r (g_roles g) = Some (p', false).
Proof.
  intros Hnc Hget.
  destruct o as [s|s|r0 s|new_|new_|r0 new_|r0 new_|r0 s].
  - cbn [step g_roles] in Hget. eexists; exact Hget.
  - cbn [step g_roles] in Hget. eexists; exact Hget.
  - rewrite step_inval_role_get in Hget. destruct (r =? r0); [| eexists; exact Hget].
    destruct (role_get r (g_roles g)) as [[p1 d1]|]; [| discriminate]. cbn [option_map inval_role] in Hget.
    destruct d1; inversion Hget; subst. eexists; reflexivity.
  - cbn [step g_roles] in Hget. eexists; exact Hget.
  - cbn [step g_roles] in Hget. eexists; exact Hget.
  - rewrite step_rebuild_role_get in Hget. destruct (r =? r0); [| eexists; exact Hget].
    destruct (role_get r (g_roles g)) as [[p1 d1]|]; [| discriminate]. cbn [option_map] in Hget.
    destruct d1; inversion Hget; subst. eexists; reflexivity.
  - cbn [not_create_of] in Hnc. cbn [step] in Hget.
    destruct (role_get r0 (g_roles g)) as [[p0 [|]]|] eqn:E0; cbn [g_roles] in Hget.
    + rewrite role_get_upd_other in Hget by congruence. eexists; exact Hget.
    + eexists; exact Hget.
    + rewrite role_get_app in Hget. destruct (role_get r (g_roles g)) as [[p1 d1]|] eqn:E1.
      * inversion Hget; subst. eexists; reflexivity.
      * destruct (r0 =? r) eqn:E; [apply N.eqb_eq in E; congruence | discriminate].
  - rewrite step_delete_role_get in Hget. destruct (r =? r0); [| eexists; exact Hget].
    destruct (role_get r (g_roles g)) as [[p1 d1]|]; [| discriminate]. cbn [option_map] in Hget.
    destruct (d1 || negb (p_inval p1 =? 0)) eqn:Ed; inversion Hget; subst. eexists; reflexivity.
Qed.

Lemma run_live_inv ops : forall g r p,
  Forall (not_create_of r) ops -> role_get r (g_roles (run g ops)) = Some (p, false) ->
  exists p', role_get r (g_roles g) = Some (p', false).
Proof.
  induction ops as [|o ops IH]; intros g r p Hall Hget; cbn [run fold_left] in Hget; [eexists; exact Hget |].
  inversion Hall as [|? ? Ho Hrest]; subst. fold (run (step g o) ops) in Hget.
  destruct (IH _ _ _ Hrest Hget) as (p1 & Hp1). eapply step_live_inv; eauto.
Qed.

Lemma not_create_loads y r : Forall (not_create_of r) (gops_load_all y).
Proof.
  rewrite gops_load_all_eq. apply Forall_app; split; [repeat constructor |].
  apply Forall_forall. intros o Ho. apply in_map_iff in Ho as (r0 & <- & _). exact I.
Qed.

Lemma doc_grants_nil k docs x c s : doc_grants k docs = [] -> In x docs -> In (c, s) (acc_get k (sd_acc x)) -> False.
Proof.
  unfold doc_grants. intros H Hx Hin.
  assert (In c (flat_map (fun x => map fst (acc_get k (sd_acc x))) docs)) as Hc
    by (apply in_flat_map; exists x; split; auto; apply (in_map fst) in Hin; exact Hin).
  rewrite H in Hc. destruct Hc.
Qed.

Lemma role_fresh_same K0 y0 y y' r :
  y_rexp y' = y_rexp y -> y_docs y' = y_docs y -> role_fresh K0 y0 y r -> role_fresh K0 y0 y' r.
Proof. unfold role_fresh. intros -> ->. auto. Qed.

(* the generic part: the grant state is a longer run *)
Lemma rel_gops_step y0 y o :
  wf y0 -> y_next y0 <= y_next y ->
  (exists gops, y_g y = run (y_g y0) gops /\ Forall (op_above (cached y0)) gops /\ unpruned (y_g y0) gops /\ no_restamp (y_g y0) gops) ->
  unpruned (y_g y) (sys_gops y o) -> no_restamp (y_g y) (sys_gops y o) ->
  exists gops, y_g (sys_step y o) = run (y_g y0) gops /\ Forall (op_above (cached y0)) gops
               /\ unpruned (y_g y0) gops /\ no_restamp (y_g y0) gops.
Proof.
  intros Hw0 Hcl (gops & Hg & Hab & Hun & Hrs) Hun' Hrs'. pose proof (wf_clock y0 Hw0).
  exists (gops ++ sys_gops y o). rewrite sys_step_g_eq, run_app, <- Hg. split; [reflexivity |]. split; [| split].
  - apply Forall_app; split; auto. apply Forall_forall. intros g' Hg'. unfold op_above.
    destruct (op_seq g') as [s|] eqn:Es; auto. rewrite (sys_gops_seq y o g' Hg' s Es). unfold cached; lia.
  - apply unpruned_app. rewrite <- Hg. auto.
  - apply no_restamp_app. rewrite <- Hg. auto.
Qed.

Lemma rel_admin y0 y y' :
  rel y0 y -> y_docs y' = y_docs y -> y_next y <= y_next y' ->
  (exists gops, y_g y' = run (y_g y0) gops /\ Forall (op_above (cached y0)) gops
                /\ unpruned (y_g y0) gops /\ no_restamp (y_g y0) gops) ->
  (forall c s, In (c, s) (y_uexp y') -> s <= cached y0 -> In (c, s) (y_uexp y0)) ->
  (forall r s, In (r, s) (y_urexp y') -> s <= cached y0 -> In (r, s) (y_urexp y0)) ->
  (forall r p, role_get r (g_roles (y_g y')) = Some (p, false) -> role_fresh (cached y0) y0 y' r) ->
  rel y0 y'.
Proof.
  intros [R1 R2 R3 R4 R5 R6 R7 R8] Hd Hn Hg Hu Hur Hr. constructor; auto.
  - lia.
  - rewrite Hd. exact R5.
  - rewrite Hd. exact R6.
  - intros d. unfold doc_rel. rewrite Hd. apply R8.
Qed.

Theorem rel_step y0 y o :
  wf y0 -> wf y -> rel y0 y -> step_ok y o -> no_restamp (y_g y) (sys_gops y o) -> op_no_stale_role y o = true ->
  rel y0 (sys_step y o).
Proof.
  intros Hw0 Hw Hrel (Hnames & Hnm & Hun) Hrs Hstale.
  pose proof (wf_clock y0 Hw0) as Hc0. pose proof Hrel as [R1 R2 R3 R4 R5 R6 R7 R8].
  assert (cached y0 < y_next y) as HK by (unfold cached; lia).
  pose proof (rel_gops_step y0 y o Hw0 R1 R2 Hun Hrs) as Hgops.
  pose proof (sys_step_clock y o) as Hclk.
  (* roles that are live after the operation and were not just created were live before *)
  assert (forall r p, Forall (not_create_of r) (sys_gops y o) ->
            role_get r (g_roles (y_g (sys_step y o))) = Some (p, false) ->
            exists p', role_get r (g_roles (y_g y)) = Some (p', false)) as Hlive.
  { intros r p Hnc Hget. rewrite sys_step_g_eq in Hget. exact (run_live_inv _ _ _ _ Hnc Hget). }
  destruct o as [d chans acc rol|d|set0|set0|r0 set0|r0|limit].
  - cbn [sys_step]. apply rel_write; auto. apply nomerge_doc_old; exact Hnm.
  - cbn [sys_step sys_gops] in *. destruct (doc_get d (y_docs y)) as [x|]; auto. destruct (sd_live x); auto.
    apply rel_write; auto. apply nomerge_doc_old; exact Hnm.
  - (* SUChans *)
    assert (forall r, Forall (not_create_of r) (sys_gops y (SUChans set0))) as Hnc.
    { intros r. cbn [sys_gops]. apply Forall_app; split; [repeat constructor | destruct (same_keys _ _); repeat constructor]. }
    apply (rel_admin y0 y); auto.
    + cbn [sys_step]. destruct (same_keys _ _); reflexivity.
    + cbn [sys_step]. destruct (same_keys _ _); cbn [with_g y_uexp]; auto.
      intros c s Hin Hle. apply in_update_at_seq in Hin as [[Hin _]|(-> & _)]; [auto | lia].
    + cbn [sys_step]. destruct (same_keys _ _); cbn [with_g y_urexp]; auto.
    + intros r p Hget. destruct (Hlive r p (Hnc r) Hget) as (p' & Hp').
      eapply role_fresh_same; [| | apply (R7 r p' Hp')]; cbn [sys_step]; destruct (same_keys _ _); reflexivity.
  - (* SURoles *)
    assert (forall r, Forall (not_create_of r) (sys_gops y (SURoles set0))) as Hnc.
    { intros r. cbn [sys_gops]. apply Forall_app; split; [repeat constructor | destruct (same_keys _ _); repeat constructor]. }
    apply (rel_admin y0 y); auto.
    + cbn [sys_step]. destruct (same_keys _ _); reflexivity.
    + cbn [sys_step]. destruct (same_keys _ _); cbn [with_g y_uexp]; auto.
    + cbn [sys_step]. destruct (same_keys _ _); cbn [with_g y_urexp]; auto.
      intros r s Hin Hle. apply in_update_at_seq in Hin as [[Hin _]|(-> & _)]; [auto | lia].
    + intros r p Hget. destruct (Hlive r p (Hnc r) Hget) as (p' & Hp').
      eapply role_fresh_same; [| | apply (R7 r p' Hp')]; cbn [sys_step]; destruct (same_keys _ _); reflexivity.
  - (* SRChans *)
    cbn [op_no_stale_role] in Hstale. cbn [sys_step sys_gops] in *.
    remember (role_get r0 (g_roles (y_g y))) as rg eqn:E0 in *. symmetry in E0.
    assert (forall r (l : list gop), r <> r0 -> Forall (not_create_of r) l ->
              Forall (not_create_of r) (CreateRole r0 (computed_chans r0 (y_docs y) []) :: l)) as Hncc
      by (intros r l Hne Hl; constructor; [cbn; congruence | exact Hl]).
    assert (forall r, Forall (not_create_of r) match sorted_set set0 with [] => [] | _ :: _ => [InvalRole r0 (y_next y)] end) as Hnct
      by (intros r; destruct (sorted_set set0); repeat constructor).
    assert (forall r p, r <> r0 -> role_get r (g_roles (y_g y)) = Some (p, false) ->
              role_fresh (cached y0) y0
                (mkSys (y_next y + 1) (y_nrev y) (y_docs y) (y_uexp y) (y_urexp y) (y_useq y)
                       (rexp_put r0 (update_at_seq (match rg with Some (_, false) => rexp_get r0 (y_rexp y) | _ => [] end) (sorted_set set0) (y_next y)) (y_rexp y))
                       (y_g y)) r) as Hother.
    { intros r p Hne Hp. pose proof (R7 r p Hp) as Hf. unfold role_fresh in *; cbn [y_rexp y_docs]. rewrite rexp_get_put.
      replace (r =? r0) with false by (symmetry; apply N.eqb_neq; exact Hne). exact Hf. }
    destruct rg as [[p0 [|]]|].
    + (* re-created *)
      apply (rel_admin y0 y); auto.
      intros r p Hget. destruct (N.eq_dec r r0) as [->|Hne].
      * right. cbn [y_rexp y_docs]. split.
        -- intros c s Hin. rewrite rexp_get_put, N.eqb_refl in Hin.
           apply in_update_at_seq in Hin as [[[] _]|(-> & _)]. exact HK.
        -- intros x c s Hx Hin. exfalso. eapply doc_grants_nil; eauto. destruct (doc_grants r0 (y_docs y)); [reflexivity | discriminate].
      * destruct (Hlive r p (Hncc r _ Hne (Hnct r)) Hget) as (p' & Hp').
        eapply role_fresh_same; [| | apply (Hother r p' Hne Hp')]; reflexivity.
    + (* live *)
      destruct (same_keys (rexp_get r0 (y_rexp y)) (sorted_set set0)) eqn:E.
      * apply (rel_admin y0 y); auto.
        intros r p Hget.
        assert (Forall (not_create_of r) (gops_load_role r0 y ++ [])) as Hnc by (apply Forall_app; split; repeat constructor).
        destruct (Hlive r p Hnc Hget) as (p' & Hp'). apply (R7 r p' Hp').
      * apply (rel_admin y0 y); auto.
        intros r p Hget.
        assert (Forall (not_create_of r) (gops_load_role r0 y ++ [InvalRole r0 (y_next y)])) as Hnc by (apply Forall_app; split; repeat constructor).
        destruct (Hlive r p Hnc Hget) as (p' & Hp').
        destruct (N.eq_dec r r0) as [->|Hne]; [| eapply role_fresh_same; [| | apply (Hother r p' Hne Hp')]; reflexivity].
        destruct (R7 r0 p' Hp') as [[Hl Hex]|[Hex Hdoc]]; [left | right]; cbn [y_rexp y_docs]; rewrite rexp_get_put, N.eqb_refl.
        -- split; auto. intros c s Hin Hle. apply in_update_at_seq in Hin as [[Hin _]|(-> & _)]; [auto | lia].
        -- split; auto. intros c s Hin. apply in_update_at_seq in Hin as [[Hin _]|(-> & _)]; [eauto | exact HK].
    + (* created *)
      apply (rel_admin y0 y); auto.
      intros r p Hget. destruct (N.eq_dec r r0) as [->|Hne].
      * right. cbn [y_rexp y_docs]. split.
        -- intros c s Hin. rewrite rexp_get_put, N.eqb_refl in Hin.
           apply in_update_at_seq in Hin as [[[] _]|(-> & _)]. exact HK.
        -- intros x c s Hx Hin. exfalso. eapply doc_grants_nil; eauto. destruct (doc_grants r0 (y_docs y)); [reflexivity | discriminate].
      * destruct (Hlive r p (Hncc r _ Hne (Hnct r)) Hget) as (p' & Hp').
        eapply role_fresh_same; [| | apply (Hother r p' Hne Hp')]; reflexivity.
  - (* SDelRole *)
    cbn [sys_step sys_gops] in *.
    remember (role_get r0 (g_roles (y_g y))) as rg eqn:E0 in *.
    destruct rg as [[p0 [|]]|]; auto.
    apply (rel_admin y0 y); auto.
    intros r p Hget.
    assert (Forall (not_create_of r) (gops_load_role r0 y ++ [DeleteRole r0 (y_next y)])) as Hnc by (apply Forall_app; split; repeat constructor).
    destruct (Hlive r p Hnc Hget) as (p' & Hp'). apply (R7 r p' Hp').
  - (* SPull *)
    cbn [sys_step sys_gops] in *.
    apply (rel_admin y0 y); auto.
    intros r p Hget. destruct (Hlive r p (not_create_loads y r) Hget) as (p' & Hp'). apply (R7 r p' Hp').
Qed.
