(* C13 model, part 5: the grant bookkeeping as a state machine -- the lazy invalidate / rebuild protocol of
   auth/auth.go over the persisted principal documents, for ONE user and any number of roles.

   A persisted principal keeps its last computed grant set (Channels_ / RolesSince_) even while invalidated
   (ChannelInvalSeq / RoleInvalSeq <> 0): the next load (getPrincipal) recomputes the set from the current
   grants and calls calculateHistory with the invalidation sequence.  The recomputed set is an arbitrary input
   here (what the access views confer at that moment is C03's subject).

   Operations:
     InvalUser s / InvalUserRoles s / InvalRole r s   a change at sequence s invalidates (SubdocInsert: only the
                                                      FIRST invalidation since the last rebuild sticks)
     RebuildUser new / RebuildUserRoles new / RebuildRole r new     a load rebuilds an invalidated set
     CreateRole r new      NewRole: a missing role, or a deleted one (its channel history is kept)
     DeleteRole r s        soft delete at sequence s: every current channel goes to the history, the role stays
                           invalidated and is never rebuilt while deleted *)
From SG Require Import Base.Prelude C13.Revocation.
Open Scope N_scope.

Record princ := mkPrinc { p_set : tset; p_inval : N; p_hist : hist }.

Record gstate := mkG {
  g_user : princ;                       (* the user's own channels *)
  g_uroles : princ;                     (* the user's roles (names) *)
  g_roles : list (N * (princ * bool)) } (* role name -> (channels, deleted) *).

Inductive gop :=
| InvalUser (s : N)
| InvalUserRoles (s : N)
| InvalRole (r s : N)
| RebuildUser (new_ : tset)
| RebuildUserRoles (new_ : tset)
| RebuildRole (r : N) (new_ : tset)
| CreateRole (r : N) (new_ : tset)
| DeleteRole (r s : N).

Definition invalidate (s : N) (p : princ) : princ :=
  if p_inval p =? 0 then mkPrinc (p_set p) s (p_hist p) else p.

Definition rebuild (new_ : tset) (p : princ) : princ :=
  if p_inval p =? 0 then p
  else mkPrinc new_ 0 (calc_history (p_inval p) (p_set p) new_ (p_hist p)).

Fixpoint role_get (r : N) (l : list (N * (princ * bool))) : option (princ * bool) :=
  match l with
  | [] => None
  | (k, v) :: rest => if k =? r then Some v else role_get r rest
  end.

Fixpoint role_upd (r : N) (f : princ * bool -> princ * bool) (l : list (N * (princ * bool))) : list (N * (princ * bool)) :=
  match l with
  | [] => []
  | (k, v) :: rest => if k =? r then (k, f v) :: rest else (k, v) :: role_upd r f rest
  end.

Definition step (g : gstate) (o : gop) : gstate :=
  match o with
  | InvalUser s => mkG (invalidate s (g_user g)) (g_uroles g) (g_roles g)
  | InvalUserRoles s => mkG (g_user g) (invalidate s (g_uroles g)) (g_roles g)
  | InvalRole r s =>
      mkG (g_user g) (g_uroles g)
          (role_upd r (fun '(p, del) => if del then (p, del) else (invalidate s p, del)) (g_roles g))
  | RebuildUser new_ => mkG (rebuild new_ (g_user g)) (g_uroles g) (g_roles g)
  | RebuildUserRoles new_ => mkG (g_user g) (rebuild new_ (g_uroles g)) (g_roles g)
  | RebuildRole r new_ =>
      mkG (g_user g) (g_uroles g)
          (role_upd r (fun '(p, del) => if del then (p, del) else (rebuild new_ p, del)) (g_roles g))
  | CreateRole r new_ =>
      match role_get r (g_roles g) with
      | None => mkG (g_user g) (g_uroles g) (g_roles g ++ [(r, (mkPrinc new_ 0 [], false))])
      | Some (p, true) =>
          mkG (g_user g) (g_uroles g) (role_upd r (fun _ => (mkPrinc new_ 0 (p_hist p), false)) (g_roles g))
      | Some (_, false) => g
      end
  | DeleteRole r s =>
      mkG (g_user g) (g_uroles g)
          (role_upd r (fun '(p, del) =>
                         if del || negb (p_inval p =? 0) then (p, del)   (* DeleteRole loads the role first *)
                         else (mkPrinc (p_set p) s (calc_history s (p_set p) [] (p_hist p)), true))
                    (g_roles g))
  end.

Definition run (g : gstate) (ops : list gop) : gstate := fold_left step ops g.

(* ---------- what a request of the user sees once everything it loads has been rebuilt ---------- *)
Definition view_role (kv : N * (princ * bool)) : role_st :=
  let '(k, (p, del)) := kv in
  mkRole k del (if del || negb (p_inval p =? 0) then [] else p_set p) (p_hist p).

Definition view_roles (g : gstate) : list role_st := map view_role (g_roles g).

Definition view_user (g : gstate) : user_st :=
  mkUser 0 (p_set (g_user g)) (p_hist (g_user g)) (p_set (g_uroles g)) (p_hist (g_uroles g)).

(* a loaded state: the user's sets and every live role are valid *)
Definition loaded (g : gstate) : Prop :=
  p_inval (g_user g) = 0 /\ p_inval (g_uroles g) = 0 /\
  forall r p, role_get r (g_roles g) = Some (p, false) -> p_inval p = 0.

Definition effective (g : gstate) : tset := inherited (view_user g) (view_roles g).

(* the sequence an operation carries, if any *)
Definition op_seq (o : gop) : option N :=
  match o with
  | InvalUser s | InvalUserRoles s | InvalRole _ s | DeleteRole _ s => Some s
  | _ => None
  end.

(* "the history was not pruned": no rebuild along the run had to merge entries (calculateHistory coincided
   with appending the lost grants) *)
Definition unpruned_princ (new_ : tset) (p : princ) : Prop :=
  p_inval p <> 0 -> calc_history (p_inval p) (p_set p) new_ (p_hist p) = record_lost (p_inval p) (p_set p) new_ (p_hist p).

Definition unpruned_step (g : gstate) (o : gop) : Prop :=
  match o with
  | RebuildUser new_ => unpruned_princ new_ (g_user g)
  | RebuildUserRoles new_ => unpruned_princ new_ (g_uroles g)
  | RebuildRole r new_ =>
      forall p, role_get r (g_roles g) = Some (p, false) -> unpruned_princ new_ p
  | DeleteRole r s =>
      forall p, role_get r (g_roles g) = Some (p, false) ->
                calc_history s (p_set p) [] (p_hist p) = record_lost s (p_set p) [] (p_hist p)
  | _ => True
  end.

Fixpoint unpruned (g : gstate) (ops : list gop) : Prop :=
  match ops with
  | [] => True
  | o :: rest => unpruned_step g o /\ unpruned (step g o) rest
  end.
