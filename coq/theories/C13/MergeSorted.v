(* C13: the merge loop of one request (Feed.merge_all) over feeds that are each strictly ascending w.r.t.
   SequenceID.Before (C20's regenerated definition, a strict total order):
     - the response is strictly ascending, hence has at most one row per token;
     - a row is flagged "removed from all channels" exactly when every feed row with its token is a removal;
     - what a client holds for a document after the response is decided by the rows about it that are not ordered
       before a given storing row (last_about_sorted).
   Also: the per-channel feeds, the user pseudo-feed and the revocation feeds are strictly ascending when the channel
   logs are. *)
From SG Require Import Base.Prelude C20.SeqIdGen C20.SeqId C20.SeqIdOrder
  C13.Revocation C13.Feed C13.Client C13.FeedProofs C13.FeedComplete C13.ClientProofs.
Open Scope N_scope.

Definition tlt (x y : row) : Prop := before (tok x) (tok y) = true.

Fixpoint ssorted (f : list row) : Prop :=
  match f with
  | [] => True
  | h :: t => (forall y, In y t -> tlt h y) /\ ssorted t
  end.

Lemma tok_eqb_eq x y : tok_eqb x y = true <-> tok x = tok y.
Proof.
  unfold tok_eqb, tok, mk; split.
  - intros H; apply andb_true_iff in H as [A B]; apply N.eqb_eq in A, B; rewrite A, B; reflexivity.
  - intros H; inversion H as [[A B]]; rewrite A, B, !N.eqb_refl; reflexivity.
Qed.

Lemma tlt_trans x y z : tlt x y -> tlt y z -> tlt x z.
Proof. unfold tlt; apply before_trans. Qed.

Lemma tlt_irrefl x : ~ tlt x x.
Proof. unfold tlt; rewrite before_irrefl; discriminate. Qed.

Lemma tlt_asym x y : tlt x y -> ~ tlt y x.
Proof. unfold tlt; intros H H2; rewrite (before_asym _ _ H) in H2; discriminate. Qed.

Lemma tlt_tok x y y' : tok y = tok y' -> tlt x y -> tlt x y'.
Proof. unfold tlt; intros ->; auto. Qed.
Lemma tlt_tok_l x x' y : tok x = tok x' -> tlt x y -> tlt x' y.
Proof. unfold tlt; intros ->; auto. Qed.

(* ---------- min_row returns a minimum ---------- *)
Lemma min_step_fold_min hs : forall b m,
  fold_left min_step hs (Some b) = Some m ->
  before (tok b) (tok m) = false /\ (forall h, In h hs -> before (tok h) (tok m) = false)
  /\ (forall z, before (tok z) (tok b) = false -> before (tok z) (tok m) = false).
Proof.
  induction hs as [|h hs IH]; intros b m H; cbn [fold_left] in H.
  - inversion H; subst. split; [apply before_irrefl |]. split; [intros h [] | auto].
  - unfold min_step at 2 in H. destruct (before (tok h) (tok b)) eqn:E.
    + destruct (IH _ _ H) as (A & B & C). split; [| split].
      * apply C. apply before_asym; exact E.
      * intros h' [<-|Hin]; auto.
      * intros z Hz. apply C. destruct (before (tok z) (tok h)) eqn:Ez; auto.
        rewrite (before_trans _ _ _ Ez E) in Hz; discriminate.
    + destruct (IH _ _ H) as (A & B & C). split; [exact A | split; [| exact C]].
      intros h' [<-|Hin]; auto.
Qed.

Lemma min_row_min hs m : min_row hs = Some m -> forall h, In h hs -> before (tok h) (tok m) = false.
Proof.
  unfold min_row. destruct hs as [|h0 hs]; [discriminate |]. cbn [fold_left min_step]. intros H h Hin.
  destruct (min_step_fold_min hs h0 m H) as (A & B & _). destruct Hin as [<-|Hin]; auto.
Qed.

(* ---------- the structure of a merged row ---------- *)
Lemma merge_all_struct fuel : forall fs r,
  In r (merge_all fuel fs) ->
  exists m hs, r = group m hs /\ In m (concat fs) /\ (forall h, In h hs -> In h (concat fs)).
Proof.
  induction fuel as [|k IH]; intros fs r H; cbn [merge_all] in H; [destruct H |].
  destruct (min_row (heads fs)) as [m|] eqn:E; [| destruct H].
  destruct H as [<-|H].
  - exists m, (heads fs). split; [reflexivity |]. split; [apply heads_in, min_row_in, E | intros h Hh; apply heads_in, Hh].
  - destruct (IH _ _ H) as (m' & hs & Hr & Hm & Hall). exists m', hs. split; [exact Hr |].
    split; [eapply concat_pop_incl; exact Hm | intros h Hh; eapply concat_pop_incl; apply Hall, Hh].
Qed.

Lemma tok_group m hs : tok (group m hs) = tok m.
Proof. reflexivity. Qed.

(* a merged row whose token only belongs to removal entries carries the "removed from all channels" flag *)
Lemma merge_all_allremoved fuel fs r :
  In r (merge_all fuel fs) ->
  (forall x, In x (concat fs) -> tok x = tok r -> w_removed x <> []) ->
  w_allremoved r = true.
Proof.
  intros H Hall. destruct (merge_all_struct fuel fs r H) as (m & hs & -> & Hm & Hhs).
  cbn [group w_allremoved]. apply andb_true_iff; split.
  - specialize (Hall m Hm (eq_sym (tok_group m hs))). destruct (w_removed m); [congruence | reflexivity].
  - apply forallb_forall. intros h Hh. apply filter_In in Hh as [Hh Ht]. apply tok_eqb_eq in Ht.
    specialize (Hall h (Hhs h Hh)). rewrite tok_group in Hall. specialize (Hall Ht).
    destruct (w_removed h); [congruence | reflexivity].
Qed.

(* ---------- the merge of strictly ascending feeds is strictly ascending ---------- *)
Lemma ssorted_tail h t : ssorted (h :: t) -> ssorted t.
Proof. cbn; tauto. Qed.

Lemma pop_sorted m f : ssorted f -> ssorted (pop m f).
Proof. unfold pop; destruct f as [|h t]; auto. destruct (tok_eqb h m); auto. apply ssorted_tail. Qed.

Lemma heads_head f fs h t : In f fs -> f = h :: t -> In h (heads fs).
Proof. intros Hin ->. unfold heads. apply in_flat_map. exists (h :: t). split; auto. left; reflexivity. Qed.

Lemma after_pop m fs :
  (forall f, In f fs -> ssorted f) ->
  min_row (heads fs) = Some m ->
  forall x, In x (concat (map (pop m) fs)) -> tlt m x.
Proof.
  intros Hs Hm x Hx. apply in_concat in Hx as (f' & Hf' & Hx). apply in_map_iff in Hf' as (f & <- & Hf).
  specialize (Hs f Hf). destruct f as [|h t]; [destruct Hx |].
  pose proof (min_row_min _ _ Hm h (heads_head _ _ _ _ Hf eq_refl)) as Hnb.
  cbn [pop] in Hx. destruct (tok_eqb h m) eqn:E.
  - apply tok_eqb_eq in E. destruct Hs as [Hh _]. eapply tlt_tok_l; [exact E | apply Hh; exact Hx].
  - assert (tlt m h) as Hmh.
    { assert (tok m <> tok h) as Hne by (intros Heq; rewrite tok_eqb_sym in E; apply tok_eqb_eq in Heq; congruence).
      destruct (before_total _ _ Hne) as [H|H]; [exact H | congruence]. }
    destruct Hx as [<-|Hx]; [exact Hmh |]. destruct Hs as [Hh _]. eapply tlt_trans; [exact Hmh | apply Hh; exact Hx].
Qed.

Lemma merge_all_tok_origin fuel fs r : In r (merge_all fuel fs) -> exists x, In x (concat fs) /\ tok r = tok x.
Proof.
  intros H. destruct (merge_all_struct fuel fs r H) as (m & hs & -> & Hm & _). exists m; split; auto.
Qed.

Theorem merge_all_sorted fuel : forall fs,
  (forall f, In f fs -> ssorted f) -> ssorted (merge_all fuel fs).
Proof.
  induction fuel as [|k IH]; intros fs Hs; cbn [merge_all]; [exact I |].
  destruct (min_row (heads fs)) as [m|] eqn:E; [| exact I].
  cbn [ssorted]. split.
  - intros y Hy. destruct (merge_all_tok_origin _ _ _ Hy) as (x & Hx & Ht).
    unfold tlt. rewrite tok_group, Ht. apply (after_pop m fs Hs E x Hx).
  - apply IH. intros f' Hf'. apply in_map_iff in Hf' as (f & <- & Hf). apply pop_sorted, Hs, Hf.
Qed.

Lemma ssorted_filter p f : ssorted f -> ssorted (filter p f).
Proof.
  induction f as [|h t IH]; cbn [filter ssorted]; auto. intros [Hh Ht].
  destruct (p h); [cbn [ssorted]; split; auto | auto].
  intros y Hy. apply filter_In in Hy as [Hy _]. auto.
Qed.

Lemma ssorted_in_split f x y : ssorted f -> In x f -> In y f -> x = y \/ tlt x y \/ tlt y x.
Proof.
  induction f as [|h t IH]; [intros _ [] |]. intros [Hh Ht] [<-|Hx] [<-|Hy]; auto.
Qed.

Lemma ssorted_tok_unique f x y : ssorted f -> In x f -> In y f -> tok x = tok y -> x = y.
Proof.
  intros Hs Hx Hy Ht. destruct (ssorted_in_split f x y Hs Hx Hy) as [H|[H|H]]; auto; exfalso;
    unfold tlt in H; rewrite Ht in H; rewrite before_irrefl in H; discriminate.
Qed.

Lemma pull_sorted snap since :
  (forall f, In f (feeds snap since) -> ssorted f) -> ssorted (pull snap since 0).
Proof.
  intros Hs. unfold pull, take_limit. rewrite N.eqb_refl. apply ssorted_filter, merge_all_sorted, Hs.
Qed.

(* ---------- the last row about a document ---------- *)
Lemma last_about_split d rows :
  match last_about d rows with
  | Some r => exists l1 l2, rows = l1 ++ r :: l2 /\ about d r = true /\ (forall x, In x l2 -> about d x = false)
  | None => forall x, In x rows -> about d x = false
  end.
Proof.
  induction rows as [|r rows IH]; cbn [last_about]; [intros x [] |].
  destruct (last_about d rows) as [x|] eqn:E.
  - destruct IH as (l1 & l2 & -> & Ha & Hl2). exists (r :: l1), l2. repeat split; auto.
  - destruct (about d r) eqn:Ea.
    + exists [], rows. repeat split; auto.
    + intros x [<-|Hx]; auto.
Qed.

(* in an ascending response: if a row rstar about d is good, and every row about d is good or ordered before rstar,
   then the last row about d is good *)
Lemma last_about_sorted d rows (P : row -> Prop) rstar :
  ssorted rows -> In rstar rows -> about d rstar = true -> P rstar ->
  (forall r, In r rows -> about d r = true -> P r \/ tlt r rstar) ->
  exists r, last_about d rows = Some r /\ P r.
Proof.
  intros Hs Hin Ha HP Hall. pose proof (last_about_split d rows) as Hsp.
  destruct (last_about d rows) as [r|].
  - destruct Hsp as (l1 & l2 & -> & Har & Hl2). exists r; split; auto.
    assert (In r (l1 ++ r :: l2)) as Hr by (apply in_or_app; right; left; reflexivity).
    destruct (Hall r Hr Har) as [H|H]; auto. exfalso.
    (* rstar is r or before r *)
    apply in_app_or in Hin as [Hin|[Heq|Hin]].
    + assert (tlt rstar r) as Hlt.
      { clear -Hs Hin. induction l1 as [|a l1 IH]; [destruct Hin |]. cbn [app ssorted] in Hs. destruct Hs as [Ha Hs].
        destruct Hin as [<-|Hin]; [apply Ha; apply in_or_app; right; left; reflexivity | apply IH; auto]. }
      exact (tlt_asym _ _ H Hlt).
    + subst. exact (tlt_irrefl _ H).
    + rewrite (Hl2 _ Hin) in Ha; discriminate.
  - rewrite (Hsp _ Hin) in Ha; discriminate.
Qed.

(* ---------- the feeds of one request are ascending when the channel logs are ---------- *)
Fixpoint asc_log (l : list logentry) : Prop :=
  match l with
  | [] => True
  | e :: t => (forall y, In y t -> le_seq e < le_seq y) /\ asc_log t
  end.

Lemma asc_log_filter p l : asc_log l -> asc_log (filter p l).
Proof.
  induction l as [|h t IH]; cbn [filter asc_log]; auto. intros [Hh Ht].
  destruct (p h); [cbn [asc_log]; split; auto | auto].
  intros y Hy. apply filter_In in Hy as [Hy _]. auto.
Qed.

(* the token of a channel-feed row: TriggeredBy survives only in front of smaller sequences *)
Definition tokof (trig s : N) : seqid := if trig <=? s then mk 0 0 s else mk trig 0 s.

Lemma before_tokof trig s1 s2 : s1 < s2 -> before (tokof trig s1) (tokof trig s2) = true.
Proof.
  intros H. unfold tokof. destruct (trig <=? s1) eqn:E1, (trig <=? s2) eqn:E2;
    unfold before, Before, Before_fuel, mk; cbn [Before_f TriggeredBy LowSeq Seq]; break_ifs; lia.
Qed.

Lemma chan_feed_from_tok c l : forall trig0 trig,
  asc_log l -> (trig = trig0 \/ (trig = 0 /\ forall e, In e l -> trig0 <= le_seq e)) ->
  forall r, In r (chan_feed_from c trig l) ->
    tok r = tokof trig0 (w_seq r) /\ exists e, In e l /\ le_seq e = w_seq r /\ le_doc e = w_doc r /\ le_rev e = w_rev r
                                        /\ le_deleted e = w_deleted r /\ w_removed r = (if le_removed e then [c] else [])
                                        /\ w_revoked r = false /\ w_principal r = false /\ w_allremoved r = false
                                        /\ (le_deleted e || le_removed e = true -> trig0 <= le_seq e).
Proof.
  induction l as [|e l IH]; intros trig0 trig Ha Ht r Hr; cbn [chan_feed_from] in Hr; [destruct Hr |].
  destruct Ha as [Hlt Ha].
  set (trig' := if trig <=? le_seq e then 0 else trig) in *.
  assert (trig' = (if trig0 <=? le_seq e then 0 else trig0)) as Htr.
  { subst trig'. destruct Ht as [->|[-> Hall]]; auto.
    assert (trig0 <= le_seq e) by (apply Hall; left; reflexivity).
    replace (trig0 <=? le_seq e) with true by lia. destruct (0 <=? le_seq e); reflexivity. }
  assert (trig' = trig0 \/ (trig' = 0 /\ forall y, In y l -> trig0 <= le_seq y)) as Hnext.
  { rewrite Htr. destruct (trig0 <=? le_seq e) eqn:E; auto. right; split; auto.
    intros y Hy. specialize (Hlt y Hy). lia. }
  assert (forall r, In r (chan_feed_from c trig' l) ->
            tok r = tokof trig0 (w_seq r) /\ exists e0, In e0 (e :: l) /\ le_seq e0 = w_seq r /\ le_doc e0 = w_doc r /\ le_rev e0 = w_rev r
                                        /\ le_deleted e0 = w_deleted r /\ w_removed r = (if le_removed e0 then [c] else [])
                                        /\ w_revoked r = false /\ w_principal r = false /\ w_allremoved r = false
                                        /\ (le_deleted e0 || le_removed e0 = true -> trig0 <= le_seq e0)) as Hrest.
  { intros r0 Hr0. destruct (IH trig0 trig' Ha Hnext r0 Hr0) as (A & e0 & He0 & B). split; auto. exists e0; split; auto. right; exact He0. }
  destruct ((0 <? trig') && (le_deleted e || le_removed e)) eqn:Hskip; [apply Hrest; exact Hr |].
  destruct Hr as [<-|Hr]; [| apply Hrest; exact Hr].
  cbn [w_seq w_doc w_rev w_deleted w_removed w_revoked w_principal w_allremoved]. split.
  - unfold tok, tokof; cbn [w_trig w_seq]. rewrite Htr. destruct (trig0 <=? le_seq e); reflexivity.
  - exists e. split; [left; reflexivity |]. repeat split; auto.
    intros Hdr. rewrite Hdr, andb_true_r in Hskip. rewrite Htr in Hskip.
    destruct (trig0 <=? le_seq e) eqn:E; [lia |]. lia.
Qed.

Lemma chan_feed_from_sorted c l : forall trig, asc_log l -> ssorted (chan_feed_from c trig l).
Proof.
  intros trig Ha.
  assert (forall l trig0 trig, asc_log l -> (trig = trig0 \/ (trig = 0 /\ forall e, In e l -> trig0 <= le_seq e)) ->
            ssorted (chan_feed_from c trig l)) as K.
  { clear. induction l as [|e l IH]; intros trig0 trig Ha Ht; cbn [chan_feed_from]; [exact I |].
    pose proof Ha as [Hlt Ha'].
    set (trig' := if trig <=? le_seq e then 0 else trig) in *.
    assert (trig' = (if trig0 <=? le_seq e then 0 else trig0)) as Htr.
    { subst trig'. destruct Ht as [->|[-> Hall]]; auto.
      assert (trig0 <= le_seq e) by (apply Hall; left; reflexivity).
      replace (trig0 <=? le_seq e) with true by lia. destruct (0 <=? le_seq e); reflexivity. }
    assert (trig' = trig0 \/ (trig' = 0 /\ forall y, In y l -> trig0 <= le_seq y)) as Hnext.
    { rewrite Htr. destruct (trig0 <=? le_seq e) eqn:E; auto. right; split; auto.
      intros y Hy. specialize (Hlt y Hy). lia. }
    destruct ((0 <? trig') && (le_deleted e || le_removed e)); [eapply IH; eauto |].
    cbn [ssorted]. split; [| eapply IH; eauto].
    intros y Hy. destruct (chan_feed_from_tok c l trig0 trig' Ha' Hnext y Hy) as (Hty & e0 & He0 & Hs0 & _).
    unfold tlt. rewrite Hty. unfold tok at 1; cbn [w_trig w_seq].
    replace (mk trig' 0 (le_seq e)) with (tokof trig0 (le_seq e))
      by (unfold tokof; rewrite Htr; destruct (trig0 <=? le_seq e); reflexivity).
    apply before_tokof. rewrite <- Hs0. apply Hlt; exact He0. }
  apply (K l trig trig Ha). left; reflexivity.
Qed.

Lemma chan_feed_sorted c cs l : asc_log l -> ssorted (chan_feed c cs l).
Proof. intros Ha; unfold chan_feed. apply chan_feed_from_sorted, asc_log_filter, Ha. Qed.

Lemma before_same_trig t s1 s2 : s1 < s2 -> before (mk t 0 s1) (mk t 0 s2) = true.
Proof. intros H; unfold before, Before, Before_fuel, mk; cbn [Before_f TriggeredBy LowSeq Seq]; break_ifs; lia. Qed.

Lemma revoked_feed_sorted snap since c at_ : asc_log (log_of c (s_logs snap)) -> ssorted (revoked_feed snap since c at_).
Proof.
  unfold revoked_feed. destruct (revoke_params since at_) as [rev_since revoke_from]. intros Ha.
  apply (asc_log_filter (fun e => revoke_from <? le_seq e)) in Ha.
  induction (filter (fun e => revoke_from <? le_seq e) (log_of c (s_logs snap))) as [|e l IH]; cbn [flat_map]; [exact I |].
  destruct Ha as [Hlt Ha]. specialize (IH Ha).
  match goal with |- ssorted ((if ?b then _ else _) ++ _) => destruct b end; cbn [app]; [| exact IH].
  cbn [ssorted]; split; [| exact IH].
  intros y Hy. apply in_flat_map in Hy as (e' & He' & Hy).
  match type of Hy with In y (if ?b then _ else _) => destruct b end; [| destruct Hy].
  destruct Hy as [<-|[]]. unfold tlt, tok; cbn [w_trig w_seq]. apply before_same_trig, Hlt, He'.
Qed.

Lemma user_feed_sorted snap since : ssorted (user_feed snap since).
Proof. unfold user_feed. destruct (before since _); cbn; auto. split; [intros y [] | exact I]. Qed.

Definition logs_asc (snap : snapshot) : Prop := forall c, asc_log (log_of c (s_logs snap)).

Lemma feeds_sorted snap since : logs_asc snap -> forall f, In f (feeds snap since) -> ssorted f.
Proof.
  intros Hl f Hf. unfold feeds in Hf. apply in_app_or in Hf as [Hf|Hf].
  - apply in_flat_map in Hf as ([c added] & _ & Hf).
    destruct (chan_since since (s_cached snap) added); [| destruct Hf].
    destruct Hf as [<-|[]]. apply chan_feed_sorted, Hl.
  - apply in_app_or in Hf as [[<-|[]]|Hf]; [apply user_feed_sorted |].
    apply in_map_iff in Hf as ([c at_] & <- & _). apply revoked_feed_sorted, Hl.
Qed.
