(* C13: lemmas about the pure components of Revocation.v -- association-list helpers, calculateHistory
   (history_records_periods), RevokedCollectionChannels (revoked_sound and the membership lemmas used by
   revoked_complete). *)
From SG Require Import Base.Prelude C13.Revocation.
Open Scope N_scope.

(* ---------- association lists ---------- *)
Lemma tmem_tget c t : tmem c t = true <-> exists s, tget c t = Some s.
Proof. unfold tmem; destruct (tget c t); split; intros H; eauto; try discriminate; destruct H; discriminate. Qed.

Lemma tmem_false_tget c t : tmem c t = false <-> tget c t = None.
Proof. unfold tmem; destruct (tget c t); split; congruence. Qed.

Lemma tget_put_same c s t : tget c (tset_put c s t) = Some s.
Proof.
  induction t as [|[k v] r IH]; cbn [tset_put tget].
  - rewrite N.eqb_refl; reflexivity.
  - destruct (k =? c) eqn:E; cbn [tget].
    + rewrite N.eqb_refl; reflexivity.
    + rewrite E; exact IH.
Qed.

Lemma tget_put_other c d s t : d <> c -> tget d (tset_put c s t) = tget d t.
Proof.
  intros Hne; induction t as [|[k v] r IH]; cbn [tset_put tget].
  - destruct (c =? d) eqn:E; [apply N.eqb_eq in E; congruence | reflexivity].
  - destruct (k =? c) eqn:E; cbn [tget].
    + apply N.eqb_eq in E; subst k.
      destruct (c =? d) eqn:E2; [apply N.eqb_eq in E2; congruence | reflexivity].
    + destruct (k =? d); [reflexivity | exact IH].
Qed.

Lemma tmem_put c d s t : tmem d (tset_put c s t) = (d =? c) || tmem d t.
Proof.
  unfold tmem; destruct (N.eq_dec d c) as [->|Hne].
  - rewrite tget_put_same, N.eqb_refl; reflexivity.
  - rewrite tget_put_other by exact Hne.
    destruct (d =? c) eqn:E; [apply N.eqb_eq in E; congruence | reflexivity].
Qed.

Lemma tmem_tadd_keep c s d t : tmem d t = true -> tmem d (tadd c s t) = true.
Proof.
  intros H; unfold tadd; break_ifs; try exact H; destruct (tget c t); break_ifs;
    rewrite ?tmem_put, ?H, ?orb_true_r; auto.
Qed.

Lemma tmem_tadd_new c s t : 0 < s -> tmem c (tadd c s t) = true.
Proof.
  intros Hs; unfold tadd. replace (0 <? s) with true by lia.
  destruct (tget c t) eqn:E.
  - break_ifs; [rewrite tmem_put, N.eqb_refl; reflexivity | unfold tmem; rewrite E; reflexivity].
  - rewrite tmem_put, N.eqb_refl; reflexivity.
Qed.

Lemma tmem_tadd_inv c s d t : tmem d (tadd c s t) = true -> d = c \/ tmem d t = true.
Proof.
  unfold tadd; break_ifs; auto; destruct (tget c t); break_ifs; auto; rewrite tmem_put;
    intros H; apply orb_true_iff in H as [H|H]; auto; left; apply N.eqb_eq; exact H.
Qed.

Lemma tmem_tadd_at_keep other at_ d t : tmem d t = true -> tmem d (tadd_at other at_ t) = true.
Proof.
  unfold tadd_at; revert t; induction other as [|[c s] r IH]; intros t H; cbn [fold_left]; auto.
  apply IH, tmem_tadd_keep, H.
Qed.

Lemma tmem_tadd_at_inv other at_ d t :
  tmem d (tadd_at other at_ t) = true -> tmem d t = true \/ tmem d other = true.
Proof.
  unfold tadd_at; revert t; induction other as [|[c s] r IH]; intros t H; cbn [fold_left] in H; auto.
  apply IH in H as [H|H].
  - apply tmem_tadd_inv in H as [->|H]; auto.
    right; unfold tmem; cbn [tget]; rewrite N.eqb_refl; reflexivity.
  - right; unfold tmem in *; cbn [tget]; destruct (c =? d); auto.
Qed.

(* a channel of [other] with a positive effective sequence ends up in the set *)
Lemma tmem_tadd_at_new other at_ d t :
  (forall s, tget d other = Some s -> 0 < N.max s at_) ->
  tmem d other = true -> tmem d (tadd_at other at_ t) = true.
Proof.
  unfold tadd_at; revert t; induction other as [|[c s] r IH]; intros t Hpos H.
  - discriminate.
  - cbn [fold_left]. unfold tmem in H; cbn [tget] in H, Hpos.
    destruct (c =? d) eqn:E.
    + apply N.eqb_eq in E; subst c.
      fold (tadd_at r at_ (tadd d (N.max s at_) t)).
      apply tmem_tadd_at_keep, tmem_tadd_new, Hpos; reflexivity.
    + apply IH; [exact Hpos | exact H].
Qed.

Lemma hget_in c h e : In e (hget c h) -> exists k es, In (k, es) h /\ (k =? c) = true /\ es = hget c h.
Proof.
  induction h as [|[k es] r IH]; cbn [hget]; [intros [] |].
  destruct (k =? c) eqn:E; intros H.
  - exists k, es; split; [left; reflexivity | auto].
  - destruct (IH H) as (k' & es' & Hin & Hk & He); exists k', es'; split; [right; exact Hin | auto].
Qed.

(* ---------- calculateHistory ---------- *)
Lemma hget_append_same c e h : hget c (hist_append c e h) = hget c h ++ [e].
Proof.
  induction h as [|[k es] r IH]; cbn [hist_append hget].
  - rewrite N.eqb_refl; reflexivity.
  - destruct (k =? c) eqn:E; cbn [hget]; rewrite E; [reflexivity | exact IH].
Qed.

Lemma hget_append_other c d e h : d <> c -> hget d (hist_append c e h) = hget d h.
Proof.
  intros Hne; induction h as [|[k es] r IH]; cbn [hist_append hget].
  - destruct (c =? d) eqn:E; [apply N.eqb_eq in E; congruence | reflexivity].
  - destruct (k =? c) eqn:E; cbn [hget].
    + apply N.eqb_eq in E; subst k. destruct (c =? d) eqn:E2; [apply N.eqb_eq in E2; congruence | reflexivity].
    + destruct (k =? d); [reflexivity | exact IH].
Qed.

(* entries are only ever appended *)
Lemma record_lost_incl inval lost new_ h c e :
  In e (hget c h) -> In e (hget c (record_lost inval lost new_ h)).
Proof.
  unfold record_lost; revert h; induction lost as [|[k s] r IH]; intros h H; cbn [fold_left]; auto.
  apply IH. destruct (tmem k new_); auto.
  destruct (N.eq_dec c k) as [->|Hne].
  - rewrite hget_append_same; apply in_or_app; auto.
  - rewrite hget_append_other by exact Hne; exact H.
Qed.

(* a lost grant leaves an entry ending at the invalidation sequence *)
Lemma record_lost_records inval lost new_ h c :
  tmem c lost = true -> tmem c new_ = false ->
  exists s, In (s, inval) (hget c (record_lost inval lost new_ h)).
Proof.
  unfold record_lost; revert h; induction lost as [|[k s] r IH]; intros h Hl Hn; [discriminate |].
  cbn [fold_left]. unfold tmem in Hl; cbn [tget] in Hl.
  destruct (k =? c) eqn:E.
  - apply N.eqb_eq in E; subst k. rewrite Hn. exists s.
    apply (record_lost_incl inval r new_). rewrite hget_append_same; apply in_or_app; right; left; reflexivity.
  - apply IH; auto.
Qed.

Lemma record_lost_untouched inval lost new_ h c :
  (tmem c lost = false \/ tmem c new_ = true) -> hget c (record_lost inval lost new_ h) = hget c h.
Proof.
  unfold record_lost; revert h; induction lost as [|[k s] r IH]; intros h H; cbn [fold_left]; auto.
  destruct (N.eq_dec c k) as [->|Hne].
  - destruct H as [H|H].
    + unfold tmem in H; cbn [tget] in H; rewrite N.eqb_refl in H; discriminate.
    + rewrite H. apply IH; auto.
  - rewrite IH.
    + destruct (tmem k new_); auto. apply hget_append_other; exact Hne.
    + destruct H as [H|H]; auto. left. unfold tmem in *; cbn [tget] in H.
      destruct (k =? c) eqn:E; [apply N.eqb_eq in E; congruence | exact H].
Qed.

(* exact form: one grant of the channel in the invalidated set *)
Lemma record_lost_exact inval lost new_ h c s :
  NoDup (map fst lost) -> In (c, s) lost -> tmem c new_ = false ->
  hget c (record_lost inval lost new_ h) = hget c h ++ [(s, inval)].
Proof.
  unfold record_lost; revert h; induction lost as [|[k v] r IH]; intros h Hnd Hin Hn; [destruct Hin |].
  cbn [fold_left]. inversion Hnd as [|? ? Hnotin Hnd']; subst.
  destruct Hin as [Heq|Hin].
  - inversion Heq; subst k v. rewrite Hn.
    fold (record_lost inval r new_ (hist_append c (s, inval) h)).
    rewrite record_lost_untouched.
    + apply hget_append_same.
    + left. apply tmem_false_tget. clear -Hnotin. induction r as [|[k v] r IH]; cbn [tget]; auto.
      cbn [map fst] in Hnotin. destruct (k =? c) eqn:E.
      * apply N.eqb_eq in E; subst; exfalso; apply Hnotin; left; reflexivity.
      * apply IH; intros H; apply Hnotin; right; exact H.
  - assert (k <> c) as Hne.
    { intros ->; apply Hnotin; apply (in_map fst) in Hin; exact Hin. }
    rewrite (IH _ Hnd' Hin Hn). f_equal.
    destruct (tmem k new_); auto. apply hget_append_other; congruence.
Qed.

Lemma hget_map_compact c m h :
  hget c (map (fun '(k, es) => (k, compact_one m es)) h) = compact_one m (hget c h).
Proof.
  induction h as [|[k es] r IH]; cbn [map hget].
  - unfold compact_one; cbn; destruct (Nat.ltb m 0); reflexivity.
  - destruct (k =? c); [reflexivity | exact IH].
Qed.

Lemma compact_one_id m es : (length es <= m)%nat -> compact_one m es = es.
Proof. intros H; unfold compact_one. replace (Nat.ltb m (length es)) with false; auto. symmetry; apply Nat.ltb_ge; exact H. Qed.

Lemma calc_history_get inval lost new_ h c :
  hget c (calc_history inval lost new_ h) =
  compact_one (max_entries (length (record_lost inval lost new_ h))) (hget c (record_lost inval lost new_ h)).
Proof. unfold calc_history; apply hget_map_compact. Qed.

(* the end of the newest entry survives the max-entries merge *)
Lemma compact_one_last_end m es : last_end (compact_one m es) = last_end es.
Proof.
  unfold compact_one, last_end; destruct (Nat.ltb m (length es)); auto.
  destruct es as [|[s0 e0] [|[s1 e1] rest]]; auto.
  cbn [last]. destruct rest; reflexivity.
Qed.

(* ---------- revoked channels: every reported channel passed the accessibility guard ---------- *)
Lemma tmem_radd c s d m : tmem d (radd c s m) = (d =? c) || tmem d m.
Proof.
  unfold radd; destruct (tget c m) eqn:E.
  - destruct (n <? s); [apply tmem_put |].
    destruct (d =? c) eqn:E2; auto. apply N.eqb_eq in E2; subst d. unfold tmem; rewrite E; reflexivity.
  - apply tmem_put.
Qed.

Definition guarded (acc_chans m : tset) : Prop := forall d, tmem d m = true -> tmem d acc_chans = false.

Lemma guarded_radd acc_chans c s m : guarded acc_chans m -> tmem c acc_chans = false -> guarded acc_chans (radd c s m).
Proof.
  intros G Hc d; rewrite tmem_radd; intros H; apply orb_true_iff in H as [H|H]; auto.
  apply N.eqb_eq in H; subst; exact Hc.
Qed.

Lemma guarded_hist_processing acc_chans chk trig h m :
  guarded acc_chans m -> guarded acc_chans (hist_processing acc_chans chk trig h m).
Proof.
  unfold hist_processing; revert m; induction h as [|[c es] r IH]; intros m G; cbn [fold_left]; auto.
  apply IH. destruct (tmem c acc_chans) eqn:E; cbn [negb andb]; auto.
  destruct (existsb (hit chk trig) es); auto. apply guarded_radd; auto.
Qed.

(* the inner loop of the revoked-role processing: over the entries [l] of one channel's history [es_all] *)
Lemma inner_guarded acc_chans chk trig rseq c (es_all l : list period) m :
  guarded acc_chans m -> tmem c acc_chans = false ->
  guarded acc_chans (fold_left (fun m e => if hit chk trig e
                                           then (if rseq <? snd e then radd c rseq m else radd c (last_end es_all) m)
                                           else m) l m).
Proof.
  revert m; induction l as [|e l IH]; intros m G Hc; cbn [fold_left]; auto.
  apply IH; auto. destruct (hit chk trig e); auto. destruct (rseq <? snd e); apply guarded_radd; auto.
Qed.

Lemma inner_keep chk trig rseq c (es_all l : list period) m d :
  tmem d m = true ->
  tmem d (fold_left (fun m e => if hit chk trig e
                               then (if rseq <? snd e then radd c rseq m else radd c (last_end es_all) m)
                               else m) l m) = true.
Proof.
  revert m; induction l as [|e l IH]; intros m H; cbn [fold_left]; auto.
  apply IH. destruct (hit chk trig e); auto. destruct (rseq <? snd e); rewrite tmem_radd, H; apply orb_true_r.
Qed.

Lemma inner_adds chk trig rseq c (es_all l : list period) m e :
  In e l -> hit chk trig e = true ->
  tmem c (fold_left (fun m e => if hit chk trig e
                               then (if rseq <? snd e then radd c rseq m else radd c (last_end es_all) m)
                               else m) l m) = true.
Proof.
  revert m; induction l as [|e0 l IH]; intros m Hin Hhit; [destruct Hin |].
  cbn [fold_left]. destruct Hin as [->|Hin]; [| apply IH; auto].
  rewrite Hhit. apply inner_keep. destruct (rseq <? snd e); rewrite tmem_radd, N.eqb_refl; reflexivity.
Qed.

Lemma guarded_role_processing acc_chans chk trig r rseq m :
  guarded acc_chans m -> guarded acc_chans (revoked_role_processing acc_chans chk trig r rseq m).
Proof.
  intros G; unfold revoked_role_processing.
  set (m1 := if r_deleted r then m else _).
  assert (guarded acc_chans m1) as G1.
  { subst m1; destruct (r_deleted r); auto.
    generalize (r_chans r); intros l; revert m G; induction l as [|[c s] l IH]; intros m G; cbn [fold_left]; auto.
    apply IH. destruct (tmem c acc_chans) eqn:E; auto. apply guarded_radd; auto. }
  clearbody m1. generalize (r_hist r); intros h; revert m1 G1.
  induction h as [|[c es] h IH]; intros m1 G1; cbn [fold_left]; auto.
  apply IH. destruct (tmem c acc_chans) eqn:E; auto. apply inner_guarded; auto.
Qed.

Lemma revoked_guarded u roles since low trig :
  guarded (inherited u roles) (revoked_channels u roles since low trig).
Proof.
  unfold revoked_channels.
  set (acc_chans := inherited u roles). set (chk := check_seq since low trig).
  apply guarded_hist_processing.
  match goal with |- guarded _ (fold_left _ ?l ?m0) => generalize l; intros l0; assert (guarded acc_chans m0) as G0 end.
  { generalize (roles_to_revoke u chk trig); intros l.
    assert (guarded acc_chans []) as G by (intros d H; discriminate).
    revert G; generalize (@nil (N * N)); induction l as [|[name rseq] l IH]; intros m G; cbn [fold_left]; auto.
    apply IH. destruct (find_role name roles); auto. apply guarded_role_processing; auto. }
  revert G0; match goal with |- guarded _ ?m0 -> _ => generalize m0 end.
  induction l0 as [|[r x] l0 IH]; intros m G; cbn [fold_left]; auto.
  apply IH, guarded_hist_processing, G.
Qed.

(* membership is never lost by the later folds *)
Lemma hist_processing_keep acc_chans chk trig h m d :
  tmem d m = true -> tmem d (hist_processing acc_chans chk trig h m) = true.
Proof.
  unfold hist_processing; revert m; induction h as [|[c es] r IH]; intros m H; cbn [fold_left]; auto.
  apply IH. destruct (negb (tmem c acc_chans) && existsb (hit chk trig) es); auto.
  rewrite tmem_radd, H; apply orb_true_r.
Qed.

Lemma hist_processing_adds acc_chans chk trig h m k es d :
  In (k, es) h -> (k =? d) = true -> tmem d acc_chans = false -> existsb (hit chk trig) es = true ->
  tmem d (hist_processing acc_chans chk trig h m) = true.
Proof.
  unfold hist_processing; revert m; induction h as [|[c es'] r IH]; intros m Hin Hk Hacc Hhit; [destruct Hin |].
  cbn [fold_left]. destruct Hin as [Heq|Hin].
  - inversion Heq; subst c es'. apply N.eqb_eq in Hk; subst k. rewrite Hacc, Hhit; cbn [negb andb].
    fold (hist_processing acc_chans chk trig r (radd d (last_end es) m)).
    apply hist_processing_keep. rewrite tmem_radd, N.eqb_refl; reflexivity.
  - apply IH; auto.
Qed.

Lemma role_processing_keep acc_chans chk trig r rseq m d :
  tmem d m = true -> tmem d (revoked_role_processing acc_chans chk trig r rseq m) = true.
Proof.
  intros H; unfold revoked_role_processing.
  set (m1 := if r_deleted r then m else _).
  assert (tmem d m1 = true) as H1.
  { subst m1; destruct (r_deleted r); auto.
    generalize (r_chans r); intros l; revert m H; induction l as [|[c s] l IH]; intros m H; cbn [fold_left]; auto.
    apply IH. destruct (tmem c acc_chans); auto. rewrite tmem_radd, H; apply orb_true_r. }
  clearbody m1. generalize (r_hist r); intros h; revert m1 H1.
  induction h as [|[c es] h IH]; intros m1 H1; cbn [fold_left]; auto.
  apply IH. destruct (tmem c acc_chans); auto. apply inner_keep; auto.
Qed.

Lemma chans_fold_keep acc_chans rseq (l : tset) m d :
  tmem d m = true ->
  tmem d (fold_left (fun m '(c, _) => if tmem c acc_chans then m else radd c rseq m) l m) = true.
Proof.
  revert m; induction l as [|[c s] l IH]; intros m H; cbn [fold_left]; auto.
  apply IH. destruct (tmem c acc_chans); auto. rewrite tmem_radd, H; apply orb_true_r.
Qed.

Lemma role_processing_adds_current acc_chans chk trig r rseq m d :
  r_deleted r = false -> tmem d (r_chans r) = true -> tmem d acc_chans = false ->
  tmem d (revoked_role_processing acc_chans chk trig r rseq m) = true.
Proof.
  intros Hdel Hc Hacc; unfold revoked_role_processing; rewrite Hdel.
  set (m1 := fold_left _ (r_chans r) m).
  assert (tmem d m1 = true) as H1.
  { subst m1. revert m Hc; generalize (r_chans r); intros l; induction l as [|[c s] l IH]; intros m Hc; [discriminate |].
    cbn [fold_left]. unfold tmem in Hc; cbn [tget] in Hc. destruct (c =? d) eqn:E.
    - apply N.eqb_eq in E; subst c. rewrite Hacc.
      apply chans_fold_keep. rewrite tmem_radd, N.eqb_refl; reflexivity.
    - apply IH; exact Hc. }
  clearbody m1. generalize (r_hist r); intros h; revert m1 H1.
  induction h as [|[c es] h IH]; intros m1 H1; cbn [fold_left]; auto.
  apply IH. destruct (tmem c acc_chans); auto. apply inner_keep; auto.
Qed.

Lemma role_processing_adds_hist acc_chans chk trig r rseq m d k es e :
  In (k, es) (r_hist r) -> (k =? d) = true -> In e es -> hit chk trig e = true -> tmem d acc_chans = false ->
  tmem d (revoked_role_processing acc_chans chk trig r rseq m) = true.
Proof.
  intros Hin Hk He Hhit Hacc; unfold revoked_role_processing.
  set (m1 := if r_deleted r then m else _). clearbody m1.
  revert m1 Hin; generalize (r_hist r); intros h; induction h as [|[c es'] h IH]; intros m1 Hin; [destruct Hin |].
  cbn [fold_left]. destruct Hin as [Heq|Hin]; [| apply IH; exact Hin].
  inversion Heq; subst c es'. apply N.eqb_eq in Hk; subst k. rewrite Hacc.
  set (m2 := fold_left _ es m1).
  assert (tmem d m2 = true) as H2 by (subst m2; eapply inner_adds; eauto).
  clearbody m2. clear IH. revert m2 H2. induction h as [|[c es'] h IH]; intros m2 H2; cbn [fold_left]; auto.
  apply IH. destruct (tmem c acc_chans); auto. apply inner_keep; auto.
Qed.
