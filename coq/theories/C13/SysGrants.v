(* C13: the grant side of the whole-system model (Sys.v): well-formedness of a persisted principal (stamps, history
   ends, the newest history entry ends last) across invalidate / rebuild / role deletion and re-creation, and the
   "synced" relation between a valid principal and the sources of its grants. *)
From SG Require Import Base.Prelude C20.SeqIdGen C20.SeqId
  C13.Revocation C13.RevocationProofs C13.Feed C13.Client C13.DocHist C13.GrantSys C13.GrantSysProofs C13.PeriodsProofs
  C13.MergeSorted C13.Sys C13.SysDocs.
Open Scope N_scope.

Lemma run_app g l1 l2 : run g (l1 ++ l2) = run (run g l1) l2.
Proof. unfold run; apply fold_left_app. Qed.

(* ---------- record_lost only appends entries ending at the invalidation sequence ---------- *)
Lemma record_lost_shape inval lost new_ : forall h c,
  exists l, hget c (record_lost inval lost new_ h) = hget c h ++ l /\ forall e, In e l -> snd e = inval /\ In (c, fst e) lost.
Proof.
  unfold record_lost; induction lost as [|[k s] r IH]; intros h c; cbn [fold_left].
  - exists []. rewrite app_nil_r. split; auto. intros e [].
  - destruct (tmem k new_).
    + destruct (IH h c) as (l & Hl & Hall). exists l; split; auto. intros e He. destruct (Hall e He); split; auto. right; auto.
    + destruct (IH (hist_append k (s, inval) h) c) as (l & Hl & Hall).
      destruct (N.eq_dec c k) as [->|Hne].
      * rewrite hget_append_same in Hl. exists ((s, inval) :: l). split; [rewrite Hl, <- app_assoc; reflexivity |].
        intros e [<-|He]; [cbn; split; auto; left; reflexivity |]. destruct (Hall e He); split; auto. right; auto.
      * rewrite hget_append_other in Hl by exact Hne. exists l; split; auto.
        intros e He. destruct (Hall e He); split; auto. right; auto.
Qed.

Lemma last_end_app es l x : last_end (es ++ l ++ [x]) = snd x.
Proof. unfold last_end. rewrite app_assoc, last_last. reflexivity. Qed.

(* the keys of a history stay distinct *)
Definition huniq (h : hist) : Prop := NoDup (map fst h).

Lemma hist_append_keys c e h :
  map fst (hist_append c e h) = if existsb (N.eqb c) (map fst h) then map fst h else map fst h ++ [c].
Proof.
  induction h as [|[k es] r IH]; cbn [hist_append map fst existsb]; [reflexivity |].
  rewrite (N.eqb_sym c k). destruct (k =? c) eqn:E; cbn [map fst orb]; [reflexivity |].
  rewrite IH. destruct (existsb (N.eqb c) (map fst r)); reflexivity.
Qed.

Lemma huniq_append c e h : huniq h -> huniq (hist_append c e h).
Proof.
  unfold huniq. rewrite hist_append_keys. destruct (existsb (N.eqb c) (map fst h)) eqn:E; auto.
  intros H. apply nodup_app; auto; [constructor; [intros [] | constructor] |].
  intros x Hx Hc. destruct Hc as [Hc|[]]. subst x.
  assert (existsb (N.eqb c) (map fst h) = true) by (apply existsb_exists; exists c; split; auto; apply N.eqb_refl). congruence.
Qed.

Lemma huniq_record_lost inval lost new_ : forall h, huniq h -> huniq (record_lost inval lost new_ h).
Proof.
  unfold record_lost; induction lost as [|[k s] r IH]; intros h H; cbn [fold_left]; auto.
  apply IH. destruct (tmem k new_); auto using huniq_append.
Qed.

Lemma huniq_calc_history inval lost new_ h : huniq h -> huniq (calc_history inval lost new_ h).
Proof.
  intros H. unfold calc_history, huniq. rewrite map_map.
  replace (map (fun x : N * list period => fst (let '(c, es) := x in (c, compact_one (max_entries (length (record_lost inval lost new_ h))) es)))
               (record_lost inval lost new_ h)) with (map fst (record_lost inval lost new_ h)).
  - apply huniq_record_lost; exact H.
  - apply map_ext. intros [c es]; reflexivity.
Qed.

Lemma huniq_in_hget h c es : huniq h -> In (c, es) h -> hget c h = es.
Proof.
  unfold huniq; induction h as [|[k v] r IH]; intros Hnd Hin; [destruct Hin |].
  cbn [map fst] in Hnd. inversion Hnd as [|? ? Hnotin Hnd']; subst. cbn [hget].
  destruct Hin as [Heq|Hin].
  - inversion Heq; subst. rewrite N.eqb_refl; reflexivity.
  - destruct (k =? c) eqn:E; [| apply IH; auto].
    apply N.eqb_eq in E; subst k. exfalso; apply Hnotin. apply (in_map fst) in Hin; exact Hin.
Qed.

(* ---------- a well-formed principal, relative to the clock n (the next sequence) ---------- *)
Definition set_ok (n : N) (t : tset) : Prop :=
  (forall c s, In (c, s) t -> 0 < s < n) /\ uniq t /\ tmem star t = false.

Record pwf (n : N) (p : princ) : Prop := {
  pw_set : set_ok n (p_set p);
  pw_inval : p_inval p < n;
  pw_ends : forall c e, In e (hget c (p_hist p)) -> 0 < snd e < n;
  pw_pending : p_inval p <> 0 -> forall c e, In e (hget c (p_hist p)) -> snd e <= p_inval p;
  pw_last : last_max (p_hist p);
  pw_huniq : huniq (p_hist p) }.

Lemma set_ok_mono n n' t : n <= n' -> set_ok n t -> set_ok n' t.
Proof. intros Hle (H1 & H2 & H3); repeat split; auto; specialize (H1 c s H); lia. Qed.

Lemma pwf_mono n n' p : n <= n' -> pwf n p -> pwf n' p.
Proof.
  intros Hle [H1 H2 H3 H4 H5 H6]. constructor; auto.
  - eapply set_ok_mono; eauto.
  - lia.
  - intros c e He. specialize (H3 c e He). lia.
Qed.

Lemma pwf_invalidate n s p : pwf n p -> n <= s + 1 -> pwf (s + 1) (invalidate s p).
Proof.
  intros Hp Hs. unfold invalidate. destruct (p_inval p =? 0) eqn:E; [| apply (pwf_mono n); [lia | exact Hp]].
  destruct Hp as [H1 H2 H3 H4 H5 H6]. constructor; cbn [p_set p_inval p_hist]; auto.
  - eapply set_ok_mono; [| exact H1]. lia.
  - lia.
  - intros c e He. specialize (H3 c e He). lia.
  - intros _ c e He. specialize (H3 c e He). lia.
Qed.

Lemma last_max_record_lost inval lost new_ h :
  last_max h -> (forall c e, In e (hget c h) -> snd e <= inval) -> last_max (record_lost inval lost new_ h).
Proof.
  intros Hlm Hle c e He. destruct (record_lost_shape inval lost new_ h c) as (l & Hl & Hall).
  rewrite Hl in *. destruct l as [|x l] using rev_ind.
  - rewrite app_nil_r in *. apply Hlm; exact He.
  - clear IHl. rewrite last_end_app.
    assert (snd x = inval) as Hx by (apply Hall, in_or_app; right; left; reflexivity). rewrite Hx.
    apply in_app_or in He as [He|He]; [apply (Hle c); exact He |]. destruct (Hall e He) as [-> _]. lia.
Qed.

Lemma pwf_rebuild n new_ p : pwf n p -> set_ok n new_ -> unpruned_princ new_ p -> pwf n (rebuild new_ p).
Proof.
  intros Hp Hn Hun. unfold rebuild. destruct (p_inval p =? 0) eqn:E; auto.
  apply N.eqb_neq in E. destruct Hp as [H1 H2 H3 H4 H5 H6]. constructor; cbn [p_set p_inval p_hist].
  - exact Hn.
  - lia.
  - rewrite (Hun E). intros c e He. destruct (record_lost_shape (p_inval p) (p_set p) new_ (p_hist p) c) as (l & Hl & Hall).
    rewrite Hl in He. apply in_app_or in He as [He|He]; [apply H3 with c; exact He |].
    destruct (Hall e He) as [-> _]. lia.
  - congruence.
  - rewrite (Hun E). apply last_max_record_lost; [exact H5 | apply H4; exact E].
  - apply huniq_calc_history; exact H6.
Qed.

Lemma pwf_delete n s p :
  pwf n p -> n <= s + 1 -> 0 < s -> p_inval p = 0 ->
  calc_history s (p_set p) [] (p_hist p) = record_lost s (p_set p) [] (p_hist p) ->
  pwf (s + 1) (mkPrinc (p_set p) s (calc_history s (p_set p) [] (p_hist p))).
Proof.
  intros [H1 H2 H3 H4 H5 H6] Hs Hs0 Hv Hun. rewrite Hun. constructor; cbn [p_set p_inval p_hist].
  - eapply set_ok_mono; [| exact H1]. lia.
  - lia.
  - intros c e He. destruct (record_lost_shape s (p_set p) [] (p_hist p) c) as (l & Hl & Hall).
    rewrite Hl in He. apply in_app_or in He as [He|He]; [specialize (H3 c e He); lia |].
    destruct (Hall e He) as [-> _]. lia.
  - intros _ c e He. destruct (record_lost_shape s (p_set p) [] (p_hist p) c) as (l & Hl & Hall).
    rewrite Hl in He. apply in_app_or in He as [He|He]; [specialize (H3 c e He); lia |].
    destruct (Hall e He) as [-> _]. lia.
  - apply last_max_record_lost; auto. intros c e He. specialize (H3 c e He). lia.
  - apply huniq_record_lost; exact H6.
Qed.

Lemma pwf_create n new_ p : pwf n p -> set_ok n new_ -> pwf n (mkPrinc new_ 0 (p_hist p)).
Proof.
  intros [H1 H2 H3 H4 H5 H6] Hn. constructor; cbn [p_set p_inval p_hist]; auto; [lia | congruence].
Qed.

Lemma pwf_fresh n new_ : 0 < n -> set_ok n new_ -> pwf n (mkPrinc new_ 0 []).
Proof.
  intros Hn Hs. constructor; cbn [p_set p_inval p_hist]; auto.
  - intros c e [].
  - congruence.
  - intros c e [].
  - constructor.
Qed.

(* ---------- the whole grant state ---------- *)
Record gwf (n : N) (g : gstate) : Prop := {
  gw_user : pwf n (g_user g);
  gw_uroles : pwf n (g_uroles g);
  gw_roles : forall r p del, role_get r (g_roles g) = Some (p, del) -> pwf n p /\ r <> 0 /\ (del = true -> p_inval p <> 0) }.

Lemma gwf_mono n n' g : n <= n' -> gwf n g -> gwf n' g.
Proof.
  intros Hle [H1 H2 H3]. constructor.
  - eapply pwf_mono; eauto.
  - eapply pwf_mono; eauto.
  - intros r p del Hget. destruct (H3 r p del Hget) as (A & B & C). split; [eapply pwf_mono; eauto | split; auto].
Qed.

(* what an operation must satisfy w.r.t. the clock before it (n) and after it (n') *)
Definition gop_ok (n n' : N) (o : gop) : Prop :=
  match o with
  | InvalUser s | InvalUserRoles s => n <= s + 1 /\ s + 1 <= n'
  | InvalRole r s => n <= s + 1 /\ s + 1 <= n' /\ r <> 0
  | DeleteRole r s => n <= s + 1 /\ s + 1 <= n' /\ r <> 0 /\ 0 < s
  | RebuildUser new_ | RebuildUserRoles new_ => set_ok n new_ /\ n <= n'
  | RebuildRole r new_ | CreateRole r new_ => set_ok n new_ /\ n <= n' /\ r <> 0
  end.

Lemma role_entry_mono n n' (p : princ) (r : N) (del : bool) :
  n <= n' -> pwf n p /\ r <> 0 /\ (del = true -> p_inval p <> 0) -> pwf n' p /\ r <> 0 /\ (del = true -> p_inval p <> 0).
Proof. intros Hle (A & B & C). split; [eapply pwf_mono; eauto | split; auto]. Qed.

Lemma step_gwf n n' g o : 0 < n -> gwf n g -> gop_ok n n' o -> unpruned_step g o -> gwf n' (step g o).
Proof.
  intros Hn0 [Hu Hr Hroles] Hok Hun.
  destruct o as [s|s|r0 s|new_|new_|r0 new_|r0 new_|r0 s]; cbn [gop_ok] in Hok; cbn [unpruned_step] in Hun; cbn [step].
  - destruct Hok as [H1 H2]. constructor; cbn [g_user g_uroles g_roles].
    + apply (pwf_mono (s + 1)); auto. apply pwf_invalidate with n; auto.
    + apply (pwf_mono n); auto; lia.
    + intros r p del Hget. apply (role_entry_mono n); [lia | apply Hroles; exact Hget].
  - destruct Hok as [H1 H2]. constructor; cbn [g_user g_uroles g_roles].
    + apply (pwf_mono n); auto; lia.
    + apply (pwf_mono (s + 1)); auto. apply pwf_invalidate with n; auto.
    + intros r p del Hget. apply (role_entry_mono n); [lia | apply Hroles; exact Hget].
  - destruct Hok as (H1 & H2 & H3). constructor; cbn [g_user g_uroles g_roles]; try (apply (pwf_mono n); auto; lia).
    intros r p del Hget. destruct (N.eq_dec r r0) as [->|Hne].
    + rewrite role_get_upd_same in Hget. destruct (role_get r0 (g_roles g)) as [[p0 del0]|] eqn:E; [| discriminate].
      cbn [option_map] in Hget. destruct (Hroles r0 p0 del0 E) as (A & B & C).
      destruct del0; inversion Hget; subst.
      * split; [apply (pwf_mono n); auto; lia | split; auto].
      * split; [| split; [auto | discriminate]]. apply (pwf_mono (s + 1)); auto. apply pwf_invalidate with n; auto.
    + rewrite role_get_upd_other in Hget by exact Hne. apply (role_entry_mono n); [lia | apply Hroles; exact Hget].
  - destruct Hok as [H1 H2]. constructor; cbn [g_user g_uroles g_roles].
    + apply (pwf_mono n); auto. apply pwf_rebuild; auto.
    + apply (pwf_mono n); auto.
    + intros r p del Hget. apply (role_entry_mono n); [lia | apply Hroles; exact Hget].
  - destruct Hok as [H1 H2]. constructor; cbn [g_user g_uroles g_roles].
    + apply (pwf_mono n); auto.
    + apply (pwf_mono n); auto. apply pwf_rebuild; auto.
    + intros r p del Hget. apply (role_entry_mono n); [lia | apply Hroles; exact Hget].
  - destruct Hok as (H1 & H2 & H3). constructor; cbn [g_user g_uroles g_roles]; try (apply (pwf_mono n); auto).
    intros r p del Hget. destruct (N.eq_dec r r0) as [->|Hne].
    + rewrite role_get_upd_same in Hget. destruct (role_get r0 (g_roles g)) as [[p0 del0]|] eqn:E; [| discriminate].
      cbn [option_map] in Hget. destruct (Hroles r0 p0 del0 E) as (A & B & C).
      destruct del0; inversion Hget; subst.
      * split; [apply (pwf_mono n); auto | split; auto].
      * split; [| split; [auto | discriminate]]. apply (pwf_mono n); auto. apply pwf_rebuild; auto.
    + rewrite role_get_upd_other in Hget by exact Hne. apply (role_entry_mono n); [lia | apply Hroles; exact Hget].
  - destruct Hok as (H1 & H2 & H3).
    destruct (role_get r0 (g_roles g)) as [[p0 [|]]|] eqn:Hget0.
    + constructor; cbn [g_user g_uroles g_roles]; try (apply (pwf_mono n); auto).
      intros r p del Hget. destruct (N.eq_dec r r0) as [->|Hne].
      * rewrite role_get_upd_same, Hget0 in Hget. cbn [option_map] in Hget. inversion Hget; subst.
        destruct (Hroles r0 p0 true Hget0) as (A & B & C). split; [| split; [auto | discriminate]].
        apply (pwf_mono n); auto. apply pwf_create; auto.
      * rewrite role_get_upd_other in Hget by exact Hne. apply (role_entry_mono n); [lia | apply Hroles; exact Hget].
    + constructor; auto; try (apply (pwf_mono n); auto).
      intros r p del Hget. apply (role_entry_mono n); [lia | apply Hroles; exact Hget].
    + constructor; cbn [g_user g_uroles g_roles]; try (apply (pwf_mono n); auto).
      intros r p del Hget. rewrite role_get_app in Hget.
      destruct (role_get r (g_roles g)) as [[p1 d1]|] eqn:E.
      * inversion Hget; subst. apply (role_entry_mono n); [lia | apply Hroles; exact E].
      * destruct (r0 =? r) eqn:E2; inversion Hget; subst. apply N.eqb_eq in E2; subst r.
        split; [| split; [auto | discriminate]]. apply (pwf_mono n); auto. apply pwf_fresh; auto.
  - destruct Hok as (H1 & H2 & H3 & H4). constructor; cbn [g_user g_uroles g_roles]; try (apply (pwf_mono n); auto; lia).
    intros r p del Hget. destruct (N.eq_dec r r0) as [->|Hne].
    + rewrite role_get_upd_same in Hget. destruct (role_get r0 (g_roles g)) as [[p0 del0]|] eqn:E; [| discriminate].
      cbn [option_map] in Hget. destruct (Hroles r0 p0 del0 E) as (A & B & C).
      destruct del0; cbn [orb] in Hget.
      * inversion Hget; subst. split; [apply (pwf_mono n); auto; lia | split; auto].
      * destruct (p_inval p0 =? 0) eqn:Ev; cbn [negb] in Hget; inversion Hget; subst.
        -- apply N.eqb_eq in Ev. split; [| split; [auto |]].
           ++ apply (pwf_mono (s + 1)); auto. apply pwf_delete with n; auto.
           ++ intros _. cbn [p_inval]. lia.
        -- split; [apply (pwf_mono n); auto; lia | split; auto].
    + rewrite role_get_upd_other in Hget by exact Hne. apply (role_entry_mono n); [lia | apply Hroles; exact Hget].
Qed.

(* ---------- synced: a valid principal holds exactly what its sources confer ---------- *)
Definition synced (src : N -> N -> Prop) (p : princ) : Prop :=
  p_inval p = 0 ->
  (forall c s, tget c (p_set p) = Some s -> src c s) /\ (forall c s, src c s -> tmem c (p_set p) = true).

Lemma synced_ext src src' p : (forall c s, src c s <-> src' c s) -> synced src p -> synced src' p.
Proof.
  intros Hext Hs Hv. destruct (Hs Hv) as [A B]. split.
  - intros c s H; apply Hext, A, H.
  - intros c s H; apply B with s, Hext, H.
Qed.

Lemma synced_invalidate src src' s p : s <> 0 -> synced src p -> synced src' (invalidate s p).
Proof.
  intros Hs Hsy. unfold invalidate. destruct (p_inval p =? 0) eqn:E.
  - intros Hv. cbn [p_inval] in Hv. congruence.
  - apply N.eqb_neq in E. intros Hv. congruence.
Qed.

Lemma synced_invalid src p : p_inval p <> 0 -> synced src p.
Proof. intros H Hv; congruence. Qed.

Definition computes (src : N -> N -> Prop) (new_ : tset) : Prop :=
  (forall c s, tget c new_ = Some s -> src c s) /\ (forall c s, src c s -> tmem c new_ = true).

Lemma synced_rebuild src new_ p : synced src p -> computes src new_ -> synced src (rebuild new_ p).
Proof.
  intros Hs Hc. unfold rebuild. destruct (p_inval p =? 0) eqn:E; auto.
  intros _. cbn [p_set]. exact Hc.
Qed.

Lemma synced_fresh src new_ h : computes src new_ -> synced src (mkPrinc new_ 0 h).
Proof. intros Hc _. exact Hc. Qed.

(* the sources of the three kinds of principals *)
Definition src_chans (k : N) (docs : list sdoc) (explicit : tset) (c s : N) : Prop :=
  (c = public_chan /\ s = 1) \/ In (c, s) explicit \/ exists x, In x docs /\ In (c, s) (acc_get k (sd_acc x)).
Definition src_roles (docs : list sdoc) (explicit : tset) (r s : N) : Prop :=
  In (r, s) explicit \/ exists x, In x docs /\ In (r, s) (sd_racc x).

(* stamps of the sources are positive *)
Definition docs_pos (docs : list sdoc) : Prop :=
  forall x, In x docs -> (forall k c s, In (c, s) (acc_get k (sd_acc x)) -> 0 < s) /\ (forall r s, In (r, s) (sd_racc x) -> 0 < s).
Definition tset_pos (t : tset) : Prop := forall c s, In (c, s) t -> 0 < s.

Lemma computes_chans k docs explicit :
  docs_pos docs -> tset_pos explicit -> computes (src_chans k docs explicit) (computed_chans k docs explicit).
Proof.
  intros Hd He. split.
  - intros c s H. apply computed_chans_inv in H as [H|[H|(x & Hx & Hc & _)]]; [left; exact H | right; left; exact H |].
    right; right; exists x; auto.
  - intros c s [[-> ->]|[H|(x & Hx & Hc)]]; unfold computed_chans.
    + apply tmem_tadd_new. lia.
    + apply tmem_tadd_keep, tmem_view_add_keep. apply tmem_in. exists s; exact H.
    + apply tmem_tadd_keep. eapply tmem_view_add_doc; eauto. intros s' Hs'. destruct (Hd x Hx) as [A _]. eapply A; eauto.
Qed.

Lemma computes_roles docs explicit :
  docs_pos docs -> tset_pos explicit -> computes (src_roles docs explicit) (computed_roles docs explicit).
Proof.
  intros Hd He. split.
  - intros r s H. apply computed_roles_inv in H as [[H _]|(x & Hx & Hc & _)]; [left; exact H | right; exists x; auto].
  - intros r s [H|(x & Hx & Hc)]; unfold computed_roles.
    + apply tmem_tadd_at_new.
      * intros s' Hs'. apply tget_in in Hs'. specialize (He r s' Hs'). lia.
      * apply tmem_in; exists s; exact H.
    + apply tmem_tadd_at_keep. eapply tmem_view_roles_add_doc; eauto. intros s' Hs'. destruct (Hd x Hx) as [_ B]. eapply B; eauto.
Qed.

(* what a rebuild computes is a well-formed set *)
Lemma set_ok_computed_chans n k docs explicit :
  1 < n -> set_ok n explicit ->
  (forall x, In x docs -> forall c s, In (c, s) (acc_get k (sd_acc x)) -> 0 < s < n /\ c <> star) ->
  set_ok n (computed_chans k docs explicit).
Proof.
  intros Hn (He1 & He2 & He3) Hd.
  assert (forall c s, In (c, s) (computed_chans k docs explicit) -> 0 < s < n) as K.
  { intros c s Hin. apply uniq_in_tget in Hin; [| apply uniq_computed_chans; exact He2].
    apply computed_chans_inv in Hin as [[-> ->]|[H|(x & Hx & Hc & _)]]; [lia | apply (He1 c s H) | apply (Hd x Hx c s Hc)]. }
  split; [exact K | split].
  - apply uniq_computed_chans; exact He2.
  - apply not_true_iff_false. intros H. apply tmem_tget in H as (s & Hs).
    apply computed_chans_inv in Hs as [[Hc _]|[H|(x & Hx & Hc & _)]].
    + unfold star, public_chan in Hc; discriminate.
    + assert (tmem star explicit = true) by (apply tmem_in; exists s; exact H). congruence.
    + destruct (Hd x Hx star s Hc) as [_ Hne]. congruence.
Qed.

Lemma set_ok_computed_roles n docs explicit :
  (forall r s, In (r, s) explicit -> 0 < s < n /\ r <> 0) ->
  (forall x, In x docs -> forall r s, In (r, s) (sd_racc x) -> 0 < s < n /\ r <> 0) ->
  set_ok n (computed_roles docs explicit).
Proof.
  intros He Hd.
  assert (forall r s, In (r, s) (computed_roles docs explicit) -> 0 < s < n /\ r <> 0) as K.
  { intros r s Hin. apply uniq_in_tget in Hin; [| apply uniq_computed_roles].
    apply computed_roles_inv in Hin as [[H _]|(x & Hx & Hc & _)]; [apply (He r s H) | apply (Hd x Hx r s Hc)]. }
  split; [intros r s H; apply (K r s H) | split].
  - apply uniq_computed_roles.
  - apply not_true_iff_false. intros H. apply tmem_in in H as (s & Hs). destruct (K _ _ Hs) as [_ Hne]. unfold star in Hne; congruence.
Qed.

(* ---------- loads leave everything valid ---------- *)
Lemma step_rebuild_role_get r0 new_ g r :
  role_get r (g_roles (step g (RebuildRole r0 new_))) =
  if r =? r0 then option_map (fun '(p, del) => if del : bool then (p, del) else (rebuild new_ p, del)) (role_get r (g_roles g))
  else role_get r (g_roles g).
Proof.
  cbn [step g_roles]. destruct (r =? r0) eqn:E.
  - apply N.eqb_eq in E; subst. apply role_get_upd_same.
  - apply N.eqb_neq in E. apply role_get_upd_other; exact E.
Qed.

Lemma rebuild_valid new_ p : p_inval (rebuild new_ p) = 0.
Proof. unfold rebuild. destruct (p_inval p =? 0) eqn:E; [apply N.eqb_eq; exact E | reflexivity]. Qed.

Lemma role_get_in r (l : list (N * (princ * bool))) v : role_get r l = Some v -> In r (map fst l).
Proof.
  induction l as [|[k w] l IH]; cbn [role_get map fst]; [discriminate |].
  destruct (k =? r) eqn:E; [apply N.eqb_eq in E; subst; left; reflexivity | intros H; right; apply IH; exact H].
Qed.

Lemma run_rebuild_roles (f : N -> tset) (l : list N) : forall g,
  g_user (run g (map (fun r => RebuildRole r (f r)) l)) = g_user g /\
  g_uroles (run g (map (fun r => RebuildRole r (f r)) l)) = g_uroles g /\
  forall r, role_get r (g_roles (run g (map (fun r => RebuildRole r (f r)) l))) =
            if mem r l then option_map (fun '(p, del) => if del : bool then (p, del) else (rebuild (f r) p, del)) (role_get r (g_roles g))
            else role_get r (g_roles g).
Proof.
  induction l as [|r0 l IH]; intros g; cbn [map run fold_left]; [repeat split; reflexivity |].
  fold (run (step g (RebuildRole r0 (f r0))) (map (fun r => RebuildRole r (f r)) l)).
  destruct (IH (step g (RebuildRole r0 (f r0)))) as (A & B & C). split; [| split]; auto.
  intros r. rewrite C, step_rebuild_role_get. unfold mem; cbn [existsb]. fold (mem r l).
  destruct (r =? r0) eqn:E; cbn [orb].
  - apply N.eqb_eq in E; subst r0. destruct (role_get r (g_roles g)) as [[p del]|]; cbn [option_map]; [| destruct (mem r l); reflexivity].
    destruct (mem r l); cbn [option_map]; auto. destruct del; auto.
    f_equal. f_equal. unfold rebuild at 1. rewrite rebuild_valid, N.eqb_refl. reflexivity.
  - reflexivity.
Qed.

Lemma gops_load_all_eq y :
  gops_load_all y = gops_load_user y
                    ++ map (fun r => RebuildRole r (computed_chans r (y_docs y) (rexp_get r (y_rexp y)))) (map fst (g_roles (y_g y))).
Proof.
  unfold gops_load_all. f_equal. induction (g_roles (y_g y)) as [|[r v] l IH]; cbn [flat_map map fst]; auto.
  unfold gops_load_role at 1. cbn [app]. f_equal. exact IH.
Qed.

(* the grant state after a load of everything *)
Lemma load_all_g y :
  let g := y_g y in
  let g' := y_g (load_all y) in
  g_user g' = rebuild (computed_chans 0 (y_docs y) (y_uexp y)) (g_user g) /\
  g_uroles g' = rebuild (computed_roles (y_docs y) (y_urexp y)) (g_uroles g) /\
  forall r, role_get r (g_roles g') =
            option_map (fun '(p, del) => if del : bool then (p, del)
                                         else (rebuild (computed_chans r (y_docs y) (rexp_get r (y_rexp y))) p, del))
                       (role_get r (g_roles g)).
Proof.
  cbv zeta. unfold load_all, with_g; cbn [y_g]. rewrite gops_load_all_eq, run_app.
  set (g1 := run (y_g y) (gops_load_user y)).
  destruct (run_rebuild_roles (fun r => computed_chans r (y_docs y) (rexp_get r (y_rexp y))) (map fst (g_roles (y_g y))) g1) as (A & B & C).
  rewrite A, B. subst g1. unfold gops_load_user; cbn [run fold_left step g_user g_uroles g_roles].
  split; [reflexivity | split; [reflexivity |]].
  intros r. rewrite C. cbn [g_roles]. destruct (mem r (map fst (g_roles (y_g y)))) eqn:E; auto.
  destruct (role_get r (g_roles (y_g y))) as [v|] eqn:Eg; auto.
  apply role_get_in in Eg. apply mem_in in Eg. congruence.
Qed.

Lemma loaded_load_all y : loaded (y_g (load_all y)).
Proof.
  destruct (load_all_g y) as (A & B & C). cbv zeta in *. repeat split.
  - rewrite A. apply rebuild_valid.
  - rewrite B. apply rebuild_valid.
  - intros r p Hget. rewrite C in Hget. destruct (role_get r (g_roles (y_g y))) as [[p0 del0]|]; [| discriminate].
    cbn [option_map] in Hget. destruct del0; inversion Hget; subst. apply rebuild_valid.
Qed.
