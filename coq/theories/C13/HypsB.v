(* C13: an executable checker for the hypotheses of the end-to-end theorem, with its soundness proof.  Used to show, by
   computation, that each refutation witness of C13_Refuted.v satisfies every hypothesis except the one it is about
   (and, in a scratch harness, to test the theorem statement on random histories before it was proved). *)
From SG Require Import Base.Prelude C20.SeqIdGen C20.SeqId
  C13.Revocation C13.RevocationProofs C13.Feed C13.Client C13.DocHist C13.GrantSys C13.GrantSysProofs C13.PeriodsProofs
  C13.Sys C13.Hyps.
Open Scope N_scope.

Definition pair_eqb (a b : N * N) : bool := (fst a =? fst b) && (snd a =? snd b).
Definition hist_eqb (a b : hist) : bool :=
  list_eqb (fun x y => (fst x =? fst y) && list_eqb pair_eqb (snd x) (snd y)) a b.

Lemma pair_eqb_eq a b : pair_eqb a b = true <-> a = b.
Proof.
  destruct a as [a1 a2], b as [b1 b2]. unfold pair_eqb; cbn [fst snd]. rewrite andb_true_iff, !N.eqb_eq.
  split; [intros [-> ->]; reflexivity | intros H; inversion H; auto].
Qed.

Lemma hist_eqb_eq a b : hist_eqb a b = true <-> a = b.
Proof.
  unfold hist_eqb. apply list_eqb_eq. intros [k1 e1] [k2 e2]. cbn [fst snd].
  rewrite andb_true_iff, N.eqb_eq, (list_eqb_eq pair_eqb pair_eqb_eq).
  split; [intros [-> ->]; reflexivity | intros H; inversion H; auto].
Qed.

(* ---- unpruned ---- *)
Definition unpruned_princ_b (new_ : tset) (p : princ) : bool :=
  (p_inval p =? 0) || hist_eqb (calc_history (p_inval p) (p_set p) new_ (p_hist p)) (record_lost (p_inval p) (p_set p) new_ (p_hist p)).

Definition unpruned_step_b (g : gstate) (o : gop) : bool :=
  match o with
  | RebuildUser new_ => unpruned_princ_b new_ (g_user g)
  | RebuildUserRoles new_ => unpruned_princ_b new_ (g_uroles g)
  | RebuildRole r new_ => match role_get r (g_roles g) with Some (p, false) => unpruned_princ_b new_ p | _ => true end
  | DeleteRole r s => match role_get r (g_roles g) with
                      | Some (p, false) => hist_eqb (calc_history s (p_set p) [] (p_hist p)) (record_lost s (p_set p) [] (p_hist p))
                      | _ => true
                      end
  | _ => true
  end.

Fixpoint unpruned_b (g : gstate) (ops : list gop) : bool :=
  match ops with
  | [] => true
  | o :: rest => unpruned_step_b g o && unpruned_b (step g o) rest
  end.

Lemma unpruned_princ_b_ok new_ p : unpruned_princ_b new_ p = true -> unpruned_princ new_ p.
Proof.
  unfold unpruned_princ_b, unpruned_princ. intros H Hne. apply orb_true_iff in H as [H|H].
  - apply N.eqb_eq in H; congruence.
  - apply hist_eqb_eq; exact H.
Qed.

Lemma unpruned_step_b_ok g o : unpruned_step_b g o = true -> unpruned_step g o.
Proof.
  destruct o; cbn [unpruned_step_b unpruned_step]; auto using unpruned_princ_b_ok.
  - intros H p Hget. rewrite Hget in H. apply unpruned_princ_b_ok; exact H.
  - intros H p Hget. rewrite Hget in H. apply hist_eqb_eq; exact H.
Qed.

Lemma unpruned_b_ok ops : forall g, unpruned_b g ops = true -> unpruned g ops.
Proof.
  induction ops as [|o ops IH]; intros g H; cbn [unpruned_b unpruned] in *; auto.
  apply andb_true_iff in H as [H1 H2]. split; [apply unpruned_step_b_ok; exact H1 | apply IH; exact H2].
Qed.

(* ---- no_restamp ---- *)
Lemma restamp_free_ok old new_ : restamp_free old new_ = true -> restamp_ok old new_.
Proof.
  unfold restamp_free, restamp_ok. rewrite forallb_forall. intros H c s s' Hs Hs'.
  specialize (H (c, s) (tget_in _ _ _ Hs)). cbn in H. rewrite Hs' in H. apply N.leb_le; exact H.
Qed.

Definition no_restamp_step_b (g : gstate) (o : gop) : bool :=
  match o with
  | RebuildUser new_ => princ_ok (g_user g) new_
  | RebuildUserRoles new_ => princ_ok (g_uroles g) new_
  | RebuildRole r new_ => match role_get r (g_roles g) with Some (p, false) => princ_ok p new_ | _ => true end
  | _ => true
  end.

Fixpoint no_restamp_b (g : gstate) (ops : list gop) : bool :=
  match ops with
  | [] => true
  | o :: rest => no_restamp_step_b g o && no_restamp_b (step g o) rest
  end.

Lemma princ_ok_ok p new_ : princ_ok p new_ = true -> p_inval p <> 0 -> restamp_ok (p_set p) new_.
Proof.
  unfold princ_ok. intros H Hne. apply orb_true_iff in H as [H|H]; [apply N.eqb_eq in H; congruence | apply restamp_free_ok; exact H].
Qed.

Lemma no_restamp_step_b_ok g o : no_restamp_step_b g o = true -> no_restamp_step g o.
Proof.
  destruct o; cbn [no_restamp_step_b no_restamp_step]; auto using princ_ok_ok.
  intros H p Hget. rewrite Hget in H. apply princ_ok_ok; exact H.
Qed.

Lemma no_restamp_b_ok ops : forall g, no_restamp_b g ops = true -> no_restamp g ops.
Proof.
  induction ops as [|o ops IH]; intros g H; cbn [no_restamp_b no_restamp] in *; auto.
  apply andb_true_iff in H as [H1 H2]. split; [apply no_restamp_step_b_ok; exact H1 | apply IH; exact H2].
Qed.

(* ---- documents ---- *)
Definition docs_unmerged_b (y : sys) : bool :=
  forallb (fun x => Nat.ltb (length (sd_csh x)) doc_max_entries) (y_docs y).

Lemma starts_of_length c h : (length (starts_of c h) <= length h)%nat.
Proof.
  unfold starts_of. induction h as [|[[n s] e] h IH]; cbn [flat_map length]; auto.
  destruct (n =? c); cbn [app length]; lia.
Qed.

Lemma docs_unmerged_b_ok y : docs_unmerged_b y = true -> docs_unmerged y.
Proof.
  unfold docs_unmerged_b, docs_unmerged. rewrite forallb_forall. intros H x c Hx.
  specialize (H x Hx). apply Nat.ltb_lt in H. pose proof (starts_of_length c (sd_csh x)). lia.
Qed.

(* ---- one operation; the three defect-excluding hypotheses can be switched off individually ---- *)
Definition op_hyp_sel (unl stale restamp : bool) (y : sys) (o : sop) : Prop :=
  (unl = true -> op_unlimited y o = true)
  /\ (stale = true -> op_no_stale_role y o = true)
  /\ (restamp = true -> no_restamp (y_g y) (sys_gops y o))
  /\ op_names_ok y o = true
  /\ docs_unmerged y /\ unpruned (y_g y) (sys_gops y o)
  /\ y_next y + 2 < max64.

Definition history_hyps_sel (unl stale restamp refill : bool) (ops : list sop) : Prop :=
  alongP (op_hyp_sel unl stale restamp) ops sys_init /\ (refill = true -> no_refill (trace ops) = true).

Lemma alongP_impl (p q : sys -> sop -> Prop) ops : forall y, (forall y o, p y o -> q y o) -> alongP p ops y -> alongP q ops y.
Proof. induction ops as [|o ops IH]; intros y Hpq H; cbn [alongP] in *; auto. destruct H; split; auto. Qed.

Lemma history_hyps_all ops : history_hyps ops <-> history_hyps_sel true true true true ops.
Proof.
  unfold history_hyps, history_hyps_sel. split; intros [H1 H2]; split; auto.
  - eapply alongP_impl; [| exact H1]. intros y o (A & B & C & D & E & F & G). repeat split; auto.
  - eapply alongP_impl; [| exact H1]. intros y o (A & B & C & D & E & F & G). repeat split; auto.
Qed.

Definition op_hyp_b (unl stale restamp : bool) (y : sys) (o : sop) : bool :=
  (negb unl || op_unlimited y o)
  && (negb stale || op_no_stale_role y o)
  && (negb restamp || no_restamp_b (y_g y) (sys_gops y o))
  && op_names_ok y o && docs_unmerged_b y && unpruned_b (y_g y) (sys_gops y o)
  && (y_next y + 2 <? max64).

Definition history_hyps_b (unl stale restamp refill : bool) (ops : list sop) : bool :=
  along (op_hyp_b unl stale restamp) ops sys_init && (negb refill || no_refill (trace ops)).

Lemma op_hyp_b_ok unl stale restamp y o : op_hyp_b unl stale restamp y o = true -> op_hyp_sel unl stale restamp y o.
Proof.
  unfold op_hyp_b, op_hyp_sel. rewrite !andb_true_iff. intros ((((((A & B) & C) & D) & E) & F) & G).
  repeat split; auto.
  - intros ->. exact A.
  - intros ->. exact B.
  - intros ->. apply no_restamp_b_ok. exact C.
  - apply docs_unmerged_b_ok; exact E.
  - apply unpruned_b_ok; exact F.
  - apply N.ltb_lt; exact G.
Qed.

Lemma along_ok (p : sys -> sop -> bool) (q : sys -> sop -> Prop) ops : forall y,
  (forall y o, p y o = true -> q y o) -> along p ops y = true -> alongP q ops y.
Proof.
  induction ops as [|o ops IH]; intros y Hpq H; cbn [along alongP] in *; auto.
  apply andb_true_iff in H as [H1 H2]. split; auto.
Qed.

Theorem history_hyps_b_ok unl stale restamp refill ops :
  history_hyps_b unl stale restamp refill ops = true -> history_hyps_sel unl stale restamp refill ops.
Proof.
  unfold history_hyps_b, history_hyps_sel. rewrite andb_true_iff. intros [H1 H2]. split.
  - eapply along_ok; [| exact H1]. intros y o. apply op_hyp_b_ok.
  - intros ->. exact H2.
Qed.
