(* C13: granted_periods_cover and the quantitative form of revoked_complete, over the grant state machine (GrantSys.v),
   for ALL operation lists.

   covered c t g: channel c has a source that was in force at sequence t -- directly on the user or through a role --
   either still current with a stamp at or below t, or recorded in a history with start <= t < end.  It is an invariant
   of every run whose operations carry sequences above t, whose rebuilds merge no history entry away (unpruned) and
   never re-stamp a kept grant with a later sequence (no_restamp; dropping that is the finding
   stale-doc/restamped-grant-loses-period).  At a loaded state it yields a period of
   CollectionChannelGrantedPeriods (as repaired by /repo 7044a86) that contains t. *)
From SG Require Import Base.Prelude C13.Revocation C13.RevocationProofs C13.GrantSys C13.GrantSysProofs.
Open Scope N_scope.

(* ---------- record_lost with the stamp ---------- *)
Lemma record_lost_records_stamp inval lost new_ h c s :
  tget c lost = Some s -> tmem c new_ = false ->
  In (s, inval) (hget c (record_lost inval lost new_ h)).
Proof.
  unfold record_lost; revert h; induction lost as [|[k v] r IH]; intros h Hl Hn; [discriminate |].
  cbn [fold_left]. cbn [tget] in Hl. destruct (k =? c) eqn:E.
  - apply N.eqb_eq in E; subst k. inversion Hl; subst v. rewrite Hn.
    apply (record_lost_incl inval r new_). rewrite hget_append_same; apply in_or_app; right; left; reflexivity.
  - apply IH; auto.
Qed.

(* a rebuild never gives a kept grant a later sequence *)
Definition restamp_ok (old new_ : tset) : Prop :=
  forall c s s', tget c old = Some s -> tget c new_ = Some s' -> s' <= s.

Definition no_restamp_step (g : gstate) (o : gop) : Prop :=
  match o with
  | RebuildUser new_ => p_inval (g_user g) <> 0 -> restamp_ok (p_set (g_user g)) new_
  | RebuildUserRoles new_ => p_inval (g_uroles g) <> 0 -> restamp_ok (p_set (g_uroles g)) new_
  | RebuildRole r new_ =>
      forall p, role_get r (g_roles g) = Some (p, false) -> p_inval p <> 0 -> restamp_ok (p_set p) new_
  | _ => True
  end.

Fixpoint no_restamp (g : gstate) (ops : list gop) : Prop :=
  match ops with
  | [] => True
  | o :: rest => no_restamp_step g o /\ no_restamp (step g o) rest
  end.

Section Covered.
Variables c t : N.

Definition entry_at (es : list period) : Prop := exists e, In e es /\ fst e <= t /\ t < snd e.

Definition at_in (name : N) (p : princ) : Prop :=
  (exists s, tget name (p_set p) = Some s /\ s <= t) \/ entry_at (hget name (p_hist p)).

Definition role_at (g : gstate) (r : N) : Prop :=
  exists p del, role_get r (g_roles g) = Some (p, del) /\
                ((del = false /\ exists s, tget c (p_set p) = Some s /\ s <= t) \/ entry_at (hget c (p_hist p))).

Definition covered (g : gstate) : Prop :=
  at_in c (g_user g) \/ exists r, at_in r (g_uroles g) /\ role_at g r.

Lemma at_in_invalidate name s p : at_in name p -> at_in name (invalidate s p).
Proof. unfold at_in, invalidate; destruct (p_inval p =? 0); auto. Qed.

Lemma at_in_rebuild name new_ p :
  inval_ok t p -> unpruned_princ new_ p -> (p_inval p <> 0 -> restamp_ok (p_set p) new_) ->
  at_in name p -> at_in name (rebuild new_ p).
Proof.
  intros Hok Hun Hrs Ha; unfold rebuild. destruct (p_inval p =? 0) eqn:E; auto.
  apply N.eqb_neq in E. destruct Hok as [Hok|Hok]; [congruence |].
  unfold at_in; cbn [p_set p_hist]. rewrite (Hun E).
  destruct Ha as [(s & Hs & Hle)|(e & He & Hb)].
  - destruct (tget name new_) as [s'|] eqn:En.
    + left. exists s'; split; auto. specialize (Hrs E name s s' Hs En). lia.
    + right. exists (s, p_inval p). split; [| cbn [fst snd]; lia].
      apply record_lost_records_stamp; auto. apply tmem_false_tget; exact En.
  - right; exists e; split; auto. apply record_lost_incl; exact He.
Qed.

Definition has_at (p : princ) (del : bool) : Prop :=
  (del = false /\ exists s, tget c (p_set p) = Some s /\ s <= t) \/ entry_at (hget c (p_hist p)).

Lemma role_at_upd g g' r0 f r :
  g_roles g' = role_upd r0 f (g_roles g) ->
  (forall p del, role_get r0 (g_roles g) = Some (p, del) -> has_at p del ->
     let '(p', del') := f (p, del) in has_at p' del') ->
  role_at g r -> role_at g' r.
Proof.
  intros Hg Hf (p & del & Hget & Hhas); unfold role_at; rewrite Hg.
  destruct (N.eq_dec r r0) as [->|Hne].
  - rewrite role_get_upd_same, Hget; cbn [option_map].
    specialize (Hf p del Hget Hhas). destruct (f (p, del)) as [p' del']. exists p', del'; auto.
  - rewrite role_get_upd_other by exact Hne. exists p, del; auto.
Qed.

Lemma step_covered g o :
  invals_above t g -> op_above t o -> unpruned_step g o -> no_restamp_step g o -> covered g -> covered (step g o).
Proof.
  intros (Hu & Hr & Hroles) Habove Hun Hrs Ht.
  destruct o as [s|s|r0 s|new_|new_|r0 new_|r0 new_|r0 s]; cbn [step]; unfold covered in *; cbn [g_user g_uroles];
    cbn [op_above op_seq] in Habove; cbn [unpruned_step] in Hun; cbn [no_restamp_step] in Hrs.
  - destruct Ht as [Ht|Ht]; [left; apply at_in_invalidate; exact Ht | right; exact Ht].
  - destruct Ht as [Ht|(r & Ha & Hh)]; [left; exact Ht | right; exists r; split; [apply at_in_invalidate; exact Ha | exact Hh]].
  - destruct Ht as [Ht|(r & Ha & Hh)]; [left; exact Ht | right; exists r; split; [exact Ha |]].
    eapply role_at_upd; [reflexivity | | exact Hh].
    intros p del Hget Hhas; destruct del; auto. unfold has_at, invalidate in *; destruct (p_inval p =? 0); auto.
  - destruct Ht as [Ht|Ht]; [left; apply at_in_rebuild; auto | right; exact Ht].
  - destruct Ht as [Ht|(r & Ha & Hh)]; [left; exact Ht | right; exists r; split; [apply at_in_rebuild; auto | exact Hh]].
  - destruct Ht as [Ht|(r & Ha & Hh)]; [left; exact Ht | right; exists r; split; [exact Ha |]].
    eapply role_at_upd; [reflexivity | | exact Hh].
    intros p del Hget Hhas; destruct del; auto.
    assert (at_in c (rebuild new_ p)) as Hal.
    { apply at_in_rebuild; [eapply Hroles; exact Hget | apply Hun; exact Hget | apply Hrs; exact Hget |].
      destruct Hhas as [[_ H]|H]; [left | right]; exact H. }
    destruct Hal as [H|H]; [left; split; auto | right; exact H].
  - destruct (role_get r0 (g_roles g)) as [[p0 [|]]|] eqn:Hget0; cbn [g_user g_uroles]; auto.
    + destruct Ht as [Ht|(r & Ha & Hh)]; [left; exact Ht | right; exists r; split; [exact Ha |]].
      eapply role_at_upd; [reflexivity | | exact Hh].
      intros p del Hget Hhas. rewrite Hget0 in Hget; inversion Hget; subst p del. unfold has_at in *; cbn [p_set p_hist].
      destruct Hhas as [[Hd _]|H]; [discriminate | right; exact H].
    + destruct Ht as [Ht|(r & Ha & p & del & Hget & Hhas)]; [left; exact Ht | right; exists r; split; [exact Ha |]].
      exists p, del; split; auto. cbn [g_roles]. rewrite role_get_app, Hget; reflexivity.
  - destruct Ht as [Ht|(r & Ha & Hh)]; [left; exact Ht | right; exists r; split; [exact Ha |]].
    eapply role_at_upd; [reflexivity | | exact Hh].
    intros p del Hget Hhas; destruct del; cbn [orb]; auto.
    destruct (p_inval p =? 0) eqn:E; cbn [negb]; auto.
    unfold has_at in *; cbn [p_set p_hist]. right. rewrite (Hun p Hget).
    destruct Hhas as [[_ (s0 & Hs0 & Hle)]|(e & He & Hb)].
    + exists (s0, s). split; [apply record_lost_records_stamp; auto | cbn [fst snd]; lia].
    + exists e; split; auto. apply record_lost_incl; exact He.
Qed.

Lemma run_covered ops : forall g,
  invals_above t g -> Forall (op_above t) ops -> unpruned g ops -> no_restamp g ops -> covered g -> covered (run g ops).
Proof.
  induction ops as [|o ops IH]; intros g Hinv Hab Hun Hrs Ht; cbn [run fold_left]; auto.
  inversion Hab; subst. destruct Hun as [Hun1 Hun2]. destruct Hrs as [Hrs1 Hrs2].
  apply IH; auto using step_invals_above, step_covered.
Qed.

End Covered.

(* ---------- from the effective set of a loaded state ---------- *)
Lemma tget_tadd_inv c c' s t a :
  tget c (tadd c' s t) = Some a -> tget c t = Some a \/ (c = c' /\ a = s /\ 0 < s).
Proof.
  unfold tadd. destruct (0 <? s) eqn:Hs; auto.
  destruct (tget c' t) as [old|] eqn:Eo.
  - destruct ((old =? 0) || (s <? old)); auto.
    destruct (N.eq_dec c c') as [->|Hne].
    + rewrite tget_put_same. intros H; inversion H; subst. right; repeat split; lia.
    + rewrite tget_put_other by exact Hne. auto.
  - destruct (N.eq_dec c c') as [->|Hne].
    + rewrite tget_put_same. intros H; inversion H; subst. right; repeat split; lia.
    + rewrite tget_put_other by exact Hne. auto.
Qed.

Lemma tget_tadd_at_inv other at_ c a : forall t,
  tget c (tadd_at other at_ t) = Some a ->
  tget c t = Some a \/ exists s, In (c, s) other /\ a = N.max s at_ /\ 0 < a.
Proof.
  unfold tadd_at; induction other as [|[k v] r IH]; intros t H; cbn [fold_left] in H; auto.
  apply IH in H as [H|(s & Hin & Ha)].
  - apply tget_tadd_inv in H as [H|(-> & -> & Hp)]; auto.
    right; exists v; repeat split; auto. left; reflexivity.
  - right; exists s; split; auto. right; exact Hin.
Qed.

Lemma inherited_tget_inv u roles c a :
  tget c (inherited u roles) = Some a ->
  tget c (u_chans u) = Some a \/
  exists r since s, In (r, since) (current_roles u roles) /\ In (c, s) (r_chans r) /\ a = N.max s since.
Proof.
  unfold inherited. generalize (current_roles u roles), (u_chans u).
  induction l as [|[r since] l IH]; intros t H; cbn [fold_left] in H; auto.
  apply IH in H as [H|(r' & s' & s & Hin & Hc & Ha)].
  - apply tget_tadd_at_inv in H as [H|(s & Hin & Ha & _)]; auto.
    right; exists r, since, s; split; [left; reflexivity | auto].
  - right; exists r', s', s; split; [right; exact Hin | auto].
Qed.

Definition uniq (t : tset) : Prop := NoDup (map fst t).

Lemma uniq_in_tget t c s : uniq t -> In (c, s) t -> tget c t = Some s.
Proof.
  unfold uniq; induction t as [|[k v] r IH]; intros Hnd Hin; [destruct Hin |].
  cbn [map fst] in Hnd. inversion Hnd as [|? ? Hnotin Hnd']; subst.
  cbn [tget]. destruct Hin as [Heq|Hin].
  - inversion Heq; subst. rewrite N.eqb_refl; reflexivity.
  - destruct (k =? c) eqn:E; [| apply IH; auto].
    apply N.eqb_eq in E; subst k. exfalso; apply Hnotin. apply (in_map fst) in Hin; exact Hin.
Qed.

Definition uniq_roles (g : gstate) : Prop :=
  forall r p, role_get r (g_roles g) = Some (p, false) -> uniq (p_set p).

Lemma effective_covered g c a t :
  loaded g -> uniq_roles g -> uniq (p_set (g_uroles g)) ->
  tget c (effective g) = Some a -> a <= t -> covered c t g.
Proof.
  intros (_ & _ & Hlr) Hur Huu H Hle. unfold effective in H.
  apply inherited_tget_inv in H as [H|(r & since & s & Hin & Hc & Ha)].
  - left; left. exists a; split; auto.
  - right. unfold current_roles in Hin. apply filter_In in Hin as [Hin Hdel].
    apply current_roles_all_inv in Hin as (name & Hin & Hf).
    unfold view_roles in Hf; rewrite find_role_view in Hf.
    destruct (role_get name (g_roles g)) as [[p del]|] eqn:Hget; [| discriminate].
    cbn [option_map] in Hf; inversion Hf; subst r. cbn [view_role r_deleted r_chans] in Hdel, Hc.
    destruct del; [discriminate |]. cbn [orb] in Hc.
    assert (p_inval p = 0) as Hv by (eapply Hlr; eauto). rewrite Hv in Hc; cbn in Hc.
    exists name; split.
    + left. exists since; split; [| lia]. cbn [view_user u_roles] in Hin. apply uniq_in_tget; auto.
    + exists p, false; split; auto. left; split; auto. exists s; split; [| lia].
      apply uniq_in_tget; auto. eapply Hur; eauto.
Qed.

(* ---------- at a loaded state the periods contain t ---------- *)
Lemma in_inter_pair s1 s2 e1 e2 t :
  s1 <= t -> s2 <= t -> t < e1 -> t < e2 ->
  exists p, In p (inter_pair s1 s2 e1 e2) /\ fst p <= t /\ t < snd p.
Proof.
  intros. unfold inter_pair. replace (N.max s1 s2 <? N.min e1 e2) with true by lia.
  eexists; split; [left; reflexivity | cbn [fst snd]; lia].
Qed.

Lemma in_map_pair (l : tset) c s : In (c, s) l -> In (s, max64) (map (fun '(_, s) => (s, max64)) l).
Proof. intros H. apply in_map_iff. exists (c, s); auto. Qed.

Theorem covered_periods g c t :
  loaded g -> t < max64 -> covered c t g ->
  exists p, In p (granted_periods (view_user g) (view_roles g) c) /\ fst p <= t /\ t < snd p.
Proof.
  intros (Hlu & Hlr & Hlroles) Hmax Hc.
  unfold granted_periods, granted_periods_over.
  set (u := view_user g). set (roles := view_roles g).
  destruct Hc as [[(s & Hs & Hle)|(e & He & Hb)]|(r & Har & p & del & Hget & Hhas)].
  - (* current on the user *)
    exists (s, max64). split; [| cbn [fst snd]; lia].
    apply in_or_app; right. apply in_or_app; left. cbn [view_user u_chans u]. rewrite Hs. left; reflexivity.
  - (* recorded on the user *)
    exists e. split; [| lia]. apply in_or_app; left. exact He.
  - assert (find_role r roles = Some (view_role (r, (p, del)))) as Hfind
      by (unfold roles, view_roles; rewrite find_role_view, Hget; reflexivity).
    assert (r_chans (view_role (r, (p, del))) = (if del then [] else p_set p)) as Hchans.
    { cbn [view_role r_chans]. destruct del; cbn [orb]; auto.
      rewrite (Hlroles r p Hget). reflexivity. }
    destruct Har as [(rs & Hrs & Hrle)|(re & Hre & Hrb)].
    + (* the role is held: among GetRolesIncDeleted *)
      assert (In (view_role (r, (p, del)), rs) (current_roles_inc_deleted u roles)) as Hheld.
      { assert (In (view_role (r, (p, del)), rs) (current_roles_all u roles)) as Hall
          by (eapply current_roles_all_in; eauto; apply tget_in; exact Hrs).
        unfold current_roles_inc_deleted, current_roles. apply in_or_app. destruct del.
        - right; apply filter_In; split; [exact Hall | reflexivity].
        - left; apply filter_In; split; [exact Hall | reflexivity]. }
      assert (tget (r_id (view_role (r, (p, del)))) (u_roles u) = Some rs) as Hga by (cbn [view_role r_id]; exact Hrs).
      destruct Hhas as [[Hdel (s & Hs & Hle)]|(e & He & Hb)].
      * subst del. exists (s, max64). split; [| cbn [fst snd]; lia].
        apply in_or_app; right. apply in_or_app; right. apply in_or_app; left.
        apply in_flat_map. exists (view_role (r, (p, false)), rs). split; [exact Hheld |].
        apply in_or_app; right. rewrite Hchans.
        replace (tmem c (p_set p)) with true by (symmetry; apply tmem_tget; eauto).
        eapply in_map_pair. apply tget_in; exact Hs.
      * destruct (in_inter_pair (fst e) rs (snd e) max64 t) as (q & Hq & Hqb); try lia.
        exists q; split; auto.
        apply in_or_app; right. apply in_or_app; right. apply in_or_app; left.
        apply in_flat_map. exists (view_role (r, (p, del)), rs). split; [exact Hheld |].
        apply in_or_app; left. rewrite Hga. apply in_flat_map. exists e. split; auto.
    + (* the role was held: in the role history *)
      destruct (hget_in _ _ _ Hre) as (k & res & Hin & Hk & Hres). apply N.eqb_eq in Hk; subst k.
      assert (exists q, In q (match find_role r roles with
                              | None => []
                              | Some r0 =>
                                  flat_map (fun e => flat_map (fun re => inter_pair (fst e) (fst re) (snd e) (snd re)) res) (hget c (r_hist r0))
                                  ++ (if tmem c (r_chans r0)
                                      then flat_map (fun '(_, s) => flat_map (fun re => inter_pair s (fst re) max64 (snd re)) res) (r_chans r0)
                                      else [])
                              end) /\ fst q <= t /\ t < snd q) as (q & Hq & Hqb).
      { rewrite Hfind. destruct Hhas as [[Hdel (s & Hs & Hle)]|(e & He & Hb)].
        - subst del. destruct (in_inter_pair s (fst re) max64 (snd re) t) as (q & Hq & Hqb); try lia.
          exists q; split; auto. apply in_or_app; right. rewrite Hchans.
          replace (tmem c (p_set p)) with true by (symmetry; apply tmem_tget; eauto).
          apply in_flat_map. exists (c, s). split; [apply tget_in; exact Hs |].
          apply in_flat_map. exists re. split; [subst res; exact Hre | exact Hq].
        - destruct (in_inter_pair (fst e) (fst re) (snd e) (snd re) t) as (q & Hq & Hqb); try lia.
          exists q; split; auto. apply in_or_app; left. cbn [view_role r_hist].
          apply in_flat_map. exists e. split; [exact He |].
          apply in_flat_map. exists re. split; [subst res; exact Hre | exact Hq]. }
      exists q; split; auto.
      apply in_or_app; right. apply in_or_app; right. apply in_or_app; right.
      apply in_flat_map. exists (r, res). split; [exact Hin | exact Hq].
Qed.

(* ---------- granted_periods_cover ---------- *)
Theorem granted_periods_cover g1 ops c a t :
  let g2 := run g1 ops in
  loaded g1 -> uniq_roles g1 -> uniq (p_set (g_uroles g1)) ->
  tget c (effective g1) = Some a -> a <= t -> t < max64 ->     (* accessible at sequence t *)
  Forall (op_above t) ops ->                                   (* everything later happened after it *)
  unpruned g1 ops -> no_restamp g1 ops ->
  loaded g2 ->
  exists p, In p (granted_periods (view_user g2) (view_roles g2) c) /\ fst p <= t /\ t < snd p.
Proof.
  intros g2 Hl1 Hur Huu He Hle Hmax Hab Hun Hrs Hl2.
  apply covered_periods; auto.
  apply run_covered; auto using loaded_invals_above. eapply effective_covered; eauto.
Qed.

(* ---------- the revocation sequence reported for a lost channel lies above t ---------- *)
(* the newest entry of a history ends last *)
Definition last_max (h : hist) : Prop := forall c e, In e (hget c h) -> snd e <= last_end (hget c h).

Definition hists_last_max (g : gstate) : Prop :=
  last_max (p_hist (g_user g)) /\ last_max (p_hist (g_uroles g)) /\
  forall r p del, role_get r (g_roles g) = Some (p, del) -> last_max (p_hist p).

Definition above (t : N) (c : N) (m : tset) : Prop := exists a, tget c m = Some a /\ t < a.

Lemma tget_radd_same c s m : exists a, tget c (radd c s m) = Some a /\ s <= a.
Proof.
  unfold radd. destruct (tget c m) as [old|] eqn:E.
  - destruct (old <? s) eqn:El.
    + rewrite tget_put_same. exists s; split; auto; lia.
    + exists old; split; auto; lia.
  - rewrite tget_put_same. exists s; split; auto; lia.
Qed.

Lemma tget_radd_mono c s d m a : tget d m = Some a -> exists a', tget d (radd c s m) = Some a' /\ a <= a'.
Proof.
  intros H. unfold radd. destruct (N.eq_dec d c) as [->|Hne].
  - rewrite H. destruct (a <? s) eqn:El.
    + rewrite tget_put_same. exists s; split; auto; lia.
    + exists a; split; auto; lia.
  - destruct (tget c m) as [old|].
    + destruct (old <? s); [rewrite tget_put_other by exact Hne |]; exists a; split; auto; lia.
    + rewrite tget_put_other by exact Hne. exists a; split; auto; lia.
Qed.

Lemma above_radd_keep t c s d m : above t d m -> above t d (radd c s m).
Proof. intros (a & Ha & Hlt). destruct (tget_radd_mono c s d m a Ha) as (a' & Ha' & Hle). exists a'; split; auto; lia. Qed.

Lemma above_radd_new t c s m : t < s -> above t c (radd c s m).
Proof. intros Hlt. destruct (tget_radd_same c s m) as (a & Ha & Hle). exists a; split; auto; lia. Qed.

Lemma above_hist_processing_keep t acc_chans chk trig h m d :
  above t d m -> above t d (hist_processing acc_chans chk trig h m).
Proof.
  unfold hist_processing; revert m; induction h as [|[c es] r IH]; intros m H; cbn [fold_left]; auto.
  apply IH. destruct (negb (tmem c acc_chans) && existsb (hit chk trig) es); auto using above_radd_keep.
Qed.

Lemma above_hist_processing_adds t acc_chans chk trig h m k es d :
  In (k, es) h -> (k =? d) = true -> tmem d acc_chans = false -> existsb (hit chk trig) es = true ->
  t < last_end es ->
  above t d (hist_processing acc_chans chk trig h m).
Proof.
  unfold hist_processing; revert m; induction h as [|[c es'] r IH]; intros m Hin Hk Hacc Hhit Hlt; [destruct Hin |].
  cbn [fold_left]. destruct Hin as [Heq|Hin].
  - inversion Heq; subst c es'. apply N.eqb_eq in Hk; subst k. rewrite Hacc, Hhit; cbn [negb andb].
    fold (hist_processing acc_chans chk trig r (radd d (last_end es) m)).
    apply above_hist_processing_keep, above_radd_new, Hlt.
  - apply IH; auto.
Qed.

Lemma above_inner_keep t chk trig rseq c (es_all l : list period) m d :
  above t d m ->
  above t d (fold_left (fun m e => if hit chk trig e
                                  then (if rseq <? snd e then radd c rseq m else radd c (last_end es_all) m)
                                  else m) l m).
Proof.
  revert m; induction l as [|e l IH]; intros m H; cbn [fold_left]; auto.
  apply IH. destruct (hit chk trig e); auto. destruct (rseq <? snd e); apply above_radd_keep; exact H.
Qed.

Lemma above_inner_adds t chk trig rseq c (es_all l : list period) m e :
  In e l -> hit chk trig e = true -> t < rseq -> t < last_end es_all ->
  above t c (fold_left (fun m e => if hit chk trig e
                                  then (if rseq <? snd e then radd c rseq m else radd c (last_end es_all) m)
                                  else m) l m).
Proof.
  revert m; induction l as [|e0 l IH]; intros m Hin Hhit H1 H2; [destruct Hin |].
  cbn [fold_left]. destruct Hin as [->|Hin]; [| apply IH; auto].
  rewrite Hhit. apply above_inner_keep. destruct (rseq <? snd e); apply above_radd_new; auto.
Qed.

Lemma above_role_processing_keep t acc_chans chk trig r rseq m d :
  above t d m -> above t d (revoked_role_processing acc_chans chk trig r rseq m).
Proof.
  intros H; unfold revoked_role_processing.
  set (m1 := if r_deleted r then m else _).
  assert (above t d m1) as H1.
  { subst m1; destruct (r_deleted r); auto.
    generalize (r_chans r); intros l; revert m H; induction l as [|[c s] l IH]; intros m H; cbn [fold_left]; auto.
    apply IH. destruct (tmem c acc_chans); auto using above_radd_keep. }
  clearbody m1. generalize (r_hist r); intros h; revert m1 H1.
  induction h as [|[c es] h IH]; intros m1 H1; cbn [fold_left]; auto.
  apply IH. destruct (tmem c acc_chans); auto. apply above_inner_keep; auto.
Qed.

Lemma above_chans_fold_keep t acc_chans rseq (l : tset) m d :
  above t d m ->
  above t d (fold_left (fun m '(c, _) => if tmem c acc_chans then m else radd c rseq m) l m).
Proof.
  revert m; induction l as [|[c s] l IH]; intros m H; cbn [fold_left]; auto.
  apply IH. destruct (tmem c acc_chans); auto using above_radd_keep.
Qed.

Lemma above_role_processing_adds_current t acc_chans chk trig r rseq m d :
  r_deleted r = false -> tmem d (r_chans r) = true -> tmem d acc_chans = false -> t < rseq ->
  above t d (revoked_role_processing acc_chans chk trig r rseq m).
Proof.
  intros Hdel Hc Hacc Hlt; unfold revoked_role_processing; rewrite Hdel.
  set (m1 := fold_left _ (r_chans r) m).
  assert (above t d m1) as H1.
  { subst m1. revert m Hc; generalize (r_chans r); intros l; induction l as [|[c s] l IH]; intros m Hc; [discriminate |].
    cbn [fold_left]. unfold tmem in Hc; cbn [tget] in Hc. destruct (c =? d) eqn:E.
    - apply N.eqb_eq in E; subst c. rewrite Hacc.
      apply above_chans_fold_keep, above_radd_new, Hlt.
    - apply IH; exact Hc. }
  clearbody m1. generalize (r_hist r); intros h; revert m1 H1.
  induction h as [|[c es] h IH]; intros m1 H1; cbn [fold_left]; auto.
  apply IH. destruct (tmem c acc_chans); auto. apply above_inner_keep; auto.
Qed.

Lemma above_role_processing_adds_hist t acc_chans chk trig r rseq m d k es e :
  In (k, es) (r_hist r) -> (k =? d) = true -> In e es -> hit chk trig e = true -> tmem d acc_chans = false ->
  t < rseq -> t < last_end es ->
  above t d (revoked_role_processing acc_chans chk trig r rseq m).
Proof.
  intros Hin Hk He Hhit Hacc Hl1 Hl2; unfold revoked_role_processing.
  set (m1 := if r_deleted r then m else _). clearbody m1.
  revert m1 Hin; generalize (r_hist r); intros h; induction h as [|[c es'] h IH]; intros m1 Hin; [destruct Hin |].
  cbn [fold_left]. destruct Hin as [Heq|Hin]; [| apply IH; exact Hin].
  inversion Heq; subst c es'. apply N.eqb_eq in Hk; subst k. rewrite Hacc.
  set (m2 := fold_left _ es m1).
  assert (above t d m2) as H2 by (subst m2; eapply above_inner_adds; eauto).
  clearbody m2. clear IH. revert m2 H2. induction h as [|[c es'] h IH]; intros m2 H2; cbn [fold_left]; auto.
  apply IH. destruct (tmem c acc_chans); auto. apply above_inner_keep; auto.
Qed.

Lemma above_fold_roles_keep t acc_chans chk trig (l : list (role_st * N)) m d :
  above t d m ->
  above t d (fold_left (fun m '(r, _) => hist_processing acc_chans chk trig (r_hist r) m) l m).
Proof.
  revert m; induction l as [|[r x] l IH]; intros m H; cbn [fold_left]; auto.
  apply IH, above_hist_processing_keep, H.
Qed.

Lemma above_fold_roles_adds t acc_chans chk trig (l : list (role_st * N)) m d r x k es :
  In (r, x) l -> tmem d acc_chans = false ->
  In (k, es) (r_hist r) -> (k =? d) = true -> existsb (hit chk trig) es = true -> t < last_end es ->
  above t d (fold_left (fun m '(r, _) => hist_processing acc_chans chk trig (r_hist r) m) l m).
Proof.
  revert m; induction l as [|[r' x'] l IH]; intros m Hin Hacc Hh Hk Hhit Hlt; [destruct Hin |].
  cbn [fold_left]. destruct Hin as [Heq|Hin]; [| eapply IH; eauto].
  inversion Heq; subst r' x'. apply above_fold_roles_keep.
  eapply above_hist_processing_adds; eauto.
Qed.

Lemma above_fold_revoke_keep t acc_chans chk trig roles (l : tset) m d :
  above t d m ->
  above t d (fold_left (fun m '(name, rseq) =>
                       match find_role name roles with
                       | Some r => revoked_role_processing acc_chans chk trig r rseq m
                       | None => m
                       end) l m).
Proof.
  revert m; induction l as [|[name rseq] l IH]; intros m H; cbn [fold_left]; auto.
  apply IH. destruct (find_role name roles); auto using above_role_processing_keep.
Qed.

Lemma above_fold_revoke_adds t acc_chans chk trig roles (l : tset) m d name rseq r :
  In (name, rseq) l -> find_role name roles = Some r ->
  (forall m, above t d (revoked_role_processing acc_chans chk trig r rseq m)) ->
  above t d (fold_left (fun m '(name, rseq) =>
                       match find_role name roles with
                       | Some r => revoked_role_processing acc_chans chk trig r rseq m
                       | None => m
                       end) l m).
Proof.
  revert m; induction l as [|[name' rseq'] l IH]; intros m Hin Hf Hadds; [destruct Hin |].
  cbn [fold_left]. destruct Hin as [Heq|Hin]; [| apply IH; auto].
  inversion Heq; subst name' rseq'. rewrite Hf. apply above_fold_revoke_keep, Hadds.
Qed.

(* a hit entry above t: the history it belongs to ends above t *)
Lemma hit_entry t chk trig h d e :
  last_max h -> chk <= t -> In e (hget d h) -> t < snd e ->
  exists k es, In (k, es) h /\ (k =? d) = true /\ es = hget d h /\ existsb (hit chk trig) es = true /\ t < last_end es.
Proof.
  intros Hlm Hchk He Hgt. destruct (hget_in _ _ _ He) as (k & es & Hin & Hk & Hes).
  exists k, es. repeat split; auto.
  - subst es. apply existsb_exists. exists e; split; auto. apply hit_of. lia.
  - subst es. specialize (Hlm d e He). lia.
Qed.

Theorem tracked_reported_above g c t since low trig :
  loaded g -> pos_seqs g -> hists_last_max g ->
  check_seq since low trig <= t ->
  tracked c t g ->
  tmem c (effective g) = false ->
  above t c (revoked_channels (view_user g) (view_roles g) since low trig).
Proof.
  intros (Hlu & Hlr & Hlroles) Hpos (Hmu & Hmr & Hmroles) Hchk Ht Heff. unfold effective in Heff.
  unfold revoked_channels.
  set (u := view_user g) in *. set (roles := view_roles g) in *.
  set (chk := check_seq since low trig) in *. set (acc_chans := inherited u roles) in *.
  destruct Ht as [[Hc|Hh]|(r & Har & p & del & Hget & Hhas)].
  - exfalso. assert (tmem c acc_chans = true) as H by (apply inherited_keep; exact Hc). congruence.
  - destruct Hh as (e & He & Hgt).
    destruct (hit_entry t chk trig _ c e Hmu Hchk He Hgt) as (k & es & Hin & Hk & Hes & Hhit & Hlast).
    eapply above_hist_processing_adds; eauto.
  - apply above_hist_processing_keep.
    assert (find_role r roles = Some (view_role (r, (p, del)))) as Hfind
      by (unfold roles, view_roles; rewrite find_role_view, Hget; reflexivity).
    destruct (tmem r (u_roles u)) eqn:Hmem.
    + apply tmem_tget in Hmem as (since_r & Hsr). apply tget_in in Hsr.
      assert (In (view_role (r, (p, del)), since_r) (current_roles_all u roles)) as Hall
        by (eapply current_roles_all_in; eauto).
      assert (hist_hit t (hget c (p_hist p))) as Hh.
      { destruct Hhas as [[Hdel Hc]|Hh]; auto. exfalso. subst del.
        assert (p_inval p = 0) as Hv by (eapply Hlroles; eauto).
        assert (tmem c acc_chans = true) as H.
        { eapply inherited_role with (r := view_role (r, (p, false))) (since := since_r).
          - unfold current_roles; apply filter_In; split; [exact Hall | reflexivity].
          - cbn [view_role r_chans orb]. rewrite Hv; cbn; exact Hc.
          - cbn [view_role r_chans orb]. rewrite Hv; cbn. intros s Hs; eapply Hpos; eauto. }
        congruence. }
      destruct Hh as (e & He & Hgt).
      destruct (hit_entry t chk trig _ c e (Hmroles r p del Hget) Hchk He Hgt) as (k & es & Hin & Hk & Hes & Hhit & Hlast).
      eapply above_fold_roles_adds with (r := view_role (r, (p, del))) (x := since_r); eauto.
      apply in_or_app. destruct del.
      * right. apply filter_In; split; [exact Hall | reflexivity].
      * left. unfold current_roles; apply filter_In; split; [exact Hall | reflexivity].
    + apply above_fold_roles_keep.
      destruct Har as [Har|Hrh]; [unfold u, view_user in Hmem; cbn [u_roles] in Hmem; congruence |].
      destruct Hrh as (e & He & Hgt).
      destruct (hit_entry t chk trig _ r e Hmr Hchk He Hgt) as (k & es & Hin & Hk & Hes & Hhit & Hlast).
      apply N.eqb_eq in Hk; subst k.
      eapply above_fold_revoke_adds with (name := r) (rseq := last_end es); eauto.
      * unfold roles_to_revoke. apply in_flat_map. exists (r, es); split; [exact Hin |].
        rewrite Hmem; cbn [negb andb]. rewrite Hhit. left; reflexivity.
      * intros m. destruct Hhas as [[Hdel Hc]|Hh].
        -- subst del. assert (p_inval p = 0) as Hv by (eapply Hlroles; eauto).
           apply above_role_processing_adds_current; auto.
           cbn [view_role r_chans orb]. rewrite Hv; cbn; exact Hc.
        -- destruct Hh as (e' & He' & Hgt').
           destruct (hit_entry t chk trig _ c e' (Hmroles r p del Hget) Hchk He' Hgt') as (k' & es' & Hin' & Hk' & Hes' & Hhit' & Hlast').
           apply (above_role_processing_adds_hist t acc_chans chk trig (view_role (r, (p, del))) (last_end es) m c k' es' e'); auto.
           ++ subst es'; exact He'.
           ++ apply hit_of; lia.
Qed.

(* the quantitative form of revoked_complete *)
Theorem revoked_complete_above g1 ops c t since low trig :
  let g2 := run g1 ops in
  loaded g1 -> tmem c (effective g1) = true ->
  check_seq since low trig <= t ->
  Forall (op_above t) ops -> unpruned g1 ops ->
  loaded g2 -> pos_seqs g2 -> hists_last_max g2 -> tmem c (effective g2) = false ->
  exists at_, In (c, at_) (revoked_channels (view_user g2) (view_roles g2) since low trig) /\ t < at_.
Proof.
  intros g2 Hl1 He1 Hchk Hab Hun Hl2 Hpos Hlm He2.
  destruct (tracked_reported_above g2 c t since low trig Hl2 Hpos Hlm Hchk) as (a & Ha & Hlt); auto.
  - apply run_tracked; auto using loaded_invals_above, effective_tracked.
  - exists a; split; auto. apply tget_in; exact Ha.
Qed.
