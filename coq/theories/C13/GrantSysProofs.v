(* C13: revoked_complete over the grant-bookkeeping state machine (GrantSys.v), for ALL operation lists.

   If a channel was effective for the user at a loaded state g1 (a pull), every later invalidation /
   role deletion carries a sequence above the resume point chk, no history entry was merged away, and the
   channel is not effective at a later loaded state g2, then RevokedCollectionChannels reports it at g2.

   Invariant ("tracked"): the channel still has a source that is either alive or recorded as lost after chk:
   directly on the user, or through a role that is held / recorded lost after chk and that has the channel /
   has it recorded lost after chk. *)
From SG Require Import Base.Prelude C13.Revocation C13.RevocationProofs C13.GrantSys.
Open Scope N_scope.

Lemma tget_in c t s : tget c t = Some s -> In (c, s) t.
Proof.
  induction t as [|[k v] r IH]; cbn [tget]; [discriminate |].
  destruct (k =? c) eqn:E; intros H.
  - apply N.eqb_eq in E; inversion H; subst; left; reflexivity.
  - right; auto.
Qed.

(* ---------- roles: association-list helpers ---------- *)
Lemma role_get_upd_same r f l : role_get r (role_upd r f l) = option_map f (role_get r l).
Proof.
  induction l as [|[k v] rest IH]; cbn [role_upd role_get option_map]; auto.
  destruct (k =? r) eqn:E; cbn [role_get]; rewrite E; auto.
Qed.

Lemma role_get_upd_other r r' f l : r' <> r -> role_get r' (role_upd r f l) = role_get r' l.
Proof.
  intros Hne; induction l as [|[k v] rest IH]; cbn [role_upd role_get]; auto.
  destruct (k =? r) eqn:E; cbn [role_get].
  - apply N.eqb_eq in E; subst k. destruct (r =? r') eqn:E2; [apply N.eqb_eq in E2; congruence | reflexivity].
  - destruct (k =? r'); auto.
Qed.

Lemma role_get_app r l k v :
  role_get r (l ++ [(k, v)]) = match role_get r l with Some x => Some x | None => if k =? r then Some v else None end.
Proof. induction l as [|[k' v'] rest IH]; cbn [app role_get]; auto. destruct (k' =? r); auto. Qed.

Lemma find_role_view r l :
  find_role r (map view_role l) = option_map (fun v => view_role (r, v)) (role_get r l).
Proof.
  induction l as [|[k [p del]] rest IH]; cbn [map find_role role_get option_map]; auto.
  cbn [view_role r_id]. destruct (k =? r) eqn:E; auto.
  apply N.eqb_eq in E; subst k; reflexivity.
Qed.

(* ---------- the invariant ---------- *)
Section Tracked.
Variables c chk : N.

Definition hist_hit (es : list period) : Prop := exists e, In e es /\ chk < snd e.

Definition alive (name : N) (p : princ) : Prop :=
  tmem name (p_set p) = true \/ hist_hit (hget name (p_hist p)).

Definition role_has (g : gstate) (r : N) : Prop :=
  exists p del, role_get r (g_roles g) = Some (p, del) /\
                ((del = false /\ tmem c (p_set p) = true) \/ hist_hit (hget c (p_hist p))).

Definition tracked (g : gstate) : Prop :=
  alive c (g_user g) \/ exists r, alive r (g_uroles g) /\ role_has g r.

Definition inval_ok (p : princ) : Prop := p_inval p = 0 \/ chk < p_inval p.

Definition invals_above (g : gstate) : Prop :=
  inval_ok (g_user g) /\ inval_ok (g_uroles g) /\
  forall r p, role_get r (g_roles g) = Some (p, false) -> inval_ok p.

Definition op_above (o : gop) : Prop := match op_seq o with Some s => chk < s | None => True end.

Lemma alive_invalidate name s p : alive name p -> alive name (invalidate s p).
Proof. unfold alive, invalidate; destruct (p_inval p =? 0); auto. Qed.

Lemma alive_rebuild name new_ p :
  inval_ok p -> unpruned_princ new_ p -> alive name p -> alive name (rebuild new_ p).
Proof.
  intros Hok Hun Ha; unfold rebuild. destruct (p_inval p =? 0) eqn:E; auto.
  apply N.eqb_neq in E. destruct Hok as [Hok|Hok]; [congruence |].
  unfold alive; cbn [p_set p_hist]. rewrite (Hun E).
  destruct Ha as [Ha|(e & He & Hgt)].
  - destruct (tmem name new_) eqn:En; auto. right.
    destruct (record_lost_records (p_inval p) (p_set p) new_ (p_hist p) name Ha En) as (s & Hs).
    exists (s, p_inval p); split; auto.
  - right; exists e; split; auto. apply record_lost_incl; exact He.
Qed.

Lemma inval_ok_invalidate s p : chk < s -> inval_ok p -> inval_ok (invalidate s p).
Proof. unfold inval_ok, invalidate; intros Hs H; destruct (p_inval p =? 0); cbn [p_inval]; auto. Qed.

Lemma inval_ok_rebuild new_ p : inval_ok p -> inval_ok (rebuild new_ p).
Proof. unfold inval_ok, rebuild; intros H; destruct (p_inval p =? 0); cbn [p_inval]; auto. Qed.

(* role_has under an update of role r0 that keeps "has the channel" *)
Lemma role_has_upd g g' r0 f r :
  g_roles g' = role_upd r0 f (g_roles g) ->
  (forall p del, role_get r0 (g_roles g) = Some (p, del) ->
     ((del = false /\ tmem c (p_set p) = true) \/ hist_hit (hget c (p_hist p))) ->
     let '(p', del') := f (p, del) in
     ((del' = false /\ tmem c (p_set p') = true) \/ hist_hit (hget c (p_hist p')))) ->
  role_has g r -> role_has g' r.
Proof.
  intros Hg Hf (p & del & Hget & Hhas); unfold role_has; rewrite Hg.
  destruct (N.eq_dec r r0) as [->|Hne].
  - rewrite role_get_upd_same, Hget; cbn [option_map].
    specialize (Hf p del Hget Hhas). destruct (f (p, del)) as [p' del']. exists p', del'; auto.
  - rewrite role_get_upd_other by exact Hne. exists p, del; auto.
Qed.

Lemma step_tracked g o :
  invals_above g -> op_above o -> unpruned_step g o -> tracked g -> tracked (step g o).
Proof.
  intros (Hu & Hr & Hroles) Habove Hun Ht.
  destruct o as [s|s|r0 s|new_|new_|r0 new_|r0 new_|r0 s]; cbn [step]; unfold tracked in *; cbn [g_user g_uroles];
    cbn [op_above op_seq] in Habove; cbn [unpruned_step] in Hun.
  - (* InvalUser *)
    destruct Ht as [Ht|Ht]; [left; apply alive_invalidate; exact Ht | right; exact Ht].
  - (* InvalUserRoles *)
    destruct Ht as [Ht|(r & Ha & Hh)]; [left; exact Ht | right; exists r; split; [apply alive_invalidate; exact Ha | exact Hh]].
  - (* InvalRole *)
    destruct Ht as [Ht|(r & Ha & Hh)]; [left; exact Ht | right; exists r; split; [exact Ha |]].
    eapply role_has_upd; [reflexivity | | exact Hh].
    intros p del Hget Hhas; destruct del; auto. unfold invalidate; destruct (p_inval p =? 0); auto.
  - (* RebuildUser *)
    destruct Ht as [Ht|Ht]; [left; apply alive_rebuild; auto | right; exact Ht].
  - (* RebuildUserRoles *)
    destruct Ht as [Ht|(r & Ha & Hh)]; [left; exact Ht | right; exists r; split; [apply alive_rebuild; auto | exact Hh]].
  - (* RebuildRole *)
    destruct Ht as [Ht|(r & Ha & Hh)]; [left; exact Ht | right; exists r; split; [exact Ha |]].
    eapply role_has_upd; [reflexivity | | exact Hh].
    intros p del Hget Hhas; destruct del; auto.
    assert (alive c (rebuild new_ p)) as Hal.
    { apply alive_rebuild; [eapply Hroles; exact Hget | apply Hun; exact Hget |].
      destruct Hhas as [[_ H]|H]; [left | right]; exact H. }
    destruct Hal as [H|H]; auto.
  - (* CreateRole *)
    destruct (role_get r0 (g_roles g)) as [[p0 [|]]|] eqn:Hget0; cbn [g_user g_uroles]; auto.
    + destruct Ht as [Ht|(r & Ha & Hh)]; [left; exact Ht | right; exists r; split; [exact Ha |]].
      eapply role_has_upd; [reflexivity | | exact Hh].
      intros p del Hget Hhas. rewrite Hget0 in Hget; inversion Hget; subst p del. cbn [p_set p_hist].
      destruct Hhas as [[Hd _]|H]; [discriminate | right; exact H].
    + destruct Ht as [Ht|(r & Ha & p & del & Hget & Hhas)]; [left; exact Ht | right; exists r; split; [exact Ha |]].
      exists p, del; split; auto. cbn [g_roles]. rewrite role_get_app, Hget; reflexivity.
  - (* DeleteRole *)
    destruct Ht as [Ht|(r & Ha & Hh)]; [left; exact Ht | right; exists r; split; [exact Ha |]].
    eapply role_has_upd; [reflexivity | | exact Hh].
    intros p del Hget Hhas; destruct del; cbn [orb]; auto.
    destruct (p_inval p =? 0) eqn:E; cbn [negb]; auto.
    cbn [p_set p_hist]. right. rewrite (Hun p Hget).
    destruct Hhas as [[_ H]|(e & He & Hgt)].
    + destruct (record_lost_records s (p_set p) [] (p_hist p) c H eq_refl) as (s0 & Hs0).
      exists (s0, s); split; auto.
    + exists e; split; auto. apply record_lost_incl; exact He.
Qed.

Lemma step_invals_above g o : invals_above g -> op_above o -> invals_above (step g o).
Proof.
  intros (Hu & Hr & Hroles) Habove.
  destruct o as [s|s|r0 s|new_|new_|r0 new_|r0 new_|r0 s]; cbn [step]; unfold invals_above; cbn [g_user g_uroles g_roles];
    cbn [op_above op_seq] in Habove.
  - repeat split; auto. apply inval_ok_invalidate; auto.
  - repeat split; auto. apply inval_ok_invalidate; auto.
  - repeat split; auto. intros r p Hget. destruct (N.eq_dec r r0) as [->|Hne].
    + rewrite role_get_upd_same in Hget. destruct (role_get r0 (g_roles g)) as [[p0 del0]|] eqn:E; [| discriminate].
      cbn [option_map] in Hget. destruct del0; inversion Hget; subst.
      apply inval_ok_invalidate; eauto.
    + rewrite role_get_upd_other in Hget by exact Hne; eauto.
  - repeat split; auto. apply inval_ok_rebuild; auto.
  - repeat split; auto. apply inval_ok_rebuild; auto.
  - repeat split; auto. intros r p Hget. destruct (N.eq_dec r r0) as [->|Hne].
    + rewrite role_get_upd_same in Hget. destruct (role_get r0 (g_roles g)) as [[p0 del0]|] eqn:E; [| discriminate].
      cbn [option_map] in Hget. destruct del0; inversion Hget; subst.
      apply inval_ok_rebuild; eauto.
    + rewrite role_get_upd_other in Hget by exact Hne; eauto.
  - destruct (role_get r0 (g_roles g)) as [[p0 [|]]|] eqn:Hget0; unfold invals_above; cbn [g_user g_uroles g_roles]; repeat split; auto.
    + intros r p Hget. destruct (N.eq_dec r r0) as [->|Hne].
      * rewrite role_get_upd_same, Hget0 in Hget; cbn [option_map] in Hget; inversion Hget; subst. left; reflexivity.
      * rewrite role_get_upd_other in Hget by exact Hne; eauto.
    + intros r p Hget. rewrite role_get_app in Hget.
      destruct (role_get r (g_roles g)) as [[p1 d1]|] eqn:E.
      * inversion Hget; subst; eauto.
      * destruct (r0 =? r); inversion Hget; subst. left; reflexivity.
  - repeat split; auto. intros r p Hget. destruct (N.eq_dec r r0) as [->|Hne].
    + rewrite role_get_upd_same in Hget. destruct (role_get r0 (g_roles g)) as [[p0 del0]|] eqn:E; [| discriminate].
      cbn [option_map] in Hget. destruct del0; cbn [orb] in Hget; [inversion Hget |].
      destruct (p_inval p0 =? 0); cbn [negb] in Hget; inversion Hget; subst. eauto.
    + rewrite role_get_upd_other in Hget by exact Hne; eauto.
Qed.

Lemma run_tracked ops : forall g,
  invals_above g -> Forall op_above ops -> unpruned g ops -> tracked g -> tracked (run g ops).
Proof.
  induction ops as [|o ops IH]; intros g Hinv Hab Hun Ht; cbn [run fold_left]; auto.
  inversion Hab; subst. destruct Hun as [Hun1 Hun2].
  apply IH; auto using step_invals_above, step_tracked.
Qed.

End Tracked.

(* ---------- effective channels ---------- *)
Lemma inherited_keep u roles c : tmem c (u_chans u) = true -> tmem c (inherited u roles) = true.
Proof.
  unfold inherited. generalize (current_roles u roles), (u_chans u).
  induction l as [|[r since] l IH]; intros t H; cbn [fold_left]; auto.
  apply IH, tmem_tadd_at_keep, H.
Qed.

Lemma inherited_inv u roles c :
  tmem c (inherited u roles) = true ->
  tmem c (u_chans u) = true \/ exists r since, In (r, since) (current_roles u roles) /\ tmem c (r_chans r) = true.
Proof.
  unfold inherited. generalize (current_roles u roles), (u_chans u).
  induction l as [|[r since] l IH]; intros t H; cbn [fold_left] in H; auto.
  apply IH in H as [H|(r' & s' & Hin & Hc)].
  - apply tmem_tadd_at_inv in H as [H|H]; auto.
    right; exists r, since; split; [left; reflexivity | exact H].
  - right; exists r', s'; split; [right; exact Hin | exact Hc].
Qed.

Lemma inherited_role u roles c r since :
  In (r, since) (current_roles u roles) -> tmem c (r_chans r) = true ->
  (forall s, tget c (r_chans r) = Some s -> 0 < s) ->
  tmem c (inherited u roles) = true.
Proof.
  unfold inherited. generalize (current_roles u roles), (u_chans u).
  induction l as [|[r' since'] l IH]; intros t Hin Hc Hpos; [destruct Hin |].
  cbn [fold_left]. destruct Hin as [Heq|Hin]; [| apply IH; auto].
  inversion Heq; subst r' since'.
  assert (tmem c (tadd_at (r_chans r) since t) = true) as H.
  { apply tmem_tadd_at_new; auto. intros s Hs; specialize (Hpos s Hs); lia. }
  revert H. generalize (tadd_at (r_chans r) since t). clear.
  induction l as [|[r since] l IH]; intros t H; cbn [fold_left]; auto.
  apply IH, tmem_tadd_at_keep, H.
Qed.

Lemma current_roles_all_in u roles name since r :
  In (name, since) (u_roles u) -> find_role name roles = Some r -> In (r, since) (current_roles_all u roles).
Proof.
  intros Hin Hf; unfold current_roles_all. apply in_flat_map. exists (name, since); split; auto.
  rewrite Hf; left; reflexivity.
Qed.

Lemma current_roles_all_inv u roles r since :
  In (r, since) (current_roles_all u roles) -> exists name, In (name, since) (u_roles u) /\ find_role name roles = Some r.
Proof.
  unfold current_roles_all; intros H; apply in_flat_map in H as ([name s] & Hin & H).
  destruct (find_role name roles) eqn:E; [| destruct H].
  destruct H as [H|[]]; inversion H; subst. exists name; auto.
Qed.

(* ---------- the final step: a tracked, no longer effective channel is reported ---------- *)
Definition pos_seqs (g : gstate) : Prop :=
  forall r p, role_get r (g_roles g) = Some (p, false) -> forall c s, tget c (p_set p) = Some s -> 0 < s.

Lemma hit_of chk trig e : chk < snd e -> hit chk trig e = true.
Proof. intros H; unfold hit; apply orb_true_iff; left; apply N.ltb_lt; exact H. Qed.

Lemma hist_hit_exists chk trig es : hist_hit chk es -> existsb (hit chk trig) es = true.
Proof. intros (e & He & Hgt); apply existsb_exists; exists e; split; auto using hit_of. Qed.

Lemma fold_roles_keep acc_chans chk trig (l : list (role_st * N)) m d :
  tmem d m = true ->
  tmem d (fold_left (fun m '(r, _) => hist_processing acc_chans chk trig (r_hist r) m) l m) = true.
Proof.
  revert m; induction l as [|[r x] l IH]; intros m H; cbn [fold_left]; auto.
  apply IH, hist_processing_keep, H.
Qed.

Lemma fold_roles_adds acc_chans chk trig (l : list (role_st * N)) m d r x :
  In (r, x) l -> tmem d acc_chans = false -> hist_hit chk (hget d (r_hist r)) ->
  tmem d (fold_left (fun m '(r, _) => hist_processing acc_chans chk trig (r_hist r) m) l m) = true.
Proof.
  revert m; induction l as [|[r' x'] l IH]; intros m Hin Hacc Hh; [destruct Hin |].
  cbn [fold_left]. destruct Hin as [Heq|Hin]; [| apply IH; auto].
  inversion Heq; subst r' x'. apply fold_roles_keep.
  destruct Hh as (e & He & Hgt). destruct (hget_in _ _ _ He) as (k & es & Hin & Hk & Hes).
  eapply hist_processing_adds; eauto. subst es. apply existsb_exists; exists e; split; auto using hit_of.
Qed.

Lemma fold_revoke_keep acc_chans chk trig roles (l : tset) m d :
  tmem d m = true ->
  tmem d (fold_left (fun m '(name, rseq) =>
                       match find_role name roles with
                       | Some r => revoked_role_processing acc_chans chk trig r rseq m
                       | None => m
                       end) l m) = true.
Proof.
  revert m; induction l as [|[name rseq] l IH]; intros m H; cbn [fold_left]; auto.
  apply IH. destruct (find_role name roles); auto using role_processing_keep.
Qed.

Lemma fold_revoke_adds acc_chans chk trig roles (l : tset) m d name rseq r :
  In (name, rseq) l -> find_role name roles = Some r ->
  (forall m, tmem d (revoked_role_processing acc_chans chk trig r rseq m) = true) ->
  tmem d (fold_left (fun m '(name, rseq) =>
                       match find_role name roles with
                       | Some r => revoked_role_processing acc_chans chk trig r rseq m
                       | None => m
                       end) l m) = true.
Proof.
  revert m; induction l as [|[name' rseq'] l IH]; intros m Hin Hf Hadds; [destruct Hin |].
  cbn [fold_left]. destruct Hin as [Heq|Hin]; [| apply IH; auto].
  inversion Heq; subst name' rseq'. rewrite Hf. apply fold_revoke_keep, Hadds.
Qed.

Lemma tracked_reported g c since low trig :
  loaded g -> pos_seqs g ->
  tracked c (check_seq since low trig) g ->
  tmem c (effective g) = false ->
  tmem c (revoked_channels (view_user g) (view_roles g) since low trig) = true.
Proof.
  intros (Hlu & Hlr & Hlroles) Hpos Ht Heff. unfold effective in Heff.
  unfold revoked_channels.
  set (u := view_user g) in *. set (roles := view_roles g) in *.
  set (chk := check_seq since low trig) in *. set (acc_chans := inherited u roles) in *.
  destruct Ht as [[Hc|Hh]|(r & Har & p & del & Hget & Hhas)].
  - (* the user still has the channel itself: it is effective *)
    exfalso. assert (tmem c acc_chans = true) as H by (apply inherited_keep; exact Hc). congruence.
  - (* recorded on the user *)
    destruct Hh as (e & He & Hgt). destruct (hget_in _ _ _ He) as (k & es & Hin & Hk & Hes).
    eapply hist_processing_adds; eauto. subst es; apply existsb_exists; exists e; split; auto using hit_of.
  - (* through role r *)
    apply hist_processing_keep.
    assert (find_role r roles = Some (view_role (r, (p, del)))) as Hfind
      by (unfold roles, view_roles; rewrite find_role_view, Hget; reflexivity).
    destruct (tmem r (u_roles u)) eqn:Hmem.
    + (* the role is (still / again) held *)
      apply tmem_tget in Hmem as (since_r & Hsr). apply tget_in in Hsr.
      assert (In (view_role (r, (p, del)), since_r) (current_roles_all u roles)) as Hall
        by (eapply current_roles_all_in; eauto).
      assert (hist_hit chk (hget c (p_hist p))) as Hh.
      { destruct Hhas as [[Hdel Hc]|Hh]; auto. exfalso. subst del.
        assert (p_inval p = 0) as Hv by (eapply Hlroles; eauto).
        assert (tmem c acc_chans = true) as H.
        { eapply inherited_role with (r := view_role (r, (p, false))) (since := since_r).
          - unfold current_roles; apply filter_In; split; [exact Hall | reflexivity].
          - cbn [view_role r_chans orb]. rewrite Hv; cbn; exact Hc.
          - cbn [view_role r_chans orb]. rewrite Hv; cbn. intros s Hs; eapply Hpos; eauto. }
        congruence. }
      eapply fold_roles_adds with (r := view_role (r, (p, del))) (x := since_r); auto.
      apply in_or_app. destruct del.
      * right. apply filter_In; split; [exact Hall | reflexivity].
      * left. unfold current_roles; apply filter_In; split; [exact Hall | reflexivity].
    + (* the role was lost after chk: it is in rolesToRevoke *)
      apply fold_roles_keep.
      destruct Har as [Har|Hrh]; [unfold u, view_user in Hmem; cbn [u_roles] in Hmem; congruence |].
      destruct Hrh as (e & He & Hgt). destruct (hget_in _ _ _ He) as (k & es & Hin & Hk & Hes).
      apply N.eqb_eq in Hk; subst k.
      eapply fold_revoke_adds with (name := r) (rseq := last_end es); eauto.
      * unfold roles_to_revoke. apply in_flat_map. exists (r, es); split; [exact Hin |].
        rewrite Hmem; cbn [negb andb].
        replace (existsb (hit chk trig) es) with true; [left; reflexivity |].
        symmetry; subst es; apply existsb_exists; exists e; split; auto using hit_of.
      * intros m. destruct Hhas as [[Hdel Hc]|Hh].
        -- subst del. assert (p_inval p = 0) as Hv by (eapply Hlroles; eauto).
           apply role_processing_adds_current; auto.
           cbn [view_role r_chans orb]. rewrite Hv; cbn; exact Hc.
        -- destruct Hh as (e' & He' & Hgt'). destruct (hget_in _ _ _ He') as (k' & es' & Hin' & Hk' & Hes').
           apply (role_processing_adds_hist acc_chans chk trig (view_role (r, (p, del))) (last_end es) m c k' es' e').
           ++ cbn [view_role r_hist]; exact Hin'.
           ++ exact Hk'.
           ++ subst es'; exact He'.
           ++ apply hit_of; exact Hgt'.
           ++ exact Heff.
Qed.

(* ---------- a channel effective at a loaded state is tracked ---------- *)
Lemma effective_tracked g c chk :
  tmem c (effective g) = true -> tracked c chk g.
Proof.
  unfold effective; intros H. apply inherited_inv in H as [H|(r & since & Hin & Hc)].
  - left; left; exact H.
  - right. unfold current_roles in Hin. apply filter_In in Hin as [Hin Hdel].
    apply current_roles_all_inv in Hin as (name & Hin & Hf).
    unfold view_roles in Hf; rewrite find_role_view in Hf.
    destruct (role_get name (g_roles g)) as [[p del]|] eqn:Hget; [| discriminate].
    cbn [option_map] in Hf; inversion Hf; subst r. cbn [view_role r_deleted r_chans] in Hdel, Hc.
    destruct del; [discriminate |]. cbn [orb] in Hc.
    exists name; split.
    + left. cbn [view_user u_roles] in Hin. unfold tmem.
      clear -Hin. induction (p_set (g_uroles g)) as [|[k v] l IH]; [destruct Hin |].
      cbn [tget]. destruct (k =? name) eqn:E; auto. destruct Hin as [Heq|Hin]; auto.
      inversion Heq; subst; rewrite N.eqb_refl in E; discriminate.
    + exists p, false; split; auto. left; split; auto.
      destruct (negb (p_inval p =? 0)); [discriminate | exact Hc].
Qed.

Lemma loaded_invals_above g chk : loaded g -> invals_above chk g.
Proof.
  intros (Hu & Hr & Hroles); repeat split; try (left; assumption).
  intros r p Hget; left; eauto.
Qed.

(* ---------- revoked_complete ---------- *)
Theorem revoked_complete g1 ops c since low trig :
  let chk := check_seq since low trig in
  let g2 := run g1 ops in
  loaded g1 ->
  tmem c (effective g1) = true ->                                   (* held at the resume point *)
  Forall (op_above chk) ops ->                                      (* everything later happened after it *)
  unpruned g1 ops ->                                                (* no history entry was merged away *)
  loaded g2 -> pos_seqs g2 ->
  tmem c (effective g2) = false ->                                  (* ... and lost since *)
  tmem c (revoked_channels (view_user g2) (view_roles g2) since low trig) = true.
Proof.
  intros chk g2 Hl1 He1 Hab Hun Hl2 Hpos He2.
  apply tracked_reported; auto.
  apply run_tracked; auto using loaded_invals_above, effective_tracked.
Qed.
