(* C13 model, part 1: grant-history bookkeeping and the revoked-channel computation as pure functions.

   Code modelled (current tree):
     auth/auth.go   calculateHistory (without the time-based PruneHistory: ClientPartitionWindow is
                    30 days, nothing is pruned inside a client's window; WITH the max-entries merge)
     auth/user.go   RevokedCollectionChannels, CollectionChannelGrantedPeriods
     auth/user_collection_access.go  InheritedCollectionChannels (TimedSet.AddAtSequence / AddChannel)
     db/changes.go  wasDocInChannelPriorToRevocation, UserHasDocAccess (authorizeAnyChannel)

   Channel, role and document names are interned as numbers by the harness; the star channel "*" is 0.
   A TimedSet is an association list name -> sequence; a TimedSetHistory an association list
   name -> entries (start, end).  Go iterates maps in random order: every function below is
   insensitive to the order of the association lists up to the order of its own result, and results
   are compared as sets / sorted lists by the correspondence. *)
From SG Require Import Base.Prelude.
Open Scope N_scope.

Definition tset := list (N * N).
Definition period := (N * N)%type.
Definition hist := list (N * list period).

Definition max64 : N := 18446744073709551615.
Definition star : N := 0.

Fixpoint tget (c : N) (t : tset) : option N :=
  match t with
  | [] => None
  | (k, s) :: r => if k =? c then Some s else tget c r
  end.
Definition tmem (c : N) (t : tset) : bool := match tget c t with Some _ => true | None => false end.

Fixpoint hget (c : N) (h : hist) : list period :=
  match h with
  | [] => []
  | (k, es) :: r => if k =? c then es else hget c r
  end.

Fixpoint tset_put (c s : N) (t : tset) : tset :=
  match t with
  | [] => [(c, s)]
  | (k, v) :: r => if k =? c then (c, s) :: r else (k, v) :: tset_put c s r
  end.

(* TimedSet.AddChannel: only a non-zero sequence is added; the earliest sequence wins *)
Definition tadd (c s : N) (t : tset) : tset :=
  if 0 <? s then
    match tget c t with
    | None => tset_put c s t
    | Some old => if (old =? 0) || (s <? old) then tset_put c s t else t
    end
  else t.

(* TimedSet.AddAtSequence (no vbucket numbers) *)
Definition tadd_at (other : tset) (at_ : N) (t : tset) : tset :=
  fold_left (fun acc '(c, s) => tadd c (N.max s at_) acc) other t.

(* ---------- principals as a loaded request sees them ---------- *)
Record role_st := mkRole {
  r_id : N;
  r_deleted : bool;
  r_chans : tset;      (* CollectionChannels: empty when invalidated (a deleted role always is) *)
  r_hist : hist }.

Record user_st := mkUser {
  u_seq : N;
  u_chans : tset;      (* the user's own channels *)
  u_hist : hist;
  u_roles : tset;      (* RolesSince / RoleNames *)
  u_role_hist : hist }.

Fixpoint find_role (id : N) (roles : list role_st) : option role_st :=
  match roles with
  | [] => None
  | r :: rest => if r_id r =? id then Some r else find_role id rest
  end.

(* GetRoles: the roles named in RoleNames that exist and are not deleted; GetRolesIncDeleted adds the deleted *)
Definition current_roles_all (u : user_st) (roles : list role_st) : list (role_st * N) :=
  flat_map (fun '(name, since) => match find_role name roles with Some r => [(r, since)] | None => [] end) (u_roles u).
Definition current_roles (u : user_st) (roles : list role_st) : list (role_st * N) :=
  filter (fun '(r, _) => negb (r_deleted r)) (current_roles_all u roles).

Definition inherited (u : user_st) (roles : list role_st) : tset :=
  fold_left (fun acc '(r, since) => tadd_at (r_chans r) since acc) (current_roles u roles) (u_chans u).

(* ---------- calculateHistory ---------- *)
Fixpoint hist_append (c : N) (e : period) (h : hist) : hist :=
  match h with
  | [] => [(c, [e])]
  | (k, es) :: r => if k =? c then (k, es ++ [e]) :: r else (k, es) :: hist_append c e r
  end.

(* CalculateMaxHistoryEntriesPerGrant: min 1, max 10, (1MB/count - 250)/14 in between *)
Definition max_entries (count : nat) : nat :=
  match count with
  | O => 1%nat
  | _ => let m := N.to_nat ((1048576 / N.of_nat count - 250) / 14) in
         Nat.max 1 (Nat.min m 10)
  end.

(* "grantHistory.Entries[1].StartSeq = grantHistory.Entries[0].StartSeq; Entries = Entries[1:]" *)
Definition compact_one (maxe : nat) (es : list period) : list period :=
  if Nat.ltb maxe (length es) then
    match es with
    | (s0, _) :: (_, e1) :: rest => (s0, e1) :: rest
    | _ => es
    end
  else es.

Definition record_lost (inval : N) (lost new_ : tset) (h : hist) : hist :=
  fold_left (fun acc '(c, s) => if tmem c new_ then acc else hist_append c (s, inval) acc) lost h.

Definition calc_history (inval : N) (lost new_ : tset) (h : hist) : hist :=
  let h1 := record_lost inval lost new_ h in
  let maxe := max_entries (length h1) in
  map (fun '(c, es) => (c, compact_one maxe es)) h1.

(* ---------- RevokedCollectionChannels ---------- *)
Definition check_seq (since low trig : N) : N :=
  if 0 <? low then low else if 0 <? trig then trig else since.

Definition hit (chk trig : N) (e : period) : bool := (chk <? snd e) || (snd e =? trig).

Definition last_end (es : list period) : N := snd (last es (0, 0)).

(* RevokedChannels.add: keep the largest sequence *)
Definition radd (c s : N) (m : tset) : tset :=
  match tget c m with
  | None => tset_put c s m
  | Some old => if old <? s then tset_put c s m else m
  end.

Definition roles_to_revoke (u : user_st) (chk trig : N) : tset :=
  flat_map (fun '(name, es) =>
              if negb (tmem name (u_roles u)) && existsb (hit chk trig) es then [(name, last_end es)] else [])
           (u_role_hist u).

(* revokeChannelHistoryProcessing *)
Definition hist_processing (acc_chans : tset) (chk trig : N) (h : hist) (m : tset) : tset :=
  fold_left (fun m '(c, es) =>
               if negb (tmem c acc_chans) && existsb (hit chk trig) es then radd c (last_end es) m else m) h m.

Definition revoked_role_processing (acc_chans : tset) (chk trig : N) (r : role_st) (rseq : N) (m : tset) : tset :=
  let m1 := if r_deleted r then m
            else fold_left (fun m '(c, _) => if tmem c acc_chans then m else radd c rseq m) (r_chans r) m in
  fold_left (fun m '(c, es) =>
               if tmem c acc_chans then m
               else fold_left (fun m e =>
                                 if hit chk trig e
                                 then (if rseq <? snd e then radd c rseq m else radd c (last_end es) m)
                                 else m) es m)
            (r_hist r) m1.

Definition revoked_channels (u : user_st) (roles : list role_st) (since low trig : N) : tset :=
  let chk := check_seq since low trig in
  let acc_chans := inherited u roles in
  let m1 := fold_left (fun m '(name, rseq) =>
                         match find_role name roles with
                         | Some r => revoked_role_processing acc_chans chk trig r rseq m
                         | None => m
                         end) (roles_to_revoke u chk trig) [] in
  let m2 := fold_left (fun m '(r, _) => hist_processing acc_chans chk trig (r_hist r) m)
                      (current_roles u roles ++ filter (fun '(r, _) => r_deleted r) (current_roles_all u roles)) m1 in
  hist_processing acc_chans chk trig (u_hist u) m2.

(* ---------- CollectionChannelGrantedPeriods ---------- *)
Definition inter_pair (s1 s2 e1 e2 : N) : list period :=
  let s := N.max s1 s2 in let e := N.min e1 e2 in if s <? e then [(s, e)] else [].

(* GetRolesIncDeleted: the live roles among RoleNames, then the deleted ones *)
Definition current_roles_inc_deleted (u : user_st) (roles : list role_st) : list (role_st * N) :=
  current_roles u roles ++ filter (fun '(r, _) => r_deleted r) (current_roles_all u roles).

(* [held] = the roles the "current roles" loop runs over: GetRolesIncDeleted since /repo commit 7044a86
   ("fix: include deleted roles when computing the periods a user was granted a channel"), GetRoles before it *)
Definition granted_periods_over (held : list (role_st * N)) (u : user_st) (roles : list role_st) (c : N) : list period :=
  hget c (u_hist u)
  ++ (match tget c (u_chans u) with Some s => [(s, max64)] | None => [] end)
  ++ flat_map (fun '(r, _) =>
                 (* RolesSince_[role].Sequence: the raw entry *)
                 let granted_at := match tget (r_id r) (u_roles u) with Some s => s | None => 0 end in
                 flat_map (fun e => inter_pair (fst e) granted_at (snd e) max64) (hget c (r_hist r))
                 ++ (if tmem c (r_chans r)
                     then map (fun '(_, s) => (s, max64)) (r_chans r)   (* every channel of the role, as written *)
                     else []))
              held
  ++ flat_map (fun '(name, res) =>
                 match find_role name roles with
                 | None => []
                 | Some r =>
                     flat_map (fun e => flat_map (fun re => inter_pair (fst e) (fst re) (snd e) (snd re)) res) (hget c (r_hist r))
                     ++ (if tmem c (r_chans r)
                         then flat_map (fun '(_, s) => flat_map (fun re => inter_pair s (fst re) max64 (snd re)) res) (r_chans r)
                         else [])
                 end)
              (u_role_hist u).

Definition granted_periods (u : user_st) (roles : list role_st) (c : N) : list period :=
  granted_periods_over (current_roles_inc_deleted u roles) u roles c.

(* the function before the repair: a deleted role that is still among the user's roles contributes no period *)
Definition granted_periods_unrepaired (u : user_st) (roles : list role_st) (c : N) : list period :=
  granted_periods_over (current_roles u roles) u roles c.

(* ---------- wasDocInChannelPriorToRevocation ---------- *)
(* a document's ChannelSet ++ ChannelSetHistory: (channel, start, end), end = 0 while still in the channel *)
Definition docent := (N * N * N)%type.

Definition overlaps (since : N) (d : docent) (p : period) : bool :=
  let '(_, dstart, dend) := d in
  if snd p <=? since then false
  else
    let s := N.max dstart (fst p) in
    let e0 := if dend =? 0 then max64 else dend in
    let e := if snd p =? 0 then e0 else N.min e0 (snd p) in
    s <? e.

Definition was_in_channel (ents : list docent) (periods : list period) (c since : N) : bool :=
  existsb (fun d => let '(name, _, _) := d in
                    ((c =? star) || (name =? c)) && existsb (overlaps since d) periods) ents.

(* ---------- UserHasDocAccess: authorizeAnyChannel on the active revision's channels ---------- *)
Definition can_see_channel (u : user_st) (roles : list role_st) (c : N) : bool :=
  tmem c (u_chans u) || tmem star (u_chans u)
  || existsb (fun '(r, _) => tmem c (r_chans r) || tmem star (r_chans r)) (current_roles u roles).

Definition has_access (u : user_st) (roles : list role_st) (active : option (list N)) : bool :=
  match active with
  | None => false
  | Some [] => tmem star (u_chans u)
  | Some cs => existsb (can_see_channel u roles) cs
  end.
