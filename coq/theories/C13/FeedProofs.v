(* C13: facts about one changes request (Feed.v), for ALL snapshots, resume positions and limits:
   every row of the response stems from a row of one of the feeds (the merge invents nothing), a revocation
   row is only ever built for a document the user cannot see (no_revocation_for_visible), normal rows are
   never flagged revoked. *)
From SG Require Import Base.Prelude C20.SeqIdGen C20.SeqId C13.Revocation C13.Feed.
Open Scope N_scope.

Definition user_can_see (snap : snapshot) (doc : N) : bool :=
  match find_doc doc (s_docs snap) with
  | Some d => has_access (s_user snap) (s_roles snap) (d_active d)
  | None => false
  end.

Lemma min_step_fold_in hs : forall best m,
  fold_left min_step hs best = Some m -> best = Some m \/ In m hs.
Proof.
  induction hs as [|h hs IH]; intros best m H; cbn [fold_left] in H; auto.
  apply IH in H as [H|H]; [| right; right; exact H].
  unfold min_step in H. destruct best as [b|].
  - destruct (before (tok h) (tok b)); inversion H; subst; auto. right; left; reflexivity.
  - inversion H; subst; right; left; reflexivity.
Qed.

Lemma min_row_in hs m : min_row hs = Some m -> In m hs.
Proof. unfold min_row; intros H; apply min_step_fold_in in H as [H|H]; [discriminate | exact H]. Qed.

Lemma heads_in fs h : In h (heads fs) -> In h (concat fs).
Proof.
  unfold heads; intros H; apply in_flat_map in H as (f & Hf & Hh).
  apply in_concat; exists f; split; auto. destruct f as [|x f]; [destruct Hh |].
  destruct Hh as [->|[]]; left; reflexivity.
Qed.

Lemma pop_incl m f x : In x (pop m f) -> In x f.
Proof. unfold pop; destruct f as [|h t]; auto. destruct (tok_eqb h m); auto. intros H; right; exact H. Qed.

Lemma concat_pop_incl m fs x : In x (concat (map (pop m) fs)) -> In x (concat fs).
Proof.
  intros H; apply in_concat in H as (f & Hf & Hx). apply in_map_iff in Hf as (f0 & <- & Hf0).
  apply in_concat; exists f0; split; auto. eapply pop_incl; exact Hx.
Qed.

(* the merge invents nothing: document, revision, deleted / revoked / principal flags of a merged row are
   those of a row of some feed *)
Lemma merge_all_origin fuel : forall fs r,
  In r (merge_all fuel fs) ->
  exists m, In m (concat fs) /\ w_doc r = w_doc m /\ w_rev r = w_rev m /\ w_revoked r = w_revoked m
            /\ w_deleted r = w_deleted m /\ w_principal r = w_principal m /\ w_trig r = w_trig m /\ w_seq r = w_seq m.
Proof.
  induction fuel as [|k IH]; intros fs r H; cbn [merge_all] in H; [destruct H |].
  destruct (min_row (heads fs)) as [m|] eqn:E; [| destruct H].
  destruct H as [<-|H].
  - exists m; split; [apply heads_in, min_row_in, E | cbn; repeat split; reflexivity].
  - apply IH in H as (m' & Hin & Hrest). exists m'; split; auto. eapply concat_pop_incl; exact Hin.
Qed.

Lemma firstn_incl {A} n (l : list A) x : In x (firstn n l) -> In x l.
Proof.
  revert l; induction n as [|n IH]; intros [|y l] H; cbn [firstn] in H; try destruct H as [H|H]; try (destruct H; fail).
  - left; exact H.
  - right; apply IH; exact H.
Qed.

Lemma take_limit_incl limit l (x : row) : In x (take_limit limit l) -> In x l.
Proof. unfold take_limit; destruct (limit =? 0); auto. apply firstn_incl. Qed.

Lemma pull_origin snap since limit r :
  In r (pull snap since limit) ->
  exists m, In m (concat (feeds snap since)) /\ w_doc r = w_doc m /\ w_rev r = w_rev m /\ w_revoked r = w_revoked m
            /\ w_deleted r = w_deleted m /\ w_principal r = w_principal m /\ w_trig r = w_trig m /\ w_seq r = w_seq m.
Proof.
  unfold pull; intros H. apply take_limit_incl in H. apply filter_In in H as [H _].
  eapply merge_all_origin; exact H.
Qed.

Lemma chan_feed_from_not_revoked c l : forall trig m, In m (chan_feed_from c trig l) -> w_revoked m = false.
Proof.
  induction l as [|e l IH]; intros trig m H; cbn [chan_feed_from] in H; [destruct H |].
  destruct ((0 <? (if trig <=? le_seq e then 0 else trig)) && (le_deleted e || le_removed e)).
  - eapply IH; exact H.
  - destruct H as [<-|H]; [reflexivity | eapply IH; exact H].
Qed.

Lemma revoked_feed_spec snap since c at_ m :
  In m (revoked_feed snap since c at_) ->
  w_revoked m = true /\ user_can_see snap (w_doc m) = false /\ w_trig m = at_
  /\ exists e, In e (log_of c (s_logs snap)) /\ le_doc e = w_doc m /\ le_seq e = w_seq m.
Proof.
  unfold revoked_feed. destruct (revoke_params since at_) as [rev_since revoke_from].
  intros H; apply in_flat_map in H as (e & He & Hm).
  apply filter_In in He as [He _].
  match type of Hm with In m (if ?b then _ else _) => destruct b eqn:Hb end; [| destruct Hm].
  destruct Hm as [<-|[]]. cbn [w_revoked w_doc w_trig w_seq].
  apply andb_true_iff in Hb as [_ Hacc]. apply negb_true_iff in Hacc.
  split; [reflexivity |]. split; [exact Hacc |]. split; [reflexivity |].
  exists e; auto.
Qed.

Lemma feeds_revoked_origin snap since m :
  In m (concat (feeds snap since)) -> w_revoked m = true ->
  exists c at_, In (c, at_) (revoked_channels (s_user snap) (s_roles snap) (Seq since) 0 (TriggeredBy since))
                /\ In m (revoked_feed snap since c at_).
Proof.
  unfold feeds; intros H Hr. rewrite !concat_app in H. apply in_app_or in H as [H|H].
  - exfalso. apply in_concat in H as (f & Hf & Hm). apply in_flat_map in Hf as ([c added] & _ & Hf).
    destruct (chan_since since (s_cached snap) added) as [cs|]; [| destruct Hf].
    destruct Hf as [<-|[]]. unfold chan_feed in Hm. apply chan_feed_from_not_revoked in Hm. congruence.
  - apply in_app_or in H as [H|H].
    + exfalso. cbn [concat] in H. rewrite app_nil_r in H. unfold user_feed in H.
      destruct (before since (mk 0 0 (u_seq (s_user snap)))); [| destruct H].
      destruct H as [<-|[]]. discriminate.
    + apply in_concat in H as (f & Hf & Hm). apply in_map_iff in Hf as ([c at_] & <- & Hin).
      exists c, at_; auto.
Qed.

Theorem no_revocation_for_visible snap since limit r :
  In r (pull snap since limit) -> w_revoked r = true -> user_can_see snap (w_doc r) = false.
Proof.
  intros H Hr. apply pull_origin in H as (m & Hin & Hdoc & _ & Hrev & _).
  rewrite Hrev in Hr. apply feeds_revoked_origin in Hin as (c & at_ & _ & Hm); auto.
  apply revoked_feed_spec in Hm as (_ & Hsee & _). rewrite Hdoc; exact Hsee.
Qed.

(* a revocation row always names a channel the user cannot reach any more, and a document of that channel's log *)
Theorem revocation_row_origin snap since limit r :
  In r (pull snap since limit) -> w_revoked r = true ->
  exists c, tmem c (revoked_channels (s_user snap) (s_roles snap) (Seq since) 0 (TriggeredBy since)) = true
            /\ exists e, In e (log_of c (s_logs snap)) /\ le_doc e = w_doc r /\ le_seq e = w_seq r.
Proof.
  intros H Hr. apply pull_origin in H as (m & Hin & Hdoc & _ & Hrev & _ & _ & _ & Hseq).
  rewrite Hrev in Hr. apply feeds_revoked_origin in Hin as (c & at_ & Hc & Hm); auto.
  apply revoked_feed_spec in Hm as (_ & _ & _ & e & He & Hd & Hs).
  exists c; split.
  - clear -Hc. induction (revoked_channels _ _ _ _ _) as [|[k v] l IH]; [destruct Hc |].
    unfold tmem; cbn [tget]. destruct (k =? c) eqn:E; auto.
    destruct Hc as [Heq|Hc]; [inversion Heq; subst; rewrite N.eqb_refl in E; discriminate |].
    apply IH in Hc; exact Hc.
  - exists e; repeat split; congruence.
Qed.
