(* C13 model, part 4: the document side of the history -- db/document.go updateChannels /
   updateChannelHistory / addToChannelSetHistory.  A document keeps, per channel, the period it is
   (ChannelSet) or was (ChannelSetHistory, at most 5 older periods per channel) in the channel. *)
From SG Require Import Base.Prelude C13.Revocation.
Open Scope N_scope.

Definition doc_max_entries : nat := 5.

(* merge the oldest period of channel c into the second oldest and drop it, when there are already
   5 periods of c in the history *)
Definition starts_of (c : N) (h : list docent) : list N :=
  flat_map (fun '(n, s, _) => if n =? c then [s] else []) h.

Fixpoint min_list (l : list N) (d : N) : N :=
  match l with [] => d | x :: r => N.min x (min_list r d) end.

Fixpoint remove_first_start (c s : N) (h : list docent) : list docent :=
  match h with
  | [] => []
  | (n, st, e) :: r => if (n =? c) && (st =? s) then r else (n, st, e) :: remove_first_start c s r
  end.

Fixpoint set_first_start (c s s' : N) (h : list docent) : list docent :=
  match h with
  | [] => []
  | (n, st, e) :: r => if (n =? c) && (st =? s) then (n, s', e) :: r else (n, st, e) :: set_first_start c s s' r
  end.

(* starts of the periods of one channel are distinct (they are sequences of distinct revisions) *)
Definition add_to_history (c : N) (e : docent) (h : list docent) : list docent :=
  let ss := starts_of c h in
  let h' :=
    if Nat.leb doc_max_entries (length ss) then
      let oldest := min_list ss max64 in
      let second := min_list (filter (fun s => negb (s =? oldest)) ss) max64 in
      remove_first_start c oldest (set_first_start c second oldest h)
    else h in
  h' ++ [e].

Fixpoint find_ent (c : N) (cs : list docent) : option docent :=
  match cs with
  | [] => None
  | (n, s, e) :: r => if n =? c then Some (n, s, e) else find_ent c r
  end.

Fixpoint replace_ent (c : N) (x : docent) (cs : list docent) : list docent :=
  match cs with
  | [] => []
  | (n, s, e) :: r => if n =? c then x :: r else (n, s, e) :: replace_ent c x r
  end.

(* updateChannelHistory(channel, seq, addition) on (ChannelSet, ChannelSetHistory) *)
Definition update_history (c seq : N) (addition : bool) (st : list docent * list docent) : list docent * list docent :=
  let '(cs, h) := st in
  match find_ent c cs with
  | Some (n, s, e) =>
      if addition then
        if e =? 0 then (cs, h)
        else (replace_ent c (c, seq, 0) cs, add_to_history c (n, s, e) h)
      else (replace_ent c (n, s, seq) cs, h)
  | None =>
      if addition then (cs ++ [(c, seq, 0)], h) else (cs ++ [(c, 1, seq)], h)
  end.

(* updateChannels: [active] = the channels of doc.Channels whose removal is nil; [new_] = the new channel set *)
Definition update_channels (active new_ : list N) (seq : N) (st : list docent * list docent) : list docent * list docent :=
  let mem x l := existsb (N.eqb x) l in
  let st1 := fold_left (fun st c => if mem c new_ then st else update_history c seq false st) active st in
  fold_left (fun st c => if mem c active then st else update_history c seq true st) new_ st1.
