(* C13 -- a pulling client's copy always matches the user's current access: the property theorems.
   Nothing but statements; the proofs are in RevocationProofs.v, GrantSysProofs.v, FeedProofs.v, ClientProofs.v. *)
From SG Require Import Base.Prelude C20.SeqIdGen C20.SeqId
  C13.Revocation C13.Feed C13.Client C13.DocHist C13.GrantSys C13.Sys
  C13.RevocationProofs C13.GrantSysProofs C13.FeedProofs C13.FeedComplete C13.ClientProofs
  C13.PeriodsProofs C13.MergeSorted C13.SysDocs C13.SysGrants C13.Hyps C13.HypsB C13.SysInv C13.SysRel C13.SysSnap C13.EndToEnd.
Open Scope N_scope.

(* ---- grant history: on invalidate + rebuild every lost grant is appended with [granted_at, invalidation_seq) ---- *)
Theorem C13_history_records_periods :
  forall (inval : N) (lost new_ : tset) (h : hist) (c s : N),
    NoDup (map fst lost) -> In (c, s) lost -> tmem c new_ = false ->
    let h' := calc_history inval lost new_ h in
    (* the newest entry of the channel ends at the invalidation sequence ... *)
    last_end (hget c h') = inval /\
    (* ... and, unless the max-entries merge had to fold old entries, the history is the old one plus exactly
       the period [granted_at, invalidation_seq) *)
    ((length (hget c h) < max_entries (length (record_lost inval lost new_ h)))%nat ->
     hget c h' = hget c h ++ [(s, inval)]).
Proof.
  intros inval lost new_ h c s Hnd Hin Hn h'. subst h'. rewrite calc_history_get.
  rewrite (record_lost_exact inval lost new_ h c s Hnd Hin Hn). split.
  - rewrite compact_one_last_end. unfold last_end. rewrite last_last. reflexivity.
  - intros Hlen. apply compact_one_id. rewrite app_length; cbn [length]. lia.
Qed.
Print Assumptions C13_history_records_periods.

(* grants that were kept, or were never held, leave the history of their channel alone (up to the merge) *)
Theorem C13_history_keeps_others :
  forall (inval : N) (lost new_ : tset) (h : hist) (c : N),
    tmem c lost = false \/ tmem c new_ = true ->
    hget c (calc_history inval lost new_ h) =
    compact_one (max_entries (length (record_lost inval lost new_ h))) (hget c h).
Proof. intros; rewrite calc_history_get, record_lost_untouched; auto. Qed.
Print Assumptions C13_history_keeps_others.

(* ---- revoked channels ---- *)
(* sound: a channel is reported revoked only if no source (user, role) makes it accessible now *)
Theorem C13_revoked_sound :
  forall (u : user_st) (roles : list role_st) (since low trig c : N),
    tmem c (revoked_channels u roles since low trig) = true ->
    tmem c (inherited u roles) = false.
Proof. intros u roles since low trig c H. exact (revoked_guarded u roles since low trig c H). Qed.
Print Assumptions C13_revoked_sound.

(* complete: over ALL histories of the invalidate / rebuild protocol (any number of roles, role deletion and
   re-creation, overlapping sources, loss and re-grant), a channel effective at the resume point and not effective
   now is reported, provided no history entry was merged away in between *)
Theorem C13_revoked_complete :
  forall (g1 : gstate) (ops : list gop) (c since low trig : N),
    let chk := check_seq since low trig in
    let g2 := run g1 ops in
    loaded g1 -> tmem c (effective g1) = true ->
    Forall (op_above chk) ops -> unpruned g1 ops ->
    loaded g2 -> pos_seqs g2 -> tmem c (effective g2) = false ->
    tmem c (revoked_channels (view_user g2) (view_roles g2) since low trig) = true.
Proof. exact revoked_complete. Qed.
Print Assumptions C13_revoked_complete.

(* ---- the feed ---- *)
(* no revocation is sent for a document the user can still see; holds for every snapshot, resume position, limit *)
Theorem C13_no_revocation_for_visible :
  forall (snap : snapshot) (since : seqid) (limit : N) (r : row),
    In r (pull snap since limit) -> w_revoked r = true -> user_can_see snap (w_doc r) = false.
Proof. exact no_revocation_for_visible. Qed.
Print Assumptions C13_no_revocation_for_visible.

(* a revocation row names a document of the log of a channel that revoked_channels reports (hence, by
   C13_revoked_sound, of a channel the user cannot reach any more) *)
Theorem C13_revocation_row_origin :
  forall (snap : snapshot) (since : seqid) (limit : N) (r : row),
    In r (pull snap since limit) -> w_revoked r = true ->
    exists c, tmem c (revoked_channels (s_user snap) (s_roles snap) (Seq since) 0 (TriggeredBy since)) = true
              /\ tmem c (inherited (s_user snap) (s_roles snap)) = false
              /\ exists e, In e (log_of c (s_logs snap)) /\ le_doc e = w_doc r /\ le_seq e = w_seq r.
Proof.
  intros snap since limit r H Hr. destruct (revocation_row_origin snap since limit r H Hr) as (c & Hc & He).
  exists c; repeat split; auto. eapply revoked_guarded; exact Hc.
Qed.
Print Assumptions C13_revocation_row_origin.

(* ---- what one request delivers (for every snapshot with consistent feeds, every resume position) ---- *)
(* the merge loses nothing: every row of every feed that is not later than the cached sequence is represented, with
   its document, revision and flags, in the un-limited response *)
Theorem C13_pull_complete :
  forall (snap : snapshot) (since : seqid) (x : row),
    feeds_consistent_b (feeds snap since) = true ->
    In x (concat (feeds snap since)) ->
    (w_seq x <=? s_cached snap) || (w_revoked x && (w_trig x <=? s_cached snap)) = true ->
    exists r, In r (pull snap since 0)
              /\ w_trig r = w_trig x /\ w_seq r = w_seq x /\ w_doc r = w_doc x /\ w_rev r = w_rev x
              /\ w_deleted r = w_deleted x /\ w_revoked r = w_revoked x /\ w_principal r = w_principal x
              /\ (w_removed x = [] -> w_allremoved r = false).
Proof. exact pull_complete. Qed.
Print Assumptions C13_pull_complete.

(* documents that became visible through a new grant are back-filled: for a channel granted after the client's
   position EVERY live entry of the channel is delivered as a storing row *)
Theorem C13_new_grant_backfills_everything :
  forall (snap : snapshot) (since : seqid) (c added : N) (e : logentry),
    feeds_consistent_b (feeds snap since) = true ->
    TriggeredBy since = 0 -> LowSeq since = 0 ->
    In (c, added) (inherited (s_user snap) (s_roles snap)) ->
    1 < added -> Seq since < added -> added <= s_cached snap ->
    In e (log_of c (s_logs snap)) -> le_removed e = false -> le_deleted e = false ->
    0 < le_seq e -> le_seq e <= s_cached snap ->
    exists r, In r (pull snap since 0) /\ w_seq r = le_seq e /\ w_doc r = le_doc e /\ w_rev r = le_rev e
              /\ w_principal r = false /\ purges r = false.
Proof. exact new_grant_backfills_everything. Qed.
Print Assumptions C13_new_grant_backfills_everything.

(* in general: every live entry of an accessible channel after the channel's resume position is delivered *)
Theorem C13_grant_backfills :
  forall (snap : snapshot) (since : seqid) (c added : N) (cs : N * N) (e : logentry),
    feeds_consistent_b (feeds snap since) = true ->
    In (c, added) (inherited (s_user snap) (s_roles snap)) ->
    chan_since since (s_cached snap) added = Some cs ->
    In e (log_of c (s_logs snap)) -> le_removed e = false -> le_deleted e = false ->
    snd cs < le_seq e -> le_seq e <= s_cached snap ->
    exists r, In r (pull snap since 0) /\ w_seq r = le_seq e /\ w_doc r = le_doc e /\ w_rev r = le_rev e
              /\ w_principal r = false /\ purges r = false.
Proof. exact grant_backfills. Qed.
Print Assumptions C13_grant_backfills.

(* loss of a channel is announced: every entry of a revoked channel that the client may hold (written at or before
   its position, or in the channel during a period the user had it -- wasDocInChannelPriorToRevocation) and that the
   user cannot see through another channel is delivered as a revocation row, which purges *)
Theorem C13_revocation_delivers :
  forall (snap : snapshot) (since : seqid) (c at_ : N) (e : logentry),
    feeds_consistent_b (feeds snap since) = true ->
    In (c, at_) (revoked_channels (s_user snap) (s_roles snap) (Seq since) 0 (TriggeredBy since)) ->
    at_ <= s_cached snap ->
    In e (log_of c (s_logs snap)) ->
    snd (revoke_params since at_) < le_seq e ->
    (le_seq e <= Seq since \/
     exists d, find_doc (le_doc e) (s_docs snap) = Some d /\
               was_in_channel (d_hist d) (granted_periods (s_user snap) (s_roles snap) c) c (fst (revoke_params since at_)) = true) ->
    user_can_see snap (le_doc e) = false ->
    exists r, In r (pull snap since 0) /\ w_doc r = le_doc e /\ w_seq r = le_seq e /\ w_trig r = at_
              /\ w_revoked r = true /\ purges r = true.
Proof. exact revocation_delivers. Qed.
Print Assumptions C13_revocation_delivers.

(* ---- the client ---- *)
Theorem C13_client_last_row_wins :
  forall (c : client) (rows : list row) (d : N),
    c_get d (apply_rows c rows) =
    match last_about d rows with
    | Some r => if purges r then None else Some (w_rev r)
    | None => c_get d c
    end.
Proof. exact client_last_row_wins. Qed.
Print Assumptions C13_client_last_row_wins.

Theorem C13_client_apply_idempotent :
  forall (c : client) (rows : list row),
    (forall d, c_get d (apply_rows (apply_rows c rows) rows) = c_get d (apply_rows c rows))
    /\ (asc c -> apply_rows (apply_rows c rows) rows = apply_rows c rows).
Proof. intros c rows; split; [intros d; apply client_apply_idempotent | apply client_apply_idempotent_eq]. Qed.
Print Assumptions C13_client_apply_idempotent.

(* ---- granted periods ----
   for every history of the grant state machine (any number of roles, role deletion and re-creation, overlapping
   sources, loss and re-grant): a channel the user could access at sequence t -- effective at a loaded state g1, with a
   stamp at or below t -- is, at every later loaded state, covered by a period CollectionChannelGrantedPeriods (as
   repaired by /repo 7044a86: deleted roles included) returns for it: start <= t < end.  Premises: everything later
   happened above t, no history entry was merged away, no rebuild re-stamped a kept grant with a later sequence (the
   finding stale-doc/restamped-grant-loses-period: C13_Refuted.v).  "Exactly" is false: the function over-approximates
   (granted_periods_over_approximate in C13_Refuted.v). *)
Theorem C13_granted_periods_cover :
  forall (g1 : gstate) (ops : list gop) (c a t : N),
    let g2 := run g1 ops in
    loaded g1 -> uniq_roles g1 -> uniq (p_set (g_uroles g1)) ->
    tget c (effective g1) = Some a -> a <= t -> t < max64 ->
    Forall (op_above t) ops -> unpruned g1 ops -> no_restamp g1 ops ->
    loaded g2 ->
    exists p, In p (granted_periods (view_user g2) (view_roles g2) c) /\ fst p <= t /\ t < snd p.
Proof. exact granted_periods_cover. Qed.
Print Assumptions C13_granted_periods_cover.

(* the quantitative form of C13_revoked_complete: the revocation sequence reported for a lost channel lies above t *)
Theorem C13_revoked_complete_above :
  forall (g1 : gstate) (ops : list gop) (c t since low trig : N),
    let g2 := run g1 ops in
    loaded g1 -> tmem c (effective g1) = true ->
    check_seq since low trig <= t ->
    Forall (op_above t) ops -> unpruned g1 ops ->
    loaded g2 -> pos_seqs g2 -> hists_last_max g2 -> tmem c (effective g2) = false ->
    exists at_, In (c, at_) (revoked_channels (view_user g2) (view_roles g2) since low trig) /\ t < at_.
Proof. exact revoked_complete_above. Qed.
Print Assumptions C13_revoked_complete_above.

(* a role created again over its soft-deleted predecessor (NewRole / NewRoleNoChannels, the constructor db.UpdatePrincipal
   uses) keeps the predecessor's channel history, whatever it is granted now: this is what keeps "tracked" -- hence
   C13_revoked_complete and C13_granted_periods_cover -- alive across DeleteRole; CreateRole.  The harness monitor
   recreate_keeps_history is its Go reflection on the persisted role documents (default and named collections). *)
Theorem C13_recreated_role_keeps_history :
  forall (g : gstate) (r : N) (new_ : tset) (p : princ),
    role_get r (g_roles g) = Some (p, true) ->
    role_get r (g_roles (step g (CreateRole r new_))) = Some (mkPrinc new_ 0 (p_hist p), false)
    /\ forall (s : N) (p' : princ) (del : bool),
         role_get r (g_roles (step (step g (CreateRole r new_)) (InvalRole r s))) = Some (p', del) ->
         del = false /\ p_hist p' = p_hist p.
Proof.
  intros g r new_ p Hget.
  assert (role_get r (g_roles (step g (CreateRole r new_))) = Some (mkPrinc new_ 0 (p_hist p), false)) as H1.
  { cbn [step]. rewrite Hget. cbn [g_roles]. rewrite role_get_upd_same, Hget. reflexivity. }
  split; [exact H1 |]. intros s p' del H2. rewrite step_inval_role_get, N.eqb_refl, H1 in H2.
  cbn [option_map inval_role] in H2. inversion H2; subst. split; [reflexivity |].
  unfold invalidate. destruct (p_inval _ =? 0); reflexivity.
Qed.
Print Assumptions C13_recreated_role_keeps_history.

(* ---- the merge ---- *)
(* over ascending channel logs the un-limited response is strictly ascending w.r.t. SequenceID.Before: one row per token *)
Theorem C13_response_ascending :
  forall (snap : snapshot) (since : seqid), logs_asc snap -> ssorted (pull snap since 0).
Proof. intros snap since H. apply pull_sorted, feeds_sorted, H. Qed.
Print Assumptions C13_response_ascending.

(* ---- the whole system (Sys.v: documents, admin and sync-function grants, roles, pulls) ---- *)
(* the invariant of the whole-system model holds initially and is preserved by every operation (names in scope, no
   history entry merged away) *)
Theorem C13_system_invariant :
  wf sys_init /\ forall (y : sys) (o : sop), wf y -> step_ok y o -> wf (sys_step y o).
Proof. split; [exact wf_init | exact wf_step]. Qed.
Print Assumptions C13_system_invariant.

(* on every well-formed loaded state the feeds of ANY request are consistent (rows with the same token describe the same
   document revision): the hypothesis of C13_pull_complete / C13_grant_backfills / C13_revocation_delivers, which the
   correspondence only checked snapshot by snapshot, holds for all reachable states *)
Theorem C13_feeds_consistent :
  forall (y : sys) (since : seqid), wf y -> loaded (y_g y) -> feeds_consistent_b (feeds (snapshot_of y) since) = true.
Proof. intros y since Hw Hl. exact (feeds_consistent_sys y Hw Hl since). Qed.
Print Assumptions C13_feeds_consistent.

(* the channels the feed iterates over are the channels the specification grants *)
Theorem C13_effective_is_truth :
  forall (y : sys) (c : N), wf y -> loaded (y_g y) -> (tmem c (effective (y_g y)) = true <-> In c (truth_chans y)).
Proof. intros y c Hw Hl. exact (effective_truth y Hw Hl c). Qed.
Print Assumptions C13_effective_is_truth.

(* one un-limited pull: y0 the (loaded) state at the previous pull, y the loaded state now, related by any list of
   operations (rel), the position at or below y0's cached sequence, the client holding exactly what was visible at y0:
   afterwards it holds exactly what is visible at y, with the current revisions -- provided no channel held at y0 (and
   holding a document then) is back-filled now *)
Theorem C13_pull_correct :
  forall (y0 y : sys), wf y0 -> loaded (y_g y0) -> wf y -> loaded (y_g y) -> rel y0 y ->
  forall (since : seqid), pos_ok since (cached y0) ->
    (forall c a, In (c, a) (effective (y_g y)) -> tmem c (effective (y_g y0)) = true ->
                 (exists d x0, doc_get d (y_docs y0) = Some x0 /\ In c (sd_active x0)) -> a <= cached y0) ->
    y_next y < max64 ->
  forall (cl : client), (forall d, c_get d cl = vis_rev y0 d) ->
  forall d, c_get d (apply_rows cl (pull (snapshot_of y) since 0)) = vis_rev y d.
Proof. exact pull_correct. Qed.
Print Assumptions C13_pull_correct.

(* the executable checker of the hypotheses is sound *)
Theorem C13_hyps_checker_sound :
  forall (unl stale restamp refill : bool) (ops : list sop),
    history_hyps_b unl stale restamp refill ops = true -> history_hyps_sel unl stale restamp refill ops.
Proof. exact history_hyps_b_ok. Qed.
Print Assumptions C13_hyps_checker_sound.

(* ---- the end-to-end statement ----
   "after every request that caught up the client's documents are exactly the documents whose current revision the
   user can see", over all histories of the whole-system model Sys.v (documents, admin and sync-function grants to the
   user and to roles, role deletion / re-creation, pulls with limits).  As it stands it is NOT a theorem: the faithful
   model of the unchanged code refutes it (C13_Refuted.v). *)
Definition C13_client_matches_visible_full_statement : Prop := client_matches_visible_full_statement.

(* PARTIAL, proved by induction over the history (invariant: the client holds exactly the documents visible at the
   previous pull's state, with their current revisions; the position is at or below that state's cached sequence):
   for EVERY history whose pulls are un-limited (2), in which no channel accessible at a pull is back-filled at the next
   one (1: lost and re-granted in between, or its earliest source lost while another persists), no role is (re-)created
   while a live document grants it a channel (4), and no rebuild re-stamps a kept grant with a later sequence (5) --
   plus the modelling assumptions: channel 0 / grantee 0 not used as names, no history entry merged away, sequences
   below 2^64 -- after every pull the client's documents are exactly the visible ones.  Each of (1) (2) (4) (5) is the
   shape of one recorded finding and is needed: C13_partial_needs_* in C13_Refuted.v. *)
Theorem C13_client_matches_visible_partial :
  forall (ops : list sop),
    history_hyps ops ->
    forall o, In o (trace ops) -> o_caught o = true -> same_docs (o_client o) (o_visible o) = true.
Proof. exact client_matches_visible_partial. Qed.
Print Assumptions C13_client_matches_visible_partial.

(* non-vacuity of the end-to-end theorem: a history with admin and sync-function grants, a role revocation, a role
   deletion, revocation rows, a back-fill and an all-removed row satisfies the hypotheses *)
Example C13_nonvacuous_end_to_end :
  let ops := [SRChans 1 [2]; SURoles [1]; SPut 1 [2] [] []; SPut 2 [3] [(0, [3])] []; SPull 0;
              SURoles []; SPut 2 [3] [] []; SPut 3 [4] [(0, [4])] []; SPull 0;
              SUChans [2]; SDelRole 1; SPut 3 [] [] []; SPull 0] in
  history_hyps ops
  /\ map (fun o => (map (fun r => (w_trig r, w_seq r, w_doc r, w_revoked r, w_allremoved r)) (o_rows o), o_client o, o_visible o)) (trace ops)
     = [ ([(0, 3, 0, false, false); (0, 4, 1, false, false); (0, 5, 2, false, false)], [(1, 1); (2, 2)], [1; 2]);
         ([(6, 4, 1, true, false); (0, 6, 0, false, false); (7, 7, 2, true, false); (0, 8, 3, false, false)], [(3, 4)], [3]);
         ([(9, 4, 1, false, false); (9, 11, 3, true, true); (0, 9, 0, false, false)], [(1, 1)], [1]) ].
Proof.
  cbv zeta. split; [apply history_hyps_all, history_hyps_b_ok; vm_compute; reflexivity | vm_compute; reflexivity].
Qed.

(* ---- non-vacuity: a concrete loaded state in which a channel held through a role and directly is lost ---- *)
Example C13_nonvacuous :
  let g1 := mkG (mkPrinc [(1, 1); (2, 3)] 0 []) (mkPrinc [(7, 4)] 0 [])
                [(7, (mkPrinc [(1, 1); (3, 2)] 0 [], false))] in
  let ops := [InvalUser 10; RebuildUser [(1, 1)]; InvalUserRoles 11; RebuildUserRoles []] in
  loaded g1 /\ tmem 2 (effective g1) = true /\ tmem 3 (effective g1) = true
  /\ Forall (op_above 9) ops /\ unpruned g1 ops /\ loaded (run g1 ops) /\ pos_seqs (run g1 ops)
  /\ tmem 2 (effective (run g1 ops)) = false /\ tmem 3 (effective (run g1 ops)) = false
  /\ revoked_channels (view_user (run g1 ops)) (view_roles (run g1 ops)) 9 0 0 = [(3, 11); (2, 10)].
Proof.
  cbv zeta.
  assert (forall (l : list (N * (princ * bool))) x r p,
            l = [(7, x)] -> role_get r l = Some (p, false) -> x = (p, false)) as K.
  { intros l x r p Hl H. subst l. cbn [role_get] in H. destruct (7 =? r); [inversion H; reflexivity | discriminate]. }
  repeat split; try reflexivity.
  - intros r p H. apply (K _ _ r p eq_refl) in H. inversion H; reflexivity.
  - repeat constructor; cbn; lia.
  - intros r p H. eapply K in H; [| vm_compute; reflexivity]. inversion H; reflexivity.
  - intros r p H c s Hs. eapply K in H; [| vm_compute; reflexivity]. inversion H; subst p.
    cbn [p_set tget] in Hs. destruct (1 =? c); [inversion Hs; lia |]. destruct (3 =? c); [inversion Hs; lia | discriminate].
Qed.

(* non-vacuity of the delivery theorems: a snapshot taken after a grant at sequence 4 (client position 3) and one taken
   after a revocation at sequence 5 (client position 4) satisfy their hypotheses *)
Example C13_nonvacuous_delivery :
  let granted := mkSnap 4 (mkUser 4 [(1, 1); (2, 4)] [] [] []) []
                        [(1, []); (2, [mkLog 2 1 1 false false])] [mkDoc 1 [(2, 2, 0)] (Some [2])] in
  let revoked := mkSnap 5 (mkUser 5 [(1, 1)] [(2, [(2, 5)])] [] []) []
                        [(1, []); (2, [mkLog 3 1 1 false false])] [mkDoc 1 [(2, 3, 0)] (Some [2])] in
  feeds_consistent_b (feeds granted (mk 0 0 3)) = true
  /\ In (2, 4) (inherited (s_user granted) (s_roles granted))
  /\ pull granted (mk 0 0 3) 0 = [mkRow 4 2 1 1 [] false false false false; mkRow 0 4 0 0 [] false false false true]
  /\ feeds_consistent_b (feeds revoked (mk 0 0 4)) = true
  /\ In (2, 5) (revoked_channels (s_user revoked) (s_roles revoked) 4 0 0)
  /\ user_can_see revoked 1 = false
  /\ pull revoked (mk 0 0 4) 0 = [mkRow 5 3 1 1 [] false true false false; mkRow 0 5 0 0 [] false false false true].
Proof. vm_compute. repeat split; try reflexivity; [right; left; reflexivity | left; reflexivity]. Qed.
