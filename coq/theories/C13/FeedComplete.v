(* C13: what one request DELIVERS (Feed.v), for every snapshot whose feeds are consistent (rows with the same token
   describe the same document revision -- sequences are not shared between documents; checked on every snapshot of
   the real database by the correspondence):
     - the merge loses nothing: every row of every feed is represented in the un-limited response by a row with
       the same token (unless it is later than the cached sequence);
     - grant_backfills: every live entry of an accessible channel that lies after the channel's resume position
       -- for a channel granted after the client's position that is EVERY live entry of the channel -- is delivered
       as a storing row;
     - revocation_delivers: every entry of a revoked channel that the revocation feed selects is delivered as a
       purging row. *)
From SG Require Import Base.Prelude C20.SeqIdGen C20.SeqId C13.Revocation C13.Feed C13.Client C13.FeedProofs.
Open Scope N_scope.

Definition row_agree (x y : row) : bool :=
  (w_doc x =? w_doc y) && (w_rev x =? w_rev y) && Bool.eqb (w_deleted x) (w_deleted y)
  && Bool.eqb (w_revoked x) (w_revoked y) && Bool.eqb (w_principal x) (w_principal y).

Definition feeds_consistent_b (fs : list (list row)) : bool :=
  let all := concat fs in
  forallb (fun x => forallb (fun y => negb (tok_eqb x y) || row_agree x y) all) all.

Lemma feeds_consistent_spec fs x y :
  feeds_consistent_b fs = true -> In x (concat fs) -> In y (concat fs) -> tok_eqb x y = true ->
  w_doc x = w_doc y /\ w_rev x = w_rev y /\ w_deleted x = w_deleted y /\ w_revoked x = w_revoked y
  /\ w_principal x = w_principal y.
Proof.
  unfold feeds_consistent_b; intros H Hx Hy Ht.
  rewrite forallb_forall in H. specialize (H x Hx). rewrite forallb_forall in H. specialize (H y Hy).
  rewrite Ht in H; cbn [negb orb] in H. unfold row_agree in H.
  repeat (apply andb_true_iff in H as [H ?]).
  repeat split; try (apply N.eqb_eq; assumption); apply Bool.eqb_prop; assumption.
Qed.

Lemma tok_eqb_refl x : tok_eqb x x = true.
Proof. unfold tok_eqb; rewrite !N.eqb_refl; reflexivity. Qed.
Lemma tok_eqb_sym x y : tok_eqb x y = tok_eqb y x.
Proof. unfold tok_eqb; rewrite (N.eqb_sym (w_trig x)), (N.eqb_sym (w_seq x)); reflexivity. Qed.
Lemma tok_eqb_trans x y z : tok_eqb x y = true -> tok_eqb y z = true -> tok_eqb x z = true.
Proof.
  unfold tok_eqb; intros H1 H2. apply andb_true_iff in H1 as [A B], H2 as [C D].
  apply N.eqb_eq in A, B, C, D. rewrite A, B, C, D, !N.eqb_refl; reflexivity.
Qed.

(* ---------- the merge loses nothing ---------- *)
Lemma min_step_fold_some hs : forall b, exists m, fold_left min_step hs (Some b) = Some m.
Proof.
  induction hs as [|h hs IH]; intros b; cbn [fold_left]; [eexists; reflexivity |].
  unfold min_step at 2. destruct (before (tok h) (tok b)); apply IH.
Qed.

Lemma min_row_some hs : hs <> [] -> exists m, min_row hs = Some m.
Proof. destruct hs as [|h hs]; [congruence |]. intros _. unfold min_row; cbn [fold_left min_step]. apply min_step_fold_some. Qed.

Definition total (fs : list (list row)) : nat := length (concat fs).

Lemma total_pop_le m fs : (total (map (pop m) fs) <= total fs)%nat.
Proof.
  unfold total; induction fs as [|f fs IH]; cbn [map concat]; auto.
  rewrite !app_length. assert (length (pop m f) <= length f)%nat.
  { unfold pop; destruct f as [|h t]; auto. destruct (tok_eqb h m); cbn [length]; lia. }
  lia.
Qed.

Lemma total_pop_lt m fs : In m (heads fs) -> (total (map (pop m) fs) < total fs)%nat.
Proof.
  unfold total, heads; induction fs as [|f fs IH]; cbn [flat_map map concat]; [intros [] |].
  intros H. rewrite !app_length. apply in_app_or in H as [H|H].
  - destruct f as [|h t]; [destruct H |]. destruct H as [->|[]].
    cbn [pop]. rewrite tok_eqb_refl. cbn [length]. pose proof (total_pop_le m fs) as L. unfold total in L. lia.
  - specialize (IH H). assert (length (pop m f) <= length f)%nat.
    { unfold pop; destruct f as [|h t]; auto. destruct (tok_eqb h m); cbn [length]; lia. }
    lia.
Qed.

Lemma in_heads_or_pop m fs x :
  In x (concat fs) -> (In x (heads fs) /\ tok_eqb x m = true) \/ In x (concat (map (pop m) fs)).
Proof.
  induction fs as [|f fs IH]; cbn [concat]; [intros [] |].
  intros H. apply in_app_or in H as [H|H].
  - destruct f as [|h t]; [destruct H |]. cbn [map concat pop heads flat_map].
    destruct (tok_eqb h m) eqn:E.
    + destruct H as [->|H]; [left; split; [left; reflexivity | exact E] | right; apply in_or_app; left; exact H].
    + right; apply in_or_app; left; exact H.
  - apply IH in H as [[H1 H2]|H].
    + left; split; auto. unfold heads in *; cbn [flat_map]; apply in_or_app; right; exact H1.
    + right; cbn [map concat]; apply in_or_app; right; exact H.
Qed.

Lemma merge_all_complete fuel : forall fs x,
  (total fs <= fuel)%nat -> In x (concat fs) ->
  exists r hs m, In r (merge_all fuel fs) /\ r = group m hs /\ tok_eqb x m = true /\ In x hs
                 /\ In m (concat fs) /\ (forall h, In h hs -> In h (concat fs)).
Proof.
  induction fuel as [|k IH]; intros fs x Hf Hx.
  - unfold total in Hf. destruct (concat fs); [destruct Hx | cbn in Hf; lia].
  - cbn [merge_all].
    assert (heads fs <> []) as Hne.
    { clear -Hx. induction fs as [|f fs IH]; cbn [concat] in Hx; [destruct Hx |].
      unfold heads; cbn [flat_map]. destruct f as [|h t]; [| discriminate].
      cbn [app] in *. apply IH; exact Hx. }
    destruct (min_row_some _ Hne) as (m & Hm). rewrite Hm.
    pose proof (min_row_in _ _ Hm) as Hmin.
    destruct (in_heads_or_pop m fs x Hx) as [[Hh Ht]|Hp].
    + exists (group m (heads fs)), (heads fs), m. repeat split; auto.
      * left; reflexivity.
      * apply heads_in; exact Hmin.
      * intros h Hh'; apply heads_in; exact Hh'.
    + assert (total (map (pop m) fs) <= k)%nat as Hk by (pose proof (total_pop_lt m fs Hmin); lia).
      destruct (IH _ x Hk Hp) as (r & hs & m' & Hr & Hg & Ht & Hxh & Hm' & Hall).
      exists r, hs, m'. repeat split; auto.
      * right; exact Hr.
      * eapply concat_pop_incl; exact Hm'.
      * intros h Hh; eapply concat_pop_incl; apply Hall; exact Hh.
Qed.

(* a feed row is represented in the un-limited response, faithfully when the feeds are consistent *)
Theorem pull_complete snap since x :
  feeds_consistent_b (feeds snap since) = true ->
  In x (concat (feeds snap since)) ->
  (w_seq x <=? s_cached snap) || (w_revoked x && (w_trig x <=? s_cached snap)) = true ->
  exists r, In r (pull snap since 0)
            /\ w_trig r = w_trig x /\ w_seq r = w_seq x /\ w_doc r = w_doc x /\ w_rev r = w_rev x
            /\ w_deleted r = w_deleted x /\ w_revoked r = w_revoked x /\ w_principal r = w_principal x
            /\ (w_removed x = [] -> w_allremoved r = false).
Proof.
  intros Hc Hx Hk. unfold pull, take_limit. rewrite N.eqb_refl.
  destruct (merge_all_complete (length (concat (feeds snap since))) (feeds snap since) x (le_n _) Hx)
    as (r & hs & m & Hr & Hg & Ht & Hxh & Hm & Hall).
  destruct (feeds_consistent_spec _ x m Hc Hx Hm Ht) as (Hd & Hrev & Hdel & Hrvk & Hpr).
  unfold tok_eqb in Ht. apply andb_true_iff in Ht as [Ht1 Ht2]. apply N.eqb_eq in Ht1, Ht2.
  exists r. subst r. cbn [group w_trig w_seq w_doc w_rev w_deleted w_revoked w_principal w_allremoved].
  repeat split; auto.
  - apply filter_In; split; auto. unfold keep; cbn [group w_seq w_revoked w_trig].
    rewrite <- Ht2, <- Ht1, <- Hrvk.
    apply orb_true_iff in Hk as [Hk|Hk].
    + apply N.leb_le in Hk. replace (s_cached snap <? w_seq x) with false by lia. reflexivity.
    + rewrite Hk. cbn [negb]. rewrite andb_false_r. reflexivity.
  - intros Hnil. apply andb_false_iff. right.
    apply not_true_iff_false. intros Hall'. rewrite forallb_forall in Hall'.
    assert (In x (filter (fun h => tok_eqb h m) hs)) as Hin.
    { apply filter_In; split; auto. unfold tok_eqb; rewrite Ht1, Ht2, !N.eqb_refl; reflexivity. }
    specialize (Hall' x Hin). rewrite Hnil in Hall'. discriminate.
Qed.

(* ---------- a channel feed delivers every live entry after its resume position ---------- *)
Lemma chan_feed_from_live c l : forall trig e,
  In e l -> le_removed e = false -> le_deleted e = false ->
  exists r, In r (chan_feed_from c trig l) /\ w_seq r = le_seq e /\ w_doc r = le_doc e /\ w_rev r = le_rev e
            /\ w_removed r = [] /\ w_deleted r = false /\ w_revoked r = false /\ w_principal r = false
            /\ (w_trig r = 0 \/ (w_trig r = trig /\ le_seq e < trig)).
Proof.
  induction l as [|e0 l IH]; intros trig e Hin Hrm Hdel; [destruct Hin |].
  cbn [chan_feed_from]. destruct Hin as [->|Hin].
  - rewrite Hrm, Hdel. cbn [orb]. rewrite andb_false_r.
    eexists; split; [left; reflexivity |]. cbn [w_seq w_doc w_rev w_removed w_deleted w_revoked w_principal w_trig].
    do 7 (split; [reflexivity |]).
    destruct (trig <=? le_seq e) eqn:E; [left; reflexivity | right; split; [reflexivity | apply N.leb_gt; exact E]].
  - destruct (IH (if trig <=? le_seq e0 then 0 else trig) e Hin Hrm Hdel) as (r & Hr & Hs & Hd & Hv & Hnil & Hdl & Hrk & Hp & Ht).
    exists r. split.
    + destruct ((0 <? (if trig <=? le_seq e0 then 0 else trig)) && (le_deleted e0 || le_removed e0)); [exact Hr | right; exact Hr].
    + repeat split; auto. destruct Ht as [Ht|[Ht Hlt]]; auto.
      destruct (trig <=? le_seq e0); [left; exact Ht | right; split; auto].
Qed.

Theorem grant_backfills snap since c added cs e :
  feeds_consistent_b (feeds snap since) = true ->
  In (c, added) (inherited (s_user snap) (s_roles snap)) ->
  chan_since since (s_cached snap) added = Some cs ->
  In e (log_of c (s_logs snap)) -> le_removed e = false -> le_deleted e = false ->
  snd cs < le_seq e -> le_seq e <= s_cached snap ->
  exists r, In r (pull snap since 0) /\ w_seq r = le_seq e /\ w_doc r = le_doc e /\ w_rev r = le_rev e
            /\ w_principal r = false /\ purges r = false.
Proof.
  intros Hc Hin Hcs He Hrm Hdel Hlt Hle.
  assert (In e (filter (fun e => snd cs <? le_seq e) (log_of c (s_logs snap)))) as Hf
    by (apply filter_In; split; auto; apply N.ltb_lt; exact Hlt).
  destruct (chan_feed_from_live c _ (fst cs) e Hf Hrm Hdel) as (x & Hx & Hs & Hd & Hv & Hnil & Hdl & Hrk & Hp & _).
  assert (In x (concat (feeds snap since))) as Hxin.
  { unfold feeds. rewrite concat_app. apply in_or_app; left.
    apply in_concat. exists (chan_feed c cs (log_of c (s_logs snap))). split; [| exact Hx].
    apply in_flat_map. exists (c, added). split; auto. rewrite Hcs. left; reflexivity. }
  destruct (pull_complete snap since x Hc Hxin) as (r & Hr & _ & Hrs & Hrd & Hrv & Hrdel & Hrrk & Hrp & Hall).
  { rewrite Hs. apply orb_true_iff; left; apply N.leb_le; exact Hle. }
  exists r. repeat split; auto; try congruence.
  unfold purges. rewrite Hrrk, Hrk, Hrdel, Hdl, (Hall Hnil). reflexivity.
Qed.

(* for a channel granted after the client's position the resume position of its feed is 0: every live entry *)
Corollary new_grant_backfills_everything snap since c added e :
  feeds_consistent_b (feeds snap since) = true ->
  TriggeredBy since = 0 -> LowSeq since = 0 ->
  In (c, added) (inherited (s_user snap) (s_roles snap)) ->
  1 < added -> Seq since < added -> added <= s_cached snap ->            (* granted after the client's position *)
  In e (log_of c (s_logs snap)) -> le_removed e = false -> le_deleted e = false ->
  0 < le_seq e -> le_seq e <= s_cached snap ->
  exists r, In r (pull snap since 0) /\ w_seq r = le_seq e /\ w_doc r = le_doc e /\ w_rev r = le_rev e
            /\ w_principal r = false /\ purges r = false.
Proof.
  intros Hc Ht Hl Hin H1 Hs Hca He Hrm Hdel Hpos Hle.
  eapply (grant_backfills snap since c added (added, 0)); eauto.
  unfold chan_since. rewrite Ht.
  replace (s_cached snap <? added) with false by lia.
  replace (1 <? added) with true by lia. replace (added <=? s_cached snap) with true by lia.
  assert (before since (mk 0 0 added) = true) as Hb.
  { destruct since as [t l s]; cbn [TriggeredBy Seq LowSeq] in *; subst t l.
    unfold before, Before, Before_fuel, mk; cbn [Before_f TriggeredBy LowSeq Seq]. break_ifs; lia. }
  rewrite Hb. cbn. reflexivity.
Qed.

(* ---------- a revocation feed's selection is delivered as purging rows ---------- *)
Theorem revocation_delivers snap since c at_ e :
  feeds_consistent_b (feeds snap since) = true ->
  In (c, at_) (revoked_channels (s_user snap) (s_roles snap) (Seq since) 0 (TriggeredBy since)) ->
  at_ <= s_cached snap ->
  In e (log_of c (s_logs snap)) ->
  snd (revoke_params since at_) < le_seq e ->
  (* the document may be on the client: written at or before its position, or in the channel while the user had it *)
  (le_seq e <= Seq since \/
   exists d, find_doc (le_doc e) (s_docs snap) = Some d /\
             was_in_channel (d_hist d) (granted_periods (s_user snap) (s_roles snap) c) c (fst (revoke_params since at_)) = true) ->
  user_can_see snap (le_doc e) = false ->
  exists r, In r (pull snap since 0) /\ w_doc r = le_doc e /\ w_seq r = le_seq e /\ w_trig r = at_
            /\ w_revoked r = true /\ purges r = true.
Proof.
  intros Hc Hin Hat He Hfrom Hneeds Hsee.
  set (x := mkRow at_ (le_seq e) (le_doc e) (le_rev e) (if le_removed e then [c] else []) (le_deleted e) true false false).
  assert (In x (revoked_feed snap since c at_)) as Hx.
  { unfold revoked_feed. destruct (revoke_params since at_) as [rev_since revoke_from] eqn:Ep. cbn [fst snd] in *.
    apply in_flat_map. exists e. split; [apply filter_In; split; auto; apply N.ltb_lt; exact Hfrom |].
    unfold user_can_see in Hsee.
    assert ((if Seq since <? le_seq e
             then match find_doc (le_doc e) (s_docs snap) with
                  | Some d => was_in_channel (d_hist d) (granted_periods (s_user snap) (s_roles snap) c) c rev_since
                  | None => false
                  end
             else true) = true) as Hn.
    { destruct (Seq since <? le_seq e) eqn:E; auto.
      destruct Hneeds as [Hn|(d & Hd & Hw)]; [lia |]. rewrite Hd; exact Hw. }
    rewrite Hn. cbn [andb].
    replace (match find_doc (le_doc e) (s_docs snap) with
             | Some d => has_access (s_user snap) (s_roles snap) (d_active d)
             | None => false
             end) with false by (symmetry; exact Hsee).
    cbn [negb]. left; reflexivity. }
  assert (In x (concat (feeds snap since))) as Hxin.
  { unfold feeds. rewrite !concat_app. apply in_or_app; right. apply in_or_app; right.
    apply in_concat. exists (revoked_feed snap since c at_). split; auto.
    apply in_map_iff. exists (c, at_); auto. }
  destruct (pull_complete snap since x Hc Hxin) as (r & Hr & Hrt & Hrs & Hrd & _ & _ & Hrrk & _ & _).
  { subst x; cbn [w_seq w_revoked w_trig]. apply orb_true_iff; right. apply N.leb_le; exact Hat. }
  exists r. subst x; cbn [w_trig w_seq w_doc w_revoked] in *. repeat split; auto.
  unfold purges. rewrite Hrrk. reflexivity.
Qed.
