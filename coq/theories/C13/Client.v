(* C13 model, part 3: a protocol-following client (the replica a pull replication maintains).
   A row either stores the announced revision or purges the document: purge on "revoked", on "removed
   from all its channels" (the allRemoved flag the BLIP changes row carries; for a REST client: a row
   whose every contributing channel entry is a removal) and on "deleted".  Principal rows (_user/x)
   carry no document. *)
From SG Require Import Base.Prelude C20.SeqIdGen C20.SeqId C13.Revocation C13.Feed.
Open Scope N_scope.

Definition client := list (N * N).      (* document -> revision held; at most one entry per document *)

Fixpoint c_remove (d : N) (c : client) : client :=
  match c with
  | [] => []
  | (k, v) :: r => if k =? d then c_remove d r else (k, v) :: c_remove d r
  end.

Fixpoint c_get (d : N) (c : client) : option N :=
  match c with
  | [] => None
  | (k, v) :: r => if k =? d then Some v else c_get d r
  end.

(* ascending by document: a canonical form, so that client states can be compared with [=] *)
Fixpoint c_insert (d v : N) (c : client) : client :=
  match c with
  | [] => [(d, v)]
  | (k, w) :: r => if d <? k then (d, v) :: c else if d =? k then (d, v) :: r else (k, w) :: c_insert d v r
  end.

Definition purges (r : row) : bool := w_revoked r || w_allremoved r || w_deleted r.

Definition apply_row (c : client) (r : row) : client :=
  if w_principal r then c
  else if purges r then c_remove (w_doc r) c
  else c_insert (w_doc r) (w_rev r) (c_remove (w_doc r) c).

Definition apply_rows (c : client) (rows : list row) : client := fold_left apply_row rows c.

Definition holds (c : client) (d : N) : bool := match c_get d c with Some _ => true | None => false end.

(* one request of the protocol: rows for the current position, applied; new position *)
Definition client_pull (snap : snapshot) (limit : N) (st : client * seqid) : client * seqid :=
  let rows := pull snap (snd st) limit in
  (apply_rows (fst st) rows, next_since (snd st) rows).

Definition caught_up (limit : N) (rows : list row) : bool :=
  (limit =? 0) || (N.of_nat (length rows) <? limit).

(* the documents whose current revision the user can see, as the snapshot records them *)
Definition visible_docs (snap : snapshot) : list N :=
  map d_id (filter (fun d => match d_active d with
                             | Some (_ :: _) => has_access (s_user snap) (s_roles snap) (d_active d)
                             | _ => false
                             end) (s_docs snap)).
