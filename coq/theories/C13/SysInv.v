(* C13: the invariant of the whole-system model (Sys.v) -- well-formed documents (sequences, removal entries, open
   periods, access maps), disjoint sequence ownership, well-formed principals, and every VALID principal holding exactly
   what its sources (explicit grants + granting documents + "!") confer -- and its preservation by every operation,
   under the per-operation premises (names in scope, no history entry merged away). *)
From SG Require Import Base.Prelude C20.SeqIdGen C20.SeqId
  C13.Revocation C13.RevocationProofs C13.Feed C13.Client C13.DocHist C13.GrantSys C13.GrantSysProofs C13.PeriodsProofs
  C13.MergeSorted C13.Sys C13.SysDocs C13.SysGrants C13.Hyps.
Open Scope N_scope.

(* ---------- runs of invalidations ---------- *)
Definition inval_only (s : N) (ops : list gop) : Prop :=
  Forall (fun o => o = InvalUser s \/ o = InvalUserRoles s \/ exists r, o = InvalRole r s) ops.

Lemma invalidate_idem s p : invalidate s (invalidate s p) = invalidate s p.
Proof.
  unfold invalidate. destruct (p_inval p =? 0) eqn:E; cbn [p_inval]; [| rewrite E; reflexivity].
  destruct (s =? 0) eqn:E2; [apply N.eqb_eq in E2; subst; reflexivity | reflexivity].
Qed.

Lemma run_invals_user s ops : forall g, inval_only s ops ->
  g_user (run g ops) = if existsb (fun o => match o with InvalUser _ => true | _ => false end) ops
                       then invalidate s (g_user g) else g_user g.
Proof.
  induction ops as [|o ops IH]; intros g H; cbn [run fold_left existsb]; [reflexivity |].
  inversion H as [|? ? Ho Hrest]; subst. fold (run (step g o) ops). rewrite (IH _ Hrest).
  destruct Ho as [->|[->|(r & ->)]]; cbn [step g_user orb]; auto.
  destruct (existsb _ ops); [apply invalidate_idem | reflexivity].
Qed.

Lemma run_invals_uroles s ops : forall g, inval_only s ops ->
  g_uroles (run g ops) = if existsb (fun o => match o with InvalUserRoles _ => true | _ => false end) ops
                         then invalidate s (g_uroles g) else g_uroles g.
Proof.
  induction ops as [|o ops IH]; intros g H; cbn [run fold_left existsb]; [reflexivity |].
  inversion H as [|? ? Ho Hrest]; subst. fold (run (step g o) ops). rewrite (IH _ Hrest).
  destruct Ho as [->|[->|(r & ->)]]; cbn [step g_uroles orb]; auto.
  destruct (existsb _ ops); [apply invalidate_idem | reflexivity].
Qed.

Definition inval_role (s : N) (v : princ * bool) : princ * bool :=
  let '(p, del) := v in if del then (p, del) else (invalidate s p, del).

Lemma inval_role_idem s v : inval_role s (inval_role s v) = inval_role s v.
Proof. destruct v as [p [|]]; cbn; auto. rewrite invalidate_idem; reflexivity. Qed.

Lemma step_inval_role_get r0 s g r :
  role_get r (g_roles (step g (InvalRole r0 s))) =
  if r =? r0 then option_map (inval_role s) (role_get r (g_roles g)) else role_get r (g_roles g).
Proof.
  cbn [step g_roles]. destruct (r =? r0) eqn:E.
  - apply N.eqb_eq in E; subst. rewrite role_get_upd_same. destruct (role_get r0 (g_roles g)) as [[p d]|]; reflexivity.
  - apply N.eqb_neq in E. apply role_get_upd_other; exact E.
Qed.

Lemma run_invals_role s ops r : forall g, inval_only s ops ->
  role_get r (g_roles (run g ops)) =
  if existsb (fun o => match o with InvalRole r0 _ => r0 =? r | _ => false end) ops
  then option_map (inval_role s) (role_get r (g_roles g)) else role_get r (g_roles g).
Proof.
  induction ops as [|o ops IH]; intros g H; cbn [run fold_left existsb]; [reflexivity |].
  inversion H as [|? ? Ho Hrest]; subst. fold (run (step g o) ops). rewrite (IH _ Hrest).
  destruct Ho as [->|[->|(r0 & ->)]]; cbn [orb]; try reflexivity.
  rewrite step_inval_role_get. rewrite (N.eqb_sym r0 r). destruct (r =? r0) eqn:E; cbn [orb]; auto.
  destruct (existsb _ ops); auto.
  destruct (role_get r (g_roles g)) as [v|]; cbn [option_map]; auto. rewrite inval_role_idem; reflexivity.
Qed.

Lemma write_gops_inval_only y d acc rol : inval_only (y_next y) (write_gops y d acc rol).
Proof.
  unfold write_gops, inval_only. apply Forall_app; split.
  - apply Forall_forall. intros o Ho. apply in_map_iff in Ho as (k & <- & _). unfold inval_grantee.
    destruct (k =? 0); [left; reflexivity | right; right; eexists; reflexivity].
  - destruct (same_keys _ _); constructor; [right; left; reflexivity | constructor].
Qed.

Definition write_changed (y : sys) (d : N) (acc : list (N * list N)) : list N :=
  snd (update_access (sd_acc (doc_old y d)) acc (y_next y)).

Lemma write_gops_user y d acc rol :
  existsb (fun o => match o with InvalUser _ => true | _ => false end) (write_gops y d acc rol) = mem 0 (write_changed y d acc).
Proof.
  unfold write_gops. rewrite existsb_app. fold (write_changed y d acc).
  replace (existsb _ (if same_keys _ _ then [] else [InvalUserRoles (y_next y)])) with false
    by (destruct (same_keys _ _); reflexivity).
  rewrite orb_false_r. induction (write_changed y d acc) as [|k l IH]; cbn [map existsb mem]; auto.
  unfold mem in *; cbn [existsb]. rewrite IH. unfold inval_grantee. rewrite (N.eqb_sym 0 k). destruct (k =? 0); reflexivity.
Qed.

Lemma write_gops_uroles y d acc rol :
  existsb (fun o => match o with InvalUserRoles _ => true | _ => false end) (write_gops y d acc rol)
  = negb (same_keys (sd_racc (doc_old y d)) (sorted_set rol)).
Proof.
  unfold write_gops. rewrite existsb_app.
  replace (existsb _ (map (inval_grantee (y_next y)) _)) with false.
  - destruct (same_keys _ _); reflexivity.
  - symmetry. induction (snd (update_access _ _ _)) as [|k l IH]; cbn [map existsb]; auto.
    rewrite IH. unfold inval_grantee. destruct (k =? 0); reflexivity.
Qed.

Lemma write_gops_role y d acc rol r : r <> 0 ->
  existsb (fun o => match o with InvalRole r0 _ => r0 =? r | _ => false end) (write_gops y d acc rol) = mem r (write_changed y d acc).
Proof.
  intros Hr. unfold write_gops. rewrite existsb_app. fold (write_changed y d acc).
  replace (existsb _ (if same_keys _ _ then [] else [InvalUserRoles (y_next y)])) with false
    by (destruct (same_keys _ _); reflexivity).
  rewrite orb_false_r. induction (write_changed y d acc) as [|k l IH]; cbn [map existsb mem]; auto.
  unfold mem in *; cbn [existsb]. rewrite IH. unfold inval_grantee. rewrite (N.eqb_sym r k).
  destruct (k =? 0) eqn:E; auto. apply N.eqb_eq in E; subst k.
  destruct (0 =? r) eqn:E2; [apply N.eqb_eq in E2; congruence | reflexivity].
Qed.

(* ---------- the invariant ---------- *)
Record doc_wf (n useq : N) (x : sdoc) : Prop := {
  dw_seq : 0 < sd_seq x < n /\ sd_seq x <> useq;
  dw_removed : forall c q rev del, In (c, (q, rev, del)) (sd_removed x) ->
                 0 < q <= sd_seq x /\ q <> useq /\ (q = sd_seq x -> rev = sd_rev x /\ del = negb (sd_live x));
  dw_rm_cons : forall c1 c2 q r1 d1 r2 d2,
                 In (c1, (q, r1, d1)) (sd_removed x) -> In (c2, (q, r2, d2)) (sd_removed x) -> r1 = r2 /\ d1 = d2;
  dw_dead : sd_live x = false -> sd_active x = [];
  dw_open : forall c, In c (sd_active x) -> open_first c (sd_cs x);
  dw_starts : starts_below (n - 1) (sd_cs x ++ sd_csh x);
  dw_acc : forall k c s, In (c, s) (acc_get k (sd_acc x)) -> 0 < s < n /\ c <> star;
  dw_racc : forall r s, In (r, s) (sd_racc x) -> 0 < s < n /\ r <> 0 }.

Definition roles_ok (n : N) (t : tset) : Prop := forall r s, In (r, s) t -> 0 < s < n /\ r <> 0.

Record wf (y : sys) : Prop := {
  wf_clock : 2 <= y_next y;
  wf_useq : 0 < y_useq y < y_next y;
  wf_ids : ids_asc (y_docs y);
  wf_docs : forall x, In x (y_docs y) -> doc_wf (y_next y) (y_useq y) x;
  wf_disj : seqs_disjoint (y_docs y);
  wf_g : gwf (y_next y) (y_g y);
  wf_uexp : set_ok (y_next y) (y_uexp y);
  wf_urexp : roles_ok (y_next y) (y_urexp y);
  wf_rexp : forall r, set_ok (y_next y) (rexp_get r (y_rexp y));
  wf_sync_u : synced (src_chans 0 (y_docs y) (y_uexp y)) (g_user (y_g y));
  wf_sync_ur : synced (src_roles (y_docs y) (y_urexp y)) (g_uroles (y_g y));
  wf_sync_r : forall r p, role_get r (g_roles (y_g y)) = Some (p, false) ->
                synced (src_chans r (y_docs y) (rexp_get r (y_rexp y))) p }.

Lemma doc_wf_mono n n' useq x : n <= n' -> doc_wf n useq x -> doc_wf n' useq x.
Proof.
  intros Hle [H1 H2 H3 H4 H5 H6 H7 H8]. constructor; auto.
  - lia.
  - intros n0 s e Hin. specialize (H6 n0 s e Hin). lia.
  - intros k c s Hin. destruct (H7 k c s Hin). split; auto; lia.
  - intros r s Hin. destruct (H8 r s Hin). split; auto; lia.
Qed.

Lemma roles_ok_mono n n' t : n <= n' -> roles_ok n t -> roles_ok n' t.
Proof. intros Hle H r s Hin. destruct (H r s Hin). split; auto; lia. Qed.

(* what the documents confer: positive stamps *)
Lemma wf_docs_pos y : wf y -> docs_pos (y_docs y).
Proof.
  intros Hw x Hx. destruct (wf_docs y Hw x Hx) as [_ _ _ _ _ _ H7 H8]. split.
  - intros k c s Hin. destruct (H7 k c s Hin); lia.
  - intros r s Hin. destruct (H8 r s Hin); lia.
Qed.

Lemma set_ok_pos n t : set_ok n t -> tset_pos t.
Proof. intros (H & _) c s Hin. destruct (H c s Hin); auto. Qed.

Lemma roles_ok_pos n t : roles_ok n t -> tset_pos t.
Proof. intros H c s Hin. destruct (H c s Hin); lia. Qed.

(* the sets a load computes are well-formed *)
Lemma wf_computed_chans y k : wf y -> set_ok (y_next y) (computed_chans k (y_docs y) (if k =? 0 then y_uexp y else rexp_get k (y_rexp y))).
Proof.
  intros Hw. apply set_ok_computed_chans.
  - pose proof (wf_clock y Hw); lia.
  - destruct (k =? 0); [apply (wf_uexp y Hw) | apply (wf_rexp y Hw)].
  - intros x Hx c s Hin. apply (dw_acc _ _ _ (wf_docs y Hw x Hx) k c s Hin).
Qed.

Lemma wf_computed_roles y : wf y -> set_ok (y_next y) (computed_roles (y_docs y) (y_urexp y)).
Proof.
  intros Hw. apply set_ok_computed_roles.
  - apply (wf_urexp y Hw).
  - intros x Hx r s Hin. apply (dw_racc _ _ _ (wf_docs y Hw x Hx) r s Hin).
Qed.

(* ---------- unpruned over appended lists ---------- *)
Lemma unpruned_app g l1 l2 : unpruned g (l1 ++ l2) <-> unpruned g l1 /\ unpruned (run g l1) l2.
Proof.
  revert g; induction l1 as [|o l1 IH]; intros g; cbn [app unpruned run fold_left]; [tauto |].
  fold (run (step g o) l1). rewrite IH. tauto.
Qed.

(* ---------- gwf along the operations of one system operation ---------- *)
(* rebuilds and creations at the clock n *)
Definition load_op (n : N) (o : gop) : Prop :=
  match o with
  | RebuildUser new_ | RebuildUserRoles new_ => set_ok n new_
  | RebuildRole r new_ | CreateRole r new_ => set_ok n new_ /\ r <> 0
  | _ => False
  end.
(* invalidations and deletions at sequence n *)
Definition seq_op (n : N) (o : gop) : Prop :=
  match o with
  | InvalUser s | InvalUserRoles s => s = n
  | InvalRole r s | DeleteRole r s => s = n /\ r <> 0
  | _ => False
  end.

Lemma run_gwf_loads n ops : forall g, 0 < n -> gwf n g -> Forall (load_op n) ops -> unpruned g ops -> gwf n (run g ops).
Proof.
  induction ops as [|o ops IH]; intros g Hn Hg Hall Hun; cbn [run fold_left]; auto.
  inversion Hall as [|? ? Ho Hrest]; subst. destruct Hun as [Hun1 Hun2]. fold (run (step g o) ops).
  apply IH; auto. apply (step_gwf n n); auto.
  destruct o; cbn [load_op] in Ho; cbn [gop_ok]; try contradiction; try (split; [exact Ho | lia]);
    destruct Ho as [Ho1 Ho2]; (split; [exact Ho1 | split; [lia | exact Ho2]]).
Qed.

Lemma run_gwf_seqs n ops : forall g lvl, 0 < n -> n <= lvl <= n + 1 -> gwf lvl g -> Forall (seq_op n) ops -> unpruned g ops ->
  gwf (n + 1) (run g ops).
Proof.
  induction ops as [|o ops IH]; intros g lvl Hn Hl Hg Hall Hun; cbn [run fold_left].
  - apply (gwf_mono lvl); auto; lia.
  - inversion Hall as [|? ? Ho Hrest]; subst. destruct Hun as [Hun1 Hun2]. fold (run (step g o) ops).
    apply (IH _ (n + 1)); auto; [lia |]. apply (step_gwf lvl (n + 1)); auto; [lia |].
    destruct o; cbn [seq_op] in Ho; cbn [gop_ok]; try contradiction.
    + subst; lia.
    + subst; lia.
    + destruct Ho as [-> Hr]; split; [lia | split; [lia | exact Hr]].
    + destruct Ho as [-> Hr]; split; [lia | split; [lia | split; [exact Hr | lia]]].
Qed.

(* ---------- loads ---------- *)
Definition sys_load_op (y : sys) (o : gop) : Prop :=
  match o with
  | RebuildUser new_ => new_ = computed_chans 0 (y_docs y) (y_uexp y)
  | RebuildUserRoles new_ => new_ = computed_roles (y_docs y) (y_urexp y)
  | RebuildRole r new_ => new_ = computed_chans r (y_docs y) (rexp_get r (y_rexp y)) /\ r <> 0
  | _ => False
  end.

Lemma wf_with_g y g' :
  wf y -> gwf (y_next y) g' ->
  synced (src_chans 0 (y_docs y) (y_uexp y)) (g_user g') ->
  synced (src_roles (y_docs y) (y_urexp y)) (g_uroles g') ->
  (forall r p, role_get r (g_roles g') = Some (p, false) -> synced (src_chans r (y_docs y) (rexp_get r (y_rexp y))) p) ->
  wf (with_g y g').
Proof.
  intros [H1 H2 H3 H4 H5 H6 H7 H8 H9 H10 H11 H12] Hg Hu Hur Hr. constructor; cbn [with_g y_next y_useq y_docs y_g y_uexp y_urexp y_rexp]; auto.
Qed.

Lemma wf_load_step y o :
  wf y -> sys_load_op y o -> unpruned_step (y_g y) o -> wf (with_g y (step (y_g y) o)).
Proof.
  intros Hw Ho Hun. pose proof (wf_clock y Hw) as Hc. pose proof (wf_g y Hw) as Hg.
  assert (0 < y_next y) as Hn by lia.
  destruct o as [s|s|r0 s|new_|new_|r0 new_|r0 new_|r0 s]; cbn [sys_load_op] in Ho; try contradiction.
  - subst new_. apply wf_with_g; auto.
    + apply (step_gwf (y_next y) (y_next y)); auto. cbn [gop_ok]. split; [| lia]. apply (wf_computed_chans y 0 Hw).
    + cbn [step g_user]. apply synced_rebuild; [apply (wf_sync_u y Hw) |].
      apply computes_chans; [apply wf_docs_pos; exact Hw | eapply set_ok_pos; apply (wf_uexp y Hw)].
    + cbn [step g_uroles]. apply (wf_sync_ur y Hw).
    + cbn [step g_roles]. apply (wf_sync_r y Hw).
  - subst new_. apply wf_with_g; auto.
    + apply (step_gwf (y_next y) (y_next y)); auto. cbn [gop_ok]. split; [| lia]. apply (wf_computed_roles y Hw).
    + cbn [step g_user]. apply (wf_sync_u y Hw).
    + cbn [step g_uroles]. apply synced_rebuild; [apply (wf_sync_ur y Hw) |].
      apply computes_roles; [apply wf_docs_pos; exact Hw | eapply roles_ok_pos; apply (wf_urexp y Hw)].
    + cbn [step g_roles]. apply (wf_sync_r y Hw).
  - destruct Ho as [-> Hr0]. apply wf_with_g; auto.
    + apply (step_gwf (y_next y) (y_next y)); auto. cbn [gop_ok]. split; [| split; [lia | exact Hr0]].
      pose proof (wf_computed_chans y r0 Hw) as K. replace (r0 =? 0) with false in K; [exact K |].
      symmetry; apply N.eqb_neq; exact Hr0.
    + cbn [step g_user]. apply (wf_sync_u y Hw).
    + cbn [step g_uroles]. apply (wf_sync_ur y Hw).
    + intros r p Hget. rewrite step_rebuild_role_get in Hget. destruct (r =? r0) eqn:E.
      * apply N.eqb_eq in E; subst r. destruct (role_get r0 (g_roles (y_g y))) as [[p0 del0]|] eqn:E0; [| discriminate].
        cbn [option_map] in Hget. destruct del0; inversion Hget; subst.
        apply synced_rebuild; [apply (wf_sync_r y Hw); exact E0 |].
        apply computes_chans; [apply wf_docs_pos; exact Hw | eapply set_ok_pos; apply (wf_rexp y Hw)].
      * apply (wf_sync_r y Hw); exact Hget.
Qed.

Lemma sys_load_op_with_g y g' o : sys_load_op (with_g y g') o <-> sys_load_op y o.
Proof. destruct o; cbn; tauto. Qed.

Lemma wf_run_loads ops : forall y,
  wf y -> Forall (sys_load_op y) ops -> unpruned (y_g y) ops -> wf (with_g y (run (y_g y) ops)).
Proof.
  induction ops as [|o ops IH]; intros y Hw Hall Hun; cbn [run fold_left].
  - destruct y; exact Hw.
  - inversion Hall as [|? ? Ho Hrest]; subst. destruct Hun as [Hun1 Hun2].
    fold (run (step (y_g y) o) ops).
    specialize (IH (with_g y (step (y_g y) o)) (wf_load_step y o Hw Ho Hun1)).
    cbn [with_g y_g] in IH. apply IH; [exact Hrest | exact Hun2].
Qed.

Lemma load_user_ops y : Forall (sys_load_op y) (gops_load_user y).
Proof. unfold gops_load_user. repeat constructor. Qed.

Lemma load_role_ops y r : r <> 0 -> Forall (sys_load_op y) (gops_load_role r y).
Proof. intros Hr. unfold gops_load_role. repeat constructor; auto. Qed.

Lemma load_all_ops y : wf y -> Forall (sys_load_op y) (gops_load_all y).
Proof.
  intros Hw. rewrite gops_load_all_eq. apply Forall_app; split; [apply load_user_ops |].
  apply Forall_forall. intros o Ho. apply in_map_iff in Ho as (r & <- & Hr). cbn [sys_load_op]. split; auto.
  apply in_map_iff in Hr as ([k v] & <- & Hin). cbn [fst].
  assert (exists v', role_get k (g_roles (y_g y)) = Some v') as (v' & Hv').
  { clear -Hin. induction (g_roles (y_g y)) as [|[k' w] l IH]; [destruct Hin |]. cbn [role_get].
    destruct (k' =? k) eqn:E; [eexists; reflexivity |]. destruct Hin as [Heq|Hin]; [inversion Heq; subst; rewrite N.eqb_refl in E; discriminate | auto]. }
  destruct v' as [p del]. destruct (gw_roles _ _ (wf_g y Hw) k p del Hv') as (_ & Hne & _). exact Hne.
Qed.

Lemma wf_load_user y : wf y -> unpruned (y_g y) (gops_load_user y) -> wf (load_user y).
Proof. intros Hw Hun. apply wf_run_loads; auto. apply load_user_ops. Qed.

Lemma wf_load_role y r : wf y -> r <> 0 -> unpruned (y_g y) (gops_load_role r y) -> wf (load_role r y).
Proof. intros Hw Hr Hun. apply wf_run_loads; auto. apply load_role_ops; exact Hr. Qed.

Lemma wf_load_all y : wf y -> unpruned (y_g y) (gops_load_all y) -> wf (load_all y).
Proof. intros Hw Hun. apply wf_run_loads; auto. apply load_all_ops; exact Hw. Qed.

(* ---------- a document write ---------- *)
Definition new_doc (y : sys) (d : N) (chans : list N) (acc : list (N * list N)) (rol : list N) (live : bool) : sdoc :=
  let s := y_next y in
  let rev := y_nrev y in
  let old := doc_old y d in
  let new_ := sorted_set chans in
  let left := filter (fun c => negb (mem c new_)) (sd_active old) in
  let removed1 := fold_left (fun acc c => rm_put c (s, rev, negb live) acc) left (sd_removed old) in
  let removed2 := filter (fun '(c, _) => negb (mem c new_)) removed1 in
  let cs := update_channels (sd_active old) new_ s (sd_cs old, sd_csh old) in
  mkSDoc d s rev live new_ removed2 (fst cs) (snd cs)
         (fst (update_access (sd_acc old) acc s)) (update_at_seq (sd_racc old) (sorted_set rol) s).

Lemma write_doc_eq y d chans acc rol live :
  write_doc y d chans acc rol live =
  mkSys (y_next y + 1) (y_nrev y + 1) (doc_put (new_doc y d chans acc rol live) (y_docs y))
        (y_uexp y) (y_urexp y) (y_useq y) (y_rexp y) (run (y_g y) (write_gops y d acc rol)).
Proof. reflexivity. Qed.

Lemma in_rm_put c v0 l k v : In (k, v) (rm_put c v0 l) -> (k, v) = (c, v0) \/ In (k, v) l.
Proof.
  induction l as [|[k' w] l IH]; cbn [rm_put]; [intros [H|[]]; left; symmetry; exact H |].
  destruct (k' =? c).
  - intros [H|H]; [left; symmetry; exact H | right; right; exact H].
  - intros [H|H]; [right; left; exact H |]. apply IH in H as [H|H]; [left; exact H | right; right; exact H].
Qed.

Lemma in_fold_rm_put v0 left_ : forall l k v,
  In (k, v) (fold_left (fun acc c => rm_put c v0 acc) left_ l) -> v = v0 \/ In (k, v) l.
Proof.
  induction left_ as [|c left_ IH]; intros l k v H; cbn [fold_left] in H; [right; exact H |].
  apply IH in H as [H|H]; [left; exact H |]. apply in_rm_put in H as [H|H]; [inversion H; left; reflexivity | right; exact H].
Qed.

Record old_facts (n useq : N) (old : sdoc) : Prop := {
  of_removed : forall c q rev del, In (c, (q, rev, del)) (sd_removed old) -> 0 < q < n /\ q <> useq;
  of_cons : forall c1 c2 q r1 d1 r2 d2,
              In (c1, (q, r1, d1)) (sd_removed old) -> In (c2, (q, r2, d2)) (sd_removed old) -> r1 = r2 /\ d1 = d2;
  of_open : forall c, In c (sd_active old) -> open_first c (sd_cs old);
  of_starts : starts_below (n - 1) (sd_cs old ++ sd_csh old);
  of_acc : forall k c s, In (c, s) (acc_get k (sd_acc old)) -> 0 < s < n /\ c <> star;
  of_racc : forall r s, In (r, s) (sd_racc old) -> 0 < s < n /\ r <> 0 }.

Lemma doc_old_cases y d :
  (exists x, doc_get d (y_docs y) = Some x /\ doc_old y d = x /\ In x (y_docs y) /\ sd_id x = d) \/
  (doc_get d (y_docs y) = None /\ doc_old y d = mkSDoc d 0 0 false [] [] [] [] [] []).
Proof.
  unfold doc_old. destruct (doc_get d (y_docs y)) as [x|] eqn:E; [left | right; auto].
  exists x. destruct (doc_get_in _ _ _ E). auto.
Qed.

Lemma doc_old_facts y d : wf y -> old_facts (y_next y) (y_useq y) (doc_old y d).
Proof.
  intros Hw. destruct (doc_old_cases y d) as [(x & _ & -> & Hx & _)|[_ ->]].
  - destruct (wf_docs y Hw x Hx) as [H1 H2 H3 H4 H5 H6 H7 H8]. constructor; auto.
    intros c q rev del Hin. destruct (H2 c q rev del Hin) as (A & B & _). split; [lia | exact B].
  - constructor; cbn; try (intros; contradiction). intros n s e [].
Qed.

Lemma starts_below_mono b b' l : b <= b' -> starts_below b l -> starts_below b' l.
Proof. intros Hle H n s e Hin. specialize (H n s e Hin). lia. Qed.

Lemma nz_in l x : nz l = true -> In x l -> x <> 0.
Proof.
  unfold nz. rewrite forallb_forall. intros H Hin. specialize (H x Hin). apply negb_true_iff, N.eqb_neq in H. exact H.
Qed.

Lemma acc_for_in k acc c : In c (acc_for k acc) -> exists v, In (k, v) acc /\ In c v.
Proof.
  unfold acc_for. rewrite in_sorted_set, in_flat_map. intros ([k' v] & Hin & Hc).
  destruct (k' =? k) eqn:E; [| destruct Hc]. apply N.eqb_eq in E; subst k'. exists v; auto.
Qed.

Lemma new_doc_wf y d chans acc rol live :
  wf y -> nz chans = true -> forallb (fun '(_, v) => nz v) acc = true -> nz rol = true ->
  (live = false -> chans = []) -> nomerge (sd_csh (doc_old y d)) ->
  doc_wf (y_next y + 1) (y_useq y) (new_doc y d chans acc rol live).
Proof.
  intros Hw Hch Hacc Hrol Hlive Hnm.
  pose proof (doc_old_facts y d Hw) as [O1 O2 O3 O4 O5 O6].
  pose proof (wf_clock y Hw) as Hc. pose proof (wf_useq y Hw) as Hu.
  set (old := doc_old y d) in *.
  assert (forall c q rev del, In (c, (q, rev, del)) (sd_removed (new_doc y d chans acc rol live)) ->
            (q = y_next y /\ rev = y_nrev y /\ del = negb live) \/ In (c, (q, rev, del)) (sd_removed old)) as Hrm.
  { intros c q rev del Hin. unfold new_doc in Hin; cbn [sd_removed] in Hin. apply filter_In in Hin as [Hin _].
    apply in_fold_rm_put in Hin as [Hin|Hin]; [inversion Hin; left; auto | right; exact Hin]. }
  constructor.
  - cbn [new_doc sd_seq]. split; lia.
  - intros c q rev del Hin. cbn [new_doc sd_seq sd_rev sd_live]. destruct (Hrm c q rev del Hin) as [(-> & -> & ->)|Hold].
    + repeat split; auto; lia.
    + destruct (O1 c q rev del Hold). repeat split; try lia.
  - intros c1 c2 q r1 d1 r2 d2 H1 H2.
    destruct (Hrm _ _ _ _ H1) as [(-> & -> & ->)|Ho1], (Hrm _ _ _ _ H2) as [(E1 & -> & ->)|Ho2]; auto.
    + destruct (O1 _ _ _ _ Ho2); lia.
    + subst q. destruct (O1 _ _ _ _ Ho1); lia.
    + eapply O2; eauto.
  - cbn [new_doc sd_live sd_active]. intros Hl. rewrite (Hlive Hl). reflexivity.
  - cbn [new_doc sd_active sd_cs]. intros c Hc0. apply update_channels_open; auto.
  - cbn [new_doc sd_cs sd_csh]. replace (y_next y + 1 - 1) with (y_next y) by lia.
    apply update_channels_starts; cbn [fst snd]; auto; try lia.
    + apply nodup_sorted_set.
    + eapply starts_below_mono; [| exact O4]. lia.
  - cbn [new_doc sd_acc]. intros k c s Hin. rewrite update_access_get in Hin.
    apply in_update_at_seq in Hin as [[Hin _]|(-> & Hin & _)].
    + destruct (O5 k c s Hin). split; auto; lia.
    + split; [lia |]. apply acc_for_in in Hin as (v & Hv & Hcv). rewrite forallb_forall in Hacc. specialize (Hacc _ Hv). cbn in Hacc.
      unfold star. apply (nz_in v c Hacc Hcv).
  - cbn [new_doc sd_racc]. intros r s Hin. apply in_update_at_seq in Hin as [[Hin _]|(-> & Hin & _)].
    + destruct (O6 r s Hin). split; auto; lia.
    + split; [lia |]. rewrite in_sorted_set in Hin. apply (nz_in rol r Hrol Hin).
Qed.

Lemma new_doc_id y d chans acc rol live : sd_id (new_doc y d chans acc rol live) = d.
Proof. reflexivity. Qed.

Lemma new_doc_owns y d chans acc rol live q :
  owns (new_doc y d chans acc rol live) q -> q = y_next y \/ exists c rev del, In (c, (q, rev, del)) (sd_removed (doc_old y d)).
Proof.
  intros [->|(c & rev & del & Hin)]; [left; reflexivity |].
  unfold new_doc in Hin; cbn [sd_removed] in Hin. apply filter_In in Hin as [Hin _].
  apply in_fold_rm_put in Hin as [Hin|Hin]; [inversion Hin; left; reflexivity | right; exists c, rev, del; exact Hin].
Qed.

Lemma owns_below y x q : wf y -> In x (y_docs y) -> owns x q -> 0 < q < y_next y /\ q <> y_useq y.
Proof.
  intros Hw Hx Ho. destruct (wf_docs y Hw x Hx) as [H1 H2 _ _ _ _ _ _].
  destruct Ho as [->|(c & rev & del & Hin)]; [destruct H1; split; auto |].
  destruct (H2 c q rev del Hin) as (A & B & _). split; [lia | exact B].
Qed.

Lemma seqs_disjoint_put y d chans acc rol live :
  wf y -> seqs_disjoint (doc_put (new_doc y d chans acc rol live) (y_docs y)).
Proof.
  intros Hw. set (x' := new_doc y d chans acc rol live).
  assert (forall x q, In x (y_docs y) -> sd_id x <> d -> owns x q -> owns x' q -> False) as K.
  { intros x q Hx Hne Ho Ho'. apply new_doc_owns in Ho' as [->|(c & rev & del & Hin)].
    - destruct (owns_below y x _ Hw Hx Ho). lia.
    - destruct (doc_old_cases y d) as [(x0 & _ & E & Hx0 & Hid)|[_ E]]; rewrite E in Hin; [| destruct Hin].
      assert (sd_id x = sd_id x0) by (eapply (wf_disj y Hw); eauto; right; exists c, rev, del; exact Hin). congruence. }
  intros x1 x2 q H1 H2 Ho1 Ho2.
  apply (in_doc_put _ _ _ (wf_ids y Hw)) in H1. apply (in_doc_put _ _ _ (wf_ids y Hw)) in H2.
  destruct H1 as [->|[H1 Hn1]], H2 as [->|[H2 Hn2]]; auto.
  - exfalso. eapply (K x2 q); eauto.
  - exfalso. eapply (K x1 q); eauto.
  - eapply (wf_disj y Hw); eauto.
Qed.

(* the sources of grantee k are untouched by a write that does not change k's grants in the document *)
Lemma src_chans_put y x' k e c s :
  wf y -> acc_get k (sd_acc x') = acc_get k (sd_acc (doc_old y (sd_id x'))) ->
  (src_chans k (doc_put x' (y_docs y)) e c s <-> src_chans k (y_docs y) e c s).
Proof.
  intros Hw Heq. unfold src_chans. split; (intros [H|[H|(x & Hx & Hc)]]; [left; exact H | right; left; exact H | right; right]).
  - apply in_doc_put in Hx as [->|[Hx _]]; [| exists x; auto | apply (wf_ids y Hw)].
    rewrite Heq in Hc. destruct (doc_old_cases y (sd_id x')) as [(x0 & _ & E & Hx0 & _)|[_ E]]; rewrite E in Hc; [exists x0; auto | destruct Hc].
  - destruct (N.eq_dec (sd_id x) (sd_id x')) as [Hid|Hne].
    + exists x'. split; [apply in_doc_put_new |]. rewrite Heq.
      replace (doc_old y (sd_id x')) with x; auto.
      unfold doc_old. rewrite <- Hid, (in_doc_get _ _ (wf_ids y Hw) Hx). reflexivity.
    + exists x. split; auto. apply in_doc_put_rev; auto.
Qed.

Lemma src_roles_put y x' e r s :
  wf y -> sd_racc x' = sd_racc (doc_old y (sd_id x')) ->
  (src_roles (doc_put x' (y_docs y)) e r s <-> src_roles (y_docs y) e r s).
Proof.
  intros Hw Heq. unfold src_roles. split; (intros [H|(x & Hx & Hc)]; [left; exact H | right]).
  - apply in_doc_put in Hx as [->|[Hx _]]; [| exists x; auto | apply (wf_ids y Hw)].
    rewrite Heq in Hc. destruct (doc_old_cases y (sd_id x')) as [(x0 & _ & E & Hx0 & _)|[_ E]]; rewrite E in Hc; [exists x0; auto | destruct Hc].
  - destruct (N.eq_dec (sd_id x) (sd_id x')) as [Hid|Hne].
    + exists x'. split; [apply in_doc_put_new |]. rewrite Heq.
      replace (doc_old y (sd_id x')) with x; auto.
      unfold doc_old. rewrite <- Hid, (in_doc_get _ _ (wf_ids y Hw) Hx). reflexivity.
    + exists x. split; auto. apply in_doc_put_rev; auto.
Qed.

Lemma seq_op_write_gops y d acc rol : Forall (seq_op (y_next y)) (write_gops y d acc rol).
Proof.
  unfold write_gops. apply Forall_app; split.
  - apply Forall_forall. intros o Ho. apply in_map_iff in Ho as (k & <- & _). unfold inval_grantee.
    destruct (k =? 0) eqn:E; cbn [seq_op]; auto. split; auto. apply N.eqb_neq; exact E.
  - destruct (same_keys _ _); repeat constructor.
Qed.

Lemma unpruned_inval_only s ops : inval_only s ops -> forall g, unpruned g ops.
Proof.
  induction ops as [|o ops IH]; intros H g; cbn [unpruned]; auto.
  inversion H as [|? ? Ho Hrest]; subst. split; [| apply IH; exact Hrest].
  destruct Ho as [->|[->|(r & ->)]]; exact I.
Qed.

Lemma wf_write_doc y d chans acc rol live :
  wf y -> nz chans = true -> forallb (fun '(_, v) => nz v) acc = true -> nz rol = true ->
  (live = false -> chans = []) -> nomerge (sd_csh (doc_old y d)) ->
  wf (write_doc y d chans acc rol live).
Proof.
  intros Hw Hch Hacc Hrol Hlive Hnm. rewrite write_doc_eq.
  pose proof (wf_clock y Hw) as Hc. pose proof (wf_useq y Hw) as Hu.
  set (x' := new_doc y d chans acc rol live).
  pose proof (write_gops_inval_only y d acc rol) as Hio.
  assert (y_next y <> 0) as Hs0 by lia.
  constructor; cbn [y_next y_useq y_docs y_g y_uexp y_urexp y_rexp].
  - lia.
  - lia.
  - apply ids_asc_put, (wf_ids y Hw).
  - intros x Hx. apply in_doc_put in Hx as [->|[Hx _]]; [| | apply (wf_ids y Hw)].
    + apply new_doc_wf; auto.
    + apply (doc_wf_mono (y_next y)); [lia | apply (wf_docs y Hw); exact Hx].
  - apply seqs_disjoint_put; exact Hw.
  - apply (run_gwf_seqs (y_next y) _ _ (y_next y)); try lia.
    + apply (wf_g y Hw).
    + apply seq_op_write_gops.
    + eapply unpruned_inval_only; eauto.
  - eapply set_ok_mono; [| apply (wf_uexp y Hw)]; lia.
  - eapply roles_ok_mono; [| apply (wf_urexp y Hw)]; lia.
  - intros r. eapply set_ok_mono; [| apply (wf_rexp y Hw)]; lia.
  - (* the user's channels *)
    rewrite (run_invals_user _ _ _ Hio), write_gops_user.
    destruct (mem 0 (write_changed y d acc)) eqn:E.
    + apply (synced_invalidate (src_chans 0 (y_docs y) (y_uexp y))); auto. apply (wf_sync_u y Hw).
    + eapply synced_ext; [| apply (wf_sync_u y Hw)]. intros c s. symmetry. apply src_chans_put; auto.
      cbn [x' new_doc sd_acc sd_id]. apply update_access_unchanged. apply mem_false in E. exact E.
  - (* the user's roles *)
    rewrite (run_invals_uroles _ _ _ Hio), write_gops_uroles.
    destruct (same_keys (sd_racc (doc_old y d)) (sorted_set rol)) eqn:E; cbn [negb].
    + eapply synced_ext; [| apply (wf_sync_ur y Hw)]. intros r s. symmetry. apply src_roles_put; auto.
      cbn [x' new_doc sd_racc sd_id]. apply update_at_seq_same; exact E.
    + apply (synced_invalidate (src_roles (y_docs y) (y_urexp y))); auto. apply (wf_sync_ur y Hw).
  - (* the roles *)
    intros r p Hget. rewrite (run_invals_role _ _ r _ Hio) in Hget.
    assert (r <> 0) as Hr.
    { destruct (existsb _ (write_gops y d acc rol)).
      - destruct (role_get r (g_roles (y_g y))) as [[p0 d0]|] eqn:E0; [| discriminate].
        destruct (gw_roles _ _ (wf_g y Hw) r p0 d0 E0) as (_ & H & _); exact H.
      - destruct (gw_roles _ _ (wf_g y Hw) r p false Hget) as (_ & H & _); exact H. }
    rewrite write_gops_role in Hget by exact Hr.
    destruct (mem r (write_changed y d acc)) eqn:E.
    + destruct (role_get r (g_roles (y_g y))) as [[p0 d0]|] eqn:E0; [| discriminate].
      cbn [option_map inval_role] in Hget. destruct d0; inversion Hget; subst.
      apply (synced_invalidate (src_chans r (y_docs y) (rexp_get r (y_rexp y)))); auto. apply (wf_sync_r y Hw); exact E0.
    + eapply synced_ext; [| apply (wf_sync_r y Hw); exact Hget]. intros c s. symmetry. apply src_chans_put; auto.
      cbn [x' new_doc sd_acc sd_id]. apply update_access_unchanged. apply mem_false in E. exact E.
Qed.

(* ---------- admin operations ---------- *)
Lemma doc_wf_useq n useq x : useq < n -> doc_wf n useq x -> doc_wf (n + 1) n x.
Proof.
  intros Hu [H1 H2 H3 H4 H5 H6 H7 H8]. constructor; auto.
  - lia.
  - intros c q rev del Hin. destruct (H2 c q rev del Hin) as (A & B & C). repeat split; auto; lia.
  - intros n0 s e Hin. specialize (H6 n0 s e Hin). lia.
  - intros k c s Hin. destruct (H7 k c s Hin). split; auto; lia.
  - intros r s Hin. destruct (H8 r s Hin). split; auto; lia.
Qed.

Lemma rexp_get_put r t l r' : rexp_get r' (rexp_put r t l) = if r' =? r then t else rexp_get r' l.
Proof.
  induction l as [|[k v] l IH]; cbn [rexp_put rexp_get].
  - rewrite (N.eqb_sym r r'). reflexivity.
  - destruct (k =? r) eqn:E; cbn [rexp_get].
    + apply N.eqb_eq in E; subst k. rewrite (N.eqb_sym r r'). destruct (r' =? r); reflexivity.
    + destruct (k =? r') eqn:E2; [| exact IH].
      apply N.eqb_eq in E2; subst k. rewrite E. reflexivity.
Qed.

Lemma set_ok_update_at_seq n t set :
  set_ok n t -> 0 < n -> nz set = true -> set_ok (n + 1) (update_at_seq t (sorted_set set) n).
Proof.
  intros (H1 & H2 & H3) Hn Hnz. split; [| split].
  - intros c s Hin. apply in_update_at_seq in Hin as [[Hin _]|(-> & _ & _)]; [specialize (H1 c s Hin); lia | lia].
  - apply uniq_update_at_seq; auto. apply nodup_sorted_set.
  - rewrite tmem_update_at_seq. apply mem_false. rewrite in_sorted_set. intros Hin. apply (nz_in set star Hnz Hin). reflexivity.
Qed.

Lemma roles_ok_update_at_seq n t set :
  roles_ok n t -> 0 < n -> nz set = true -> roles_ok (n + 1) (update_at_seq t (sorted_set set) n).
Proof.
  intros H Hn Hnz r s Hin. apply in_update_at_seq in Hin as [[Hin _]|(-> & Hin & _)].
  - destruct (H r s Hin). split; auto; lia.
  - split; [lia |]. rewrite in_sorted_set in Hin. apply (nz_in set r Hnz Hin).
Qed.

Lemma set_ok_nil n : set_ok n [].
Proof. split; [intros c s [] | split; [apply uniq_nil | reflexivity]]. Qed.

Lemma step_create_role_get r0 new_ g r :
  (forall p, role_get r0 (g_roles g) <> Some (p, false)) ->
  role_get r (g_roles (step g (CreateRole r0 new_))) =
  if r =? r0 then Some (mkPrinc new_ 0 (match role_get r0 (g_roles g) with Some (p, _) => p_hist p | None => [] end), false)
  else role_get r (g_roles g).
Proof.
  intros Hnl. cbn [step]. destruct (role_get r0 (g_roles g)) as [[p0 [|]]|] eqn:E0; cbn [g_roles].
  - destruct (r =? r0) eqn:E.
    + apply N.eqb_eq in E; subst. rewrite role_get_upd_same, E0. reflexivity.
    + apply N.eqb_neq in E. apply role_get_upd_other; exact E.
  - exfalso; eapply Hnl; reflexivity.
  - rewrite role_get_app. destruct (r =? r0) eqn:E.
    + apply N.eqb_eq in E; subst. rewrite E0, N.eqb_refl. reflexivity.
    + rewrite (N.eqb_sym r0 r), E. destruct (role_get r (g_roles g)); reflexivity.
Qed.

Lemma step_delete_role_get r0 s g r :
  role_get r (g_roles (step g (DeleteRole r0 s))) =
  if r =? r0 then option_map (fun '(p, del) => if del || negb (p_inval p =? 0) then (p, del)
                                               else (mkPrinc (p_set p) s (calc_history s (p_set p) [] (p_hist p)), true))
                             (role_get r (g_roles g))
  else role_get r (g_roles g).
Proof.
  cbn [step g_roles]. destruct (r =? r0) eqn:E.
  - apply N.eqb_eq in E; subst. apply role_get_upd_same.
  - apply N.eqb_neq in E. apply role_get_upd_other; exact E.
Qed.

(* the premises of one operation *)
Definition step_ok (y : sys) (o : sop) : Prop :=
  op_names_ok y o = true /\ (forall x, In x (y_docs y) -> nomerge (sd_csh x)) /\ unpruned (y_g y) (sys_gops y o).

Lemma nomerge_doc_old y d : (forall x, In x (y_docs y) -> nomerge (sd_csh x)) -> nomerge (sd_csh (doc_old y d)).
Proof.
  intros H. destruct (doc_old_cases y d) as [(x & _ & -> & Hx & _)|[_ ->]]; [apply H; exact Hx |].
  intros c. cbn. unfold doc_max_entries. lia.
Qed.

Lemma wf_admin_frame y n' uexp' urexp' useq' rexp' g' :
  wf y -> y_next y <= n' -> 0 < useq' < n' ->
  (forall x, In x (y_docs y) -> doc_wf n' useq' x) ->
  gwf n' g' -> set_ok n' uexp' -> roles_ok n' urexp' -> (forall r, set_ok n' (rexp_get r rexp')) ->
  synced (src_chans 0 (y_docs y) uexp') (g_user g') ->
  synced (src_roles (y_docs y) urexp') (g_uroles g') ->
  (forall r p, role_get r (g_roles g') = Some (p, false) -> synced (src_chans r (y_docs y) (rexp_get r rexp')) p) ->
  wf (mkSys n' (y_nrev y) (y_docs y) uexp' urexp' useq' rexp' g').
Proof.
  intros Hw Hn Hu Hd Hg He Hr Hre S1 S2 S3. pose proof (wf_clock y Hw).
  constructor; cbn [y_next y_useq y_docs y_g y_uexp y_urexp y_rexp]; auto.
  - lia.
  - apply (wf_ids y Hw).
  - apply (wf_disj y Hw).
Qed.

Lemma wf_create_role y r set0 :
  wf y -> r <> 0 -> nz set0 = true -> (forall p, role_get r (g_roles (y_g y)) <> Some (p, false)) ->
  wf (mkSys (y_next y + 1) (y_nrev y) (y_docs y) (y_uexp y) (y_urexp y) (y_useq y)
            (rexp_put r (update_at_seq [] (sorted_set set0) (y_next y)) (y_rexp y))
            (run (y_g y) (CreateRole r (computed_chans r (y_docs y) [])
                          :: match sorted_set set0 with [] => [] | _ => [InvalRole r (y_next y)] end))).
Proof.
  intros Hw Hr Hnz Hnl.
  pose proof (wf_clock y Hw) as Hc. pose proof (wf_useq y Hw) as Hu.
  assert (0 < y_next y) as Hn by lia.
  set (nw := computed_chans r (y_docs y) []).
  assert (set_ok (y_next y) nw) as Hnw.
  { apply set_ok_computed_chans; [lia | apply set_ok_nil |].
    intros x Hx c s Hin. apply (dw_acc _ _ _ (wf_docs y Hw x Hx) r c s Hin). }
  set (g1 := step (y_g y) (CreateRole r nw)).
  assert (gwf (y_next y) g1) as Hg1.
  { apply (step_gwf (y_next y) (y_next y)); auto; [apply (wf_g y Hw) | cbn [gop_ok]; split; [exact Hnw | split; [lia | exact Hr]] | exact I]. }
  assert (forall r', role_get r' (g_roles g1) =
            if r' =? r then Some (mkPrinc nw 0 (match role_get r (g_roles (y_g y)) with Some (p, _) => p_hist p | None => [] end), false)
            else role_get r' (g_roles (y_g y))) as Hget1 by (intros r'; apply step_create_role_get; exact Hnl).
  assert (computes (src_chans r (y_docs y) []) nw) as Hcomp.
  { apply computes_chans; [apply wf_docs_pos; exact Hw | intros c s []]. }
  cbn [run fold_left]. fold g1.
  apply wf_admin_frame; auto; try lia.
  - intros x Hx. apply (doc_wf_mono (y_next y)); [lia | apply (wf_docs y Hw); exact Hx].
  - destruct (sorted_set set0); cbn [fold_left].
    + apply (gwf_mono (y_next y)); [lia | exact Hg1].
    + apply (step_gwf (y_next y) (y_next y + 1)); auto; [cbn [gop_ok]; repeat split; auto; lia | exact I].
  - eapply set_ok_mono; [| apply (wf_uexp y Hw)]; lia.
  - eapply roles_ok_mono; [| apply (wf_urexp y Hw)]; lia.
  - intros r'. rewrite rexp_get_put. destruct (r' =? r).
    + apply set_ok_update_at_seq; auto. apply set_ok_nil.
    + eapply set_ok_mono; [| apply (wf_rexp y Hw)]; lia.
  - replace (g_user (fold_left step match sorted_set set0 with [] => [] | _ :: _ => [InvalRole r (y_next y)] end g1)) with (g_user (y_g y)).
    + apply (wf_sync_u y Hw).
    + destruct (sorted_set set0); cbn [fold_left step g_user]; subst g1; cbn [step];
        destruct (role_get r (g_roles (y_g y))) as [[? [|]]|]; reflexivity.
  - replace (g_uroles (fold_left step match sorted_set set0 with [] => [] | _ :: _ => [InvalRole r (y_next y)] end g1)) with (g_uroles (y_g y)).
    + apply (wf_sync_ur y Hw).
    + destruct (sorted_set set0); cbn [fold_left step g_uroles]; subst g1; cbn [step];
        destruct (role_get r (g_roles (y_g y))) as [[? [|]]|]; reflexivity.
  - intros r' p Hget. rewrite rexp_get_put.
    destruct (sorted_set set0) as [|c0 l0] eqn:Es; cbn [fold_left] in Hget.
    + rewrite Hget1 in Hget. destruct (r' =? r) eqn:Er.
      * apply N.eqb_eq in Er; subst r'. inversion Hget; subst. cbn [update_at_seq filter map app]. apply synced_fresh; exact Hcomp.
      * apply (wf_sync_r y Hw); exact Hget.
    + rewrite step_inval_role_get, Hget1 in Hget. destruct (r' =? r) eqn:Er.
      * apply N.eqb_eq in Er; subst r'. cbn [option_map inval_role] in Hget. inversion Hget; subst.
        apply (synced_invalidate (src_chans r (y_docs y) [])); [lia | apply synced_fresh; exact Hcomp].
      * apply (wf_sync_r y Hw); exact Hget.
Qed.

Theorem wf_step y o : wf y -> step_ok y o -> wf (sys_step y o).
Proof.
  intros Hw (Hnames & Hnm & Hun).
  pose proof (wf_clock y Hw) as Hc. pose proof (wf_useq y Hw) as Hu.
  assert (0 < y_next y) as Hn by lia.
  destruct o as [d chans acc rol|d|set0|set0|r set0|r|limit]; cbn [op_names_ok] in Hnames; cbn [sys_gops] in Hun.
  - (* SPut *)
    apply andb_true_iff in Hnames as [Hn1 Hn3]. apply andb_true_iff in Hn1 as [Hn1 Hn2].
    cbn [sys_step sys_gops]. apply wf_write_doc; auto; [discriminate | apply nomerge_doc_old; exact Hnm].
  - (* SDel *)
    cbn [sys_step sys_gops]. destruct (doc_get d (y_docs y)) as [x|]; auto. destruct (sd_live x); auto.
    apply wf_write_doc; auto. apply nomerge_doc_old; exact Hnm.
  - (* SUChans *)
    cbn [sys_step sys_gops]. apply unpruned_app in Hun as [Hun1 Hun2].
    pose proof (wf_load_user y Hw Hun1) as Hw1.
    destruct (same_keys (y_uexp y) (sorted_set set0)) eqn:E.
    + rewrite app_nil_r. exact Hw1.
    + rewrite run_app. cbn [run fold_left].
      set (g1 := run (y_g y) (gops_load_user y)) in *.
      apply wf_admin_frame; auto; try lia.
      * intros x Hx. apply (doc_wf_useq _ (y_useq y)); [lia | apply (wf_docs y Hw); exact Hx].
      * apply (step_gwf (y_next y) (y_next y + 1)); auto; [apply (wf_g _ Hw1) | cbn [gop_ok]; lia | exact I].
      * apply set_ok_update_at_seq; auto. apply (wf_uexp y Hw).
      * eapply roles_ok_mono; [| apply (wf_urexp y Hw)]; lia.
      * intros r. eapply set_ok_mono; [| apply (wf_rexp y Hw)]; lia.
      * cbn [step g_user]. apply (synced_invalidate (src_chans 0 (y_docs y) (y_uexp y))); [lia | apply (wf_sync_u _ Hw1)].
      * cbn [step g_uroles]. apply (wf_sync_ur _ Hw1).
      * cbn [step g_roles]. apply (wf_sync_r _ Hw1).
  - (* SURoles *)
    cbn [sys_step sys_gops]. apply unpruned_app in Hun as [Hun1 Hun2].
    pose proof (wf_load_user y Hw Hun1) as Hw1.
    destruct (same_keys (y_urexp y) (sorted_set set0)) eqn:E.
    + rewrite app_nil_r. exact Hw1.
    + rewrite run_app. cbn [run fold_left].
      set (g1 := run (y_g y) (gops_load_user y)) in *.
      apply wf_admin_frame; auto; try lia.
      * intros x Hx. apply (doc_wf_useq _ (y_useq y)); [lia | apply (wf_docs y Hw); exact Hx].
      * apply (step_gwf (y_next y) (y_next y + 1)); auto; [apply (wf_g _ Hw1) | cbn [gop_ok]; lia | exact I].
      * eapply set_ok_mono; [| apply (wf_uexp y Hw)]; lia.
      * apply roles_ok_update_at_seq; auto. apply (wf_urexp y Hw).
      * intros r. eapply set_ok_mono; [| apply (wf_rexp y Hw)]; lia.
      * cbn [step g_user]. apply (wf_sync_u _ Hw1).
      * cbn [step g_uroles]. apply (synced_invalidate (src_roles (y_docs y) (y_urexp y))); [lia | apply (wf_sync_ur _ Hw1)].
      * cbn [step g_roles]. apply (wf_sync_r _ Hw1).
  - (* SRChans *)
    apply andb_true_iff in Hnames as [Hr Hnz]. apply negb_true_iff, N.eqb_neq in Hr.
    cbn [sys_step sys_gops].
    destruct (role_get r (g_roles (y_g y))) as [[p0 [|]]|] eqn:E0.
    + (* deleted: re-created *)
      apply wf_create_role; auto. intros p Hp; rewrite E0 in Hp; discriminate.
    + (* live *)
      apply unpruned_app in Hun as [Hun1 Hun2].
      pose proof (wf_load_role y r Hw Hr Hun1) as Hw1.
      destruct (same_keys (rexp_get r (y_rexp y)) (sorted_set set0)) eqn:E.
      * rewrite app_nil_r. exact Hw1.
      * rewrite run_app. cbn [run fold_left].
        set (g1 := run (y_g y) (gops_load_role r y)) in *.
        apply wf_admin_frame; auto; try lia.
        -- intros x Hx. apply (doc_wf_mono (y_next y)); [lia | apply (wf_docs y Hw); exact Hx].
        -- apply (step_gwf (y_next y) (y_next y + 1)); auto; [apply (wf_g _ Hw1) | cbn [gop_ok]; repeat split; auto; lia | exact I].
        -- eapply set_ok_mono; [| apply (wf_uexp y Hw)]; lia.
        -- eapply roles_ok_mono; [| apply (wf_urexp y Hw)]; lia.
        -- intros r'. rewrite rexp_get_put. destruct (r' =? r).
           ++ apply set_ok_update_at_seq; auto. apply (wf_rexp y Hw).
           ++ eapply set_ok_mono; [| apply (wf_rexp y Hw)]; lia.
        -- cbn [step g_user]. apply (wf_sync_u _ Hw1).
        -- cbn [step g_uroles]. apply (wf_sync_ur _ Hw1).
        -- intros r' p Hget. rewrite step_inval_role_get in Hget. rewrite rexp_get_put. destruct (r' =? r) eqn:Er.
           ++ apply N.eqb_eq in Er; subst r'. destruct (role_get r (g_roles g1)) as [[p1 d1]|] eqn:E1; [| discriminate].
              cbn [option_map inval_role] in Hget. destruct d1; inversion Hget; subst.
              apply (synced_invalidate (src_chans r (y_docs y) (rexp_get r (y_rexp y)))); [lia | apply (wf_sync_r _ Hw1); exact E1].
           ++ apply (wf_sync_r _ Hw1); exact Hget.
    + (* missing: created *)
      apply wf_create_role; auto. intros p Hp; rewrite E0 in Hp; discriminate.
  - (* SDelRole *)
    apply negb_true_iff, N.eqb_neq in Hnames. cbn [sys_step sys_gops].
    destruct (role_get r (g_roles (y_g y))) as [[p0 [|]]|] eqn:E0; auto.
    apply unpruned_app in Hun as [Hun1 Hun2].
    pose proof (wf_load_role y r Hw Hnames Hun1) as Hw1.
    rewrite run_app. cbn [run fold_left].
    set (g1 := run (y_g y) (gops_load_role r y)) in *. cbn [unpruned] in Hun2. destruct Hun2 as [Hun2 _].
    apply wf_admin_frame; auto; try lia.
    + intros x Hx. apply (doc_wf_mono (y_next y)); [lia | apply (wf_docs y Hw); exact Hx].
    + apply (step_gwf (y_next y) (y_next y + 1)); auto; [apply (wf_g _ Hw1) | cbn [gop_ok]; repeat split; auto; lia].
    + eapply set_ok_mono; [| apply (wf_uexp y Hw)]; lia.
    + eapply roles_ok_mono; [| apply (wf_urexp y Hw)]; lia.
    + intros r'. eapply set_ok_mono; [| apply (wf_rexp y Hw)]; lia.
    + cbn [step g_user]. apply (wf_sync_u _ Hw1).
    + cbn [step g_uroles]. apply (wf_sync_ur _ Hw1).
    + intros r' p Hget. rewrite step_delete_role_get in Hget. destruct (r' =? r) eqn:Er.
      * apply N.eqb_eq in Er; subst r'. destruct (role_get r (g_roles g1)) as [[p1 d1]|] eqn:E1; [| discriminate].
        cbn [option_map] in Hget. destruct (d1 || negb (p_inval p1 =? 0)) eqn:Ed; inversion Hget; subst.
        apply (wf_sync_r _ Hw1); exact E1.
      * apply (wf_sync_r _ Hw1); exact Hget.
  - (* SPull *)
    cbn [sys_step sys_gops]. apply (wf_load_all y Hw Hun).
Qed.
