(* C13: the end-to-end statement is REFUTED by the faithful model of the unchanged code (and the same histories fail
   on the real database: monitor client_matches_visible, signatures stale-doc/backfill-skips-removal and
   visible-doc-missing/revocation-token-skips-rows).  Witnesses evaluated on the whole-system model Sys.v, which the
   correspondence ties to the real database (operations in, snapshot and rows of every pull out). *)
From SG Require Import Base.Prelude C20.SeqIdGen C20.SeqId
  C13.Revocation C13.Feed C13.Client C13.GrantSys C13.Sys C13.Hyps C13.HypsB.
Open Scope N_scope.

(* (1) loss and re-grant of channel A (2) with a document moved out of A in between: the re-granted channel is
   back-filled, back-fills drop removals, A is accessible again so nothing is revoked -- the client keeps d1 *)
Definition ops_backfill_skips_removal : list sop :=
  [SUChans [2]; SPut 1 [2] [] []; SPull 0; SUChans []; SPut 1 [3] [] []; SUChans [2]; SPull 0].

Lemma backfill_skips_removal_trace :
  map (fun o => (o_rows o, o_client o, o_caught o, o_visible o)) (trace ops_backfill_skips_removal) =
  [ ([mkRow 0 2 0 0 [] false false false true; mkRow 0 3 1 1 [] false false false false], [(1, 1)], true, [1]);
    ([mkRow 0 6 0 0 [] false false false true], [(1, 1)], true, []) ].
Proof. vm_compute. reflexivity. Qed.

(* (2) a page that ends with a revocation row whose document sequence (6) is above the revocation sequence (4): the
   row is ordered before the plain sequences 4 and 5 but its token is printed "6", so the client resumes after 6 and
   never receives the user row 4 nor document d2 written at 5 *)
Definition ops_revocation_token_skips_rows : list sop :=
  [SUChans [2; 5]; SPut 1 [5] [] []; SPull 0; SUChans [2]; SPut 2 [2] [] []; SPut 1 [5] [] []; SPull 1; SPull 0].

Lemma revocation_token_skips_rows_trace :
  map (fun o => (o_rows o, o_client o, o_caught o, o_visible o)) (trace ops_revocation_token_skips_rows) =
  [ ([mkRow 0 2 0 0 [] false false false true; mkRow 0 3 1 1 [] false false false false], [(1, 1)], true, [1]);
    ([mkRow 4 6 1 3 [] false true false false], [], false, [2]);
    ([], [], true, [2]) ].
Proof. vm_compute. reflexivity. Qed.

Theorem C13_client_matches_visible_refuted : ~ client_matches_visible_full_statement.
Proof.
  intros H.
  specialize (H ops_backfill_skips_removal (nth 1 (trace ops_backfill_skips_removal) (mkObs (mkSnap 0 (mkUser 0 [] [] [] []) [] [] []) [] [] false []))).
  vm_compute in H. specialize (H (or_intror (or_introl eq_refl)) eq_refl). discriminate.
Qed.
Print Assumptions C13_client_matches_visible_refuted.

(* the second defect alone also refutes it *)
Theorem C13_client_matches_visible_refuted_by_paging : 
  exists o, In o (trace ops_revocation_token_skips_rows) /\ o_caught o = true
            /\ same_docs (o_client o) (o_visible o) = false.
Proof.
  exists (nth 2 (trace ops_revocation_token_skips_rows) (mkObs (mkSnap 0 (mkUser 0 [] [] [] []) [] [] []) [] [] false [])).
  vm_compute. split; [right; right; left; reflexivity | split; reflexivity].
Qed.
Print Assumptions C13_client_matches_visible_refuted_by_paging.

(* (3) REPAIRED by /repo commit 7044a86 ("fix: include deleted roles when computing the periods a user was granted a
   channel"; found by this check, signature stale-doc/deleted-role-periods-missing).  Before the repair
   CollectionChannelGrantedPeriods ignored a deleted role that is still listed among the user's roles: channel A (2),
   held only through role r1 (granted at 3, deleted at 6), had no access period at all, so a document of A changed after
   the client's position (4) was not recognised as having been in the channel and no revocation row was built. *)
Example deleted_role_periods_missing_before_repair :
  let u := mkUser 3 [(1, 1)] [] [(1, 3)] [] in
  let roles := [mkRole 1 true [] [(1, [(1, 6)]); (2, [(2, 6)])]] in
  let doc_history := [(2, 4, 0)] in
  granted_periods_unrepaired u roles 2 = []
  /\ was_in_channel doc_history (granted_periods_unrepaired u roles 2) 2 4 = false
  /\ granted_periods u roles 2 = [(3, 6)]
  /\ was_in_channel doc_history (granted_periods u roles 2) 2 4 = true
  /\ revoked_channels u roles 4 0 0 = [(2, 6)].
Proof. vm_compute. repeat split; reflexivity. Qed.

(* (4) known finding visible-doc-missing/role-created-after-grant, now with a model-level witness (sync-function grants are
   part of Sys.v): document d3 grants channel A (2) to role r1; r1 is deleted and re-created; the re-created role gets A
   from the access view stamped with d3's sequence (4), at or below the client's position: nothing is back-filled, the
   client never receives d1 again *)
Definition ops_role_created_after_grant : list sop :=
  [SRChans 1 []; SURoles [1]; SPut 3 [] [(1, [2])] []; SPut 1 [2] [] []; SPull 0; SDelRole 1; SPull 0; SRChans 1 []; SPull 0].

Lemma role_created_after_grant_trace :
  map (fun o => (o_rows o, o_client o, o_caught o, o_visible o)) (trace ops_role_created_after_grant) =
  [ ([mkRow 0 3 0 0 [] false false false true; mkRow 0 5 1 2 [] false false false false], [(1, 2)], true, [1]);
    ([mkRow 6 5 1 2 [] false true false false], [], true, []);
    ([], [], true, [1]) ].
Proof. vm_compute. reflexivity. Qed.

(* (5) finding stale-doc/restamped-grant-loses-period (found by the proof of C13_client_matches_visible_partial; reproduced
   on the real database): channel A (2) reaches the user from a granting document d2 (stamped 3) and from an explicit
   grant (stamped 5); when d2 stops granting, the rebuild keeps A but re-stamps it 5 and calculateHistory records nothing
   for a kept grant; after A is lost the history says [5,7), which does not contain the client's position 3, so the
   removal entry of d1 (which left A at 4) is not recognised as "was in the channel while the user had it" *)
Definition ops_restamped_grant_loses_period : list sop :=
  [SPut 1 [2] [] []; SPut 2 [3] [(0, [2])] []; SPull 0; SPut 1 [3] [] []; SUChans [2]; SPut 2 [3] [] []; SUChans []; SPull 0].

Lemma restamped_grant_loses_period_trace :
  map (fun o => (o_rows o, o_client o, o_caught o, o_visible o)) (trace ops_restamped_grant_loses_period) =
  [ ([mkRow 0 1 0 0 [] false false false true; mkRow 3 2 1 1 [] false false false false], [(1, 1)], true, [1]);
    ([mkRow 0 7 0 0 [] false false false true], [(1, 1)], true, []) ].
Proof. vm_compute. reflexivity. Qed.

(* ---- every defect-excluding hypothesis of C13_client_matches_visible_partial is needed: a history that satisfies all
   the others and violates the conclusion ---- *)
Definition violates (ops : list sop) : Prop :=
  exists o, In o (trace ops) /\ o_caught o = true /\ same_docs (o_client o) (o_visible o) = false.

Ltac violated n ops :=
  exists (nth n (trace ops) (mkObs (mkSnap 0 (mkUser 0 [] [] [] []) [] [] []) [] [] false []));
  vm_compute; split; [repeat (try (left; reflexivity); right) | split; reflexivity].

(* (1) without no_refill: stale-doc/backfill-skips-removal *)
Theorem C13_partial_needs_no_refill :
  history_hyps_sel true true true false ops_backfill_skips_removal /\ violates ops_backfill_skips_removal.
Proof. split; [apply history_hyps_b_ok; vm_compute; reflexivity | violated 1%nat ops_backfill_skips_removal]. Qed.
Print Assumptions C13_partial_needs_no_refill.

(* (2) without un-limited pulls: */revocation-token-skips-rows *)
Theorem C13_partial_needs_unlimited :
  history_hyps_sel false true true true ops_revocation_token_skips_rows /\ violates ops_revocation_token_skips_rows.
Proof. split; [apply history_hyps_b_ok; vm_compute; reflexivity | violated 2%nat ops_revocation_token_skips_rows]. Qed.
Print Assumptions C13_partial_needs_unlimited.

(* (4) without no_stale_role: visible-doc-missing/role-created-after-grant *)
Theorem C13_partial_needs_no_stale_role :
  history_hyps_sel true false true true ops_role_created_after_grant /\ violates ops_role_created_after_grant.
Proof. split; [apply history_hyps_b_ok; vm_compute; reflexivity | violated 2%nat ops_role_created_after_grant]. Qed.
Print Assumptions C13_partial_needs_no_stale_role.

(* (5) without no_restamp: stale-doc/restamped-grant-loses-period *)
Theorem C13_partial_needs_no_restamp :
  history_hyps_sel true true false true ops_restamped_grant_loses_period /\ violates ops_restamped_grant_loses_period.
Proof. split; [apply history_hyps_b_ok; vm_compute; reflexivity | violated 1%nat ops_restamped_grant_loses_period]. Qed.
Print Assumptions C13_partial_needs_no_restamp.

(* the same defect through the user's ROLE set (RebuildRoles): role r2 reaches the user from a role() grant of d2 (stamped 2)
   and from an admin grant (stamped 6); d2 is deleted, the rebuild keeps r2 but re-stamps it 6; when r2 loses channel A the
   period of A through r2 is [6,8), which does not contain the client's position 4 (found by the thorough tier's
   granted_periods_cover monitor; reproduced on the real database) *)
Definition ops_restamped_role_loses_period : list sop :=
  [SPut 2 [3] [] [2]; SRChans 2 [2]; SPut 1 [2] [] []; SPull 0; SPut 1 [3] [] []; SURoles [2]; SDel 2; SRChans 2 []; SPull 0].

Theorem C13_partial_needs_no_restamp_roles :
  history_hyps_sel true true false true ops_restamped_role_loses_period /\ violates ops_restamped_role_loses_period.
Proof. split; [apply history_hyps_b_ok; vm_compute; reflexivity | violated 1%nat ops_restamped_role_loses_period]. Qed.
Print Assumptions C13_partial_needs_no_restamp_roles.

(* (6) finding recreated-role-history-lost/named-collection (reproduced on the code before /repo commit 3cadf88, which
   repaired it, with the database serving a named collection; trace_named_old is that code, trace_named the repaired one): a role the user keeps holding is soft-deleted and created again through the admin path
   (db.UpdatePrincipal -> auth.NewRoleNoChannels) between two pulls.  The constructor carries over only the DEFAULT
   collection's channel history of the deleted role, so in a named collection the re-created role has forgotten that it
   granted channel A (2) until sequence 5: RevokedCollectionChannels reports nothing, no revocation row is built, the
   client keeps d1.  The history satisfies every hypothesis of C13_client_matches_visible_partial -- in the default
   collection (trace) the client is right, in the named-collection variant of the model (trace_named) it is not. *)
Definition ops_role_recreated_between_pulls : list sop :=
  [SRChans 1 [2]; SURoles [1]; SPut 1 [2] [] []; SPull 0; SDelRole 1; SRChans 1 []; SPull 0].

Theorem C13_named_collection_recreate_loses_revocation :
  history_hyps ops_role_recreated_between_pulls
  /\ map (fun o => (o_rows o, o_client o, o_visible o)) (trace ops_role_recreated_between_pulls)
     = [ ([mkRow 0 3 0 0 [] false false false true; mkRow 0 4 1 1 [] false false false false], [(1, 1)], [1]);
         ([mkRow 5 4 1 1 [] false true false false], [], []) ]
  /\ map (fun o => (o_rows o, o_client o, o_visible o)) (trace_named_old ops_role_recreated_between_pulls)
     = [ ([mkRow 0 3 0 0 [] false false false true; mkRow 0 4 1 1 [] false false false false], [(1, 1)], [1]);
         ([], [(1, 1)], []) ]
  /\ map (fun o => (o_rows o, o_client o, o_visible o)) (trace_named ops_role_recreated_between_pulls)
     = map (fun o => (o_rows o, o_client o, o_visible o)) (trace ops_role_recreated_between_pulls).
Proof.
  split; [apply history_hyps_all, history_hyps_b_ok; vm_compute; reflexivity | split; [|split]; vm_compute; reflexivity].
Qed.
Print Assumptions C13_named_collection_recreate_loses_revocation.

(* granted_periods_cover cannot be strengthened to "exactly": for a channel a current role holds the function returns
   one open period per channel of the role, stamped with THAT channel's sequence and not intersected with the time the
   role was held (auth/user.go: "for _, channelInfo := range currentRole.CollectionChannels(...)").  Role r1 ("!" at 1,
   A at 5) held since 7: the periods of A start at 1 and 5.  Harmless: the function is only consulted for revoked
   channels, and a revocation row is never built for a document the user can see (C13_no_revocation_for_visible). *)
Example granted_periods_over_approximate :
  granted_periods (mkUser 1 [(1, 1)] [] [(1, 7)] []) [mkRole 1 false [(1, 1); (2, 5)] []] 2 = [(1, max64); (5, max64)]
  /\ inherited (mkUser 1 [(1, 1)] [] [(1, 7)] []) [mkRole 1 false [(1, 1); (2, 5)] []] = [(1, 1); (2, 7)].
Proof. vm_compute. split; reflexivity. Qed.
