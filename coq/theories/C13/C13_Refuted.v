(* C13: the end-to-end statement is REFUTED by the faithful model of the unchanged code (and the same histories fail
   on the real database: monitor client_matches_visible, signatures stale-doc/backfill-skips-removal and
   visible-doc-missing/revocation-token-skips-rows).  Witnesses evaluated on the whole-system model Sys.v, which the
   correspondence ties to the real database (operations in, snapshot and rows of every pull out). *)
From SG Require Import Base.Prelude C20.SeqIdGen C20.SeqId
  C13.Revocation C13.Feed C13.Client C13.GrantSys C13.Sys.
Open Scope N_scope.

(* (1) loss and re-grant of channel A (2) with a document moved out of A in between: the re-granted channel is
   back-filled, back-fills drop removals, A is accessible again so nothing is revoked -- the client keeps d1 *)
Definition ops_backfill_skips_removal : list sop :=
  [SUChans [2]; SPut 1 [2] [] []; SPull 0; SUChans []; SPut 1 [3] [] []; SUChans [2]; SPull 0].

Lemma backfill_skips_removal_trace :
  map (fun o => (o_rows o, o_client o, o_caught o, o_visible o)) (trace ops_backfill_skips_removal) =
  [ ([mkRow 0 2 0 0 [] false false false true; mkRow 0 3 1 1 [] false false false false], [(1, 1)], true, [1]);
    ([mkRow 0 6 0 0 [] false false false true], [(1, 1)], true, []) ].
Proof. vm_compute. reflexivity. Qed.

(* (2) a page that ends with a revocation row whose document sequence (6) is above the revocation sequence (4): the
   row is ordered before the plain sequences 4 and 5 but its token is printed "6", so the client resumes after 6 and
   never receives the user row 4 nor document d2 written at 5 *)
Definition ops_revocation_token_skips_rows : list sop :=
  [SUChans [2; 5]; SPut 1 [5] [] []; SPull 0; SUChans [2]; SPut 2 [2] [] []; SPut 1 [5] [] []; SPull 1; SPull 0].

Lemma revocation_token_skips_rows_trace :
  map (fun o => (o_rows o, o_client o, o_caught o, o_visible o)) (trace ops_revocation_token_skips_rows) =
  [ ([mkRow 0 2 0 0 [] false false false true; mkRow 0 3 1 1 [] false false false false], [(1, 1)], true, [1]);
    ([mkRow 4 6 1 3 [] false true false false], [], false, [2]);
    ([], [], true, [2]) ].
Proof. vm_compute. reflexivity. Qed.

Theorem C13_client_matches_visible_refuted : ~ client_matches_visible_full_statement.
Proof.
  intros H.
  specialize (H ops_backfill_skips_removal (nth 1 (trace ops_backfill_skips_removal) (mkObs (mkSnap 0 (mkUser 0 [] [] [] []) [] [] []) [] [] false []))).
  vm_compute in H. specialize (H (or_intror (or_introl eq_refl)) eq_refl). discriminate.
Qed.
Print Assumptions C13_client_matches_visible_refuted.

(* the second defect alone also refutes it *)
Theorem C13_client_matches_visible_refuted_by_paging : 
  exists o, In o (trace ops_revocation_token_skips_rows) /\ o_caught o = true
            /\ same_docs (o_client o) (o_visible o) = false.
Proof.
  exists (nth 2 (trace ops_revocation_token_skips_rows) (mkObs (mkSnap 0 (mkUser 0 [] [] [] []) [] [] []) [] [] false [])).
  vm_compute. split; [right; right; left; reflexivity | split; reflexivity].
Qed.
Print Assumptions C13_client_matches_visible_refuted_by_paging.

(* (3) REPAIRED by /repo commit 7044a86 ("fix: include deleted roles when computing the periods a user was granted a
   channel"; found by this check, signature stale-doc/deleted-role-periods-missing).  Before the repair
   CollectionChannelGrantedPeriods ignored a deleted role that is still listed among the user's roles: channel A (2),
   held only through role r1 (granted at 3, deleted at 6), had no access period at all, so a document of A changed after
   the client's position (4) was not recognised as having been in the channel and no revocation row was built. *)
Example deleted_role_periods_missing_before_repair :
  let u := mkUser 3 [(1, 1)] [] [(1, 3)] [] in
  let roles := [mkRole 1 true [] [(1, [(1, 6)]); (2, [(2, 6)])]] in
  let doc_history := [(2, 4, 0)] in
  granted_periods_unrepaired u roles 2 = []
  /\ was_in_channel doc_history (granted_periods_unrepaired u roles 2) 2 4 = false
  /\ granted_periods u roles 2 = [(3, 6)]
  /\ was_in_channel doc_history (granted_periods u roles 2) 2 4 = true
  /\ revoked_channels u roles 4 0 0 = [(2, 6)].
Proof. vm_compute. repeat split; reflexivity. Qed.
