(* C13 correspondence: observations of the real code (harness/db/verif_c13_test.go) re-evaluated on the model
   with vm_compute.  Go iterates maps in random order, so sets / association lists are compared as sets and
   period lists as sorted lists; the rows of a request are compared exactly, in order. *)
From SG Require Export Base.Prelude C20.SeqIdGen C20.SeqId C13.Revocation C13.Feed C13.Client C13.DocHist C13.GrantSys C13.Sys C13.FeedProofs C13.FeedComplete.
Open Scope N_scope.

Inductive case :=
| CCalc (inval : N) (lost new_ : tset) (before_ after : hist)
| CInherited (u : user_st) (roles : list role_st) (out : tset)
| CRevoked (u : user_st) (roles : list role_st) (since low trig : N) (out : tset)
| CPeriods (u : user_st) (roles : list role_st) (c : N) (out : list period)
| CWasIn (ents : list docent) (u : user_st) (roles : list role_st) (c since : N) (out : bool)
| CDocHist (active new_ : list N) (seq : N) (cs h cs' h' : list docent)
| CPull (snap : snapshot) (trig seq limit : N) (rows : list row)
| CClient (before_ : client) (rows : list row) (after : client)
| CInval (pre s post : N)
| CSys (ops : list sop) (obs : list (snapshot * list row))
| CSysN (ops : list sop) (obs : list (snapshot * list row))      (* the same in a named collection *)
| CRecreate (named : bool) (before_ after : hist).               (* channel history of a soft-deleted role / of the role created again *)

Definition pair_eqb (a b : N * N) : bool := (fst a =? fst b) && (snd a =? snd b).

Definition tset_sub (a b : tset) : bool :=
  forallb (fun '(c, s) => match tget c b with Some s' => s =? s' | None => false end) a.
Definition tset_equiv (a b : tset) : bool :=
  tset_sub a b && tset_sub b a && (Nat.eqb (length a) (length b)).

Definition hist_sub (a b : hist) : bool :=
  forallb (fun '(c, es) => list_eqb pair_eqb es (hget c b)) a.
Definition hist_equiv (a b : hist) : bool :=
  hist_sub a b && hist_sub b a && (Nat.eqb (length a) (length b)).

(* insertion sort of periods, lexicographic *)
Definition pair_leb (a b : N * N) : bool := (fst a <? fst b) || ((fst a =? fst b) && (snd a <=? snd b)).
Fixpoint pinsert (x : N * N) (l : list (N * N)) : list (N * N) :=
  match l with
  | [] => [x]
  | y :: r => if pair_leb x y then x :: l else y :: pinsert x r
  end.
Definition psort (l : list (N * N)) : list (N * N) := fold_right pinsert [] l.

Definition docent_eqb (a b : docent) : bool :=
  let '(n, s, e) := a in let '(n', s', e') := b in (n =? n') && (s =? s') && (e =? e').
Definition docent_leb (a b : docent) : bool :=
  let '(n, s, e) := a in let '(n', s', e') := b in
  (n <? n') || ((n =? n') && ((s <? s') || ((s =? s') && (e <=? e')))).
Fixpoint dinsert (x : docent) (l : list docent) : list docent :=
  match l with
  | [] => [x]
  | y :: r => if docent_leb x y then x :: l else y :: dinsert x r
  end.
Definition dsort (l : list docent) : list docent := fold_right dinsert [] l.

Definition row_eqb (a b : row) : bool :=
  (w_trig a =? w_trig b) && (w_seq a =? w_seq b) && (w_doc a =? w_doc b) && (w_rev a =? w_rev b)
  && list_eqb N.eqb (w_removed a) (w_removed b)
  && Bool.eqb (w_deleted a) (w_deleted b) && Bool.eqb (w_revoked a) (w_revoked b)
  && Bool.eqb (w_allremoved a) (w_allremoved b) && Bool.eqb (w_principal a) (w_principal b).

(* snapshots up to the order of association lists *)
Definition role_eqb (a b : role_st) : bool :=
  (r_id a =? r_id b) && Bool.eqb (r_deleted a) (r_deleted b) && tset_equiv (r_chans a) (r_chans b) && hist_equiv (r_hist a) (r_hist b).
Definition roles_equiv (a b : list role_st) : bool :=
  Nat.eqb (length a) (length b)
  && forallb (fun x => match find_role (r_id x) b with Some y => role_eqb x y | None => false end) a.
Definition user_eqb (a b : user_st) : bool :=
  (u_seq a =? u_seq b) && tset_equiv (u_chans a) (u_chans b) && hist_equiv (u_hist a) (u_hist b)
  && tset_equiv (u_roles a) (u_roles b) && hist_equiv (u_role_hist a) (u_role_hist b).
Definition log_eqb (a b : logentry) : bool :=
  (le_seq a =? le_seq b) && (le_doc a =? le_doc b) && (le_rev a =? le_rev b)
  && Bool.eqb (le_removed a) (le_removed b) && Bool.eqb (le_deleted a) (le_deleted b).
Definition doc_eqb (a b : docinfo) : bool :=
  (d_id a =? d_id b) && list_eqb docent_eqb (dsort (d_hist a)) (dsort (d_hist b))
  && option_eqb (list_eqb N.eqb) (d_active a) (d_active b).
Definition snap_equiv (a b : snapshot) : bool :=
  (s_cached a =? s_cached b) && user_eqb (s_user a) (s_user b) && roles_equiv (s_roles a) (s_roles b)
  && list_eqb (fun x y => (fst x =? fst y) && list_eqb log_eqb (snd x) (snd y)) (s_logs a) (s_logs b)
  && list_eqb doc_eqb (s_docs a) (s_docs b).

Definition check (c : case) : bool :=
  match c with
  | CCalc inval lost new_ h out => hist_equiv (calc_history inval lost new_ h) out
  | CInherited u roles out => tset_equiv (inherited u roles) out
  | CRevoked u roles since low trig out => tset_equiv (revoked_channels u roles since low trig) out
  | CPeriods u roles c out => list_eqb pair_eqb (psort (granted_periods u roles c)) out
  | CWasIn ents u roles c since out => Bool.eqb (was_in_channel ents (granted_periods u roles c) c since) out
  | CDocHist active new_ seq cs h cs' h' =>
      let '(mcs, mh) := update_channels active new_ seq (cs, h) in
      list_eqb docent_eqb (dsort mcs) (dsort cs') && list_eqb docent_eqb (dsort mh) (dsort h')
  (* the rows, and the hypothesis of the delivery theorems: rows with the same token describe the same revision *)
  | CPull snap trig seq limit rows =>
      list_eqb row_eqb (pull snap (mk trig 0 seq) limit) rows && feeds_consistent_b (feeds snap (mk trig 0 seq))
  | CClient c0 rows c1 => list_eqb pair_eqb (apply_rows c0 rows) c1
  (* a write at sequence s either leaves the principal alone or invalidates it; the first invalidation sticks *)
  | CSys ops obs =>
      list_eqb (fun x y => snap_equiv (fst x) (fst y) && list_eqb row_eqb (snd x) (snd y))
               (map (fun o => (o_snap o, o_rows o)) (trace ops)) obs
  | CSysN ops obs =>
      list_eqb (fun x y => snap_equiv (fst x) (fst y) && list_eqb row_eqb (snd x) (snd y))
               (map (fun o => (o_snap o, o_rows o)) (trace_named ops)) obs
  (* CreateRole over a deleted role keeps its history (step: mkPrinc new_ 0 (p_hist p)); in a named collection it is dropped *)
  | CRecreate named h h' => if named && named_recreate_drops_history then hist_equiv h' [] else hist_equiv h' h
  | CInval pre s post => (post =? pre) || (post =? p_inval (invalidate s (mkPrinc [] pre [])))
  end.

Definition mismatches (cs : list case) : list N := failing check cs.
