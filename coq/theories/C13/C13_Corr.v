(* C13 correspondence: observations of the real code (harness/db/verif_c13_test.go) re-evaluated on the model
   with vm_compute.  Go iterates maps in random order, so sets / association lists are compared as sets and
   period lists as sorted lists; the rows of a request are compared exactly, in order. *)
From SG Require Export Base.Prelude C20.SeqIdGen C20.SeqId C13.Revocation C13.Feed C13.Client C13.DocHist.
Open Scope N_scope.

Inductive case :=
| CCalc (inval : N) (lost new_ : tset) (before_ after : hist)
| CInherited (u : user_st) (roles : list role_st) (out : tset)
| CRevoked (u : user_st) (roles : list role_st) (since low trig : N) (out : tset)
| CPeriods (u : user_st) (roles : list role_st) (c : N) (out : list period)
| CWasIn (ents : list docent) (u : user_st) (roles : list role_st) (c since : N) (out : bool)
| CDocHist (active new_ : list N) (seq : N) (cs h cs' h' : list docent)
| CPull (snap : snapshot) (trig seq limit : N) (rows : list row)
| CClient (before_ : client) (rows : list row) (after : client).

Definition pair_eqb (a b : N * N) : bool := (fst a =? fst b) && (snd a =? snd b).

Definition tset_sub (a b : tset) : bool :=
  forallb (fun '(c, s) => match tget c b with Some s' => s =? s' | None => false end) a.
Definition tset_equiv (a b : tset) : bool :=
  tset_sub a b && tset_sub b a && (Nat.eqb (length a) (length b)).

Definition hist_sub (a b : hist) : bool :=
  forallb (fun '(c, es) => list_eqb pair_eqb es (hget c b)) a.
Definition hist_equiv (a b : hist) : bool :=
  hist_sub a b && hist_sub b a && (Nat.eqb (length a) (length b)).

(* insertion sort of periods, lexicographic *)
Definition pair_leb (a b : N * N) : bool := (fst a <? fst b) || ((fst a =? fst b) && (snd a <=? snd b)).
Fixpoint pinsert (x : N * N) (l : list (N * N)) : list (N * N) :=
  match l with
  | [] => [x]
  | y :: r => if pair_leb x y then x :: l else y :: pinsert x r
  end.
Definition psort (l : list (N * N)) : list (N * N) := fold_right pinsert [] l.

Definition docent_eqb (a b : docent) : bool :=
  let '(n, s, e) := a in let '(n', s', e') := b in (n =? n') && (s =? s') && (e =? e').
Definition docent_leb (a b : docent) : bool :=
  let '(n, s, e) := a in let '(n', s', e') := b in
  (n <? n') || ((n =? n') && ((s <? s') || ((s =? s') && (e <=? e')))).
Fixpoint dinsert (x : docent) (l : list docent) : list docent :=
  match l with
  | [] => [x]
  | y :: r => if docent_leb x y then x :: l else y :: dinsert x r
  end.
Definition dsort (l : list docent) : list docent := fold_right dinsert [] l.

Definition row_eqb (a b : row) : bool :=
  (w_trig a =? w_trig b) && (w_seq a =? w_seq b) && (w_doc a =? w_doc b) && (w_rev a =? w_rev b)
  && list_eqb N.eqb (w_removed a) (w_removed b)
  && Bool.eqb (w_deleted a) (w_deleted b) && Bool.eqb (w_revoked a) (w_revoked b)
  && Bool.eqb (w_allremoved a) (w_allremoved b) && Bool.eqb (w_principal a) (w_principal b).

Definition check (c : case) : bool :=
  match c with
  | CCalc inval lost new_ h out => hist_equiv (calc_history inval lost new_ h) out
  | CInherited u roles out => tset_equiv (inherited u roles) out
  | CRevoked u roles since low trig out => tset_equiv (revoked_channels u roles since low trig) out
  | CPeriods u roles c out => list_eqb pair_eqb (psort (granted_periods u roles c)) out
  | CWasIn ents u roles c since out => Bool.eqb (was_in_channel ents (granted_periods u roles c) c since) out
  | CDocHist active new_ seq cs h cs' h' =>
      let '(mcs, mh) := update_channels active new_ seq (cs, h) in
      list_eqb docent_eqb (dsort mcs) (dsort cs') && list_eqb docent_eqb (dsort mh) (dsort h')
  | CPull snap trig seq limit rows => list_eqb row_eqb (pull snap (mk trig 0 seq) limit) rows
  | CClient c0 rows c1 => list_eqb pair_eqb (apply_rows c0 rows) c1
  end.

Definition mismatches (cs : list case) : list N := failing check cs.
