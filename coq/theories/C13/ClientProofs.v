(* C13: the protocol-following client (Client.v).  What the client holds for a document after a list of rows is
   decided by the LAST row about that document (client_last_row_wins); hence applying a row, or a whole
   response, twice is the same as applying it once (client_apply_idempotent) -- a response that is re-sent after an
   interrupted request does no harm. *)
From SG Require Import Base.Prelude C20.SeqIdGen C20.SeqId C13.Revocation C13.Feed C13.Client.
Open Scope N_scope.

Lemma c_get_remove_same d c : c_get d (c_remove d c) = None.
Proof.
  induction c as [|[k v] r IH]; cbn [c_remove c_get]; auto.
  destruct (k =? d) eqn:E; auto. cbn [c_get]; rewrite E; exact IH.
Qed.

Lemma c_get_remove_other d d' c : d' <> d -> c_get d' (c_remove d c) = c_get d' c.
Proof.
  intros Hne; induction c as [|[k v] r IH]; cbn [c_remove c_get]; auto.
  destruct (k =? d) eqn:E.
  - apply N.eqb_eq in E; subst k. destruct (d =? d') eqn:E2; [apply N.eqb_eq in E2; congruence | exact IH].
  - cbn [c_get]. destruct (k =? d'); auto.
Qed.

Lemma c_get_insert_same d v c : c_get d (c_insert d v c) = Some v.
Proof.
  induction c as [|[k w] r IH]; cbn [c_insert c_get].
  - rewrite N.eqb_refl; reflexivity.
  - destruct (d <? k) eqn:E1; cbn [c_get].
    + rewrite N.eqb_refl; reflexivity.
    + destruct (d =? k) eqn:E2; cbn [c_get].
      * rewrite N.eqb_refl; reflexivity.
      * rewrite N.eqb_sym, E2; exact IH.
Qed.

Lemma c_get_insert_other d d' v c : d' <> d -> c_get d' (c_insert d v c) = c_get d' c.
Proof.
  intros Hne; induction c as [|[k w] r IH]; cbn [c_insert c_get].
  - destruct (d =? d') eqn:E; [apply N.eqb_eq in E; congruence | reflexivity].
  - destruct (d <? k) eqn:E1; cbn [c_get].
    + destruct (d =? d') eqn:E; [apply N.eqb_eq in E; congruence | reflexivity].
    + destruct (d =? k) eqn:E2; cbn [c_get].
      * apply N.eqb_eq in E2; subst k.
        destruct (d =? d') eqn:E; [apply N.eqb_eq in E; congruence | reflexivity].
      * destruct (k =? d'); auto.
Qed.

(* the effect of one row on one document *)
Definition row_effect (r : row) (d : N) (old : option N) : option N :=
  if w_principal r then old
  else if w_doc r =? d then (if purges r then None else Some (w_rev r))
  else old.

Lemma c_get_apply_row c r d : c_get d (apply_row c r) = row_effect r d (c_get d c).
Proof.
  unfold apply_row, row_effect. destruct (w_principal r); auto.
  destruct (w_doc r =? d) eqn:E.
  - apply N.eqb_eq in E; subst d. destruct (purges r).
    + apply c_get_remove_same.
    + apply c_get_insert_same.
  - apply N.eqb_neq in E. destruct (purges r).
    + apply c_get_remove_other; congruence.
    + rewrite c_get_insert_other by congruence. apply c_get_remove_other; congruence.
Qed.

Lemma c_get_apply_rows rows : forall c d,
  c_get d (apply_rows c rows) = fold_left (fun o r => row_effect r d o) rows (c_get d c).
Proof.
  unfold apply_rows; induction rows as [|r rows IH]; intros c d; cbn [fold_left]; auto.
  rewrite IH, c_get_apply_row; reflexivity.
Qed.

(* the last row about a document decides *)
Definition about (d : N) (r : row) : bool := negb (w_principal r) && (w_doc r =? d).

Fixpoint last_about (d : N) (rows : list row) : option row :=
  match rows with
  | [] => None
  | r :: rest => match last_about d rest with
                 | Some x => Some x
                 | None => if about d r then Some r else None
                 end
  end.

Lemma effect_fold_last d rows : forall o,
  fold_left (fun o r => row_effect r d o) rows o =
  match last_about d rows with
  | Some r => if purges r then None else Some (w_rev r)
  | None => o
  end.
Proof.
  induction rows as [|r rows IH]; intros o; cbn [fold_left last_about]; auto.
  rewrite IH. destruct (last_about d rows); auto.
  unfold row_effect, about. destruct (w_principal r); cbn [negb andb]; auto.
  destruct (w_doc r =? d); auto.
Qed.

Theorem client_last_row_wins c rows d :
  c_get d (apply_rows c rows) =
  match last_about d rows with
  | Some r => if purges r then None else Some (w_rev r)
  | None => c_get d c
  end.
Proof. rewrite c_get_apply_rows; apply effect_fold_last. Qed.

Theorem client_apply_row_idempotent c r d :
  c_get d (apply_row (apply_row c r) r) = c_get d (apply_row c r).
Proof.
  rewrite !c_get_apply_row. unfold row_effect. destruct (w_principal r); auto. destruct (w_doc r =? d); auto.
Qed.

Theorem client_apply_idempotent c rows d :
  c_get d (apply_rows (apply_rows c rows) rows) = c_get d (apply_rows c rows).
Proof.
  rewrite (client_last_row_wins (apply_rows c rows)). destruct (last_about d rows) eqn:E.
  - rewrite client_last_row_wins, E; reflexivity.
  - reflexivity.
Qed.

(* on canonical (ascending) client states the two results are the same list *)
Fixpoint asc (c : client) : Prop :=
  match c with
  | [] => True
  | (k, _) :: r => (match r with [] => True | (k', _) :: _ => k < k' end) /\ asc r
  end.

Lemma c_remove_incl d c x : In x (c_remove d c) -> In x c.
Proof.
  induction c as [|[a b] r IH]; cbn [c_remove]; auto.
  destruct (a =? d); intros H; [right; auto |]. destruct H as [H|H]; [left; exact H | right; auto].
Qed.

Lemma asc_all_above k v c : asc ((k, v) :: c) -> forall k' v', In (k', v') c -> k < k'.
Proof.
  revert k v; induction c as [|[a b] r IH]; intros k v Ha k' v' Hin; [destruct Hin |].
  change (k < a /\ asc ((a, b) :: r)) in Ha. destruct Ha as (Hlt & Ha).
  destruct Hin as [Heq|Hin]; [inversion Heq; subst; exact Hlt |].
  assert (a < k') by (apply (IH a b Ha k' v' Hin)). lia.
Qed.

Lemma asc_of_above k v c : asc c -> (forall k' v', In (k', v') c -> k < k') -> asc ((k, v) :: c).
Proof.
  intros Ha H; cbn [asc]; split; auto. destruct c as [|[a b] r]; auto. apply (H a b); left; reflexivity.
Qed.

Lemma asc_remove d c : asc c -> asc (c_remove d c).
Proof.
  induction c as [|[k v] r IH]; intros Ha; cbn [c_remove]; auto.
  assert (asc r) as Hr by (cbn [asc] in Ha; tauto).
  destruct (k =? d); auto. apply asc_of_above; auto.
  intros k' v' Hin. apply c_remove_incl in Hin. eapply asc_all_above; eauto.
Qed.

Lemma asc_insert d v c : asc c -> asc (c_insert d v c).
Proof.
  induction c as [|[k w] r IH]; intros Ha; cbn [c_insert]; [cbn; auto |].
  assert (asc r) as Hr by (cbn [asc] in Ha; tauto).
  destruct (d <? k) eqn:E1.
  - cbn [asc]; split; auto. lia.
  - destruct (d =? k) eqn:E2.
    + apply N.eqb_eq in E2; subst k. apply asc_of_above; auto. eapply asc_all_above; eauto.
    + apply asc_of_above; auto. intros k' v' Hin.
      assert (forall c, In (k', v') (c_insert d v c) -> (k', v') = (d, v) \/ In (k', v') c) as K.
      { clear. induction c as [|[a b] c IH]; cbn [c_insert]; intros H.
        - destruct H as [H|[]]; auto.
        - destruct (d <? a); [destruct H as [H|H]; auto |].
          destruct (d =? a); destruct H as [H|H]; auto; [right; right; exact H | right; left; exact H |].
          apply IH in H as [H|H]; auto. right; right; exact H. }
      apply K in Hin as [Heq|Hin]; [inversion Heq; subst; lia | eapply asc_all_above; eauto].
Qed.

Lemma asc_apply_rows rows : forall c, asc c -> asc (apply_rows c rows).
Proof.
  unfold apply_rows; induction rows as [|r rows IH]; intros c Ha; cbn [fold_left]; auto.
  apply IH. unfold apply_row. destruct (w_principal r); auto. destruct (purges r); auto using asc_remove, asc_insert.
Qed.

Lemma c_get_above c : forall k, (forall k' v', In (k', v') c -> k < k') -> c_get k c = None.
Proof.
  induction c as [|[a b] c IH]; intros k H; cbn [c_get]; auto.
  assert (k < a) by (apply (H a b); left; reflexivity).
  destruct (a =? k) eqn:E; [apply N.eqb_eq in E; lia |]. apply IH. intros k' v' Hin; apply (H k' v'); right; exact Hin.
Qed.

Lemma asc_tail k v r : asc ((k, v) :: r) -> asc r.
Proof. cbn [asc]; tauto. Qed.

Lemma asc_ext c1 : forall c2, asc c1 -> asc c2 -> (forall d, c_get d c1 = c_get d c2) -> c1 = c2.
Proof.
  induction c1 as [|[k v] r IH]; intros [|[k2 v2] r2] H1 H2 Hext; auto.
  - specialize (Hext k2); cbn [c_get] in Hext; rewrite N.eqb_refl in Hext; discriminate.
  - specialize (Hext k); cbn [c_get] in Hext; rewrite N.eqb_refl in Hext; discriminate.
  - pose proof (asc_all_above _ _ _ H1) as A1. pose proof (asc_all_above _ _ _ H2) as A2.
    assert (k = k2) as Hk.
    { pose proof (Hext k) as Ek. pose proof (Hext k2) as Ek2. cbn [c_get] in Ek, Ek2.
      rewrite N.eqb_refl in Ek, Ek2.
      destruct (k2 =? k) eqn:E; [apply N.eqb_eq in E; auto |].
      rewrite N.eqb_sym, E in Ek2.
      assert (k < k2 \/ k2 < k) as [Hlt|Hlt] by (apply N.eqb_neq in E; lia).
      - rewrite (c_get_above r2 k) in Ek; [discriminate |].
        intros k' v' Hin. specialize (A2 k' v' Hin). lia.
      - rewrite (c_get_above r k2) in Ek2; [discriminate |].
        intros k' v' Hin. specialize (A1 k' v' Hin). lia. }
    subst k2.
    assert (v = v2) as Hv by (specialize (Hext k); cbn [c_get] in Hext; rewrite N.eqb_refl in Hext; congruence).
    subst v2. f_equal. apply IH; eauto using asc_tail.
    intros d. specialize (Hext d). cbn [c_get] in Hext. destruct (k =? d) eqn:E; auto.
    apply N.eqb_eq in E; subst d.
    rewrite (c_get_above r k A1), (c_get_above r2 k A2); reflexivity.
Qed.

Theorem client_apply_idempotent_eq c rows :
  asc c -> apply_rows (apply_rows c rows) rows = apply_rows c rows.
Proof.
  intros Ha. apply asc_ext; auto using asc_apply_rows. intros d; apply client_apply_idempotent.
Qed.
