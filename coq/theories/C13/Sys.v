(* C13 model, part 6: the whole system for histories with ADMIN grants (documents with channel assignments, admin
   channels of the user and of roles, admin roles of the user, role deletion and re-creation, pulls) as one executable
   state machine that allocates sequences, maintains the documents' channel histories and the per-channel logs,
   runs the invalidate / rebuild protocol (GrantSys.v) and answers pulls with Feed.pull.  It produces, at every pull,
   the SNAPSHOT the real feed reads; the correspondence compares snapshot and rows with the real database.

   Used to state the end-to-end property (client_matches_visible) over operation lists, and to evaluate the
   histories that refute it.  Not modelled here: sync-function grants (access() / role()); they are covered by the
   snapshot-level correspondence of Feed.pull only. *)
From SG Require Import Base.Prelude C20.SeqIdGen C20.SeqId C13.Revocation C13.Feed C13.Client C13.DocHist C13.GrantSys.
Open Scope N_scope.

Definition public_chan : N := 1.     (* "!" *)

Record sdoc := mkSDoc {
  sd_id : N; sd_seq : N; sd_rev : N; sd_live : bool;
  sd_active : list N;                        (* channels of the current revision, ascending *)
  sd_removed : list (N * (N * N * bool));    (* channel -> (sequence, revision, tombstone) of its removal *)
  sd_cs : list docent; sd_csh : list docent }.

Record sys := mkSys {
  y_next : N;                       (* next sequence *)
  y_nrev : N;                       (* next revision number (the harness interns revision ids in order of creation) *)
  y_docs : list sdoc;               (* ascending by id *)
  y_uexp : tset;                    (* admin channels of the user *)
  y_urexp : tset;                   (* admin roles of the user *)
  y_useq : N;                       (* sequence of the user document *)
  y_rexp : list (N * tset);         (* admin channels of every role that exists or existed *)
  y_g : gstate }.

Inductive sop :=
| SPut (d : N) (chans : list N)
| SDel (d : N)
| SUChans (set : list N)
| SURoles (set : list N)
| SRChans (r : N) (set : list N)
| SDelRole (r : N)
| SPull (limit : N).

Definition mem (x : N) (l : list N) : bool := existsb (N.eqb x) l.

(* TimedSet.UpdateAtSequence / Equals *)
Definition update_at_seq (t : tset) (set : list N) (s : N) : tset :=
  filter (fun '(k, _) => mem k set) t
  ++ map (fun k => (k, s)) (filter (fun k => negb (tmem k t)) set).
Definition same_keys (t : tset) (set : list N) : bool :=
  forallb (fun '(k, _) => mem k set) t && forallb (fun k => tmem k t) set.

(* the grants a rebuild computes: explicit + "!" at sequence 1 *)
Definition computed_chans (explicit : tset) : tset := tadd public_chan 1 explicit.

Fixpoint rexp_get (r : N) (l : list (N * tset)) : tset :=
  match l with [] => [] | (k, t) :: rest => if k =? r then t else rexp_get r rest end.
Fixpoint rexp_put (r : N) (t : tset) (l : list (N * tset)) : list (N * tset) :=
  match l with
  | [] => [(r, t)]
  | (k, v) :: rest => if k =? r then (r, t) :: rest else (k, v) :: rexp_put r t rest
  end.

(* loads *)
Definition load_user (y : sys) : sys :=
  let g := y_g y in
  let g1 := step g (RebuildUser (computed_chans (y_uexp y))) in
  let g2 := step g1 (RebuildUserRoles (y_urexp y)) in
  mkSys (y_next y) (y_nrev y) (y_docs y) (y_uexp y) (y_urexp y) (y_useq y) (y_rexp y) g2.

Definition load_role (r : N) (y : sys) : sys :=
  mkSys (y_next y) (y_nrev y) (y_docs y) (y_uexp y) (y_urexp y) (y_useq y) (y_rexp y)
        (step (y_g y) (RebuildRole r (computed_chans (rexp_get r (y_rexp y))))).

Definition load_all (y : sys) : sys :=
  fold_left (fun y '(r, _) => load_role r y) (g_roles (y_g y)) (load_user y).

Definition with_g (y : sys) (g : gstate) : sys :=
  mkSys (y_next y) (y_nrev y) (y_docs y) (y_uexp y) (y_urexp y) (y_useq y) (y_rexp y) g.

(* ---------- documents ---------- *)
Fixpoint doc_get (d : N) (l : list sdoc) : option sdoc :=
  match l with [] => None | x :: r => if sd_id x =? d then Some x else doc_get d r end.
Fixpoint doc_put (x : sdoc) (l : list sdoc) : list sdoc :=
  match l with
  | [] => [x]
  | y :: r => if sd_id x <? sd_id y then x :: l else if sd_id x =? sd_id y then x :: r else y :: doc_put x r
  end.

Fixpoint rm_put (c : N) (v : N * N * bool) (l : list (N * (N * N * bool))) : list (N * (N * N * bool)) :=
  match l with
  | [] => [(c, v)]
  | (k, w) :: r => if k =? c then (c, v) :: r else (k, w) :: rm_put c v r
  end.

Definition sorted_set (l : list N) : list N := fold_right set_add [] l.

(* one write of document d: new channel set [chans] (empty and not live for a tombstone) *)
Definition write_doc (y : sys) (d : N) (chans : list N) (live : bool) : sys :=
  let s := y_next y in
  let rev := y_nrev y in
  let old := match doc_get d (y_docs y) with
             | Some x => x
             | None => mkSDoc d 0 0 false [] [] [] []
             end in
  let new_ := sorted_set chans in
  let left := filter (fun c => negb (mem c new_)) (sd_active old) in
  let removed1 := fold_left (fun acc c => rm_put c (s, rev, negb live) acc) left (sd_removed old) in
  let removed2 := filter (fun '(c, _) => negb (mem c new_)) removed1 in
  let '(cs, csh) := update_channels (sd_active old) new_ s (sd_cs old, sd_csh old) in
  mkSys (s + 1) (rev + 1)
        (doc_put (mkSDoc d s rev live new_ removed2 cs csh) (y_docs y))
        (y_uexp y) (y_urexp y) (y_useq y) (y_rexp y) (y_g y).

(* ---------- one operation that is not a pull ---------- *)
Definition sys_step (y : sys) (o : sop) : sys :=
  match o with
  | SPut d chans => write_doc y d chans true
  | SDel d =>
      match doc_get d (y_docs y) with
      | Some x => if sd_live x then write_doc y d [] false else y
      | None => y
      end
  | SUChans set =>
      let y1 := load_user y in
      if same_keys (y_uexp y1) set then y1
      else
        let s := y_next y1 in
        mkSys (s + 1) (y_nrev y1) (y_docs y1) (update_at_seq (y_uexp y1) set s) (y_urexp y1) s (y_rexp y1)
              (step (y_g y1) (InvalUser s))
  | SURoles set =>
      let y1 := load_user y in
      if same_keys (y_urexp y1) set then y1
      else
        let s := y_next y1 in
        mkSys (s + 1) (y_nrev y1) (y_docs y1) (y_uexp y1) (update_at_seq (y_urexp y1) set s) s (y_rexp y1)
              (step (y_g y1) (InvalUserRoles s))
  | SRChans r set =>
      match role_get r (g_roles (y_g y)) with
      | Some (_, false) =>
          let y1 := load_role r y in
          let ex := rexp_get r (y_rexp y1) in
          if same_keys ex set then y1
          else
            let s := y_next y1 in
            mkSys (s + 1) (y_nrev y1) (y_docs y1) (y_uexp y1) (y_urexp y1) (y_useq y1)
                  (rexp_put r (update_at_seq ex set s) (y_rexp y1))
                  (step (y_g y1) (InvalRole r s))
      | _ =>
          (* missing or deleted: NewRoleNoChannels (valid, channels {!}), always a new sequence *)
          let s := y_next y in
          let g1 := step (y_g y) (CreateRole r (computed_chans [])) in
          let ex := update_at_seq [] set s in
          let g2 := match set with [] => g1 | _ => step g1 (InvalRole r s) end in
          mkSys (s + 1) (y_nrev y) (y_docs y) (y_uexp y) (y_urexp y) (y_useq y) (rexp_put r ex (y_rexp y)) g2
      end
  | SDelRole r =>
      match role_get r (g_roles (y_g y)) with
      | Some (_, false) =>
          let y1 := load_role r y in
          let s := y_next y1 in
          mkSys (s + 1) (y_nrev y1) (y_docs y1) (y_uexp y1) (y_urexp y1) (y_useq y1) (y_rexp y1)
                (step (y_g y1) (DeleteRole r s))
      | _ => y
      end
  | SPull _ => y
  end.

(* ---------- the snapshot a pull reads ---------- *)
Definition all_chans : list N := [1; 2; 3; 4; 5].

Fixpoint insert_log (e : logentry) (l : list logentry) : list logentry :=
  match l with
  | [] => [e]
  | x :: r => if le_seq e <? le_seq x then e :: l else x :: insert_log e r
  end.

Definition chan_log (c : N) (docs : list sdoc) : list logentry :=
  fold_left (fun acc x =>
               if mem c (sd_active x) then insert_log (mkLog (sd_seq x) (sd_id x) (sd_rev x) false false) acc
               else match find (fun '(k, _) => k =? c) (sd_removed x) with
                    | Some (_, (s, rev, del)) => insert_log (mkLog s (sd_id x) rev true del) acc
                    | None => acc
                    end) docs [].

Definition snapshot_of (y : sys) : snapshot :=
  let g := y_g y in
  mkSnap (y_next y - 1)
         (mkUser (y_useq y) (p_set (g_user g)) (p_hist (g_user g)) (p_set (g_uroles g)) (p_hist (g_uroles g)))
         (view_roles g)
         (map (fun c => (c, chan_log c (y_docs y))) all_chans)
         (map (fun x => mkDoc (sd_id x) (sd_cs x ++ sd_csh x) (Some (sd_active x))) (y_docs y)).

(* ---------- specification side: what the user can see, from the admin grants alone ---------- *)
Definition truth_chans (y : sys) : list N :=
  public_chan :: map fst (y_uexp y)
  ++ flat_map (fun '(r, _) =>
                 match role_get r (g_roles (y_g y)) with
                 | Some (_, false) => public_chan :: map fst (rexp_get r (y_rexp y))
                 | _ => []
                 end) (y_urexp y).

Definition sys_visible (y : sys) : list N :=
  map sd_id (filter (fun x => sd_live x && existsb (fun c => mem c (truth_chans y)) (sd_active x)) (y_docs y)).

(* ---------- histories: operations interleaved with the client's requests ---------- *)
Record pullobs := mkObs { o_snap : snapshot; o_rows : list row; o_client : client; o_caught : bool; o_visible : list N }.

Definition sys_init : sys :=
  (* the user exists before anything else: it owns sequence 1 *)
  mkSys 2 1 [] [] [] 1 [] (mkG (mkPrinc [(public_chan, 1)] 0 []) (mkPrinc [] 0 []) []).

Fixpoint sys_trace (ops : list sop) (y : sys) (c : client) (since : seqid) : list pullobs :=
  match ops with
  | [] => []
  | SPull limit :: rest =>
      let y1 := load_all y in
      let snap := snapshot_of y1 in
      let rows := pull snap since limit in
      let c1 := apply_rows c rows in
      mkObs snap rows c1 (caught_up limit rows) (sys_visible y1) :: sys_trace rest y1 c1 (next_since since rows)
  | o :: rest => sys_trace rest (sys_step y o) c since
  end.

Definition trace (ops : list sop) : list pullobs := sys_trace ops sys_init [] (mk 0 0 0).

Definition same_docs (c : client) (vis : list N) : bool :=
  forallb (fun '(d, _) => mem d vis) c && forallb (fun d => holds c d) vis.

(* the end-to-end statement, over ALL histories of this system: after every request that caught up, the documents
   the client holds are exactly the documents whose current revision the user can see at that moment *)
Definition client_matches_visible_full_statement : Prop :=
  forall (ops : list sop) (o : pullobs),
    In o (trace ops) -> o_caught o = true -> same_docs (o_client o) (o_visible o) = true.
