(* C13 model, part 6: the whole system (documents with channel assignments and SYNC-FUNCTION grants -- access() to the
   user or to a role, role() to the user --, admin channels of the user and of roles, admin roles of the user, role
   deletion and re-creation, pulls) as one executable state machine that allocates sequences, maintains the documents'
   channel histories, their access maps (doc.Access / doc.RoleAccess) and the per-channel logs, runs the
   invalidate / rebuild protocol (GrantSys.v) -- the set a rebuild computes is explicit grants + what the access views
   confer + "!" -- and answers pulls with Feed.pull.  It produces, at every pull, the SNAPSHOT the real feed reads; the
   correspondence compares snapshot and rows with the real database.

   Used to state the end-to-end property (client_matches_visible) over operation lists, and to evaluate the
   histories that refute it. *)
From SG Require Import Base.Prelude C20.SeqIdGen C20.SeqId C13.Revocation C13.Feed C13.Client C13.DocHist C13.GrantSys.
Open Scope N_scope.

Definition public_chan : N := 1.     (* "!" *)

Record sdoc := mkSDoc {
  sd_id : N; sd_seq : N; sd_rev : N; sd_live : bool;
  sd_active : list N;                        (* channels of the current revision, ascending *)
  sd_removed : list (N * (N * N * bool));    (* channel -> (sequence, revision, tombstone) of its removal *)
  sd_cs : list docent; sd_csh : list docent;
  sd_acc : list (N * tset);                  (* doc.Access: grantee (0 = the user, r = role r) -> channel -> sequence *)
  sd_racc : tset }.                          (* doc.RoleAccess of the user: role -> sequence *)

Record sys := mkSys {
  y_next : N;                       (* next sequence *)
  y_nrev : N;                       (* next revision number (the harness interns revision ids in order of creation) *)
  y_docs : list sdoc;               (* ascending by id *)
  y_uexp : tset;                    (* admin channels of the user *)
  y_urexp : tset;                   (* admin roles of the user *)
  y_useq : N;                       (* sequence of the user document *)
  y_rexp : list (N * tset);         (* admin channels of every role that exists or existed *)
  y_g : gstate }.

Inductive sop :=
| SPut (d : N) (chans : list N) (acc : list (N * list N)) (rol : list N)
    (* acc: access(grantee, channels), grantee 0 = the user, r = role r; rol: role(user, roles) *)
| SDel (d : N)
| SUChans (set : list N)
| SURoles (set : list N)
| SRChans (r : N) (set : list N)
| SDelRole (r : N)
| SPull (limit : N).

Definition mem (x : N) (l : list N) : bool := existsb (N.eqb x) l.

(* TimedSet.UpdateAtSequence / Equals *)
Definition update_at_seq (t : tset) (set : list N) (s : N) : tset :=
  filter (fun '(k, _) => mem k set) t
  ++ map (fun k => (k, s)) (filter (fun k => negb (tmem k t)) set).
Definition same_keys (t : tset) (set : list N) : bool :=
  forallb (fun '(k, _) => mem k set) t && forallb (fun k => tmem k t) set.

Definition sorted_set (l : list N) : list N := fold_right set_add [] l.

(* ---------- the access views ---------- *)
Fixpoint acc_get (k : N) (l : list (N * tset)) : tset :=
  match l with [] => [] | (k', t) :: r => if k' =? k then t else acc_get k r end.

(* what the views confer on grantee k, merged into [t] (TimedSet.Add: the earliest sequence wins) *)
Definition view_add (k : N) (docs : list sdoc) (t : tset) : tset :=
  fold_left (fun t x => tadd_at (acc_get k (sd_acc x)) 0 t) docs t.
Definition view_roles_add (docs : list sdoc) (t : tset) : tset :=
  fold_left (fun t x => tadd_at (sd_racc x) 0 t) docs t.

(* the grants a rebuild computes: explicit + views + "!" at sequence 1 *)
Definition computed_chans (k : N) (docs : list sdoc) (explicit : tset) : tset :=
  tadd public_chan 1 (view_add k docs explicit).
Definition computed_roles (docs : list sdoc) (explicit : tset) : tset :=
  tadd_at explicit 0 (view_roles_add docs []).

Fixpoint rexp_get (r : N) (l : list (N * tset)) : tset :=
  match l with [] => [] | (k, t) :: rest => if k =? r then t else rexp_get r rest end.
Fixpoint rexp_put (r : N) (t : tset) (l : list (N * tset)) : list (N * tset) :=
  match l with
  | [] => [(r, t)]
  | (k, v) :: rest => if k =? r then (r, t) :: rest else (k, v) :: rexp_put r t rest
  end.

Definition with_g (y : sys) (g : gstate) : sys :=
  mkSys (y_next y) (y_nrev y) (y_docs y) (y_uexp y) (y_urexp y) (y_useq y) (y_rexp y) g.

(* loads: the rebuilds a load performs, as operations of the grant state machine *)
Definition gops_load_user (y : sys) : list gop :=
  [RebuildUser (computed_chans 0 (y_docs y) (y_uexp y)); RebuildUserRoles (computed_roles (y_docs y) (y_urexp y))].
Definition gops_load_role (r : N) (y : sys) : list gop :=
  [RebuildRole r (computed_chans r (y_docs y) (rexp_get r (y_rexp y)))].
Definition gops_load_all (y : sys) : list gop :=
  gops_load_user y ++ flat_map (fun '(r, _) => gops_load_role r y) (g_roles (y_g y)).

Definition load_user (y : sys) : sys := with_g y (run (y_g y) (gops_load_user y)).
Definition load_role (r : N) (y : sys) : sys := with_g y (run (y_g y) (gops_load_role r y)).
Definition load_all (y : sys) : sys := with_g y (run (y_g y) (gops_load_all y)).

(* ---------- documents ---------- *)
Fixpoint doc_get (d : N) (l : list sdoc) : option sdoc :=
  match l with [] => None | x :: r => if sd_id x =? d then Some x else doc_get d r end.
Fixpoint doc_put (x : sdoc) (l : list sdoc) : list sdoc :=
  match l with
  | [] => [x]
  | y :: r => if sd_id x <? sd_id y then x :: l else if sd_id x =? sd_id y then x :: r else y :: doc_put x r
  end.

Fixpoint rm_put (c : N) (v : N * N * bool) (l : list (N * (N * N * bool))) : list (N * (N * N * bool)) :=
  match l with
  | [] => [(c, v)]
  | (k, w) :: r => if k =? c then (c, v) :: r else (k, w) :: rm_put c v r
  end.

(* the channels access() calls of one revision confer on grantee k *)
Definition acc_for (k : N) (acc : list (N * list N)) : list N :=
  sorted_set (flat_map (fun '(k', v) => if k' =? k then v else []) acc).

(* UserAccessMap.updateAccess: (new map, grantees whose grant set changed).  Per grantee the channel set is updated
   with TimedSet.UpdateAtSequence (kept grants keep their sequence, new ones get the write's); grantees left with
   nothing are dropped *)
Definition acc_keys (old : list (N * tset)) (acc : list (N * list N)) : list N :=
  sorted_set (map fst old ++ map fst acc).
Definition update_access (old : list (N * tset)) (acc : list (N * list N)) (s : N) : list (N * tset) * list N :=
  let keys := acc_keys old acc in
  (flat_map (fun k => match update_at_seq (acc_get k old) (acc_for k acc) s with
                      | [] => []
                      | t' => [(k, t')]
                      end) keys,
   filter (fun k => negb (same_keys (acc_get k old) (acc_for k acc))) keys).

(* MarkPrincipalsChanged: invalidate at the write's sequence *)
Definition inval_grantee (s : N) (k : N) : gop := if k =? 0 then InvalUser s else InvalRole k s.

Definition doc_old (y : sys) (d : N) : sdoc :=
  match doc_get d (y_docs y) with
  | Some x => x
  | None => mkSDoc d 0 0 false [] [] [] [] [] []
  end.

(* the invalidations a write of document d with these grants performs *)
Definition write_gops (y : sys) (d : N) (acc : list (N * list N)) (rol : list N) : list gop :=
  let s := y_next y in
  let old := doc_old y d in
  map (inval_grantee s) (snd (update_access (sd_acc old) acc s))
  ++ (if same_keys (sd_racc old) (sorted_set rol) then [] else [InvalUserRoles s]).

(* one write of document d: new channel set [chans] (empty and not live for a tombstone), new grants *)
Definition write_doc (y : sys) (d : N) (chans : list N) (acc : list (N * list N)) (rol : list N) (live : bool) : sys :=
  let s := y_next y in
  let rev := y_nrev y in
  let old := doc_old y d in
  let new_ := sorted_set chans in
  let left := filter (fun c => negb (mem c new_)) (sd_active old) in
  let removed1 := fold_left (fun acc c => rm_put c (s, rev, negb live) acc) left (sd_removed old) in
  let removed2 := filter (fun '(c, _) => negb (mem c new_)) removed1 in
  let cs := update_channels (sd_active old) new_ s (sd_cs old, sd_csh old) in
  let acc' := fst (update_access (sd_acc old) acc s) in
  let racc' := update_at_seq (sd_racc old) (sorted_set rol) s in
  mkSys (s + 1) (rev + 1)
        (doc_put (mkSDoc d s rev live new_ removed2 (fst cs) (snd cs) acc' racc') (y_docs y))
        (y_uexp y) (y_urexp y) (y_useq y) (y_rexp y) (run (y_g y) (write_gops y d acc rol)).

(* ---------- one operation ---------- *)
(* what it does to the grant state machine (a pull: the loads) *)
Definition sys_gops (y : sys) (o : sop) : list gop :=
  match o with
  | SPut d _ acc rol => write_gops y d acc rol
  | SDel d =>
      match doc_get d (y_docs y) with
      | Some x => if sd_live x then write_gops y d [] [] else []
      | None => []
      end
  | SUChans set => gops_load_user y ++ (if same_keys (y_uexp y) (sorted_set set) then [] else [InvalUser (y_next y)])
  | SURoles set => gops_load_user y ++ (if same_keys (y_urexp y) (sorted_set set) then [] else [InvalUserRoles (y_next y)])
  | SRChans r set =>
      match role_get r (g_roles (y_g y)) with
      | Some (_, false) =>
          gops_load_role r y ++ (if same_keys (rexp_get r (y_rexp y)) (sorted_set set) then [] else [InvalRole r (y_next y)])
      | _ =>
          (* missing or deleted: NewRoleNoChannels (valid: what the views confer + "!") *)
          CreateRole r (computed_chans r (y_docs y) []) :: match sorted_set set with [] => [] | _ => [InvalRole r (y_next y)] end
      end
  | SDelRole r =>
      match role_get r (g_roles (y_g y)) with
      | Some (_, false) => gops_load_role r y ++ [DeleteRole r (y_next y)]
      | _ => []
      end
  | SPull _ => gops_load_all y
  end.

(* one operation that is not a pull *)
Definition sys_step (y : sys) (o : sop) : sys :=
  let g := run (y_g y) (sys_gops y o) in
  let s := y_next y in
  match o with
  | SPut d chans acc rol => write_doc y d chans acc rol true
  | SDel d =>
      match doc_get d (y_docs y) with
      | Some x => if sd_live x then write_doc y d [] [] [] false else y
      | None => y
      end
  | SUChans set0 =>
      let set := sorted_set set0 in      (* the sets of an admin request are sets *)
      if same_keys (y_uexp y) set then with_g y g
      else mkSys (s + 1) (y_nrev y) (y_docs y) (update_at_seq (y_uexp y) set s) (y_urexp y) s (y_rexp y) g
  | SURoles set0 =>
      let set := sorted_set set0 in
      if same_keys (y_urexp y) set then with_g y g
      else mkSys (s + 1) (y_nrev y) (y_docs y) (y_uexp y) (update_at_seq (y_urexp y) set s) s (y_rexp y) g
  | SRChans r set0 =>
      let set := sorted_set set0 in
      match role_get r (g_roles (y_g y)) with
      | Some (_, false) =>
          let ex := rexp_get r (y_rexp y) in
          if same_keys ex set then with_g y g
          else mkSys (s + 1) (y_nrev y) (y_docs y) (y_uexp y) (y_urexp y) (y_useq y)
                     (rexp_put r (update_at_seq ex set s) (y_rexp y)) g
      | _ =>
          (* always a new sequence *)
          mkSys (s + 1) (y_nrev y) (y_docs y) (y_uexp y) (y_urexp y) (y_useq y)
                (rexp_put r (update_at_seq [] set s) (y_rexp y)) g
      end
  | SDelRole r =>
      match role_get r (g_roles (y_g y)) with
      | Some (_, false) => mkSys (s + 1) (y_nrev y) (y_docs y) (y_uexp y) (y_urexp y) (y_useq y) (y_rexp y) g
      | _ => y
      end
  | SPull _ => with_g y g
  end.

(* ---------- the snapshot a pull reads ---------- *)
Definition all_chans : list N := [1; 2; 3; 4; 5].

Fixpoint insert_log (e : logentry) (l : list logentry) : list logentry :=
  match l with
  | [] => [e]
  | x :: r => if le_seq e <? le_seq x then e :: l else x :: insert_log e r
  end.

Definition chan_log (c : N) (docs : list sdoc) : list logentry :=
  fold_left (fun acc x =>
               if mem c (sd_active x) then insert_log (mkLog (sd_seq x) (sd_id x) (sd_rev x) false false) acc
               else match find (fun '(k, _) => k =? c) (sd_removed x) with
                    | Some (_, (s, rev, del)) => insert_log (mkLog s (sd_id x) rev true del) acc
                    | None => acc
                    end) docs [].

(* the channels whose logs the snapshot lists: the harness's five, then whatever else the documents mention *)
Definition doc_chans (docs : list sdoc) : list N :=
  sorted_set (flat_map (fun x => sd_active x ++ map fst (sd_removed x)) docs).
Definition log_chans (docs : list sdoc) : list N :=
  all_chans ++ filter (fun c => negb (mem c all_chans)) (doc_chans docs).

Definition snapshot_of (y : sys) : snapshot :=
  let g := y_g y in
  mkSnap (y_next y - 1)
         (mkUser (y_useq y) (p_set (g_user g)) (p_hist (g_user g)) (p_set (g_uroles g)) (p_hist (g_uroles g)))
         (view_roles g)
         (map (fun c => (c, chan_log c (y_docs y))) (log_chans (y_docs y)))
         (map (fun x => mkDoc (sd_id x) (sd_cs x ++ sd_csh x) (Some (sd_active x))) (y_docs y)).

(* ---------- specification side: what the user can see, from the grants alone ---------- *)
(* the channels live documents grant to grantee k *)
Definition doc_grants (k : N) (docs : list sdoc) : list N :=
  flat_map (fun x => map fst (acc_get k (sd_acc x))) docs.
Definition doc_role_grants (docs : list sdoc) : list N := flat_map (fun x => map fst (sd_racc x)) docs.

Definition truth_chans (y : sys) : list N :=
  public_chan :: map fst (y_uexp y) ++ doc_grants 0 (y_docs y)
  ++ flat_map (fun r =>
                 match role_get r (g_roles (y_g y)) with
                 | Some (_, false) => public_chan :: map fst (rexp_get r (y_rexp y)) ++ doc_grants r (y_docs y)
                 | _ => []
                 end) (map fst (y_urexp y) ++ doc_role_grants (y_docs y)).

Definition sys_visible (y : sys) : list N :=
  map sd_id (filter (fun x => sd_live x && existsb (fun c => mem c (truth_chans y)) (sd_active x)) (y_docs y)).

(* ---------- histories: operations interleaved with the client's requests ---------- *)
Record pullobs := mkObs { o_snap : snapshot; o_rows : list row; o_client : client; o_caught : bool; o_visible : list N }.

Definition sys_init : sys :=
  (* the user exists before anything else: it owns sequence 1 *)
  mkSys 2 1 [] [] [] 1 [] (mkG (mkPrinc [(public_chan, 1)] 0 []) (mkPrinc [] 0 []) []).

Fixpoint sys_trace (ops : list sop) (y : sys) (c : client) (since : seqid) : list pullobs :=
  match ops with
  | [] => []
  | SPull limit :: rest =>
      let y1 := sys_step y (SPull limit) in
      let snap := snapshot_of y1 in
      let rows := pull snap since limit in
      let c1 := apply_rows c rows in
      mkObs snap rows c1 (caught_up limit rows) (sys_visible y1) :: sys_trace rest y1 c1 (next_since since rows)
  | o :: rest => sys_trace rest (sys_step y o) c since
  end.

Definition trace (ops : list sop) : list pullobs := sys_trace ops sys_init [] (mk 0 0 0).

(* ---------- the same system serving a NAMED collection ----------
   Everything is as above, except the re-creation of a soft-deleted role: the constructor the admin path uses
   (auth.NewRoleNoChannels, like NewRole) carries over only the DEFAULT collection's channel history of the deleted role
   document; the history kept under collection_access.<scope>.<collection> is dropped (finding
   recreated-role-history-lost/named-collection).  No theorem is claimed for this variant; it is the faithful model the
   named-collection histories of the harness are compared with, and C13_Refuted.v evaluates the defect on it. *)
(* the switch: true = the code before /repo commit 3cadf88; false = the repaired constructors (every collection's history
   carried over), for which the named-collection variant coincides with the model above *)
Definition named_recreate_drops_history : bool := false.

Definition drop_role_hist (r : N) (g : gstate) : gstate :=
  mkG (g_user g) (g_uroles g) (role_upd r (fun '(p, del) => (mkPrinc (p_set p) (p_inval p) [], del)) (g_roles g)).

Definition sys_step_named_gen (drops : bool) (y : sys) (o : sop) : sys :=
  match o with
  | SRChans r _ =>
      match role_get r (g_roles (y_g y)) with
      | Some (_, true) =>
          let y' := sys_step y o in
          if drops then with_g y' (drop_role_hist r (y_g y')) else y'
      | _ => sys_step y o
      end
  | _ => sys_step y o
  end.

Fixpoint sys_trace_named_gen (drops : bool) (ops : list sop) (y : sys) (c : client) (since : seqid) : list pullobs :=
  match ops with
  | [] => []
  | SPull limit :: rest =>
      let y1 := sys_step y (SPull limit) in
      let snap := snapshot_of y1 in
      let rows := pull snap since limit in
      let c1 := apply_rows c rows in
      mkObs snap rows c1 (caught_up limit rows) (sys_visible y1) :: sys_trace_named_gen drops rest y1 c1 (next_since since rows)
  | o :: rest => sys_trace_named_gen drops rest (sys_step_named_gen drops y o) c since
  end.

Definition trace_named_gen (drops : bool) (ops : list sop) : list pullobs := sys_trace_named_gen drops ops sys_init [] (mk 0 0 0).
(* the code as it is now (constructors repaired by 3cadf88) *)
Definition trace_named (ops : list sop) : list pullobs := trace_named_gen named_recreate_drops_history ops.
(* the code before the repair: kept for the witness in C13_Refuted.v *)
Definition trace_named_old (ops : list sop) : list pullobs := trace_named_gen true ops.

Definition same_docs (c : client) (vis : list N) : bool :=
  forallb (fun '(d, _) => mem d vis) c && forallb (fun d => holds c d) vis.

(* the end-to-end statement, over ALL histories of this system: after every request that caught up, the documents
   the client holds are exactly the documents whose current revision the user can see at that moment *)
Definition client_matches_visible_full_statement : Prop :=
  forall (ops : list sop) (o : pullobs),
    In o (trace ops) -> o_caught o = true -> same_docs (o_client o) (o_visible o) = true.
