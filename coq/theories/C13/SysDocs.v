(* C13: lemmas about the document side of the whole-system model (Sys.v): sets and timed sets, the documents' access
   maps, the association list of documents, the channel-set history across writes, removal entries, and the
   per-channel logs the snapshot lists. *)
From SG Require Import Base.Prelude C20.SeqIdGen C20.SeqId
  C13.Revocation C13.RevocationProofs C13.Feed C13.Client C13.DocHist C13.GrantSys C13.GrantSysProofs C13.PeriodsProofs
  C13.MergeSorted C13.Sys.
Open Scope N_scope.

(* ---------- sets ---------- *)
Lemma mem_in x l : mem x l = true <-> In x l.
Proof.
  unfold mem; rewrite existsb_exists; split.
  - intros (y & Hy & E); apply N.eqb_eq in E; subst; exact Hy.
  - intros H; exists x; split; auto; apply N.eqb_refl.
Qed.

Lemma mem_false x l : mem x l = false <-> ~ In x l.
Proof. rewrite <- mem_in. destruct (mem x l); split; congruence. Qed.

Lemma in_set_add x y l : In y (set_add x l) <-> y = x \/ In y l.
Proof.
  induction l as [|z l IH]; cbn [set_add]; [cbn; intuition |].
  destruct (x <? z) eqn:E1; [cbn; intuition |].
  destruct (x =? z) eqn:E2.
  - apply N.eqb_eq in E2; subst z. cbn; intuition.
  - cbn [In]. rewrite IH. intuition.
Qed.

Lemma in_sorted_set y l : In y (sorted_set l) <-> In y l.
Proof.
  unfold sorted_set; induction l as [|x l IH]; cbn [fold_right]; [tauto |].
  rewrite in_set_add, IH. cbn; intuition.
Qed.

Fixpoint asc_N (l : list N) : Prop :=
  match l with
  | [] => True
  | x :: r => (forall y, In y r -> x < y) /\ asc_N r
  end.

Lemma asc_set_add x l : asc_N l -> asc_N (set_add x l).
Proof.
  induction l as [|z l IH]; intros Ha; cbn [set_add]; [cbn; split; [intros y [] | exact I] |].
  destruct Ha as [Hz Ha].
  destruct (x <? z) eqn:E1.
  - cbn [asc_N]; split; [| split; auto]. intros y [<-|Hy]; [lia | specialize (Hz y Hy); lia].
  - destruct (x =? z) eqn:E2; [cbn [asc_N]; split; auto |].
    cbn [asc_N]; split; [| apply IH; exact Ha].
    intros y Hy. apply in_set_add in Hy as [->|Hy]; [lia | auto].
Qed.

Lemma asc_sorted_set l : asc_N (sorted_set l).
Proof. unfold sorted_set; induction l as [|x l IH]; cbn [fold_right]; [exact I | apply asc_set_add, IH]. Qed.

Lemma asc_N_nodup l : asc_N l -> NoDup l.
Proof.
  induction l as [|x l IH]; intros Ha; constructor.
  - destruct Ha as [Hx _]. intros Hin. specialize (Hx x Hin). lia.
  - apply IH; destruct Ha; auto.
Qed.

Lemma nodup_sorted_set l : NoDup (sorted_set l).
Proof. apply asc_N_nodup, asc_sorted_set. Qed.

(* ---------- timed sets ---------- *)
Lemma tmem_in c t : tmem c t = true <-> exists s, In (c, s) t.
Proof.
  rewrite tmem_tget. split.
  - intros (s & Hs); exists s; apply tget_in; exact Hs.
  - intros (s & Hin). induction t as [|[k v] r IH]; [destruct Hin |]. cbn [tget].
    destruct (k =? c) eqn:E; [eexists; reflexivity |].
    destruct Hin as [Heq|Hin]; [inversion Heq; subst; rewrite N.eqb_refl in E; discriminate | auto].
Qed.

Lemma in_update_at_seq t set s k v :
  In (k, v) (update_at_seq t set s) <->
  (In (k, v) t /\ mem k set = true) \/ (v = s /\ In k set /\ tmem k t = false).
Proof.
  unfold update_at_seq. rewrite in_app_iff, filter_In, in_map_iff. split.
  - intros [[H1 H2]|(k' & Heq & Hin)]; [left; auto |].
    inversion Heq; subst. apply filter_In in Hin as [Hin Hn]. apply negb_true_iff in Hn. right; auto.
  - intros [[H1 H2]|(-> & Hin & Hn)]; [left; auto |].
    right. exists k; split; auto. apply filter_In; split; auto. rewrite Hn; reflexivity.
Qed.

Lemma tmem_update_at_seq t set s k : tmem k (update_at_seq t set s) = mem k set.
Proof.
  destruct (mem k set) eqn:Em.
  - apply tmem_in. destruct (tmem k t) eqn:Et.
    + apply tmem_in in Et as (v & Hv). exists v. apply in_update_at_seq. left; auto.
    + exists s. apply in_update_at_seq. right; repeat split; auto. apply mem_in; exact Em.
  - apply not_true_iff_false. intros H. apply tmem_in in H as (v & Hv).
    apply in_update_at_seq in Hv as [[_ H]|(_ & H & _)]; [congruence | apply mem_in in H; congruence].
Qed.

Lemma same_keys_spec t set :
  same_keys t set = true <-> (forall k, tmem k t = true <-> In k set).
Proof.
  unfold same_keys. rewrite andb_true_iff, !forallb_forall. split.
  - intros [H1 H2] k. split.
    + intros Hk. apply tmem_in in Hk as (s & Hs). specialize (H1 (k, s) Hs). apply mem_in; exact H1.
    + intros Hk. apply H2; exact Hk.
  - intros H. split.
    + intros [k s] Hin. apply mem_in, H, tmem_in. exists s; exact Hin.
    + intros k Hk. apply H; exact Hk.
Qed.

Lemma update_at_seq_same t set s : same_keys t set = true -> update_at_seq t set s = t.
Proof.
  intros H. pose proof (proj1 (same_keys_spec t set) H) as Hs. unfold update_at_seq.
  replace (filter (fun k => negb (tmem k t)) set) with (@nil N).
  - cbn [map]. rewrite app_nil_r. clear H.
    assert (forall k v, In (k, v) t -> mem k set = true) as K
      by (intros k v Hin; apply mem_in, Hs, tmem_in; exists v; exact Hin).
    clear Hs. induction t as [|[k v] r IH]; cbn [filter]; auto.
    rewrite (K k v (or_introl eq_refl)). f_equal. apply IH. intros k' v' Hin; eapply K; right; exact Hin.
  - symmetry. clear H. assert (forall k, In k set -> tmem k t = true) as K by (intros k Hk; apply Hs; exact Hk).
    clear Hs. induction set as [|k set IH]; cbn [filter]; auto.
    rewrite (K k (or_introl eq_refl)). cbn [negb]. apply IH. intros k' Hk'; apply K; right; exact Hk'.
Qed.

Lemma uniq_filter (p : N * N -> bool) t : uniq t -> uniq (filter p t).
Proof.
  unfold uniq; induction t as [|[k v] r IH]; cbn [filter map]; auto. intros Hnd.
  inversion Hnd as [|? ? Hnotin Hnd']; subst. destruct (p (k, v)); [| apply IH; exact Hnd'].
  cbn [map fst]. constructor; [| apply IH; exact Hnd'].
  intros Hin. apply Hnotin. apply in_map_iff in Hin as ([k' v'] & Heq & Hin). cbn in Heq; subst k'.
  apply filter_In in Hin as [Hin _]. apply (in_map fst) in Hin; exact Hin.
Qed.

Lemma nodup_app {A} (l1 l2 : list A) : NoDup l1 -> NoDup l2 -> (forall x, In x l1 -> In x l2 -> False) -> NoDup (l1 ++ l2).
Proof.
  induction l1 as [|a l1 IH]; intros H1 H2 Hd; cbn [app]; auto.
  inversion H1 as [|? ? Hn H1']; subst. constructor.
  - intros Hin. apply in_app_or in Hin as [Hin|Hin]; [auto | eapply Hd; [left; reflexivity | exact Hin]].
  - apply IH; auto. intros x Hx1 Hx2; eapply Hd; [right; exact Hx1 | exact Hx2].
Qed.

Lemma uniq_update_at_seq t set s : uniq t -> NoDup set -> uniq (update_at_seq t set s).
Proof.
  intros Ht Hs. unfold uniq, update_at_seq. rewrite map_app.
  assert (forall l : list N, map fst (map (fun k => (k, s)) l) = l) as Hm
    by (induction l as [|x l IH]; cbn; [reflexivity | f_equal; exact IH]).
  rewrite Hm. apply nodup_app.
  - apply uniq_filter; exact Ht.
  - apply NoDup_filter; exact Hs.
  - intros k H1 H2. apply filter_In in H2 as [_ H2]. apply negb_true_iff in H2.
    apply in_map_iff in H1 as ([k' v] & Heq & Hin). cbn in Heq; subst k'. apply filter_In in Hin as [Hin _].
    assert (tmem k t = true) by (apply tmem_in; exists v; exact Hin). congruence.
Qed.

Lemma uniq_tset_put c s t : uniq t -> uniq (tset_put c s t).
Proof.
  unfold uniq; induction t as [|[k v] r IH]; cbn [tset_put map fst]; intros Hnd.
  - constructor; [intros [] | constructor].
  - inversion Hnd as [|? ? Hnotin Hnd']; subst. destruct (k =? c) eqn:E.
    + apply N.eqb_eq in E; subst k. cbn [map fst]. constructor; auto.
    + cbn [map fst]. constructor; [| apply IH; exact Hnd'].
      intros Hin. apply Hnotin. clear -Hin E. induction r as [|[k' v'] r IH]; cbn [tset_put map fst] in *.
      * destruct Hin as [Heq|[]]. subst. rewrite N.eqb_refl in E; discriminate.
      * destruct (k' =? c) eqn:E2; cbn [map fst] in Hin.
        -- destruct Hin as [Heq|Hin]; [subst; rewrite N.eqb_refl in E; discriminate | right; exact Hin].
        -- destruct Hin as [Heq|Hin]; [left; exact Heq | right; apply IH; exact Hin].
Qed.

Lemma uniq_tadd c s t : uniq t -> uniq (tadd c s t).
Proof. intros H; unfold tadd; break_ifs; auto; destruct (tget c t); break_ifs; auto using uniq_tset_put. Qed.

Lemma uniq_tadd_at other at_ t : uniq t -> uniq (tadd_at other at_ t).
Proof.
  unfold tadd_at; revert t; induction other as [|[c s] r IH]; intros t H; cbn [fold_left]; auto.
  apply IH, uniq_tadd, H.
Qed.

Lemma uniq_nil : uniq [].
Proof. constructor. Qed.

(* ---------- what a rebuild computes ---------- *)
Lemma tget_in_iff_uniq t c s : uniq t -> (tget c t = Some s <-> In (c, s) t).
Proof. intros H; split; [apply tget_in | apply uniq_in_tget; exact H]. Qed.

Lemma view_add_inv k docs : forall t c a,
  tget c (view_add k docs t) = Some a ->
  tget c t = Some a \/ exists x, In x docs /\ In (c, a) (acc_get k (sd_acc x)) /\ 0 < a.
Proof.
  unfold view_add; induction docs as [|x docs IH]; intros t c a H; cbn [fold_left] in H; auto.
  apply IH in H as [H|(x' & Hin & Hc)].
  - apply tget_tadd_at_inv in H as [H|(s & Hin & Ha & Hp)]; auto.
    right. exists x. split; [left; reflexivity |]. rewrite N.max_0_r in Ha. subst s. auto.
  - right; exists x'; split; [right; exact Hin | exact Hc].
Qed.

Lemma view_roles_add_inv docs : forall t c a,
  tget c (view_roles_add docs t) = Some a ->
  tget c t = Some a \/ exists x, In x docs /\ In (c, a) (sd_racc x) /\ 0 < a.
Proof.
  unfold view_roles_add; induction docs as [|x docs IH]; intros t c a H; cbn [fold_left] in H; auto.
  apply IH in H as [H|(x' & Hin & Hc)].
  - apply tget_tadd_at_inv in H as [H|(s & Hin & Ha & Hp)]; auto.
    right. exists x. split; [left; reflexivity |]. rewrite N.max_0_r in Ha. subst s. auto.
  - right; exists x'; split; [right; exact Hin | exact Hc].
Qed.

Lemma computed_chans_inv k docs explicit c a :
  tget c (computed_chans k docs explicit) = Some a ->
  (c = public_chan /\ a = 1) \/ In (c, a) explicit \/ exists x, In x docs /\ In (c, a) (acc_get k (sd_acc x)) /\ 0 < a.
Proof.
  unfold computed_chans. intros H. apply tget_tadd_inv in H as [H|(-> & -> & _)]; auto.
  apply view_add_inv in H as [H|H]; auto. right; left; apply tget_in; exact H.
Qed.

Lemma computed_roles_inv docs explicit r a :
  tget r (computed_roles docs explicit) = Some a ->
  (In (r, a) explicit /\ 0 < a) \/ exists x, In x docs /\ In (r, a) (sd_racc x) /\ 0 < a.
Proof.
  unfold computed_roles. intros H. apply tget_tadd_at_inv in H as [H|(s & Hin & Ha & Hp)].
  - apply view_roles_add_inv in H as [H|H]; [discriminate | right; exact H].
  - rewrite N.max_0_r in Ha; subst s. left; auto.
Qed.

Lemma tmem_view_add_keep k docs : forall t c, tmem c t = true -> tmem c (view_add k docs t) = true.
Proof.
  unfold view_add; induction docs as [|x docs IH]; intros t c H; cbn [fold_left]; auto.
  apply IH, tmem_tadd_at_keep, H.
Qed.

Lemma tmem_view_add_doc k docs x c s : forall t,
  In x docs -> In (c, s) (acc_get k (sd_acc x)) -> (forall s', In (c, s') (acc_get k (sd_acc x)) -> 0 < s') ->
  tmem c (view_add k docs t) = true.
Proof.
  unfold view_add; induction docs as [|x' docs IH]; intros t Hin Hc Hpos; [destruct Hin |].
  cbn [fold_left]. destruct Hin as [->|Hin]; [| apply IH; auto].
  fold (view_add k docs (tadd_at (acc_get k (sd_acc x)) 0 t)). apply tmem_view_add_keep.
  apply tmem_tadd_at_new.
  - intros s' Hs'. apply tget_in in Hs'. specialize (Hpos s' Hs'). lia.
  - apply tmem_in; exists s; exact Hc.
Qed.

Lemma tmem_view_roles_add_keep docs : forall t c, tmem c t = true -> tmem c (view_roles_add docs t) = true.
Proof.
  unfold view_roles_add; induction docs as [|x docs IH]; intros t c H; cbn [fold_left]; auto.
  apply IH, tmem_tadd_at_keep, H.
Qed.

Lemma tmem_view_roles_add_doc docs x r s : forall t,
  In x docs -> In (r, s) (sd_racc x) -> (forall s', In (r, s') (sd_racc x) -> 0 < s') ->
  tmem r (view_roles_add docs t) = true.
Proof.
  unfold view_roles_add; induction docs as [|x' docs IH]; intros t Hin Hc Hpos; [destruct Hin |].
  cbn [fold_left]. destruct Hin as [->|Hin]; [| apply IH; auto].
  fold (view_roles_add docs (tadd_at (sd_racc x) 0 t)). apply tmem_view_roles_add_keep.
  apply tmem_tadd_at_new.
  - intros s' Hs'. apply tget_in in Hs'. specialize (Hpos s' Hs'). lia.
  - apply tmem_in; exists s; exact Hc.
Qed.

Lemma uniq_computed_chans k docs explicit : uniq explicit -> uniq (computed_chans k docs explicit).
Proof.
  intros H. unfold computed_chans. apply uniq_tadd. unfold view_add.
  revert explicit H; induction docs as [|x docs IH]; intros t H; cbn [fold_left]; auto.
  apply IH, uniq_tadd_at, H.
Qed.

Lemma uniq_computed_roles docs explicit : uniq (computed_roles docs explicit).
Proof.
  unfold computed_roles. apply uniq_tadd_at. unfold view_roles_add.
  generalize (@nil (N * N)) uniq_nil. induction docs as [|x docs IH]; intros t H; cbn [fold_left]; auto.
  apply IH, uniq_tadd_at, H.
Qed.

(* ---------- the access map of a document ---------- *)
Lemma acc_get_flat_map (f : N -> tset) keys k :
  asc_N keys ->
  acc_get k (flat_map (fun k => match f k with [] => [] | t' => [(k, t')] end) keys) = (if mem k keys then f k else []).
Proof.
  induction keys as [|k0 keys IH]; intros Ha; cbn [flat_map]; [reflexivity |].
  destruct Ha as [Hk0 Ha]. specialize (IH Ha).
  unfold mem; cbn [existsb]. fold (mem k keys).
  destruct (k =? k0) eqn:E.
  - apply N.eqb_eq in E; subst k0. cbn [orb].
    destruct (f k) as [|p t'] eqn:Ef.
    + cbn [app]. rewrite IH.
      replace (mem k keys) with false; auto. symmetry; apply mem_false. intros Hin. specialize (Hk0 k Hin). lia.
    + cbn [app acc_get]. rewrite N.eqb_refl. reflexivity.
  - cbn [orb]. destruct (f k0) as [|p t'] eqn:Ef; cbn [app]; [exact IH |].
    cbn [acc_get]. rewrite N.eqb_sym, E. exact IH.
Qed.

Lemma acc_get_none k (l : list (N * tset)) : ~ In k (map fst l) -> acc_get k l = [].
Proof.
  induction l as [|[k' t] l IH]; cbn [acc_get map fst]; auto. intros Hn.
  destruct (k' =? k) eqn:E; [apply N.eqb_eq in E; subst; exfalso; apply Hn; left; reflexivity |].
  apply IH; intros H; apply Hn; right; exact H.
Qed.

Lemma acc_for_none k (acc : list (N * list N)) : ~ In k (map fst acc) -> acc_for k acc = [].
Proof.
  intros Hn. unfold acc_for.
  replace (flat_map (fun '(k', v) => if k' =? k then v else []) acc) with (@nil N); [reflexivity |].
  symmetry. induction acc as [|[k' v] acc IH]; cbn [flat_map]; auto.
  cbn [map fst] in Hn. destruct (k' =? k) eqn:E; [apply N.eqb_eq in E; subst; exfalso; apply Hn; left; reflexivity |].
  cbn [app]. apply IH; intros H; apply Hn; right; exact H.
Qed.

(* the new access map, grantee by grantee *)
Lemma update_access_get old acc s k :
  acc_get k (fst (update_access old acc s)) = update_at_seq (acc_get k old) (acc_for k acc) s.
Proof.
  unfold update_access; cbn [fst].
  rewrite (acc_get_flat_map (fun k => update_at_seq (acc_get k old) (acc_for k acc) s)) by apply asc_sorted_set.
  destruct (mem k (acc_keys old acc)) eqn:E; auto.
  apply mem_false in E. unfold acc_keys in E. rewrite in_sorted_set, in_app_iff in E.
  rewrite acc_get_none, acc_for_none by tauto. reflexivity.
Qed.

Lemma update_access_unchanged old acc s k :
  ~ In k (snd (update_access old acc s)) -> acc_get k (fst (update_access old acc s)) = acc_get k old.
Proof.
  intros Hn. rewrite update_access_get. apply update_at_seq_same.
  unfold update_access in Hn; cbn [snd] in Hn. rewrite filter_In in Hn.
  destruct (same_keys (acc_get k old) (acc_for k acc)) eqn:E; auto.
  destruct (mem k (acc_keys old acc)) eqn:Em.
  - exfalso; apply Hn; split; [apply mem_in; exact Em | reflexivity].
  - apply mem_false in Em. unfold acc_keys in Em. rewrite in_sorted_set, in_app_iff in Em.
    rewrite acc_get_none, acc_for_none in E by tauto. discriminate.
Qed.

(* ---------- the association list of documents ---------- *)
Lemma doc_get_put_same x l : doc_get (sd_id x) (doc_put x l) = Some x.
Proof.
  induction l as [|y l IH]; cbn [doc_put doc_get]; [rewrite N.eqb_refl; reflexivity |].
  destruct (sd_id x <? sd_id y) eqn:E1; cbn [doc_get]; [rewrite N.eqb_refl; reflexivity |].
  destruct (sd_id x =? sd_id y) eqn:E2; cbn [doc_get]; [rewrite N.eqb_refl; reflexivity |].
  rewrite N.eqb_sym, E2. exact IH.
Qed.

Lemma doc_get_put_other x d l : d <> sd_id x -> doc_get d (doc_put x l) = doc_get d l.
Proof.
  intros Hne; induction l as [|y l IH]; cbn [doc_put doc_get].
  - destruct (sd_id x =? d) eqn:E; [apply N.eqb_eq in E; congruence | reflexivity].
  - destruct (sd_id x <? sd_id y) eqn:E1; cbn [doc_get].
    + destruct (sd_id x =? d) eqn:E; [apply N.eqb_eq in E; congruence | reflexivity].
    + destruct (sd_id x =? sd_id y) eqn:E2; cbn [doc_get].
      * apply N.eqb_eq in E2. rewrite <- E2.
        destruct (sd_id x =? d) eqn:E; [apply N.eqb_eq in E; congruence | reflexivity].
      * destruct (sd_id y =? d); auto.
Qed.

Fixpoint ids_asc (l : list sdoc) : Prop :=
  match l with
  | [] => True
  | x :: r => (forall y, In y r -> sd_id x < sd_id y) /\ ids_asc r
  end.

Lemma in_doc_put x l y : ids_asc l -> In y (doc_put x l) -> y = x \/ (In y l /\ sd_id y <> sd_id x).
Proof.
  induction l as [|z l IH]; intros Ha; cbn [doc_put]; [intros [<-|[]]; auto |].
  destruct Ha as [Hz Ha].
  destruct (sd_id x <? sd_id z) eqn:E1.
  - intros [<-|[<-|Hy]]; auto.
    + right; split; [left; reflexivity | lia].
    + right; split; [right; exact Hy |]. specialize (Hz y Hy). lia.
  - destruct (sd_id x =? sd_id z) eqn:E2.
    + apply N.eqb_eq in E2. intros [<-|Hy]; auto. right; split; [right; exact Hy |]. specialize (Hz y Hy). lia.
    + intros [<-|Hy].
      * right; split; [left; reflexivity |]. intros Heq; rewrite Heq, N.eqb_refl in E2; discriminate.
      * apply IH in Hy as [->|[Hy Hne]]; auto. right; split; [right; exact Hy | exact Hne].
Qed.

Lemma in_doc_put_rev x l y : In y l -> sd_id y <> sd_id x -> In y (doc_put x l).
Proof.
  induction l as [|z l IH]; intros Hin Hne; [destruct Hin |]. cbn [doc_put].
  destruct (sd_id x <? sd_id z) eqn:E1; [right; exact Hin |].
  destruct (sd_id x =? sd_id z) eqn:E2.
  - apply N.eqb_eq in E2. destruct Hin as [<-|Hin]; [congruence | right; exact Hin].
  - destruct Hin as [<-|Hin]; [left; reflexivity | right; apply IH; auto].
Qed.

Lemma in_doc_put_new x l : In x (doc_put x l).
Proof.
  induction l as [|z l IH]; cbn [doc_put]; [left; reflexivity |].
  destruct (sd_id x <? sd_id z); [left; reflexivity |]. destruct (sd_id x =? sd_id z); [left; reflexivity | right; exact IH].
Qed.

Lemma ids_asc_put x l : ids_asc l -> ids_asc (doc_put x l).
Proof.
  induction l as [|z l IH]; intros Ha; cbn [doc_put]; [cbn; split; [intros y [] | exact I] |].
  pose proof Ha as [Hz Ha'].
  destruct (sd_id x <? sd_id z) eqn:E1.
  - cbn [ids_asc]; split; [| exact Ha]. intros y [<-|Hy]; [lia | specialize (Hz y Hy); lia].
  - destruct (sd_id x =? sd_id z) eqn:E2.
    + apply N.eqb_eq in E2. cbn [ids_asc]; split; auto. intros y Hy. rewrite E2; auto.
    + cbn [ids_asc]; split; [| apply IH; exact Ha'].
      intros y Hy. apply in_doc_put in Hy as [->|[Hy _]]; auto.
      assert (sd_id x <> sd_id z) by (intros Heq; rewrite Heq, N.eqb_refl in E2; discriminate). lia.
Qed.

Lemma doc_get_in d l x : doc_get d l = Some x -> In x l /\ sd_id x = d.
Proof.
  induction l as [|y l IH]; cbn [doc_get]; [discriminate |].
  destruct (sd_id y =? d) eqn:E.
  - intros H; inversion H; subst. split; [left; reflexivity | apply N.eqb_eq; exact E].
  - intros H; apply IH in H as [H1 H2]. split; [right; exact H1 | exact H2].
Qed.

Lemma in_doc_get l x : ids_asc l -> In x l -> doc_get (sd_id x) l = Some x.
Proof.
  induction l as [|y l IH]; intros Ha Hin; [destruct Hin |]. destruct Ha as [Hy Ha].
  cbn [doc_get]. destruct Hin as [<-|Hin]; [rewrite N.eqb_refl; reflexivity |].
  destruct (sd_id y =? sd_id x) eqn:E; [| apply IH; auto].
  apply N.eqb_eq in E. specialize (Hy x Hin). lia.
Qed.

(* ---------- the channel-set history across a write (DocHist.update_channels) ---------- *)
Definition ent_name (d : docent) : N := let '(n, _, _) := d in n.

Lemma find_ent_spec c cs n s e : find_ent c cs = Some (n, s, e) -> n = c /\ In (n, s, e) cs.
Proof.
  induction cs as [|[[n' s'] e'] r IH]; cbn [find_ent]; [discriminate |].
  destruct (n' =? c) eqn:E.
  - intros H; inversion H; subst. split; [apply N.eqb_eq; exact E | left; reflexivity].
  - intros H; apply IH in H as [H1 H2]. split; [exact H1 | right; exact H2].
Qed.

Lemma in_replace_ent c x cs y : In y (replace_ent c x cs) -> y = x \/ In y cs.
Proof.
  induction cs as [|[[n s] e] r IH]; cbn [replace_ent]; [intros [] |].
  destruct (n =? c).
  - intros [<-|H]; [left; reflexivity | right; right; exact H].
  - intros [<-|H]; [right; left; reflexivity |]. apply IH in H as [H|H]; [left; exact H | right; right; exact H].
Qed.

Lemma in_replace_ent_keep c x cs y : In y cs -> In y (replace_ent c x cs) \/ find_ent c cs = Some y.
Proof.
  induction cs as [|[[n s] e] r IH]; [intros [] |]. cbn [replace_ent find_ent].
  destruct (n =? c).
  - intros [<-|H]; [right; reflexivity | left; right; exact H].
  - intros [<-|H]; [left; left; reflexivity |]. apply IH in H as [H|H]; [left; right; exact H | right; exact H].
Qed.

Lemma find_ent_replace_same c x cs : ent_name x = c -> find_ent c cs <> None -> find_ent c (replace_ent c x cs) = Some x.
Proof.
  intros Hx. induction cs as [|[[n s] e] r IH]; cbn [replace_ent find_ent]; [congruence |].
  destruct (n =? c) eqn:E.
  - intros _. destruct x as [[nx sx] ex]. cbn in Hx; subst nx. cbn [find_ent]. rewrite N.eqb_refl. reflexivity.
  - intros H. cbn [find_ent]. rewrite E. apply IH; exact H.
Qed.

Lemma find_ent_replace_other c c' x cs : ent_name x = c -> c' <> c -> find_ent c' (replace_ent c x cs) = find_ent c' cs.
Proof.
  intros Hx Hne. induction cs as [|[[n s] e] r IH]; cbn [replace_ent find_ent]; auto.
  destruct (n =? c) eqn:E.
  - apply N.eqb_eq in E; subst n. destruct x as [[nx sx] ex]. cbn in Hx; subst nx. cbn [find_ent].
    destruct (c =? c') eqn:E2; [apply N.eqb_eq in E2; congruence | reflexivity].
  - cbn [find_ent]. destruct (n =? c'); auto.
Qed.

Lemma find_ent_app c cs y :
  find_ent c (cs ++ [y]) = match find_ent c cs with Some z => Some z | None => if ent_name y =? c then Some y else None end.
Proof.
  induction cs as [|[[n s] e] r IH]; cbn [app find_ent].
  - destruct y as [[ny sy] ey]. cbn [ent_name]. destruct (ny =? c); reflexivity.
  - destruct (n =? c); auto.
Qed.

Definition nomerge (h : list docent) : Prop := forall c, (length (starts_of c h) < doc_max_entries)%nat.

Lemma add_to_history_nomerge c e h : (length (starts_of c h) < doc_max_entries)%nat -> add_to_history c e h = h ++ [e].
Proof.
  intros H. unfold add_to_history. replace (Nat.leb doc_max_entries (length (starts_of c h))) with false; auto.
  symmetry; apply Nat.leb_gt; exact H.
Qed.

Lemma starts_of_app_other c h e : ent_name e <> c -> starts_of c (h ++ [e]) = starts_of c h.
Proof.
  intros Hne. unfold starts_of. rewrite flat_map_app. cbn [flat_map]. destruct e as [[n s] e']. cbn [ent_name] in Hne.
  destruct (n =? c) eqn:E; [apply N.eqb_eq in E; congruence |]. rewrite !app_nil_r. reflexivity.
Qed.

(* the document was in channel c0 at sequence K: a period of c0 that started at or before K and is open or ended later *)
Definition dcov (c0 K : N) (st : list docent * list docent) : Prop :=
  exists s e, In (c0, s, e) (fst st ++ snd st) /\ s <= K /\ (e = 0 \/ K < e).

Lemma update_history_dcov c0 K c seq add st :
  K < seq -> (length (starts_of c (snd st)) < doc_max_entries)%nat ->
  dcov c0 K st -> dcov c0 K (update_history c seq add st).
Proof.
  intros Hseq Hnm (s & e & Hin & Hs & He). destruct st as [cs h]. cbn [fst snd] in *.
  unfold update_history. destruct (find_ent c cs) as [[[n s1] e1]|] eqn:Ef.
  - destruct (find_ent_spec _ _ _ _ _ Ef) as [-> Hin1].
    destruct add.
    + destruct (e1 =? 0) eqn:E0; [exists s, e; auto |].
      rewrite add_to_history_nomerge by exact Hnm. cbn [fst snd].
      apply in_app_or in Hin as [Hin|Hin].
      * destruct (in_replace_ent_keep c (c, seq, 0) cs _ Hin) as [H|H].
        -- exists s, e. split; auto. apply in_or_app; left; exact H.
        -- rewrite Ef in H; inversion H; subst. exists s, e. split; auto.
           apply in_or_app; right. apply in_or_app; right; left; reflexivity.
      * exists s, e. split; auto. apply in_or_app; right. apply in_or_app; left; exact Hin.
    + cbn [fst snd]. apply in_app_or in Hin as [Hin|Hin].
      * destruct (in_replace_ent_keep c (c, s1, seq) cs _ Hin) as [H|H].
        -- exists s, e. split; auto. apply in_or_app; left; exact H.
        -- rewrite Ef in H; inversion H; subst. exists s, seq. split; [| split; [exact Hs | right; exact Hseq]].
           apply in_or_app; left. clear -Ef. induction cs as [|[[n' s'] e'] r IH]; cbn [find_ent replace_ent] in *; [discriminate |].
           destruct (n' =? c0); [left; reflexivity | right; apply IH; exact Ef].
      * exists s, e. split; auto. apply in_or_app; right; exact Hin.
  - destruct add; cbn [fst snd]; exists s, e; (split; [| auto]);
      (apply in_app_or in Hin as [Hin|Hin]; [apply in_or_app; left; apply in_or_app; left; exact Hin | apply in_or_app; right; exact Hin]).
Qed.

(* history entries are only appended, and only entries of the channel being processed *)
Lemma update_history_snd c seq add st :
  (length (starts_of c (snd st)) < doc_max_entries)%nat ->
  snd (update_history c seq add st) = snd st \/ exists e, ent_name e = c /\ snd (update_history c seq add st) = snd st ++ [e].
Proof.
  intros Hnm. destruct st as [cs h]. cbn [snd] in *. unfold update_history.
  destruct (find_ent c cs) as [[[n s1] e1]|] eqn:Ef.
  - destruct (find_ent_spec _ _ _ _ _ Ef) as [-> _]. destruct add; [| left; reflexivity].
    destruct (e1 =? 0); [left; reflexivity |]. right. exists (c, s1, e1). split; [reflexivity |].
    cbn [snd]. apply add_to_history_nomerge; exact Hnm.
  - destruct add; left; reflexivity.
Qed.

Lemma update_history_removal_snd c seq st : snd (update_history c seq false st) = snd st.
Proof.
  destruct st as [cs h]. unfold update_history. destruct (find_ent c cs) as [[[n s1] e1]|]; reflexivity.
Qed.

Definition uc_rem (new_ : list N) (seq : N) (l : list N) (st : list docent * list docent) :=
  fold_left (fun st c => if existsb (N.eqb c) new_ then st else update_history c seq false st) l st.
Definition uc_add (active : list N) (seq : N) (l : list N) (st : list docent * list docent) :=
  fold_left (fun st c => if existsb (N.eqb c) active then st else update_history c seq true st) l st.

Lemma update_channels_eq active new_ seq st :
  update_channels active new_ seq st = uc_add active seq new_ (uc_rem new_ seq active st).
Proof. reflexivity. Qed.

Lemma uc_rem_snd new_ seq l : forall st, snd (uc_rem new_ seq l st) = snd st.
Proof.
  unfold uc_rem; induction l as [|c l IH]; intros st; cbn [fold_left]; auto.
  rewrite IH. destruct (existsb (N.eqb c) new_); auto. apply update_history_removal_snd.
Qed.

(* a property of (ChannelSet, ChannelSetHistory) that every single update preserves is preserved by the write *)
Lemma update_channels_preserves (P : list docent * list docent -> Prop) active new_ seq st :
  NoDup new_ -> nomerge (snd st) ->
  (forall c add st0, (length (starts_of c (snd st0)) < doc_max_entries)%nat -> P st0 -> P (update_history c seq add st0)) ->
  P st -> P (update_channels active new_ seq st).
Proof.
  intros Hnd Hnm Hstep HP. rewrite update_channels_eq.
  assert (forall l st0, nomerge (snd st0) -> P st0 -> P (uc_rem new_ seq l st0)) as Hrem.
  { unfold uc_rem; induction l as [|c l IH]; intros st0 Hn0 Hp0; cbn [fold_left]; auto.
    apply IH.
    - destruct (existsb (N.eqb c) new_); auto. rewrite update_history_removal_snd; exact Hn0.
    - destruct (existsb (N.eqb c) new_); auto. }
  assert (forall l st0, NoDup l -> (forall c, In c l -> (length (starts_of c (snd st0)) < doc_max_entries)%nat) -> P st0 ->
            P (uc_add active seq l st0)) as Hadd.
  { unfold uc_add; induction l as [|c l IH]; intros st0 Hnd0 Hn0 Hp0; cbn [fold_left]; auto.
    inversion Hnd0 as [|? ? Hnotin Hnd']; subst.
    apply IH; auto.
    - intros c' Hc'. destruct (existsb (N.eqb c) active); [apply Hn0; right; exact Hc' |].
      destruct (update_history_snd c seq true st0 (Hn0 c (or_introl eq_refl))) as [->|(e & He & ->)]; [apply Hn0; right; exact Hc' |].
      rewrite starts_of_app_other; [apply Hn0; right; exact Hc' |]. rewrite He. intros ->; contradiction.
    - destruct (existsb (N.eqb c) active); auto. apply Hstep; auto. apply Hn0; left; reflexivity. }
  apply Hadd; auto.
  - intros c _. rewrite uc_rem_snd. apply Hnm.
Qed.

Lemma update_channels_dcov c0 K active new_ seq st :
  NoDup new_ -> nomerge (snd st) -> K < seq ->
  dcov c0 K st -> dcov c0 K (update_channels active new_ seq st).
Proof.
  intros Hnd Hnm Hseq Hd. apply update_channels_preserves; auto.
  intros c add st0 Hn Hp. apply update_history_dcov; auto.
Qed.

(* after a write every channel of the new revision has an open period, the first of its name *)
Definition open_first (c : N) (cs : list docent) : Prop := exists s, find_ent c cs = Some (c, s, 0).

Lemma update_history_open_other c c' seq add st :
  c' <> c -> find_ent c' (fst (update_history c seq add st)) = find_ent c' (fst st).
Proof.
  intros Hne. destruct st as [cs h]. cbn [fst]. unfold update_history.
  destruct (find_ent c cs) as [[[n s1] e1]|] eqn:Ef.
  - destruct (find_ent_spec _ _ _ _ _ Ef) as [-> _]. destruct add.
    + destruct (e1 =? 0); [reflexivity |]. cbn [fst]. apply find_ent_replace_other; auto.
    + cbn [fst]. apply find_ent_replace_other; auto.
  - destruct add; cbn [fst]; rewrite find_ent_app; destruct (find_ent c' cs); auto; cbn [ent_name];
      (destruct (c =? c') eqn:E; [apply N.eqb_eq in E; congruence | reflexivity]).
Qed.

Lemma update_history_open_add c seq st : open_first c (fst (update_history c seq true st)).
Proof.
  destruct st as [cs h]. unfold update_history, open_first.
  destruct (find_ent c cs) as [[[n s1] e1]|] eqn:Ef.
  - destruct (find_ent_spec _ _ _ _ _ Ef) as [-> _].
    destruct (e1 =? 0) eqn:E0.
    + apply N.eqb_eq in E0; subst e1. cbn [fst]. exists s1; exact Ef.
    + cbn [fst]. exists seq. apply find_ent_replace_same; [reflexivity | congruence].
  - cbn [fst]. exists seq. rewrite find_ent_app, Ef. cbn [ent_name]. rewrite N.eqb_refl. reflexivity.
Qed.

Lemma update_channels_open active new_ seq st c :
  (forall c, In c active -> open_first c (fst st)) ->
  In c new_ -> open_first c (fst (update_channels active new_ seq st)).
Proof.
  intros Hact Hc. rewrite update_channels_eq.
  assert (forall l st0, find_ent c (fst (uc_rem new_ seq l st0)) = find_ent c (fst st0)) as H1.
  { unfold uc_rem; induction l as [|a l IH]; intros st0; cbn [fold_left]; auto.
    rewrite IH. destruct (existsb (N.eqb a) new_) eqn:Ea; auto. apply update_history_open_other.
    intros ->. change (mem a new_ = false) in Ea. apply mem_false in Ea. contradiction. }
  assert (forall l st0,
            (open_first c (fst st0) \/ (In c l /\ existsb (N.eqb c) active = false)) ->
            open_first c (fst (uc_add active seq l st0))) as H2.
  { unfold uc_add; induction l as [|a l IH]; intros st0 H; cbn [fold_left].
    - destruct H as [H|[[] _]]; exact H.
    - apply IH. destruct (N.eq_dec a c) as [->|Hne].
      + destruct (existsb (N.eqb c) active) eqn:Ea.
        * destruct H as [H|[_ H]]; [left; exact H | congruence].
        * left. apply update_history_open_add.
      + destruct H as [H|[[Heq|Hin] Hm]]; [| congruence | right; auto].
        left. destruct (existsb (N.eqb a) active); auto. unfold open_first. rewrite update_history_open_other by congruence. exact H. }
  apply H2.
  destruct (existsb (N.eqb c) active) eqn:Ea.
  - left. unfold open_first. rewrite H1. apply Hact. change (mem c active = true) in Ea. apply mem_in; exact Ea.
  - right; auto.
Qed.

(* starts of the periods: never above the write's sequence *)
Definition starts_below (b : N) (l : list docent) : Prop := forall n s e, In (n, s, e) l -> s <= b.

Lemma update_history_starts b c seq add st :
  1 <= b -> seq <= b -> (length (starts_of c (snd st)) < doc_max_entries)%nat ->
  starts_below b (fst st ++ snd st) -> starts_below b (fst (update_history c seq add st) ++ snd (update_history c seq add st)).
Proof.
  intros Hb Hseq Hnm Hs. destruct st as [cs h]. cbn [fst snd] in *. unfold update_history.
  destruct (find_ent c cs) as [[[n s1] e1]|] eqn:Ef.
  - destruct (find_ent_spec _ _ _ _ _ Ef) as [-> Hin1].
    assert (s1 <= b) as Hs1 by (eapply Hs; apply in_or_app; left; exact Hin1).
    destruct add.
    + destruct (e1 =? 0); [exact Hs |]. rewrite add_to_history_nomerge by exact Hnm. cbn [fst snd].
      intros n s e Hin. apply in_app_or in Hin as [Hin|Hin].
      * apply in_replace_ent in Hin as [Heq|Hin]; [inversion Heq; subst; exact Hseq | eapply Hs; apply in_or_app; left; exact Hin].
      * apply in_app_or in Hin as [Hin|[Heq|[]]]; [eapply Hs; apply in_or_app; right; exact Hin | inversion Heq; subst; exact Hs1].
    + cbn [fst snd]. intros n s e Hin. apply in_app_or in Hin as [Hin|Hin].
      * apply in_replace_ent in Hin as [Heq|Hin]; [inversion Heq; subst; exact Hs1 | eapply Hs; apply in_or_app; left; exact Hin].
      * eapply Hs; apply in_or_app; right; exact Hin.
  - destruct add; cbn [fst snd]; intros n s e Hin; apply in_app_or in Hin as [Hin|Hin];
      try (eapply Hs; apply in_or_app; right; exact Hin);
      (apply in_app_or in Hin as [Hin|[Heq|[]]]; [eapply Hs; apply in_or_app; left; exact Hin | inversion Heq; subst; lia]).
Qed.

Lemma update_channels_starts b active new_ seq st :
  NoDup new_ -> nomerge (snd st) -> 1 <= b -> seq <= b ->
  starts_below b (fst st ++ snd st) ->
  starts_below b (fst (update_channels active new_ seq st) ++ snd (update_channels active new_ seq st)).
Proof.
  intros Hnd Hnm Hb Hseq Hs.
  apply (update_channels_preserves (fun st => starts_below b (fst st ++ snd st))); auto.
  intros c add st0 Hn Hp. apply update_history_starts; auto.
Qed.

(* ---------- removal entries ---------- *)
Definition rm_find (c : N) (l : list (N * (N * N * bool))) := find (fun '(k, _) => k =? c) l.

Lemma rm_find_put c c' v l : rm_find c' (rm_put c v l) = if c' =? c then Some (c, v) else rm_find c' l.
Proof.
  unfold rm_find. induction l as [|[k w] r IH]; cbn [rm_put find].
  - rewrite N.eqb_sym. destruct (c' =? c); reflexivity.
  - destruct (k =? c) eqn:E.
    + apply N.eqb_eq in E; subst k. cbn [find]. rewrite (N.eqb_sym c c'). destruct (c' =? c); reflexivity.
    + cbn [find]. destruct (k =? c') eqn:E2.
      * apply N.eqb_eq in E2; subst k. rewrite N.eqb_sym in E. rewrite N.eqb_sym, E. reflexivity.
      * exact IH.
Qed.

Lemma rm_find_fold v left_ : forall l c',
  rm_find c' (fold_left (fun acc c => rm_put c v acc) left_ l) = if mem c' left_ then Some (c', v) else rm_find c' l.
Proof.
  induction left_ as [|c left_ IH]; intros l c'; cbn [fold_left]; [reflexivity |].
  rewrite IH, rm_find_put. unfold mem; cbn [existsb]. fold (mem c' left_).
  destruct (mem c' left_); [rewrite orb_true_r; reflexivity |]. rewrite orb_false_r.
  destruct (c' =? c) eqn:E; [apply N.eqb_eq in E; subst; reflexivity | reflexivity].
Qed.

Lemma rm_find_filter (p : N -> bool) l c :
  rm_find c (filter (fun '(k, _) => p k) l) = if p c then rm_find c l else None.
Proof.
  unfold rm_find. induction l as [|[k w] r IH]; cbn [filter find]; [destruct (p c); reflexivity |].
  destruct (p k) eqn:Ep; cbn [find].
  - destruct (k =? c) eqn:E; [apply N.eqb_eq in E; subst; rewrite Ep; reflexivity | exact IH].
  - destruct (k =? c) eqn:E; [apply N.eqb_eq in E; subst; rewrite Ep in *; exact IH | exact IH].
Qed.

Lemma rm_find_key c l k v : rm_find c l = Some (k, v) -> k = c /\ In (k, v) l.
Proof.
  unfold rm_find; intros H. apply find_some in H as [H1 H2]. apply N.eqb_eq in H2. auto.
Qed.

Lemma rm_find_in c v l : In (c, v) l -> exists v', rm_find c l = Some (c, v').
Proof.
  unfold rm_find. induction l as [|[k w] r IH]; [intros [] |]. cbn [find].
  destruct (k =? c) eqn:E; [apply N.eqb_eq in E; subst; eexists; reflexivity |].
  intros [Heq|Hin]; [inversion Heq; subst; rewrite N.eqb_refl in E; discriminate | auto].
Qed.

(* ---------- the per-channel logs ---------- *)
Definition contributes (c : N) (x : sdoc) (e : logentry) : Prop :=
  (mem c (sd_active x) = true /\ e = mkLog (sd_seq x) (sd_id x) (sd_rev x) false false) \/
  (mem c (sd_active x) = false /\ exists s rev del, rm_find c (sd_removed x) = Some (c, (s, rev, del))
                                                     /\ e = mkLog s (sd_id x) rev true del).

Lemma in_insert_log e l y : In y (insert_log e l) <-> y = e \/ In y l.
Proof.
  induction l as [|x l IH]; cbn [insert_log]; [cbn; intuition |].
  destruct (le_seq e <? le_seq x); [cbn; intuition |]. cbn [In]. rewrite IH. intuition.
Qed.

Lemma chan_log_step c x acc e :
  In e (if mem c (sd_active x) then insert_log (mkLog (sd_seq x) (sd_id x) (sd_rev x) false false) acc
        else match find (fun '(k, _) => k =? c) (sd_removed x) with
             | Some (_, (s, rev, del)) => insert_log (mkLog s (sd_id x) rev true del) acc
             | None => acc
             end) <-> In e acc \/ contributes c x e.
Proof.
  unfold contributes. fold (rm_find c (sd_removed x)). destruct (mem c (sd_active x)) eqn:Em.
  - rewrite in_insert_log. split; [intros [->|H]; auto | intros [H|[[_ ->]|[H _]]]; auto; discriminate].
  - destruct (rm_find c (sd_removed x)) as [[k [[s rev] del]]|] eqn:Ef.
    + destruct (rm_find_key _ _ _ _ Ef) as [-> _]. rewrite in_insert_log. split.
      * intros [->|H]; auto. right; right; split; auto. exists s, rev, del; auto.
      * intros [H|[[H _]|(_ & s' & rev' & del' & Heq & ->)]]; auto; [discriminate |]. inversion Heq; subst; auto.
    + split; auto. intros [H|[[H _]|(_ & s' & rev' & del' & Heq & _)]]; auto; discriminate.
Qed.

Lemma in_chan_log c docs e : In e (chan_log c docs) <-> exists x, In x docs /\ contributes c x e.
Proof.
  unfold chan_log.
  assert (forall acc, In e (fold_left (fun acc x =>
               if mem c (sd_active x) then insert_log (mkLog (sd_seq x) (sd_id x) (sd_rev x) false false) acc
               else match find (fun '(k, _) => k =? c) (sd_removed x) with
                    | Some (_, (s, rev, del)) => insert_log (mkLog s (sd_id x) rev true del) acc
                    | None => acc
                    end) docs acc) <-> In e acc \/ exists x, In x docs /\ contributes c x e) as K.
  { induction docs as [|x docs IH]; intros acc; cbn [fold_left].
    - split; auto. intros [H|(x & [] & _)]; auto.
    - rewrite IH, chan_log_step. split.
      + intros [[H|H]|(x' & Hin & Hc)]; auto; right; [exists x; split; auto; left; reflexivity | exists x'; split; auto; right; exact Hin].
      + intros [H|(x' & [<-|Hin] & Hc)]; auto. right; exists x'; auto. }
  rewrite K. split; [intros [[]|H]; exact H | auto].
Qed.

(* the sequences a document owns: that of its current revision and those of its removal entries *)
Definition owns (x : sdoc) (q : N) : Prop :=
  q = sd_seq x \/ exists c rev del, In (c, (q, rev, del)) (sd_removed x).

Lemma contributes_owns c x e : contributes c x e -> owns x (le_seq e) /\ le_doc e = sd_id x.
Proof.
  intros [[_ ->]|(_ & s & rev & del & Hf & ->)]; cbn [le_seq le_doc]; split; auto.
  - left; reflexivity.
  - right. destruct (rm_find_key _ _ _ _ Hf) as [_ Hin]. exists c, rev, del; exact Hin.
Qed.

Lemma asc_insert_log e l : asc_log l -> (forall y, In y l -> le_seq y <> le_seq e) -> asc_log (insert_log e l).
Proof.
  induction l as [|x l IH]; intros Ha Hne; cbn [insert_log]; [cbn; split; [intros y [] | exact I] |].
  destruct Ha as [Hx Ha].
  destruct (le_seq e <? le_seq x) eqn:E.
  - cbn [asc_log]; split; [| split; auto]. intros y [<-|Hy]; [lia | specialize (Hx y Hy); lia].
  - cbn [asc_log]; split; [| apply IH; auto; intros y Hy; apply Hne; right; exact Hy].
    intros y Hy. apply in_insert_log in Hy as [->|Hy]; auto.
    assert (le_seq x <> le_seq e) by (apply Hne; left; reflexivity). lia.
Qed.

Definition seqs_disjoint (docs : list sdoc) : Prop :=
  forall x x' q, In x docs -> In x' docs -> owns x q -> owns x' q -> sd_id x = sd_id x'.

Lemma chan_log_asc c docs : ids_asc docs -> seqs_disjoint docs -> asc_log (chan_log c docs).
Proof.
  intros Hids Hdis. unfold chan_log.
  assert (forall l acc, (forall x, In x l -> In x docs) -> ids_asc l ->
            asc_log acc ->
            (forall e x, In e acc -> In x l -> ~ owns x (le_seq e)) ->
            asc_log (fold_left (fun acc x =>
               if mem c (sd_active x) then insert_log (mkLog (sd_seq x) (sd_id x) (sd_rev x) false false) acc
               else match find (fun '(k, _) => k =? c) (sd_removed x) with
                    | Some (_, (s, rev, del)) => insert_log (mkLog s (sd_id x) rev true del) acc
                    | None => acc
                    end) l acc)) as K.
  { induction l as [|x l IH]; intros acc Hsub Hasc Ha Hown; cbn [fold_left]; auto.
    destruct Hasc as [Hx Hasc].
    assert (forall e, contributes c x e -> forall y, In y acc -> le_seq y <> le_seq e) as Hfresh.
    { intros e Hc y Hy Heq. apply contributes_owns in Hc as [Hc _]. apply (Hown y x Hy (or_introl eq_refl)). rewrite Heq; exact Hc. }
    apply IH; auto.
    - intros x' Hx'; apply Hsub; right; exact Hx'.
    - fold (rm_find c (sd_removed x)). destruct (mem c (sd_active x)) eqn:Em.
      + apply asc_insert_log; auto. apply Hfresh. left; auto.
      + destruct (rm_find c (sd_removed x)) as [[k [[s rev] del]]|] eqn:Ef; auto.
        destruct (rm_find_key _ _ _ _ Ef) as [-> _].
        apply asc_insert_log; auto. apply Hfresh. right; split; auto. exists s, rev, del; auto.
    - intros e x' He Hx'. apply chan_log_step in He as [He|He]; [apply (Hown e x' He); right; exact Hx' |].
      apply contributes_owns in He as [He _]. intros Ho.
      assert (sd_id x = sd_id x') as Heq by (eapply Hdis; eauto; apply Hsub; [left; reflexivity | right; exact Hx']).
      specialize (Hx x' Hx'). lia. }
  apply K; auto; try (cbn; exact I); try (intros e x []).
Qed.

(* the snapshot lists the log of every channel some document mentions *)
Lemma log_of_map (f : N -> list logentry) l c : log_of c (map (fun c => (c, f c)) l) = if mem c l then f c else [].
Proof.
  induction l as [|k l IH]; cbn [map log_of]; [reflexivity |].
  unfold mem; cbn [existsb]. fold (mem c l). rewrite (N.eqb_sym c k).
  destruct (k =? c) eqn:E; [apply N.eqb_eq in E; subst; reflexivity | exact IH].
Qed.

Lemma chan_log_nil c docs : ~ In c (doc_chans docs) -> chan_log c docs = [].
Proof.
  intros Hn. destruct (chan_log c docs) as [|e l] eqn:E; auto. exfalso.
  assert (In e (chan_log c docs)) as Hin by (rewrite E; left; reflexivity).
  apply in_chan_log in Hin as (x & Hx & Hc). apply Hn. unfold doc_chans. apply in_sorted_set, in_flat_map.
  exists x; split; auto. apply in_or_app. destruct Hc as [[Hm _]|(_ & s & rev & del & Hf & _)].
  - left; apply mem_in; exact Hm.
  - right. destruct (rm_find_key _ _ _ _ Hf) as [_ Hin]. apply (in_map fst) in Hin; exact Hin.
Qed.

Lemma log_of_snapshot y c : log_of c (s_logs (snapshot_of y)) = chan_log c (y_docs y).
Proof.
  unfold snapshot_of; cbn [s_logs]. rewrite log_of_map.
  destruct (mem c (log_chans (y_docs y))) eqn:E; auto.
  symmetry; apply chan_log_nil. apply mem_false in E. intros Hin. apply E. unfold log_chans.
  apply in_or_app. destruct (mem c all_chans) eqn:Ea; [left; apply mem_in; exact Ea |].
  right. apply filter_In; split; auto. rewrite Ea; reflexivity.
Qed.
