(* C13: the hypotheses of the end-to-end theorem, as executable predicates over histories of the whole-system model
   (Sys.v).  Each one excludes the shape of ONE recorded defect of the unchanged code (C13_Refuted.v shows, per
   hypothesis, a history that satisfies all the others and violates the conclusion), plus the modelling assumptions
   (names in scope, no history entry merged away, sequences below 2^64). *)
From SG Require Import Base.Prelude C20.SeqIdGen C20.SeqId C13.Revocation C13.Feed C13.Client C13.DocHist C13.GrantSys C13.PeriodsProofs C13.Sys.
Open Scope N_scope.

(* the state after a list of operations (a pull loads the user and every role) *)
Definition sys_run (ops : list sop) (y : sys) : sys := fold_left sys_step ops y.

(* a predicate on (state before the operation, operation) along a history *)
Fixpoint along (p : sys -> sop -> bool) (ops : list sop) (y : sys) : bool :=
  match ops with
  | [] => true
  | o :: rest => p y o && along p rest (sys_step y o)
  end.

(* ---- (2) known finding */revocation-token-skips-rows: pages.  Every pull is un-limited. ---- *)
Definition op_unlimited (_ : sys) (o : sop) : bool := match o with SPull l => l =? 0 | _ => true end.

(* ---- (1) known finding stale-doc/backfill-skips-removal: a channel the user held at the previous pull is back-filled
   (lost and re-granted in between, or its earliest source lost while a later one persists).  On the trace: a channel
   accessible at two consecutive pulls is stamped, at the second, at or below the first one's cached sequence. ---- *)
Definition obs_chans (o : pullobs) : tset := inherited (s_user (o_snap o)) (s_roles (o_snap o)).
Definition no_refill_pair (o1 o2 : pullobs) : bool :=
  forallb (fun '(c, a) => negb (tmem c (obs_chans o1)) || (a <=? s_cached (o_snap o1))) (obs_chans o2).
Fixpoint no_refill (tr : list pullobs) : bool :=
  match tr with
  | o1 :: rest => match rest with o2 :: _ => no_refill_pair o1 o2 | [] => true end && no_refill rest
  | [] => true
  end.

(* ---- (4) known finding visible-doc-missing/role-created-after-grant: a role is created or re-created while a live
   document grants it a channel. ---- *)
Definition op_no_stale_role (y : sys) (o : sop) : bool :=
  match o with
  | SRChans r _ => match role_get r (g_roles (y_g y)) with
                   | Some (_, false) => true
                   | _ => is_nil (doc_grants r (y_docs y))
                   end
  | _ => true
  end.

(* ---- (5) finding stale-doc/restamped-grant-loses-period (found by this proof attempt): a rebuild keeps a grant but
   stamps it with a LATER sequence (its earliest source -- an explicit grant or a granting document -- went away while
   another source of the same channel for the same principal persists): calculateHistory records nothing, the period
   before the new stamp is forgotten. ---- *)
Definition restamp_free (old new_ : tset) : bool :=
  forallb (fun '(c, s) => match tget c new_ with Some s' => s' <=? s | None => true end) old.
Definition princ_ok (p : princ) (new_ : tset) : bool := (p_inval p =? 0) || restamp_free (p_set p) new_.
(* ---- modelling assumptions ---- *)
(* names: channel 0 is the star channel (outside the model end to end), grantee 0 is the user *)
Definition nz (l : list N) : bool := forallb (fun x => negb (x =? 0)) l.
Definition op_names_ok (_ : sys) (o : sop) : bool :=
  match o with
  | SPut _ chans acc rol => nz chans && forallb (fun '(_, v) => nz v) acc && nz rol
  | SUChans set => nz set
  | SURoles set => nz set
  | SRChans r set => negb (r =? 0) && nz set
  | SDelRole r => negb (r =? 0)
  | _ => true
  end.

Definition all_match (ops : list sop) : bool :=
  forallb (fun o => negb (o_caught o) || same_docs (o_client o) (o_visible o)) (trace ops).

(* ---------- the hypotheses of the theorem ---------- *)
Fixpoint alongP (p : sys -> sop -> Prop) (ops : list sop) (y : sys) : Prop :=
  match ops with
  | [] => True
  | o :: rest => p y o /\ alongP p rest (sys_step y o)
  end.

(* no document channel history is merged (at most 4 earlier periods of a channel per document) *)
Definition docs_unmerged (y : sys) : Prop :=
  forall x c, In x (y_docs y) -> (length (starts_of c (sd_csh x)) < doc_max_entries)%nat.

Definition op_hyp (y : sys) (o : sop) : Prop :=
  op_unlimited y o = true                            (* (2) pages *)
  /\ op_no_stale_role y o = true                     (* (4) role (re-)created after a document granted it a channel *)
  /\ no_restamp (y_g y) (sys_gops y o)               (* (5) a rebuild re-stamps a kept grant with a later sequence *)
  /\ op_names_ok y o = true                          (* channel 0 is "*", grantee 0 the user *)
  /\ docs_unmerged y /\ unpruned (y_g y) (sys_gops y o)   (* no history entry merged away *)
  /\ y_next y + 2 < max64.                           (* sequences below 2^64 *)

(* (1), (2), (4), (5) and the modelling assumptions, for a whole history *)
Definition history_hyps (ops : list sop) : Prop := alongP op_hyp ops sys_init /\ no_refill (trace ops) = true.
