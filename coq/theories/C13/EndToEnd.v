(* C13: the end-to-end theorem.  One un-limited pull on a reachable, loaded state y of the whole-system model, issued
   from a position that lies at or below the cached sequence of the previous pull's state y0, by a client that holds
   exactly the documents visible at y0 with their current revisions, leaves the client with exactly the documents
   visible at y with their current revisions -- provided no channel held at y0 is back-filled at y (hypothesis
   no_refill).  Then the induction over histories. *)
From SG Require Import Base.Prelude C20.SeqIdGen C20.SeqId C20.SeqIdOrder
  C13.Revocation C13.RevocationProofs C13.Feed C13.FeedProofs C13.FeedComplete C13.Client C13.ClientProofs
  C13.DocHist C13.GrantSys C13.GrantSysProofs C13.PeriodsProofs
  C13.MergeSorted C13.Sys C13.SysDocs C13.SysGrants C13.Hyps C13.SysInv C13.SysRel C13.SysSnap.
Open Scope N_scope.

(* ---------- positions ---------- *)
Definition pos_ok (since : seqid) (K0 : N) : Prop :=
  LowSeq since = 0 /\ (TriggeredBy since = 0 \/ Seq since < TriggeredBy since) /\ Seq since <= K0 /\ TriggeredBy since <= K0.

Ltac open_before :=
  unfold before, Before, Before_fuel, mk in *; cbn [Before_f TriggeredBy LowSeq Seq] in *.

Lemma chan_since_some since cached a : a <= cached -> exists cs, chan_since since cached a = Some cs.
Proof.
  intros H. unfold chan_since. replace (cached <? a) with false by lia.
  destruct (_ && _); [eexists; reflexivity |]. destruct (_ && _); eexists; reflexivity.
Qed.

Lemma chan_since_bound since cached a cs : chan_since since cached a = Some cs -> a <= cached.
Proof. unfold chan_since. destruct (cached <? a) eqn:E; [discriminate | lia]. Qed.

Lemma chan_since_fresh since K0 cached a :
  pos_ok since K0 -> K0 < a -> a <= cached -> 1 < a -> chan_since since cached a = Some (a, 0).
Proof.
  intros (Hl & Hb & Hs & Ht) Hk Hc H1. unfold chan_since. replace (cached <? a) with false by lia.
  destruct since as [t l s]; cbn [TriggeredBy LowSeq Seq] in *. subst l.
  replace (1 <? a) with true by lia. replace (a <=? cached) with true by lia.
  assert (before {| TriggeredBy := t; LowSeq := 0; Seq := s |} (mk 0 0 a) = true) as Hbf by (open_before; break_ifs; lia).
  rewrite Hbf. cbn [andb]. replace ((t =? 0) || (t <? a)) with true by lia. reflexivity.
Qed.

(* the shapes of a channel's resume position *)
Lemma chan_since_shape since K0 cached a cs :
  pos_ok since K0 -> chan_since since cached a = Some cs ->
  (cs = (a, 0) /\ (TriggeredBy since = 0 -> Seq since < a) /\ (TriggeredBy since <> 0 -> TriggeredBy since < a))
  \/ (cs = (0, TriggeredBy since - 1) /\ TriggeredBy since <> 0)
  \/ cs = (TriggeredBy since, Seq since).
Proof.
  intros (Hl & Hb & Hs & Ht) H. unfold chan_since in H. destruct (cached <? a); [discriminate |].
  destruct since as [t l s]; cbn [TriggeredBy LowSeq Seq] in *. subst l.
  destruct ((1 <? a) && before {| TriggeredBy := t; LowSeq := 0; Seq := s |} (mk 0 0 a) && (a <=? cached)) eqn:E1.
  - destruct ((t =? 0) || (t <? a)) eqn:E2; cbn [andb] in H.
    + inversion H; subst. left. split; auto. apply andb_true_iff in E1 as [E1 _]. apply andb_true_iff in E1 as [_ E1].
      split; intros Hz; open_before; break_ifs; lia.
    + destruct (negb (t =? 0) && (a <? t)) eqn:E3; inversion H; subst; [right; left; split; auto; lia | right; right; reflexivity].
  - cbn [andb] in H. destruct (negb (t =? 0) && (a <? t)) eqn:E3; inversion H; subst; [right; left; split; auto; lia | right; right; reflexivity].
Qed.

(* a removal entry that is delivered with its trigger cleared lies above everything a later entry's channel resumes from *)
Lemma chan_since_mono since K0 cached a2 cs2 a cs q' q :
  pos_ok since K0 -> chan_since since cached a2 = Some cs2 -> chan_since since cached a = Some cs ->
  snd cs2 < q' -> fst cs2 <= q' -> q' <= q -> snd cs < q.
Proof.
  intros Hp H2 H1 Hlt Hle Hq.
  pose proof Hp as (Hl & Hb & Hs & Ht).
  destruct (chan_since_shape _ _ _ _ _ Hp H2) as [(-> & A2 & B2)|[(-> & C2)| -> ]];
    destruct (chan_since_shape _ _ _ _ _ Hp H1) as [(-> & A1 & B1)|[(-> & C1)| -> ]]; cbn [fst snd] in *; try lia;
    try (destruct (N.eq_dec (TriggeredBy since) 0) as [E|E]; [specialize (A2 E); lia | specialize (B2 E); lia]);
    try (destruct Hb; lia).
Qed.

Lemma chan_since_snd_le since K0 cached a cs : pos_ok since K0 -> chan_since since cached a = Some cs -> snd cs <= K0.
Proof.
  intros Hp H. pose proof Hp as (Hl & Hb & Hs & Ht).
  destruct (chan_since_shape _ _ _ _ _ Hp H) as [(-> & _)|[(-> & _)| -> ]]; cbn [snd]; lia.
Qed.

Lemma chan_since_fst_le since K0 cached a cs : pos_ok since K0 -> chan_since since cached a = Some cs -> fst cs <= N.max a K0.
Proof.
  intros Hp H. pose proof Hp as (Hl & Hb & Hs & Ht).
  destruct (chan_since_shape _ _ _ _ _ Hp H) as [(-> & _)|[(-> & _)| -> ]]; cbn [fst]; lia.
Qed.

(* ---------- stamps of the effective channels ---------- *)
Lemma in_tadd c' s t c a : In (c, a) (tadd c' s t) -> In (c, a) t \/ (c = c' /\ a = s /\ 0 < s).
Proof.
  unfold tadd. destruct (0 <? s) eqn:Hs; auto.
  destruct (tget c' t) as [old|].
  - destruct ((old =? 0) || (s <? old)); auto. intros H. apply in_tset_put in H as [H|H]; auto. inversion H; subst. right; repeat split; lia.
  - intros H. apply in_tset_put in H as [H|H]; auto. inversion H; subst. right; repeat split; lia.
Qed.

Lemma in_tadd_at other at_ c a : forall t,
  In (c, a) (tadd_at other at_ t) -> In (c, a) t \/ exists s, In (c, s) other /\ a = N.max s at_.
Proof.
  unfold tadd_at; induction other as [|[k v] r IH]; intros t H; cbn [fold_left] in H; auto.
  apply IH in H as [H|(s & Hin & Ha)].
  - apply in_tadd in H as [H|(-> & -> & _)]; auto. right; exists v; split; auto. left; reflexivity.
  - right; exists s; split; auto. right; exact Hin.
Qed.

Lemma inherited_in_inv u roles c a :
  In (c, a) (inherited u roles) ->
  In (c, a) (u_chans u) \/
  exists r since s, In (r, since) (current_roles u roles) /\ In (c, s) (r_chans r) /\ a = N.max s since.
Proof.
  unfold inherited. generalize (current_roles u roles), (u_chans u).
  induction l as [|[r since] l IH]; intros t H; cbn [fold_left] in H; auto.
  apply IH in H as [H|(r' & s' & s & Hin & Hc & Ha)].
  - apply in_tadd_at in H as [H|(s & Hin & Ha)]; auto.
    right; exists r, since, s; split; [left; reflexivity | auto].
  - right; exists r', s', s; split; [right; exact Hin | auto].
Qed.

Lemma uniq_inherited u roles : uniq (u_chans u) -> uniq (inherited u roles).
Proof.
  unfold inherited. generalize (current_roles u roles), (u_chans u).
  induction l as [|[r since] l IH]; intros t H; cbn [fold_left]; auto. apply IH, uniq_tadd_at, H.
Qed.

Section Facts.
Variable y : sys.
Hypothesis Hw : wf y.
Hypothesis Hl : loaded (y_g y).
Let g := y_g y.

Lemma eff_uniq : uniq (effective g).
Proof. apply uniq_inherited. cbn [view_user u_chans]. apply (pw_set _ _ (gw_user _ _ (wf_g y Hw))). Qed.

Lemma eff_in_tget c a : In (c, a) (effective g) <-> tget c (effective g) = Some a.
Proof. symmetry. apply tget_in_iff_uniq, eff_uniq. Qed.

(* where an effective channel comes from *)
Lemma eff_source c a :
  In (c, a) (effective g) ->
  src_chans 0 (y_docs y) (y_uexp y) c a \/
  exists r p since s, role_get r (g_roles g) = Some (p, false) /\ src_roles (y_docs y) (y_urexp y) r since /\
                      src_chans r (y_docs y) (rexp_get r (y_rexp y)) c s /\ a = N.max s since.
Proof.
  intros H. apply inherited_in_inv in H as [H|(rs & since & s & Hin & Hc & Ha)].
  - left. apply (user_src y Hw Hl). cbn [view_user u_chans] in H. apply uniq_in_tget; auto.
    apply (pw_set _ _ (gw_user _ _ (wf_g y Hw))).
  - right. destruct (current_role_inv y Hl rs since Hin) as (r & p & Hget & -> & Hr). cbn [r_chans] in Hc.
    exists r, p, since, s. split; auto. split; [| split; auto].
    + apply (uroles_src y Hw Hl). apply uniq_in_tget; auto. apply (pw_set _ _ (gw_uroles _ _ (wf_g y Hw))).
    + apply (role_src y Hw Hl r p c s Hget). apply uniq_in_tget; auto.
      destruct (gw_roles _ _ (wf_g y Hw) r p false Hget) as (Hp & _). apply (pw_set _ _ Hp).
Qed.

Lemma src_chans_bound k c s :
  src_chans k (y_docs y) (if k =? 0 then y_uexp y else rexp_get k (y_rexp y)) c s -> 0 < s <= cached y.
Proof.
  pose proof (wf_clock y Hw) as Hck. unfold cached. intros [[_ ->]|[H|(x & Hx & Hc)]]; [lia | |].
  - destruct (k =? 0); [destruct (wf_uexp y Hw) as (A & _) | destruct (wf_rexp y Hw k) as (A & _)]; specialize (A c s H); lia.
  - destruct (dw_acc _ _ _ (wf_docs y Hw x Hx) k c s Hc). lia.
Qed.

Lemma src_roles_bound r s : src_roles (y_docs y) (y_urexp y) r s -> 0 < s <= cached y.
Proof.
  pose proof (wf_clock y Hw) as Hck. unfold cached. intros [H|(x & Hx & Hc)].
  - destruct (wf_urexp y Hw r s H). lia.
  - destruct (dw_racc _ _ _ (wf_docs y Hw x Hx) r s Hc). lia.
Qed.

Lemma eff_stamp_bound c a : In (c, a) (effective g) -> 0 < a <= cached y.
Proof.
  intros H. apply eff_source in H as [H|(r & p & since & s & Hget & Hr & Hc & ->)].
  - apply (src_chans_bound 0 c a); exact H.
  - assert (r <> 0) as Hr0 by (destruct (gw_roles _ _ (wf_g y Hw) r p false Hget) as (_ & H & _); exact H).
    pose proof (src_chans_bound r c s) as B. replace (r =? 0) with false in B by (symmetry; apply N.eqb_neq; exact Hr0).
    specialize (B Hc). pose proof (src_roles_bound r since Hr). lia.
Qed.

Lemma g_pos_seqs : pos_seqs g.
Proof.
  intros r p Hget c s Hs. apply tget_in in Hs. eapply (role_pos y Hw); eauto.
Qed.

Lemma g_last_max : hists_last_max g.
Proof.
  pose proof (wf_g y Hw) as [Gu Gr Groles]. split; [apply (pw_last _ _ Gu) | split; [apply (pw_last _ _ Gr) |]].
  intros r p del Hget. destruct (Groles r p del Hget) as (Hp & _). apply (pw_last _ _ Hp).
Qed.

Lemma g_uniq_roles : uniq_roles g.
Proof.
  intros r p Hget. destruct (gw_roles _ _ (wf_g y Hw) r p false Hget) as (Hp & _). apply (pw_set _ _ Hp).
Qed.

Lemma g_uniq_uroles : uniq (p_set (g_uroles g)).
Proof. apply (pw_set _ _ (gw_uroles _ _ (wf_g y Hw))). Qed.

End Facts.

(* ---------- one pull ---------- *)
Definition vis_rev (y : sys) (d : N) : option N :=
  match doc_get d (y_docs y) with
  | Some x => if visibleb y x then Some (sd_rev x) else None
  | None => None
  end.

Section Pull.
Variables y0 y : sys.
Hypothesis Hw0 : wf y0.
Hypothesis Hl0 : loaded (y_g y0).
Hypothesis Hw : wf y.
Hypothesis Hl : loaded (y_g y).
Hypothesis Hrel : rel y0 y.
Variable since : seqid.
Hypothesis Hpos : pos_ok since (cached y0).
(* no channel held at the previous pull (and holding a document then) is back-filled now *)
Hypothesis Hrefill : forall c a, In (c, a) (effective (y_g y)) -> tmem c (effective (y_g y0)) = true ->
                       (exists d x0, doc_get d (y_docs y0) = Some x0 /\ In c (sd_active x0)) -> a <= cached y0.
Hypothesis Hmax : y_next y < max64.

Let g0 := y_g y0.
Let g := y_g y.
Let K0 := cached y0.
Let K := cached y.
Let snap := snapshot_of y.

Lemma K0_le_K : K0 <= K.
Proof. pose proof (rl_clock _ _ Hrel). unfold K0, K, cached. lia. Qed.

Lemma user_public y' : wf y' -> loaded (y_g y') -> tmem public_chan (effective (y_g y')) = true.
Proof.
  intros Hw' Hl'. apply inherited_keep. cbn [view_user u_chans]. apply (user_has y' Hw' Hl' public_chan 1). left; auto.
Qed.

(* F1: an effective channel stamped at or below K0 was effective at the previous pull *)
Lemma eff_fresh c a : In (c, a) (effective g) -> a <= K0 -> tmem c (effective g0) = true.
Proof.
  intros Hin Hle. pose proof Hrel as [R1 R2 R3 R4 R5 R6 R7 R8].
  assert (forall k e0 e, (forall c s, In (c, s) e -> s <= K0 -> In (c, s) e0) ->
            forall c s, src_chans k (y_docs y) e c s -> s <= K0 -> src_chans k (y_docs y0) e0 c s) as Hsrc.
  { intros k e0 e He c' s [[-> ->]|[H|(x & Hx & Hc)]] Hs; [left; auto | right; left; auto |].
    destruct (R5 x k c' s Hx Hc Hs) as (x0 & Hx0 & Hc0). right; right; exists x0; auto. }
  apply (eff_source y Hw Hl) in Hin as [H|(r & p & sn & s & Hget & Hr & Hc & ->)].
  - apply inherited_keep. cbn [view_user u_chans]. apply (user_has y0 Hw0 Hl0 c a). eapply Hsrc; eauto.
  - assert (s <= K0 /\ sn <= K0) as [Hs Hsn] by lia.
    destruct Hc as [[-> _]|Hc']; [apply user_public; auto |].
    assert (src_chans r (y_docs y) (rexp_get r (y_rexp y)) c s) as Hc by (right; exact Hc').
    destruct (R7 r p Hget) as [[(p0 & Hget0) Hex]|[Hex Hdoc]].
    + (* the role was live at the previous pull *)
      assert (src_roles (y_docs y0) (y_urexp y0) r sn) as Hr0.
      { destruct Hr as [H|(x & Hx & Hrx)]; [left; auto |]. destruct (R6 x r sn Hx Hrx Hsn) as (x0 & Hx0 & Hr0). right; exists x0; auto. }
      apply (uroles_has y0 Hw0 Hl0) in Hr0. apply tmem_in in Hr0 as (sn0 & Hsn0).
      assert (tmem c (p_set p0) = true) as Hc0 by (apply (role_has y0 Hw0 Hl0 r p0 c s Hget0); eapply Hsrc; eauto).
      eapply inherited_role with (r := mkRole r false (p_set p0) (p_hist p0)) (since := sn0).
      * apply (current_role_in y0 Hl0); auto.
      * exact Hc0.
      * cbn [r_chans]. intros s' Hs'. apply tget_in in Hs'. eapply (role_pos y0 Hw0); eauto.
    + (* (re-)created since: nothing stamped at or below K0 *)
      exfalso. destruct Hc' as [H|(x & Hx & Hcx)]; [specialize (Hex c s H) | specialize (Hdoc x c s Hx Hcx)]; unfold K0 in *; lia.
Qed.

Lemma rel_run : exists gops, g = run g0 gops /\ Forall (op_above K0) gops /\ unpruned g0 gops /\ no_restamp g0 gops.
Proof. apply (rl_gops _ _ Hrel). Qed.

Lemma check_le : check_seq (Seq since) 0 (TriggeredBy since) <= K0.
Proof. destruct Hpos as (_ & _ & A & B). unfold check_seq. cbn. destruct (0 <? TriggeredBy since); unfold K0 in *; lia. Qed.

(* F3: a channel held at the previous pull and lost since is reported revoked, at a sequence above K0 *)
Lemma revoked_above c :
  tmem c (effective g0) = true -> tmem c (effective g) = false ->
  exists at_, In (c, at_) (revoked_channels (s_user snap) (s_roles snap) (Seq since) 0 (TriggeredBy since)) /\ K0 < at_ /\ at_ <= K.
Proof.
  intros H0 H1. destruct rel_run as (gops & Hg & Hab & Hun & _).
  destruct (revoked_complete_above g0 gops c K0 (Seq since) 0 (TriggeredBy since)) as (at_ & Hin & Hlt); auto.
  - apply check_le.
  - rewrite <- Hg. exact Hl.
  - rewrite <- Hg. apply (g_pos_seqs y Hw).
  - rewrite <- Hg. apply (g_last_max y Hw).
  - rewrite <- Hg. exact H1.
  - rewrite <- Hg in Hin. exists at_. split; [exact Hin | split; auto].
    destruct (revoked_bounds y c at_ _ _ _ Hw Hin). exact H2.
Qed.

(* F4: ... and the periods returned for it contain K0 *)
Lemma periods_cover c :
  tmem c (effective g0) = true ->
  exists p, In p (granted_periods (s_user snap) (s_roles snap) c) /\ fst p <= K0 /\ K0 < snd p.
Proof.
  intros H0. destruct rel_run as (gops & Hg & Hab & Hun & Hrs).
  apply tmem_tget in H0 as (a & Ha).
  assert (a <= K0) as Hle by (apply (eff_in_tget y0 Hw0) in Ha; destruct (eff_stamp_bound y0 Hw0 Hl0 c a Ha); exact H0).
  destruct (granted_periods_cover g0 gops c a K0) as (p & Hp & Hb); auto.
  - apply (g_uniq_roles y0 Hw0).
  - apply (g_uniq_uroles y0 Hw0).
  - pose proof K0_le_K. unfold K, cached in *. lia.
  - rewrite <- Hg. exact Hl.
  - rewrite <- Hg in Hp. exists p; auto.
Qed.

(* ---------- documents ---------- *)
Lemma doc_unchanged_or_after d :
  doc_get d (y_docs y) = doc_get d (y_docs y0) \/
  exists x, doc_get d (y_docs y) = Some x /\ K0 < sd_seq x.
Proof.
  destruct (rl_doc _ _ Hrel d) as [H|(x & Hx & Hs & _)]; [left; exact H | right; exists x; auto].
Qed.

Lemma doc_seq_le y' x : wf y' -> In x (y_docs y') -> sd_seq x <= cached y'.
Proof. intros Hw' Hx. destruct (dw_seq _ _ _ (wf_docs y' Hw' x Hx)) as [[_ H] _]. unfold cached. lia. Qed.

(* a document that was in channel c0 at the previous pull: period and present state *)
Lemma doc_was_in d x0 c0 :
  doc_get d (y_docs y0) = Some x0 -> In c0 (sd_active x0) ->
  exists x, doc_get d (y_docs y) = Some x /\ dcov c0 K0 (sd_cs x, sd_csh x) /\
            (In c0 (sd_active x) \/ exists q rev del, rm_find c0 (sd_removed x) = Some (c0, (q, rev, del)) /\ K0 < q).
Proof.
  intros Hx0 Hc0. destruct (rl_doc _ _ Hrel d) as [H|(x & Hx & Hs & Hall)].
  - rewrite Hx0 in H. exists x0. split; auto. split; [| left; exact Hc0].
    destruct (doc_get_in _ _ _ Hx0) as [Hin0 _].
    pose proof (wf_docs y0 Hw0 x0 Hin0) as [_ _ _ _ Hopen Hst _ _].
    destruct (Hopen c0 Hc0) as (s & Hs). destruct (find_ent_spec _ _ _ _ _ Hs) as [_ Hin].
    exists s, 0. cbn [fst snd]. split; [apply in_or_app; left; exact Hin | split; [| left; reflexivity]].
    unfold K0, cached. eapply Hst. apply in_or_app; left; exact Hin.
  - exists x. split; auto. apply (Hall x0 Hx0 c0 Hc0).
Qed.


(* ---------- the rows of the response ---------- *)
Let fs := feeds snap since.
Let rows := pull snap since 0.

Lemma rows_eq : rows = filter (keep (s_cached snap)) (merge_all (length (concat fs)) fs).
Proof. unfold rows, pull, take_limit. rewrite N.eqb_refl. reflexivity. Qed.

Lemma rows_struct r : In r rows -> exists m hs, r = group m hs /\ In m (concat fs) /\ (forall h, In h hs -> In h (concat fs)).
Proof. rewrite rows_eq. intros H. apply filter_In in H as [H _]. eapply merge_all_struct; eauto. Qed.

Lemma rows_sorted : ssorted rows.
Proof. apply pull_sorted, feeds_sorted, (snap_logs_asc y Hw). Qed.

Lemma fs_consistent : feeds_consistent_b fs = true.
Proof. apply (feeds_consistent_sys y Hw Hl). Qed.

Lemma fs_src x : In x (concat fs) -> row_src snap since x.
Proof. apply feeds_rows, (snap_logs_asc y Hw). Qed.

(* every entry of an accessible channel beyond the channel's resume position is in the channel's feed, unless it is a
   removal / tombstone inside a back-fill *)
Lemma chan_feed_from_has c l : forall trig0 trig e,
  asc_log l -> (trig = trig0 \/ (trig = 0 /\ forall e, In e l -> trig0 <= le_seq e)) ->
  In e l -> (le_deleted e || le_removed e = true -> trig0 <= le_seq e) ->
  In (mkRow (if trig0 <=? le_seq e then 0 else trig0) (le_seq e) (le_doc e) (le_rev e) (if le_removed e then [c] else [])
            (le_deleted e) false false false) (chan_feed_from c trig l).
Proof.
  induction l as [|e0 l IH]; intros trig0 trig e Ha Ht Hin Hsk; [destruct Hin |].
  destruct Ha as [Hlt Ha]. cbn [chan_feed_from].
  set (trig' := if trig <=? le_seq e0 then 0 else trig) in *.
  assert (trig' = (if trig0 <=? le_seq e0 then 0 else trig0)) as Htr.
  { subst trig'. destruct Ht as [->|[-> Hall]]; auto.
    assert (trig0 <= le_seq e0) by (apply Hall; left; reflexivity).
    replace (trig0 <=? le_seq e0) with true by lia. destruct (0 <=? le_seq e0); reflexivity. }
  assert (trig' = trig0 \/ (trig' = 0 /\ forall y, In y l -> trig0 <= le_seq y)) as Hnext.
  { rewrite Htr. destruct (trig0 <=? le_seq e0) eqn:E; auto. right; split; auto.
    intros y' Hy. specialize (Hlt y' Hy). lia. }
  destruct Hin as [->|Hin].
  - replace ((0 <? trig') && (le_deleted e || le_removed e)) with false.
    + left. rewrite Htr. reflexivity.
    + symmetry. apply andb_false_iff. destruct (le_deleted e || le_removed e) eqn:Ed; auto.
      left. rewrite Htr. specialize (Hsk eq_refl). replace (trig0 <=? le_seq e) with true by lia. reflexivity.
  - specialize (IH trig0 trig' e Ha Hnext Hin Hsk).
    destruct ((0 <? trig') && (le_deleted e0 || le_removed e0)); [exact IH | right; exact IH].
Qed.

Lemma chan_row_in_feeds c a cs e :
  In (c, a) (effective g) -> chan_since since K a = Some cs -> In e (log_of c (s_logs snap)) -> snd cs < le_seq e ->
  (le_deleted e || le_removed e = true -> fst cs <= le_seq e) ->
  In (mkRow (if fst cs <=? le_seq e then 0 else fst cs) (le_seq e) (le_doc e) (le_rev e) (if le_removed e then [c] else [])
            (le_deleted e) false false false) (concat fs).
Proof.
  intros Hca Hcs He Hlt Hsk. unfold fs, feeds. rewrite concat_app. apply in_or_app; left.
  apply in_concat. exists (chan_feed c cs (log_of c (s_logs snap))). split.
  - apply in_flat_map. exists (c, a). split; [exact Hca |]. change (s_cached snap) with K. rewrite Hcs. left; reflexivity.
  - unfold chan_feed. apply (chan_feed_from_has c _ (fst cs) (fst cs) e); auto.
    + apply asc_log_filter, (snap_logs_asc y Hw).
    + apply filter_In; split; auto. apply N.ltb_lt; exact Hlt.
Qed.

(* a feed row at or below the cached sequence is represented in the response *)
Lemma row_delivered x :
  In x (concat fs) -> w_seq x <= K ->
  exists r, In r rows /\ tok r = tok x /\ w_doc r = w_doc x /\ w_rev r = w_rev x /\ w_deleted r = w_deleted x
            /\ w_revoked r = w_revoked x /\ w_principal r = w_principal x /\ (w_removed x = [] -> w_allremoved r = false).
Proof.
  intros Hx Hle. destruct (pull_complete snap since x fs_consistent Hx) as (r & Hr & A & B & C & D & E & F & G & H).
  - apply orb_true_iff; left. apply N.leb_le. exact Hle.
  - exists r. split; [exact Hr |]. split; [unfold tok; rewrite A, B; reflexivity | auto 10].
Qed.

Lemma entry_le c e : In e (log_of c (s_logs snap)) -> 0 < le_seq e <= K.
Proof. intros H. destruct (entry_seq_bounds y Hw c e H) as [A _]. exact A. Qed.

(* ---------- classification of the rows about a document ---------- *)
Lemma log_entry_forms c e :
  In e (log_of c (s_logs snap)) ->
  exists x, In x (y_docs y) /\ le_doc e = sd_id x /\
    ((le_removed e = false /\ le_deleted e = false /\ In c (sd_active x) /\ le_seq e = sd_seq x /\ le_rev e = sd_rev x)
     \/ (le_removed e = true /\ le_seq e <= sd_seq x)).
Proof.
  intros H. apply snap_log_entry in H as (x & Hx & [[Hm ->]|(Hm & s & rev & del & Hf & ->)]); exists x; split; auto; cbn; split; auto.
  - left. repeat split; auto. apply mem_in; exact Hm.
  - right. split; auto. destruct (rm_find_key _ _ _ _ Hf) as [_ Hin].
    destruct (dw_removed _ _ _ (wf_docs y Hw x Hx) _ _ _ _ Hin) as (A & _). lia.
Qed.

Lemma doc_by_id d x x' : doc_get d (y_docs y) = Some x -> In x' (y_docs y) -> sd_id x' = d -> x' = x.
Proof.
  intros Hget Hin Hid. pose proof (in_doc_get _ _ (wf_ids y Hw) Hin) as G. rewrite Hid, Hget in G. congruence.
Qed.

Inductive row_kind (d : N) (r : row) : Prop :=
| RkRevoked : w_revoked r = true -> user_can_see snap d = false -> row_kind d r
| RkChan (c a : N) (cs : N * N) (e : logentry) :
    In (c, a) (effective g) -> chan_since since K a = Some cs -> In e (log_of c (s_logs snap)) -> snd cs < le_seq e ->
    le_doc e = d -> tok r = tokof (fst cs) (le_seq e) -> w_rev r = le_rev e -> w_deleted r = le_deleted e -> w_revoked r = false ->
    ((le_removed e = false /\ w_allremoved r = false) \/ (le_removed e = true /\ fst cs <= le_seq e)) -> row_kind d r.

Lemma row_about d r : In r rows -> about d r = true -> row_kind d r.
Proof.
  intros Hr Ha. destruct (rows_struct r Hr) as (m & hs & -> & Hm & Hhs).
  unfold about in Ha. cbn [group w_principal w_doc] in Ha. apply andb_true_iff in Ha as [Hp Hd].
  apply negb_true_iff in Hp. apply N.eqb_eq in Hd.
  destruct (fs_src m Hm) as [c a cs e Hca Hcs He Hlt Htk Hs Hdoc Hrev Hdel Hrm Hrv Hpr Hsk | -> | c at_ e Hca He -> Hsee].
  - apply (RkChan d _ c a cs e); auto; try congruence.
    destruct (le_removed e) eqn:Er.
    + right. split; auto. apply Hsk. rewrite orb_true_r; reflexivity.
    + left. split; auto. cbn [group w_allremoved]. rewrite Hrm. reflexivity.
  - cbn in Hp. discriminate.
  - cbn [w_doc] in Hd. apply RkRevoked; [reflexivity | congruence].
Qed.


(* ---------- a visible document ---------- *)
Variable cl : client.
Hypothesis Hcl : forall d, c_get d cl = vis_rev y0 d.

Lemma before_tokof_lt t q' q : q' < q -> before (mk 0 0 q') (tokof t q) = true.
Proof. intros H. unfold tokof. destruct (t <=? q) eqn:E; open_before; break_ifs; lia. Qed.

Lemma visible_channel x : visibleb y x = true -> exists c a, In c (sd_active x) /\ In (c, a) (effective g).
Proof.
  unfold visibleb. intros H. apply existsb_exists in H as (c & Hc & Hm). apply tmem_in in Hm as (a & Ha). exists c, a; auto.
Qed.

Lemma active_entry x c : In x (y_docs y) -> In c (sd_active x) ->
  In (mkLog (sd_seq x) (sd_id x) (sd_rev x) false false) (log_of c (s_logs snap)).
Proof.
  intros Hx Hc. apply snap_log_entry. exists x. split; auto. left. split; auto. apply mem_in; exact Hc.
Qed.

Lemma classic_delivered x :
  (exists c a cs, In (c, a) (effective g) /\ chan_since since K a = Some cs /\ In c (sd_active x) /\ snd cs < sd_seq x)
  \/ ~ (exists c a cs, In (c, a) (effective g) /\ chan_since since K a = Some cs /\ In c (sd_active x) /\ snd cs < sd_seq x).
Proof.
  destruct (existsb (fun '(c, a) => match chan_since since K a with
                                    | Some cs => mem c (sd_active x) && (snd cs <? sd_seq x)
                                    | None => false
                                    end) (effective g)) eqn:E.
  - left. apply existsb_exists in E as ([c a] & Hin & H). destruct (chan_since since K a) as [cs|] eqn:Ecs; [| discriminate].
    apply andb_true_iff in H as [H1 H2]. exists c, a, cs. repeat split; auto; [apply mem_in; exact H1 | apply N.ltb_lt; exact H2].
  - right. intros (c & a & cs & Hin & Hcs & Hact & Hlt).
    assert (existsb (fun '(c, a) => match chan_since since K a with
                                    | Some cs => mem c (sd_active x) && (snd cs <? sd_seq x)
                                    | None => false
                                    end) (effective g) = true) as H.
    { apply existsb_exists. exists (c, a). split; auto. rewrite Hcs. apply andb_true_iff. split; [apply mem_in; exact Hact | apply N.ltb_lt; exact Hlt]. }
    congruence.
Qed.

Lemma case_visible d x :
  doc_get d (y_docs y) = Some x -> visibleb y x = true ->
  match last_about d rows with
  | Some r => if purges r then None else Some (w_rev r)
  | None => c_get d cl
  end = Some (sd_rev x).
Proof.
  intros Hget Hv. destruct (doc_get_in _ _ _ Hget) as [Hx Hid].
  assert (user_can_see snap d = true) as Hsee by (unfold snap; rewrite (can_see_visible y Hw Hl), Hget; exact Hv).
  destruct (visible_channel x Hv) as (cv & av & Hcv & Hav).
  destruct (eff_stamp_bound y Hw Hl cv av Hav) as [Hav0 HavK].
  destruct (chan_since_some since K av HavK) as (csv & Hcsv).
  (* what a row about d can be *)
  assert (forall r, In r rows -> about d r = true ->
            (exists c a cs, In (c, a) (effective g) /\ chan_since since K a = Some cs /\ In c (sd_active x) /\ snd cs < sd_seq x
                            /\ tok r = tokof (fst cs) (sd_seq x) /\ purges r = false /\ w_rev r = sd_rev x)
            \/ (exists c a cs q', In (c, a) (effective g) /\ chan_since since K a = Some cs /\ snd cs < q' /\ fst cs <= q' /\ q' <= sd_seq x
                                  /\ tok r = mk 0 0 q')) as Hkind.
  { intros r Hr Ha. destruct (row_about d r Hr Ha) as [Hrv Hns | c a cs e Hca Hcs He Hlt Hdoc Htk Hrev Hdel Hrvk Hform]; [congruence |].
    destruct (log_entry_forms c e He) as (x' & Hx' & Hd' & Hf).
    assert (x' = x) by (eapply doc_by_id; eauto; congruence). subst x'.
    destruct Hf as [(Hrm & Hdl & Hact & Hsq & Hrv)|(Hrm & Hle)].
    - left. exists c, a, cs. rewrite <- Hsq. repeat split; auto; try congruence.
      destruct Hform as [(_ & Hall)|(Hc & _)]; [| congruence]. unfold purges. rewrite Hrvk, Hall, Hdel, Hdl. reflexivity.
    - right. exists c, a, cs, (le_seq e). destruct Hform as [(Hc & _)|(_ & Hfst)]; [congruence |].
      repeat split; auto. rewrite Htk. unfold tokof. replace (fst cs <=? le_seq e) with true by lia. reflexivity. }
  (* is the current revision delivered by some channel feed? *)
  destruct (classic_delivered x) as [(c & a & cs & Hca & Hcs & Hact & Hlt)|Hnone].
  - (* yes: its row is the last word about d *)
    pose proof (active_entry x c Hx Hact) as He.
    pose proof (chan_row_in_feeds c a cs _ Hca Hcs He Hlt) as Hxin. cbn [le_seq le_doc le_rev le_removed le_deleted orb] in Hxin.
    specialize (Hxin (fun H => ltac:(discriminate))).
    set (xs := mkRow (if fst cs <=? sd_seq x then 0 else fst cs) (sd_seq x) (sd_id x) (sd_rev x) [] false false false false) in *.
    destruct (row_delivered xs Hxin) as (rstar & Hrs & Htk & Hd & Hrv & Hdl & Hrvk & Hpr & Hall).
    { cbn [xs w_seq]. pose proof (doc_seq_le y x Hw Hx). exact H. }
    cbn [xs w_doc w_rev w_deleted w_revoked w_principal w_removed] in *. specialize (Hall eq_refl).
    assert (tok rstar = tokof (fst cs) (sd_seq x)) as Htk' by (rewrite Htk; unfold tok, tokof, xs; cbn [w_trig w_seq]; destruct (fst cs <=? sd_seq x); reflexivity).
    assert (about d rstar = true) as Hab by (unfold about; rewrite Hpr, Hd, Hid, N.eqb_refl; reflexivity).
    destruct (last_about_sorted d rows (fun r => purges r = false /\ w_rev r = sd_rev x) rstar rows_sorted Hrs Hab) as (r' & Hlast & Hp1 & Hp2).
    + unfold purges. rewrite Hrvk, Hall, Hdl. auto.
    + intros r Hr Ha. destruct (Hkind r Hr Ha) as [(c2 & a2 & cs2 & _ & _ & _ & _ & _ & Hp & Hrv2)|(c2 & a2 & cs2 & q' & Hca2 & Hcs2 & Hlt2 & Hfst2 & Hle2 & Htk2)]; [left; auto |].
      destruct (N.eq_dec q' (sd_seq x)) as [->|Hne].
      * (* the removal happened at the current revision itself *)
        destruct (fst cs <=? sd_seq x) eqn:Ef.
        -- left. assert (r = rstar) as -> by (eapply ssorted_tok_unique; [apply rows_sorted | | | ]; eauto; rewrite Htk2, Htk'; unfold tokof; rewrite Ef; reflexivity).
           unfold purges. rewrite Hrvk, Hall, Hdl. auto.
        -- right. unfold tlt. rewrite Htk2, Htk'. unfold tokof. rewrite Ef. open_before. break_ifs; lia.
      * right. unfold tlt. rewrite Htk2, Htk'. apply before_tokof_lt. lia.
    + rewrite Hlast, Hp1, Hp2. reflexivity.
  - (* no: then nothing at all is said about d, and the client already holds the current revision *)
    assert (sd_seq x <= snd csv) as Hnd.
    { destruct (N.le_gt_cases (sd_seq x) (snd csv)) as [H|H]; auto. exfalso. apply Hnone. exists cv, av, csv. auto. }
    assert (last_about d rows = None) as Hlast.
    { pose proof (last_about_split d rows) as Hsp. destruct (last_about d rows) as [r|]; auto. exfalso.
      destruct Hsp as (l1 & l2 & Heq & Ha & _).
      assert (In r rows) as Hr by (rewrite Heq; apply in_or_app; right; left; reflexivity).
      destruct (Hkind r Hr Ha) as [(c2 & a2 & cs2 & Hca2 & Hcs2 & Hact2 & Hlt2 & _)|(c2 & a2 & cs2 & q' & Hca2 & Hcs2 & Hlt2 & Hfst2 & Hle2 & _)].
      - apply Hnone. exists c2, a2, cs2. auto.
      - pose proof (chan_since_mono since K0 K a2 cs2 av csv q' (sd_seq x) Hpos Hcs2 Hcsv Hlt2 Hfst2 Hle2). lia. }
    rewrite Hlast, Hcl. unfold vis_rev.
    pose proof (chan_since_snd_le since K0 K av csv Hpos Hcsv) as Hk0.
    destruct (doc_unchanged_or_after d) as [Hsame|(x2 & Hx2 & Hafter)]; [| rewrite Hget in Hx2; inversion Hx2; subst x2; lia].
    rewrite <- Hsame, Hget.
    assert (av <= K0) as HavK0.
    { destruct (N.le_gt_cases av K0) as [H|H]; auto. exfalso.
      assert (1 < av) by (pose proof (wf_clock y0 Hw0); unfold K0, cached in H; lia).
      rewrite (chan_since_fresh since K0 K av Hpos H HavK H0) in Hcsv. inversion Hcsv; subst csv. cbn [snd] in Hnd.
      destruct (dw_seq _ _ _ (wf_docs y Hw x Hx)) as [[A _] _]. lia. }
    assert (visibleb y0 x = true) as Hv0.
    { unfold visibleb. apply existsb_exists. exists cv. split; auto. apply (eff_fresh cv av Hav HavK0). }
    rewrite Hv0. reflexivity.
Qed.


(* ---------- a document the user cannot see ---------- *)
Lemma revoke_params_above at_ : K0 < at_ -> snd (revoke_params since at_) = 0 /\ fst (revoke_params since at_) <= K0.
Proof.
  intros Hat. destruct Hpos as (_ & _ & A & B). fold K0 in A, B. unfold revoke_params.
  destruct (TriggeredBy since =? 0) eqn:E; cbn [fst snd]; [split; auto |].
  replace (at_ =? TriggeredBy since) with false by lia. replace (TriggeredBy since <? at_) with true by lia. cbn [fst snd]. split; auto.
Qed.

Lemma was_in_cover c0 (ents : list docent) (periods : list period) rs :
  (exists s e, In (c0, s, e) ents /\ s <= K0 /\ (e = 0 \/ K0 < e)) ->
  (exists p, In p periods /\ fst p <= K0 /\ K0 < snd p) ->
  rs <= K0 -> K0 < max64 ->
  was_in_channel ents periods c0 rs = true.
Proof.
  intros (s & e & Hin & Hs & He) (p & Hp & Hp1 & Hp2) Hrs Hmx.
  unfold was_in_channel. apply existsb_exists. exists (c0, s, e). split; auto.
  rewrite N.eqb_refl, orb_true_r. cbn [andb]. apply existsb_exists. exists p. split; auto.
  unfold overlaps. replace (snd p <=? rs) with false by lia.
  replace (snd p =? 0) with false by lia. destruct (e =? 0) eqn:E0; [apply N.ltb_lt; lia |].
  apply N.eqb_neq in E0. apply N.ltb_lt. lia.
Qed.

Lemma rev_row_in_feeds c at_ e :
  In (c, at_) (revoked_channels (s_user snap) (s_roles snap) (Seq since) 0 (TriggeredBy since)) ->
  In e (log_of c (s_logs snap)) ->
  snd (revoke_params since at_) < le_seq e ->
  (le_seq e <= Seq since \/
   exists dd, find_doc (le_doc e) (s_docs snap) = Some dd /\
              was_in_channel (d_hist dd) (granted_periods (s_user snap) (s_roles snap) c) c (fst (revoke_params since at_)) = true) ->
  user_can_see snap (le_doc e) = false ->
  In (mkRow at_ (le_seq e) (le_doc e) (le_rev e) (if le_removed e then [c] else []) (le_deleted e) true false false) (concat fs).
Proof.
  intros Hin He Hfrom Hneeds Hsee.
  unfold fs, feeds. rewrite !concat_app. apply in_or_app; right. apply in_or_app; right.
  apply in_concat. exists (revoked_feed snap since c at_). split; [apply in_map_iff; exists (c, at_); auto |].
  unfold revoked_feed. destruct (revoke_params since at_) as [rev_since revoke_from] eqn:Ep. cbn [fst snd] in *.
  apply in_flat_map. exists e. split; [apply filter_In; split; auto; apply N.ltb_lt; exact Hfrom |].
  unfold user_can_see in Hsee.
  assert ((if Seq since <? le_seq e
           then match find_doc (le_doc e) (s_docs snap) with
                | Some d => was_in_channel (d_hist d) (granted_periods (s_user snap) (s_roles snap) c) c rev_since
                | None => false
                end
           else true) = true) as Hn.
  { destruct (Seq since <? le_seq e) eqn:E; auto.
    destruct Hneeds as [Hn|(dd & Hd & Hwas)]; [lia |]. rewrite Hd; exact Hwas. }
  rewrite Hn. cbn [andb].
  replace (match find_doc (le_doc e) (s_docs snap) with
           | Some d => has_access (s_user snap) (s_roles snap) (d_active d)
           | None => false
           end) with false by (symmetry; exact Hsee).
  cbn [negb]. left; reflexivity.
Qed.

Lemma removal_entry x c q rev del :
  In x (y_docs y) -> ~ In c (sd_active x) -> rm_find c (sd_removed x) = Some (c, (q, rev, del)) ->
  In (mkLog q (sd_id x) rev true del) (log_of c (s_logs snap)).
Proof.
  intros Hx Hn Hf. apply snap_log_entry. exists x. split; auto. right. split; [apply mem_false; exact Hn |].
  exists q, rev, del. auto.
Qed.

Lemma all_purge d r : user_can_see snap d = false -> In r rows -> about d r = true -> purges r = true.
Proof.
  intros Hsee Hr Ha. destruct (row_about d r Hr Ha) as [Hrv _ | c a cs e Hca Hcs He Hlt Hdoc Htk Hrev Hdel Hrvk Hform].
  - unfold purges. rewrite Hrv. reflexivity.
  - destruct (log_entry_forms c e He) as (x' & Hx' & Hd' & Hf).
    destruct Hform as [(Hrm & _)|(Hrm & Hfst)].
    + (* a live entry of an accessible channel: the document would be visible *)
      exfalso. destruct Hf as [(_ & Hdl & _)|(Hc & _)]; [| congruence].
      pose proof (active_entry_visible y Hw Hl c a e Hca He) as Hv. rewrite Hrm, Hdl in Hv. specialize (Hv eq_refl).
      fold snap in Hv. rewrite Hdoc in Hv. congruence.
    + destruct (le_deleted e) eqn:Edl; [unfold purges; rewrite Hdel, !orb_true_r; reflexivity |].
      assert (tok r = mk 0 0 (le_seq e)) as Htk0 by (rewrite Htk; unfold tokof; replace (fst cs <=? le_seq e) with true by lia; reflexivity).
      assert (w_allremoved r = true) as Hall.
      { rewrite rows_eq in Hr. apply filter_In in Hr as [Hr _].
        apply (merge_all_allremoved _ _ _ Hr). intros xr Hxrin Htok. rewrite Htk0 in Htok.
        destruct (fs_src xr Hxrin) as [c3 a3 cs3 e3 Hca3 Hcs3 He3 Hlt3 Htk3 Hs3 Hdoc3 Hrev3 Hdel3 Hrm3 Hrv3 Hpr3 Hsk3 | -> | c3 at3 e3 Hca3 He3 -> Hsee3].
        - rewrite Hrm3. destruct (le_removed e3) eqn:Er3; [discriminate |]. exfalso.
          assert (le_seq e3 = le_seq e) as Hsq by (rewrite <- (tokof_seq (fst cs3) (le_seq e3)), <- Htk3, Htok; reflexivity).
          destruct (entries_agree y Hw c3 c e3 e He3 He Hsq) as (Hdd & _).
          destruct (log_entry_forms c3 e3 He3) as (x3 & _ & _ & Hf3). destruct Hf3 as [(_ & Hdl3 & _)|(Hc3 & _)]; [| congruence].
          pose proof (active_entry_visible y Hw Hl c3 a3 e3 Hca3 He3) as Hv. rewrite Er3, Hdl3 in Hv. specialize (Hv eq_refl).
          fold snap in Hv. rewrite Hdd, Hdoc in Hv. congruence.
        - exfalso. unfold tok in Htok; cbn [w_trig w_seq s_user snap snapshot_of u_seq] in Htok. inversion Htok as [Hq].
          destruct (entry_seq_bounds y Hw c e He) as [_ Hne]. apply Hne. symmetry; exact Hq.
        - exfalso. unfold tok in Htok; cbn [w_trig w_seq] in Htok. inversion Htok as [[Hat Hq]].
          destruct (revoked_bounds y c3 at3 _ _ _ Hw Hca3). lia. }
      unfold purges. rewrite Hall, orb_true_r. reflexivity.
Qed.

Lemma exists_row d rv : user_can_see snap d = false -> c_get d cl = Some rv -> exists r, In r rows /\ about d r = true.
Proof.
  intros Hsee Hc. rewrite Hcl in Hc. unfold vis_rev in Hc.
  destruct (doc_get d (y_docs y0)) as [x0|] eqn:Hx0; [| discriminate].
  destruct (visibleb y0 x0) eqn:Hv0; [| discriminate].
  unfold visibleb in Hv0. apply existsb_exists in Hv0 as (c0 & Hc0 & He0).
  destruct (doc_was_in d x0 c0 Hx0 Hc0) as (x & Hx & Hcov & Hmem).
  destruct (doc_get_in _ _ _ Hx) as [Hxin Hid].
  assert (visibleb y x = false) as Hnv by (unfold snap in Hsee; rewrite (can_see_visible y Hw Hl), Hx in Hsee; exact Hsee).
  assert (K0 < max64) as Hmx by (pose proof K0_le_K; unfold K, cached in *; lia).
  (* the row that a revocation of c0 builds for an entry of d *)
  assert (forall e, tmem c0 (effective g) = false -> In e (log_of c0 (s_logs snap)) -> le_doc e = d ->
            exists r, In r rows /\ about d r = true) as Hrev.
  { intros e Hne He Hd. destruct (revoked_above c0 He0 Hne) as (at_ & Hat & Hgt & HleK).
    destruct (revoke_params_above at_ Hgt) as [Hp1 Hp2].
    destruct (entry_le c0 e He) as [Hpos0 HleKe].
    assert (In (mkRow at_ (le_seq e) (le_doc e) (le_rev e) (if le_removed e then [c0] else []) (le_deleted e) true false false) (concat fs)) as Hxin'.
    { apply rev_row_in_feeds; auto; [lia | | rewrite Hd; exact Hsee].
      right. exists (mkDoc (sd_id x) (sd_cs x ++ sd_csh x) (Some (sd_active x))). split.
      - unfold snap. rewrite find_doc_snapshot, Hd, Hx. reflexivity.
      - cbn [d_hist]. apply was_in_cover; auto. apply periods_cover; exact He0. }
    destruct (row_delivered _ Hxin') as (r & Hr & _ & Hdr & _ & _ & _ & Hpr & _); [cbn [w_seq]; exact HleKe |].
    exists r. split; auto. unfold about. cbn [w_doc w_principal] in Hdr, Hpr. rewrite Hpr, Hdr, Hd, N.eqb_refl. reflexivity. }
  destruct Hmem as [Hact|(q & rev & del & Hf & Hq)].
  - (* still in c0: the channel must have been lost *)
    assert (tmem c0 (effective g) = false) as Hne.
    { destruct (tmem c0 (effective g)) eqn:E; auto. exfalso.
      assert (visibleb y x = true) by (unfold visibleb; apply existsb_exists; exists c0; auto). congruence. }
    apply (Hrev (mkLog (sd_seq x) (sd_id x) (sd_rev x) false false)); auto. apply active_entry; auto.
  - destruct (in_dec N.eq_dec c0 (sd_active x)) as [Hact|Hnact].
    + assert (tmem c0 (effective g) = false) as Hne.
      { destruct (tmem c0 (effective g)) eqn:E; auto. exfalso.
        assert (visibleb y x = true) by (unfold visibleb; apply existsb_exists; exists c0; auto). congruence. }
      apply (Hrev (mkLog (sd_seq x) (sd_id x) (sd_rev x) false false)); auto. apply active_entry; auto.
    + pose proof (removal_entry x c0 q rev del Hxin Hnact Hf) as He.
      destruct (tmem c0 (effective g)) eqn:E.
      * (* the channel is still held: its feed delivers the removal entry *)
        apply tmem_in in E as (a & Ha).
        pose proof (Hrefill c0 a Ha He0 (ex_intro _ d (ex_intro _ x0 (conj Hx0 Hc0)))) as HaK0. fold K0 in HaK0.
        destruct (eff_stamp_bound y Hw Hl c0 a Ha) as [_ HaK].
        destruct (chan_since_some since K a HaK) as (cs & Hcs).
        pose proof (chan_since_snd_le since K0 K a cs Hpos Hcs) as Hsnd.
        pose proof (chan_since_fst_le since K0 K a cs Hpos Hcs) as Hfst.
        pose proof (chan_row_in_feeds c0 a cs _ Ha Hcs He) as Hxin'. cbn [le_seq le_doc le_rev le_removed le_deleted] in Hxin'.
        assert (fst cs <= q) as Hfq by lia.
        specialize (Hxin' ltac:(lia) (fun _ => Hfq)).
        destruct (row_delivered _ Hxin') as (r & Hr & _ & Hdr & _ & _ & _ & Hpr & _).
        { cbn [w_seq]. destruct (entry_le c0 _ He). exact H0. }
        exists r. split; auto. unfold about. cbn [w_doc w_principal] in Hdr, Hpr. rewrite Hpr, Hdr, Hid, N.eqb_refl. reflexivity.
      * apply (Hrev (mkLog q (sd_id x) rev true del)); auto.
Qed.

Lemma case_invisible d :
  user_can_see snap d = false ->
  match last_about d rows with
  | Some r => if purges r then None else Some (w_rev r)
  | None => c_get d cl
  end = None.
Proof.
  intros Hsee. pose proof (last_about_split d rows) as Hsp. destruct (last_about d rows) as [r|].
  - destruct Hsp as (l1 & l2 & Heq & Ha & _).
    assert (In r rows) as Hr by (rewrite Heq; apply in_or_app; right; left; reflexivity).
    rewrite (all_purge d r Hsee Hr Ha). reflexivity.
  - destruct (c_get d cl) as [rv|] eqn:Hc; auto. exfalso.
    destruct (exists_row d rv Hsee Hc) as (r & Hr & Ha). rewrite (Hsp r Hr) in Ha. discriminate.
Qed.

(* ---------- the pull is correct ---------- *)
Theorem pull_correct d : c_get d (apply_rows cl rows) = vis_rev y d.
Proof.
  rewrite client_last_row_wins. unfold vis_rev.
  destruct (doc_get d (y_docs y)) as [x|] eqn:Hx.
  - destruct (visibleb y x) eqn:Hv.
    + apply case_visible; auto.
    + apply case_invisible. unfold snap. rewrite (can_see_visible y Hw Hl), Hx. exact Hv.
  - apply case_invisible. unfold snap. rewrite (can_see_visible y Hw Hl), Hx. reflexivity.
Qed.

End Pull.

(* ---------- induction over histories ---------- *)
Lemma same_docs_of_vis y cl :
  wf y -> loaded (y_g y) -> (forall d, c_get d cl = vis_rev y d) -> same_docs cl (sys_visible y) = true.
Proof.
  intros Hw Hl Hcl. unfold same_docs. apply andb_true_iff. split.
  - apply forallb_forall. intros [d v] Hin. apply mem_in. apply (in_sys_visible y Hw Hl).
    assert (exists v', c_get d cl = Some v') as (v' & Hv').
    { clear -Hin. induction cl as [|[k w] r IH]; [destruct Hin |]. cbn [c_get].
      destruct (k =? d) eqn:E; [eexists; reflexivity |]. destruct Hin as [Heq|Hin]; [inversion Heq; subst; rewrite N.eqb_refl in E; discriminate | auto]. }
    rewrite Hcl in Hv'. unfold vis_rev in Hv'. destruct (doc_get d (y_docs y)) as [x|]; [| discriminate].
    exists x. split; auto. destruct (visibleb y x); [reflexivity | discriminate].
  - apply forallb_forall. intros d Hd. apply (in_sys_visible y Hw Hl) in Hd as (x & Hx & Hv).
    unfold holds. rewrite Hcl. unfold vis_rev. rewrite Hx, Hv. reflexivity.
Qed.

Lemma pos_ok_mono since K0 K : K0 <= K -> pos_ok since K0 -> pos_ok since K.
Proof. intros Hle (A & B & C & D). repeat split; auto; lia. Qed.

Lemma last_in {A} (l : list A) d : l <> [] -> In (last l d) l.
Proof.
  induction l as [|a l IH]; [congruence |]. intros _. destruct l as [|b l]; [left; reflexivity |].
  right. apply IH. discriminate.
Qed.

Lemma next_pos y0 y since :
  wf y -> loaded (y_g y) -> pos_ok since (cached y0) -> cached y0 <= cached y ->
  pos_ok (next_since since (pull (snapshot_of y) since 0)) (cached y).
Proof.
  intros Hw Hl Hpos Hle. unfold next_since.
  destruct (pull (snapshot_of y) since 0) as [|r0 rows'] eqn:Erows; [eapply pos_ok_mono; eauto |].
  set (r := last (r0 :: rows') (mkRow 0 0 0 0 [] false false false false)).
  assert (In r (pull (snapshot_of y) since 0)) as Hr by (rewrite Erows; apply last_in; discriminate).
  assert (w_seq r <= cached y /\ w_trig r <= cached y) as [Hs Ht].
  { unfold pull, take_limit in Hr. rewrite N.eqb_refl in Hr. apply filter_In in Hr as [Hr _].
    destruct (merge_all_struct _ _ _ Hr) as (m & hs & -> & Hm & _). cbn [group w_seq w_trig].
    destruct (feeds_rows _ _ _ (snap_logs_asc y Hw) Hm) as [c a cs e Hca Hcs He Hlt Htk Hsq _ _ _ _ _ _ _ | -> | c at_ e Hca He -> _].
    - destruct (entry_seq_bounds y Hw c e He) as [[_ A] _]. split; [rewrite Hsq; exact A |].
      rewrite <- tok_trig, Htk, tokof_trig. destruct (fst cs <=? le_seq e); [lia |].
      change (s_cached (snapshot_of y)) with (cached y) in Hcs. rewrite snap_inherited in Hca.
      pose proof (chan_since_fst_le since (cached y0) (cached y) a cs Hpos Hcs).
      destruct (eff_stamp_bound y Hw Hl c a Hca). lia.
    - cbn [w_seq w_trig snapshot_of s_user u_seq]. pose proof (wf_useq y Hw). unfold cached. lia.
    - cbn [w_seq w_trig]. destruct (entry_seq_bounds y Hw c e He) as [[_ A] _].
      rewrite snap_revoked in Hca. destruct (revoked_bounds y c at_ _ _ _ Hw Hca). split; auto. }
  unfold resume_token. destruct ((0 <? w_trig r) && (w_seq r <? w_trig r)) eqn:E.
  - apply andb_true_iff in E as [E1 E2]. repeat split; cbn [LowSeq TriggeredBy Seq mk]; auto. right. lia.
  - repeat split; cbn [LowSeq TriggeredBy Seq mk]; auto. lia.
Qed.

Lemma sys_step_pull y l : sys_step y (SPull l) = load_all y.
Proof. reflexivity. Qed.

Definition first_refill_ok (y0 : sys) (tr : list pullobs) : Prop :=
  match tr with
  | o :: _ => forall c a, In (c, a) (obs_chans o) -> tmem c (effective (y_g y0)) = true ->
                          (exists d x0, doc_get d (y_docs y0) = Some x0 /\ In c (sd_active x0)) -> a <= cached y0
  | [] => True
  end.

Lemma no_refill_first o tr y1 :
  o_snap o = snapshot_of y1 -> no_refill (o :: tr) = true -> first_refill_ok y1 tr /\ no_refill tr = true.
Proof.
  intros Hsnap H. cbn [no_refill] in H. apply andb_true_iff in H as [H1 H2]. split; auto.
  destruct tr as [|o2 tr]; cbn [first_refill_ok]; auto.
  intros c a Hin Hm _. unfold no_refill_pair in H1. rewrite forallb_forall in H1. specialize (H1 (c, a) Hin). cbn beta iota in H1.
  unfold obs_chans in H1. rewrite Hsnap, snap_inherited, snap_cached, Hm in H1. cbn [negb orb] in H1.
  apply N.leb_le in H1. exact H1.
Qed.

Lemma trace_ok ops : forall y0 y cl since,
  wf y0 -> loaded (y_g y0) -> wf y -> rel y0 y -> pos_ok since (cached y0) -> (forall d, c_get d cl = vis_rev y0 d) ->
  alongP op_hyp ops y ->
  first_refill_ok y0 (sys_trace ops y cl since) -> no_refill (sys_trace ops y cl since) = true ->
  forall o, In o (sys_trace ops y cl since) -> same_docs (o_client o) (o_visible o) = true.
Proof.
  induction ops as [|op ops IH]; intros y0 y cl since Hw0 Hl0 Hw Hrel Hpos Hcl Hall Hfirst Hnr o Hin; [destruct Hin |].
  destruct Hall as [(Hunl & Hstale & Hrs & Hnames & Hnm & Hun & Hclk) Hrest].
  assert (step_ok y op) as Hok by (split; [exact Hnames | split; [intros x Hx c; apply Hnm; exact Hx | exact Hun]]).
  pose proof (wf_step y op Hw Hok) as Hw1.
  pose proof (rel_step y0 y op Hw0 Hw Hrel Hok Hrs Hstale) as Hrel1.
  destruct op as [d chans acc rol|d|set0|set0|r set0|r|limit];
    try (cbn [sys_trace] in *; eapply (IH y0 _ cl since); eauto; fail).
  (* a pull *)
  cbn [op_unlimited] in Hunl. apply N.eqb_eq in Hunl. subst limit.
  cbn [sys_trace] in *. set (y1 := sys_step y (SPull 0)) in *.
  assert (loaded (y_g y1)) as Hl1 by (unfold y1; rewrite sys_step_pull; apply loaded_load_all).
  set (rows := pull (snapshot_of y1) since 0) in *.
  assert (forall d, c_get d (apply_rows cl rows) = vis_rev y1 d) as Hcl1.
  { intros d. refine (pull_correct y0 y1 Hw0 Hl0 Hw1 Hl1 Hrel1 since Hpos _ _ cl Hcl d).
    - intros c a Hca Hm Hdoc. apply (Hfirst c a); auto.
    - unfold y1. cbn [sys_step with_g y_next]. lia. }
  destruct Hin as [<-|Hin].
  - cbn [o_client o_visible]. apply same_docs_of_vis; auto.
  - destruct (no_refill_first (mkObs (snapshot_of y1) rows (apply_rows cl rows) (caught_up 0 rows) (sys_visible y1)) _ y1 eq_refl Hnr) as [Hfirst' Hnr'].
    eapply (IH y1 y1 (apply_rows cl rows) (next_since since rows)); eauto.
    + apply rel_refl.
    + apply (next_pos y0 y1); auto. pose proof (rl_clock _ _ Hrel1). unfold cached. lia.
Qed.

Lemma pwf_init_set n t : set_ok n t -> 0 < n -> pwf n (mkPrinc t 0 []).
Proof. intros Hs Hn. apply pwf_fresh; auto. Qed.

Lemma wf_init : wf sys_init.
Proof.
  assert (set_ok 2 [(public_chan, 1)]) as Hs1.
  { split; [| split].
    - intros c s [H|[]]. inversion H; subst. lia.
    - unfold uniq. cbn. constructor; [intros [] | constructor].
    - reflexivity. }
  assert (set_ok 2 []) as Hs0 by apply set_ok_nil.
  constructor; cbn [sys_init y_next y_useq y_docs y_g y_uexp y_urexp y_rexp].
  - lia.
  - lia.
  - exact I.
  - intros x [].
  - intros x x' q [].
  - constructor; cbn [g_user g_uroles g_roles].
    + apply pwf_init_set; auto; lia.
    + apply pwf_init_set; auto; lia.
    + intros r p del H; discriminate.
  - exact Hs0.
  - intros r s [].
  - intros r. exact Hs0.
  - intros _. cbn [g_user p_set]. split.
    + intros c s H. cbn [tget] in H. unfold public_chan in *. destruct (1 =? c) eqn:E; inversion H; subst. apply N.eqb_eq in E; subst. left; auto.
    + intros c s [[-> ->]|[[]|(x & [] & _)]]. reflexivity.
  - intros _. cbn [g_uroles p_set]. split; [intros r s H; discriminate | intros r s [[]|(x & [] & _)]].
  - intros r p H; discriminate.
Qed.

Theorem client_matches_visible_partial ops :
  history_hyps ops ->
  forall o, In o (trace ops) -> o_caught o = true -> same_docs (o_client o) (o_visible o) = true.
Proof.
  intros [Hall Hnr] o Hin _. unfold trace in *.
  refine (trace_ok ops sys_init sys_init [] (mk 0 0 0) wf_init _ wf_init (rel_refl _) _ _ Hall _ Hnr o Hin).
  - split; [reflexivity | split; [reflexivity |]]. intros r p H; discriminate.
  - unfold pos_ok, cached; cbn. repeat split; auto; lia.
  - intros d. reflexivity.
  - destruct (sys_trace ops sys_init [] (mk 0 0 0)); cbn [first_refill_ok]; auto.
    intros c a _ _ (d & x0 & Hx0 & _). discriminate.
Qed.
