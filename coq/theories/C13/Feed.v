(* C13 model, part 2: one changes request with revocations (db/changes.go SimpleMultiChangesFeed, one-shot,
   not active_only, no skipped sequences: low sequence 0) as a pure function of a SNAPSHOT of everything
   the feed reads:
     - the loaded user and roles (Revocation.v),
     - per channel, the channel log: the latest entry per document in the channel (what both
       singleChannelCache.GetChanges and the bypass channel query return from sequence 0),
     - per document, its channel-set history and the channels of its active revision,
     - the high cached sequence.
   Per-channel feeds (changesFeed: back-fill decision, TriggeredBy stamping, no removals inside a
   back-fill), the user pseudo-feed, the revocation feeds (buildRevokedFeed), then the merge loop
   (minimum w.r.t. SequenceID.Before as regenerated from db/sequence_id.go by C20; equal tokens are
   united), the cached-sequence filter and the limit. *)
From SG Require Import Base.Prelude C20.SeqIdGen C20.SeqId C13.Revocation.
Open Scope N_scope.

Record logentry := mkLog { le_seq : N; le_doc : N; le_rev : N; le_removed : bool; le_deleted : bool }.

Record docinfo := mkDoc {
  d_id : N;
  d_hist : list docent;            (* ChannelSet ++ ChannelSetHistory *)
  d_active : option (list N) }.    (* channels of the active revision; None: no such document *)

Record snapshot := mkSnap {
  s_cached : N;
  s_user : user_st;
  s_roles : list role_st;
  s_logs : list (N * list logentry);
  s_docs : list docinfo }.

Record row := mkRow {
  w_trig : N; w_seq : N;
  w_doc : N; w_rev : N;
  w_removed : list N;              (* Removed, ascending; [] is the nil set *)
  w_deleted : bool; w_revoked : bool; w_allremoved : bool;
  w_principal : bool }.

Definition tok (r : row) : seqid := mk (w_trig r) 0 (w_seq r).

Fixpoint log_of (c : N) (logs : list (N * list logentry)) : list logentry :=
  match logs with
  | [] => []
  | (k, l) :: r => if k =? c then l else log_of c r
  end.

Fixpoint find_doc (d : N) (docs : list docinfo) : option docinfo :=
  match docs with
  | [] => None
  | x :: r => if d_id x =? d then Some x else find_doc d r
  end.

(* ---------- the per-channel back-fill decision (the loop over channelsSince) ---------- *)
(* result: None = channel skipped in this iteration (grant later than the cached sequence);
   Some (trig, seq) = chanOpts.Since *)
Definition chan_since (since : seqid) (cached added : N) : option (N * N) :=
  let backfill_required := (1 <? added) && before since (mk 0 0 added) && (added <=? cached) in
  if cached <? added then None
  else
    let trig := TriggeredBy since in
    let backfill_pending := (trig =? 0) || (trig <? added) in
    let backfill_other := negb (trig =? 0) && (added <? trig) in
    if backfill_required && backfill_pending then Some (added, 0)
    else if backfill_other then Some (0, trig - 1)
    else Some (trig, Seq since).

(* changesFeed for one channel: entries after the (safe) since; TriggeredBy is cleared for good once an
   entry's sequence reaches it; deletes and removals are dropped while it is still set *)
Fixpoint chan_feed_from (c trig : N) (l : list logentry) : list row :=
  match l with
  | [] => []
  | e :: rest =>
      let trig' := if trig <=? le_seq e then 0 else trig in
      let r := mkRow trig' (le_seq e) (le_doc e) (le_rev e) (if le_removed e then [c] else [])
                     (le_deleted e) false false false in
      if (0 <? trig') && (le_deleted e || le_removed e) then chan_feed_from c trig' rest
      else r :: chan_feed_from c trig' rest
  end.

Definition chan_feed (c : N) (cs : N * N) (log : list logentry) : list row :=
  chan_feed_from c (fst cs) (filter (fun e => snd cs <? le_seq e) log).

(* ---------- the revocation feed of one channel (buildRevokedFeed) ---------- *)
(* (revocationSinceSeq, revokeFrom) *)
Definition revoke_params (since : seqid) (revoked_at : N) : N * N :=
  let trig := TriggeredBy since in
  let dflt := (Seq since, 0) in     (* SafeSequence with low sequence 0 *)
  if trig =? 0 then dflt
  else if revoked_at =? trig then (trig - 1, Seq since)
  else if trig <? revoked_at then (trig, 0)
  else dflt.

Definition revoked_feed (snap : snapshot) (since : seqid) (c revoked_at : N) : list row :=
  let '(rev_since, revoke_from) := revoke_params since revoked_at in
  let periods := granted_periods (s_user snap) (s_roles snap) c in
  flat_map (fun e =>
              let needs :=
                if Seq since <? le_seq e then
                  match find_doc (le_doc e) (s_docs snap) with
                  | None => false                  (* GetDocSyncData failed: skipped *)
                  | Some d => was_in_channel (d_hist d) periods c rev_since
                  end
                else true in
              let acc := match find_doc (le_doc e) (s_docs snap) with
                         | Some d => has_access (s_user snap) (s_roles snap) (d_active d)
                         | None => false
                         end in
              if needs && negb acc
              then [mkRow revoked_at (le_seq e) (le_doc e) (le_rev e) (if le_removed e then [c] else [])
                          (le_deleted e) true false false]
              else [])
           (filter (fun e => revoke_from <? le_seq e) (log_of c (s_logs snap))).

(* ---------- all feeds of one request ---------- *)
Definition user_feed (snap : snapshot) (since : seqid) : list row :=
  if before since (mk 0 0 (u_seq (s_user snap)))
  then [mkRow 0 (u_seq (s_user snap)) 0 0 [] false false false true] else [].

Definition feeds (snap : snapshot) (since : seqid) : list (list row) :=
  let u := s_user snap in
  let roles := s_roles snap in
  flat_map (fun '(c, added) =>
              match chan_since since (s_cached snap) added with
              | None => []
              | Some cs => [chan_feed c cs (log_of c (s_logs snap))]
              end) (inherited u roles)
  ++ [user_feed snap since]
  ++ map (fun '(c, at_) => revoked_feed snap since c at_)
         (revoked_channels u roles (Seq since) 0 (TriggeredBy since)).

(* ---------- the merge loop ---------- *)
Fixpoint set_add (x : N) (l : list N) : list N :=
  match l with
  | [] => [x]
  | y :: r => if x <? y then x :: l else if x =? y then l else y :: set_add x r
  end.
Definition set_union (a b : list N) : list N := fold_right set_add a b.
Definition is_nil {A} (l : list A) : bool := match l with [] => true | _ => false end.

Definition heads (fs : list (list row)) : list row :=
  flat_map (fun f => match f with [] => [] | h :: _ => [h] end) fs.

Definition min_step (best : option row) (h : row) : option row :=
  match best with
  | None => Some h
  | Some b => if before (tok h) (tok b) then Some h else best
  end.
Definition min_row (hs : list row) : option row := fold_left min_step hs None.

Definition tok_eqb (a b : row) : bool := (w_trig a =? w_trig b) && (w_seq a =? w_seq b).

Definition pop (m : row) (f : list row) : list row :=
  match f with
  | h :: t => if tok_eqb h m then t else f
  | [] => []
  end.

Definition group (m : row) (hs : list row) : row :=
  let same := filter (fun h => tok_eqb h m) hs in
  mkRow (w_trig m) (w_seq m) (w_doc m) (w_rev m)
        (fold_left (fun acc h => set_union acc (w_removed h)) same [])
        (w_deleted m) (w_revoked m)
        (negb (is_nil (w_removed m)) && forallb (fun h => negb (is_nil (w_removed h))) same)
        (w_principal m).

Fixpoint merge_all (fuel : nat) (fs : list (list row)) : list row :=
  match fuel with
  | O => []
  | S k =>
      match min_row (heads fs) with
      | None => []
      | Some m => group m (heads fs) :: merge_all k (map (pop m) fs)
      end
  end.

(* "Don't send any entries later than the cached sequence ..., unless they are part of a revocation
   triggered at or before the cached sequence" *)
Definition keep (cached : N) (r : row) : bool :=
  negb ((cached <? w_seq r) && negb (w_revoked r && (w_trig r <=? cached))).

Definition take_limit (limit : N) (l : list row) : list row :=
  if limit =? 0 then l else firstn (N.to_nat limit) l.

Definition pull (snap : snapshot) (since : seqid) (limit : N) : list row :=
  let fs := feeds snap since in
  take_limit limit (filter (keep (s_cached snap)) (merge_all (length (concat fs)) fs)).

(* the position a protocol-following client resumes from: the token of the last row as printed by
   SequenceID.String (TriggeredBy survives only in front of a smaller sequence) and parsed back *)
Definition resume_token (r : row) : seqid :=
  if (0 <? w_trig r) && (w_seq r <? w_trig r) then mk (w_trig r) 0 (w_seq r) else mk 0 0 (w_seq r).

Definition next_since (since : seqid) (rows : list row) : seqid :=
  match rows with
  | [] => since
  | _ => resume_token (last rows (mkRow 0 0 0 0 [] false false false false))
  end.
