(* C13: what the snapshot of a well-formed, loaded state of the whole-system model says: the channels the feed iterates
   over are the channels the specification grants (effective <-> truth_chans), has_access is "some channel of the
   current revision is effective", the logs are the per-channel logs of the documents and ascend, the revocation
   sequences are positive and at or below the cached sequence, and the feeds of ANY request are consistent (rows
   with the same token describe the same document revision) -- the hypothesis of the delivery theorems, proved here for
   every reachable state instead of being checked per snapshot. *)
From SG Require Import Base.Prelude C20.SeqIdGen C20.SeqId
  C13.Revocation C13.RevocationProofs C13.Feed C13.FeedProofs C13.FeedComplete C13.Client C13.ClientProofs
  C13.DocHist C13.GrantSys C13.GrantSysProofs C13.PeriodsProofs
  C13.MergeSorted C13.Sys C13.SysDocs C13.SysGrants C13.Hyps C13.SysInv C13.SysRel.
Open Scope N_scope.

Lemma snap_inherited y : inherited (s_user (snapshot_of y)) (s_roles (snapshot_of y)) = effective (y_g y).
Proof. reflexivity. Qed.

Lemma snap_revoked y a b c :
  revoked_channels (s_user (snapshot_of y)) (s_roles (snapshot_of y)) a b c
  = revoked_channels (view_user (y_g y)) (view_roles (y_g y)) a b c.
Proof. reflexivity. Qed.

Lemma snap_periods y c :
  granted_periods (s_user (snapshot_of y)) (s_roles (snapshot_of y)) c
  = granted_periods (view_user (y_g y)) (view_roles (y_g y)) c.
Proof. reflexivity. Qed.

Lemma snap_cached y : s_cached (snapshot_of y) = cached y.
Proof. reflexivity. Qed.

(* ---------- the loaded principals ---------- *)
Section Loaded.
Variable y : sys.
Hypothesis Hw : wf y.
Hypothesis Hl : loaded (y_g y).

Let g := y_g y.

Lemma user_src c s : tget c (p_set (g_user g)) = Some s -> src_chans 0 (y_docs y) (y_uexp y) c s.
Proof. destruct Hl as (Hv & _). destruct (wf_sync_u y Hw Hv) as [A _]. apply A. Qed.

Lemma user_has c s : src_chans 0 (y_docs y) (y_uexp y) c s -> tmem c (p_set (g_user g)) = true.
Proof. destruct Hl as (Hv & _). destruct (wf_sync_u y Hw Hv) as [_ B]. apply B. Qed.

Lemma uroles_src r s : tget r (p_set (g_uroles g)) = Some s -> src_roles (y_docs y) (y_urexp y) r s.
Proof. destruct Hl as (_ & Hv & _). destruct (wf_sync_ur y Hw Hv) as [A _]. apply A. Qed.

Lemma uroles_has r s : src_roles (y_docs y) (y_urexp y) r s -> tmem r (p_set (g_uroles g)) = true.
Proof. destruct Hl as (_ & Hv & _). destruct (wf_sync_ur y Hw Hv) as [_ B]. apply B. Qed.

Lemma role_src r p c s :
  role_get r (g_roles g) = Some (p, false) -> tget c (p_set p) = Some s -> src_chans r (y_docs y) (rexp_get r (y_rexp y)) c s.
Proof. intros Hget. destruct Hl as (_ & _ & Hv). destruct (wf_sync_r y Hw r p Hget (Hv r p Hget)) as [A _]. apply A. Qed.

Lemma role_has r p c s :
  role_get r (g_roles g) = Some (p, false) -> src_chans r (y_docs y) (rexp_get r (y_rexp y)) c s -> tmem c (p_set p) = true.
Proof. intros Hget. destruct Hl as (_ & _ & Hv). destruct (wf_sync_r y Hw r p Hget (Hv r p Hget)) as [_ B]. apply B. Qed.

Lemma role_view r p : role_get r (g_roles g) = Some (p, false) -> view_role (r, (p, false)) = mkRole r false (p_set p) (p_hist p).
Proof. intros Hget. destruct Hl as (_ & _ & Hv). cbn [view_role orb]. rewrite (Hv r p Hget). reflexivity. Qed.

(* a role among the current roles of the loaded user *)
Lemma current_role_inv rs since :
  In (rs, since) (current_roles (view_user g) (view_roles g)) ->
  exists r p, role_get r (g_roles g) = Some (p, false) /\ rs = mkRole r false (p_set p) (p_hist p)
              /\ In (r, since) (p_set (g_uroles g)).
Proof.
  intros Hin. unfold current_roles in Hin. apply filter_In in Hin as [Hin Hdel].
  apply current_roles_all_inv in Hin as (name & Hin & Hf).
  unfold view_roles in Hf; rewrite find_role_view in Hf.
  destruct (role_get name (g_roles g)) as [[p del]|] eqn:Hget; [| discriminate].
  cbn [option_map] in Hf; inversion Hf; subst rs. cbn [view_role r_deleted] in Hdel. destruct del; [discriminate |].
  exists name, p. split; auto. split; [apply role_view; exact Hget | exact Hin].
Qed.

Lemma current_role_in r p since :
  role_get r (g_roles g) = Some (p, false) -> In (r, since) (p_set (g_uroles g)) ->
  In (mkRole r false (p_set p) (p_hist p), since) (current_roles (view_user g) (view_roles g)).
Proof.
  intros Hget Hin. unfold current_roles. apply filter_In. split; [| reflexivity].
  eapply current_roles_all_in; [exact Hin |]. unfold view_roles. rewrite find_role_view, Hget. cbn [option_map].
  rewrite role_view by exact Hget. reflexivity.
Qed.

Lemma role_pos r p c s : role_get r (g_roles g) = Some (p, false) -> In (c, s) (p_set p) -> 0 < s.
Proof.
  intros Hget Hin. destruct (gw_roles _ _ (wf_g y Hw) r p false Hget) as ([[Hs _] _ _ _ _ _] & _). destruct (Hs c s Hin); auto.
Qed.

(* ---------- effective <-> the specification ---------- *)
Lemma effective_truth c : tmem c (effective g) = true <-> In c (truth_chans y).
Proof.
  unfold effective, truth_chans. split.
  - intros H. apply inherited_inv in H as [H|(rs & since & Hin & Hc)].
    + apply tmem_tget in H as (s & Hs). cbn [view_user u_chans] in Hs. apply user_src in Hs as [[-> _]|[H|(x & Hx & Hc)]].
      * left; reflexivity.
      * right. apply in_or_app; left. apply (in_map fst) in H; exact H.
      * right. apply in_or_app; right. apply in_or_app; left. unfold doc_grants. apply in_flat_map. exists x; split; auto.
        apply (in_map fst) in Hc; exact Hc.
    + destruct (current_role_inv rs since Hin) as (r & p & Hget & -> & Hr). cbn [r_chans] in Hc.
      right. apply in_or_app; right. apply in_or_app; right. apply in_flat_map. exists r. split.
      * apply tget_in_iff_uniq in Hr; [| apply (pw_set _ _ (gw_uroles _ _ (wf_g y Hw)))].
        apply uroles_src in Hr as [H|(x & Hx & Hrx)].
        -- apply in_or_app; left. apply (in_map fst) in H; exact H.
        -- apply in_or_app; right. unfold doc_role_grants. apply in_flat_map. exists x; split; auto. apply (in_map fst) in Hrx; exact Hrx.
      * fold g. rewrite Hget. apply tmem_tget in Hc as (s & Hs). apply (role_src r p c s Hget) in Hs as [[-> _]|[H|(x & Hx & Hcx)]].
        -- left; reflexivity.
        -- right. apply in_or_app; left. apply (in_map fst) in H; exact H.
        -- right. apply in_or_app; right. unfold doc_grants. apply in_flat_map. exists x; split; auto. apply (in_map fst) in Hcx; exact Hcx.
  - intros [<-|H].
    + apply inherited_keep. cbn [view_user u_chans]. apply (user_has public_chan 1). left; auto.
    + apply in_app_or in H as [H|H].
      * apply in_map_iff in H as ([c' s] & <- & Hin). apply inherited_keep. cbn [view_user u_chans fst]. apply (user_has c' s). right; left; exact Hin.
      * apply in_app_or in H as [H|H].
        -- unfold doc_grants in H. apply in_flat_map in H as (x & Hx & Hc). apply in_map_iff in Hc as ([c' s] & <- & Hin).
           apply inherited_keep. cbn [view_user u_chans fst]. apply (user_has c' s). right; right; exists x; auto.
        -- apply in_flat_map in H as (r & Hr & Hc). fold g in Hc.
           destruct (role_get r (g_roles g)) as [[p [|]]|] eqn:Hget; [destruct Hc | | destruct Hc].
           assert (exists since, In (r, since) (p_set (g_uroles g))) as (since & Hsince).
           { assert (exists s, src_roles (y_docs y) (y_urexp y) r s) as (s & Hs).
             { apply in_app_or in Hr as [Hr|Hr].
               - apply in_map_iff in Hr as ([r' s] & <- & Hin). exists s; left; exact Hin.
               - unfold doc_role_grants in Hr. apply in_flat_map in Hr as (x & Hx & Hrx). apply in_map_iff in Hrx as ([r' s] & <- & Hin).
                 exists s; right; exists x; auto. }
             apply uroles_has in Hs. apply tmem_in in Hs. exact Hs. }
           assert (exists s, src_chans r (y_docs y) (rexp_get r (y_rexp y)) c s) as (s & Hs).
           { destruct Hc as [<-|Hc]; [exists 1; left; auto |]. apply in_app_or in Hc as [Hc|Hc].
             - apply in_map_iff in Hc as ([c' s] & <- & Hin). exists s; right; left; exact Hin.
             - unfold doc_grants in Hc. apply in_flat_map in Hc as (x & Hx & Hcx). apply in_map_iff in Hcx as ([c' s] & <- & Hin).
               exists s; right; right; exists x; auto. }
           apply (role_has r p c s Hget) in Hs.
           eapply inherited_role with (r := mkRole r false (p_set p) (p_hist p)) (since := since).
           ++ apply current_role_in; auto.
           ++ exact Hs.
           ++ cbn [r_chans]. intros s' Hs'. apply tget_in in Hs'. eapply role_pos; eauto.
Qed.

(* ---------- has_access ---------- *)
Lemma no_star_user : tmem star (p_set (g_user g)) = false.
Proof. apply (pw_set _ _ (gw_user _ _ (wf_g y Hw))). Qed.

Lemma can_see_effective c :
  can_see_channel (s_user (snapshot_of y)) (s_roles (snapshot_of y)) c = tmem c (effective g).
Proof.
  apply Bool.eq_true_iff_eq. unfold can_see_channel. cbn [snapshot_of s_user s_roles u_chans]. fold g.
  rewrite no_star_user, orb_false_r. split.
  - intros H. apply orb_true_iff in H as [H|H]; [apply inherited_keep; exact H |].
    apply existsb_exists in H as ([rs since] & Hin & Hc).
    change (In (rs, since) (current_roles (view_user g) (view_roles g))) in Hin.
    destruct (current_role_inv rs since Hin) as (r & p & Hget & -> & Hr). cbn [r_chans] in Hc.
    assert (tmem star (p_set p) = false) as Hns
      by (destruct (gw_roles _ _ (wf_g y Hw) r p false Hget) as ([[_ [_ Hs]] _ _ _ _ _] & _); exact Hs).
    rewrite Hns, orb_false_r in Hc.
    eapply inherited_role with (r := mkRole r false (p_set p) (p_hist p)) (since := since); eauto.
    cbn [r_chans]. intros s' Hs'. apply tget_in in Hs'. eapply role_pos; eauto.
  - intros H. apply inherited_inv in H as [H|(rs & since & Hin & Hc)]; [cbn [view_user u_chans] in H; rewrite H; reflexivity |].
    apply orb_true_iff; right. apply existsb_exists. exists (rs, since). split; [exact Hin |]. rewrite Hc; reflexivity.
Qed.

Lemma find_doc_snapshot d :
  find_doc d (s_docs (snapshot_of y))
  = option_map (fun x => mkDoc (sd_id x) (sd_cs x ++ sd_csh x) (Some (sd_active x))) (doc_get d (y_docs y)).
Proof.
  cbn [snapshot_of s_docs]. induction (y_docs y) as [|x l IH]; cbn [map find_doc doc_get option_map]; auto.
  cbn [d_id]. destruct (sd_id x =? d); auto.
Qed.

Definition visibleb (x : sdoc) : bool := existsb (fun c => tmem c (effective g)) (sd_active x).

Lemma can_see_visible d :
  user_can_see (snapshot_of y) d = match doc_get d (y_docs y) with Some x => visibleb x | None => false end.
Proof.
  unfold user_can_see. rewrite find_doc_snapshot. destruct (doc_get d (y_docs y)) as [x|]; cbn [option_map]; auto.
  cbn [d_active has_access]. unfold visibleb. destruct (sd_active x) as [|c0 l] eqn:Ea.
  - cbn [existsb s_user snapshot_of u_chans]. apply no_star_user.
  - generalize (c0 :: l). intros l0. induction l0 as [|c1 l0 IH]; cbn [existsb]; [reflexivity |]. rewrite IH, can_see_effective. reflexivity.
Qed.

Lemma active_live x : In x (y_docs y) -> sd_active x <> [] -> sd_live x = true.
Proof.
  intros Hx Hne. destruct (sd_live x) eqn:E; auto. exfalso; apply Hne. apply (dw_dead _ _ _ (wf_docs y Hw x Hx) E).
Qed.

Lemma in_sys_visible d :
  In d (sys_visible y) <-> exists x, doc_get d (y_docs y) = Some x /\ visibleb x = true.
Proof.
  unfold sys_visible. rewrite in_map_iff. split.
  - intros (x & <- & Hin). apply filter_In in Hin as [Hin Hv]. apply andb_true_iff in Hv as [_ Hv].
    exists x. split; [apply in_doc_get; [apply (wf_ids y Hw) | exact Hin] |].
    apply existsb_exists in Hv as (c & Hc & Hm). apply existsb_exists. exists c; split; auto.
    apply effective_truth. apply mem_in; exact Hm.
  - intros (x & Hget & Hv). destruct (doc_get_in _ _ _ Hget) as [Hin Hid]. exists x; split; auto.
    apply filter_In; split; auto. apply existsb_exists in Hv as (c & Hc & Hm).
    apply andb_true_iff; split.
    + apply active_live; auto. intros E; rewrite E in Hc; destruct Hc.
    + apply existsb_exists. exists c; split; auto. apply mem_in, effective_truth; exact Hm.
Qed.

(* ---------- the logs ---------- *)
Lemma snap_logs_asc : logs_asc (snapshot_of y).
Proof. intros c. rewrite log_of_snapshot. apply chan_log_asc; [apply (wf_ids y Hw) | apply (wf_disj y Hw)]. Qed.

Lemma snap_log_entry c e :
  In e (log_of c (s_logs (snapshot_of y))) <-> exists x, In x (y_docs y) /\ contributes c x e.
Proof. rewrite log_of_snapshot. apply in_chan_log. Qed.

(* entries with the same sequence belong to the same document and agree *)
Lemma same_seq_same_doc x1 x2 q : In x1 (y_docs y) -> In x2 (y_docs y) -> owns x1 q -> owns x2 q -> x1 = x2.
Proof.
  intros H1 H2 O1 O2. assert (sd_id x1 = sd_id x2) as Hid by (eapply (wf_disj y Hw); eauto).
  pose proof (in_doc_get _ _ (wf_ids y Hw) H1) as G1. pose proof (in_doc_get _ _ (wf_ids y Hw) H2) as G2.
  rewrite Hid in G1. congruence.
Qed.

Lemma entries_agree c1 c2 e1 e2 :
  In e1 (log_of c1 (s_logs (snapshot_of y))) -> In e2 (log_of c2 (s_logs (snapshot_of y))) -> le_seq e1 = le_seq e2 ->
  le_doc e1 = le_doc e2 /\ le_rev e1 = le_rev e2 /\ le_deleted e1 = le_deleted e2.
Proof.
  intros H1 H2 Hs. apply snap_log_entry in H1 as (x1 & Hx1 & C1). apply snap_log_entry in H2 as (x2 & Hx2 & C2).
  destruct (contributes_owns _ _ _ C1) as [O1 D1]. destruct (contributes_owns _ _ _ C2) as [O2 D2].
  rewrite Hs in O1. assert (x1 = x2) by (eapply same_seq_same_doc; eauto). subst x2.
  split; [congruence |].
  pose proof (wf_docs y Hw x1 Hx1) as [_ Hrm Hcons _ _ _ _ _].
  destruct C1 as [[Hm1 ->]|(Hm1 & s1 & r1 & d1 & Hf1 & ->)], C2 as [[Hm2 ->]|(Hm2 & s2 & r2 & d2 & Hf2 & ->)]; cbn [le_seq le_rev le_deleted] in *.
  - auto.
  - subst s2. destruct (rm_find_key _ _ _ _ Hf2) as [_ Hin2]. destruct (Hrm _ _ _ _ Hin2) as (_ & _ & Heq). destruct (Heq eq_refl) as [-> ->].
    split; auto. rewrite (active_live x1 Hx1); auto. apply mem_in in Hm1. intros E; rewrite E in Hm1; destruct Hm1.
  - subst s1. destruct (rm_find_key _ _ _ _ Hf1) as [_ Hin1]. destruct (Hrm _ _ _ _ Hin1) as (_ & _ & Heq). destruct (Heq eq_refl) as [-> ->].
    split; auto. rewrite (active_live x1 Hx1); auto. apply mem_in in Hm2. intros E; rewrite E in Hm2; destruct Hm2.
  - subst s2. destruct (rm_find_key _ _ _ _ Hf1) as [_ Hin1]. destruct (rm_find_key _ _ _ _ Hf2) as [_ Hin2].
    destruct (Hcons _ _ _ _ _ _ _ Hin1 Hin2) as [-> ->]. auto.
Qed.

Lemma entry_seq_bounds c e : In e (log_of c (s_logs (snapshot_of y))) -> 0 < le_seq e <= cached y /\ le_seq e <> y_useq y.
Proof.
  intros H. apply snap_log_entry in H as (x & Hx & C). destruct (contributes_owns _ _ _ C) as [O _].
  destruct (owns_below y x _ Hw Hx O). unfold cached. split; auto; lia.
Qed.

End Loaded.

(* ---------- the values RevokedCollectionChannels reports are ends of history entries ---------- *)
Section RevokedValues.
Variable Q : N -> Prop.

Definition hq (h : hist) : Prop := forall k es, In (k, es) h -> es <> [] -> Q (last_end es).
Definition allQ (m : tset) : Prop := forall c a, In (c, a) m -> Q a.

Lemma in_tset_put c s t k v : In (k, v) (tset_put c s t) -> (k, v) = (c, s) \/ In (k, v) t.
Proof.
  induction t as [|[k' v'] r IH]; cbn [tset_put]; [intros [H|[]]; left; symmetry; exact H |].
  destruct (k' =? c).
  - intros [H|H]; [left; symmetry; exact H | right; right; exact H].
  - intros [H|H]; [right; left; exact H |]. apply IH in H as [H|H]; [left; exact H | right; right; exact H].
Qed.

Lemma allQ_radd c s m : allQ m -> Q s -> allQ (radd c s m).
Proof.
  intros Hm Hs k v Hin. unfold radd in Hin. destruct (tget c m) as [old|].
  - destruct (old <? s); [| eapply Hm; eauto]. apply in_tset_put in Hin as [Heq|Hin]; [inversion Heq; subst; exact Hs | eapply Hm; eauto].
  - apply in_tset_put in Hin as [Heq|Hin]; [inversion Heq; subst; exact Hs | eapply Hm; eauto].
Qed.

Lemma existsb_nonempty {A} (f : A -> bool) l : existsb f l = true -> l <> [].
Proof. destruct l; [discriminate | discriminate]. Qed.

Lemma allQ_hist_processing acc_chans chk trig h m : hq h -> allQ m -> allQ (hist_processing acc_chans chk trig h m).
Proof.
  unfold hist_processing. intros Hh. assert (forall k es, In (k, es) h -> In (k, es) h) as Hsub by auto.
  revert m Hsub. generalize h at 1 3 as l. induction l as [|[c es] r IH]; intros m Hsub Hm; cbn [fold_left]; auto.
  apply IH; [intros k es' Hin; apply Hsub; right; exact Hin |].
  destruct (negb (tmem c acc_chans) && existsb (hit chk trig) es) eqn:E; auto.
  apply andb_true_iff in E as [_ E]. apply allQ_radd; auto. eapply Hh; [apply Hsub; left; reflexivity | eapply existsb_nonempty; eauto].
Qed.

Lemma allQ_role_processing acc_chans chk trig r rseq m :
  hq (r_hist r) -> Q rseq -> allQ m -> allQ (revoked_role_processing acc_chans chk trig r rseq m).
Proof.
  intros Hh Hr Hm. unfold revoked_role_processing.
  set (m1 := if r_deleted r then m else _).
  assert (allQ m1) as H1.
  { subst m1. destruct (r_deleted r); auto. generalize (r_chans r). intros l. revert m Hm.
    induction l as [|[c s] l IH]; intros m Hm; cbn [fold_left]; auto.
    apply IH. destruct (tmem c acc_chans); auto using allQ_radd. }
  clearbody m1. assert (forall k es, In (k, es) (r_hist r) -> In (k, es) (r_hist r)) as Hsub by auto.
  revert m1 H1 Hsub. generalize (r_hist r) at 1 3 as h. induction h as [|[c es] h IH]; intros m1 H1 Hsub; cbn [fold_left]; auto.
  apply IH; [| intros k es' Hin; apply Hsub; right; exact Hin].
  destruct (tmem c acc_chans); auto.
  assert (forall l, (forall e, In e l -> In e es) -> forall m, allQ m ->
            allQ (fold_left (fun m e => if hit chk trig e then (if rseq <? snd e then radd c rseq m else radd c (last_end es) m) else m) l m)) as K.
  { induction l as [|e l IHl]; intros Hl m0 Hm0; cbn [fold_left]; auto.
    apply IHl; [intros e' He'; apply Hl; right; exact He' |].
    destruct (hit chk trig e); auto. destruct (rseq <? snd e); apply allQ_radd; auto.
    eapply Hh; [apply Hsub; left; reflexivity |]. intros E. assert (In e es) as Hin by (apply Hl; left; reflexivity). rewrite E in Hin; destruct Hin. }
  apply K; auto.
Qed.

Lemma allQ_revoked u roles since low trig :
  hq (u_hist u) -> hq (u_role_hist u) -> (forall name r, find_role name roles = Some r -> hq (r_hist r)) ->
  allQ (revoked_channels u roles since low trig).
Proof.
  intros Hu Hur Hroles. unfold revoked_channels.
  apply allQ_hist_processing; auto.
  assert (forall (l : list (role_st * N)) m, (forall r x, In (r, x) l -> hq (r_hist r)) -> allQ m ->
            allQ (fold_left (fun m '(r, _) => hist_processing (inherited u roles) (check_seq since low trig) trig (r_hist r) m) l m)) as K1.
  { induction l as [|[r x] l IH]; intros m Hl Hm; cbn [fold_left]; auto.
    apply IH; [intros r' x' Hin; eapply Hl; right; exact Hin |]. apply allQ_hist_processing; auto. eapply Hl; left; reflexivity. }
  apply K1.
  - intros r x Hin.
    assert (In (r, x) (current_roles_all u roles)) as Hall.
    { apply in_app_or in Hin as [Hin|Hin]; [unfold current_roles in Hin |]; apply filter_In in Hin as [Hin _]; exact Hin. }
    apply current_roles_all_inv in Hall as (name & _ & Hf). eapply Hroles; eauto.
  - assert (forall (l : tset) m, (forall name rseq, In (name, rseq) l -> Q rseq) -> allQ m ->
              allQ (fold_left (fun m '(name, rseq) => match find_role name roles with
                                                      | Some r => revoked_role_processing (inherited u roles) (check_seq since low trig) trig r rseq m
                                                      | None => m end) l m)) as K2.
    { induction l as [|[name rseq] l IH]; intros m Hl Hm; cbn [fold_left]; auto.
      apply IH; [intros n' r' Hin; eapply Hl; right; exact Hin |].
      destruct (find_role name roles) as [r|] eqn:Ef; auto. apply allQ_role_processing; auto; [eapply Hroles; eauto | eapply Hl; left; reflexivity]. }
    apply K2; [| intros c a []].
    intros name rseq Hin. unfold roles_to_revoke in Hin. apply in_flat_map in Hin as ([name' es] & Hin & Hx).
    destruct (negb (tmem name' (u_roles u)) && existsb (hit (check_seq since low trig) trig) es) eqn:E; [| destruct Hx].
    destruct Hx as [Heq|[]]. inversion Heq; subst. apply andb_true_iff in E as [_ E].
    eapply Hur; eauto. eapply existsb_nonempty; eauto.
Qed.

End RevokedValues.

Lemma hq_of_pwf (Q : N -> Prop) n p :
  pwf n p -> (forall a, 0 < a < n -> Q a) -> hq Q (p_hist p).
Proof.
  intros Hp HQ k es Hin Hne. rewrite <- (huniq_in_hget _ _ _ (pw_huniq _ _ Hp) Hin) in *.
  apply HQ. apply (pw_ends _ _ Hp k). unfold last_end.
  destruct (hget k (p_hist p)) as [|e0 l] eqn:E; [congruence |]. apply (@exists_last _ (e0 :: l)) in Hne as (l' & a & ->).
  rewrite last_last. apply in_or_app; right; left; reflexivity.
Qed.

Lemma revoked_bounds y c at_ since low trig :
  wf y -> In (c, at_) (revoked_channels (view_user (y_g y)) (view_roles (y_g y)) since low trig) -> 0 < at_ <= cached y.
Proof.
  intros Hw Hin. pose proof (wf_g y Hw) as [Gu Gr Groles]. pose proof (wf_clock y Hw).
  apply (allQ_revoked (fun a => 0 < a <= cached y)) in Hin; auto.
  - cbn [view_user u_hist]. eapply hq_of_pwf; eauto. unfold cached; intros; lia.
  - cbn [view_user u_role_hist]. eapply hq_of_pwf; eauto. unfold cached; intros; lia.
  - intros name r Hf. unfold view_roles in Hf. rewrite find_role_view in Hf.
    destruct (role_get name (g_roles (y_g y))) as [[p del]|] eqn:Hget; [| discriminate].
    cbn [option_map] in Hf. inversion Hf; subst r. cbn [view_role r_hist].
    destruct (Groles name p del Hget) as (Hp & _). eapply hq_of_pwf; eauto. unfold cached; intros; lia.
Qed.

(* ---------- where the rows of the feeds come from ---------- *)
Inductive row_src (snap : snapshot) (since : seqid) (x : row) : Prop :=
| RsChan (c a : N) (cs : N * N) (e : logentry) :
    In (c, a) (inherited (s_user snap) (s_roles snap)) -> chan_since since (s_cached snap) a = Some cs ->
    In e (log_of c (s_logs snap)) -> snd cs < le_seq e ->
    tok x = tokof (fst cs) (le_seq e) -> w_seq x = le_seq e -> w_doc x = le_doc e -> w_rev x = le_rev e -> w_deleted x = le_deleted e ->
    w_removed x = (if le_removed e then [c] else []) -> w_revoked x = false -> w_principal x = false ->
    (le_deleted e || le_removed e = true -> fst cs <= le_seq e) -> row_src snap since x
| RsUser : x = mkRow 0 (u_seq (s_user snap)) 0 0 [] false false false true -> row_src snap since x
| RsRev (c at_ : N) (e : logentry) :
    In (c, at_) (revoked_channels (s_user snap) (s_roles snap) (Seq since) 0 (TriggeredBy since)) ->
    In e (log_of c (s_logs snap)) ->
    x = mkRow at_ (le_seq e) (le_doc e) (le_rev e) (if le_removed e then [c] else []) (le_deleted e) true false false ->
    user_can_see snap (le_doc e) = false -> row_src snap since x.

Lemma feeds_rows snap since x : logs_asc snap -> In x (concat (feeds snap since)) -> row_src snap since x.
Proof.
  intros Hasc Hin. unfold feeds in Hin. rewrite !concat_app in Hin. apply in_app_or in Hin as [Hin|Hin].
  - apply in_concat in Hin as (f & Hf & Hx). apply in_flat_map in Hf as ([c a] & Hca & Hf).
    destruct (chan_since since (s_cached snap) a) as [cs|] eqn:Ecs; [| destruct Hf]. destruct Hf as [<-|[]].
    unfold chan_feed in Hx.
    destruct (chan_feed_from_tok c (filter (fun e => snd cs <? le_seq e) (log_of c (s_logs snap))) (fst cs) (fst cs)
                (asc_log_filter _ _ (Hasc c)) (or_introl eq_refl) x Hx)
      as (Ht & e & He & Hs & Hd & Hr & Hdel & Hrm & Hrv & Hp & _ & Hskip).
    apply filter_In in He as [He Hlt]. apply N.ltb_lt in Hlt.
    apply (RsChan snap since x c a cs e); auto; try (symmetry; assumption). rewrite Hs; exact Ht.
  - apply in_app_or in Hin as [Hin|Hin].
    + cbn [concat] in Hin. rewrite app_nil_r in Hin. unfold user_feed in Hin.
      destruct (before since _); [| destruct Hin]. destruct Hin as [<-|[]]. apply RsUser; reflexivity.
    + apply in_concat in Hin as (f & Hf & Hx). apply in_map_iff in Hf as ([c at_] & <- & Hca).
      unfold revoked_feed in Hx. destruct (revoke_params since at_) as [rev_since revoke_from].
      apply in_flat_map in Hx as (e & He & Hx). apply filter_In in He as [He _].
      match type of Hx with In x (if ?b then _ else _) => destruct b eqn:Hb end; [| destruct Hx].
      destruct Hx as [<-|[]]. apply andb_true_iff in Hb as [_ Hacc]. apply negb_true_iff in Hacc.
      eapply (RsRev snap since _ c at_ e); eauto.
Qed.

Lemma tokof_seq t s : Seq (tokof t s) = s.
Proof. unfold tokof. destruct (t <=? s); reflexivity. Qed.

Lemma tok_seq x : Seq (tok x) = w_seq x.
Proof. reflexivity. Qed.
Lemma tok_trig x : TriggeredBy (tok x) = w_trig x.
Proof. reflexivity. Qed.

Lemma tokof_trig t s : TriggeredBy (tokof t s) = if t <=? s then 0 else t.
Proof. unfold tokof. destruct (t <=? s); reflexivity. Qed.

(* ---------- the feeds of any request on a reachable snapshot are consistent ---------- *)
Lemma row_agree_sym x y : row_agree x y = row_agree y x.
Proof.
  unfold row_agree. rewrite (N.eqb_sym (w_doc x)), (N.eqb_sym (w_rev x)).
  f_equal; [f_equal; [f_equal |] |]; apply Bool.eq_true_iff_eq; rewrite !Bool.eqb_true_iff; split; congruence.
Qed.

Lemma row_agree_intro x y :
  w_doc x = w_doc y -> w_rev x = w_rev y -> w_deleted x = w_deleted y -> w_revoked x = w_revoked y -> w_principal x = w_principal y ->
  row_agree x y = true.
Proof.
  intros H1 H2 H3 H4 H5. unfold row_agree. rewrite H1, H2, H3, H4, H5, !N.eqb_refl, !Bool.eqb_reflx. reflexivity.
Qed.

Section Consistent.
Variable y : sys.
Hypothesis Hw : wf y.
Hypothesis Hl : loaded (y_g y).
Variable since : seqid.
Let snap := snapshot_of y.

Lemma active_entry_visible c a e :
  In (c, a) (inherited (s_user snap) (s_roles snap)) -> In e (log_of c (s_logs snap)) ->
  le_deleted e || le_removed e = false -> user_can_see snap (le_doc e) = true.
Proof.
  intros Hca He Hlive. apply snap_log_entry in He as (x & Hx & [[Hm ->]|(_ & s & rev & del & _ & ->)]).
  - cbn [le_doc]. rewrite (can_see_visible y Hw Hl), (in_doc_get _ _ (wf_ids y Hw) Hx).
    unfold visibleb. apply existsb_exists. exists c. split; [apply mem_in; exact Hm |].
    apply tmem_in. exists a. exact Hca.
  - cbn [le_deleted le_removed] in Hlive. rewrite orb_true_r in Hlive. discriminate.
Qed.

Lemma rows_agree x1 x2 :
  row_src snap since x1 -> row_src snap since x2 -> tok_eqb x1 x2 = true -> row_agree x1 x2 = true.
Proof.
  intros S1 S2 Ht. unfold tok_eqb in Ht. apply andb_true_iff in Ht as [Htr Hsq]. apply N.eqb_eq in Htr, Hsq.
  destruct S1 as [c1 a1 cs1 e1 Hca1 Hcs1 He1 Hlt1 Htk1 Hs1 Hd1 Hr1 Hdel1 Hrm1 Hrv1 Hp1 Hsk1 | -> | c1 at1 e1 Hca1 He1 -> Hsee1];
  destruct S2 as [c2 a2 cs2 e2 Hca2 Hcs2 He2 Hlt2 Htk2 Hs2 Hd2 Hr2 Hdel2 Hrm2 Hrv2 Hp2 Hsk2 | -> | c2 at2 e2 Hca2 He2 -> Hsee2];
  cbn [w_trig w_seq] in Htr, Hsq.
  - (* channel / channel *)
    destruct (entries_agree y Hw c1 c2 e1 e2 He1 He2) as (A & B & C); [congruence |].
    apply row_agree_intro; congruence.
  - (* channel / user *)
    exfalso. destruct (entry_seq_bounds y Hw c1 e1 He1) as [_ Hne]. apply Hne. rewrite <- Hs1, Hsq. reflexivity.
  - (* channel / revocation *)
    exfalso. destruct (entries_agree y Hw c1 c2 e1 e2 He1 He2) as (A & _); [congruence |].
    assert (0 < at2) as Hpos by (eapply (revoked_bounds y c2 at2); eauto).
    assert (w_trig x1 = if fst cs1 <=? le_seq e1 then 0 else fst cs1) as Htx by (rewrite <- tok_trig, Htk1, tokof_trig; reflexivity).
    destruct (fst cs1 <=? le_seq e1) eqn:E; [lia |].
    assert (le_deleted e1 || le_removed e1 = false) as Hlive.
    { destruct (le_deleted e1 || le_removed e1) eqn:El; auto. specialize (Hsk1 eq_refl). lia. }
    pose proof (active_entry_visible c1 a1 e1 Hca1 He1 Hlive) as Hv. rewrite A in Hv. congruence.
  - exfalso. destruct (entry_seq_bounds y Hw c2 e2 He2) as [_ Hne]. apply Hne. rewrite <- Hs2, <- Hsq. reflexivity.
  - apply row_agree_intro; reflexivity.
  - exfalso. assert (0 < at2) as Hpos by (eapply (revoked_bounds y c2 at2); eauto). lia.
  - (* revocation / channel *)
    exfalso. destruct (entries_agree y Hw c1 c2 e1 e2 He1 He2) as (A & _); [congruence |].
    assert (0 < at1) as Hpos by (eapply (revoked_bounds y c1 at1); eauto).
    assert (w_trig x2 = if fst cs2 <=? le_seq e2 then 0 else fst cs2) as Htx by (rewrite <- tok_trig, Htk2, tokof_trig; reflexivity).
    destruct (fst cs2 <=? le_seq e2) eqn:E; [lia |].
    assert (le_deleted e2 || le_removed e2 = false) as Hlive.
    { destruct (le_deleted e2 || le_removed e2) eqn:El; auto. specialize (Hsk2 eq_refl). lia. }
    pose proof (active_entry_visible c2 a2 e2 Hca2 He2 Hlive) as Hv. rewrite <- A in Hv. congruence.
  - exfalso. assert (0 < at1) as Hpos by (eapply (revoked_bounds y c1 at1); eauto). lia.
  - destruct (entries_agree y Hw c1 c2 e1 e2 He1 He2) as (A & B & C); auto.
    apply row_agree_intro; cbn [w_doc w_rev w_deleted w_revoked w_principal]; auto.
Qed.

Theorem feeds_consistent_sys : feeds_consistent_b (feeds snap since) = true.
Proof.
  unfold feeds_consistent_b. apply forallb_forall. intros x1 H1. apply forallb_forall. intros x2 H2.
  destruct (tok_eqb x1 x2) eqn:E; [| reflexivity]. cbn [negb orb].
  apply rows_agree; auto; apply feeds_rows; auto; apply (snap_logs_asc y Hw).
Qed.

End Consistent.
