(* C12 -- invariants of the authentication model and the lemmas behind C12_Properties.v.
   bcrypt / SHA-1 are a Section variable [C : crypto] with the in-section hypothesis [OK : crypto_ok C]. *)
From SG Require Import Base.Prelude C12.AuthN C12.Instance.
Open Scope N_scope.

(* what the proofs assume about the external functions *)
Record crypto_ok (C : crypto) : Prop := {
  (* equality test on stored hashes (byte comparison) *)
  hash_eqb_spec : forall a b, hash_eqb C a b = true <-> a = b;
  (* SHA-1 does not collide on the passwords considered *)
  digest_inj : forall p q, digest C p = digest C q -> p = q;
  (* bcrypt: a hash generated from p (any cost, any salt) verifies q exactly when bcrypt cannot tell p and q
     apart: it keys on [bkey] = the first 72 bytes of the cyclic repetition of password ++ NUL ... *)
  verify_key : forall c s p q, verify C (gen C c s p) q = true <-> bkey C p = bkey C q;
  (* ... which is injective on [plain] passwords (at most 72 bytes, no NUL byte) *)
  bkey_plain : forall p q, plain C p = true -> plain C q = true -> bkey C p = bkey C q -> p = q;
  (* bcrypt.Cost reads back the cost the hash was generated with *)
  cost_gen : forall c s p, cost C (gen C c s p) = c
}.

(* ---- association lists ---- *)
Section AssocLemmas.
  Context {A : Type}.
  Lemma alookup_adel (k k' : N) (l : list (N * A)) :
    alookup k' (adel k l) = if k' =? k then None else alookup k' l.
  Proof.
    induction l as [|[a v] l IH]; cbn [adel alookup].
    - destruct (k' =? k); reflexivity.
    - destruct (a =? k) eqn:E1.
      + rewrite IH. destruct (k' =? k) eqn:E2; [reflexivity|].
        destruct (a =? k') eqn:E3; [|reflexivity]. exfalso; lia.
      + cbn [alookup]. rewrite IH. destruct (a =? k') eqn:E3; [|reflexivity].
        destruct (k' =? k) eqn:E2; [exfalso; lia | reflexivity].
  Qed.
  Lemma alookup_aset (k k' : N) (v : A) (l : list (N * A)) :
    alookup k' (aset k v l) = if k' =? k then Some v else alookup k' l.
  Proof.
    unfold aset. cbn [alookup]. rewrite alookup_adel, (N.eqb_sym k k'). destruct (k' =? k); reflexivity.
  Qed.
End AssocLemmas.

Ltac dm :=
  match goal with
  | |- context[match ?x with _ => _ end] => destruct x eqn:?
  | H : context[match ?x with _ => _ end] |- _ => destruct x eqn:?
  end.

Ltac keq :=
  repeat match goal with
  | H : (_ =? _) = true |- _ => apply N.eqb_eq in H
  | H : (_ =? _) = false |- _ => apply N.eqb_neq in H
  | H : (_ <? _) = true |- _ => apply N.ltb_lt in H
  | H : (_ <? _) = false |- _ => apply N.ltb_ge in H
  | H : negb _ = true |- _ => apply negb_true_iff in H
  | H : negb _ = false |- _ => apply negb_false_iff in H
  | H : _ && _ = true |- _ => apply andb_true_iff in H; destruct H
  end.

Ltac acc := cbn [users sessions cache cap now next_uuid pending with_users with_users_del with_sessions with_cache with_now
                 with_pending u_hash u_disabled u_uuid u_ver u_pw s_user s_uuid s_expires s_docexp s_ttl s_onetime refreshed
                 p_user p_pw p_cost p_ver fst snd] in *.

Section Proofs.
  Variable C : crypto.
  Hypothesis OK : crypto_ok C.

  Notation state := (state C).
  Notation user := (user C).

  (* ---- the cache ---- *)
  Lemma key_eqb_eq (a b : key C) : key_eqb C a b = true -> a = b.
  Proof.
    destruct a as [d h], b as [d' h']; unfold key_eqb; cbn [fst snd]; intros H.
    apply andb_true_iff in H; destruct H as [H1 H2].
    apply N.eqb_eq in H1. apply (hash_eqb_spec C OK) in H2. congruence.
  Qed.
  Lemma kmem_in k (c : list (key C)) : kmem C k c = true -> In k c.
  Proof.
    unfold kmem; intros H. apply existsb_exists in H. destruct H as [x [Hin He]].
    apply key_eqb_eq in He. subst; assumption.
  Qed.
  Lemma cache_put_in capacity ev k (c : list (key C)) x :
    In x (cache_put C capacity ev k c) -> In x c \/ x = k.
  Proof.
    unfold cache_put; intros H. repeat dm; auto.
    - apply in_app_or in H. destruct H as [H|[H|[]]]; auto.
      unfold kremove in H. apply filter_In in H. tauto.
    - apply in_app_or in H. destruct H as [H|[H|[]]]; auto.
    - apply in_app_or in H. destruct H as [H|[H|[]]]; auto.
  Qed.

  (* ---- the invariant ---- *)
  Definition pw_ok (usr : user) : Prop :=
    (u_hash usr = None /\ u_pw usr = 0) \/
    (exists c s, u_hash usr = Some (gen C c s (u_pw usr)) /\ u_pw usr <> 0).

  Record Inv (st : state) : Prop := {
    inv_u_uuid : forall u usr, alookup u (users st) = Some usr -> u_uuid usr < next_uuid st;
    inv_s_uuid : forall sid s, alookup sid (sessions st) = Some s -> s_uuid s < next_uuid st;
    (* every cached pair passed the full check: (sha1 p, h) with verify h p *)
    inv_cache : forall d h, In (d, h) (cache st) -> exists p, d = digest C p /\ verify C h p = true;
    (* the ghost password is the one the stored hash was generated from *)
    inv_pw : forall u usr, alookup u (users st) = Some usr -> pw_ok usr
  }.

  Lemma Inv_init capacity : Inv (init C capacity).
  Proof. split; cbn; intros; try discriminate; tauto. Qed.

  Lemma new_hash_ok p salt c b uu vv : pw_ok (mkUser (new_hash C p salt c) b uu vv p).
  Proof.
    unfold pw_ok, new_hash; cbn. destruct (p =? 0) eqn:E; keq.
    - left; auto.
    - right; eauto.
  Qed.

  Lemma get_session_some st sid s :
    get_session C st sid = Some s ->
    alookup sid (sessions st) = Some s /\ (s_docexp s = 0 \/ now st < s_docexp s).
  Proof.
    unfold get_session; intros H. repeat dm; try discriminate. inv H.
    match goal with H : _ || _ = true |- _ => apply orb_true_iff in H; destruct H end; keq; auto.
  Qed.

  Ltac look :=
    repeat match goal with
    | H : context[alookup _ (aset _ _ _)] |- _ => rewrite alookup_aset in H
    | H : context[alookup _ (adel _ _)] |- _ => rewrite alookup_adel in H
    | |- context[alookup _ (aset _ _ _)] => rewrite alookup_aset
    | |- context[alookup _ (adel _ _)] => rewrite alookup_adel
    end.

  Ltac inv_some :=
    repeat match goal with
    | H : Some _ = Some _ |- _ => inv H
    | H : None = Some _ |- _ => discriminate H
    | H : Some _ = None |- _ => discriminate H
    end.

  (* ---- the password check (GetUser + AuthenticateWithReason through the cache) ---- *)
  Lemma pass_check_frame st u q ev :
    let st1 := fst (pass_check C st u q ev) in
    users st1 = users st /\ sessions st1 = sessions st /\ now st1 = now st /\ next_uuid st1 = next_uuid st /\
    pending st1 = pending st /\ cap st1 = cap st /\
    (forall x, In x (cache st1) -> In x (cache st) \/
        (exists usr h, alookup u (users st) = Some usr /\ u_hash usr = Some h /\ x = (digest C q, h) /\ verify C h q = true)).
  Proof.
    unfold pass_check. repeat dm; cbn [fst]; acc; repeat split; auto.
    intros x Hx. apply cache_put_in in Hx. destruct Hx as [Hx|Hx]; [left; exact Hx | right; eauto 8].
  Qed.

  Lemma pass_check_Inv st u q ev : Inv st -> Inv (fst (pass_check C st u q ev)).
  Proof.
    intros [I1 I2 I3 I4]. destruct (pass_check_frame st u q ev) as [E1 [E2 [E3 [E4 [E5 [E6 E7]]]]]].
    split; rewrite ?E1, ?E2, ?E4; auto.
    intros d h Hin. destruct (E7 _ Hin) as [Hin'|[usr [h' [_ [_ [E Hv]]]]]]; [eauto|]. inv E. eauto.
  Qed.

  Lemma pass_check_sound st u q ev w :
    Inv st -> snd (pass_check C st u q ev) = Some w ->
    w = u /\ exists usr, alookup u (users st) = Some usr /\ u_disabled usr = false /\
      match u_hash usr with Some h => verify C h q = true | None => q = 0 end /\
      bkey C q = bkey C (u_pw usr).
  Proof.
    intros [I1 I2 I3 I4] H. unfold pass_check in H.
    destruct (alookup u (users st)) as [usr|] eqn:Eu; [|discriminate H].
    destruct (u_disabled usr) eqn:Ed; [discriminate H|].
    specialize (I4 _ _ Eu). unfold pw_ok in I4.
    destruct (u_hash usr) as [h|] eqn:Eh.
    - assert (Hv : verify C h q = true /\ w = u).
      { destruct (kmem C (digest C q, h) (cache st)) eqn:Ek.
        - cbn in H. inv H. split; [|reflexivity].
          apply kmem_in in Ek. destruct (I3 _ _ Ek) as [p [Hd Hp]].
          apply (digest_inj C OK) in Hd. subst; assumption.
        - destruct (verify C h q) eqn:Ev; cbn in H; [inv H; auto | discriminate H]. }
      destruct Hv as [Hv ->]. split; [reflexivity|]. exists usr.
      split; [solve [auto]|]. split; [solve [auto]|]. rewrite ?Eh. split; [exact Hv|].
      destruct I4 as [[I4 _]|[c [s [I4 _]]]]; [discriminate I4|].
      inv I4. apply (verify_key C OK) in Hv. congruence.
    - cbn in H. destruct (q =? 0) eqn:E0; [|discriminate H]. inv H. keq.
      split; [reflexivity|]. exists usr.
      split; [solve [auto]|]. split; [solve [auto]|]. rewrite ?Eh. split; [exact E0|].
      destruct I4 as [[_ I4]|[c [s [I4 _]]]]; [congruence | discriminate I4].
  Qed.

  (* ---- the callback of rehashPassword ---- *)
  Lemma cmp_ok_sound st h p : Inv st -> cmp_ok C st h p = true -> verify C h p = true.
  Proof.
    intros [_ _ I3 _] H. unfold cmp_ok in H. apply orb_true_iff in H. destruct H as [H|H]; [|exact H].
    apply kmem_in in H. destruct (I3 _ _ H) as [q [Hd Hq]]. apply (digest_inj C OK) in Hd. subst; assumption.
  Qed.

  Lemma cmp_cache_in st h p ev x :
    In x (cmp_cache C st h p ev) -> In x (cache st) \/ (x = (digest C p, h) /\ verify C h p = true).
  Proof.
    unfold cmp_cache. intros H. repeat dm; auto.
    apply cache_put_in in H. destruct H as [H|H]; auto.
  Qed.

  Lemma rehash_cache_in rcp st usr p c ev d h :
    Inv st -> In (d, h) (rehash_cache C rcp st usr p c ev) -> exists q, d = digest C q /\ verify C h q = true.
  Proof.
    intros I H. pose proof I as [_ _ I3 _]. unfold rehash_cache in H. repeat dm; eauto.
    apply cmp_cache_in in H. destruct H as [H|[H Hv]]; [eauto|]. inv H. eauto.
  Qed.

  Lemma rehash_go_true rcp st usr p c :
    Inv st -> rehash_go C rcp st usr p c = true ->
    exists h, u_hash usr = Some h /\ cost C h <> c /\ too_long C p = false /\ (rcp = true -> verify C h p = true).
  Proof.
    intros I H. unfold rehash_go in H. destruct (u_hash usr) as [h|]; [|discriminate H].
    apply andb_true_iff in H. destruct H as [H H3]. apply andb_true_iff in H. destruct H as [H1 H2].
    exists h. keq. repeat split; auto.
    intros ->. cbn in H2. apply (cmp_ok_sound st); assumption.
  Qed.

  Lemma Inv_with_cache st c :
    Inv st -> (forall d h, In (d, h) c -> exists q, d = digest C q /\ verify C h q = true) -> Inv (with_cache st c).
  Proof. intros [I1 I2 I3 I4] H. split; acc; auto. Qed.
  Lemma Inv_with_pending st ps : Inv st -> Inv (with_pending st ps).
  Proof. intros [I1 I2 I3 I4]. split; acc; auto. Qed.
  Lemma Inv_rehash_cache rcp st usr p c ev : Inv st -> Inv (with_cache st (rehash_cache C rcp st usr p c ev)).
  Proof. intros I. apply Inv_with_cache; [exact I|]. intros d h. apply rehash_cache_in; exact I. Qed.

  Lemma Inv_step ccd rcp st o : Inv st -> Inv (fst (step_gen C ccd rcp st o)).
  Proof.
    intros I. pose proof I as [I1 I2 I3 I4].
    assert (U1 : forall u usr, alookup u (users st) = Some usr -> u_uuid usr < next_uuid st + 1)
      by (intros u usr H; specialize (I1 _ _ H); lia).
    assert (U2 : forall sid s, alookup sid (sessions st) = Some s -> s_uuid s < next_uuid st + 1)
      by (intros sid s H; specialize (I2 _ _ H); lia).
    destruct o; unfold step_gen, consume.
    (* the two password logins: the check keeps the invariant, the callback's comparison caches only verified
       pairs, registering a pending re-hash touches nothing of it *)
    9: { destruct (pass_check C st u p ev) as [st1 w] eqn:E. cbn [fst].
         change st1 with (fst (st1, w)). rewrite <- E. apply pass_check_Inv; exact I. }
    9: { pose proof (pass_check_Inv st u p ev I) as I'.
         destruct (pass_check C st u p ev) as [st1 w] eqn:E. cbn [fst] in *.
         repeat dm; try exact I'; try apply Inv_with_pending; apply Inv_rehash_cache; exact I'. }
    all: repeat dm; cbn [fst]; try (split; assumption);
      try (apply Inv_with_pending, Inv_rehash_cache; exact I);
      split; acc; intros; look; repeat dm; inv_some; acc; eauto using new_hash_ok; try lia.
    (* SetDisabled / InvalidateSessions keep hash and ghost password *)
    all: try match goal with
         | H : alookup ?u (users _) = Some ?usr |- pw_ok _ => specialize (I4 _ _ H); unfold pw_ok in *; acc; exact I4
         end.
    (* CreateSession copies the user's uuid *)
    all: try match goal with
         | H : alookup ?u (users _) = Some ?usr |- u_uuid ?usr < _ => specialize (I1 _ _ H); lia
         end.
    (* refresh keeps the uuid *)
    all: try match goal with
         | H : get_session C _ ?sid = Some ?s |- s_uuid ?s < _ => apply get_session_some in H; destruct H as [H _]; eauto
         end.
  Qed.

  Lemma run_snoc ccd rcp (st : state) ops o :
    run_gen C ccd rcp st (ops ++ [o]) = fst (step_gen C ccd rcp (run_gen C ccd rcp st ops) o).
  Proof. unfold run_gen. rewrite fold_left_app. reflexivity. Qed.

  Lemma run_app ccd rcp (st : state) ops1 ops2 :
    run_gen C ccd rcp st (ops1 ++ ops2) = run_gen C ccd rcp (run_gen C ccd rcp st ops1) ops2.
  Proof. unfold run_gen. apply fold_left_app. Qed.

  Lemma Inv_run ccd rcp ops : forall st, Inv st -> Inv (run_gen C ccd rcp st ops).
  Proof.
    induction ops as [|o ops IH]; intros st H; [exact H|].
    cbn [run_gen fold_left]. apply IH. apply Inv_step. exact H.
  Qed.

  Lemma Inv_reach ccd rcp capacity ops : Inv (run_gen C ccd rcp (init C capacity) ops).
  Proof. apply Inv_run, Inv_init. Qed.

  (* ================= password path ================= *)
  (* the two ways of logging in with a password *)
  Definition password_login (o : op) (u q : N) : Prop :=
    (exists ev, o = AuthPassword u q ev) \/ (exists a ev c, o = LoginRehash a u q ev c).

  Lemma password_auth_sound ccd rcp st o u q w :
    Inv st -> password_login o u q -> authed (snd (step_gen C ccd rcp st o)) = Some w ->
    w = u /\ exists usr, alookup u (users st) = Some usr /\ u_disabled usr = false /\
      match u_hash usr with Some h => verify C h q = true | None => q = 0 end /\
      bkey C q = bkey C (u_pw usr).
  Proof.
    intros I [[ev ->]|[a [ev [c ->]]]] H; unfold step_gen in H;
      destruct (pass_check C st u q ev) as [st1 w'] eqn:E; cbn [snd authed] in H; subst w';
      apply (pass_check_sound st u q ev); auto; rewrite E; reflexivity.
  Qed.

  (* the fast path accepts nothing the full check rejects *)
  Lemma cache_never_widens st d h q :
    Inv st -> In (d, h) (cache st) -> digest C q = d -> verify C h q = true.
  Proof.
    intros [_ _ I3 _] Hin Hd. destruct (I3 _ _ Hin) as [p [E Hp]]. subst d.
    apply (digest_inj C OK) in E. subst; assumption.
  Qed.

  (* ... and a warm cache decides exactly as an empty one *)
  Lemma cache_transparent ccd rcp st u q ev ev' :
    Inv st ->
    authed (snd (step_gen C ccd rcp st (AuthPassword u q ev))) =
    authed (snd (step_gen C ccd rcp (with_cache st []) (AuthPassword u q ev'))).
  Proof.
    intros I. unfold step_gen.
    assert (E : snd (pass_check C st u q ev) = snd (pass_check C (with_cache st []) u q ev')).
    { unfold pass_check. acc.
      destruct (alookup u (users st)) as [usr|]; [|reflexivity].
      destruct (u_disabled usr); [reflexivity|].
      destruct (u_hash usr) as [h|]; [|reflexivity].
      cbn [kmem existsb].
      destruct (kmem C (digest C q, h) (cache st)) eqn:Ek.
      - apply kmem_in in Ek. rewrite (cache_never_widens _ _ _ _ I Ek eq_refl). reflexivity.
      - destruct (verify C h q); reflexivity. }
    destruct (pass_check C st u q ev), (pass_check C (with_cache st []) u q ev'). cbn in *. congruence.
  Qed.

  (* ================= session path ================= *)
  Definition presents (o : op) (sid : N) : Prop :=
    o = AuthCookie sid \/ o = AuthOneTime sid \/ o = GetSession sid.
  Definition authenticates (o : op) (sid : N) : Prop :=
    o = AuthCookie sid \/ o = AuthOneTime sid.

  Lemma session_user_some ccd (st : state) s w :
    session_user C ccd st s = Some w ->
    w = s_user s /\ exists usr, alookup (s_user s) (users st) = Some usr /\ s_uuid s = u_uuid usr /\
      (ccd = true -> u_disabled usr = false).
  Proof.
    unfold session_user; intros H. repeat dm; inv_some. keq.
    split; [reflexivity|]. eexists; repeat split; eauto.
    intros ->. cbn in *. assumption.
  Qed.

  (* every stored session document was written with a bucket expiry equal to its Expiration (and a non-zero TTL):
     the invariant that makes sessions expire although the code never compares Expiration with the clock *)
  Definition SInv (st : state) : Prop :=
    forall sid s, alookup sid (sessions st) = Some s ->
      s_docexp s = s_expires s /\ s_docexp s <> 0 /\ s_ttl s <> 0.

  Lemma SInv_init capacity : SInv (init C capacity).
  Proof. intros sid s H. discriminate H. Qed.

  Lemma SInv_step ccd rcp st o : SInv st -> SInv (fst (step_gen C ccd rcp st o)).
  Proof.
    intros S. destruct o; unfold step_gen, consume.
    9: { destruct (pass_check_frame st u p ev) as [_ [E2 _]].
         destruct (pass_check C st u p ev) as [st1 w]; cbn [fst] in *. unfold SInv. rewrite E2. exact S. }
    9: { destruct (pass_check_frame st u p ev) as [_ [E2 _]].
         destruct (pass_check C st u p ev) as [st1 w]; cbn [fst] in *.
         unfold SInv. repeat dm; acc; rewrite E2; exact S. }
    all: repeat dm; cbn [fst]; try exact S; unfold SInv in *; acc; intros sid0 s0 H0; look; repeat dm; inv_some; acc;
      keq; eauto; try (repeat split; lia).
    all: match goal with
         | Hg : get_session C _ ?x = Some ?s1 |- _ =>
             apply get_session_some in Hg; destruct Hg as [Hg _]; destruct (S _ _ Hg) as [? [? ?]]; repeat split; lia
         end.
  Qed.

  Lemma SInv_run ccd rcp ops : forall st, SInv st -> SInv (run_gen C ccd rcp st ops).
  Proof.
    induction ops as [|o ops IH]; intros st H; [exact H|].
    cbn [run_gen fold_left]. apply IH. apply SInv_step. exact H.
  Qed.

  Lemma SInv_reach ccd rcp capacity ops : SInv (run_gen C ccd rcp (init C capacity) ops).
  Proof. apply SInv_run, SInv_init. Qed.

  (* the store still has the document: it carries no expiry, or its expiry lies ahead *)
  Definition doc_live (st : state) (s : session) : Prop := s_docexp s = 0 \/ now st < s_docexp s.

  Lemma session_auth_sound0 ccd rcp st sid o w :
    presents o sid -> authed (snd (step_gen C ccd rcp st o)) = Some w ->
    exists s usr, alookup sid (sessions st) = Some s /\ doc_live st s /\ s_user s = w /\
      alookup w (users st) = Some usr /\ s_uuid s = u_uuid usr /\
      (ccd = true -> authenticates o sid -> u_disabled usr = false).
  Proof.
    intros [ -> | [ -> | -> ] ] H; unfold step_gen in H;
      (destruct (get_session C st sid) as [s|] eqn:Eg; [|discriminate H]);
      apply get_session_some in Eg; destruct Eg as [Eg Hlive].
    - destruct (session_user C ccd st s) as [w'|] eqn:Es; cbn in H; [|discriminate H]. inv H.
      apply session_user_some in Es. destruct Es as [-> [usr [Eu [Euu Hd]]]].
      exists s, usr. repeat split; auto.
    - destruct (session_user C ccd st s) as [w'|] eqn:Es; cbn in H; [|discriminate H]. inv H.
      apply session_user_some in Es. destruct Es as [-> [usr [Eu [Euu Hd]]]].
      exists s, usr. repeat split; auto.
    - destruct (session_user C false st s) as [w'|] eqn:Es; cbn in H; [|discriminate H]. inv H.
      apply session_user_some in Es. destruct Es as [-> [usr [Eu [Euu Hd]]]].
      exists s, usr. repeat split; auto.
      intros _ [E|E]; discriminate E.
  Qed.

  (* ... and since every stored document carries the expiry it was written with, the session is unexpired *)
  Lemma session_auth_sound ccd rcp st sid o w :
    SInv st -> presents o sid -> authed (snd (step_gen C ccd rcp st o)) = Some w ->
    exists s usr, alookup sid (sessions st) = Some s /\ now st < s_expires s /\ s_user s = w /\
      alookup w (users st) = Some usr /\ s_uuid s = u_uuid usr /\
      (ccd = true -> authenticates o sid -> u_disabled usr = false).
  Proof.
    intros S P H. destruct (session_auth_sound0 _ _ _ _ _ _ P H) as [s [usr [Es [Hl [Hu [Eu [Euu Hd]]]]]]].
    exists s, usr. repeat split; auto.
    destruct (S _ _ Es) as [E1 [E2 _]]. destruct Hl as [Hl|Hl]; [contradiction | lia].
  Qed.

  (* ---- dead sessions stay dead ---- *)
  (* a session id is dead when its document is expired or bound to a credential epoch that the
     user (if one of that name exists at all) has left behind; an absent document is dead *)
  Definition dead (st : state) (sid : N) : Prop :=
    forall s, alookup sid (sessions st) = Some s ->
      (s_docexp s <> 0 /\ s_docexp s <= now st) \/
      (forall usr, alookup (s_user s) (users st) = Some usr -> s_uuid s < u_uuid usr).

  Definition not_create (sid : N) (o : op) : Prop :=
    match o with CreateSession _ sid' _ _ => sid' <> sid | _ => True end.
  Definition no_recreate (sid : N) (ops : list op) : Prop := Forall (not_create sid) ops.

  Lemma dead_ext (st st' : state) sid :
    users st' = users st -> sessions st' = sessions st -> now st' = now st -> dead st sid -> dead st' sid.
  Proof. unfold dead. intros -> -> ->. auto. Qed.

  Lemma dead_no_auth ccd rcp st sid o :
    dead st sid -> presents o sid -> authed (snd (step_gen C ccd rcp st o)) = None.
  Proof.
    intros D P. destruct (authed (snd (step_gen C ccd rcp st o))) as [w|] eqn:E; [|reflexivity].
    destruct (session_auth_sound0 _ _ _ _ _ _ P E) as [s [usr [Es [Hl [Hu [Eu [Euu _]]]]]]].
    destruct (D _ Es) as [D1|D2]; [destruct Hl; lia|]. subst w. specialize (D2 _ Eu). lia.
  Qed.

  Lemma dead_step ccd rcp st sid o :
    Inv st -> dead st sid -> not_create sid o -> dead (fst (step_gen C ccd rcp st o)) sid.
  Proof.
    intros [I1 I2 _ _] D NC.
    destruct o; unfold step_gen, consume.
    9: { destruct (pass_check_frame st u p ev) as [E1 [E2 [E3 _]]].
         destruct (pass_check C st u p ev) as [st1 w]; cbn [fst] in *. exact (dead_ext _ _ _ E1 E2 E3 D). }
    9: { destruct (pass_check_frame st u p ev) as [E1 [E2 [E3 _]]].
         destruct (pass_check C st u p ev) as [st1 w]; cbn [fst] in *.
         repeat dm; apply (dead_ext st); acc; auto. }
    all: repeat dm; cbn [fst]; try exact D; try (apply (dead_ext st); acc; auto; fail);
      unfold dead in *; acc; intros s0 Hs0; look.
    (* user operations: the sessions are untouched, a rewritten user gets the next uuid or keeps its own *)
    all: try (destruct (D _ Hs0) as [D1|D2]; [left; exact D1|right];
              intros usr0 Hu0; look; repeat dm; inv_some; acc; keq; subst;
              try (specialize (I2 _ _ Hs0); lia);
              try (match goal with Hx : alookup (s_user _) (users _) = Some ?x |- _ => specialize (D2 _ Hx) end; acc; lia);
              auto; fail).
    (* CreateSession of another id / DeleteSession *)
    all: try (cbn [not_create] in NC; repeat dm; inv_some; keq; subst; try congruence; auto; fail).
    (* Advance *)
    all: try (destruct (D _ Hs0) as [D1|D2]; [left; lia | right; exact D2]; fail).
    (* presentations: a refresh needs a live, hence stale, session and keeps user and uuid *)
    all: repeat dm; inv_some; keq; subst; auto;
      try match goal with
          | Hg : get_session C _ ?x = Some ?s1 |- _ =>
              apply get_session_some in Hg; destruct Hg as [Hg Hlive];
              destruct (D _ Hg) as [D1|D2]; [lia | right; acc; exact D2]
          end.
  Qed.

  Lemma dead_forever ccd rcp sid ops : forall st,
    Inv st -> dead st sid -> no_recreate sid ops ->
    dead (run_gen C ccd rcp st ops) sid.
  Proof.
    induction ops as [|o ops IH]; intros st I D NR; [exact D|].
    inv NR. cbn [run_gen fold_left]. apply IH; auto using Inv_step, dead_step.
  Qed.

  (* ---- what kills a session ---- *)
  (* a successful password change, or "delete all sessions of the user" *)
  Lemma epoch_change_kills ccd rcp st sid s o :
    Inv st -> alookup sid (sessions st) = Some s ->
    (exists p salt c, o = SetPassword (s_user s) p salt c) \/ o = InvalidateSessions (s_user s) ->
    snd (step_gen C ccd rcp st o) = ODone ->
    dead (fst (step_gen C ccd rcp st o)) sid.
  Proof.
    intros [I1 I2 _ _] Es Ho Hd.
    destruct Ho as [ [p [salt [c -> ] ] ] | -> ]; unfold step_gen in *; repeat dm; cbn [snd] in Hd; try discriminate Hd;
      cbn [fst]; unfold dead; acc; intros s0 Hs0; rewrite Es in Hs0; inv Hs0; right;
      intros usr0 Hu0; look; rewrite N.eqb_refl in Hu0; inv Hu0; acc; specialize (I2 _ _ Es); lia.
  Qed.

  Lemma delete_user_kills ccd rcp st sid s :
    alookup sid (sessions st) = Some s ->
    snd (step_gen C ccd rcp st (DeleteUser (s_user s))) = ODone ->
    dead (fst (step_gen C ccd rcp st (DeleteUser (s_user s)))) sid.
  Proof.
    intros Es Hd. unfold step_gen in *. repeat dm; cbn [snd] in Hd; try discriminate Hd.
    cbn [fst]; unfold dead; acc; intros s0 Hs0; rewrite Es in Hs0; inv Hs0; right.
    intros usr0 Hu0; look. rewrite N.eqb_refl in Hu0. discriminate Hu0.
  Qed.

  Lemma delete_session_kills ccd rcp st sid :
    dead (fst (step_gen C ccd rcp st (DeleteSession sid))) sid.
  Proof.
    unfold step_gen. destruct (get_session C st sid) as [s|] eqn:Eg; cbn [fst]; unfold dead; acc; intros s0 Hs0.
    - look. rewrite N.eqb_refl in Hs0. discriminate Hs0.
    - left. unfold get_session in Eg. rewrite Hs0 in Eg. dm; [discriminate Eg|].
      match goal with H : _ || _ = false |- _ => apply orb_false_iff in H; destruct H end. keq. split; assumption.
  Qed.

  Lemma expiry_kills ccd rcp st sid s dt :
    SInv st -> alookup sid (sessions st) = Some s -> s_expires s <= now st + dt ->
    dead (fst (step_gen C ccd rcp st (Advance dt))) sid.
  Proof.
    intros S Es Hle. destruct (S _ _ Es) as [E1 [E2 _]].
    unfold step_gen; cbn [fst]; unfold dead; acc. intros s0 Hs0. rewrite Es in Hs0; inv Hs0. left; split; [assumption | lia].
  Qed.

  (* the other direction of the same fact: a document written without a bucket expiry is never removed *)
  Lemma stored_session_expires st sid s t :
    SInv st -> alookup sid (sessions st) = Some s -> s_expires s <= t -> get_session C (with_now st t) sid = None.
  Proof.
    intros S Es Hle. destruct (S _ _ Es) as [E1 [E2 _]]. unfold get_session. acc. rewrite Es.
    apply N.eqb_neq in E2. rewrite E2. cbn [orb]. destruct (t <? s_docexp s) eqn:E; [|reflexivity]. keq. lia.
  Qed.

  (* a one-time session that authenticated is gone *)
  Lemma one_time_consumed ccd rcp st sid s o w :
    alookup sid (sessions st) = Some s -> s_onetime s = true ->
    authenticates o sid -> authed (snd (step_gen C ccd rcp st o)) = Some w ->
    alookup sid (sessions (fst (step_gen C ccd rcp st o))) = None.
  Proof.
    intros Es Hot [ -> | -> ] H; unfold step_gen in *;
      (destruct (get_session C st sid) as [s1|] eqn:Eg; [|discriminate H]);
      apply get_session_some in Eg; destruct Eg as [Eg _]; rewrite Es in Eg; inv Eg;
      (destruct (session_user C ccd st s1) as [w'|] eqn:Eu; [|discriminate H]);
      unfold consume, wants_refresh; rewrite Hot; cbn [fst negb andb]; acc; rewrite ?andb_false_r; acc; look;
      rewrite N.eqb_refl; reflexivity.
  Qed.

  Lemma absent_dead (st : state) sid : alookup sid (sessions st) = None -> dead st sid.
  Proof. intros H s Hs. congruence. Qed.

  (* one-time sessions are never re-written by a presentation (no refresh): the fact the concurrent
     argument of OneTime.v rests on *)
  Lemma one_time_never_refreshed st s : s_onetime s = true -> wants_refresh C st s = false.
  Proof. intros H. unfold wants_refresh. rewrite H. apply andb_false_r. Qed.

  (* ---- provenance: a stored session was issued by CreateSession for that user ---- *)
  Lemma session_provenance ccd rcp capacity ops sid s :
    alookup sid (sessions (run_gen C ccd rcp (init C capacity) ops)) = Some s ->
    In (CreateSession (s_user s) sid (s_ttl s) (s_onetime s)) ops.
  Proof.
    revert s. induction ops as [|o ops IH] using rev_ind; intros s H; [discriminate H|].
    rewrite run_snoc in H. apply in_or_app.
    set (st := run_gen C ccd rcp (init C capacity) ops) in *.
    destruct o; unfold step_gen, consume in H.
    9: { destruct (pass_check_frame st u p ev) as [_ [E2 _]].
         destruct (pass_check C st u p ev) as [st1 w]; cbn [fst] in *. rewrite E2 in H. left; apply IH; exact H. }
    9: { destruct (pass_check_frame st u p ev) as [_ [E2 _]].
         destruct (pass_check C st u p ev) as [st1 w]; cbn [fst] in *.
         left; apply IH. repeat dm; acc; rewrite E2 in H; exact H. }
    all: repeat dm; cbn [fst] in H; acc; look; repeat dm; inv_some; keq; subst;
      try (left; apply IH; assumption); acc;
      try (right; left; reflexivity);
      try match goal with
          | Hg : get_session C _ ?x = Some ?s1 |- _ =>
              apply get_session_some in Hg; destruct Hg as [Hg _]; left; apply (IH _ Hg)
          end.
  Qed.

  (* ================= re-hashing at login (auth.go rehashPassword) ================= *)
  (* which strings the stored credential of u accepts *)
  Definition creds (st : state) (u x : N) : bool :=
    match alookup u (users st) with
    | None => false
    | Some usr => match u_hash usr with Some h => verify C h x | None => x =? 0 end
    end.

  (* every node hashes with cost c (passwords set, and the cost a re-hashing login wants) *)
  Definition uniform (c : N) (o : op) : Prop :=
    match o with
    | CreateUser _ _ _ c' | SetPassword _ _ _ c' | LoginRehash _ _ _ _ c' => c' = c
    | _ => True
    end.
  Definition no_login_rehash (o : op) : Prop :=
    match o with LoginRehash _ _ _ _ _ => False | _ => True end.

  (* ---- the invariant of the in-flight re-hashes, both variants of the callback ----
     document versions (CAS values) are fresh, so a pending re-hash whose CAS still matches the stored document
     is looking at the very copy the callback was applied to: that copy has a hash of another cost and -- when
     the callback compares the password (rcp = true, the repaired code) -- the hash verifies the password presented *)
  Record Fresh (rcp : bool) (st : state) : Prop := {
    fr_uver : forall u usr, alookup u (users st) = Some usr -> u_ver usr < next_uuid st;
    fr_pver : forall a pd, alookup a (pending st) = Some pd -> p_ver pd < next_uuid st;
    fr_pend : forall a pd usr, alookup a (pending st) = Some pd ->
        alookup (p_user pd) (users st) = Some usr -> u_ver usr = p_ver pd ->
        exists h, u_hash usr = Some h /\ cost C h <> p_cost pd /\ (rcp = true -> verify C h (p_pw pd) = true)
  }.

  Lemma Fresh_init rcp capacity : Fresh rcp (init C capacity).
  Proof. split; cbn; intros; discriminate. Qed.

  Lemma Fresh_step ccd rcp st o : Inv st -> Fresh rcp st -> Fresh rcp (fst (step_gen C ccd rcp st o)).
  Proof.
    intros I [F1 F2 F3].
    assert (F1' : forall u usr, alookup u (users st) = Some usr -> u_ver usr < next_uuid st + 1)
      by (intros u usr H; specialize (F1 _ _ H); lia).
    assert (F2' : forall a pd, alookup a (pending st) = Some pd -> p_ver pd < next_uuid st + 1)
      by (intros a pd H; specialize (F2 _ _ H); lia).
    destruct o; unfold step_gen, consume.
    9: { destruct (pass_check_frame st u p ev) as [E1 [_ [_ [E4 [E5 _]]]]].
         destruct (pass_check C st u p ev) as [st1 w]; cbn [fst] in *. split; rewrite ?E1, ?E4, ?E5; eauto. }
    9: { pose proof (pass_check_Inv st u p ev I) as I'.
         destruct (pass_check_frame st u p ev) as [E1 [_ [_ [E4 [E5 _]]]]].
         destruct (pass_check C st u p ev) as [st1 w]; cbn [fst snd] in *.
         assert (B : Fresh rcp st1) by (split; rewrite ?E1, ?E4, ?E5; eauto).
         destruct w as [w|]; [|exact B].
         destruct (alookup u (users st)) as [usr|] eqn:Eu; [|exact B].
         destruct (rehash_go C rcp st1 usr p c) eqn:Eg.
         - apply (rehash_go_true rcp st1 usr p c I') in Eg. destruct Eg as [h [Eh [Hc [_ Hv]]]].
           split; acc; rewrite ?E1, ?E4, ?E5; intros; look; repeat dm; inv_some; acc; keq; subst; eauto.
           rewrite Eu in *; inv_some; eauto.
         - split; acc; rewrite ?E1, ?E4, ?E5; eauto. }
    9: { destruct (alookup a (pending st)) as [pd|] eqn:Ea; cbn [fst]; [|split; assumption].
         destruct (alookup (p_user pd) (users st)) as [usr|] eqn:Eu; cbn [fst].
         2: { split; acc; intros; look; repeat dm; inv_some; eauto. }
         destruct (u_ver usr =? p_ver pd) eqn:Ev; cbn [fst].
         - split; acc; intros; look; repeat dm; inv_some; acc; keq; subst; eauto; try lia.
           all: match goal with
                | Hp : alookup _ (pending _) = Some ?pd0, Hv : next_uuid _ = p_ver ?pd0 |- _ => specialize (F2 _ _ Hp); lia
                end.
         - destruct (rehash_go C rcp st usr (p_pw pd) (p_cost pd)) eqn:Eg; cbn [fst].
           + apply (rehash_go_true rcp st usr _ _ I) in Eg. destruct Eg as [h [Eh [Hc [_ Hv]]]].
             split; acc; intros; look; repeat dm; inv_some; acc; keq; subst; eauto.
             rewrite Eu in *; inv_some; eauto.
           + split; acc; intros; look; repeat dm; inv_some; eauto. }
    all: repeat dm; cbn [fst]; try (split; assumption);
      split; acc; intros; look; repeat dm; inv_some; acc; keq; subst; eauto; try lia.
    all: match goal with
         | Hp : alookup _ (pending _) = Some ?pd0, Hv : next_uuid _ = p_ver ?pd0 |- _ => specialize (F2 _ _ Hp); lia
         end.
  Qed.

  Lemma Fresh_run ccd rcp ops : forall st, Inv st -> Fresh rcp st -> Fresh rcp (run_gen C ccd rcp st ops).
  Proof.
    induction ops as [|o ops IH]; intros st I F; [exact F|].
    cbn [run_gen fold_left]. apply IH; auto using Inv_step, Fresh_step.
  Qed.

  (* ---- the invariant the UNREPAIRED callback needs (rcp = false: it re-checks the cost only): one configured
     cost c at a time.  Whatever has happened to the user document since the login read it, if its hash still
     has another cost than c then it still verifies the password presented ---- *)
  Record Good (c : N) (st : state) : Prop := {
    good_cost : forall a pd, alookup a (pending st) = Some pd -> p_cost pd = c;
    good_pw : forall a pd usr h, alookup a (pending st) = Some pd ->
        alookup (p_user pd) (users st) = Some usr -> u_hash usr = Some h -> cost C h <> c ->
        verify C h (p_pw pd) = true
  }.

  Lemma new_hash_cost p salt c h : new_hash C p salt c = Some h -> cost C h = c.
  Proof. unfold new_hash. dm; intros E; inv E. apply (cost_gen C OK). Qed.

  Lemma Good_step ccd rcp c st o : Inv st -> Good c st -> uniform c o -> Good c (fst (step_gen C ccd rcp st o)).
  Proof.
    intros I [G1 G2] U.
    destruct o; unfold step_gen, consume; cbn [uniform] in U.
    9: { destruct (pass_check_frame st u p ev) as [E1 [_ [_ [_ [E5 _]]]]].
         destruct (pass_check C st u p ev) as [st1 w]; cbn [fst] in *. split; rewrite ?E1, ?E5; eauto. }
    9: { pose proof (pass_check_sound st u p ev) as S.
         destruct (pass_check_frame st u p ev) as [E1 [_ [_ [_ [E5 _]]]]].
         destruct (pass_check C st u p ev) as [st1 w]; cbn [fst snd] in *.
         destruct w as [w|]; [|split; rewrite ?E1, ?E5; eauto].
         destruct (S w I eq_refl) as [_ [usr [Eu [_ [Hv _]]]]]. rewrite Eu.
         destruct (rehash_go C rcp st1 usr p c0) eqn:Ew; [|split; acc; rewrite ?E1, ?E5; eauto].
         subst c0. split; acc; rewrite ?E1, ?E5; intros a0 pd; look; destruct (a0 =? a) eqn:Ea; keq.
         - intros E; inv E; reflexivity.
         - eauto.
         - intros usr' h E; inv E; acc. intros Eu' Eh Hc. rewrite Eu in Eu'; inv Eu'. rewrite Eh in Hv. exact Hv.
         - eauto. }
    all: repeat dm; cbn [fst]; try (split; assumption); split; acc; intros; look; repeat dm; inv_some; acc; keq; subst;
      eauto;
      try match goal with
          | Hh : new_hash C _ _ _ = Some ?h, Hc : cost C ?h <> _, Hp : alookup _ (pending _) = Some ?p |- _ =>
              apply new_hash_cost in Hh; pose proof (G1 _ _ Hp); congruence
          end.
  Qed.

  Lemma pending_nil_step ccd rcp st o :
    pending st = [] -> no_login_rehash o -> pending (fst (step_gen C ccd rcp st o)) = [].
  Proof.
    intros E NL. destruct o; unfold step_gen, consume; cbn [no_login_rehash] in NL; try contradiction.
    9: { destruct (pass_check_frame st u p ev) as [_ [_ [_ [_ [E5 _]]]]].
         destruct (pass_check C st u p ev) as [st1 w]; cbn [fst] in *. congruence. }
    all: repeat dm; cbn [fst]; acc; try assumption; rewrite E in *; try discriminate; reflexivity.
  Qed.

  Lemma Good_nil c st : pending st = [] -> Good c st.
  Proof. intros E. split; rewrite E; cbn; intros; discriminate. Qed.

  Lemma pending_nil_run ccd rcp ops : forall st,
    pending st = [] -> Forall no_login_rehash ops -> pending (run_gen C ccd rcp st ops) = [].
  Proof.
    induction ops as [|o ops IH]; intros st E F; [exact E|]. inv F.
    cbn [run_gen fold_left]. apply IH; auto using pending_nil_step.
  Qed.

  (* ---- both variants together: [Safe rcp c]; the single-cost condition is asked of the unrepaired variant only ---- *)
  Definition Safe (rcp : bool) (c : N) (st : state) : Prop := Fresh rcp st /\ (rcp = true \/ Good c st).
  Definition single_cost (rcp : bool) (c : N) (o : op) : Prop := rcp = false -> uniform c o.

  Lemma Safe_step ccd rcp c st o :
    Inv st -> Safe rcp c st -> single_cost rcp c o -> Safe rcp c (fst (step_gen C ccd rcp st o)).
  Proof.
    intros I [F G] U. split; [apply Fresh_step; assumption|].
    destruct G as [G|G]; [left; exact G|]. destruct rcp; [left; reflexivity|].
    right. apply Good_step; auto.
  Qed.

  Lemma Safe_run ccd rcp c ops : forall st,
    Inv st -> Safe rcp c st -> Forall (single_cost rcp c) ops -> Safe rcp c (run_gen C ccd rcp st ops).
  Proof.
    induction ops as [|o ops IH]; intros st I G F; [exact G|]. inv F.
    cbn [run_gen fold_left]. apply IH; auto using Inv_step, Safe_step.
  Qed.

  Lemma single_cost_true c ops : Forall (single_cost true c) ops.
  Proof. apply Forall_forall. intros o _ E. discriminate E. Qed.

  (* the repaired code: every history *)
  Lemma Safe_reach_repaired ccd capacity c ops : Safe true c (run_gen C ccd true (init C capacity) ops).
  Proof.
    apply Safe_run; [apply Inv_init | split; [apply Fresh_init | left; reflexivity] | apply single_cost_true].
  Qed.

  (* the unrepaired code: anything without re-hashing logins (before the cost change), then anything at cost c *)
  Lemma Safe_reach_single_cost ccd rcp capacity c ops0 ops1 :
    Forall no_login_rehash ops0 -> Forall (uniform c) ops1 ->
    Safe rcp c (run_gen C ccd rcp (run_gen C ccd rcp (init C capacity) ops0) ops1).
  Proof.
    intros F0 F1. apply Safe_run.
    - apply Inv_reach.
    - split; [apply Fresh_run; [apply Inv_init | apply Fresh_init] | right; apply Good_nil, pending_nil_run; auto].
    - eapply Forall_impl; [|exact F1]. intros o U _. exact U.
  Qed.

  (* what a successful CAS Save of a re-hash overwrites: a hash that verifies the password presented *)
  Lemma write_verifies rcp c st a pd usr :
    Safe rcp c st -> alookup a (pending st) = Some pd -> alookup (p_user pd) (users st) = Some usr ->
    u_ver usr = p_ver pd -> exists h, u_hash usr = Some h /\ verify C h (p_pw pd) = true.
  Proof.
    intros [[_ _ F3] G] Ea Eu Ev. destruct (F3 _ _ _ Ea Eu Ev) as [h [Eh [Hc Hv]]].
    exists h. split; [exact Eh|]. destruct G as [->|[G1 G2]]; [auto|].
    apply (G2 a pd usr h); auto. rewrite <- (G1 _ _ Ea). exact Hc.
  Qed.

  Lemma verify_same_key h c s p x :
    (exists c0 s0 p0, h = gen C c0 s0 p0) -> verify C h p = true ->
    verify C (gen C c s p) x = verify C h x.
  Proof.
    intros [c0 [s0 [p0 ->]]] Hv. apply (verify_key C OK) in Hv.
    apply eq_true_iff_eq. rewrite !(verify_key C OK). rewrite Hv. tauto.
  Qed.

  (* the effect of RehashSave on users: nothing, or the successful write *)
  Lemma rehash_save_users ccd rcp st a salt ev :
    let st' := fst (step_gen C ccd rcp st (RehashSave a salt ev)) in
    users st' = users st \/
    exists pd usr, alookup a (pending st) = Some pd /\ alookup (p_user pd) (users st) = Some usr /\
      u_ver usr = p_ver pd /\
      users st' = aset (p_user pd) (mkUser (new_hash C (p_pw pd) salt (p_cost pd)) (u_disabled usr) (next_uuid st) (next_uuid st) (p_pw pd)) (users st).
  Proof.
    unfold step_gen.
    destruct (alookup a (pending st)) as [pd|] eqn:Ea; cbn [fst]; [|auto].
    destruct (alookup (p_user pd) (users st)) as [usr|] eqn:Eu; cbn [fst]; acc; [|auto].
    destruct (u_ver usr =? p_ver pd) eqn:Ev; cbn [fst]; acc.
    - right. exists pd, usr. keq. auto.
    - destruct (rehash_go C rcp st usr (p_pw pd) (p_cost pd)); cbn [fst]; acc; auto.
  Qed.

  (* a Save attempt of a re-hash never makes the stored credential accept a string it refused before,
     never touches the disabled flag, never creates or deletes a user ... *)
  Lemma rehash_never_widens ccd rcp c st a salt ev :
    Inv st -> Safe rcp c st ->
    let st' := fst (step_gen C ccd rcp st (RehashSave a salt ev)) in
    forall u, (forall x, creds st' u x = true -> creds st u x = true) /\
              option_map u_disabled (alookup u (users st')) = option_map u_disabled (alookup u (users st)).
  Proof.
    intros [_ _ _ I4] S st' u. subst st'.
    destruct (rehash_save_users ccd rcp st a salt ev) as [E|[pd [usr [Ea [Eu [Ev E]]]]]]; unfold creds; rewrite E; [auto|].
    look. destruct (u =? p_user pd) eqn:Eq; keq; [subst u|auto].
    rewrite Eu. acc. split; [|reflexivity].
    destruct (write_verifies rcp c st a pd usr S Ea Eu Ev) as [h [Eh Hv]]. rewrite Eh.
    intros x. unfold new_hash. destruct (p_pw pd =? 0) eqn:E0; keq.
    - intros Hx; keq. subst x. rewrite <- E0. exact Hv.
    - destruct (I4 _ _ Eu) as [[I4' _]|[c0 [s0 [I4' _]]]]; [congruence|]. rewrite Eh in I4'. inv I4'.
      rewrite (verify_same_key (gen C c0 s0 (u_pw usr)) (p_cost pd) salt (p_pw pd) x) by eauto. auto.
  Qed.

  (* ... and, when the password presented was not the empty string, leaves the accepted strings exactly as
     they were.  (With the empty string -- possible only for a password bcrypt cannot tell from "", e.g. a
     single NUL byte -- SetPassword("") stores no hash, and only "" is accepted afterwards.) *)
  Lemma rehash_preserves ccd rcp c st a salt ev :
    Inv st -> Safe rcp c st ->
    (forall pd, alookup a (pending st) = Some pd -> p_pw pd <> 0) ->
    forall u x, creds (fst (step_gen C ccd rcp st (RehashSave a salt ev))) u x = creds st u x.
  Proof.
    intros [_ _ _ I4] S NE u x.
    destruct (rehash_save_users ccd rcp st a salt ev) as [E|[pd [usr [Ea [Eu [Ev E]]]]]]; unfold creds; rewrite E; [auto|].
    look. destruct (u =? p_user pd) eqn:Eq; keq; [subst u|auto].
    rewrite Eu. acc.
    destruct (write_verifies rcp c st a pd usr S Ea Eu Ev) as [h [Eh Hv]]. rewrite Eh.
    unfold new_hash. specialize (NE _ Ea). apply N.eqb_neq in NE. rewrite NE.
    destruct (I4 _ _ Eu) as [[I4' _]|[c0 [s0 [I4' _]]]]; [congruence|]. rewrite Eh in I4'. inv I4'.
    apply verify_same_key; eauto.
  Qed.

  (* ---- the ghost "current password" follows the history ---- *)
  Lemma password_set_recorded ccd rcp st u p salt c o :
    o = CreateUser u p salt c \/ o = SetPassword u p salt c ->
    snd (step_gen C ccd rcp st o) = ODone ->
    exists usr, alookup u (users (fst (step_gen C ccd rcp st o))) = Some usr /\ u_pw usr = p.
  Proof.
    intros [ -> | -> ] H; unfold step_gen in *; repeat dm; cbn [snd] in H; try discriminate H;
      cbn [fst]; acc; look; rewrite N.eqb_refl; eexists; split; reflexivity.
  Qed.

  Definition sets_password (u : N) (o : op) : Prop :=
    match o with CreateUser u' _ _ _ | SetPassword u' _ _ _ => u' = u | _ => False end.

  (* nobody but CreateUser / SetPassword of u moves u's credential out of its bcrypt class: a re-hash
     writes a password of the same class *)
  Lemma password_frame ccd rcp c st u o usr' :
    Inv st -> Safe rcp c st -> ~ sets_password u o ->
    alookup u (users (fst (step_gen C ccd rcp st o))) = Some usr' ->
    exists usr, alookup u (users st) = Some usr /\ bkey C (u_pw usr) = bkey C (u_pw usr').
  Proof.
    intros [_ _ _ I4] S NS H.
    destruct o.
    11: { (* RehashSave *)
      destruct (rehash_save_users ccd rcp st a salt ev) as [E|[pd [usr [Ea [Eu [Ev E]]]]]]; rewrite E in H; [eauto|].
      look. destruct (u =? p_user pd) eqn:Eq; keq; [subst u|eauto]. inv H. acc.
      exists usr. split; [exact Eu|].
      destruct (write_verifies rcp c st a pd usr S Ea Eu Ev) as [h [Eh Hv]].
      destruct (I4 _ _ Eu) as [[I4' _]|[c0 [s0 [I4' _]]]]; [congruence|]. rewrite Eh in I4'. inv I4'.
      apply (verify_key C OK) in Hv. exact Hv. }
    all: unfold step_gen, consume in H.
    9: { destruct (pass_check_frame st u0 p ev) as [E1 _].
         destruct (pass_check C st u0 p ev) as [st1 w]; cbn [fst] in *. rewrite E1 in H. eauto. }
    9: { destruct (pass_check_frame st u0 p ev) as [E1 _].
         destruct (pass_check C st u0 p ev) as [st1 w]; cbn [fst] in *.
         repeat dm; acc; rewrite E1 in H; eauto. }
    all: repeat dm; cbn [fst] in H; acc; look; repeat dm; inv_some; keq; subst;
      cbn [sets_password] in NS; try (exfalso; apply NS; reflexivity); eauto.
  Qed.

  (* after a successful password set to p, and as long as nobody sets u's password again, every string of
     another bcrypt class is refused -- re-hashing logins and their Save attempts may be interleaved freely *)
  Lemma wrong_password_rejected ccd rcp c ops : forall st u p,
    Inv st -> Safe rcp c st ->
    (forall usr, alookup u (users st) = Some usr -> bkey C (u_pw usr) = bkey C p) ->
    Forall (fun o => single_cost rcp c o /\ ~ sets_password u o) ops ->
    forall o q, password_login o u q -> bkey C q <> bkey C p ->
      authed (snd (step_gen C ccd rcp (run_gen C ccd rcp st ops) o)) = None.
  Proof.
    induction ops as [|o' ops IH]; intros st u p I G Hp NS o q PL Hq.
    - cbn [run_gen fold_left].
      destruct (authed (snd (step_gen C ccd rcp st o))) as [w|] eqn:E; [|reflexivity].
      destruct (password_auth_sound ccd rcp st o u q w I PL E) as [_ [usr [Eu [_ [_ Hpw]]]]].
      specialize (Hp _ Eu). congruence.
    - inv NS. destruct H1 as [U NSo]. cbn [run_gen fold_left]. apply (IH _ u p) with (q := q); auto using Inv_step, Safe_step.
      intros usr' Hu'. destruct (password_frame _ _ _ _ _ _ _ I G NSo Hu') as [usr [Eu Epw]].
      rewrite <- Epw. auto.
  Qed.

  Lemma killed_forever ccd rcp st sid :
    Inv st -> dead st sid ->
    forall ops o, no_recreate sid ops -> presents o sid ->
      authed (snd (step_gen C ccd rcp (run_gen C ccd rcp st ops) o)) = None.
  Proof.
    intros I D ops o NR P. apply (dead_no_auth ccd rcp _ sid); [|exact P]. apply dead_forever; assumption.
  Qed.

  Lemma set_then_wrong_password_rejected ccd rcp c st u p salt c' o :
    Inv st -> Safe rcp c st -> o = CreateUser u p salt c' \/ o = SetPassword u p salt c' ->
    single_cost rcp c o ->
    snd (step_gen C ccd rcp st o) = ODone ->
    forall ops, Forall (fun o' => single_cost rcp c o' /\ ~ sets_password u o') ops ->
    plain C p = true ->
    forall o' q, password_login o' u q -> q <> p -> plain C q = true ->
      authed (snd (step_gen C ccd rcp (run_gen C ccd rcp (fst (step_gen C ccd rcp st o)) ops) o')) = None.
  Proof.
    intros I G Ho U Hd ops NS Pp o' q PL Hq Hl.
    destruct (password_set_recorded ccd rcp st u p salt c' o Ho Hd) as [usr [Eu Epw]].
    apply (wrong_password_rejected ccd rcp c ops _ u p) with (q := q); auto using Inv_step, Safe_step.
    - intros usr' Eu'. congruence.
    - intros E. apply Hq. apply (bkey_plain C OK); auto.
  Qed.

End Proofs.

(* the hypotheses are satisfiable: the instance used by the correspondence meets them *)
Lemma XC_ok : crypto_ok XC.
Proof.
  split; cbn.
  - intros [[a b] c] [[d e] f]; cbn. rewrite !andb_true_iff, !N.eqb_eq.
    split; [intros [[-> ->] ->]; reflexivity | intros E; inv E; auto].
  - auto.
  - intros c s p q. apply N.eqb_eq.
  - intros p q Hp Hq. unfold canon.
    apply andb_true_iff in Hp; destruct Hp as [Hp Hp7]. apply andb_true_iff in Hp; destruct Hp as [Hp _].
    apply andb_true_iff in Hq; destruct Hq as [Hq Hq7]. apply andb_true_iff in Hq; destruct Hq as [Hq _].
    apply N.ltb_lt in Hp, Hq. apply negb_true_iff in Hp7, Hq7.
    rewrite !N.mod_small by assumption. rewrite Hp7, Hq7. tauto.
  - reflexivity.
Qed.
