(* C12 -- invariants of the authentication model and the lemmas behind C12_Properties.v.
   bcrypt / SHA-1 are a Section variable [C : crypto] with the in-section hypothesis [OK : crypto_ok C]. *)
From SG Require Import Base.Prelude C12.AuthN C12.Instance.
Open Scope N_scope.

(* what the proofs assume about the external functions *)
Record crypto_ok (C : crypto) : Prop := {
  (* equality test on stored hashes (byte comparison) *)
  hash_eqb_spec : forall a b, hash_eqb C a b = true <-> a = b;
  (* SHA-1 does not collide on the passwords considered *)
  digest_inj : forall p q, digest C p = digest C q -> p = q;
  (* bcrypt: a hash generated from p verifies exactly p -- among [plain] passwords (at most 72 bytes, no
     NUL byte).  Outside that domain bcrypt itself identifies strings: it keys on the first 72 bytes of
     the cyclic repetition of password ++ NUL. *)
  verify_gen : forall s p q, plain C p = true -> plain C q = true ->
                             (verify C (gen C s p) q = true <-> p = q)
}.

(* ---- association lists ---- *)
Section AssocLemmas.
  Context {A : Type}.
  Lemma alookup_adel (k k' : N) (l : list (N * A)) :
    alookup k' (adel k l) = if k' =? k then None else alookup k' l.
  Proof.
    induction l as [|[a v] l IH]; cbn [adel alookup].
    - destruct (k' =? k); reflexivity.
    - destruct (a =? k) eqn:E1.
      + rewrite IH. destruct (k' =? k) eqn:E2; [reflexivity|].
        destruct (a =? k') eqn:E3; [|reflexivity]. exfalso; lia.
      + cbn [alookup]. rewrite IH. destruct (a =? k') eqn:E3; [|reflexivity].
        destruct (k' =? k) eqn:E2; [exfalso; lia | reflexivity].
  Qed.
  Lemma alookup_aset (k k' : N) (v : A) (l : list (N * A)) :
    alookup k' (aset k v l) = if k' =? k then Some v else alookup k' l.
  Proof.
    unfold aset. cbn [alookup]. rewrite alookup_adel, (N.eqb_sym k k'). destruct (k' =? k); reflexivity.
  Qed.
End AssocLemmas.

Ltac dm :=
  match goal with
  | |- context[match ?x with _ => _ end] => destruct x eqn:?
  | H : context[match ?x with _ => _ end] |- _ => destruct x eqn:?
  end.

Ltac keq :=
  repeat match goal with
  | H : (_ =? _) = true |- _ => apply N.eqb_eq in H
  | H : (_ =? _) = false |- _ => apply N.eqb_neq in H
  | H : (_ <? _) = true |- _ => apply N.ltb_lt in H
  | H : (_ <? _) = false |- _ => apply N.ltb_ge in H
  | H : negb _ = true |- _ => apply negb_true_iff in H
  | H : negb _ = false |- _ => apply negb_false_iff in H
  | H : _ && _ = true |- _ => apply andb_true_iff in H; destruct H
  end.

Ltac acc := cbn [users sessions cache cap now next_uuid with_users with_users_fresh with_sessions with_cache with_now
                 u_hash u_disabled u_uuid u_pw s_user s_uuid s_expires s_ttl s_onetime refreshed fst snd] in *.

Section Proofs.
  Variable C : crypto.
  Hypothesis OK : crypto_ok C.

  Notation state := (state C).
  Notation user := (user C).

  (* ---- the cache ---- *)
  Lemma key_eqb_eq (a b : key C) : key_eqb C a b = true -> a = b.
  Proof.
    destruct a as [d h], b as [d' h']; unfold key_eqb; cbn [fst snd]; intros H.
    apply andb_true_iff in H; destruct H as [H1 H2].
    apply N.eqb_eq in H1. apply (hash_eqb_spec C OK) in H2. congruence.
  Qed.
  Lemma kmem_in k (c : list (key C)) : kmem C k c = true -> In k c.
  Proof.
    unfold kmem; intros H. apply existsb_exists in H. destruct H as [x [Hin He]].
    apply key_eqb_eq in He. subst; assumption.
  Qed.
  Lemma cache_put_in capacity ev k (c : list (key C)) x :
    In x (cache_put C capacity ev k c) -> In x c \/ x = k.
  Proof.
    unfold cache_put; intros H. repeat dm; auto.
    - apply in_app_or in H. destruct H as [H|[H|[]]]; auto.
      unfold kremove in H. apply filter_In in H. tauto.
    - apply in_app_or in H. destruct H as [H|[H|[]]]; auto.
    - apply in_app_or in H. destruct H as [H|[H|[]]]; auto.
  Qed.

  (* ---- the invariant ---- *)
  Definition pw_ok (usr : user) : Prop :=
    (u_hash usr = None /\ u_pw usr = 0) \/
    (exists s, u_hash usr = Some (gen C s (u_pw usr)) /\ u_pw usr <> 0).

  Record Inv (st : state) : Prop := {
    inv_u_uuid : forall u usr, alookup u (users st) = Some usr -> u_uuid usr < next_uuid st;
    inv_s_uuid : forall sid s, alookup sid (sessions st) = Some s -> s_uuid s < next_uuid st;
    (* every cached pair passed the full check: (sha1 p, h) with verify h p *)
    inv_cache : forall d h, In (d, h) (cache st) -> exists p, d = digest C p /\ verify C h p = true;
    (* the ghost password is the one the stored hash was generated from *)
    inv_pw : forall u usr, alookup u (users st) = Some usr -> pw_ok usr
  }.

  Lemma Inv_init capacity : Inv (init C capacity).
  Proof. split; cbn; intros; try discriminate; tauto. Qed.

  Lemma new_hash_ok p salt b uu : pw_ok (mkUser (new_hash C p salt) b uu p).
  Proof.
    unfold pw_ok, new_hash; cbn. destruct (p =? 0) eqn:E; keq.
    - left; auto.
    - right; eauto.
  Qed.

  Lemma get_session_some st sid s :
    get_session C st sid = Some s -> alookup sid (sessions st) = Some s /\ now st < s_expires s.
  Proof. unfold get_session; intros H. repeat dm; try discriminate. inv H. keq. auto. Qed.

  Ltac look :=
    repeat match goal with
    | H : context[alookup _ (aset _ _ _)] |- _ => rewrite alookup_aset in H
    | H : context[alookup _ (adel _ _)] |- _ => rewrite alookup_adel in H
    | |- context[alookup _ (aset _ _ _)] => rewrite alookup_aset
    | |- context[alookup _ (adel _ _)] => rewrite alookup_adel
    end.

  Ltac inv_some :=
    repeat match goal with
    | H : Some _ = Some _ |- _ => inv H
    | H : None = Some _ |- _ => discriminate H
    | H : Some _ = None |- _ => discriminate H
    end.

  Lemma Inv_step ccd st o : Inv st -> Inv (fst (step_gen C ccd st o)).
  Proof.
    intros [I1 I2 I3 I4].
    assert (U1 : forall u usr, alookup u (users st) = Some usr -> u_uuid usr < next_uuid st + 1)
      by (intros u usr H; specialize (I1 _ _ H); lia).
    assert (U2 : forall sid s, alookup sid (sessions st) = Some s -> s_uuid s < next_uuid st + 1)
      by (intros sid s H; specialize (I2 _ _ H); lia).
    destruct o; unfold step_gen, consume; repeat dm; cbn [fst]; try (split; assumption);
      split; acc; intros; look; repeat dm; inv_some; acc; eauto using new_hash_ok; try lia.
    (* SetDisabled / InvalidateSessions keep hash and ghost password *)
    all: try match goal with
         | H : alookup ?u (users _) = Some ?usr |- pw_ok _ => specialize (I4 _ _ H); unfold pw_ok in *; acc; exact I4
         end.
    (* CreateSession copies the user's uuid *)
    all: try match goal with
         | H : alookup ?u (users _) = Some ?usr |- u_uuid ?usr < _ => specialize (I1 _ _ H); lia
         end.
    (* AuthPassword: the inserted pair was just verified *)
    all: try match goal with
         | H : In _ (cache_put _ _ _ _ _) |- _ => apply cache_put_in in H; destruct H as [H|H]; [eauto | inv H; eauto]
         end.
    (* refresh keeps the uuid *)
    all: try match goal with
         | H : get_session C _ ?sid = Some ?s |- s_uuid ?s < _ => apply get_session_some in H; destruct H as [H _]; eauto
         end.
  Qed.

  Lemma run_snoc ccd (st : state) ops o :
    run_gen C ccd st (ops ++ [o]) = fst (step_gen C ccd (run_gen C ccd st ops) o).
  Proof. unfold run_gen. rewrite fold_left_app. reflexivity. Qed.

  Lemma Inv_run ccd ops : forall st, Inv st -> Inv (run_gen C ccd st ops).
  Proof.
    induction ops as [|o ops IH]; intros st H; [exact H|].
    cbn [run_gen fold_left]. apply IH. apply Inv_step. exact H.
  Qed.

  Lemma Inv_reach ccd capacity ops : Inv (run_gen C ccd (init C capacity) ops).
  Proof. apply Inv_run, Inv_init. Qed.

  (* ================= password path ================= *)
  Lemma password_auth_sound ccd st u q ev w :
    Inv st -> authed (snd (step_gen C ccd st (AuthPassword u q ev))) = Some w ->
    w = u /\ exists usr, alookup u (users st) = Some usr /\ u_disabled usr = false /\
      match u_hash usr with Some h => verify C h q = true | None => q = 0 end /\
      (plain C q = true -> plain C (u_pw usr) = true -> q = u_pw usr).
  Proof.
    intros [I1 I2 I3 I4] H. unfold step_gen in H.
    destruct (alookup u (users st)) as [usr|] eqn:Eu; [|discriminate H].
    destruct (u_disabled usr) eqn:Ed; [discriminate H|].
    specialize (I4 _ _ Eu). unfold pw_ok in I4.
    destruct (u_hash usr) as [h|] eqn:Eh.
    - assert (V : authed (snd (step_gen C ccd st (AuthPassword u q ev))) = Some w -> True) by trivial.
      assert (Hv : verify C h q = true /\ w = u).
      { destruct (kmem C (digest C q, h) (cache st)) eqn:Ek.
        - cbn in H. inv H. split; [|reflexivity].
          apply kmem_in in Ek. destruct (I3 _ _ Ek) as [p [Hd Hp]].
          apply (digest_inj C OK) in Hd. subst; assumption.
        - destruct (verify C h q) eqn:Ev; cbn in H; [inv H; auto | discriminate H]. }
      destruct Hv as [Hv ->]. split; [reflexivity|]. exists usr.
      split; [solve [auto]|]. split; [solve [auto]|]. rewrite ?Eh. split; [exact Hv|].
      intros Hl Hl'. destruct I4 as [[I4 _]|[s [I4 _]]]; [discriminate I4|].
      inv I4. apply (verify_gen C OK) in Hv; auto.
    - cbn in H. destruct (q =? 0) eqn:E0; [|discriminate H]. inv H. keq.
      split; [reflexivity|]. exists usr.
      split; [solve [auto]|]. split; [solve [auto]|]. rewrite ?Eh. split; [exact E0|].
      intros _ _. destruct I4 as [[_ I4]|[s [I4 _]]]; [congruence | discriminate I4].
  Qed.

  (* the fast path accepts nothing the full check rejects *)
  Lemma cache_never_widens st d h q :
    Inv st -> In (d, h) (cache st) -> digest C q = d -> verify C h q = true.
  Proof.
    intros [_ _ I3 _] Hin Hd. destruct (I3 _ _ Hin) as [p [E Hp]]. subst d.
    apply (digest_inj C OK) in E. subst; assumption.
  Qed.

  (* ... and a warm cache decides exactly as an empty one *)
  Lemma cache_transparent ccd st u q ev ev' :
    Inv st ->
    authed (snd (step_gen C ccd st (AuthPassword u q ev))) =
    authed (snd (step_gen C ccd (with_cache st []) (AuthPassword u q ev'))).
  Proof.
    intros I. unfold step_gen. acc.
    destruct (alookup u (users st)) as [usr|]; [|reflexivity].
    destruct (u_disabled usr); [reflexivity|].
    destruct (u_hash usr) as [h|]; [|reflexivity].
    cbn [kmem existsb].
    destruct (kmem C (digest C q, h) (cache st)) eqn:Ek.
    - apply kmem_in in Ek. rewrite (cache_never_widens _ _ _ _ I Ek eq_refl). reflexivity.
    - destruct (verify C h q); reflexivity.
  Qed.

  (* ================= session path ================= *)
  Definition presents (o : op) (sid : N) : Prop :=
    o = AuthCookie sid \/ o = AuthOneTime sid \/ o = GetSession sid.
  Definition authenticates (o : op) (sid : N) : Prop :=
    o = AuthCookie sid \/ o = AuthOneTime sid.

  Lemma session_user_some ccd (st : state) s w :
    session_user C ccd st s = Some w ->
    w = s_user s /\ exists usr, alookup (s_user s) (users st) = Some usr /\ s_uuid s = u_uuid usr /\
      (ccd = true -> u_disabled usr = false).
  Proof.
    unfold session_user; intros H. repeat dm; inv_some. keq.
    split; [reflexivity|]. eexists; repeat split; eauto.
    intros ->. cbn in *. assumption.
  Qed.

  Lemma session_auth_sound ccd st sid o w :
    presents o sid -> authed (snd (step_gen C ccd st o)) = Some w ->
    exists s usr, alookup sid (sessions st) = Some s /\ now st < s_expires s /\ s_user s = w /\
      alookup w (users st) = Some usr /\ s_uuid s = u_uuid usr /\
      (ccd = true -> authenticates o sid -> u_disabled usr = false).
  Proof.
    intros [ -> | [ -> | -> ] ] H; unfold step_gen in H;
      (destruct (get_session C st sid) as [s|] eqn:Eg; [|discriminate H]);
      apply get_session_some in Eg; destruct Eg as [Eg Hlive].
    - destruct (session_user C ccd st s) as [w'|] eqn:Es; cbn in H; [|discriminate H]. inv H.
      apply session_user_some in Es. destruct Es as [-> [usr [Eu [Euu Hd]]]].
      exists s, usr. repeat split; auto.
    - destruct (session_user C ccd st s) as [w'|] eqn:Es; cbn in H; [|discriminate H]. inv H.
      apply session_user_some in Es. destruct Es as [-> [usr [Eu [Euu Hd]]]].
      exists s, usr. repeat split; auto.
    - destruct (session_user C false st s) as [w'|] eqn:Es; cbn in H; [|discriminate H]. inv H.
      apply session_user_some in Es. destruct Es as [-> [usr [Eu [Euu Hd]]]].
      exists s, usr. repeat split; auto.
      intros _ [E|E]; discriminate E.
  Qed.

  (* ---- dead sessions stay dead ---- *)
  (* a session id is dead when its document is expired or bound to a credential epoch that the
     user (if one of that name exists at all) has left behind; an absent document is dead *)
  Definition dead (st : state) (sid : N) : Prop :=
    forall s, alookup sid (sessions st) = Some s ->
      s_expires s <= now st \/
      (forall usr, alookup (s_user s) (users st) = Some usr -> s_uuid s < u_uuid usr).

  Definition not_create (sid : N) (o : op) : Prop :=
    match o with CreateSession _ sid' _ _ => sid' <> sid | _ => True end.
  Definition no_recreate (sid : N) (ops : list op) : Prop := Forall (not_create sid) ops.

  Lemma dead_no_auth ccd st sid o :
    dead st sid -> presents o sid -> authed (snd (step_gen C ccd st o)) = None.
  Proof.
    intros D P. destruct (authed (snd (step_gen C ccd st o))) as [w|] eqn:E; [|reflexivity].
    destruct (session_auth_sound _ _ _ _ _ P E) as [s [usr [Es [Hl [Hu [Eu [Euu _]]]]]]].
    destruct (D _ Es) as [D1|D2]; [lia|]. subst w. specialize (D2 _ Eu). lia.
  Qed.

  Lemma dead_step ccd st sid o :
    Inv st -> dead st sid -> not_create sid o -> dead (fst (step_gen C ccd st o)) sid.
  Proof.
    intros [I1 I2 _ _] D NC.
    destruct o; unfold step_gen, consume; repeat dm; cbn [fst]; try exact D;
      unfold dead in *; acc; intros s0 Hs0; look.
    (* user operations: the sessions are untouched, a rewritten user gets the next uuid or keeps its own *)
    all: try (destruct (D _ Hs0) as [D1|D2]; [left; exact D1|right];
              intros usr0 Hu0; look; repeat dm; inv_some; acc; keq; subst;
              try (specialize (I2 _ _ Hs0); lia);
              try (match goal with Hx : alookup (s_user _) (users _) = Some ?x |- _ => specialize (D2 _ Hx) end; acc; lia);
              auto; fail).
    (* CreateSession of another id / DeleteSession *)
    all: try (cbn [not_create] in NC; repeat dm; inv_some; keq; subst; try congruence; auto; fail).
    (* Advance *)
    all: try (destruct (D _ Hs0) as [D1|D2]; [left; lia | right; exact D2]; fail).
    (* presentations: a refresh needs a live, hence stale, session and keeps user and uuid *)
    all: repeat dm; inv_some; keq; subst; auto;
      try match goal with
          | Hg : get_session C _ ?x = Some ?s1 |- _ =>
              apply get_session_some in Hg; destruct Hg as [Hg Hlive];
              destruct (D _ Hg) as [D1|D2]; [lia | right; acc; exact D2]
          end.
  Qed.

  Lemma dead_forever ccd sid ops : forall st,
    Inv st -> dead st sid -> no_recreate sid ops ->
    dead (run_gen C ccd st ops) sid.
  Proof.
    induction ops as [|o ops IH]; intros st I D NR; [exact D|].
    inv NR. cbn [run_gen fold_left]. apply IH; auto using Inv_step, dead_step.
  Qed.

  (* ---- what kills a session ---- *)
  (* a successful password change, or "delete all sessions of the user" *)
  Lemma epoch_change_kills ccd st sid s o :
    Inv st -> alookup sid (sessions st) = Some s ->
    (exists p salt, o = SetPassword (s_user s) p salt) \/ o = InvalidateSessions (s_user s) ->
    snd (step_gen C ccd st o) = ODone ->
    dead (fst (step_gen C ccd st o)) sid.
  Proof.
    intros [I1 I2 _ _] Es Ho Hd.
    destruct Ho as [ [p [salt -> ] ] | -> ]; unfold step_gen in *; repeat dm; cbn [snd] in Hd; try discriminate Hd;
      cbn [fst]; unfold dead; acc; intros s0 Hs0; rewrite Es in Hs0; inv Hs0; right;
      intros usr0 Hu0; look; rewrite N.eqb_refl in Hu0; inv Hu0; acc; specialize (I2 _ _ Es); lia.
  Qed.

  Lemma delete_user_kills ccd st sid s :
    alookup sid (sessions st) = Some s ->
    snd (step_gen C ccd st (DeleteUser (s_user s))) = ODone ->
    dead (fst (step_gen C ccd st (DeleteUser (s_user s)))) sid.
  Proof.
    intros Es Hd. unfold step_gen in *. repeat dm; cbn [snd] in Hd; try discriminate Hd.
    cbn [fst]; unfold dead; acc; intros s0 Hs0; rewrite Es in Hs0; inv Hs0; right.
    intros usr0 Hu0; look. rewrite N.eqb_refl in Hu0. discriminate Hu0.
  Qed.

  Lemma delete_session_kills ccd st sid :
    dead (fst (step_gen C ccd st (DeleteSession sid))) sid.
  Proof.
    unfold step_gen. destruct (get_session C st sid) as [s|] eqn:Eg; cbn [fst]; unfold dead; acc; intros s0 Hs0.
    - look. rewrite N.eqb_refl in Hs0. discriminate Hs0.
    - left. unfold get_session in Eg. rewrite Hs0 in Eg. dm; [discriminate Eg|]. keq. assumption.
  Qed.

  Lemma expiry_kills ccd st sid s dt :
    alookup sid (sessions st) = Some s -> s_expires s <= now st + dt ->
    dead (fst (step_gen C ccd st (Advance dt))) sid.
  Proof.
    intros Es Hle. unfold step_gen; cbn [fst]; unfold dead; acc. intros s0 Hs0. rewrite Es in Hs0; inv Hs0. left; assumption.
  Qed.

  (* a one-time session that authenticated is gone *)
  Lemma one_time_consumed ccd st sid s o w :
    alookup sid (sessions st) = Some s -> s_onetime s = true ->
    authenticates o sid -> authed (snd (step_gen C ccd st o)) = Some w ->
    alookup sid (sessions (fst (step_gen C ccd st o))) = None.
  Proof.
    intros Es Hot [ -> | -> ] H; unfold step_gen in *;
      (destruct (get_session C st sid) as [s1|] eqn:Eg; [|discriminate H]);
      apply get_session_some in Eg; destruct Eg as [Eg _]; rewrite Es in Eg; inv Eg;
      (destruct (session_user C ccd st s1) as [w'|] eqn:Eu; [|discriminate H]);
      unfold consume, wants_refresh; rewrite Hot; cbn [fst negb andb]; acc; rewrite ?andb_false_r; acc; look;
      rewrite N.eqb_refl; reflexivity.
  Qed.

  Lemma absent_dead (st : state) sid : alookup sid (sessions st) = None -> dead st sid.
  Proof. intros H s Hs. congruence. Qed.

  (* one-time sessions are never re-written by a presentation (no refresh): the fact the concurrent
     argument of OneTime.v rests on *)
  Lemma one_time_never_refreshed st s : s_onetime s = true -> wants_refresh C st s = false.
  Proof. intros H. unfold wants_refresh. rewrite H. apply andb_false_r. Qed.

  (* ---- provenance: a stored session was issued by CreateSession for that user ---- *)
  Lemma session_provenance ccd capacity ops sid s :
    alookup sid (sessions (run_gen C ccd (init C capacity) ops)) = Some s ->
    In (CreateSession (s_user s) sid (s_ttl s) (s_onetime s)) ops.
  Proof.
    revert s. induction ops as [|o ops IH] using rev_ind; intros s H; [discriminate H|].
    rewrite run_snoc in H. apply in_or_app.
    set (st := run_gen C ccd (init C capacity) ops) in *.
    destruct o; unfold step_gen, consume in H; repeat dm; cbn [fst] in H; acc; look; repeat dm; inv_some; keq; subst;
      try (left; apply IH; assumption); acc;
      try (right; left; reflexivity);
      try match goal with
          | Hg : get_session C _ ?x = Some ?s1 |- _ =>
              apply get_session_some in Hg; destruct Hg as [Hg _]; left; apply (IH _ Hg)
          end.
  Qed.

  (* ---- the ghost "current password" follows the history ---- *)
  Lemma password_set_recorded ccd st u p salt o :
    o = CreateUser u p salt \/ o = SetPassword u p salt ->
    snd (step_gen C ccd st o) = ODone ->
    exists usr, alookup u (users (fst (step_gen C ccd st o))) = Some usr /\ u_pw usr = p.
  Proof.
    intros [ -> | -> ] H; unfold step_gen in *; repeat dm; cbn [snd] in H; try discriminate H;
      cbn [fst]; acc; look; rewrite N.eqb_refl; eexists; split; reflexivity.
  Qed.

  Definition sets_password (u : N) (o : op) : Prop :=
    match o with CreateUser u' _ _ | SetPassword u' _ _ => u' = u | _ => False end.

  Lemma password_frame ccd st u o usr' :
    ~ sets_password u o ->
    alookup u (users (fst (step_gen C ccd st o))) = Some usr' ->
    exists usr, alookup u (users st) = Some usr /\ u_pw usr = u_pw usr'.
  Proof.
    intros NS H.
    destruct o; unfold step_gen, consume in H; repeat dm; cbn [fst] in H; acc; look; repeat dm; inv_some; keq; subst;
      cbn [sets_password] in NS; try (exfalso; apply NS; reflexivity); eauto.
  Qed.

  (* after a successful password set to p, and as long as nobody sets u's password again, every other
     attempt is refused (p and the attempt plain) *)
  Lemma wrong_password_rejected ccd ops : forall st u p,
    Inv st -> (forall usr, alookup u (users st) = Some usr -> u_pw usr = p) ->
    Forall (fun o => ~ sets_password u o) ops ->
    plain C p = true ->
    forall q ev, q <> p -> plain C q = true ->
      authed (snd (step_gen C ccd (run_gen C ccd st ops) (AuthPassword u q ev))) = None.
  Proof.
    induction ops as [|o ops IH]; intros st u p I Hp NS Pp q ev Hq Hl.
    - cbn [run_gen fold_left].
      destruct (authed (snd (step_gen C ccd st (AuthPassword u q ev)))) as [w|] eqn:E; [|reflexivity].
      destruct (password_auth_sound _ _ _ _ _ _ I E) as [_ [usr [Eu [_ [_ Hpw]]]]].
      specialize (Hp _ Eu). rewrite Hp in Hpw. specialize (Hpw Hl Pp). congruence.
    - inv NS. cbn [run_gen fold_left]. apply (IH _ u p); auto using Inv_step.
      intros usr' Hu'. destruct (password_frame _ _ _ _ _ H1 Hu') as [usr [Eu Epw]].
      rewrite <- Epw. auto.
  Qed.

  Lemma killed_forever ccd st sid :
    Inv st -> dead st sid ->
    forall ops o, no_recreate sid ops -> presents o sid ->
      authed (snd (step_gen C ccd (run_gen C ccd st ops) o)) = None.
  Proof.
    intros I D ops o NR P. apply (dead_no_auth ccd _ sid); [|exact P]. apply dead_forever; assumption.
  Qed.

  Lemma set_then_wrong_password_rejected ccd st u p salt o :
    Inv st -> o = CreateUser u p salt \/ o = SetPassword u p salt ->
    snd (step_gen C ccd st o) = ODone ->
    forall ops, Forall (fun o' => ~ sets_password u o') ops ->
    plain C p = true ->
    forall q ev, q <> p -> plain C q = true ->
      authed (snd (step_gen C ccd (run_gen C ccd (fst (step_gen C ccd st o)) ops) (AuthPassword u q ev))) = None.
  Proof.
    intros I Ho Hd ops NS Pp q ev Hq Hl.
    destruct (password_set_recorded ccd st u p salt o Ho Hd) as [usr [Eu Epw]].
    apply (wrong_password_rejected ccd ops _ u p); auto using Inv_step.
    intros usr' Eu'. congruence.
  Qed.

End Proofs.

(* the hypotheses are satisfiable: the instance used by the correspondence meets them *)
Lemma XC_ok : crypto_ok XC.
Proof.
  split; cbn.
  - intros [a b] [c d]; cbn. rewrite andb_true_iff, !N.eqb_eq. split; [intros [-> ->]; reflexivity | intros E; inv E; auto].
  - auto.
  - intros s p q Hp Hq. unfold canon.
    apply andb_true_iff in Hp; destruct Hp as [Hp Hp7]. apply andb_true_iff in Hp; destruct Hp as [Hp _].
    apply andb_true_iff in Hq; destruct Hq as [Hq Hq7]. apply andb_true_iff in Hq; destruct Hq as [Hq _].
    apply N.ltb_lt in Hp, Hq. apply negb_true_iff in Hp7, Hq7.
    rewrite !N.mod_small by assumption. rewrite Hp7, Hq7. rewrite N.eqb_eq. tauto.
Qed.
