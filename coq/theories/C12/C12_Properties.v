(* C12 -- Only valid credentials and live sessions authenticate.
   Nothing but the property theorems.  [C : crypto] are the external functions (bcrypt, SHA-1, the 72-byte
   limit) and [crypto_ok C] the three facts assumed about them (AuthNProofs.crypto_ok); the instance the
   correspondence evaluates with satisfies them (C12_nonvacuous).  [step C] / [run C] are the model of the
   code as it is in the tree ([AuthN.cookie_checks_disabled] = true: the repaired session paths);
   [step_gen C ccd] has the Disabled() test of the session paths as a parameter.
   A history is any list of operations from the empty database: [reach C ccd cap ops]. *)
From SG Require Import Base.Prelude C12.AuthN C12.Instance C12.AuthNProofs C12.OneTime.
Open Scope N_scope.

Definition reach (C : crypto) (ccd : bool) (capacity : N) (ops : list op) : state C :=
  run_gen C ccd (init C capacity) ops.

(* ---- passwords ---- *)

(* AuthenticateUser succeeds only for an existing, enabled user and a password the stored hash verifies;
   among plain passwords (at most 72 bytes, no NUL byte: where bcrypt is injective) that is the user's
   current password (the one last set) *)
Theorem C12_password_auth_sound : forall C, crypto_ok C -> forall ccd capacity ops u q ev w,
  let st := reach C ccd capacity ops in
  authed (snd (step_gen C ccd st (AuthPassword u q ev))) = Some w ->
  w = u /\ exists usr, alookup u (users st) = Some usr /\ u_disabled usr = false /\
    match u_hash usr with Some h => verify C h q = true | None => q = 0 end /\
    (plain C q = true -> plain C (u_pw usr) = true -> q = u_pw usr).
Proof. intros C OK ccd capacity ops u q ev w st. apply password_auth_sound; [exact OK | apply Inv_reach]. Qed.
Print Assumptions C12_password_auth_sound.

(* wrong and empty passwords: once p has been set for u, and until somebody sets u's password again, every
   other string is refused (p and the attempt plain; in particular "" = 0 when p is not empty), whatever else
   happens in between (disable/enable, delete, sessions, cache evictions, other users) *)
Theorem C12_wrong_password_rejected : forall C, crypto_ok C -> forall ccd capacity ops0 u p salt o,
  let st := reach C ccd capacity ops0 in
  o = CreateUser u p salt \/ o = SetPassword u p salt ->
  snd (step_gen C ccd st o) = ODone ->
  forall ops, Forall (fun o' => ~ sets_password u o') ops ->
  plain C p = true ->
  forall q ev, q <> p -> plain C q = true ->
    authed (snd (step_gen C ccd (run_gen C ccd (fst (step_gen C ccd st o)) ops) (AuthPassword u q ev))) = None.
Proof. intros C OK ccd capacity ops0 u p salt o st. apply set_then_wrong_password_rejected; [exact OK | apply Inv_reach]. Qed.
Print Assumptions C12_wrong_password_rejected.

(* the fast path never accepts a password the full check would reject: in every reachable state every
   cached pair (sha1 q, h) satisfies the full bcrypt check of q against h ... *)
Theorem C12_cache_never_widens : forall C, crypto_ok C -> forall ccd capacity ops d h q,
  In (d, h) (cache (reach C ccd capacity ops)) -> digest C q = d -> verify C h q = true.
Proof. intros C OK ccd capacity ops d h q. apply cache_never_widens; [exact OK | apply Inv_reach]. Qed.
Print Assumptions C12_cache_never_widens.

(* ... hence AuthenticateUser decides exactly as it would with an empty cache *)
Theorem C12_cache_transparent : forall C, crypto_ok C -> forall ccd capacity ops u q ev ev',
  let st := reach C ccd capacity ops in
  authed (snd (step_gen C ccd st (AuthPassword u q ev))) =
  authed (snd (step_gen C ccd (with_cache st []) (AuthPassword u q ev'))).
Proof. intros C OK ccd capacity ops u q ev ev' st. apply cache_transparent; [exact OK | apply Inv_reach]. Qed.
Print Assumptions C12_cache_transparent.

(* ---- sessions ---- *)

(* a presented session id yields a user only if its document is there and unexpired, was issued by
   CreateSession for exactly that user, the user exists and the session carries the user's CURRENT credential
   epoch; and, when the session paths test Disabled() (ccd = true, the repaired code), the user is enabled.
   For ccd = false (the code before the repair) the last clause is the explicit exception: see
   C12_Refuted.disabled_user_authenticates_with_cookie_refuted. *)
Theorem C12_session_auth_sound : forall C ccd capacity ops sid o w,
  let st := reach C ccd capacity ops in
  presents o sid -> authed (snd (step_gen C ccd st o)) = Some w ->
  exists s usr, alookup sid (sessions st) = Some s /\ now st < s_expires s /\ s_user s = w /\
    In (CreateSession w sid (s_ttl s) (s_onetime s)) ops /\
    alookup w (users st) = Some usr /\ s_uuid s = u_uuid usr /\
    (ccd = true -> authenticates o sid -> u_disabled usr = false).
Proof.
  intros C ccd capacity ops sid o w st P H.
  destruct (session_auth_sound C ccd st sid o w P H) as [s [usr [Es [Hl [Hu [Eu [Euu Hd]]]]]]].
  exists s, usr. repeat split; auto.
  subst w. exact (session_provenance C ccd capacity ops sid s Es).
Qed.
Print Assumptions C12_session_auth_sound.

(* the model of the tree as it is: disabled users authenticate neither with the password nor with a session *)
Theorem C12_disabled_user_never_authenticates : forall C, crypto_ok C -> forall capacity ops o w,
  let st := run C (init C capacity) ops in
  (exists u q ev, o = AuthPassword u q ev) \/ (exists sid, authenticates o sid) ->
  authed (snd (step C st o)) = Some w ->
  exists usr, alookup w (users st) = Some usr /\ u_disabled usr = false.
Proof.
  intros C OK capacity ops o w st [[u [q [ev ->]]]|[sid A]] H.
  - destruct (password_auth_sound C OK _ _ _ _ _ _ (Inv_reach C _ capacity ops) H) as [-> [usr [Eu [Ed _]]]]. eauto.
  - assert (P : presents o sid) by (destruct A as [->| ->]; unfold presents; auto).
    destruct (session_auth_sound C _ _ _ _ _ P H) as [s [usr [_ [_ [_ [Eu [_ Hd]]]]]]].
    exists usr. split; [exact Eu | exact (Hd eq_refl A)].
Qed.
Print Assumptions C12_disabled_user_never_authenticates.

(* (the session theorems need nothing about bcrypt / SHA-1)
   a session id that is [dead] never yields a user again, whatever happens afterwards, provided the id is
   not issued a second time (session ids are 160 random bits: base.GenerateRandomSecret) *)
Theorem C12_dead_session_stays_dead : forall C ccd capacity ops0 sid,
  let st := reach C ccd capacity ops0 in
  dead C st sid ->
  forall ops o, no_recreate sid ops -> presents o sid ->
    authed (snd (step_gen C ccd (run_gen C ccd st ops) o)) = None.
Proof. intros C ccd capacity ops0 sid st D. apply killed_forever; [apply Inv_reach | exact D]. Qed.
Print Assumptions C12_dead_session_stays_dead.

(* what makes a session dead.  (1) sessions issued before a password change, or before "delete all sessions" *)
Theorem C12_password_change_kills_sessions : forall C ccd capacity ops0 sid s o,
  let st := reach C ccd capacity ops0 in
  alookup sid (sessions st) = Some s ->
  (exists p salt, o = SetPassword (s_user s) p salt) \/ o = InvalidateSessions (s_user s) ->
  snd (step_gen C ccd st o) = ODone ->
  forall ops o', no_recreate sid ops -> presents o' sid ->
    authed (snd (step_gen C ccd (run_gen C ccd (fst (step_gen C ccd st o)) ops) o')) = None.
Proof.
  intros C ccd capacity ops0 sid s o st Es Ho Hd.
  apply killed_forever; [apply Inv_step, Inv_reach |].
  apply (epoch_change_kills C ccd st sid s o); auto. apply Inv_reach.
Qed.
Print Assumptions C12_password_change_kills_sessions.

(* (2) sessions of a deleted user -- also after a user of the same name has been created again *)
Theorem C12_recreated_user_old_session_dead : forall C ccd capacity ops0 sid s,
  let st := reach C ccd capacity ops0 in
  alookup sid (sessions st) = Some s ->
  snd (step_gen C ccd st (DeleteUser (s_user s))) = ODone ->
  forall ops o', no_recreate sid ops -> presents o' sid ->
    authed (snd (step_gen C ccd (run_gen C ccd (fst (step_gen C ccd st (DeleteUser (s_user s)))) ops) o')) = None.
Proof.
  intros C ccd capacity ops0 sid s st Es Hd.
  apply killed_forever; [apply Inv_step, Inv_reach |].
  apply delete_user_kills; assumption.
Qed.
Print Assumptions C12_recreated_user_old_session_dead.

(* (3) deleted sessions *)
Theorem C12_deleted_session_dead : forall C ccd capacity ops0 sid,
  let st := reach C ccd capacity ops0 in
  forall ops o', no_recreate sid ops -> presents o' sid ->
    authed (snd (step_gen C ccd (run_gen C ccd (fst (step_gen C ccd st (DeleteSession sid))) ops) o')) = None.
Proof.
  intros C ccd capacity ops0 sid st.
  apply killed_forever; [apply Inv_step, Inv_reach | apply delete_session_kills].
Qed.
Print Assumptions C12_deleted_session_dead.

(* (4) expired sessions: once the clock has reached the expiry of the document *)
Theorem C12_expired_session_dead : forall C ccd capacity ops0 sid s dt,
  let st := reach C ccd capacity ops0 in
  alookup sid (sessions st) = Some s -> s_expires s <= now st + dt ->
  forall ops o', no_recreate sid ops -> presents o' sid ->
    authed (snd (step_gen C ccd (run_gen C ccd (fst (step_gen C ccd st (Advance dt))) ops) o')) = None.
Proof.
  intros C ccd capacity ops0 sid s dt st Es Hle.
  apply killed_forever; [apply Inv_step, Inv_reach |].
  apply (expiry_kills C ccd st sid s dt); assumption.
Qed.
Print Assumptions C12_expired_session_dead.

(* (5) a one-time session that has authenticated once never authenticates again (sequentially) *)
Theorem C12_one_time_at_most_once : forall C ccd capacity ops0 sid s o w,
  let st := reach C ccd capacity ops0 in
  alookup sid (sessions st) = Some s -> s_onetime s = true ->
  authenticates o sid -> authed (snd (step_gen C ccd st o)) = Some w ->
  forall ops o', no_recreate sid ops -> presents o' sid ->
    authed (snd (step_gen C ccd (run_gen C ccd (fst (step_gen C ccd st o)) ops) o')) = None.
Proof.
  intros C ccd capacity ops0 sid s o w st Es Hot A H.
  apply killed_forever; [apply Inv_step, Inv_reach |].
  apply absent_dead. exact (one_time_consumed C ccd st sid s o w Es Hot A H).
Qed.
Print Assumptions C12_one_time_at_most_once.

(* ... and concurrently: n presentations of the same one-time session, their storage operations
   (get session; check user; delete) interleaved in any order together with outside deletions, the user
   check answering anything: at most one presentation wins.  Rests on: a presentation never re-writes a
   one-time session (first theorem below, about the sequential model that is tied to the code) and Delete of
   an absent document reports not-found (Couchbase Server semantics). *)
Theorem C12_one_time_never_rewritten : forall C (st : state C) s,
  s_onetime s = true -> wants_refresh C st s = false.
Proof. exact one_time_never_refreshed. Qed.
Print Assumptions C12_one_time_never_rewritten.

Theorem C12_one_time_at_most_once_concurrent : forall n (schedule : list event),
  (wins (pcs (erun false true (start n) schedule)) <= 1)%nat.
Proof. exact one_time_concurrent. Qed.
Print Assumptions C12_one_time_at_most_once_concurrent.

(* non-vacuity: the hypotheses on the external functions are satisfiable (by the instance the correspondence
   evaluates with), and a concrete history authenticates with the password, with a cookie, once with a
   one-time session, and is refused with the wrong password and on the second one-time presentation *)
Example C12_nonvacuous :
  crypto_ok XC /\
  outs XC (init XC 10)
       [CreateUser 1 1 1; CreateSession 1 1 1000 false; CreateSession 1 2 1000 true;
        AuthPassword 1 1 None; AuthPassword 1 5 None; AuthCookie 1; AuthCookie 2; AuthCookie 2;
        SetPassword 1 5 2; AuthCookie 1; AuthPassword 1 5 None]
  = [ODone; ODone; ODone; OPass (Some 1) 1; OPass None 1; OCookie (Some 1) false; OCookie (Some 1) false;
     OCookie None false; ODone; OCookie None false; OPass (Some 1) 2].
Proof. split; [exact XC_ok | vm_compute; reflexivity]. Qed.
