(* C12 -- Only valid credentials and live sessions authenticate.
   Nothing but the property theorems.  [C : crypto] are the external functions (bcrypt, SHA-1, the 72-byte
   limit) and [crypto_ok C] the three facts assumed about them (AuthNProofs.crypto_ok); the instance the
   correspondence evaluates with satisfies them (C12_nonvacuous).  [step C] / [run C] are the model of the
   code as it is in the tree ([AuthN.cookie_checks_disabled] = true: the repaired session paths);
   [step_gen C ccd rcp] has the Disabled() test of the session paths as a parameter.
   A history is any list of operations from the empty database: [reach C ccd cap ops]. *)
From SG Require Import Base.Prelude C12.AuthN C12.Instance C12.AuthNProofs C12.OneTime C12.Rest C12.RestProofs C12.Epoch C12.EpochProofs C12.Expiry C12.ExpiryProofs.
Open Scope N_scope.

Definition reach (C : crypto) (ccd rcp : bool) (capacity : N) (ops : list op) : state C :=
  run_gen C ccd rcp (init C capacity) ops.

(* histories around a change of the configured bcrypt cost: first anything without re-hashing logins (hashes of
   any cost), then anything in which every node hashes with cost c -- passwords set, and the cost that
   re-hashing logins (LoginRehash ... c, then their RehashSave attempts, scheduled freely) ask for *)
Definition reach2 (C : crypto) (ccd rcp : bool) (capacity : N) (ops0 : list op) (c : N) (ops1 : list op) : state C :=
  run_gen C ccd rcp (run_gen C ccd rcp (init C capacity) ops0) ops1.

(* ---- passwords ---- *)

(* AuthenticateUser (with or without the re-hash) succeeds only for an existing, enabled user and a password the
   stored hash verifies, i.e. one bcrypt cannot tell from the password last written for the user; among plain
   passwords (at most 72 bytes, no NUL byte) that is the user's current password itself *)
Theorem C12_password_auth_sound : forall C, crypto_ok C -> forall ccd rcp capacity ops o u q w,
  let st := reach C ccd rcp capacity ops in
  password_login o u q -> authed (snd (step_gen C ccd rcp st o)) = Some w ->
  w = u /\ exists usr, alookup u (users st) = Some usr /\ u_disabled usr = false /\
    match u_hash usr with Some h => verify C h q = true | None => q = 0 end /\
    bkey C q = bkey C (u_pw usr) /\
    (plain C q = true -> plain C (u_pw usr) = true -> q = u_pw usr).
Proof.
  intros C OK ccd rcp capacity ops o u q w st PL H.
  destruct (password_auth_sound C OK ccd rcp st o u q w (Inv_reach C ccd rcp capacity ops) PL H) as [E [usr [Eu [Ed [Hv Hk]]]]].
  split; [exact E|]. exists usr. repeat split; auto.
  intros Pq Pp. apply (bkey_plain C OK); auto.
Qed.
Print Assumptions C12_password_auth_sound.

(* wrong and empty passwords: once p has been set for u, and until somebody sets u's password again, every
   other string is refused (p and the attempt plain; in particular "" = 0 when p is not empty), whatever else
   happens in between: disable/enable, delete, sessions, cache evictions, other users, and re-hashing logins
   whose Save attempts are interleaved with all of that -- nodes hashing with different bcrypt costs at the same
   time included (rcp = true: the repaired rehashPassword, the model of the tree) *)
Theorem C12_wrong_password_rejected : forall C, crypto_ok C -> forall ccd capacity ops0 u p salt c o,
  let st := reach C ccd true capacity ops0 in
  o = CreateUser u p salt c \/ o = SetPassword u p salt c ->
  snd (step_gen C ccd true st o) = ODone ->
  forall ops, Forall (fun o' => ~ sets_password u o') ops ->
  plain C p = true ->
  forall o' q, password_login o' u q -> q <> p -> plain C q = true ->
    authed (snd (step_gen C ccd true (run_gen C ccd true (fst (step_gen C ccd true st o)) ops) o')) = None.
Proof.
  intros C OK ccd capacity ops0 u p salt c o st Ho Hd ops NS.
  apply (set_then_wrong_password_rejected C OK ccd true 0 st u p salt c o); auto.
  - apply Inv_reach.
  - apply Safe_reach_repaired; exact OK.
  - intros E; discriminate E.
  - eapply Forall_impl; [|exact NS]. intros x Hx. split; [intros E; discriminate E | exact Hx].
Qed.
Print Assumptions C12_wrong_password_rejected.

(* the same for either variant of the callback (in particular rcp = false, the code before the repair) under
   the hypothesis it needs: one configured cost at a time -- first anything without re-hashing logins, then
   anything in which every node hashes with cost c.  (This was the statement before the repair.) *)
Theorem C12_wrong_password_rejected_single_cost : forall C, crypto_ok C -> forall ccd rcp capacity ops0 c ops1 u p salt o,
  Forall no_login_rehash ops0 -> Forall (uniform c) ops1 ->
  let st := reach2 C ccd rcp capacity ops0 c ops1 in
  o = CreateUser u p salt c \/ o = SetPassword u p salt c ->
  snd (step_gen C ccd rcp st o) = ODone ->
  forall ops, Forall (fun o' => uniform c o' /\ ~ sets_password u o') ops ->
  plain C p = true ->
  forall o' q, password_login o' u q -> q <> p -> plain C q = true ->
    authed (snd (step_gen C ccd rcp (run_gen C ccd rcp (fst (step_gen C ccd rcp st o)) ops) o')) = None.
Proof.
  intros C OK ccd rcp capacity ops0 c ops1 u p salt o F0 F1 st Ho Hd ops NS.
  apply (set_then_wrong_password_rejected C OK ccd rcp c st u p salt c o); auto.
  - apply Inv_run, Inv_reach.
  - apply Safe_reach_single_cost; assumption.
  - intros _. destruct Ho as [-> | ->]; reflexivity.
  - eapply Forall_impl; [|exact NS]. intros x [U Hx]. split; [intros _; exact U | exact Hx].
Qed.
Print Assumptions C12_wrong_password_rejected_single_cost.

(* re-hashing at login (rehashPassword, the repaired callback: rcp = true), over ALL histories -- any number of
   nodes hashing with any bcrypt costs at the same time: a Save attempt of an in-flight re-hash -- whatever was
   scheduled between the login's read and this attempt: password changes, disabling, deletion and re-creation,
   other logins -- never makes the stored credential accept a string it refused before, never touches the
   disabled flag and never creates or deletes a user; and unless the password presented was the empty string it
   leaves the set of accepted strings exactly as it was.  In particular a superseded password is never written
   back.  (For the callback before the repair the statement fails: C12_Refuted.) *)
Theorem C12_rehash_preserves_credentials : forall C, crypto_ok C -> forall ccd capacity ops a salt ev,
  let st := reach C ccd true capacity ops in
  let st' := fst (step_gen C ccd true st (RehashSave a salt ev)) in
  forall u,
    (forall x, creds C st' u x = true -> creds C st u x = true) /\
    option_map u_disabled (alookup u (users st')) = option_map u_disabled (alookup u (users st)) /\
    ((forall pd, alookup a (pending st) = Some pd -> p_pw pd <> 0) -> forall x, creds C st' u x = creds C st u x).
Proof.
  intros C OK ccd capacity ops a salt ev st st' u.
  assert (I : Inv C st) by apply Inv_reach.
  assert (G : Safe C true 0 st) by (apply Safe_reach_repaired; exact OK).
  destruct (rehash_never_widens C OK ccd true 0 st a salt ev I G u) as [W D].
  split; [exact W|]. split; [exact D|].
  intros NE x. apply (rehash_preserves C OK ccd true 0 st a salt ev I G NE).
Qed.
Print Assumptions C12_rehash_preserves_credentials.

(* either variant of the callback under the single-cost hypothesis (the statement before the repair) *)
Theorem C12_rehash_preserves_credentials_single_cost : forall C, crypto_ok C -> forall ccd rcp capacity ops0 c ops1 a salt ev,
  Forall no_login_rehash ops0 -> Forall (uniform c) ops1 ->
  let st := reach2 C ccd rcp capacity ops0 c ops1 in
  let st' := fst (step_gen C ccd rcp st (RehashSave a salt ev)) in
  forall u,
    (forall x, creds C st' u x = true -> creds C st u x = true) /\
    option_map u_disabled (alookup u (users st')) = option_map u_disabled (alookup u (users st)) /\
    ((forall pd, alookup a (pending st) = Some pd -> p_pw pd <> 0) -> forall x, creds C st' u x = creds C st u x).
Proof.
  intros C OK ccd rcp capacity ops0 c ops1 a salt ev F0 F1 st st' u.
  assert (I : Inv C st) by apply Inv_run, Inv_reach.
  assert (G : Safe C rcp c st) by (apply Safe_reach_single_cost; assumption).
  destruct (rehash_never_widens C OK ccd rcp c st a salt ev I G u) as [W D].
  split; [exact W|]. split; [exact D|].
  intros NE x. apply (rehash_preserves C OK ccd rcp c st a salt ev I G NE).
Qed.
Print Assumptions C12_rehash_preserves_credentials_single_cost.

(* the fast path never accepts a password the full check would reject: in every reachable state every
   cached pair (sha1 q, h) satisfies the full bcrypt check of q against h ... *)
Theorem C12_cache_never_widens : forall C, crypto_ok C -> forall ccd rcp capacity ops d h q,
  In (d, h) (cache (reach C ccd rcp capacity ops)) -> digest C q = d -> verify C h q = true.
Proof. intros C OK ccd rcp capacity ops d h q. apply cache_never_widens; [exact OK | apply Inv_reach]. Qed.
Print Assumptions C12_cache_never_widens.

(* ... hence AuthenticateUser decides exactly as it would with an empty cache *)
Theorem C12_cache_transparent : forall C, crypto_ok C -> forall ccd rcp capacity ops u q ev ev',
  let st := reach C ccd rcp capacity ops in
  authed (snd (step_gen C ccd rcp st (AuthPassword u q ev))) =
  authed (snd (step_gen C ccd rcp (with_cache st []) (AuthPassword u q ev'))).
Proof. intros C OK ccd rcp capacity ops u q ev ev' st. apply cache_transparent; [exact OK | apply Inv_reach]. Qed.
Print Assumptions C12_cache_transparent.

(* ---- sessions ---- *)

(* a presented session id yields a user only if its document is there and unexpired, was issued by
   CreateSession for exactly that user, the user exists and the session carries the user's CURRENT credential
   epoch; and, when the session paths test Disabled() (ccd = true, the repaired code), the user is enabled.
   For ccd = false (the code before the repair) the last clause is the explicit exception: see
   C12_Refuted.disabled_user_authenticates_with_cookie_refuted. *)
Theorem C12_session_auth_sound : forall C ccd rcp capacity ops sid o w,
  let st := reach C ccd rcp capacity ops in
  presents o sid -> authed (snd (step_gen C ccd rcp st o)) = Some w ->
  exists s usr, alookup sid (sessions st) = Some s /\ now st < s_expires s /\ s_user s = w /\
    In (CreateSession w sid (s_ttl s) (s_onetime s)) ops /\
    alookup w (users st) = Some usr /\ s_uuid s = u_uuid usr /\
    (ccd = true -> authenticates o sid -> u_disabled usr = false).
Proof.
  intros C ccd rcp capacity ops sid o w st P H.
  destruct (session_auth_sound C ccd rcp st sid o w (SInv_reach C ccd rcp capacity ops) P H) as [s [usr [Es [Hl [Hu [Eu [Euu Hd]]]]]]].
  exists s, usr. repeat split; auto.
  subst w. exact (session_provenance C ccd rcp capacity ops sid s Es).
Qed.
Print Assumptions C12_session_auth_sound.

(* the model of the tree as it is: disabled users authenticate neither with the password nor with a session *)
Theorem C12_disabled_user_never_authenticates : forall C, crypto_ok C -> forall capacity ops o w,
  let st := run C (init C capacity) ops in
  (exists u q, password_login o u q) \/ (exists sid, authenticates o sid) ->
  authed (snd (step C st o)) = Some w ->
  exists usr, alookup w (users st) = Some usr /\ u_disabled usr = false.
Proof.
  intros C OK capacity ops o w st [[u [q PL]]|[sid A]] H.
  - destruct (password_auth_sound C OK _ _ _ _ _ _ _ (Inv_reach C _ _ capacity ops) PL H) as [-> [usr [Eu [Ed _]]]]. eauto.
  - assert (P : presents o sid) by (destruct A as [->| ->]; unfold presents; auto).
    destruct (session_auth_sound0 C _ _ _ _ _ _ P H) as [s [usr [_ [_ [_ [Eu [_ Hd]]]]]]].
    exists usr. split; [exact Eu | exact (Hd eq_refl A)].
Qed.
Print Assumptions C12_disabled_user_never_authenticates.

(* (the session theorems need nothing about bcrypt / SHA-1)
   a session id that is [dead] never yields a user again, whatever happens afterwards, provided the id is
   not issued a second time (session ids are 160 random bits: base.GenerateRandomSecret) *)
Theorem C12_dead_session_stays_dead : forall C ccd rcp capacity ops0 sid,
  let st := reach C ccd rcp capacity ops0 in
  dead C st sid ->
  forall ops o, no_recreate sid ops -> presents o sid ->
    authed (snd (step_gen C ccd rcp (run_gen C ccd rcp st ops) o)) = None.
Proof. intros C ccd rcp capacity ops0 sid st D. apply killed_forever; [apply Inv_reach | exact D]. Qed.
Print Assumptions C12_dead_session_stays_dead.

(* what makes a session dead.  (1) sessions issued before a password change, or before "delete all sessions" *)
Theorem C12_password_change_kills_sessions : forall C ccd rcp capacity ops0 sid s o,
  let st := reach C ccd rcp capacity ops0 in
  alookup sid (sessions st) = Some s ->
  (exists p salt c, o = SetPassword (s_user s) p salt c) \/ o = InvalidateSessions (s_user s) ->
  snd (step_gen C ccd rcp st o) = ODone ->
  forall ops o', no_recreate sid ops -> presents o' sid ->
    authed (snd (step_gen C ccd rcp (run_gen C ccd rcp (fst (step_gen C ccd rcp st o)) ops) o')) = None.
Proof.
  intros C ccd rcp capacity ops0 sid s o st Es Ho Hd.
  apply killed_forever; [apply Inv_step, Inv_reach |].
  apply (epoch_change_kills C ccd rcp st sid s o); auto. apply Inv_reach.
Qed.
Print Assumptions C12_password_change_kills_sessions.

(* (2) sessions of a deleted user -- also after a user of the same name has been created again *)
Theorem C12_recreated_user_old_session_dead : forall C ccd rcp capacity ops0 sid s,
  let st := reach C ccd rcp capacity ops0 in
  alookup sid (sessions st) = Some s ->
  snd (step_gen C ccd rcp st (DeleteUser (s_user s))) = ODone ->
  forall ops o', no_recreate sid ops -> presents o' sid ->
    authed (snd (step_gen C ccd rcp (run_gen C ccd rcp (fst (step_gen C ccd rcp st (DeleteUser (s_user s)))) ops) o')) = None.
Proof.
  intros C ccd rcp capacity ops0 sid s st Es Hd.
  apply killed_forever; [apply Inv_step, Inv_reach |].
  apply delete_user_kills; assumption.
Qed.
Print Assumptions C12_recreated_user_old_session_dead.

(* (3) deleted sessions *)
Theorem C12_deleted_session_dead : forall C ccd rcp capacity ops0 sid,
  let st := reach C ccd rcp capacity ops0 in
  forall ops o', no_recreate sid ops -> presents o' sid ->
    authed (snd (step_gen C ccd rcp (run_gen C ccd rcp (fst (step_gen C ccd rcp st (DeleteSession sid))) ops) o')) = None.
Proof.
  intros C ccd rcp capacity ops0 sid st.
  apply killed_forever; [apply Inv_step, Inv_reach | apply delete_session_kills].
Qed.
Print Assumptions C12_deleted_session_dead.

(* (4) expired sessions: once the clock has reached the expiry of the document *)
Theorem C12_expired_session_dead : forall C ccd rcp capacity ops0 sid s dt,
  let st := reach C ccd rcp capacity ops0 in
  alookup sid (sessions st) = Some s -> s_expires s <= now st + dt ->
  forall ops o', no_recreate sid ops -> presents o' sid ->
    authed (snd (step_gen C ccd rcp (run_gen C ccd rcp (fst (step_gen C ccd rcp st (Advance dt))) ops) o')) = None.
Proof.
  intros C ccd rcp capacity ops0 sid s dt st Es Hle.
  apply killed_forever; [apply Inv_step, Inv_reach |].
  apply (expiry_kills C ccd rcp st sid s dt); [apply SInv_reach | assumption | assumption].
Qed.
Print Assumptions C12_expired_session_dead.

(* why (4) holds although AuthenticateCookie never compares LoginSession.Expiration with the clock: in every
   reachable state every stored session document -- written by CreateSession or by the refresh of AuthenticateCookie
   (more than 10% of the TTL elapsed) -- carries a bucket expiry, equal to its Expiration; so once the clock has
   reached the Expiration the store no longer returns the document, whatever the clock reads.  (A session document
   written WITHOUT an expiry would be returned for ever: C12_Refuted.session_without_bucket_expiry_never_expires.) *)
Theorem C12_session_documents_carry_expiry : forall C ccd rcp capacity ops sid s,
  let st := reach C ccd rcp capacity ops in
  alookup sid (sessions st) = Some s ->
  s_docexp s = s_expires s /\ s_docexp s <> 0 /\
  forall t, s_expires s <= t -> get_session C (with_now st t) sid = None.
Proof.
  intros C ccd rcp capacity ops sid s st Es.
  destruct (SInv_reach C ccd rcp capacity ops sid s Es) as [E1 [E2 _]].
  split; [exact E1|]. split; [exact E2|].
  intros t Ht. apply (stored_session_expires C st sid s t); [apply SInv_reach | exact Es | exact Ht].
Qed.
Print Assumptions C12_session_documents_carry_expiry.

(* (5) a one-time session that has authenticated once never authenticates again (sequentially) *)
Theorem C12_one_time_at_most_once : forall C ccd rcp capacity ops0 sid s o w,
  let st := reach C ccd rcp capacity ops0 in
  alookup sid (sessions st) = Some s -> s_onetime s = true ->
  authenticates o sid -> authed (snd (step_gen C ccd rcp st o)) = Some w ->
  forall ops o', no_recreate sid ops -> presents o' sid ->
    authed (snd (step_gen C ccd rcp (run_gen C ccd rcp (fst (step_gen C ccd rcp st o)) ops) o')) = None.
Proof.
  intros C ccd rcp capacity ops0 sid s o w st Es Hot A H.
  apply killed_forever; [apply Inv_step, Inv_reach |].
  apply absent_dead. exact (one_time_consumed C ccd rcp st sid s o w Es Hot A H).
Qed.
Print Assumptions C12_one_time_at_most_once.

(* ... and concurrently: n presentations of the same one-time session, their storage operations
   (get session; check user; delete) interleaved in any order together with outside deletions, the user
   check answering anything: at most one presentation wins.  Rests on: a presentation never re-writes a
   one-time session (first theorem below, about the sequential model that is tied to the code) and Delete of
   an absent document reports not-found (Couchbase Server semantics). *)
Theorem C12_one_time_never_rewritten : forall C (st : state C) s,
  s_onetime s = true -> wants_refresh C st s = false.
Proof. exact one_time_never_refreshed. Qed.
Print Assumptions C12_one_time_never_rewritten.

Theorem C12_one_time_at_most_once_concurrent : forall n (schedule : list event),
  (wins (pcs (erun false true (start n) schedule)) <= 1)%nat.
Proof. exact one_time_concurrent. Qed.
Print Assumptions C12_one_time_at_most_once_concurrent.

(* ---- the REST layer (Rest.v: rest/handler.go checkPublicAuth, rest/session_api.go) ---- *)

(* a REST history: admin requests that create / change / disable / delete users and the guest, create and delete
   sessions, logins, logouts and authenticated requests, from the empty database *)
Definition rreach (C : crypto) (ccd rcp : bool) (capacity : N) (rops : list rop) : rstate C :=
  rrun C ccd rcp (rinit C capacity) rops.

(* checkPublicAuth, in ANY state: a request is served as user w only if the core model's AuthPassword accepts w for
   the Basic credentials presented (non-empty user name), or -- no usable Basic credentials -- its AuthCookie
   accepts w for the session cookie presented; it is served as the guest only without usable Basic credentials
   and, on a handler that requires authentication (public = false), only if no cookie was presented either and
   the guest user is enabled.  (A publicPrivs handler -- GET/POST /_session -- falls back to the guest whatever
   the cookie; a Bearer header counts for nothing: no OIDC provider is configured.) *)
Theorem C12_rest_auth_sound : forall C ccd rcp (rs : rstate C) public cr,
  match decide_outcome C ccd rcp rs public cr with
  | Served (Some w) =>
      (exists u p, cr_basic cr = Some (u, p) /\ u <> 0 /\
         authed (snd (step_gen C ccd rcp (core rs) (AuthPassword u p None))) = Some w) \/
      (basic_user cr = None /\ exists sid, cr_cookie cr = Some sid /\
         authed (snd (step_gen C ccd rcp (core rs) (AuthCookie sid))) = Some w)
  | Served None =>
      basic_user cr = None /\ (public = true \/ (cr_cookie cr = None /\ guest_on rs = true))
  | Denied _ => True
  end.
Proof. exact rest_auth_sound. Qed.
Print Assumptions C12_rest_auth_sound.

(* end to end, after ANY REST history: a request served as w means that w exists and either the Basic password is
   verified by w's stored hash (for plain passwords: it IS the password last set) and w is enabled, or the cookie
   names an unexpired session document issued for w that carries w's current credential epoch (and, with the
   repaired session paths, w is enabled) *)
Theorem C12_rest_served_user_sound : forall C, crypto_ok C -> forall ccd rcp capacity rops public cr w,
  let rs := rreach C ccd rcp capacity rops in
  decide_outcome C ccd rcp rs public cr = Served (Some w) ->
  exists usr, alookup w (users (core rs)) = Some usr /\
    ((exists u p, cr_basic cr = Some (u, p) /\ u <> 0 /\ w = u /\ u_disabled usr = false /\
        match u_hash usr with Some h => verify C h p = true | None => p = 0 end /\
        (plain C p = true -> plain C (u_pw usr) = true -> p = u_pw usr)) \/
     (basic_user cr = None /\ exists sid s, cr_cookie cr = Some sid /\
        alookup sid (sessions (core rs)) = Some s /\ now (core rs) < s_expires s /\ s_user s = w /\
        s_uuid s = u_uuid usr /\ (ccd = true -> u_disabled usr = false))).
Proof.
  intros C OK ccd rcp capacity rops public cr w rs H.
  destruct (rest_served_user_sound C OK ccd rcp rs public cr w (rInv_reach C ccd rcp capacity rops) (rSInv_reach C ccd rcp capacity rops) H)
    as [usr [Eu [[u [p [Eb [Hu [-> [Ed [Hv Hk]]]]]]]|R]]].
  - exists usr. split; [exact Eu|]. left. exists u, p. repeat split; auto.
    intros Pq Pp. apply (bkey_plain C OK); auto.
  - exists usr. split; [exact Eu|]. right. exact R.
Qed.
Print Assumptions C12_rest_served_user_sound.

(* rest/session_api.go: after DELETE /_user/{name}/_session (all sessions of the user), after a password change
   through PUT /_user/{name} that answered 200, after DELETE /_user/{name} and after DELETE /_session/{id}, no
   request presenting that session cookie is ever served as a user again -- whatever REST requests follow, as long
   as the id is not issued a second time *)
Theorem C12_rest_invalidated_session_never_serves : forall C ccd rcp capacity rops0 sid s o,
  let rs := rreach C ccd rcp capacity rops0 in
  alookup sid (sessions (core rs)) = Some s ->
  rkills C ccd rcp rs sid s o ->
  forall rops public cr w, Forall (rnot_create sid) rops -> basic_user cr = None -> cr_cookie cr = Some sid ->
    decide_outcome C ccd rcp (rrun C ccd rcp (fst (rstep C ccd rcp rs o)) rops) public cr <> Served (Some w).
Proof.
  intros C ccd rcp capacity rops0 sid s o rs Es K rops public cr w F Eb Ec.
  assert (I : Inv C (core rs)) by apply rInv_reach.
  apply (rest_dead_session_never_serves C ccd rcp _ sid); auto.
  - apply rInv_step; assumption.
  - apply (rest_kill C ccd rcp rs sid s o); assumption.
Qed.
Print Assumptions C12_rest_invalidated_session_never_serves.

(* ---- the SessionUUID: what binds a session to the INCARNATION of the user it was issued to (Epoch.v) ---- *)

(* in every reachable state every user has a NON-EMPTY SessionUUID (0 = "", the zero value of a fresh userImpl), also
   users without a password hash (allow_empty_password) -- whatever path created or last updated the principal *)
Theorem C12_session_uuid_never_empty : forall C ccd rcp capacity ops u usr,
  alookup u (users (reach C ccd rcp capacity ops)) = Some usr -> u_uuid usr <> 0.
Proof.
  exact uuid_never_empty.
Qed.
Print Assumptions C12_session_uuid_never_empty.

(* every operation that creates a principal or changes its credentials -- CreateUser (also of a name that existed
   before), SetPassword (with or without a password, with or without a hash stored before), delete-all-sessions --
   gives the user a SessionUUID that is not empty and differs from the SessionUUID of EVERY user and EVERY session
   document of EVERY earlier state of the history (ops0 = the history up to any earlier point, ops = what happened
   since): no incarnation ever carries the SessionUUID of an earlier one, in particular not its empty value *)
Theorem C12_session_uuid_fresh_per_incarnation : forall C ccd rcp capacity ops0 ops o u,
  let st0 := reach C ccd rcp capacity ops0 in
  let st := run_gen C ccd rcp st0 ops in
  rotates o u -> snd (step_gen C ccd rcp st o) = ODone ->
  let st' := fst (step_gen C ccd rcp st o) in
  exists usr', alookup u (users st') = Some usr' /\ u_uuid usr' <> 0 /\
    (forall v usr, alookup v (users st0) = Some usr -> u_uuid usr <> u_uuid usr') /\
    (forall sid s, alookup sid (sessions st0) = Some s -> s_uuid s <> u_uuid usr') /\
    (forall v usr, alookup v (users st) = Some usr -> u_uuid usr <> u_uuid usr') /\
    (forall sid s, alookup sid (sessions st') = Some s -> s_uuid s <> u_uuid usr').
Proof.
  intros C ccd rcp capacity ops0 ops o u st0 st R H st'.
  exact (rotation_fresh C ccd rcp st0 ops o u (Inv_reach C ccd rcp capacity ops0) (EInv_reach C ccd rcp capacity ops0) R H).
Qed.
Print Assumptions C12_session_uuid_fresh_per_incarnation.

(* a presented session (cookie, one-time token, GetSession) yields a user only if the SessionUUID it carries is the
   non-empty SessionUUID the user has NOW: together with the theorem above, only a session issued to the present
   incarnation and credential epoch of the user *)
Theorem C12_session_authenticates_issuing_incarnation : forall C ccd rcp capacity ops sid o w,
  let st := reach C ccd rcp capacity ops in
  presents o sid -> authed (snd (step_gen C ccd rcp st o)) = Some w ->
  exists s usr, alookup sid (sessions st) = Some s /\ alookup w (users st) = Some usr /\
    s_uuid s = u_uuid usr /\ s_uuid s <> 0.
Proof.
  intros C ccd rcp capacity ops sid o w st P H.
  exact (session_auth_epoch C ccd rcp st sid o w (EInv_reach C ccd rcp capacity ops) P H).
Qed.
Print Assumptions C12_session_authenticates_issuing_incarnation.

(* non-vacuity: a passwordless user, its session, delete + re-create without a password, SetPassword "" on a user
   without a hash: three distinct non-empty SessionUUIDs, and the old session is refused *)
Example C12_epoch_nonvacuous :
  let ops := [CreateUser 1 0 1 4; CreateSession 1 1 1000 false; AuthCookie 1; DeleteUser 1; CreateUser 1 0 2 4;
              AuthCookie 1; SetPassword 1 0 3 4; SetDisabled 1 true] in
  outs XC (init XC 10) ops
  = [ODone; ODone; OCookie (Some 1) false; ODone; ODone; OCookie None false; ODone; ODone] /\
  intern (epochs XC (init XC 10) ops [1; 1; 1; 1; 1; 1; 1; 1])
  = [Some 1; Some 1; Some 1; None; Some 2; Some 2; Some 3; Some 3].
Proof. vm_compute. split; reflexivity. Qed.

(* non-vacuity: the hypotheses on the external functions are satisfiable (by the instance the correspondence
   evaluates with), and a concrete history authenticates with the password, with a cookie, once with a
   one-time session, and is refused with the wrong password and on the second one-time presentation *)
Example C12_nonvacuous :
  crypto_ok XC /\
  outs XC (init XC 10)
       [CreateUser 1 1 1 4; CreateSession 1 1 1000 false; CreateSession 1 2 1000 true;
        AuthPassword 1 1 None; AuthPassword 1 5 None; AuthCookie 1; AuthCookie 2; AuthCookie 2;
        LoginRehash 7 1 1 None 5; SetPassword 1 5 2 5; RehashSave 7 3 None; RehashSave 7 4 None;
        AuthCookie 1; AuthPassword 1 1 None; AuthPassword 1 5 None;
        CreateUser 2 1 5 4; LoginRehash 8 2 1 None 5; RehashSave 8 6 None; AuthPassword 2 1 None]
  = [ODone; ODone; ODone; OPass (Some 1) 1; OPass None 1; OCookie (Some 1) false; OCookie (Some 1) false;
     OCookie None false;
     OPass (Some 1) 1; ODone; ORehash false; ORehash false;
     OCookie None false; OPass None 1; OPass (Some 1) 2;
     ODone; OPass (Some 2) 3; ORehash true; OPass (Some 2) 4].
Proof. split; [exact XC_ok | vm_compute; reflexivity]. Qed.

(* ... and a REST history: guest disabled / enabled, Basic auth right and wrong, a cookie from a login, the cookie
   after "delete all sessions", an unknown cookie on a public and on a regular handler *)
Example C12_rest_nonvacuous :
  rest_outs XC (rinit XC 10)
       [RPutUser 1 1 1; RRequest false (mkCreds None None false); RSetGuest true;
        RRequest false (mkCreds None None false); RRequest false (mkCreds (Some (1, 1)) None false);
        RRequest false (mkCreds (Some (1, 5)) None false); RLogin 1 1 1 false;
        RRequest false (mkCreds None (Some 1) false); RDeleteAllSessions 1;
        RRequest false (mkCreds None (Some 1) false); RRequest true (mkCreds None (Some 1) false);
        RRequest false (mkCreds None (Some 9) false); RSetGuest false; RRequest false (mkCreds None None true)]
  = [RCode 201; RAuth (Denied LoginRequired); RCode 200;
     RAuth (Served None); RAuth (Served (Some 1));
     RAuth (Denied InvalidLogin); RCode 200;
     RAuth (Served (Some 1)); RCode 200;
     RAuth (Denied SessionStale); RAuth (Served None);
     RAuth (Denied SessionInvalid); RCode 200; RAuth (Denied InvalidLogin)].
Proof. vm_compute. reflexivity. Qed.

(* A session that CreateSession reported as created is kept by the bucket exactly until the Expiration it carries,
   for EVERY time-to-live (>= 1 s) -- in particular on both sides of the 30-day boundary where the bucket's expiry
   field switches from "seconds from now" to an absolute time (base.DurationToCbsExpiry) -- and every clock.
   Tied to the code by the monitor session_stored_until_expiry (bucket expiry read back from the store). *)
Theorem C12_session_stored_until_expiry : forall now ttl t,
  1 <= ttl -> max_delta < now ->
  stored_at (bucket_deadline now (cbs_expiry now ttl)) t = (t <? now + ttl).
Proof. exact stored_until_expiration. Qed.
Print Assumptions C12_session_stored_until_expiry.

Example C12_session_expiry_nonvacuous :
  stored_at (bucket_deadline 1700000000 (cbs_expiry 1700000000 2678400)) 1700000001 = true /\
  stored_at (bucket_deadline 1700000000 (cbs_expiry 1700000000 3600)) 1700003600 = false.
Proof. vm_compute. split; reflexivity. Qed.
