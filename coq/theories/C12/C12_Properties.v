(* C12 -- Only valid credentials and live sessions authenticate.
   Nothing but the property theorems.  [C : crypto] are the external functions (bcrypt, SHA-1, the 72-byte
   limit) and [crypto_ok C] the three facts assumed about them (AuthNProofs.crypto_ok); the instance the
   correspondence evaluates with satisfies them (C12_nonvacuous).  [step C] / [run C] are the model of the
   code as it is in the tree ([AuthN.cookie_checks_disabled] = true: the repaired session paths);
   [step_gen C ccd] has the Disabled() test of the session paths as a parameter.
   A history is any list of operations from the empty database: [reach C ccd cap ops]. *)
From SG Require Import Base.Prelude C12.AuthN C12.Instance C12.AuthNProofs C12.OneTime.
Open Scope N_scope.

Definition reach (C : crypto) (ccd : bool) (capacity : N) (ops : list op) : state C :=
  run_gen C ccd (init C capacity) ops.

(* histories around a change of the configured bcrypt cost: first anything without re-hashing logins (hashes of
   any cost), then anything in which every node hashes with cost c -- passwords set, and the cost that
   re-hashing logins (LoginRehash ... c, then their RehashSave attempts, scheduled freely) ask for *)
Definition reach2 (C : crypto) (ccd : bool) (capacity : N) (ops0 : list op) (c : N) (ops1 : list op) : state C :=
  run_gen C ccd (run_gen C ccd (init C capacity) ops0) ops1.

(* ---- passwords ---- *)

(* AuthenticateUser (with or without the re-hash) succeeds only for an existing, enabled user and a password the
   stored hash verifies, i.e. one bcrypt cannot tell from the password last written for the user; among plain
   passwords (at most 72 bytes, no NUL byte) that is the user's current password itself *)
Theorem C12_password_auth_sound : forall C, crypto_ok C -> forall ccd capacity ops o u q w,
  let st := reach C ccd capacity ops in
  password_login o u q -> authed (snd (step_gen C ccd st o)) = Some w ->
  w = u /\ exists usr, alookup u (users st) = Some usr /\ u_disabled usr = false /\
    match u_hash usr with Some h => verify C h q = true | None => q = 0 end /\
    bkey C q = bkey C (u_pw usr) /\
    (plain C q = true -> plain C (u_pw usr) = true -> q = u_pw usr).
Proof.
  intros C OK ccd capacity ops o u q w st PL H.
  destruct (password_auth_sound C OK ccd st o u q w (Inv_reach C ccd capacity ops) PL H) as [E [usr [Eu [Ed [Hv Hk]]]]].
  split; [exact E|]. exists usr. repeat split; auto.
  intros Pq Pp. apply (bkey_plain C OK); auto.
Qed.
Print Assumptions C12_password_auth_sound.

(* wrong and empty passwords: once p has been set for u, and until somebody sets u's password again, every
   other string is refused (p and the attempt plain; in particular "" = 0 when p is not empty), whatever else
   happens in between: disable/enable, delete, sessions, cache evictions, other users, and re-hashing logins
   whose Save attempts are interleaved with all of that *)
Theorem C12_wrong_password_rejected : forall C, crypto_ok C -> forall ccd capacity ops0 c ops1 u p salt o,
  Forall no_login_rehash ops0 -> Forall (uniform c) ops1 ->
  let st := reach2 C ccd capacity ops0 c ops1 in
  o = CreateUser u p salt c \/ o = SetPassword u p salt c ->
  snd (step_gen C ccd st o) = ODone ->
  forall ops, Forall (fun o' => uniform c o' /\ ~ sets_password u o') ops ->
  plain C p = true ->
  forall o' q, password_login o' u q -> q <> p -> plain C q = true ->
    authed (snd (step_gen C ccd (run_gen C ccd (fst (step_gen C ccd st o)) ops) o')) = None.
Proof.
  intros C OK ccd capacity ops0 c ops1 u p salt o F0 F1 st. apply set_then_wrong_password_rejected.
  - exact OK.
  - apply Inv_run, Inv_reach.
  - apply Good_reach; assumption.
Qed.
Print Assumptions C12_wrong_password_rejected.

(* re-hashing at login (rehashPassword): a Save attempt of an in-flight re-hash -- whatever was scheduled between
   the login's read and this attempt: password changes, disabling, deletion and re-creation, other logins --
   never makes the stored credential accept a string it refused before, never touches the disabled flag and
   never creates or deletes a user; and unless the password presented was the empty string it leaves the set of
   accepted strings exactly as it was.  In particular a superseded password is never written back.
   (Hypothesis: one configured cost c; with two different costs in use at once it fails, see C12_Refuted.) *)
Theorem C12_rehash_preserves_credentials : forall C, crypto_ok C -> forall ccd capacity ops0 c ops1 a salt,
  Forall no_login_rehash ops0 -> Forall (uniform c) ops1 ->
  let st := reach2 C ccd capacity ops0 c ops1 in
  let st' := fst (step_gen C ccd st (RehashSave a salt)) in
  forall u,
    (forall x, creds C st' u x = true -> creds C st u x = true) /\
    option_map u_disabled (alookup u (users st')) = option_map u_disabled (alookup u (users st)) /\
    ((forall pd, alookup a (pending st) = Some pd -> p_pw pd <> 0) -> forall x, creds C st' u x = creds C st u x).
Proof.
  intros C OK ccd capacity ops0 c ops1 a salt F0 F1 st st' u.
  assert (I : Inv C st) by apply Inv_run, Inv_reach.
  assert (G : Good C c st) by (apply Good_reach; assumption).
  destruct (rehash_never_widens C OK ccd c st a salt I G u) as [W D].
  split; [exact W|]. split; [exact D|].
  intros NE x. apply (rehash_preserves C OK ccd c st a salt I G NE).
Qed.
Print Assumptions C12_rehash_preserves_credentials.

(* the fast path never accepts a password the full check would reject: in every reachable state every
   cached pair (sha1 q, h) satisfies the full bcrypt check of q against h ... *)
Theorem C12_cache_never_widens : forall C, crypto_ok C -> forall ccd capacity ops d h q,
  In (d, h) (cache (reach C ccd capacity ops)) -> digest C q = d -> verify C h q = true.
Proof. intros C OK ccd capacity ops d h q. apply cache_never_widens; [exact OK | apply Inv_reach]. Qed.
Print Assumptions C12_cache_never_widens.

(* ... hence AuthenticateUser decides exactly as it would with an empty cache *)
Theorem C12_cache_transparent : forall C, crypto_ok C -> forall ccd capacity ops u q ev ev',
  let st := reach C ccd capacity ops in
  authed (snd (step_gen C ccd st (AuthPassword u q ev))) =
  authed (snd (step_gen C ccd (with_cache st []) (AuthPassword u q ev'))).
Proof. intros C OK ccd capacity ops u q ev ev' st. apply cache_transparent; [exact OK | apply Inv_reach]. Qed.
Print Assumptions C12_cache_transparent.

(* ---- sessions ---- *)

(* a presented session id yields a user only if its document is there and unexpired, was issued by
   CreateSession for exactly that user, the user exists and the session carries the user's CURRENT credential
   epoch; and, when the session paths test Disabled() (ccd = true, the repaired code), the user is enabled.
   For ccd = false (the code before the repair) the last clause is the explicit exception: see
   C12_Refuted.disabled_user_authenticates_with_cookie_refuted. *)
Theorem C12_session_auth_sound : forall C ccd capacity ops sid o w,
  let st := reach C ccd capacity ops in
  presents o sid -> authed (snd (step_gen C ccd st o)) = Some w ->
  exists s usr, alookup sid (sessions st) = Some s /\ now st < s_expires s /\ s_user s = w /\
    In (CreateSession w sid (s_ttl s) (s_onetime s)) ops /\
    alookup w (users st) = Some usr /\ s_uuid s = u_uuid usr /\
    (ccd = true -> authenticates o sid -> u_disabled usr = false).
Proof.
  intros C ccd capacity ops sid o w st P H.
  destruct (session_auth_sound C ccd st sid o w P H) as [s [usr [Es [Hl [Hu [Eu [Euu Hd]]]]]]].
  exists s, usr. repeat split; auto.
  subst w. exact (session_provenance C ccd capacity ops sid s Es).
Qed.
Print Assumptions C12_session_auth_sound.

(* the model of the tree as it is: disabled users authenticate neither with the password nor with a session *)
Theorem C12_disabled_user_never_authenticates : forall C, crypto_ok C -> forall capacity ops o w,
  let st := run C (init C capacity) ops in
  (exists u q, password_login o u q) \/ (exists sid, authenticates o sid) ->
  authed (snd (step C st o)) = Some w ->
  exists usr, alookup w (users st) = Some usr /\ u_disabled usr = false.
Proof.
  intros C OK capacity ops o w st [[u [q PL]]|[sid A]] H.
  - destruct (password_auth_sound C OK _ _ _ _ _ _ (Inv_reach C _ capacity ops) PL H) as [-> [usr [Eu [Ed _]]]]. eauto.
  - assert (P : presents o sid) by (destruct A as [->| ->]; unfold presents; auto).
    destruct (session_auth_sound C _ _ _ _ _ P H) as [s [usr [_ [_ [_ [Eu [_ Hd]]]]]]].
    exists usr. split; [exact Eu | exact (Hd eq_refl A)].
Qed.
Print Assumptions C12_disabled_user_never_authenticates.

(* (the session theorems need nothing about bcrypt / SHA-1)
   a session id that is [dead] never yields a user again, whatever happens afterwards, provided the id is
   not issued a second time (session ids are 160 random bits: base.GenerateRandomSecret) *)
Theorem C12_dead_session_stays_dead : forall C ccd capacity ops0 sid,
  let st := reach C ccd capacity ops0 in
  dead C st sid ->
  forall ops o, no_recreate sid ops -> presents o sid ->
    authed (snd (step_gen C ccd (run_gen C ccd st ops) o)) = None.
Proof. intros C ccd capacity ops0 sid st D. apply killed_forever; [apply Inv_reach | exact D]. Qed.
Print Assumptions C12_dead_session_stays_dead.

(* what makes a session dead.  (1) sessions issued before a password change, or before "delete all sessions" *)
Theorem C12_password_change_kills_sessions : forall C ccd capacity ops0 sid s o,
  let st := reach C ccd capacity ops0 in
  alookup sid (sessions st) = Some s ->
  (exists p salt c, o = SetPassword (s_user s) p salt c) \/ o = InvalidateSessions (s_user s) ->
  snd (step_gen C ccd st o) = ODone ->
  forall ops o', no_recreate sid ops -> presents o' sid ->
    authed (snd (step_gen C ccd (run_gen C ccd (fst (step_gen C ccd st o)) ops) o')) = None.
Proof.
  intros C ccd capacity ops0 sid s o st Es Ho Hd.
  apply killed_forever; [apply Inv_step, Inv_reach |].
  apply (epoch_change_kills C ccd st sid s o); auto. apply Inv_reach.
Qed.
Print Assumptions C12_password_change_kills_sessions.

(* (2) sessions of a deleted user -- also after a user of the same name has been created again *)
Theorem C12_recreated_user_old_session_dead : forall C ccd capacity ops0 sid s,
  let st := reach C ccd capacity ops0 in
  alookup sid (sessions st) = Some s ->
  snd (step_gen C ccd st (DeleteUser (s_user s))) = ODone ->
  forall ops o', no_recreate sid ops -> presents o' sid ->
    authed (snd (step_gen C ccd (run_gen C ccd (fst (step_gen C ccd st (DeleteUser (s_user s)))) ops) o')) = None.
Proof.
  intros C ccd capacity ops0 sid s st Es Hd.
  apply killed_forever; [apply Inv_step, Inv_reach |].
  apply delete_user_kills; assumption.
Qed.
Print Assumptions C12_recreated_user_old_session_dead.

(* (3) deleted sessions *)
Theorem C12_deleted_session_dead : forall C ccd capacity ops0 sid,
  let st := reach C ccd capacity ops0 in
  forall ops o', no_recreate sid ops -> presents o' sid ->
    authed (snd (step_gen C ccd (run_gen C ccd (fst (step_gen C ccd st (DeleteSession sid))) ops) o')) = None.
Proof.
  intros C ccd capacity ops0 sid st.
  apply killed_forever; [apply Inv_step, Inv_reach | apply delete_session_kills].
Qed.
Print Assumptions C12_deleted_session_dead.

(* (4) expired sessions: once the clock has reached the expiry of the document *)
Theorem C12_expired_session_dead : forall C ccd capacity ops0 sid s dt,
  let st := reach C ccd capacity ops0 in
  alookup sid (sessions st) = Some s -> s_expires s <= now st + dt ->
  forall ops o', no_recreate sid ops -> presents o' sid ->
    authed (snd (step_gen C ccd (run_gen C ccd (fst (step_gen C ccd st (Advance dt))) ops) o')) = None.
Proof.
  intros C ccd capacity ops0 sid s dt st Es Hle.
  apply killed_forever; [apply Inv_step, Inv_reach |].
  apply (expiry_kills C ccd st sid s dt); assumption.
Qed.
Print Assumptions C12_expired_session_dead.

(* (5) a one-time session that has authenticated once never authenticates again (sequentially) *)
Theorem C12_one_time_at_most_once : forall C ccd capacity ops0 sid s o w,
  let st := reach C ccd capacity ops0 in
  alookup sid (sessions st) = Some s -> s_onetime s = true ->
  authenticates o sid -> authed (snd (step_gen C ccd st o)) = Some w ->
  forall ops o', no_recreate sid ops -> presents o' sid ->
    authed (snd (step_gen C ccd (run_gen C ccd (fst (step_gen C ccd st o)) ops) o')) = None.
Proof.
  intros C ccd capacity ops0 sid s o w st Es Hot A H.
  apply killed_forever; [apply Inv_step, Inv_reach |].
  apply absent_dead. exact (one_time_consumed C ccd st sid s o w Es Hot A H).
Qed.
Print Assumptions C12_one_time_at_most_once.

(* ... and concurrently: n presentations of the same one-time session, their storage operations
   (get session; check user; delete) interleaved in any order together with outside deletions, the user
   check answering anything: at most one presentation wins.  Rests on: a presentation never re-writes a
   one-time session (first theorem below, about the sequential model that is tied to the code) and Delete of
   an absent document reports not-found (Couchbase Server semantics). *)
Theorem C12_one_time_never_rewritten : forall C (st : state C) s,
  s_onetime s = true -> wants_refresh C st s = false.
Proof. exact one_time_never_refreshed. Qed.
Print Assumptions C12_one_time_never_rewritten.

Theorem C12_one_time_at_most_once_concurrent : forall n (schedule : list event),
  (wins (pcs (erun false true (start n) schedule)) <= 1)%nat.
Proof. exact one_time_concurrent. Qed.
Print Assumptions C12_one_time_at_most_once_concurrent.

(* non-vacuity: the hypotheses on the external functions are satisfiable (by the instance the correspondence
   evaluates with), and a concrete history authenticates with the password, with a cookie, once with a
   one-time session, and is refused with the wrong password and on the second one-time presentation *)
Example C12_nonvacuous :
  crypto_ok XC /\
  outs XC (init XC 10)
       [CreateUser 1 1 1 4; CreateSession 1 1 1000 false; CreateSession 1 2 1000 true;
        AuthPassword 1 1 None; AuthPassword 1 5 None; AuthCookie 1; AuthCookie 2; AuthCookie 2;
        LoginRehash 7 1 1 None 5; SetPassword 1 5 2 5; RehashSave 7 3; RehashSave 7 4;
        AuthCookie 1; AuthPassword 1 1 None; AuthPassword 1 5 None;
        CreateUser 2 1 5 4; LoginRehash 8 2 1 None 5; RehashSave 8 6; AuthPassword 2 1 None]
  = [ODone; ODone; ODone; OPass (Some 1) 1; OPass None 1; OCookie (Some 1) false; OCookie (Some 1) false;
     OCookie None false;
     OPass (Some 1) 1; ODone; ORehash false; ORehash false;
     OCookie None false; OPass None 1; OPass (Some 1) 2;
     ODone; OPass (Some 2) 3; ORehash true; OPass (Some 2) 4].
Proof. split; [exact XC_ok | vm_compute; reflexivity]. Qed.
