(* C12 -- concurrent presentations of ONE one-time session (auth/session.go AuthenticateCookie /
   AuthenticateOneTimeSession / deleteOneTimeSession).

   A presentation is not atomic: it is the sequence of storage operations
       Get session document ; [refresh = Set session document] ; Get user + checks ; Delete session document
   and any number of presentations (plus deletions by an administrator or by the store's TTL) may be
   interleaved arbitrarily.  The shared state is one bit: is the session document present.  The user check is
   an adversarial boolean of the schedule (whatever the user document says at that moment).

   Parameters of the step function (both fixed by the code / the store, kept as parameters to show what the
   guarantee rests on -- see C12_Refuted.v):
     refreshes : does a presentation re-write (Set) a one-time session it has read?  The code: never
                 (AuthN.one_time_never_refreshed).
     strict    : does Delete of an absent document report "not found"?  Couchbase Server: yes. *)
From SG Require Import Base.Prelude.

Inductive pc := PStart | PGot | PChecked | PWin | PLose.

Definition is_win (p : pc) : bool := match p with PWin => true | _ => false end.

(* one storage operation of a presenter: (document present, pc) -> (document present, pc) *)
Definition pstep (refreshes strict user_ok : bool) (present : bool) (p : pc) : bool * pc :=
  match p with
  | PStart => if present then (present, PGot) else (present, PLose)            (* Get: 401 if absent *)
  | PGot => (if refreshes then true else present, if user_ok then PChecked else PLose)
  | PChecked => if present then (false, PWin)                                   (* Delete succeeded *)
                else if strict then (present, PLose) else (present, PWin)
  | PWin | PLose => (present, p)
  end.

Inductive event :=
| Act (i : nat) (user_ok : bool)     (* presenter i performs its next storage operation *)
| ExtDelete.                         (* DeleteSession by somebody else, or expiry *)

Record cfg := mkCfg { present : bool; pcs : list pc }.

Fixpoint upd {A} (i : nat) (x : A) (l : list A) : list A :=
  match l, i with
  | [], _ => []
  | _ :: r, O => x :: r
  | y :: r, S j => y :: upd j x r
  end.

Definition estep (refreshes strict : bool) (c : cfg) (e : event) : cfg :=
  match e with
  | ExtDelete => mkCfg false (pcs c)
  | Act i ok =>
      match nth_error (pcs c) i with
      | None => c
      | Some p => let (pr, p') := pstep refreshes strict ok (present c) p in mkCfg pr (upd i p' (pcs c))
      end
  end.

Definition erun (refreshes strict : bool) (c : cfg) (es : list event) : cfg :=
  fold_left (estep refreshes strict) es c.

Definition wins (l : list pc) : nat := length (filter is_win l).

(* n presenters, the session document present *)
Definition start (n : nat) : cfg := mkCfg true (repeat PStart n).

(* ---- proof ---- *)
Lemma wins_upd l : forall i p p', nth_error l i = Some p ->
  wins (upd i p' l) + (if is_win p then 1 else 0) = wins l + (if is_win p' then 1 else 0).
Proof.
  unfold wins. induction l as [|y r IH]; intros [|j] p p' H; cbn in H; try discriminate.
  - inv H. cbn [upd filter]. destruct (is_win p), (is_win p'); cbn [length]; lia.
  - cbn [upd filter]. specialize (IH _ _ p' H). destruct (is_win y); cbn [length]; lia.
Qed.

Definition good (c : cfg) : Prop := wins (pcs c) <= 1 /\ (present c = true -> wins (pcs c) = 0).

Lemma good_step c e : good c -> good (estep false true c e).
Proof.
  intros [G1 G2]. destruct e as [i ok|]; cbn [estep].
  - destruct (nth_error (pcs c) i) as [p|] eqn:En; [|split; assumption].
    pose proof (wins_upd _ _ _ (snd (pstep false true ok (present c) p)) En) as W.
    destruct p; cbn [pstep] in *; repeat (break_ifs; cbn [fst snd is_win present pcs] in * );
      unfold good; cbn [present pcs]; split; intros; try discriminate; try lia;
      try (specialize (G2 eq_refl); lia).
  - unfold good; cbn [present pcs]. split; [assumption | discriminate].
Qed.

Lemma wins_repeat n : wins (repeat PStart n) = 0.
Proof. induction n; cbn; auto. Qed.

Lemma one_time_concurrent n es : wins (pcs (erun false true (start n) es)) <= 1.
Proof.
  assert (G : good (start n)) by (unfold good, start; cbn [present pcs]; rewrite wins_repeat; lia).
  unfold erun. revert G. generalize (start n) as c.
  induction es as [|e es IH]; intros c G; cbn [fold_left]; [exact (proj1 G) | apply IH, good_step, G].
Qed.
