(* C12 -- the lemmas behind the REST theorems of C12_Properties.v (model: Rest.v). *)
From SG Require Import Base.Prelude C12.AuthN C12.Instance C12.AuthNProofs C12.Rest.
Open Scope N_scope.

Section RestProofs.
  Variable C : crypto.
  Hypothesis OK : crypto_ok C.
  Variables ccd rcp : bool.

  Notation rstate := (rstate C).
  Notation decide := (decide_outcome C ccd rcp).
  Notation step1 := (step_gen C ccd rcp).

  (* ---- checkPublicAuth serves a request as a user only through the core model's AuthPassword / AuthCookie,
          and as the guest only without (usable) credentials ---- *)
  Lemma rest_auth_sound (rs : rstate) public cr :
    match decide rs public cr with
    | Served (Some w) =>
        (exists u p, cr_basic cr = Some (u, p) /\ u <> 0 /\
           authed (snd (step1 (core rs) (AuthPassword u p None))) = Some w) \/
        (basic_user cr = None /\ exists sid, cr_cookie cr = Some sid /\
           authed (snd (step1 (core rs) (AuthCookie sid))) = Some w)
    | Served None =>
        basic_user cr = None /\ (public = true \/ (cr_cookie cr = None /\ guest_on rs = true))
    | Denied _ => True
    end.
  Proof.
    unfold decide_outcome, out1. destruct (basic_user cr) as [[u p]|] eqn:Eb.
    - destruct (authed (snd (step1 (core rs) (AuthPassword u p None)))) as [w|] eqn:E; [|exact I].
      left. exists u, p. unfold basic_user in Eb.
      destruct (cr_basic cr) as [[u' p']|]; [|discriminate Eb].
      destruct (u' =? 0) eqn:E0; [discriminate Eb|]. inv Eb. apply N.eqb_neq in E0. auto.
    - destruct (cr_cookie cr) as [sid|] eqn:Ec.
      + destruct (authed (snd (step1 (core rs) (AuthCookie sid)))) as [w|] eqn:E.
        * right. split; [reflexivity|]. exists sid. auto.
        * destruct public; [split; auto | exact I].
      + destruct (public || guest_on rs) eqn:Ep; [|exact I].
        split; [reflexivity|]. apply orb_true_iff in Ep. destruct Ep as [->|Ep]; auto.
  Qed.

  (* ---- the core of a REST history is a core history ---- *)
  Fixpoint flat (rs : rstate) (ops : list rop) : list op :=
    match ops with
    | [] => []
    | o :: r => rop_ops C ccd rcp rs o ++ flat (fst (rstep C ccd rcp rs o)) r
    end.

  Lemma rrun_core : forall ops (rs : rstate),
    core (rrun C ccd rcp rs ops) = run_gen C ccd rcp (core rs) (flat rs ops).
  Proof.
    induction ops as [|o ops IH]; intros rs; [reflexivity|].
    cbn [rrun fold_left flat]. change (fold_left _ ops ?x) with (rrun C ccd rcp x ops).
    rewrite IH, (run_app C). reflexivity.
  Qed.

  Lemma rInv_step (rs : rstate) o : Inv C (core rs) -> Inv C (core (fst (rstep C ccd rcp rs o))).
  Proof. intros I. cbn [rstep fst core]. apply Inv_run; assumption. Qed.

  Lemma rInv_run : forall ops (rs : rstate), Inv C (core rs) -> Inv C (core (rrun C ccd rcp rs ops)).
  Proof. intros ops rs I. rewrite rrun_core. apply Inv_run; assumption. Qed.

  Lemma rInv_reach capacity ops : Inv C (core (rrun C ccd rcp (rinit C capacity) ops)).
  Proof. apply rInv_run. cbn. apply Inv_init. Qed.

  Lemma rSInv_reach capacity ops : SInv C (core (rrun C ccd rcp (rinit C capacity) ops)).
  Proof. rewrite rrun_core. apply SInv_run. cbn. apply SInv_init. Qed.

  (* ---- served as w: w exists, and either the Basic password verifies against w's stored hash and w is enabled,
          or the cookie names a live session issued for w that carries w's current credential epoch ---- *)
  Lemma rest_served_user_sound (rs : rstate) public cr w :
    Inv C (core rs) -> SInv C (core rs) -> decide rs public cr = Served (Some w) ->
    exists usr, alookup w (users (core rs)) = Some usr /\
      ((exists u p, cr_basic cr = Some (u, p) /\ u <> 0 /\ w = u /\ u_disabled usr = false /\
          match u_hash usr with Some h => verify C h p = true | None => p = 0 end /\
          bkey C p = bkey C (u_pw usr)) \/
       (basic_user cr = None /\ exists sid s, cr_cookie cr = Some sid /\
          alookup sid (sessions (core rs)) = Some s /\ now (core rs) < s_expires s /\ s_user s = w /\
          s_uuid s = u_uuid usr /\ (ccd = true -> u_disabled usr = false))).
  Proof.
    intros I SI H. pose proof (rest_auth_sound rs public cr) as S. rewrite H in S.
    destruct S as [[u [p [Eb [Hu E]]]]|[Eb [sid [Ec E]]]].
    - destruct (password_auth_sound C OK ccd rcp (core rs) (AuthPassword u p None) u p w I) as [-> [usr [Eu [Ed [Hv Hk]]]]];
        [left; exists None; reflexivity | exact E |].
      exists usr. split; [exact Eu|]. left. exists u, p. repeat split; auto.
    - destruct (session_auth_sound C ccd rcp (core rs) sid (AuthCookie sid) w) as [s [usr [Es [Hl [Hw [Eu [Euu Hd]]]]]]];
        [exact SI | left; reflexivity | exact E |].
      exists usr. split; [exact Eu|]. right. split; [exact Eb|]. exists sid, s. repeat split; auto.
      intros Hc. apply Hd; [exact Hc | left; reflexivity].
  Qed.

  (* ---- dead sessions stay dead through REST histories ---- *)
  Definition rnot_create (sid : N) (o : rop) : Prop :=
    match o with
    | RAdminSession _ sid' _ | RLogin _ _ sid' _ => sid' <> sid
    | _ => True
    end.

  Lemma request_ops_not_create sid cr : Forall (not_create sid) (request_ops cr).
  Proof. unfold request_ops. repeat dm; repeat constructor. Qed.

  Lemma rop_ops_not_create (rs : rstate) sid o :
    rnot_create sid o -> Forall (not_create sid) (rop_ops C ccd rcp rs o).
  Proof.
    intros H. destruct o; cbn [rop_ops rnot_create] in *;
      try apply request_ops_not_create;
      try (apply Forall_app; split; [apply request_ops_not_create|]);
      repeat dm; repeat constructor; cbn [not_create]; auto.
  Qed.

  Lemma rdead_forever sid : forall rops (rs : rstate),
    Inv C (core rs) -> dead C (core rs) sid -> Forall (rnot_create sid) rops ->
    dead C (core (rrun C ccd rcp rs rops)) sid.
  Proof.
    induction rops as [|o rops IH]; intros rs I D F; [exact D|]. inv F.
    cbn [rrun fold_left]. change (fold_left _ rops ?x) with (rrun C ccd rcp x rops).
    apply IH; [apply rInv_step; exact I | | assumption].
    cbn [rstep fst core]. apply dead_forever; auto. apply rop_ops_not_create; assumption.
  Qed.

  Lemma rest_dead_session_never_serves (rs : rstate) sid rops public cr w :
    Inv C (core rs) -> dead C (core rs) sid -> Forall (rnot_create sid) rops ->
    basic_user cr = None -> cr_cookie cr = Some sid ->
    decide (rrun C ccd rcp rs rops) public cr <> Served (Some w).
  Proof.
    intros I D F Eb Ec. pose proof (rdead_forever sid rops rs I D F) as D'.
    unfold decide_outcome, out1. rewrite Eb, Ec.
    rewrite (dead_no_auth C ccd rcp _ sid (AuthCookie sid) D') by (left; reflexivity).
    destruct public; discriminate.
  Qed.

  (* ---- what kills a session at the REST level: DELETE /_user/{name}/_session (all sessions of the user), a
          password change through PUT /_user/{name} that answered 200, DELETE /_user/{name}, DELETE /_session/{id} ---- *)
  Definition rkills (rs : rstate) (sid : N) (s : session) (o : rop) : Prop :=
    o = RDeleteAllSessions (s_user s) \/
    (exists p salt, o = RPutUser (s_user s) p salt /\ rop_out C ccd rcp rs o = RCode 200) \/
    o = RDeleteUser (s_user s) \/
    o = RDeleteSession sid.

  Lemma no_user_dead (st : state C) sid s :
    alookup sid (sessions st) = Some s -> alookup (s_user s) (users st) = None -> dead C st sid.
  Proof. intros Es Eu s0 Hs0. rewrite Es in Hs0; inv Hs0. right. intros usr Hu. congruence. Qed.

  Lemma rest_kill (rs : rstate) sid s o :
    Inv C (core rs) -> alookup sid (sessions (core rs)) = Some s -> rkills rs sid s o ->
    dead C (core (fst (rstep C ccd rcp rs o))) sid.
  Proof.
    intros I Es [->|[[p [salt [-> Hc]]]|[->| ->]]]; cbn [rstep fst core rop_ops run_gen fold_left].
    - destruct (alookup (s_user s) (users (core rs))) as [usr|] eqn:Eu.
      + apply (epoch_change_kills C ccd rcp (core rs) sid s); auto.
        unfold step_gen. rewrite Eu. reflexivity.
      + unfold step_gen. rewrite Eu. cbn [fst]. apply (no_user_dead _ _ s); assumption.
    - cbn [rop_out] in Hc. destruct (alookup (s_user s) (users (core rs))) as [usr|] eqn:Eu.
      + cbn [run_gen fold_left]. apply (epoch_change_kills C ccd rcp (core rs) sid s); eauto.
        unfold out1, step_gen in Hc |- *. rewrite Eu in *.
        destruct (too_long C p); cbn in Hc |- *; [discriminate Hc | reflexivity].
      + exfalso. unfold out1, step_gen in Hc. rewrite Eu in Hc.
        destruct (too_long C p); cbn in Hc; discriminate Hc.
    - destruct (alookup (s_user s) (users (core rs))) as [usr|] eqn:Eu.
      + apply delete_user_kills; auto. unfold step_gen. rewrite Eu. reflexivity.
      + unfold step_gen. rewrite Eu. cbn [fst]. apply (no_user_dead _ _ s); assumption.
    - apply delete_session_kills.
  Qed.

End RestProofs.
