(* C12, not property obligations: statements that variants of the model violate, witnessed by vm_compute.

   1. The code BEFORE the repair (DESIGN section 6 item 3; step_gen with ccd = false: AuthenticateCookie /
      AuthenticateOneTimeSession never test Disabled(), and disabling does not rotate the session UUID):
      a disabled user authenticates with a live session.  The same history run on the unrepaired
      implementation returned the user (monitor signature disabled-user-session-cookie); on the repaired
      one (ccd = true) it is refused (C12_Properties.C12_disabled_user_never_authenticates).
   2. What the concurrent one-time guarantee rests on (OneTime.v): if a presentation re-wrote (refreshed)
      the one-time session it read, or if Delete of an absent document did not report "not found"
      (plain rosmar: a second Delete of a tombstoned key succeeds), two presentations could both win. *)
From SG Require Import Base.Prelude C12.AuthN C12.Instance C12.AuthNProofs C12.OneTime.
Open Scope N_scope.

Lemma disabled_user_authenticates_with_cookie_refuted :
  exists ops sid o w usr,
    let st := run_gen XC false (init XC 10) ops in
    authenticates o sid /\ authed (snd (step_gen XC false st o)) = Some w /\
    alookup w (users st) = Some usr /\ u_disabled usr = true.
Proof.
  exists [CreateUser 1 1 1 4; CreateSession 1 1 1000 false; SetDisabled 1 true], 1, (AuthCookie 1), 1,
         (mkUser (C:=XC) (Some (4, 1, 1)) true 1 2 1).
  cbv zeta. split; [left; reflexivity|]. vm_compute. repeat split; reflexivity.
Qed.

Lemma disabled_user_authenticates_with_one_time_session_refuted :
  exists ops sid,
    authed (snd (step_gen XC false (run_gen XC false (init XC 10) ops) (AuthOneTime sid))) = Some 1 /\
    authed (snd (step_gen XC false (run_gen XC false (init XC 10) ops) (AuthPassword 1 1 None))) = None.
Proof.
  exists [CreateUser 1 1 1 4; CreateSession 1 1 1000 true; SetDisabled 1 true], 1.
  vm_compute. split; reflexivity.
Qed.

(* the repaired model refuses the same history *)
Lemma disabled_user_refused_when_repaired :
  authed (snd (step_gen XC true (run_gen XC true (init XC 10)
      [CreateUser 1 1 1 4; CreateSession 1 1 1000 false; SetDisabled 1 true]) (AuthCookie 1))) = None.
Proof. vm_compute. reflexivity. Qed.

(* 3. Re-hashing at login with two bcrypt costs in use at once (the callback of rehashPassword re-checks only the
      COST of the reloaded document, not that it still verifies the password presented): a login with the old
      password 1 (configured cost 5) reads the user; a node still hashing with cost 4 changes the password to 5;
      the login's Save hits the CAS mismatch, reloads, sees cost 4 <> 5 and writes the OLD password back.
      Afterwards the superseded password authenticates and the current one is refused.  With one configured cost
      this cannot happen (C12_Properties.C12_rehash_preserves_credentials). *)
Lemma rehash_mixed_cost_reinstates_old_password_refuted :
  exists ops,
    let st := run_gen XC true (init XC 10) ops in
    authed (snd (step_gen XC true st (AuthPassword 1 1 None))) = Some 1 /\
    authed (snd (step_gen XC true st (AuthPassword 1 5 None))) = None.
Proof.
  exists [CreateUser 1 1 1 4; LoginRehash 7 1 1 None 5; SetPassword 1 5 2 4; RehashSave 7 3; RehashSave 7 4].
  vm_compute. split; reflexivity.
Qed.

Open Scope nat_scope.
(* A reads; B reads, checks, deletes (wins); A checks -- refreshing: the document is back -- A deletes: wins *)
Lemma one_time_refresh_refuted :
  exists schedule, wins (pcs (erun true true (start 2) schedule)) = 2.
Proof.
  exists [Act 0 true; Act 1 true; Act 1 true; Act 1 true; Act 0 true; Act 0 true]. vm_compute. reflexivity.
Qed.

Lemma one_time_lenient_delete_refuted :
  exists schedule, wins (pcs (erun false false (start 2) schedule)) = 2.
Proof.
  exists [Act 0 true; Act 1 true; Act 1 true; Act 1 true; Act 0 true; Act 0 true]. vm_compute. reflexivity.
Qed.
