(* C12, not property obligations: statements that variants of the model violate, witnessed by vm_compute.

   1. The code BEFORE the repair (DESIGN section 6 item 3; step_gen with ccd = false: AuthenticateCookie /
      AuthenticateOneTimeSession never test Disabled(), and disabling does not rotate the session UUID):
      a disabled user authenticates with a live session.  The same history run on the unrepaired
      implementation returned the user (monitor signature disabled-user-session-cookie); on the repaired
      one (ccd = true) it is refused (C12_Properties.C12_disabled_user_never_authenticates).
   2. What the concurrent one-time guarantee rests on (OneTime.v): if a presentation re-wrote (refreshed)
      the one-time session it read, or if Delete of an absent document did not report "not found"
      (plain rosmar: a second Delete of a tombstoned key succeeds), two presentations could both win. *)
From SG Require Import Base.Prelude C12.AuthN C12.Instance C12.AuthNProofs C12.OneTime.
Open Scope N_scope.

Lemma disabled_user_authenticates_with_cookie_refuted :
  exists ops sid o w usr,
    let st := run_gen XC false true (init XC 10) ops in
    authenticates o sid /\ authed (snd (step_gen XC false true st o)) = Some w /\
    alookup w (users st) = Some usr /\ u_disabled usr = true.
Proof.
  exists [CreateUser 1 1 1 4; CreateSession 1 1 1000 false; SetDisabled 1 true], 1, (AuthCookie 1), 1,
         (mkUser (C:=XC) (Some (4, 1, 1)) true 1 2 1).
  cbv zeta. split; [left; reflexivity|]. vm_compute. repeat split; reflexivity.
Qed.

Lemma disabled_user_authenticates_with_one_time_session_refuted :
  exists ops sid,
    authed (snd (step_gen XC false true (run_gen XC false true (init XC 10) ops) (AuthOneTime sid))) = Some 1 /\
    authed (snd (step_gen XC false true (run_gen XC false true (init XC 10) ops) (AuthPassword 1 1 None))) = None.
Proof.
  exists [CreateUser 1 1 1 4; CreateSession 1 1 1000 true; SetDisabled 1 true], 1.
  vm_compute. split; reflexivity.
Qed.

(* the repaired model refuses the same history *)
Lemma disabled_user_refused_when_repaired :
  authed (snd (step_gen XC true true (run_gen XC true true (init XC 10)
      [CreateUser 1 1 1 4; CreateSession 1 1 1000 false; SetDisabled 1 true]) (AuthCookie 1))) = None.
Proof. vm_compute. reflexivity. Qed.

(* 3. The rehashPassword callback BEFORE its repair (rcp = false: it re-checks only the COST of the reloaded
      document, not that it still verifies the password presented), with two bcrypt costs in use at once: a login
      with the old password 1 (configured cost 5) reads the user; a node still hashing with cost 4 changes the
      password to 5; the login's Save hits the CAS mismatch, reloads, sees cost 4 <> 5 and writes the OLD password
      back.  Afterwards the superseded password authenticates and the current one is refused.  The same history
      run on the unrepaired implementation does exactly that (monitor signature
      stale-password-reinstated-by-rehash-mixed-cost); the repaired callback (rcp = true, the model of the tree:
      C12_Properties.C12_rehash_preserves_credentials, all histories) leaves the new password alone. *)
Definition mixed_cost_history : list op :=
  [CreateUser 1 1 1 4; LoginRehash 7 1 1 None 5; SetPassword 1 5 2 4; RehashSave 7 3 None; RehashSave 7 4 None].

Lemma rehash_mixed_cost_reinstates_old_password_refuted :
  exists ops,
    let st := run_gen XC true false (init XC 10) ops in
    authed (snd (step_gen XC true false st (AuthPassword 1 1 None))) = Some 1 /\
    authed (snd (step_gen XC true false st (AuthPassword 1 5 None))) = None.
Proof. exists mixed_cost_history. vm_compute. split; reflexivity. Qed.

(* ... and it is the statement of C12_rehash_preserves_credentials that fails for rcp = false: the second Save
   attempt makes the credential accept a string (the old password 1) that it refused before *)
Lemma rehash_preserves_credentials_unrepaired_refuted :
  exists ops a salt ev u x,
    let st := run_gen XC true false (init XC 10) ops in
    creds XC (fst (step_gen XC true false st (RehashSave a salt ev))) u x = true /\ creds XC st u x = false.
Proof.
  exists [CreateUser 1 1 1 4; LoginRehash 7 1 1 None 5; SetPassword 1 5 2 4; RehashSave 7 3 None], 7, 4, None, 1, 1.
  vm_compute. split; reflexivity.
Qed.

(* the repaired model on the same history: the current password authenticates, the old one is refused *)
Lemma rehash_mixed_cost_refused_when_repaired :
  let st := run_gen XC true true (init XC 10) mixed_cost_history in
  authed (snd (step_gen XC true true st (AuthPassword 1 1 None))) = None /\
  authed (snd (step_gen XC true true st (AuthPassword 1 5 None))) = Some 1.
Proof. vm_compute. split; reflexivity. Qed.

(* 4. Why every write of a session document must carry a bucket expiry (C12_Properties.C12_session_documents_carry_expiry):
      AuthenticateCookie never compares LoginSession.Expiration with the clock, so a session document stored without
      an expiry (s_docexp = 0) -- e.g. a refresh that re-writes the document through an Update whose callback returns
      no expiry -- authenticates at ANY later time, long after its Expiration. *)
Lemma session_without_bucket_expiry_never_expires :
  forall t,
    let st := mkState (C:=XC) [(1, mkUser (C:=XC) (Some (4, 1, 1)) false 1 1 1)]
                      [(1, mkSess 1 1 1000 0 1000 false)] [] 10 t 2 [] in
    authed (snd (step XC st (AuthCookie 1))) = Some 1.
Proof.
  intros t. cbv zeta. unfold step, step_gen, get_session. cbn.
  reflexivity.
Qed.

Open Scope nat_scope.
(* A reads; B reads, checks, deletes (wins); A checks -- refreshing: the document is back -- A deletes: wins *)
Lemma one_time_refresh_refuted :
  exists schedule, wins (pcs (erun true true (start 2) schedule)) = 2.
Proof.
  exists [Act 0 true; Act 1 true; Act 1 true; Act 1 true; Act 0 true; Act 0 true]. vm_compute. reflexivity.
Qed.

Lemma one_time_lenient_delete_refuted :
  exists schedule, wins (pcs (erun false false (start 2) schedule)) = 2.
Proof.
  exists [Act 0 true; Act 1 true; Act 1 true; Act 1 true; Act 0 true; Act 0 true]. vm_compute. reflexivity.
Qed.
