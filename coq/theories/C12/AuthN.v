(* C12 -- executable model of sync_gateway's authentication core (package auth):
     auth/user.go          AuthenticateWithReason, SetPassword (session-UUID rotation), SetDisabled
     auth/password_hash.go compareHashAndPassword + RandReplKeyCache (the verified-password cache)
     auth/session.go       CreateSession, GetSession, AuthenticateCookie, AuthenticateOneTimeSession,
                           deleteOneTimeSession, DeleteSession
     auth/auth.go          AuthenticateUser, DeleteUser, Save (through the harness's user operations)
     rest/session_api.go   deleteUserSessions (= UpdateSessionUUID + Save)

   Conventions.  User names, session ids and passwords are interned as numbers ([N]); the password
   [0] is the empty password "".  bcrypt, SHA-1 and "longer than 72 bytes" are the fields of a
   [crypto] record, which the proofs take as a Section variable with in-section hypotheses and which
   C12_Corr.v instantiates to evaluate the model.  Everything random in the code is an input of the
   operation (bcrypt salt, session id, which cache entry the random replacement evicted) except the
   session UUID, which is a counter: "uuid.NewString() never repeats" is an assumption of the model.
   Time is a virtual clock moved by [Advance]; a session document is gone (the store's TTL) as soon
   as [now >= expires].  Mutex/KV-atomic methods are atomic steps; the one place where the property
   speaks about schedules (one-time sessions) has its own interleaving model in OneTime.v. *)
From SG Require Import Base.Prelude.
Open Scope N_scope.

Record crypto := mkCrypto {
  hash : Type;                      (* a stored bcrypt hash (salt and cost included) *)
  hash_eqb : hash -> hash -> bool;
  gen : N -> N -> hash;             (* bcrypt.GenerateFromPassword: salt, password *)
  verify : hash -> N -> bool;       (* bcrypt.CompareHashAndPassword = nil *)
  digest : N -> N;                  (* sha1 of the password *)
  too_long : N -> bool;             (* len(password) > 72: GenerateFromPassword refuses *)
  plain : N -> bool                 (* at most 72 bytes and no NUL byte: the passwords on which bcrypt is
                                       injective (it reads the 72-byte cyclic expansion of password ++ NUL);
                                       used by the theorems only, never by the model *)
}.

(* ---- association lists keyed by N (first match wins; [aset] keeps keys unique) ---- *)
Section Assoc.
  Context {A : Type}.
  Fixpoint alookup (k : N) (l : list (N * A)) : option A :=
    match l with
    | [] => None
    | (k', v) :: r => if k' =? k then Some v else alookup k r
    end.
  Fixpoint adel (k : N) (l : list (N * A)) : list (N * A) :=
    match l with
    | [] => []
    | (k', v) :: r => if k' =? k then adel k r else (k', v) :: adel k r
    end.
  Definition aset (k : N) (v : A) (l : list (N * A)) : list (N * A) := (k, v) :: adel k l.
End Assoc.

(* THE ONE DEFINITION that says which tree is modelled (DESIGN section 6 item 3).
   [true]  = the repaired code: AuthenticateCookie and AuthenticateOneTimeSession refuse a session whose
             user is Disabled() (fix: commit, /tmp/c12-fix.diff);
   [false] = the code before the repair: the session paths never look at the flag, so a disabled user
             keeps authenticating with a live session cookie (witness in C12_Refuted.v).
   GetSession (an admin look-up, not an authentication) is the same in both. *)
Definition cookie_checks_disabled : bool := true.

Inductive op :=
| CreateUser (u p salt : N)                 (* auth.NewUser + Save of a new document *)
| SetPassword (u p salt : N)                (* GetUser; SetPassword; Save *)
| SetDisabled (u : N) (b : bool)            (* GetUser; SetDisabled; Save *)
| InvalidateSessions (u : N)                (* GetUser; UpdateSessionUUID; Save *)
| DeleteUser (u : N)                        (* GetUser; DeleteUser *)
| CreateSession (u sid ttl : N) (onetime : bool)   (* GetUser; CreateSession; sid = the id generated *)
| DeleteSession (sid : N)
| Advance (dt : N)                          (* time passes *)
| AuthPassword (u p : N) (ev : option (N * N * N))  (* AuthenticateUser; ev = evicted (pw,salt,pw0) *)
| AuthCookie (sid : N)                      (* AuthenticateCookie *)
| AuthOneTime (sid : N)                     (* AuthenticateOneTimeSession *)
| GetSession (sid : N).

Inductive err := ENoUser | EExists | EPwTooLong | EBadTTL | EDisabled | ENotFound | E401.

Inductive out :=
| ODone
| OErr (e : err)
| OPass (who : option N) (cache_len : N)    (* AuthenticateUser result, cachedHashes.Len() after *)
| OCookie (who : option N) (refreshed : bool)  (* AuthenticateCookie result, Set-Cookie written *)
| OUser (who : N).                          (* AuthenticateOneTimeSession / GetSession success *)

(* who was authenticated by this call, if anybody *)
Definition authed (o : out) : option N :=
  match o with
  | OPass w _ => w
  | OCookie w _ => w
  | OUser w => Some w
  | _ => None
  end.

Section Model.
  Variable C : crypto.

  Record user := mkUser {
    u_hash : option (hash C);   (* PasswordHash_ ; None = no hash stored (empty password) *)
    u_disabled : bool;          (* Disabled_ *)
    u_uuid : N;                 (* SessionUUID_ : the credential epoch *)
    u_pw : N                    (* GHOST: the password last set; never read by [step] decisions *)
  }.

  Record session := mkSess {
    s_user : N;                 (* Username *)
    s_uuid : N;                 (* SessionUUID copied from the user at creation *)
    s_expires : N;              (* Expiration = expiry of the document in the store *)
    s_ttl : N;                  (* Ttl *)
    s_onetime : bool            (* OneTime *)
  }.

  Definition key : Type := (N * hash C)%type.   (* authKey: sha1(password) ++ bcrypt hash *)

  Record state := mkState {
    users : list (N * user);
    sessions : list (N * session);
    cache : list key;           (* cachedHashes *)
    cap : N;                    (* capacity of the cache (kMaxCacheSize) *)
    now : N;
    next_uuid : N
  }.

  Definition init (capacity : N) : state := mkState [] [] [] capacity 0 1.

  (* ---- the verified-password cache ---- *)
  Definition key_eqb (a b : key) : bool := (fst a =? fst b) && hash_eqb C (snd a) (snd b).
  Definition kmem (k : key) (c : list key) : bool := existsb (key_eqb k) c.
  Definition kremove (k : key) (c : list key) : list key := filter (fun x => negb (key_eqb k x)) c.
  Definition len {A} (l : list A) : N := N.of_nat (length l).

  (* RandReplKeyCache.Put: present -> nothing; full -> a random resident is replaced; else append *)
  Definition cache_put (capacity : N) (ev : option key) (k : key) (c : list key) : list key :=
    if kmem k c then c
    else if capacity <=? len c then
      (match ev with Some e => kremove e c | None => c end) ++ [k]
    else c ++ [k].

  Definition ev_key (ev : option (N * N * N)) : option key :=
    match ev with
    | Some (d, salt, p0) => Some (digest C d, gen C salt p0)
    | None => None
    end.

  (* ---- helpers ---- *)
  Definition with_users (st : state) (us : list (N * user)) : state :=
    mkState us (sessions st) (cache st) (cap st) (now st) (next_uuid st).
  Definition with_users_fresh (st : state) (us : list (N * user)) : state :=
    mkState us (sessions st) (cache st) (cap st) (now st) (next_uuid st + 1).
  Definition with_sessions (st : state) (ss : list (N * session)) : state :=
    mkState (users st) ss (cache st) (cap st) (now st) (next_uuid st).
  Definition with_cache (st : state) (c : list key) : state :=
    mkState (users st) (sessions st) c (cap st) (now st) (next_uuid st).
  Definition with_now (st : state) (t : N) : state :=
    mkState (users st) (sessions st) (cache st) (cap st) t (next_uuid st).

  (* SetPassword: "" stores no hash *)
  Definition new_hash (p salt : N) : option (hash C) :=
    if p =? 0 then None else Some (gen C salt p).

  (* datastore.Get of the session document: the store has removed it once it expired *)
  Definition get_session (st : state) (sid : N) : option session :=
    match alookup sid (sessions st) with
    | Some s => if now st <? s_expires s then Some s else None
    | None => None
    end.

  (* AuthenticateCookie's refresh rule: more than 10% of the TTL has elapsed, never for one-time *)
  Definition wants_refresh (st : state) (s : session) : bool :=
    (s_ttl s / 10 <? now st + s_ttl s - s_expires s) && negb (s_onetime s).

  Definition refreshed (st : state) (s : session) : session :=
    mkSess (s_user s) (s_uuid s) (now st + s_ttl s) (s_ttl s) (s_onetime s).

  (* "user == nil || [user.Disabled() ||] session.SessionUUID != user.GetSessionUUID()":
     Some name = the session is valid for that user; [ccd] = is the Disabled() test there *)
  Definition session_user (ccd : bool) (st : state) (s : session) : option N :=
    match alookup (s_user s) (users st) with
    | None => None
    | Some usr =>
        if negb (s_uuid s =? u_uuid usr) then None
        else if ccd && u_disabled usr then None
        else Some (s_user s)
    end.

  (* deleteOneTimeSession, sequentially: the document read a moment ago is still there *)
  Definition consume (st : state) (sid : N) (s : session) : state :=
    if s_onetime s then with_sessions st (adel sid (sessions st)) else st.

  Definition step_gen (ccd : bool) (st : state) (o : op) : state * out :=
    match o with
    | CreateUser u p salt =>
        if too_long C p then (st, OErr EPwTooLong)
        else match alookup u (users st) with
             | Some _ => (st, OErr EExists)
             | None => (with_users_fresh st (aset u (mkUser (new_hash p salt) false (next_uuid st) p) (users st)), ODone)
             end
    | SetPassword u p salt =>
        match alookup u (users st) with
        | None => (st, OErr ENoUser)
        | Some usr =>
            if too_long C p then (st, OErr EPwTooLong)
            else (with_users_fresh st (aset u (mkUser (new_hash p salt) (u_disabled usr) (next_uuid st) p) (users st)), ODone)
        end
    | SetDisabled u b =>
        match alookup u (users st) with
        | None => (st, OErr ENoUser)
        | Some usr => (with_users st (aset u (mkUser (u_hash usr) b (u_uuid usr) (u_pw usr)) (users st)), ODone)
        end
    | InvalidateSessions u =>
        match alookup u (users st) with
        | None => (st, OErr ENoUser)
        | Some usr => (with_users_fresh st (aset u (mkUser (u_hash usr) (u_disabled usr) (next_uuid st) (u_pw usr)) (users st)), ODone)
        end
    | DeleteUser u =>
        match alookup u (users st) with
        | None => (st, OErr ENoUser)
        | Some _ => (with_users st (adel u (users st)), ODone)
        end
    | CreateSession u sid ttl onetime =>
        match alookup u (users st) with
        | None => (st, OErr ENoUser)
        | Some usr =>
            if ttl =? 0 then (st, OErr EBadTTL)
            else if u_disabled usr then (st, OErr EDisabled)
            else (with_sessions st (aset sid (mkSess u (u_uuid usr) (now st + ttl) ttl onetime) (sessions st)), ODone)
        end
    | DeleteSession sid =>
        match get_session st sid with
        | None => (st, OErr ENotFound)
        | Some _ => (with_sessions st (adel sid (sessions st)), ODone)
        end
    | Advance dt => (with_now st (now st + dt), ODone)
    | AuthPassword u p ev =>
        match alookup u (users st) with
        | None => (st, OPass None (len (cache st)))
        | Some usr =>
            if u_disabled usr then (st, OPass None (len (cache st)))
            else match u_hash usr with
                 | None => (st, OPass (if p =? 0 then Some u else None) (len (cache st)))
                 | Some h =>
                     let k := (digest C p, h) in
                     if kmem k (cache st) then (st, OPass (Some u) (len (cache st)))
                     else if verify C h p then
                       let c := cache_put (cap st) (ev_key ev) k (cache st) in
                       (with_cache st c, OPass (Some u) (len c))
                     else (st, OPass None (len (cache st)))
                 end
        end
    | AuthCookie sid =>
        match get_session st sid with
        | None => (st, OCookie None false)
        | Some s =>
            let r := wants_refresh st s in
            let st1 := if r then with_sessions st (aset sid (refreshed st s) (sessions st)) else st in
            match session_user ccd st s with
            | None => (st1, OCookie None r)
            | Some w => (consume st1 sid s, OCookie (Some w) r)
            end
        end
    | AuthOneTime sid =>
        match get_session st sid with
        | None => (st, OErr E401)
        | Some s =>
            match session_user ccd st s with
            | None => (st, OErr E401)
            | Some w => (consume st sid s, OUser w)
            end
        end
    | GetSession sid =>
        match get_session st sid with
        | None => (st, OErr ENotFound)
        | Some s =>
            match session_user false st s with
            | None => (st, OErr ENotFound)
            | Some w => (st, OUser w)
            end
        end
    end.

  (* histories *)
  Definition run_gen (ccd : bool) (st : state) (ops : list op) : state :=
    fold_left (fun s o => fst (step_gen ccd s o)) ops st.

  (* the outputs along a history (what the harness observes) *)
  Fixpoint outs_gen (ccd : bool) (st : state) (ops : list op) : list out :=
    match ops with
    | [] => []
    | o :: r => let (st', x) := step_gen ccd st o in x :: outs_gen ccd st' r
    end.

  (* the code as it is now *)
  Definition step := step_gen cookie_checks_disabled.
  Definition run := run_gen cookie_checks_disabled.
  Definition outs := outs_gen cookie_checks_disabled.
End Model.


Arguments mkUser {C}.
Arguments u_hash {C}.
Arguments u_disabled {C}.
Arguments u_uuid {C}.
Arguments u_pw {C}.
Arguments mkState {C}.
Arguments users {C}.
Arguments sessions {C}.
Arguments cache {C}.
Arguments cap {C}.
Arguments now {C}.
Arguments next_uuid {C}.
Arguments with_users {C}.
Arguments with_users_fresh {C}.
Arguments with_sessions {C}.
Arguments with_cache {C}.
Arguments with_now {C}.
