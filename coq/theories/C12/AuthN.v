(* C12 -- executable model of sync_gateway's authentication core (package auth):
     auth/user.go          AuthenticateWithReason, SetPassword (session-UUID rotation), SetDisabled
     auth/password_hash.go compareHashAndPassword + RandReplKeyCache (the verified-password cache)
     auth/session.go       CreateSession, GetSession, AuthenticateCookie, AuthenticateOneTimeSession,
                           deleteOneTimeSession, DeleteSession
     auth/auth.go          AuthenticateUser, DeleteUser, Save (through the harness's user operations),
                           rehashPassword + casUpdatePrincipal (re-hash at login after a bcrypt cost change, split
                           into its storage steps: LoginRehash / RehashSave)
     rest/session_api.go   deleteUserSessions (= UpdateSessionUUID + Save)
   The REST layer on top of it (checkPublicAuth, session_api.go) is Rest.v.

   Conventions.  User names, session ids and passwords are interned as numbers ([N]); the password
   [0] is the empty password "".  bcrypt, SHA-1 and "longer than 72 bytes" are the fields of a
   [crypto] record, which the proofs take as a Section variable with in-section hypotheses and which
   C12_Corr.v instantiates to evaluate the model.  Everything random in the code is an input of the
   operation (bcrypt salt, session id, which cache entry the random replacement evicted) except the
   session UUID, which is a counter: "uuid.NewString() never repeats" is an assumption of the model.
   Time is a virtual clock moved by [Advance]; every write of a session document carries a bucket expiry
   ([s_docexp]: CreateSession and the refresh of AuthenticateCookie both pass DurationToCbsExpiry(ttl)), and a
   document whose expiry is e <> 0 is gone (the store's TTL) as soon as [now >= e]; a document written WITHOUT an
   expiry would stay for ever -- the code never compares LoginSession.Expiration with the clock.  Mutex/KV-atomic methods are atomic steps; the one place where the property
   speaks about schedules (one-time sessions) has its own interleaving model in OneTime.v. *)
From SG Require Import Base.Prelude.
Open Scope N_scope.

Record crypto := mkCrypto {
  hash : Type;                      (* a stored bcrypt hash (salt and cost included) *)
  hash_eqb : hash -> hash -> bool;
  gen : N -> N -> N -> hash;        (* bcrypt.GenerateFromPassword: cost, salt, password *)
  cost : hash -> N;                 (* bcrypt.Cost *)
  verify : hash -> N -> bool;       (* bcrypt.CompareHashAndPassword = nil *)
  digest : N -> N;                  (* sha1 of the password *)
  too_long : N -> bool;             (* len(password) > 72: GenerateFromPassword refuses *)
  bkey : N -> N;                    (* what bcrypt keys on: the first 72 bytes of the cyclic repetition of
                                       password ++ NUL (theorems only, never used by the model) *)
  plain : N -> bool                 (* at most 72 bytes and no NUL byte: the passwords on which bcrypt is
                                       injective (it reads the 72-byte cyclic expansion of password ++ NUL);
                                       used by the theorems only, never by the model *)
}.

(* ---- association lists keyed by N (first match wins; [aset] keeps keys unique) ---- *)
Section Assoc.
  Context {A : Type}.
  Fixpoint alookup (k : N) (l : list (N * A)) : option A :=
    match l with
    | [] => None
    | (k', v) :: r => if k' =? k then Some v else alookup k r
    end.
  Fixpoint adel (k : N) (l : list (N * A)) : list (N * A) :=
    match l with
    | [] => []
    | (k', v) :: r => if k' =? k then adel k r else (k', v) :: adel k r
    end.
  Definition aset (k : N) (v : A) (l : list (N * A)) : list (N * A) := (k, v) :: adel k l.
End Assoc.

(* THE ONE DEFINITION that says which tree is modelled (DESIGN section 6 item 3).
   [true]  = the repaired code: AuthenticateCookie and AuthenticateOneTimeSession refuse a session whose
             user is Disabled() (fix: commit, /tmp/c12-fix.diff);
   [false] = the code before the repair: the session paths never look at the flag, so a disabled user
             keeps authenticating with a live session cookie (witness in C12_Refuted.v).
   GetSession (an admin look-up, not an authentication) is the same in both. *)
Definition cookie_checks_disabled : bool := true.

(* THE ONE DEFINITION that says which rehashPassword is modelled (auth/auth.go; the callback is re-applied by
   casUpdatePrincipal to a RELOADED user after every CAS mismatch).
   [true]  = the repaired code (/tmp/c12-fix-rehash.diff): the callback re-hashes only while the copy in hand has a
             hash of another cost AND that hash still verifies the password presented (compareHashAndPassword,
             through the verified-password cache) -- a password change that won the CAS race is left alone;
   [false] = the code before the repair: the callback re-checks only the COST of the reloaded document, so a
             concurrent SetPassword hashed at another cost is overwritten with the password the login presented
             (witness C12_Refuted.rehash_mixed_cost_reinstates_old_password_refuted). *)
Definition rehash_checks_password : bool := true.

Inductive op :=
| CreateUser (u p salt c : N)               (* auth.NewUser + Save of a new document; c = BcryptCost used *)
| SetPassword (u p salt c : N)              (* GetUser; SetPassword; Save *)
| SetDisabled (u : N) (b : bool)            (* GetUser; SetDisabled; Save *)
| InvalidateSessions (u : N)                (* GetUser; UpdateSessionUUID; Save *)
| DeleteUser (u : N)                        (* GetUser; DeleteUser *)
| CreateSession (u sid ttl : N) (onetime : bool)   (* GetUser; CreateSession; sid = the id generated *)
| DeleteSession (sid : N)
| Advance (dt : N)                          (* time passes *)
| AuthPassword (u p : N) (ev : option (N * N * N * N))  (* AuthenticateUser, bcryptCostChanged = false;
                                               ev = evicted cache entry (pw, cost, salt, pw0) *)
(* AuthenticateUser on an Authenticator whose bcrypt cost was changed to c (auth.go rehashPassword), split into
   its storage steps: LoginRehash = GetUser + the password check + the callback on the caller's copy;
   RehashSave = one CAS Save attempt of casUpdatePrincipal (on a CAS mismatch: the reload and the callback on the
   reloaded copy; ev = the cache entry evicted by that callback's password comparison).  Anything may be
   scheduled between them; [a] names the request in flight. *)
| LoginRehash (a u p : N) (ev : option (N * N * N * N)) (c : N)
| RehashSave (a salt : N) (ev : option (N * N * N * N))
| AuthCookie (sid : N)                      (* AuthenticateCookie *)
| AuthOneTime (sid : N)                     (* AuthenticateOneTimeSession *)
| GetSession (sid : N)
| DocExpiry (sid : N).                      (* observation only: datastore.GetExpiry of the session document *)

Inductive err := ENoUser | EExists | EPwTooLong | EBadTTL | EDisabled | ENotFound | E401.

Inductive out :=
| ODone
| OErr (e : err)
| OPass (who : option N) (cache_len : N)    (* AuthenticateUser result, cachedHashes.Len() after *)
| OCookie (who : option N) (refreshed : bool)  (* AuthenticateCookie result, Set-Cookie written *)
| OUser (who : N)                           (* AuthenticateOneTimeSession / GetSession success *)
| ORehash (wrote : bool)                    (* did this Save attempt write the re-hashed password *)
| OExp (e : option N).                      (* None = no such document; Some 0 = a document without bucket expiry;
                                               Some r = the store removes the document in r seconds *)

(* who was authenticated by this call, if anybody *)
Definition authed (o : out) : option N :=
  match o with
  | OPass w _ => w
  | OCookie w _ => w
  | OUser w => Some w
  | _ => None
  end.

Section Model.
  Variable C : crypto.

  Record user := mkUser {
    u_hash : option (hash C);   (* PasswordHash_ ; None = no hash stored (empty password) *)
    u_disabled : bool;          (* Disabled_ *)
    u_uuid : N;                 (* SessionUUID_ : the credential epoch *)
    u_ver : N;                  (* CAS of the user document *)
    u_pw : N                    (* GHOST: the password last set; never read by [step] decisions *)
  }.

  Record session := mkSess {
    s_user : N;                 (* Username *)
    s_uuid : N;                 (* SessionUUID copied from the user at creation *)
    s_expires : N;              (* Expiration: a field of the document; AuthenticateCookie never compares it with
                                   the clock, it only enters the refresh rule *)
    s_docexp : N;               (* the bucket expiry the document was WRITTEN with (absolute time; 0 = none: the
                                   store never removes the document).  This is what makes sessions expire *)
    s_ttl : N;                  (* Ttl *)
    s_onetime : bool            (* OneTime *)
  }.

  (* a login whose re-hash is still to be saved (the callback returned an updated principal for the copy it was
     given): user, presented password, configured cost, CAS of that copy *)
  Record pend := mkPend { p_user : N; p_pw : N; p_cost : N; p_ver : N }.

  Definition key : Type := (N * hash C)%type.   (* authKey: sha1(password) ++ bcrypt hash *)

  Record state := mkState {
    users : list (N * user);
    sessions : list (N * session);
    cache : list key;           (* cachedHashes *)
    cap : N;                    (* capacity of the cache (kMaxCacheSize) *)
    now : N;
    next_uuid : N;              (* fresh-value counter: session UUIDs and document CAS values *)
    pending : list (N * pend)
  }.

  Definition init (capacity : N) : state := mkState [] [] [] capacity 0 1 [].

  (* ---- the verified-password cache ---- *)
  Definition key_eqb (a b : key) : bool := (fst a =? fst b) && hash_eqb C (snd a) (snd b).
  Definition kmem (k : key) (c : list key) : bool := existsb (key_eqb k) c.
  Definition kremove (k : key) (c : list key) : list key := filter (fun x => negb (key_eqb k x)) c.
  Definition len {A} (l : list A) : N := N.of_nat (length l).

  (* RandReplKeyCache.Put: present -> nothing; full -> a random resident is replaced; else append *)
  Definition cache_put (capacity : N) (ev : option key) (k : key) (c : list key) : list key :=
    if kmem k c then c
    else if capacity <=? len c then
      (match ev with Some e => kremove e c | None => c end) ++ [k]
    else c ++ [k].

  Definition ev_key (ev : option (N * N * N * N)) : option key :=
    match ev with
    | Some (d, c, salt, p0) => Some (digest C d, gen C c salt p0)
    | None => None
    end.

  (* ---- helpers ---- *)
  (* every Save of a user document takes the next fresh value as its CAS *)
  Definition with_users (st : state) (us : list (N * user)) : state :=
    mkState us (sessions st) (cache st) (cap st) (now st) (next_uuid st + 1) (pending st).
  Definition with_users_del (st : state) (us : list (N * user)) : state :=
    mkState us (sessions st) (cache st) (cap st) (now st) (next_uuid st) (pending st).
  Definition with_sessions (st : state) (ss : list (N * session)) : state :=
    mkState (users st) ss (cache st) (cap st) (now st) (next_uuid st) (pending st).
  Definition with_cache (st : state) (c : list key) : state :=
    mkState (users st) (sessions st) c (cap st) (now st) (next_uuid st) (pending st).
  Definition with_now (st : state) (t : N) : state :=
    mkState (users st) (sessions st) (cache st) (cap st) t (next_uuid st) (pending st).
  Definition with_pending (st : state) (ps : list (N * pend)) : state :=
    mkState (users st) (sessions st) (cache st) (cap st) (now st) (next_uuid st) ps.

  (* SetPassword: "" stores no hash *)
  Definition new_hash (p salt c : N) : option (hash C) :=
    if p =? 0 then None else Some (gen C c salt p).

  (* GetUser + AuthenticateWithReason (through the verified-password cache): new state (cache), who *)
  Definition pass_check (st : state) (u p : N) (ev : option (N * N * N * N)) : state * option N :=
    match alookup u (users st) with
    | None => (st, None)
    | Some usr =>
        if u_disabled usr then (st, None)
        else match u_hash usr with
             | None => (st, if p =? 0 then Some u else None)
             | Some h =>
                 let k := (digest C p, h) in
                 if kmem k (cache st) then (st, Some u)
                 else if verify C h p then (with_cache st (cache_put (cap st) (ev_key ev) k (cache st)), Some u)
                 else (st, None)
             end
    end.

  (* a hash is stored and its cost differs from the configured one *)
  Definition wants_rehash (usr : user) (c : N) : bool :=
    match u_hash usr with Some h => negb (cost C h =? c) | None => false end.

  (* compareHashAndPassword(cachedHashes, h, p): the verdict, and the cache afterwards *)
  Definition cmp_ok (st : state) (h : hash C) (p : N) : bool :=
    kmem (digest C p, h) (cache st) || verify C h p.
  Definition cmp_cache (st : state) (h : hash C) (p : N) (ev : option key) : list key :=
    let k := (digest C p, h) in
    if kmem k (cache st) then cache st
    else if verify C h p then cache_put (cap st) ev k (cache st) else cache st.

  (* the callback of rehashPassword applied to a copy [usr] of the user document (the caller's, or a reload):
       hashCost != auth.BcryptCost [&& compareHashAndPassword(cachedHashes, hash, password)]   ([rcp]: is it there)
       then SetPassword(password) (which refuses more than 72 bytes), else ErrUpdateCancel.
     [rehash_go] = it returns an updated principal to be saved; [rehash_cache] = the cache after the comparison *)
  Definition rehash_go (rcp : bool) (st : state) (usr : user) (p c : N) : bool :=
    match u_hash usr with
    | Some h => negb (cost C h =? c) && (negb rcp || cmp_ok st h p) && negb (too_long C p)
    | None => false
    end.
  Definition rehash_cache (rcp : bool) (st : state) (usr : user) (p c : N) (ev : option key) : list key :=
    match u_hash usr with
    | Some h => if rcp && negb (cost C h =? c) then cmp_cache st h p ev else cache st
    | None => cache st
    end.

  (* datastore.Get of the session document: the store has removed it once it expired *)
  Definition get_session (st : state) (sid : N) : option session :=
    match alookup sid (sessions st) with
    | Some s => if (s_docexp s =? 0) || (now st <? s_docexp s) then Some s else None
    | None => None
    end.

  (* AuthenticateCookie's refresh rule: more than 10% of the TTL has elapsed, never for one-time *)
  Definition wants_refresh (st : state) (s : session) : bool :=
    (s_ttl s / 10 <? now st + s_ttl s - s_expires s) && negb (s_onetime s).

  Definition refreshed (st : state) (s : session) : session :=
    mkSess (s_user s) (s_uuid s) (now st + s_ttl s) (now st + s_ttl s) (s_ttl s) (s_onetime s).

  (* "user == nil || [user.Disabled() ||] session.SessionUUID != user.GetSessionUUID()":
     Some name = the session is valid for that user; [ccd] = is the Disabled() test there *)
  Definition session_user (ccd : bool) (st : state) (s : session) : option N :=
    match alookup (s_user s) (users st) with
    | None => None
    | Some usr =>
        if negb (s_uuid s =? u_uuid usr) then None
        else if ccd && u_disabled usr then None
        else Some (s_user s)
    end.

  (* deleteOneTimeSession, sequentially: the document read a moment ago is still there *)
  Definition consume (st : state) (sid : N) (s : session) : state :=
    if s_onetime s then with_sessions st (adel sid (sessions st)) else st.

  Definition step_gen (ccd rcp : bool) (st : state) (o : op) : state * out :=
    match o with
    | CreateUser u p salt c =>
        if too_long C p then (st, OErr EPwTooLong)
        else match alookup u (users st) with
             | Some _ => (st, OErr EExists)
             | None => (with_users st (aset u (mkUser (new_hash p salt c) false (next_uuid st) (next_uuid st) p) (users st)), ODone)
             end
    | SetPassword u p salt c =>
        match alookup u (users st) with
        | None => (st, OErr ENoUser)
        | Some usr =>
            if too_long C p then (st, OErr EPwTooLong)
            else (with_users st (aset u (mkUser (new_hash p salt c) (u_disabled usr) (next_uuid st) (next_uuid st) p) (users st)), ODone)
        end
    | SetDisabled u b =>
        match alookup u (users st) with
        | None => (st, OErr ENoUser)
        | Some usr => (with_users st (aset u (mkUser (u_hash usr) b (u_uuid usr) (next_uuid st) (u_pw usr)) (users st)), ODone)
        end
    | InvalidateSessions u =>
        match alookup u (users st) with
        | None => (st, OErr ENoUser)
        | Some usr => (with_users st (aset u (mkUser (u_hash usr) (u_disabled usr) (next_uuid st) (next_uuid st) (u_pw usr)) (users st)), ODone)
        end
    | DeleteUser u =>
        match alookup u (users st) with
        | None => (st, OErr ENoUser)
        | Some _ => (with_users_del st (adel u (users st)), ODone)
        end
    | CreateSession u sid ttl onetime =>
        match alookup u (users st) with
        | None => (st, OErr ENoUser)
        | Some usr =>
            if ttl =? 0 then (st, OErr EBadTTL)
            else if u_disabled usr then (st, OErr EDisabled)
            else (with_sessions st (aset sid (mkSess u (u_uuid usr) (now st + ttl) (now st + ttl) ttl onetime) (sessions st)), ODone)
        end
    | DeleteSession sid =>
        match get_session st sid with
        | None => (st, OErr ENotFound)
        | Some _ => (with_sessions st (adel sid (sessions st)), ODone)
        end
    | Advance dt => (with_now st (now st + dt), ODone)
    | AuthPassword u p ev =>
        let (st1, w) := pass_check st u p ev in (st1, OPass w (len (cache st1)))
    | LoginRehash a u p ev c =>
        let (st1, w) := pass_check st u p ev in
        let st2 :=
          match w, alookup u (users st) with
          | Some _, Some usr =>
              (* rehashPassword: the callback on the caller's copy (its comparison finds the pair just verified) *)
              let st1' := with_cache st1 (rehash_cache rcp st1 usr p c None) in
              if rehash_go rcp st1 usr p c
              then with_pending st1' (aset a (mkPend u p c (u_ver usr)) (pending st1')) else st1'
          | _, _ => st1
          end in
        (st2, OPass w (len (cache st2)))
    | RehashSave a salt ev =>
        match alookup a (pending st) with
        | None => (st, ORehash false)
        | Some pd =>
            let drop := with_pending st (adel a (pending st)) in
            match alookup (p_user pd) (users st) with
            | None => (drop, ORehash false)                       (* the document is gone: Save fails, give up *)
            | Some usr =>
                if u_ver usr =? p_ver pd then
                  (* the copy in hand is the stored document: the CAS Save of the re-hashed password succeeds *)
                  (with_users drop (aset (p_user pd)
                      (mkUser (new_hash (p_pw pd) salt (p_cost pd)) (u_disabled usr) (next_uuid st) (next_uuid st) (p_pw pd))
                      (users st)), ORehash true)
                else
                  (* CAS mismatch: reload the user and apply the callback to the reloaded copy *)
                  let st1 := with_cache st (rehash_cache rcp st usr (p_pw pd) (p_cost pd) (ev_key ev)) in
                  if rehash_go rcp st usr (p_pw pd) (p_cost pd)
                  then (with_pending st1 (aset a (mkPend (p_user pd) (p_pw pd) (p_cost pd) (u_ver usr)) (pending st1)), ORehash false)
                  else (with_pending st1 (adel a (pending st1)), ORehash false)
            end
        end
    | AuthCookie sid =>
        match get_session st sid with
        | None => (st, OCookie None false)
        | Some s =>
            let r := wants_refresh st s in
            let st1 := if r then with_sessions st (aset sid (refreshed st s) (sessions st)) else st in
            match session_user ccd st s with
            | None => (st1, OCookie None r)
            | Some w => (consume st1 sid s, OCookie (Some w) r)
            end
        end
    | AuthOneTime sid =>
        match get_session st sid with
        | None => (st, OErr E401)
        | Some s =>
            match session_user ccd st s with
            | None => (st, OErr E401)
            | Some w => (consume st sid s, OUser w)
            end
        end
    | GetSession sid =>
        match get_session st sid with
        | None => (st, OErr ENotFound)
        | Some s =>
            match session_user false st s with
            | None => (st, OErr ENotFound)
            | Some w => (st, OUser w)
            end
        end
    | DocExpiry sid =>
        match get_session st sid with
        | None => (st, OExp None)
        | Some s => (st, OExp (Some (if s_docexp s =? 0 then 0 else s_docexp s - now st)))
        end
    end.

  (* histories *)
  Definition run_gen (ccd rcp : bool) (st : state) (ops : list op) : state :=
    fold_left (fun s o => fst (step_gen ccd rcp s o)) ops st.

  (* the outputs along a history (what the harness observes) *)
  Fixpoint outs_gen (ccd rcp : bool) (st : state) (ops : list op) : list out :=
    match ops with
    | [] => []
    | o :: r => let (st', x) := step_gen ccd rcp st o in x :: outs_gen ccd rcp st' r
    end.

  (* the code as it is now *)
  Definition step := step_gen cookie_checks_disabled rehash_checks_password.
  Definition run := run_gen cookie_checks_disabled rehash_checks_password.
  Definition outs := outs_gen cookie_checks_disabled rehash_checks_password.
End Model.


Arguments mkUser {C}.
Arguments u_hash {C}.
Arguments u_disabled {C}.
Arguments u_uuid {C}.
Arguments u_pw {C}.
Arguments mkState {C}.
Arguments users {C}.
Arguments sessions {C}.
Arguments cache {C}.
Arguments cap {C}.
Arguments now {C}.
Arguments next_uuid {C}.
Arguments with_users {C}.
Arguments with_users_del {C}.
Arguments with_pending {C}.
Arguments pending {C}.
Arguments u_ver {C}.
Arguments with_sessions {C}.
Arguments with_cache {C}.
Arguments with_now {C}.
