From SG Require Import Base.Prelude C12.Expiry.
Open Scope N_scope.

(* The bucket keeps a session exactly until the Expiration the session itself carries (now + ttl), for every
   time-to-live >= 1 s and every clock later than 30 days after the epoch (any real clock). *)
Lemma deadline_is_expiration now ttl :
  1 <= ttl -> max_delta < now ->
  bucket_deadline now (cbs_expiry now ttl) = Some (now + ttl).
Proof.
  intros Ht Hn. unfold bucket_deadline, cbs_expiry, max_delta in *.
  destruct (ttl <=? 2592000) eqn:E1.
  - destruct (ttl =? 0) eqn:E2; [lia|]. rewrite E1. reflexivity.
  - destruct (now + ttl =? 0) eqn:E2; [lia|].
    destruct (now + ttl <=? 2592000) eqn:E3; [lia|]. reflexivity.
Qed.

Lemma stored_until_expiration now ttl t :
  1 <= ttl -> max_delta < now ->
  stored_at (bucket_deadline now (cbs_expiry now ttl)) t = (t <? now + ttl).
Proof. intros Ht Hn. rewrite deadline_is_expiration by assumption. reflexivity. Qed.

(* the relative encoding used beyond 30 days makes the session vanish at once: the witness of seed C11-4 *)
Lemma naive_expiry_loses_long_sessions :
  exists now ttl, 1 <= ttl /\ max_delta < now /\
    stored_at (bucket_deadline now (cbs_expiry_naive now ttl)) now = false.
Proof. exists 1700000000, 2678400. vm_compute. repeat split; discriminate. Qed.
