(* C12 -- the SessionUUID (credential epoch) of a principal as an OBSERVABLE of the model.

   auth/user.go gives every principal a SessionUUID_ on every path that creates it or changes its credentials:
     NewUser / NewUserNoChannels -> SetPassword(password)  -> UpdateSessionUUID   (also for password "" : a user
                                                               without a password hash, allow_empty_password=true)
     SetPassword(p)  (GetUser; SetPassword; Save, db.UpdatePrincipal with a password, the re-hash at login)
                                                           -> UpdateSessionUUID, with and without a hash before/after
     rest/session_api.go deleteUserSessions                -> UpdateSessionUUID
     SetDisabled(true/false)                               -> unchanged
   CreateSession copies it into the session document and AuthenticateCookie / AuthenticateOneTimeSession / GetSession
   compare the copy with the user's current value: the SessionUUID is what ties a session to the INCARNATION (and
   credential epoch) of the user it was issued to.  In AuthN.v it is the field [u_uuid], assigned from the counter
   [next_uuid]; the empty string "" (the zero value of a freshly allocated userImpl, and of user documents written before
   the field existed) is the number 0, which the counter never hands out.

   [epochs_gen] reads the SessionUUID of one named user after every operation of a history; the harness reads
   user.GetSessionUUID() of the stored document at the same points.  Real UUIDs are random strings and the model's are
   counter values, so both sides are INTERNED before they are compared: "" / 0 stays 0, the k-th distinct non-empty
   value seen in the history becomes k. *)
From SG Require Import Base.Prelude C12.AuthN.
Open Scope N_scope.

Section Epoch.
  Variable C : crypto.

  (* GetUser(u).GetSessionUUID(): None = no such user *)
  Definition epoch_of (st : state C) (u : N) : option N :=
    match alookup u (users st) with Some usr => Some (u_uuid usr) | None => None end.

  (* after every operation: the SessionUUID of the user named by the probe list *)
  Fixpoint epochs_gen (ccd rcp : bool) (st : state C) (ops : list op) (probe : list N) : list (option N) :=
    match ops, probe with
    | o :: r, u :: pr =>
        let st' := fst (step_gen C ccd rcp st o) in epoch_of st' u :: epochs_gen ccd rcp st' r pr
    | _, _ => []
    end.

  Definition epochs := epochs_gen cookie_checks_disabled rehash_checks_password.
End Epoch.

Fixpoint index_of (x : N) (l : list N) (i : N) : option N :=
  match l with
  | [] => None
  | y :: r => if y =? x then Some i else index_of x r (i + 1)
  end.

Fixpoint intern_go (seen : list N) (l : list (option N)) : list (option N) :=
  match l with
  | [] => []
  | None :: r => None :: intern_go seen r
  | Some x :: r =>
      if x =? 0 then Some 0 :: intern_go seen r
      else match index_of x seen 1 with
           | Some i => Some i :: intern_go seen r
           | None => Some (N.of_nat (length seen) + 1) :: intern_go (seen ++ [x]) r
           end
  end.

Definition intern (l : list (option N)) : list (option N) := intern_go [] l.
