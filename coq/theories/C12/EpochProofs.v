(* C12 -- the SessionUUID of a principal: never empty, never handed out twice (Epoch.v; lemmas behind the
   C12_session_uuid_* / C12_session_authenticates_issuing_incarnation theorems). *)
From SG Require Import Base.Prelude C12.AuthN C12.Instance C12.AuthNProofs C12.Epoch.
Open Scope N_scope.

Section EpochProofs.
  Variable C : crypto.
  Notation state := (state C).

  Ltac look :=
    repeat match goal with
    | H : context[alookup _ (aset _ _ _)] |- _ => rewrite alookup_aset in H
    | H : context[alookup _ (adel _ _)] |- _ => rewrite alookup_adel in H
    | |- context[alookup _ (aset _ _ _)] => rewrite alookup_aset
    | |- context[alookup _ (adel _ _)] => rewrite alookup_adel
    end.
  Ltac inv_some :=
    repeat match goal with
    | H : Some _ = Some _ |- _ => inv H
    | H : None = Some _ |- _ => discriminate H
    | H : Some _ = None |- _ => discriminate H
    end.

  (* the counter never hands out 0 (the empty SessionUUID), and no stored user carries it *)
  Definition EInv (st : state) : Prop :=
    1 <= next_uuid st /\ forall u usr, alookup u (users st) = Some usr -> 1 <= u_uuid usr.

  Lemma EInv_init capacity : EInv (init C capacity).
  Proof. split; cbn; [lia | intros; discriminate]. Qed.

  (* what a step does to users / counter, for the two password logins (the check only touches the cache) *)
  Lemma EInv_ext (st st' : state) : users st' = users st -> next_uuid st' = next_uuid st -> EInv st -> EInv st'.
  Proof. unfold EInv. intros -> ->. auto. Qed.

  Lemma EInv_step ccd rcp st o : EInv st -> EInv (fst (step_gen C ccd rcp st o)).
  Proof.
    intros E. pose proof E as [E1 E2].
    destruct o; unfold step_gen, consume.
    9: { destruct (pass_check_frame C st u p ev) as [F1 [_ [_ [F2 _]]]].
         destruct (pass_check C st u p ev) as [st1 w]; cbn [fst] in *. exact (EInv_ext _ _ F1 F2 E). }
    9: { destruct (pass_check_frame C st u p ev) as [F1 [_ [_ [F2 _]]]].
         destruct (pass_check C st u p ev) as [st1 w]; cbn [fst] in *.
         repeat dm; cbn [fst]; apply (EInv_ext st); acc; auto. }
    all: repeat dm; cbn [fst]; try exact E; unfold EInv; acc; (split; [lia|]); intros; look; repeat dm; inv_some; acc;
      eauto; try lia.
  Qed.

  Lemma EInv_run ccd rcp ops : forall st, EInv st -> EInv (run_gen C ccd rcp st ops).
  Proof.
    induction ops as [|o ops IH]; intros st H; [exact H|].
    cbn [run_gen fold_left]. apply IH. apply EInv_step. exact H.
  Qed.

  Lemma EInv_reach ccd rcp capacity ops : EInv (run_gen C ccd rcp (init C capacity) ops).
  Proof. apply EInv_run, EInv_init. Qed.

  Lemma uuid_never_empty ccd rcp capacity ops u usr :
    alookup u (users (run_gen C ccd rcp (init C capacity) ops)) = Some usr -> u_uuid usr <> 0.
  Proof. intros H. destruct (EInv_reach ccd rcp capacity ops) as [_ E]. specialize (E _ _ H). lia. Qed.

  (* the counter only grows *)
  Lemma next_uuid_step ccd rcp st o : next_uuid st <= next_uuid (fst (step_gen C ccd rcp st o)).
  Proof.
    destruct o; unfold step_gen, consume.
    9: { destruct (pass_check_frame C st u p ev) as [_ [_ [_ [F2 _]]]].
         destruct (pass_check C st u p ev) as [st1 w]; cbn [fst] in *. lia. }
    9: { destruct (pass_check_frame C st u p ev) as [_ [_ [_ [F2 _]]]].
         destruct (pass_check C st u p ev) as [st1 w]; cbn [fst] in *.
         repeat dm; cbn [fst]; acc; lia. }
    all: repeat dm; cbn [fst]; acc; lia.
  Qed.

  Lemma next_uuid_run ccd rcp ops : forall st, next_uuid st <= next_uuid (run_gen C ccd rcp st ops).
  Proof.
    induction ops as [|o ops IH]; intros st; [cbn; lia|].
    cbn [run_gen fold_left]. pose proof (next_uuid_step ccd rcp st o). specialize (IH (fst (step_gen C ccd rcp st o))).
    unfold run_gen in IH. lia.
  Qed.

  (* the operations that create a principal or change its credentials: NewUser + Save, SetPassword + Save (a password
     or none, a hash stored before or not), deleteUserSessions *)
  Definition rotates (o : op) (u : N) : Prop :=
    match o with
    | CreateUser u' _ _ _ | SetPassword u' _ _ _ | InvalidateSessions u' => u' = u
    | _ => False
    end.

  (* ... give the principal the NEXT value of the counter, whatever the password is *)
  Lemma rotation_takes_counter ccd rcp st o u :
    rotates o u -> snd (step_gen C ccd rcp st o) = ODone ->
    let st' := fst (step_gen C ccd rcp st o) in
    sessions st' = sessions st /\
    exists usr', alookup u (users st') = Some usr' /\ u_uuid usr' = next_uuid st.
  Proof.
    destruct o; cbn [rotates]; try tauto; intros <-; unfold step_gen; repeat dm; cbn [fst snd]; try discriminate;
      intros _; acc; (split; [reflexivity|]); look; rewrite N.eqb_refl; eexists; split; reflexivity.
  Qed.

  (* ... so the new SessionUUID is not empty and differs from the SessionUUID of every user and of every session
     document of the state before -- and of any earlier state of the history *)
  Lemma rotation_fresh ccd rcp st0 ops o u :
    Inv C st0 -> EInv st0 ->
    let st := run_gen C ccd rcp st0 ops in
    rotates o u -> snd (step_gen C ccd rcp st o) = ODone ->
    let st' := fst (step_gen C ccd rcp st o) in
    exists usr', alookup u (users st') = Some usr' /\ u_uuid usr' <> 0 /\
      (forall v usr, alookup v (users st0) = Some usr -> u_uuid usr <> u_uuid usr') /\
      (forall sid s, alookup sid (sessions st0) = Some s -> s_uuid s <> u_uuid usr') /\
      (forall v usr, alookup v (users st) = Some usr -> u_uuid usr <> u_uuid usr') /\
      (forall sid s, alookup sid (sessions st') = Some s -> s_uuid s <> u_uuid usr').
  Proof.
    intros I0 E0 st R H st'.
    destruct (rotation_takes_counter ccd rcp st o u R H) as [Es [usr' [Eu Euu]]].
    pose proof (Inv_run C ccd rcp ops st0 I0) as I. pose proof (EInv_run ccd rcp ops st0 E0) as E. fold st in I, E.
    pose proof (next_uuid_run ccd rcp ops st0) as M. fold st in M.
    destruct I0 as [A1 A2 _ _]. destruct I as [B1 B2 _ _]. destruct E as [E1 _].
    exists usr'. split; [exact Eu|]. rewrite Euu.
    split; [lia|]. split; [intros v usr Hv; specialize (A1 _ _ Hv); lia|].
    split; [intros sid s Hs; specialize (A2 _ _ Hs); lia|].
    split; [intros v usr Hv; specialize (B1 _ _ Hv); lia|].
    intros sid s Hs. fold st' in Es. rewrite Es in Hs. specialize (B2 _ _ Hs). lia.
  Qed.

  (* a presented session yields a user only if its SessionUUID is the NON-EMPTY SessionUUID of that user now *)
  Lemma session_auth_epoch ccd rcp st sid o w :
    EInv st -> presents o sid -> authed (snd (step_gen C ccd rcp st o)) = Some w ->
    exists s usr, alookup sid (sessions st) = Some s /\ alookup w (users st) = Some usr /\
      s_uuid s = u_uuid usr /\ s_uuid s <> 0.
  Proof.
    intros [_ E2] P H.
    destruct (session_auth_sound0 C ccd rcp st sid o w P H) as [s [usr [Es [_ [_ [Eu [Euu _]]]]]]].
    exists s, usr. repeat split; auto. specialize (E2 _ _ Eu). lia.
  Qed.
End EpochProofs.
