(* C12 -- the REST authentication layer, a thin model on top of AuthN.v:
     rest/handler.go      checkPublicAuth / setUserForPublicAuth (Basic auth, session cookie, guest fallback;
                          regularPrivs and publicPrivs handlers), providedAuthCredentials, getBasicAuth
     rest/session_api.go  handleSessionPOST (login), handleSessionDELETE (logout), createUserSession,
                          deleteUserSession / deleteUserSessionWithValidation, deleteUserSessions
     rest/api.go + db/users.go, as far as credentials go: PUT /_user/{name} (create, change password, disable),
                          DELETE /_user/{name}, PUT /_user/GUEST
   Every REST request is a (state-dependent) list of operations of the core model ([rop_ops]) -- so the core of a
   REST history IS a core history, and every theorem about core histories applies -- plus a response ([rop_out]).
   The guest user is one flag on top of the core state (the core model has only named users); the user name 0 is
   the empty name "" (getBasicAuth: Basic credentials with an empty user name are no credentials).
   Not modelled: OIDC / JWT bearer tokens (with no provider configured a Bearer header only changes the wording
   of the 401: providedAuthCredentials), DisablePasswordAuthentication, the websocket token of _blipsync (it is
   AuthOneTime of the core model), CORS, time (no request moves the clock), sessions of the guest user. *)
From SG Require Import Base.Prelude C12.AuthN.
Open Scope N_scope.

(* what a request presents *)
Record credentials := mkCreds {
  cr_basic : option (N * N);     (* Authorization: Basic base64(user:password) *)
  cr_cookie : option N;          (* Cookie: SyncGatewaySession=<session id> *)
  cr_bearer : bool               (* Authorization: Bearer ... (no OIDC provider is configured) *)
}.

(* the body of a 401 *)
Inductive reason :=
| InvalidLogin        (* ErrInvalidLogin *)
| LoginRequired       (* ErrLoginRequired *)
| SessionInvalid      (* AuthenticateCookie: no such session document *)
| SessionStale.       (* AuthenticateCookie: "Session no longer valid for user" *)

Inductive auth_outcome :=
| Served (who : option N)   (* the handler runs with h.user = that user; None = the guest user *)
| Denied (r : reason).      (* 401 *)

Inductive rop :=
| RPutUser (u p salt : N)               (* admin PUT /db/_user/u {"password": p}: create, or change the password *)
| RSetDisabled (u : N) (b : bool)       (* admin PUT /db/_user/u {"disabled": b} *)
| RDeleteUser (u : N)                   (* admin DELETE /db/_user/u *)
| RSetGuest (b : bool)                  (* admin PUT /db/_user/GUEST {"disabled": not b} *)
| RAdminSession (u sid ttl : N)         (* admin POST /db/_session {"name": u, "ttl": ttl}; sid = the id issued *)
| RLogin (u p sid : N) (onetime : bool) (* POST /db/_session[?one_time=true] {"name": u, "password": p}, no credentials *)
| RDeleteSession (sid : N)              (* admin DELETE /db/_session/sid *)
| RDeleteUserSession (u sid : N)        (* admin DELETE /db/_user/u/_session/sid *)
| RDeleteAllSessions (u : N)            (* admin DELETE /db/_user/u/_session *)
| RLogout (cr : credentials)            (* DELETE /db/_session on the public port (a regularPrivs handler) *)
| RRequest (public : bool) (cr : credentials).
                                        (* public = true : GET /db/_session      (publicPrivs handler)
                                           public = false: GET /db.ks/_changes   (regularPrivs handler) *)

Inductive rout :=
| RCode (n : N)                 (* HTTP status of an admin / login / logout request *)
| RAuth (o : auth_outcome).     (* what checkPublicAuth decided *)

Section RestModel.
  Variable C : crypto.

  Record rstate := mkR {
    core : state C;
    guest_on : bool           (* the guest user document exists and is not disabled *)
  }.

  Definition rinit (capacity : N) : rstate := mkR (init C capacity) false.

  (* RestTester: auth.bcrypt_cost = bcrypt.MinCost *)
  Definition rest_cost : N := 4.
  (* rest/session_api.go defaultSessionTTL / oneTimeSessionTTL, seconds *)
  Definition login_ttl (onetime : bool) : N := if onetime then 300 else 86400.

  (* getBasicAuth + "userName != \"\"" *)
  Definition basic_user (cr : credentials) : option (N * N) :=
    match cr_basic cr with
    | Some (u, p) => if u =? 0 then None else Some (u, p)
    | None => None
    end.

  (* the core operations checkPublicAuth performs for these credentials *)
  Definition request_ops (cr : credentials) : list op :=
    match basic_user cr with
    | Some (u, p) => [AuthPassword u p None]
    | None => match cr_cookie cr with Some sid => [AuthCookie sid] | None => [] end
    end.

  Definition cookie_reason (st : state C) (sid : N) : reason :=
    match get_session C st sid with None => SessionInvalid | Some _ => SessionStale end.

  Section Variant.
    Variables ccd rcp : bool.

    Definition out1 (st : state C) (o : op) : out := snd (step_gen C ccd rcp st o).

    (* setUserForPublicAuth: Basic auth first; then the cookie -- its error is final for a regularPrivs handler and
       ignored by a publicPrivs one; then the guest user, whom a regularPrivs handler refuses when disabled *)
    Definition decide_outcome (rs : rstate) (public : bool) (cr : credentials) : auth_outcome :=
      let st := core rs in
      match basic_user cr with
      | Some (u, p) =>
          match authed (out1 st (AuthPassword u p None)) with
          | Some w => Served (Some w)
          | None => Denied InvalidLogin
          end
      | None =>
          match cr_cookie cr with
          | Some sid =>
              match authed (out1 st (AuthCookie sid)) with
              | Some w => Served (Some w)
              | None => if public then Served None else Denied (cookie_reason st sid)
              end
          | None =>
              if public || guest_on rs then Served None
              else Denied (if cr_bearer cr then InvalidLogin else LoginRequired)
          end
      end.

    Definition decide_request (rs : rstate) (public : bool) (cr : credentials) : rstate * auth_outcome :=
      (mkR (run_gen C ccd rcp (core rs) (request_ops cr)) (guest_on rs), decide_outcome rs public cr).

    (* the core operations of a REST request, in order *)
    Definition rop_ops (rs : rstate) (o : rop) : list op :=
      let st := core rs in
      match o with
      | RPutUser u p salt =>
          match alookup u (users st) with
          | None => [CreateUser u p salt rest_cost]
          | Some _ => [SetPassword u p salt rest_cost]
          end
      | RSetDisabled u b => [SetDisabled u b]
      | RDeleteUser u => [DeleteUser u]
      | RSetGuest _ => []
      | RAdminSession u sid ttl => [CreateSession u sid ttl false]
      | RLogin u p sid onetime =>
          (* getUserFromSessionRequestBody: GetUser + AuthenticateWithReason; then makeSessionWithTTL *)
          AuthPassword u p None ::
          match authed (out1 st (AuthPassword u p None)) with
          | Some _ => [CreateSession u sid (login_ttl onetime) onetime]
          | None => []
          end
      | RDeleteSession sid => [DeleteSession sid]
      | RDeleteUserSession u sid =>
          (* deleteUserSessionWithValidation: GetSession, compare the user name, DeleteSession *)
          GetSession sid ::
          match out1 st (GetSession sid) with
          | OUser w => if w =? u then [DeleteSession sid] else []
          | _ => []
          end
      | RDeleteAllSessions u => [InvalidateSessions u]
      | RLogout cr =>
          request_ops cr ++
          match decide_outcome rs false cr, cr_cookie cr with
          | Served _, Some sid => [DeleteSession sid]     (* DeleteSessionForCookie *)
          | _, _ => []
          end
      | RRequest _ cr => request_ops cr
      end.

    Definition code_of (x : out) (ok : N) : N :=
      match x with
      | OErr ENoUser | OErr ENotFound => 404
      | OErr EBadTTL | OErr EDisabled | OErr EPwTooLong => 400
      | OErr EExists => 409
      | OErr E401 => 401
      | _ => ok
      end.

    Definition rop_out (rs : rstate) (o : rop) : rout :=
      let st := core rs in
      match o with
      | RPutUser u p salt =>
          match alookup u (users st) with
          | None => RCode (code_of (out1 st (CreateUser u p salt rest_cost)) 201)
          | Some _ => RCode (code_of (out1 st (SetPassword u p salt rest_cost)) 200)
          end
      | RSetDisabled u b =>
          (* an unknown user would have to be created, and there is no password: 400 *)
          match alookup u (users st) with None => RCode 400 | Some _ => RCode 200 end
      | RDeleteUser u => RCode (code_of (out1 st (DeleteUser u)) 200)
      | RSetGuest _ => RCode 200
      | RAdminSession u sid ttl => RCode (code_of (out1 st (CreateSession u sid ttl false)) 200)
      | RLogin u p sid onetime =>
          match authed (out1 st (AuthPassword u p None)) with Some _ => RCode 200 | None => RCode 401 end
      | RDeleteSession sid => RCode (code_of (out1 st (DeleteSession sid)) 200)
      | RDeleteUserSession u sid =>
          match out1 st (GetSession sid) with
          | OUser w => if w =? u then RCode (code_of (out1 st (DeleteSession sid)) 200) else RCode 404
          | _ => RCode 404
          end
      | RDeleteAllSessions u => RCode 200
      | RLogout cr =>
          match decide_outcome rs false cr with
          | Denied r => RAuth (Denied r)
          | Served _ => match cr_cookie cr with Some _ => RCode 200 | None => RCode 404 end
          end
      | RRequest public cr => RAuth (decide_outcome rs public cr)
      end.

    Definition rstep (rs : rstate) (o : rop) : rstate * rout :=
      (mkR (run_gen C ccd rcp (core rs) (rop_ops rs o))
           (match o with RSetGuest b => b | _ => guest_on rs end),
       rop_out rs o).

    Definition rrun (rs : rstate) (ops : list rop) : rstate :=
      fold_left (fun s o => fst (rstep s o)) ops rs.

    Fixpoint routs (rs : rstate) (ops : list rop) : list rout :=
      match ops with
      | [] => []
      | o :: r => let (rs', x) := rstep rs o in x :: routs rs' r
      end.
  End Variant.

  (* the code as it is now *)
  Definition rest_outs := routs cookie_checks_disabled rehash_checks_password.
End RestModel.

Arguments core {C}.
Arguments guest_on {C}.
Arguments mkR {C}.
