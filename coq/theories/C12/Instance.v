(* C12 -- the executable instance of the external functions used to evaluate the model on the cases the
   real code ran (C12_Corr.v) and to show that the hypotheses of the theorems are satisfiable
   (AuthNProofs.XC_ok).

   Passwords are interned by the harness: ids below 1000 are strings of at most 72 bytes (0 = ""),
   an id 1000*k + i (k >= 1) is a string longer than 72 bytes whose first 72 bytes are the string i.
   A hash is the pair (salt, password); verification compares the first 72 bytes, which is what bcrypt
   does; SHA-1 is the identity on ids (injective). *)
From SG Require Import Base.Prelude C12.AuthN.
Open Scope N_scope.

Definition xhash : Type := (N * N)%type.
Definition trunc72 (p : N) : N := p mod 1000.
Definition XC : crypto :=
  mkCrypto xhash
           (fun a b => (fst a =? fst b) && (snd a =? snd b))
           (fun salt p => (salt, p))
           (fun h q => snd h =? trunc72 q)
           (fun p => p)
           (fun p => 1000 <=? p).
