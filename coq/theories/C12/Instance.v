(* C12 -- the executable instance of the external functions used to evaluate the model on the cases the
   real code ran (C12_Corr.v) and to show that the hypotheses of the theorems are satisfiable
   (AuthNProofs.XC_ok).

   Passwords are interned by the harness: ids below 1000 are strings of at most 72 bytes (0 = ""),
   an id 1000*k + i (k >= 1) is a string longer than 72 bytes whose first 72 bytes are the string i.
   bcrypt keys a password by the first 72 bytes of the cyclic repetition of password ++ NUL, so
     - a string longer than 72 bytes is equivalent to its 72-byte prefix            (id mod 1000),
     - "ab" ++ NUL ++ "ab" (id 7) is equivalent to "ab" (id 6); id 2 also contains a NUL byte.
   [canon] maps an id to the representative of its bcrypt class (= bkey); a hash is (cost, salt, password) and
   verification compares representatives, which is what bcrypt does on this alphabet; SHA-1 is the identity
   on ids (injective).  [plain] = at most 72 bytes and NUL-free. *)
From SG Require Import Base.Prelude C12.AuthN.
Open Scope N_scope.

Definition xhash : Type := (N * N * N)%type.     (* cost, salt, password *)
Definition canon (p : N) : N := let t := p mod 1000 in if t =? 7 then 6 else t.
Definition XC : crypto :=
  mkCrypto xhash
           (fun a b => (fst (fst a) =? fst (fst b)) && (snd (fst a) =? snd (fst b)) && (snd a =? snd b))
           (fun c salt p => (c, salt, p))
           (fun h => fst (fst h))
           (fun h q => canon (snd h) =? canon q)
           (fun p => p)
           (fun p => 1000 <=? p)
           canon
           (fun p => (p <? 1000) && negb (p =? 2) && negb (p =? 7)).
