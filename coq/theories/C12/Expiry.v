(* C12 model, session storage expiry.
   auth/session.go CreateSession stores the session document with bucket expiry
   base.DurationToCbsExpiry(ttl) (base/util.go): a time-to-live of at most 30 days is passed as "seconds from
   now", a longer one as an ABSOLUTE Unix time, because that is how the bucket (Couchbase Server, rosmar
   absoluteExpiry) decodes the field: a value <= 30 days is relative to the time of the write, a larger value is
   absolute.  [ttl] is the whole number of seconds CreateSession validated (ttlSec >= 1), [now] the clock. *)
From SG Require Import Base.Prelude.
Open Scope N_scope.

Definition max_delta : N := 2592000.            (* kMaxDeltaTtl: 30 days in seconds *)

(* base.DurationToCbsExpiry *)
Definition cbs_expiry (now ttl : N) : N := if ttl <=? max_delta then ttl else now + ttl.

(* the bucket's reading of an expiry field written at time [now]; 0 = never expires *)
Definition bucket_deadline (now e : N) : option N :=
  if e =? 0 then None else if e <=? max_delta then Some (now + e) else Some e.

(* the seeded variant (uint32(ttlSec) for every ttl), kept for the witness in C12_Refuted-style example below *)
Definition cbs_expiry_naive (now ttl : N) : N := ttl.

(* a session document is readable at time [t] iff the bucket has not expired it *)
Definition stored_at (deadline : option N) (t : N) : bool :=
  match deadline with None => true | Some d => t <? d end.
