(* C12 correspondence: histories executed on the real auth.Authenticator by the Go harness
   (harness/auth/verif_c12_test.go) are re-run here on the model with vm_compute and the outputs compared;
   likewise REST histories executed through rest.NewRestTester (harness/auth/verif_c12_rest_test.go) on Rest.v.

   The external functions are instantiated by Instance.XC. *)
From SG Require Export Base.Prelude Base.Bytes C12.AuthN C12.Instance C12.Rest C12.Epoch.
Open Scope N_scope.

Definition err_eqb (a b : err) : bool :=
  match a, b with
  | ENoUser, ENoUser | EExists, EExists | EPwTooLong, EPwTooLong | EBadTTL, EBadTTL
  | EDisabled, EDisabled | ENotFound, ENotFound | E401, E401 => true
  | _, _ => false
  end.

Definition out_eqb (a b : out) : bool :=
  match a, b with
  | ODone, ODone => true
  | OErr x, OErr y => err_eqb x y
  | OPass w n, OPass w' n' => option_eqb N.eqb w w' && (n =? n')
  | OCookie w r, OCookie w' r' => option_eqb N.eqb w w' && Bool.eqb r r'
  | OUser w, OUser w' => w =? w'
  | ORehash a, ORehash b => Bool.eqb a b
  | OExp a, OExp b => option_eqb N.eqb a b
  | _, _ => false
  end.

Definition reason_eqb (a b : reason) : bool :=
  match a, b with
  | InvalidLogin, InvalidLogin | LoginRequired, LoginRequired
  | SessionInvalid, SessionInvalid | SessionStale, SessionStale => true
  | _, _ => false
  end.

Definition rout_eqb (a b : rout) : bool :=
  match a, b with
  | RCode n, RCode m => n =? m
  | RAuth (Served w), RAuth (Served w') => option_eqb N.eqb w w'
  | RAuth (Denied r), RAuth (Denied r') => reason_eqb r r'
  | _, _ => false
  end.

Inductive case :=
| CRun (capacity : N) (ops : list op) (observed : list out)
(* a history with, after EVERY operation, the SessionUUID read from the stored document of the user named in [probe]
   (the user the operation was about), interned as in Epoch.v: None = no such user, Some 0 = the EMPTY SessionUUID,
   Some k = the k-th distinct non-empty SessionUUID seen in this history *)
| CRunE (capacity : N) (ops : list op) (observed : list out) (probe : list N) (uuids : list (option N))
(* a REST history and the responses the real handlers gave (status codes; for authenticated requests: who the
   handler ran as, or the reason of the 401) *)
| CRest (capacity : N) (ops : list rop) (observed : list rout).

(* [step] is the model of the code as it is now (AuthN.cookie_checks_disabled) *)
Definition check (c : case) : bool :=
  match c with
  | CRun capacity ops observed => list_eqb out_eqb (outs XC (init XC capacity) ops) observed
  | CRunE capacity ops observed probe uuids =>
      list_eqb out_eqb (outs XC (init XC capacity) ops) observed &&
      (N.of_nat (length probe) =? N.of_nat (length ops)) &&
      list_eqb (option_eqb N.eqb) (intern (epochs XC (init XC capacity) ops probe)) uuids
  | CRest capacity ops observed => list_eqb rout_eqb (rest_outs XC (rinit XC capacity) ops) observed
  end.

Definition mismatches (cs : list case) : list N := failing check cs.
